(* C16 — executable model of the pieces shared by Shark's multi-class SVM solvers
   (include/shark/Algorithms/QP/{Impl/AnalyticProblems.h, QpMcSimplexDecomp.h, QpMcBoxDecomp.h,
   QpSparseArray.h}).  Definitions only.

   The arithmetic record [ops], [solve_edge] (solveQuadraticEdge), [gain2], [best_edge] and
   [solve_2d] (solveQuadratic2DBox) are the ones of C08Model.v (same free functions of
   Impl/AnalyticProblems.h); this file adds
     * solveQuadratic2DTriangle, literally (repaired version of /repo ab716aec: relative determinant
       test, current point kept when feasible and no edge improves, post-hoc snapping),
     * the alpha / per-example-sum part of QpMcSimplexDecomp::updateSMO incl. updateVarsum,
     * the alpha part of QpMcBoxDecomp::updateSMO,
     * QpSparseArray rows as finite maps: operator() lookup and the merge scan the solvers use.
   Three further constants are needed besides the record: -DBL_MAX, 1e-14 and 1e-6.
     * maximumGainQuadratic2D / maximumGainQuadratic2DOnLine (working-set selection gains).
   Variables are addressed as (example, p) pairs; the C++ flat index and its shrinking permutation
   are bookkeeping that does not enter the constraints. *)
From Coq Require Import Arith Bool List.
From SharkV Require Import C08Model.
Import ListNotations.

Section Model.
Variable A : Type.
Variable O : ops A.
Variable lowest : A.                  (* -DBL_MAX : initial maxGain of the triangle solver for an infeasible start *)
Variable tiny : A.                    (* 1e-14 : updateVarsum *)
Local Notation zero := (o_zero O).
Local Notation add := (o_add O).
Local Notation sub := (o_sub O).
Local Notation mul := (o_mul O).
Local Notation div := (o_div O).
Local Notation ltb := (o_ltb O).
Local Notation thr := (o_thr O).
Local Notation two := (o_two O).

(* ---------------- solveQuadratic2DTriangle ---------------- *)

(* the three edge candidates: alphai = 0, alphaj = 0, alphai + alphaj = maxSum *)
Definition tri_edges (ai aj gi gj Qii Qij Qjj M : A) : list (A * A) :=
  let e0 := solve_edge O aj (add gj (mul Qij ai)) Qjj zero M in
  let e1 := solve_edge O ai (add gi (mul Qij aj)) Qii zero M in
  let ggi := add (sub gi (mul (sub M ai) Qii)) (mul aj Qij) in
  let ggj := add (sub gj (mul (sub M ai) Qij)) (mul aj Qjj) in
  let e2 := solve_edge O zero (sub ggj ggi) (sub (add Qii Qjj) (mul two Qij)) zero M in
  [ (zero, e0); (e1, zero); (sub M e2, e2) ].

(* bool feasible = alphai >= 0 && alphaj >= 0 && alphai + alphaj <= maxSum   (x >= y spelled !(x < y)) *)
Definition tri_feasible (ai aj M : A) : bool :=
  negb (ltb ai zero) && negb (ltb aj zero) && negb (ltb M (add ai aj)).

(* since /repo commit ab716aec: EdgeSolution best = {alphai, alphaj};
   maxGain = feasible ? 0.0 : -DBL_MAX;  for(k) if(gain > maxGain) ...
   (before: maxGain = -1 and best = solution[0]: a losing edge candidate could be accepted) *)
Definition tri_best (ai aj gi gj Qii Qij Qjj M : A) : A * A :=
  let es := tri_edges ai aj gi gj Qii Qij Qjj M in
  best_edge O ai aj gi gj Qii Qij Qjj es (if tri_feasible ai aj M then zero else lowest) (ai, aj).

(* "improve numerical stability": snapping into the corners / onto the axes *)
Definition tri_snap (M : A) (c : A * A) : A * A :=
  let eps := mul thr M in
  let c1 := if ltb (fst c) eps then (zero, snd c)
            else if ltb (sub M (fst c)) eps then (M, zero) else c in
  if ltb (snd c1) eps then (fst c1, zero)
  else if ltb (sub M (snd c1)) eps then (zero, M) else c1.

Definition tri_free (ai aj gi gj Qii Qij Qjj M : A) : bool * (A * A) :=
  let det := sub (mul Qii Qjj) (mul Qij Qij) in
  let mui := div (sub (mul Qjj gi) (mul Qij gj)) det in
  let muj := div (sub (mul Qii gj) (mul Qij gi)) det in
  let oi := add ai mui in
  let oj := add aj muj in
  (* since ab716aec the rank test is relative: detQ > 1.e-12 * Qii * Qjj *)
  (ltb (mul (mul thr Qii) Qjj) det && (ltb zero oi && ltb zero oj && ltb (add oi oj) M), (oi, oj)).

Definition solve_tri (ai aj gi gj Qii Qij Qjj M : A) : A * A :=
  let f := tri_free ai aj gi gj Qii Qij Qjj M in
  if fst f then snd f
  else tri_snap M (tri_best ai aj gi gj Qii Qij Qjj M).

(* ---------------- per-variable state of the multi-class solvers ---------------- *)

Definition upd2 (f : nat -> nat -> A) (e p : nat) (x : A) : nat -> nat -> A :=
  fun e' p' => if (e' =? e) && (p' =? p) then x else f e' p'.

(* varsum = 0; for(p) varsum += alpha[var[p]] *)
Fixpoint asum (f : nat -> A) (m : nat) : A :=
  match m with 0 => zero | S k => add (asum f k) (f k) end.

Variable P : nat.                     (* m_cardP *)
Variable C : A.                       (* m_C *)

Record mcst := mkmc {
  al : nat -> nat -> A;               (* m_alpha, by (example, p) *)
  vs : nat -> A                       (* m_examples[e].varsum *)
}.

(* QpMcSimplexDecomp::updateVarsum(e, mu), executed after alpha has been overwritten *)
Definition upd_varsum (old : A) (al' : nat -> nat -> A) (e : nat) (mu : A) : A :=
  let v1 := add old mu in
  if ltb thr v1 && ltb (mul thr C) (sub C v1) then v1
  else
    let r := asum (al' e) P in
    let r1 := if ltb r tiny then zero else r in
    if ltb (sub C r1) (mul tiny C) then C else r1.

(* v == w *)
Definition simplex_step1 (s : mcst) (e p : nat) (g Q : A) : mcst :=
  let a := al s e p in
  let ub := add (sub C (vs s e)) a in
  let a' := solve_edge O a g Q zero ub in
  let mu := add (sub zero a) a' in
  let al' := upd2 (al s) e p a' in
  mkmc al' (updf (vs s) e (upd_varsum (vs s e) al' e mu)).

(* v != w *)
Definition simplex_step2 (s : mcst) (e p e' p' : nat) (gv gw Qvv Qvw Qww : A) : mcst :=
  let av := al s e p in
  let aw := al s e' p' in
  if e =? e' then
    if p =? p' then simplex_step1 s e p gv Qvv
    else
      let ub := add (add (sub C (vs s e)) av) aw in
      let r := solve_tri av aw gv gw Qvv Qvw Qww ub in
      let muv := add (sub zero av) (fst r) in
      let muw := add (sub zero aw) (snd r) in
      let al' := upd2 (upd2 (al s) e p (fst r)) e p' (snd r) in
      mkmc al' (updf (vs s) e (upd_varsum (vs s e) al' e (add muv muw)))
  else
    let Uv := add (sub C (vs s e)) av in
    let Uw := add (sub C (vs s e')) aw in
    let r := solve_2d O av aw gv gw Qvv Qvw Qww zero Uv zero Uw in
    let muv := add (sub zero av) (fst r) in
    let muw := add (sub zero aw) (snd r) in
    let al' := upd2 (upd2 (al s) e p (fst r)) e' p' (snd r) in
    let vs1 := updf (vs s) e (upd_varsum (vs s e) al' e muv) in
    mkmc al' (updf vs1 e' (upd_varsum (vs s e') al' e' muw)).

(* the numbers the solver feeds into a step (gradient entries and the 2x2 block of the big
   matrix) are arbitrary inputs of the model: the constraints must hold whatever they are *)
Inductive mcop :=
| Op1 (e p : nat) (g Q : A)
| Op2 (e p e' p' : nat) (gv gw Qvv Qvw Qww : A).

Definition simplex_step (s : mcst) (o : mcop) : mcst :=
  match o with
  | Op1 e p g Q => simplex_step1 s e p g Q
  | Op2 e p e' p' gv gw Qvv Qvw Qww => simplex_step2 s e p e' p' gv gw Qvv Qvw Qww
  end.
Definition simplex_run (s : mcst) (ops : list mcop) : mcst := fold_left simplex_step ops s.

(* QpMcBoxDecomp::updateSMO: every variable lives in [0, C] *)
Definition box_step (a : nat -> nat -> A) (o : mcop) : nat -> nat -> A :=
  match o with
  | Op1 e p g Q => upd2 a e p (solve_edge O (a e p) g Q zero C)
  | Op2 e p e' p' gv gw Qvv Qvw Qww =>
    if (e =? e') && (p =? p') then upd2 a e p (solve_edge O (a e p) gv Qvv zero C)
    else
      let r := solve_2d O (a e p) (a e' p') gv gw Qvv Qvw Qww zero C zero C in
      upd2 (upd2 a e p (fst r)) e' p' (snd r)
  end.
Definition box_run (a : nat -> nat -> A) (ops : list mcop) : nat -> nat -> A := fold_left box_step ops a.

(* ---------------- working-set gains (Impl/AnalyticProblems.h) ---------------- *)

Variable micro : A.                   (* 1e-6 *)

(* maximumGainQuadratic2D(Qii, Qjj, Qij, gi, gj) with the default minDetFrac = 1e-12 *)
Definition max_gain_2d (Qii Qjj Qij gi gj : A) : A :=
  let diagQ := mul Qii Qjj in
  let detQ := sub diagQ (mul Qij Qij) in
  let reg := negb (ltb (mul thr diagQ) detQ) in            (* detQ <= minDetFrac*diagQ *)
  let Qii' := if reg then add Qii micro else Qii in
  let Qjj' := if reg then add Qjj micro else Qjj in
  let detQ' := if reg then sub (mul Qii' Qjj') (mul Qij Qij) else detQ in
  div (add (sub (mul (mul gj gj) Qii') (mul (mul (mul two gj) gi) Qij)) (mul (mul gi gi) Qjj')) detQ'.

(* maximumGainQuadratic2DOnLine(Qii, Qjj, Qij, gi, gj) with the default minCurvature = 1e-12 *)
Definition max_gain_line (Qii Qjj Qij gi gj : A) : A :=
  let g := sub gi gj in
  if negb (ltb zero g) then zero                            (* g <= 0 *)
  else
    let Q := maxA O (sub (add Qii Qjj) (mul two Qij)) thr in
    div (mul g g) Q.

(* ---------------- QpSparseArray rows ---------------- *)

(* operator()(row, col): first explicit entry with that index, else the row default *)
Fixpoint sa_lookup (es : list (nat * A)) (def : A) (col : nat) : A :=
  match es with
  | [] => def
  | (i, v) :: t => if i =? col then v else sa_lookup t def col
  end.

(* the merge scan of selectWorkingSet / maxGainBox / maxGainSimplex:
     for(p = p0, b = 0; p < p0 + w; p++){ q = def; if(b != size && p == entry[b].index){ q = entry[b].value; ++b; } ... } *)
Fixpoint sa_scan (es : list (nat * A)) (def : A) (p w : nat) : list A :=
  match w with
  | 0 => []
  | S w' =>
    match es with
    | (i, v) :: t => if p =? i then v :: sa_scan t def (S p) w' else def :: sa_scan es def (S p) w'
    | [] => def :: sa_scan [] def (S p) w'
    end
  end.

End Model.

Arguments tri_edges {A}. Arguments tri_feasible {A}. Arguments tri_best {A}. Arguments tri_snap {A}. Arguments tri_free {A}.
Arguments solve_tri {A}. Arguments upd2 {A}. Arguments asum {A}. Arguments mkmc {A}. Arguments al {A}.
Arguments vs {A}. Arguments upd_varsum {A}. Arguments simplex_step1 {A}. Arguments simplex_step2 {A}.
Arguments Op1 {A}. Arguments Op2 {A}. Arguments simplex_step {A}. Arguments simplex_run {A}.
Arguments box_step {A}. Arguments box_run {A}. Arguments sa_lookup {A}. Arguments sa_scan {A}.
Arguments max_gain_2d {A}. Arguments max_gain_line {A}.
