(* C06, extension round — NegativeAUC: the sweep of NegativeAUC.h equals pair counting with ties counted one half,
   for every order std::sort may leave equal scores in.  Axiom-free (lists, nat, Q). *)
From Coq Require Import List Arith ZArith QArith Qabs Bool Lia Lqa Permutation Setoid Morphisms Sorted.
From SharkV Require Import ListAux C03Model C06Model C06Proofs C06Aux C06LossProofs C06ExtModel.
Import ListNotations.
Open Scope Q_scope.

(* ---- small facts ---- *)
Lemma Qn_S n : Qn (S n) == Qn n + 1.
Proof. unfold Qn. rewrite Nat2Z.inj_succ, <- Z.add_1_r, inject_Z_plus. reflexivity. Qed.
Lemma Qn_0 : Qn 0 == 0.
Proof. reflexivity. Qed.
Lemma Qn_nonneg n : 0 <= Qn n.
Proof. unfold Qn, Qle. simpl. lia. Qed.
Lemma Qn_le a b : (a <= b)%nat -> Qn a <= Qn b.
Proof. intros H. unfold Qn, Qle. simpl. lia. Qed.
Lemma Qn_gt0 n : (0 < n)%nat -> 0 < Qn n.
Proof. intros H. unfold Qn, Qlt. simpl. lia. Qed.
Lemma Qn_mult a b : Qn (a * b) == Qn a * Qn b.
Proof. unfold Qn. rewrite Nat2Z.inj_mul, inject_Z_mult. reflexivity. Qed.
Lemma Qn_plus a b : Qn (a + b) == Qn a + Qn b.
Proof. unfold Qn. rewrite Nat2Z.inj_add, inject_Z_plus. reflexivity. Qed.

Definition above (k : Q) (a : aucpair) : bool := if Qlt_le_dec k (fst a) then true else false.

Lemma filter_and_le {X} (f g : X -> bool) l : (length (filter (fun a => f a && g a) l) <= length (filter f l))%nat.
Proof. induction l as [|a l IH]; simpl; [lia|]. destruct (f a), (g a); simpl; lia. Qed.

Lemma filter_snoc {X} (f : X -> bool) l e : filter f (l ++ [e]) = filter f l ++ (if f e then [e] else []).
Proof. rewrite filter_app. reflexivity. Qed.

Lemma is_neg_pos e : is_neg e = negb (is_pos e).
Proof. reflexivity. Qed.

(* ---- the trapezoid in closed form ---- *)
Lemma auc_trap_val P N st : (0 < P)%nat -> (0 < N)%nat -> (sFPp st <= sFP st)%nat ->
  auc_trap P N st == (Qn (sFP st) - Qn (sFPp st)) * (Qn (sTP st) + Qn (sTPp st)) / (2 * (Qn P * Qn N)).
Proof.
  intros HP HN Hle. unfold auc_trap, trap_area.
  assert (HP' := Qn_gt0 _ HP). assert (HN' := Qn_gt0 _ HN).
  assert (HP0 := Qn_pos _ HP). assert (HN0 := Qn_pos _ HN).
  assert (Hd : Qn (sFP st) / Qn N - Qn (sFPp st) / Qn N == (Qn (sFP st) - Qn (sFPp st)) / Qn N) by (field; assumption).
  rewrite Hd, Qabs_pos.
  - field. split; assumption.
  - apply Qn_le in Hle. unfold Qdiv. apply Qmult_le_0_compat; [lra|]. apply Qlt_le_weak, Qinv_lt_0_compat, HN'.
Qed.

Lemma auc_trap_zero P N st : sFPp st = sFP st -> auc_trap P N st == 0.
Proof.
  intros H. unfold auc_trap, trap_area. rewrite H.
  setoid_replace (Qn (sFP st) / Qn N - Qn (sFP st) / Qn N) with 0 by ring. simpl. ring.
Qed.

(* ---- sums of pair scores against a list whose keys are all >= k ---- *)
Lemma pair_score_gt a b : b < a -> pair_score a b = 1.
Proof. intros H. unfold pair_score. destruct (Qlt_le_dec b a); [reflexivity | lra]. Qed.
Lemma pair_score_eq a b : a == b -> pair_score a b = 1 # 2.
Proof.
  intros H. unfold pair_score. destruct (Qlt_le_dec b a); [lra|].
  destruct (Qeq_bool a b) eqn:E; [reflexivity|]. apply Qeq_bool_neq in E. contradiction.
Qed.
Lemma pair_score_lt a b : a < b -> pair_score a b = 0.
Proof.
  intros H. unfold pair_score. destruct (Qlt_le_dec b a); [lra|].
  destruct (Qeq_bool a b) eqn:E; [|reflexivity]. apply Qeq_bool_eq in E. lra.
Qed.

(* a new positive with key x == k against the negatives seen so far *)
Lemma row_sum pre k x : (forall a, In a pre -> k <= fst a) -> x == k ->
  qsum (map (pair_score x) (neg_scores pre))
  == (1 # 2) * (Qn (length (filter is_neg pre)) - Qn (length (filter (fun a => is_neg a && above k a) pre))).
Proof.
  intros Hge Hx. unfold neg_scores. induction pre as [|a pre IH]; simpl.
  - ring.
  - assert (IH' := IH (fun b Hb => Hge b (or_intror Hb))). clear IH.
    assert (Ha := Hge a (or_introl eq_refl)).
    destruct (is_neg a); simpl; [|exact IH'].
    unfold above at 1. destruct (Qlt_le_dec k (fst a)) as [Hl|Hl]; simpl.
    + rewrite pair_score_lt by lra. rewrite IH', !Qn_S. ring.
    + rewrite pair_score_eq by lra. rewrite IH', !Qn_S. ring.
Qed.

(* a new negative with key x == k against the positives seen so far *)
Lemma col_sum pre k x : (forall a, In a pre -> k <= fst a) -> x == k ->
  qsum (map (fun p => pair_score p x) (pos_scores pre))
  == (1 # 2) * (Qn (length (filter is_pos pre)) + Qn (length (filter (fun a => is_pos a && above k a) pre))).
Proof.
  intros Hge Hx. unfold pos_scores. induction pre as [|a pre IH]; simpl.
  - reflexivity.
  - assert (IH' := IH (fun b Hb => Hge b (or_intror Hb))). clear IH.
    assert (Ha := Hge a (or_introl eq_refl)).
    destruct (is_pos a); simpl; [|exact IH'].
    unfold above at 1. destruct (Qlt_le_dec k (fst a)) as [Hl|Hl]; simpl.
    + rewrite pair_score_gt by lra. rewrite IH', !Qn_S. ring.
    + rewrite pair_score_eq by lra. rewrite IH', !Qn_S. ring.
Qed.

Lemma pair_count_snoc_pos pre e : is_pos e = true ->
  pair_count (pre ++ [e]) == pair_count pre + qsum (map (pair_score (fst e)) (neg_scores pre)).
Proof.
  intros H. unfold pair_count, pos_scores, neg_scores. rewrite !filter_snoc, is_neg_pos, H. simpl.
  rewrite app_nil_r, map_app, map_app, qsum_app. simpl. rewrite Qplus_0_r. reflexivity.
Qed.

Lemma pair_count_snoc_neg pre e : is_pos e = false ->
  pair_count (pre ++ [e]) == pair_count pre + qsum (map (fun p => pair_score p (fst e)) (pos_scores pre)).
Proof.
  intros H. unfold pair_count, pos_scores, neg_scores. rewrite !filter_snoc, is_neg_pos, H. simpl.
  rewrite app_nil_r. rewrite <- qsum_map_add. apply qsum_map_ext. intros a.
  rewrite !map_app, qsum_app. simpl. rewrite Qplus_0_r. reflexivity.
Qed.

(* ---- the invariant of the sweep, relative to the current group key k ---- *)
Definition Inv (P N : nat) (pre : list aucpair) (st : aucst) (k : Q) : Prop :=
  sTP st = length (filter is_pos pre) /\ sFP st = length (filter is_neg pre) /\
  (forall a, In a pre -> k <= fst a) /\
  sTPp st = length (filter (fun a => is_pos a && above k a) pre) /\
  sFPp st = length (filter (fun a => is_neg a && above k a) pre) /\
  sA st + auc_trap P N st == pair_count pre / (Qn P * Qn N).

Lemma above_false k e : fst e == k -> above k e = false.
Proof. intros H. unfold above. destruct (Qlt_le_dec k (fst e)); [lra | reflexivity]. Qed.

Lemma count_inv P N pre st k e : (0 < P)%nat -> (0 < N)%nat ->
  Inv P N pre st k -> fst e == k -> Inv P N (pre ++ [e]) (auc_count st e) k.
Proof.
  intros HP HN (Htp & Hfp & Hge & Htpp & Hfpp & Har) He.
  assert (HP' := Qn_gt0 _ HP). assert (HN' := Qn_gt0 _ HN).
  assert (Hle : (sFPp st <= sFP st)%nat) by (rewrite Hfp, Hfpp; apply filter_and_le).
  rewrite auc_trap_val in Har by assumption.
  unfold auc_count. destruct (is_pos e) eqn:Hpos.
  - unfold Inv. cbn [sTP sFP sTPp sFPp sA].
    rewrite !filter_snoc, is_neg_pos, Hpos, (above_false k e He). simpl. rewrite !app_nil_r, app_length. simpl.
    repeat split; try lia; try assumption.
    + intros a Ha. apply in_app_or in Ha. destruct Ha as [Ha|[<-|[]]]; [apply Hge, Ha | lra].
    + rewrite auc_trap_val by (cbn [sFP sFPp]; assumption). cbn [sTP sFP sTPp sFPp].
      rewrite pair_count_snoc_pos by assumption. rewrite (row_sum pre k (fst e) Hge He).
      rewrite <- Hfp, <- Hfpp, Qn_S.
      setoid_replace ((pair_count pre + (1 # 2) * (Qn (sFP st) - Qn (sFPp st))) / (Qn P * Qn N))
        with (pair_count pre / (Qn P * Qn N) + (1 # 2) * (Qn (sFP st) - Qn (sFPp st)) / (Qn P * Qn N)) by (field; split; lra).
      rewrite <- Har. field. split; lra.
  - unfold Inv. cbn [sTP sFP sTPp sFPp sA].
    rewrite !filter_snoc, is_neg_pos, Hpos, (above_false k e He). simpl. rewrite !app_nil_r, app_length. simpl.
    repeat split; try lia; try assumption.
    + intros a Ha. apply in_app_or in Ha. destruct Ha as [Ha|[<-|[]]]; [apply Hge, Ha | lra].
    + rewrite auc_trap_val by (cbn [sFP sFPp]; lia). cbn [sTP sFP sTPp sFPp].
      rewrite pair_count_snoc_neg by assumption. rewrite (col_sum pre k (fst e) Hge He).
      rewrite <- Htp, <- Htpp, Qn_S.
      setoid_replace ((pair_count pre + (1 # 2) * (Qn (sTP st) + Qn (sTPp st))) / (Qn P * Qn N))
        with (pair_count pre / (Qn P * Qn N) + (1 # 2) * (Qn (sTP st) + Qn (sTPp st)) / (Qn P * Qn N)) by (field; split; lra).
      rewrite <- Har. field. split; lra.
Qed.

Lemma flush_inv P N pre st k k' :
  Inv P N pre st k -> k' < k -> Inv P N pre (auc_flush P N st k') k'.
Proof.
  intros (Htp & Hfp & Hge & Htpp & Hfpp & Har) Hlt.
  assert (Hab : forall (f : aucpair -> bool), filter (fun a => f a && above k' a) pre = filter f pre).
  { intros f. apply filter_ext_in. intros a Ha. specialize (Hge a Ha). unfold above.
    destruct (Qlt_le_dec k' (fst a)); [apply andb_true_r | lra]. }
  unfold Inv, auc_flush. cbn [sTP sFP sTPp sFPp sA]. rewrite !Hab.
  repeat split; try assumption.
  - intros a Ha. specialize (Hge a Ha). lra.
  - rewrite (auc_trap_zero P N (mkst _ _ _ _ _ _)) by reflexivity. rewrite <- Har. ring.
Qed.

Lemma flush_init P N k' : Inv P N [] (auc_flush P N auc_init k') k'.
Proof.
  unfold Inv, auc_flush. cbn. repeat split; try reflexivity.
  intros a [].
Qed.

(* the whole-loop invariant *)
Definition WInv (P N : nat) (pre : list aucpair) (st : aucst) : Prop :=
  match sPrev st with
  | None => pre = [] /\ st = auc_init
  | Some k => Inv P N pre st k /\ exists a, In a pre /\ fst a == k
  end.

Lemma sPrev_count st e : sPrev (auc_count st e) = sPrev st.
Proof. unfold auc_count. destruct (is_pos e); reflexivity. Qed.

Lemma step_inv P N pre st e : (0 < P)%nat -> (0 < N)%nat ->
  WInv P N pre st -> (forall a, In a pre -> fst e <= fst a) -> WInv P N (pre ++ [e]) (auc_step P N st e).
Proof.
  intros HP HN H Hle. unfold WInv in *. unfold auc_step.
  destruct (sPrev st) as [k|] eqn:Hprev.
  - destruct H as [HI (a & Ha & Hak)]. unfold key_changed.
    destruct (Qeq_bool (fst e) k) eqn:E; simpl.
    + apply Qeq_bool_eq in E. rewrite sPrev_count, Hprev. split.
      * apply count_inv; assumption.
      * exists a. split; [apply in_or_app; left; exact Ha | exact Hak].
    + apply Qeq_bool_neq in E. rewrite sPrev_count. cbn [auc_flush sPrev]. split.
      * apply count_inv; try assumption; [|reflexivity]. apply (flush_inv P N pre st k); [exact HI|].
        specialize (Hle a Ha). destruct (Qlt_le_dec (fst e) k) as [Hl|Hl]; [exact Hl|].
        exfalso. apply E. apply Qle_antisym; lra.
      * exists e. split; [apply in_or_app; right; left; reflexivity | reflexivity].
  - destruct H as [-> ->]. cbn [sPrev auc_init key_changed]. rewrite sPrev_count. cbn [auc_flush sPrev]. split.
    + apply (count_inv P N [] _ (fst e) e HP HN); [apply flush_init | reflexivity].
    + exists e. split; [left; reflexivity | reflexivity].
Qed.

Definition key_ge (a b : aucpair) : Prop := fst b <= fst a.      (* a before b in a non-increasing list *)

Lemma sweep_inv P N : (0 < P)%nat -> (0 < N)%nat -> forall suf pre st,
  WInv P N pre st -> (forall a b, In a pre -> In b suf -> fst b <= fst a) -> StronglySorted key_ge suf ->
  WInv P N (pre ++ suf) (fold_left (auc_step P N) suf st).
Proof.
  intros HP HN suf. induction suf as [|e suf IH]; intros pre st HW Hps Hs.
  - simpl. rewrite app_nil_r. exact HW.
  - simpl. replace (pre ++ e :: suf) with ((pre ++ [e]) ++ suf) by (rewrite <- app_assoc; reflexivity).
    inversion Hs as [|? ? Hs' Hall]; subst.
    apply IH.
    + apply step_inv; try assumption. intros a Ha. apply Hps; [exact Ha | left; reflexivity].
    + intros a b Ha Hb. apply in_app_or in Ha. destruct Ha as [Ha|[<-|[]]].
      * apply Hps; [exact Ha | right; exact Hb].
      * rewrite Forall_forall in Hall. apply (Hall b Hb).
    + exact Hs'.
Qed.

(* the sweep on ANY non-increasing arrangement = pair counting / (P N), whatever P, N > 0 are used to normalise *)
Theorem auc_sweep_sorted P N L : (0 < P)%nat -> (0 < N)%nat -> StronglySorted key_ge L ->
  auc_sweep P N L == pair_count L / (Qn P * Qn N).
Proof.
  intros HP HN Hs. unfold auc_sweep.
  assert (H := sweep_inv P N HP HN L [] auc_init (conj eq_refl eq_refl) (fun a b Ha _ => match Ha with end) Hs).
  simpl in H. unfold WInv in H. destruct (sPrev (fold_left (auc_step P N) L auc_init)).
  - destruct H as [(_ & _ & _ & _ & _ & Har) _]. exact Har.
  - destruct H as [-> ->]. cbn [sA auc_init]. rewrite (auc_trap_zero P N auc_init) by reflexivity.
    unfold pair_count. simpl. unfold Qdiv. ring.
Qed.

(* ---- pair counting does not depend on the order of the list ---- *)
Lemma filter_perm {X} (f : X -> bool) l l' : Permutation l l' -> Permutation (filter f l) (filter f l').
Proof.
  induction 1; simpl.
  - constructor.
  - destruct (f x); [constructor|]; assumption.
  - destruct (f x), (f y); try apply perm_swap; apply Permutation_refl.
  - eapply Permutation_trans; eassumption.
Qed.

Theorem pair_count_perm L L' : Permutation L L' -> pair_count L == pair_count L'.
Proof.
  intros H. unfold pair_count.
  assert (Hp : Permutation (pos_scores L) (pos_scores L')) by (apply Permutation_map, filter_perm, H).
  assert (Hn : Permutation (neg_scores L) (neg_scores L')) by (apply Permutation_map, filter_perm, H).
  rewrite (qsum_perm _ _ (Permutation_map _ Hp)).
  apply qsum_map_ext. intros a. apply qsum_perm, Permutation_map, Hn.
Qed.

(* ---- the model's sort produces a non-increasing permutation ---- *)
Lemma ins_desc_perm x l : Permutation (x :: l) (ins_desc x l).
Proof.
  induction l as [|y r IH]; simpl; [apply Permutation_refl|].
  destruct (key_gt x y); [apply Permutation_refl|].
  eapply Permutation_trans; [apply perm_swap | apply perm_skip, IH].
Qed.
Lemma sort_desc_perm l : Permutation l (sort_desc l).
Proof.
  induction l as [|x l IH]; simpl; [constructor|].
  eapply Permutation_trans; [apply perm_skip, IH | apply ins_desc_perm].
Qed.
Lemma ins_desc_sorted x l : StronglySorted key_ge l -> StronglySorted key_ge (ins_desc x l).
Proof.
  induction l as [|y r IH]; intros Hs; simpl.
  - constructor; constructor.
  - inversion Hs as [|? ? Hs' Hall]; subst. unfold key_gt. destruct (Qlt_le_dec (fst y) (fst x)) as [Hl|Hl].
    + constructor; [exact Hs|]. constructor; [unfold key_ge; lra|].
      rewrite Forall_forall in *. intros b Hb. specialize (Hall b Hb). unfold key_ge in *. lra.
    + constructor; [apply IH, Hs'|]. rewrite Forall_forall in *. intros b Hb.
      apply (Permutation_in _ (Permutation_sym (ins_desc_perm x r))) in Hb. destruct Hb as [<-|Hb]; [exact Hl | apply Hall, Hb].
Qed.
Lemma sort_desc_sorted l : StronglySorted key_ge (sort_desc l).
Proof. induction l as [|x l IH]; simpl; [constructor | apply ins_desc_sorted, IH]. Qed.

(* for every arrangement std::sort may produce: a permutation of L that is non-increasing in the key *)
Theorem auc_sweep_any_sorted_permutation P N L L' : (0 < P)%nat -> (0 < N)%nat ->
  Permutation L L' -> StronglySorted key_ge L' ->
  auc_sweep P N L' == pair_count L / (Qn P * Qn N).
Proof.
  intros HP HN Hp Hs. rewrite (auc_sweep_sorted P N L' HP HN Hs). rewrite (pair_count_perm L L' Hp). reflexivity.
Qed.

(* ---- pair counting written with cardinalities ---- *)
Lemma list_prod_count (f : Q -> Q -> Q) (g : Q * Q -> bool) (c : Q) la lb :
  (forall a b, f a b == if g (a, b) then c else 0) ->
  qsum (map (fun a => qsum (map (f a) lb)) la) == c * Qn (length (filter g (list_prod la lb))).
Proof.
  intros Hf. induction la as [|a la IH]; simpl.
  - change (Qn 0) with 0. ring.
  - rewrite filter_app, app_length, Qn_plus, IH.
    assert (H : qsum (map (f a) lb) == c * Qn (length (filter g (map (fun y => (a, y)) lb)))).
    { clear IH. induction lb as [|b lb IHb]; simpl; [change (Qn 0) with 0; ring|]. rewrite Hf. destruct (g (a, b)); simpl; rewrite IHb, ?Qn_S; ring. }
    rewrite H. ring.
Qed.

Theorem pair_count_cardinalities L : pair_count L == Qn (n_wins L) + (1 # 2) * Qn (n_ties L).
Proof.
  unfold pair_count, n_wins, n_ties, pairs.
  rewrite <- (Qmult_1_l (Qn (length (filter (fun ab => if Qlt_le_dec (snd ab) (fst ab) then true else false) _)))).
  rewrite <- (list_prod_count (fun a b => if Qlt_le_dec b a then 1 else 0) _ 1) by (intros a b; simpl; destruct (Qlt_le_dec b a); reflexivity).
  rewrite <- (list_prod_count (fun a b => if Qeq_bool a b then 1 # 2 else 0) _ (1 # 2)) by (intros a b; simpl; destruct (Qeq_bool a b); reflexivity).
  rewrite <- qsum_map_add. apply qsum_map_ext. intros a. rewrite <- qsum_map_add. apply qsum_map_ext. intros b.
  unfold pair_score. destruct (Qlt_le_dec b a) as [Hl|Hl].
  - destruct (Qeq_bool a b) eqn:E; [apply Qeq_bool_eq in E; lra | ring].
  - destruct (Qeq_bool a b); ring.
Qed.

Lemma length_list_prod {X Y} (la : list X) (lb : list Y) : length (list_prod la lb) = (length la * length lb)%nat.
Proof. apply prod_length. Qed.

(* wins + ties + losses = P * N *)
Theorem pair_trichotomy L : (n_wins L + n_ties L + n_losses L = length (pos_scores L) * length (neg_scores L))%nat.
Proof.
  unfold n_wins, n_ties, n_losses, pairs. rewrite <- length_list_prod.
  induction (list_prod (pos_scores L) (neg_scores L)) as [|[a b] l IH]; simpl; [reflexivity|].
  destruct (Qlt_le_dec b a) as [H1|H1], (Qlt_le_dec a b) as [H2|H2]; try lra;
    destruct (Qeq_bool a b) eqn:E; simpl; try lia;
    try (apply Qeq_bool_eq in E; lra).
  apply Qeq_bool_neq in E. exfalso. apply E. apply Qle_antisym; assumption.
Qed.

(* ---- the `invert` flag: scores negated = the roles of the two classes exchanged ---- *)
Lemma auc_list_labels inv es (f : aucpair -> bool) : (forall a b : aucpair, snd a = snd b -> f a = f b) ->
  length (filter f (auc_list inv es)) = length (filter f (auc_list false es)).
Proof.
  intros Hf. unfold auc_list. induction es as [|e es IH]; simpl; [reflexivity|].
  rewrite (Hf (if inv then - snd e else snd e, fst e) (snd e, fst e) eq_refl).
  destruct (f (snd e, fst e)); simpl; rewrite IH; reflexivity.
Qed.

Lemma pair_score_opp a b : pair_score (- a) (- b) == 1 - pair_score a b.
Proof.
  unfold pair_score. destruct (Qlt_le_dec (- b) (- a)) as [H1|H1], (Qlt_le_dec b a) as [H2|H2]; try lra.
  - destruct (Qeq_bool a b) eqn:E; [apply Qeq_bool_eq in E; lra | ring].
  - destruct (Qeq_bool (- a) (- b)) eqn:E; [apply Qeq_bool_eq in E; lra | ring].
  - destruct (Qeq_bool a b) eqn:E, (Qeq_bool (- a) (- b)) eqn:E'; try ring.
    + apply Qeq_bool_eq in E. apply Qeq_bool_neq in E'. exfalso. apply E'. rewrite E. reflexivity.
    + apply Qeq_bool_neq in E. exfalso. apply E. lra.
    + apply Qeq_bool_neq in E. exfalso. apply E. lra.
Qed.

Lemma scores_inverted (f : aucpair -> bool) es : (forall a b : aucpair, snd a = snd b -> f a = f b) ->
  map fst (filter f (auc_list true es)) = map Qopp (map fst (filter f (auc_list false es))).
Proof.
  intros Hf. unfold auc_list. induction es as [|e es IH]; simpl; [reflexivity|].
  rewrite (Hf (- snd e, fst e) (snd e, fst e) eq_refl).
  destruct (f (snd e, fst e)); simpl; rewrite IH; reflexivity.
Qed.

Lemma qsum_const {X} (c : Q) (l : list X) : qsum (map (fun _ => c) l) == c * Qn (length l).
Proof. induction l as [|x l IH]; simpl; [change (Qn 0) with 0; ring | rewrite IH, Qn_S; ring]. Qed.

Theorem pair_count_inverted es :
  pair_count (auc_list true es)
  == Qn (length (pos_scores (auc_list false es))) * Qn (length (neg_scores (auc_list false es))) - pair_count (auc_list false es).
Proof.
  unfold pair_count, pos_scores, neg_scores.
  rewrite (scores_inverted is_pos es) by (intros a b H; unfold is_pos; rewrite H; reflexivity).
  rewrite (scores_inverted is_neg es) by (intros a b H; unfold is_neg, is_pos; rewrite H; reflexivity).
  set (ps := map fst (filter is_pos (auc_list false es))). set (ns := map fst (filter is_neg (auc_list false es))).
  rewrite map_map.
  assert (H : forall a, qsum (map (pair_score (- a)) (map Qopp ns)) == Qn (length ns) - qsum (map (pair_score a) ns)).
  { intros a. rewrite map_map. rewrite (qsum_map_ext _ (fun b => 1 - pair_score a b)) by (intros b; apply pair_score_opp).
    rewrite qsum_map_sub, qsum_const. ring. }
  rewrite (qsum_map_ext _ _ ps H). rewrite qsum_map_sub, qsum_const. ring.
Qed.

(* ---- NegativeAUC::eval ---- *)
Definition auc_P (es : list (nat * Q)) : nat := length (filter (fun e => (0 <? fst e)%nat) es).
Definition auc_N (es : list (nat * Q)) : nat := length (filter (fun e => negb (0 <? fst e)%nat) es).

Lemma auc_P_list inv es : length (filter is_pos (auc_list inv es)) = auc_P es.
Proof.
  unfold auc_P, auc_list, is_pos. induction es as [|e es IH]; cbn [filter map length fst snd]; [reflexivity|].
  destruct (0 <? fst e)%nat; cbn [length]; rewrite IH; reflexivity.
Qed.
Lemma auc_N_list inv es : length (filter is_neg (auc_list inv es)) = auc_N es.
Proof.
  unfold auc_N, auc_list, is_neg, is_pos. induction es as [|e es IH]; cbn [filter map length fst snd]; [reflexivity|].
  destruct (0 <? fst e)%nat; cbn [length negb]; rewrite IH; reflexivity.
Qed.

(* complete description of the result *)
Theorem nauc_eval_spec inv (d : @data (nat * Q)) :
  let es := elems d in
  (es = [] -> nauc_eval inv d = AucExc) /\
  (es <> [] -> (auc_P es = 0 \/ auc_N es = 0)%nat -> nauc_eval inv d = AucNaN) /\
  (es <> [] -> (0 < auc_P es)%nat -> (0 < auc_N es)%nat ->
     exists a, nauc_eval inv d = AucVal a /\
               a == - (pair_count (auc_list inv es) / (Qn (auc_P es) * Qn (auc_N es)))).
Proof.
  cbv zeta. unfold nauc_eval. destruct (elems d) as [|e0 es0] eqn:He.
  - split; [reflexivity|]. split; intros H; exfalso; apply H; reflexivity.
  - set (es := e0 :: es0). split; [discriminate|]. rewrite auc_P_list, auc_N_list.
    split.
    + intros _ [H|H]; rewrite H; [reflexivity | rewrite orb_true_r; reflexivity].
    + intros _ HP HN.
      destruct (auc_P es =? 0)%nat eqn:E1; [apply Nat.eqb_eq in E1; lia|].
      destruct (auc_N es =? 0)%nat eqn:E2; [apply Nat.eqb_eq in E2; lia|]. cbn [orb].
      eexists. split; [reflexivity|].
      rewrite (auc_sweep_any_sorted_permutation _ _ (auc_list inv es) _ HP HN (sort_desc_perm _) (sort_desc_sorted _)). reflexivity.
Qed.

(* the result depends on the data only through the multiset of its elements: any two batch partitions, and indeed any
   two orders, of the same elements give the same result *)
Definition aucres_eq (x y : aucres) : Prop :=
  match x, y with AucExc, AucExc => True | AucNaN, AucNaN => True | AucVal a, AucVal b => a == b | _, _ => False end.

Lemma auc_list_perm inv es es' : Permutation es es' -> Permutation (auc_list inv es) (auc_list inv es').
Proof. apply Permutation_map. Qed.

Theorem nauc_eval_order_invariant inv (d1 d2 : @data (nat * Q)) :
  Permutation (elems d1) (elems d2) -> aucres_eq (nauc_eval inv d1) (nauc_eval inv d2).
Proof.
  intros Hp.
  assert (HP : auc_P (elems d1) = auc_P (elems d2)) by (apply Permutation_length, filter_perm, Hp).
  assert (HN : auc_N (elems d1) = auc_N (elems d2)) by (apply Permutation_length, filter_perm, Hp).
  destruct (nauc_eval_spec inv d1) as (A1 & B1 & C1). destruct (nauc_eval_spec inv d2) as (A2 & B2 & C2).
  destruct (elems d1) as [|e1 l1] eqn:E1.
  - apply Permutation_nil in Hp. rewrite A1, A2 by (reflexivity || exact Hp). exact I.
  - assert (Hne2 : elems d2 <> []) by (intros H; rewrite H in Hp; apply Permutation_sym, Permutation_nil in Hp; discriminate).
    assert (Hne1 : e1 :: l1 <> []) by discriminate.
    destruct (Nat.eq_dec (auc_P (e1 :: l1)) 0) as [Hz|Hz]; [rewrite B1, B2 by (try assumption; left; congruence); exact I|].
    destruct (Nat.eq_dec (auc_N (e1 :: l1)) 0) as [Hz'|Hz']; [rewrite B1, B2 by (try assumption; right; congruence); exact I|].
    destruct (C1 Hne1 ltac:(lia) ltac:(lia)) as (a1 & -> & Ha1).
    destruct (C2 Hne2 ltac:(lia) ltac:(lia)) as (a2 & -> & Ha2).
    simpl. rewrite Ha1, Ha2, <- HP, <- HN. rewrite (pair_count_perm _ _ (auc_list_perm inv _ _ Hp)). reflexivity.
Qed.

Theorem nauc_eval_batching_invariant inv (d1 d2 : @data (nat * Q)) :
  elems d1 = elems d2 -> nauc_eval inv d1 = nauc_eval inv d2.
Proof. intros H. unfold nauc_eval. rewrite H. reflexivity. Qed.

(* the value in the usual words *)
Theorem nauc_eval_pair_counting inv (d : @data (nat * Q)) a :
  nauc_eval inv d = AucVal a ->
  let L := auc_list inv (elems d) in
  (0 < auc_P (elems d))%nat /\ (0 < auc_N (elems d))%nat /\
  a == - ((Qn (n_wins L) + (1 # 2) * Qn (n_ties L)) / (Qn (auc_P (elems d)) * Qn (auc_N (elems d)))).
Proof.
  intros H. cbv zeta. destruct (nauc_eval_spec inv d) as (A & B & C).
  destruct (elems d) as [|e l] eqn:E; [rewrite A in H by reflexivity; discriminate|].
  assert (Hne : e :: l <> []) by discriminate.
  destruct (Nat.eq_dec (auc_P (e :: l)) 0) as [Hz|Hz]; [rewrite B in H by (try assumption; left; assumption); discriminate|].
  destruct (Nat.eq_dec (auc_N (e :: l)) 0) as [Hz'|Hz']; [rewrite B in H by (try assumption; right; assumption); discriminate|].
  destruct (C Hne ltac:(lia) ltac:(lia)) as (a' & Ha' & Hv). rewrite Ha' in H. injection H as <-.
  split; [lia|]. split; [lia|]. rewrite Hv, pair_count_cardinalities. reflexivity.
Qed.

(* invert: AUC of the exchanged roles = 1 - AUC *)
Theorem nauc_eval_invert (d : @data (nat * Q)) a b :
  nauc_eval false d = AucVal a -> nauc_eval true d = AucVal b -> b == - (1) - a.
Proof.
  intros Ha Hb. destruct (nauc_eval_spec false d) as (A & B & C). destruct (nauc_eval_spec true d) as (A' & B' & C').
  destruct (elems d) as [|e l] eqn:E; [rewrite A in Ha by reflexivity; discriminate|].
  assert (Hne : e :: l <> []) by discriminate.
  destruct (Nat.eq_dec (auc_P (e :: l)) 0) as [Hz|Hz]; [rewrite B in Ha by (try assumption; left; assumption); discriminate|].
  destruct (Nat.eq_dec (auc_N (e :: l)) 0) as [Hz'|Hz']; [rewrite B in Ha by (try assumption; right; assumption); discriminate|].
  destruct (C Hne ltac:(lia) ltac:(lia)) as (a' & Ha' & Hv). rewrite Ha' in Ha. injection Ha as <-.
  destruct (C' Hne ltac:(lia) ltac:(lia)) as (b' & Hb' & Hw). rewrite Hb' in Hb. injection Hb as <-.
  rewrite Hv, Hw, pair_count_inverted. unfold pos_scores, neg_scores. rewrite !map_length, auc_P_list, auc_N_list.
  assert (HP := Qn_gt0 (auc_P (e :: l)) ltac:(lia)). assert (HN := Qn_gt0 (auc_N (e :: l)) ltac:(lia)).
  field. split; lra.
Qed.

(* ---- the entry point on vector-valued predictions: the two exceptions, then the last of at most two columns ---- *)
Theorem nauc_eval_vec_spec inv (d : @data (nat * vec)) :
  match elems d with
  | [] => nauc_eval_vec inv d = AucExc
  | e0 :: _ =>
    let dim := length (snd e0) in
    ((3 <= dim)%nat -> nauc_eval_vec inv d = AucExc) /\
    ((dim < 3)%nat ->
       nauc_eval_vec inv d = nauc_eval inv [map (fun e => (fst e, nth (dim - 1) (snd e) 0)) (elems d)])
  end.
Proof.
  unfold nauc_eval_vec. destruct (elems d) as [|e0 es] eqn:E; [reflexivity|]. cbv zeta. split.
  - intros H. destruct (3 <=? length (snd e0))%nat eqn:L; [reflexivity|]. apply Nat.leb_gt in L. lia.
  - intros H. destruct (3 <=? length (snd e0))%nat eqn:L; [apply Nat.leb_le in L; lia|].
    apply nauc_eval_batching_invariant. unfold elems. simpl. rewrite app_nil_r, <- concat_map.
    change (concat d) with (elems d). rewrite E. reflexivity.
Qed.

Theorem nauc_eval_vec_batching_invariant inv (d1 d2 : @data (nat * vec)) :
  elems d1 = elems d2 -> nauc_eval_vec inv d1 = nauc_eval_vec inv d2.
Proof.
  intros H. assert (S1 := nauc_eval_vec_spec inv d1). assert (S2 := nauc_eval_vec_spec inv d2). rewrite <- H in S2.
  destruct (elems d1) as [|e0 es]; [rewrite S1, S2; reflexivity|]. cbv zeta in *.
  destruct (le_lt_dec 3 (length (snd e0))) as [L|L].
  - rewrite (proj1 S1 L), (proj1 S2 L). reflexivity.
  - rewrite (proj2 S1 L), (proj2 S2 L). reflexivity.
Qed.
