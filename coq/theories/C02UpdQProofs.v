(* C02 — rank-one update of a Cholesky factor over Qc: a concrete run (hypotheses of chol_update_correct satisfiable) and the
   order laws of section UpdOrd (C02UpdProofs.v) for the Qc instantiation. *)
From Coq Require Import QArith Qcanon List Lia.
From SharkV Require Import C02Model C02Proofs C02Q C02QProofs C02PstrfQProofs C02UpdModel C02UpdProofs.
Import ListNotations.

(* L = [[1,0],[0,2]], alpha = 1, beta = 3, v = (1,4):  L' = [[2,0],[6,4]],  L' L'^T = L L^T + 3 v v^T = [[4,12],[12,52]] *)
Definition ex_upd_L : mat Qc := of_rows Qc ps_F [[qc_make 1 1; Q2Qc 0]; [Q2Qc 0; qc_make 2 1]].
Definition ex_upd_v : vec Qc := of_list Qc ps_F [qc_make 1 1; qc_make 4 1].
Example ex_update_runs :
  match chol_update Qc ps_F 2 (qc_make 1 1) (qc_make 3 1) ex_upd_L ex_upd_v with
  | UOk _ L' sq => qc_eq_list (concat (to_rows Qc 2 2 L')) [qc_make 2 1; Q2Qc 0; qc_make 6 1; qc_make 4 1] = true /\
                   qc_eq_list sq [qc_make 1 1; qc_make 4 1; qc_make 16 1] = true
  | UExc _ _ _ => False
  end.
Proof. vm_compute. split; reflexivity. Qed.
Lemma ex_update_hypotheses_satisfiable :
  exists L' sq, chol_update Qc ps_F 2 (qc_make 1 1) (qc_make 3 1) ex_upd_L ex_upd_v = UOk Qc L' sq /\ usq_ok Qc ps_F sq /\
    (forall j, (j < 2)%nat -> ex_upd_L j j <> fzero ps_F).
Proof.
  pose proof ex_update_runs as H.
  destruct (chol_update Qc ps_F 2 (qc_make 1 1) (qc_make 3 1) ex_upd_L ex_upd_v) as [L' sq|]; [|contradiction].
  exists L', sq. split; [reflexivity|]. destruct H as [_ H]. apply qc_eq_list_eq in H. subst sq. split.
  - repeat constructor; apply Qc_is_canon; vm_compute; reflexivity.
  - intros j Hj. destruct j as [|[|j]]; [| |lia]; intros Z; apply (f_equal (fun q => Qnum (this q))) in Z; vm_compute in Z; discriminate.
Qed.
(* the documented exception: L = I, alpha = 1, beta = -1, v = (2,0): x = 1 - 4 <= 0 *)
Example ex_update_throws :
  match chol_update Qc ps_F 2 (qc_make 1 1) (qc_make (-1) 1) (of_rows Qc ps_F [[qc_make 1 1; Q2Qc 0]; [Q2Qc 0; qc_make 1 1]])
          (of_list Qc ps_F [qc_make 2 1; Q2Qc 0]) with
  | UExc _ j _ => j = 0%nat | _ => False end.
Proof. vm_compute. reflexivity. Qed.

(* ---------- order laws of section UpdOrd over Qc ---------- *)
Local Open Scope Qc_scope.
Lemma qc_pos_iff : forall sq x, pos Qc (qc_ops sq) x <-> 0 < x.
Proof. intros. unfold pos. cbn. apply qc_ltb_true. Qed.
Lemma qc_nonneg_iff : forall sq x, nonneg Qc (qc_ops sq) x <-> 0 <= x.
Proof. intros. unfold nonneg. cbn. apply qc_leb_true. Qed.
Lemma qc_pos_1 : forall sq, pos Qc (qc_ops sq) (fone (qc_ops sq)).
Proof. intros. apply qc_pos_iff. cbn. reflexivity. Qed.
Lemma qc_pos_sq : forall sq x, x <> fzero (qc_ops sq) -> pos Qc (qc_ops sq) (fmul (qc_ops sq) x x).
Proof.
  intros sq x H. apply qc_pos_iff. cbn in *. destruct (Qcle_lt_or_eq _ _ (qc_sq_nonneg x)) as [L|E]; [exact L|].
  exfalso. symmetry in E. destruct (Qcmult_integral _ _ E); contradiction.
Qed.
Lemma qc_pos_add : forall sq x y, pos Qc (qc_ops sq) x -> nonneg Qc (qc_ops sq) y -> pos Qc (qc_ops sq) (fadd (qc_ops sq) x y).
Proof.
  intros sq x y Hx Hy. apply qc_pos_iff in Hx. apply qc_nonneg_iff in Hy. apply qc_pos_iff. cbn.
  eapply Qclt_le_trans; [exact Hx|]. replace x with (x + 0) at 1 by ring. apply Qcplus_le_compat; [apply Qcle_refl|exact Hy].
Qed.
Lemma qc_nn_mul : forall sq x y, nonneg Qc (qc_ops sq) x -> nonneg Qc (qc_ops sq) y -> nonneg Qc (qc_ops sq) (fmul (qc_ops sq) x y).
Proof.
  intros sq x y Hx Hy. apply qc_nonneg_iff in Hx. apply qc_nonneg_iff in Hy. apply qc_nonneg_iff. cbn.
  replace 0 with (0 * y) by ring. apply Qcmult_le_compat_r; assumption.
Qed.
Lemma qc_nn_sq : forall sq x, nonneg Qc (qc_ops sq) (fmul (qc_ops sq) x x).
Proof. intros. apply qc_nonneg_iff. cbn. apply qc_sq_nonneg. Qed.
Lemma qc_nn_div : forall sq x y, nonneg Qc (qc_ops sq) x -> pos Qc (qc_ops sq) y -> nonneg Qc (qc_ops sq) (fdiv (qc_ops sq) x y).
Proof.
  intros sq x y Hx Hy. apply qc_nonneg_iff in Hx. apply qc_pos_iff in Hy. apply qc_nonneg_iff. cbn.
  apply (Qcmult_lt_0_le_reg_r _ _ y Hy). rewrite Qcmult_0_l.
  assert (Hy0 : y <> 0) by (intros Z; rewrite Z in Hy; exact (Qclt_not_le _ _ Hy (Qcle_refl 0))).
  replace (x / y * y) with x by (field; exact Hy0). exact Hx.
Qed.
Lemma qc_pos_nle : forall sq x, pos Qc (qc_ops sq) x -> fleb (qc_ops sq) x (fzero (qc_ops sq)) = false.
Proof.
  intros sq x Hx. apply qc_pos_iff in Hx. cbn. unfold qc_leb. destruct (Qclt_le_dec 0 x) as [H|H]; [reflexivity|].
  exfalso. exact (Qclt_not_le _ _ Hx H).
Qed.
