(* C02 — pivoted Cholesky (remora kernels::pstrf<lower>): executable model, definitions only.

   Mirrors  /repo/include/shark/LinAlg/BLAS/kernels/default/pstrf.hpp  pstrf(A, P, lower) as repaired (stop test
   `pivotValue <= epsilon`):
     * stopping threshold: max_diag = A(0,0); max_diag = std::max(max_diag, std::abs(A(i,i))); epsilon = m*m*eps*max_diag
       -> [ps_max_diag], [pstrf_eps]
     * one column of the panel loop: pivot values refreshed from the diagonal (first column of a block) or updated by the
       square of the column just finished, std::max_element (first largest), P(k+j) = pivot and swap_rows + swap_columns of
       the WHOLE matrix + swap of the pivot values when pivot != j, stop test (clears the trailing block, returns k+j),
       sqrt, lazy update of the column by gemv with the columns k..k+j-1 of the block (only if j > 0), division by the
       diagonal, clearing of the row right of the diagonal                        -> [pstrf_step]
     * the panel loop of one block (unblocked kernel)                             -> [pstrf_panel]
     * the blocked driver: for every block the panel, then gemm(blockLL, trans(blockLL), blockLR, -1) on the whole
       trailing square (both triangles)                                           -> [pstrf_blk], [pstrf]
   All row/column numbers are absolute (the code's Ak(i,j) is M (k+i) (k+j)).  The matrix is the full square matrix (both
   triangles are read: the symmetric swap moves upper-triangle entries into the lower triangle).
   GHOST: the results carry the list of pivot values the run took the square root of (not in the C++; printed by nobody):
   the theorems ask the square root to be exact on exactly these values.
   Arithmetic: the record [ops A] of C02Model.v, plus [fabs] (std::abs) for the threshold. *)
From Coq Require Import List Arith Bool.
From SharkV Require Import C02Model C02BlkModel.
Import ListNotations.

Section Pstrf.
Variable A : Type.
Variable F : ops A.
Variable fabs : A -> A.
Local Notation "0" := (fzero F).
Local Notation "1" := (fone F).
Local Infix "+" := (fadd F).
Local Infix "*" := (fmul F).
Local Infix "-" := (fsub F).
Local Infix "/" := (fdiv F).
Local Notation mat := (mat A).
Local Notation vec := (vec A).
Local Notation sumr := (sumr A F).
Local Notation memo2 := (memo2 A F).
Local Notation memo := (memo A F).

(* ---------- the stopping threshold ---------- *)
(* max_diag after the loop i = 1 .. k;  std::max(a,b) = (a < b) ? b : a *)
Fixpoint ps_max_diag (M : mat) (k : nat) : A :=
  match k with
  | O => M O O
  | S k' => let md := ps_max_diag M k' in let a := fabs (M (S k') (S k')) in if fltb F md a then a else md
  end.
Fixpoint fofnat (k : nat) : A := match k with O => 0 | S k' => fofnat k' + 1 end.
(* epsilon = m * m * std::numeric_limits<value_type>::epsilon() * max_diag  (epsm = the machine epsilon) *)
Definition pstrf_eps (n : nat) (epsm : A) (M : mat) : A := fofnat (Nat.mul n n) * epsm * ps_max_diag M (Nat.sub n 1).

(* ---------- std::max_element(pivots.begin()+j, pivots.end()): entries c .. c+k scanned upwards, a later entry wins only if
   the current largest is strictly smaller ---------- *)
Fixpoint pmax_scan (pv : vec) (c k : nat) : nat :=
  match k with
  | O => c
  | S k' => let p := pmax_scan pv c k' in let i := Nat.add c (S k') in if fltb F (pv p) (pv i) then i else p
  end.

Inductive psresult :=
| PsStop (r : nat) (M : mat) (P : pvec) (piv : list A)       (* return r  (inside the panel loop) *)
| PsGo (M : mat) (P : pvec) (pv : vec) (piv : list A).       (* loop goes on; pv = pivotValues *)

(* A().swap_rows(c,p); A().swap_columns(c,p) *)
Definition swap_full (n c p : nat) (M : mat) : mat := memo2 n (fun i j => M (tr c p i) (tr c p j)).

(* pivot values at the start of the iteration for column c of the block starting at k *)
Definition ps_pivots (n k c : nat) (M : mat) (pv : vec) : vec :=
  memo n (fun i => if Nat.eqb c k then (if Nat.leb k i && Nat.ltb i n then M i i else pv i)
                   else if Nat.leb c i && Nat.ltb i n then pv i - M i (Nat.sub c 1) * M i (Nat.sub c 1) else pv i).

(* subrange(Ak,j,m-k,j,m-k).clear() *)
Definition ps_clear (n c : nat) (M1 : mat) : mat :=
  fun i j => if Nat.leb c i && Nat.ltb i n && Nat.leb c j && Nat.ltb j n then 0 else M1 i j.
(* Ak(j,j) = d; colLowerPart updated by gemv with the columns k..c-1 (only if j > 0) and divided by d; row c right of the
   diagonal cleared *)
Definition ps_column (n k c : nat) (d : A) (M1 : mat) : mat :=
  fun i j =>
    if Nat.eqb j c then
      (if Nat.eqb i c then d
       else if Nat.ltb c i && Nat.ltb i n then
         (if Nat.eqb c k then M1 i c / d
          else (M1 i c + fopp F 1 * sumr k c (fun t => M1 i t * M1 c t)) / d)
       else M1 i j)
    else if Nat.eqb i c && Nat.ltb c j && Nat.ltb j n then 0
    else M1 i j.

(* one iteration of the panel loop: column c = k + j of the block starting at column k *)
Definition pstrf_step (n k c : nat) (eps : A) (M : mat) (P : pvec) (pv : vec) (piv : list A) : psresult :=
  let pv1 := ps_pivots n k c M pv in
  let p := pmax_scan pv1 c (Nat.sub (Nat.sub n 1) c) in
  let M1 := if Nat.eqb p c then M else swap_full n c p M in
  let P1 := if Nat.eqb p c then P else updp P c p in
  let pv2 := if Nat.eqb p c then pv1 else memo n (fun i => pv1 (tr c p i)) in
  let pivot := pv2 c in
  if fleb F pivot eps then PsStop c (memo2 n (ps_clear n c M1)) P1 piv
  else PsGo (memo2 n (ps_column n k c (fsqrt F pivot) M1)) P1 pv2 (piv ++ [pivot]).

(* the panel loop: columns k .. k+j-1 of the block starting at k *)
Fixpoint pstrf_panel (n k : nat) (eps : A) (j : nat) (M : mat) (P : pvec) (pv : vec) (piv : list A) : psresult :=
  match j with
  | O => PsGo M P pv piv
  | S j' =>
    match pstrf_panel n k eps j' M P pv piv with
    | PsGo M1 P1 pv1 piv1 => pstrf_step n k (Nat.add k j') eps M1 P1 pv1 piv1
    | r => r
    end
  end.

(* gemm(blockLL, trans(blockLL), blockLR, -1) with blockLL = A[e..n, k..e), blockLR = A[e..n, e..n) *)
Definition ps_trailing (n k e : nat) (M : mat) : mat :=
  memo2 n (fun i j => if Nat.leb e i && Nat.ltb i n && Nat.leb e j && Nat.ltb j n
                      then M i j + fopp F 1 * sumr k e (fun t => M i t * M j t) else M i j).

(* b iterations of  for(k = 0; k < m; k += block_size) *)
Fixpoint pstrf_blk (bs n : nat) (eps : A) (b : nat) (M : mat) (P : pvec) (pv : vec) (piv : list A) : psresult :=
  match b with
  | O => PsGo M P pv piv
  | S b' =>
    match pstrf_blk bs n eps b' M P pv piv with
    | PsGo M1 P1 pv1 piv1 =>
      let k := Nat.mul b' bs in
      let cs := Nat.min (Nat.sub n k) bs in
      match pstrf_panel n k eps cs M1 P1 pv1 piv1 with
      | PsGo M2 P2 pv2 piv2 =>
        PsGo (if Nat.ltb (Nat.add k cs) n then ps_trailing n k (Nat.add k bs) M2 else M2) P2 pv2 piv2
      | r => r
      end
    | r => r
    end
  end.

(* pstrf(A, P, lower) with P the identity on entry (permutation_matrix P(n)); bs = block_size (20 in the code).
   Result: (rank, matrix left behind, P, ghost list of the pivots) *)
Definition pstrf (bs n : nat) (eps : A) (M : mat) : nat * mat * pvec * list A :=
  match pstrf_blk bs n eps (Nat.div (Nat.sub (Nat.add n bs) 1) bs) M (fun i => i) (fun _ => 0) [] with
  | PsStop r M' P piv => (r, M', P, piv)
  | PsGo M' P _ piv => (n, M', P, piv)
  end.
Definition pstrf_full (bs n : nat) (epsm : A) (M : mat) : nat * mat * pvec * list A :=
  pstrf bs n (pstrf_eps n epsm M) M.

End Pstrf.
