(* C16 — deactivateVariable / deactivateExample as coded keep the variable table and the example table
   consistent: both stay permutations, the cross indices agree on both sides (variable v belongs to example e at
   class position p and in slot b of the active list), the first `active` slots are exactly the active variables,
   active variables belong to active examples.  The operations are characterised as a renaming of the variable
   positions (transposition v <-> last active position) composed with a slot transposition inside the example,
   resp. a transposition of two example positions. *)
From Coq Require Import QArith Arith Bool List Lia.
From SharkV Require Import C08Model C08Defs C08Aux C16Model C16State C16StateDefs C16GradProofs.
Import ListNotations.

Section Tables.
Variable P n : nat.
Notation Inv_tab := (Inv_tab P n).
Notation nv := (nv P n).

(* ---------------- uniqueness of the table entries ---------------- *)
Lemma evar_eq (s : qmst) e p x : Inv_tab s -> (e < n)%nat -> (p < P)%nat -> (x < nv)%nat ->
  (evar s e p = x <-> e = vex s x /\ p = vp s x).
Proof.
  intros I He Hp Hx. destruct (it_var _ _ _ I e p He Hp) as (_ & A & B).
  destruct (it_v _ _ _ I x Hx) as (_ & _ & _ & V & _). split.
  - intros E. rewrite E in A, B. split; symmetry; assumption.
  - intros [-> ->]. exact V.
Qed.

Lemma eavar_eq (s : qmst) e b x : Inv_tab s -> (e < n)%nat -> (b < P)%nat -> (x < nv)%nat ->
  (eavar s e b = x <-> e = vex s x /\ b = vidx s x).
Proof.
  intros I He Hb Hx. destruct (it_avar _ _ _ I e b He Hb) as (_ & A & B).
  destruct (it_v _ _ _ I x Hx) as (_ & _ & _ & _ & V). split.
  - intros E. rewrite E in A, B. split; symmetry; assumption.
  - intros [-> ->]. exact V.
Qed.

(* slot transposition inside example ev *)
Definition tau (ev iv ih e b : nat) : nat := if (e =? ev)%nat then sw iv ih b else b.

Lemma tau_invol ev iv ih e b : tau ev iv ih e (tau ev iv ih e b) = b.
Proof. unfold tau. destruct (e =? ev)%nat; [apply sw_invol | reflexivity]. Qed.
Lemma tau_lt ev iv ih e b : (iv < P)%nat -> (ih < P)%nat -> (b < P)%nat -> (tau ev iv ih e b < P)%nat.
Proof. intros. unfold tau. destruct (e =? ev)%nat; [apply sw_lt; assumption | assumption]. Qed.

(* ---------------- deactivateVariable ---------------- *)
Section DeactVar.
Variable s : qmst.
Variable v : nat.
Hypothesis I : Inv_tab s.
Hypothesis Hv : (v < actvar s)%nat.

Let ev := vex s v.
Let iv := vidx s v.
Let pv := vp s v.
Let ih := (eact s ev - 1)%nat.
Let h := eavar s ev ih.
Let j := (actvar s - 1)%nat.
Let ej := vex s j.
Let pj := vp s j.
Let sg := sw v j.
Let idx1 := updf (updf (vidx s) v ih) h iv.
Let avar1 := upd2 (upd2 (eavar s) ev iv (eavar s ev ih)) ev ih (eavar s ev iv).
Let ij := idx1 j.

Lemma dv_vn : (v < nv)%nat. Proof. pose proof (it_av _ _ _ I). lia. Qed.
Lemma dv_jn : (j < nv)%nat. Proof. pose proof (it_av _ _ _ I). unfold j. lia. Qed.
Lemma dv_ja : (j < actvar s)%nat. Proof. unfold j. lia. Qed.
Lemma dv_vj : (v <= j)%nat. Proof. unfold j. lia. Qed.

Lemma dv_v : (ev < n)%nat /\ (pv < P)%nat /\ (iv < P)%nat /\ evar s ev pv = v /\ eavar s ev iv = v.
Proof. apply (it_v _ _ _ I v dv_vn). Qed.

Lemma dv_iv_act : (iv < eact s ev)%nat.
Proof.
  destruct dv_v as (A & _ & B & _ & E). apply (it_act _ _ _ I ev iv A B). rewrite E. exact Hv.
Qed.

Lemma dv_ih : (ih < P)%nat /\ (ih < eact s ev)%nat /\ (iv <= ih)%nat /\ eact s ev = S ih.
Proof.
  destruct dv_v as (A & _ & _). pose proof dv_iv_act. pose proof (it_actle _ _ _ I ev A). unfold ih. lia.
Qed.

Lemma dv_h : (h < nv)%nat /\ vex s h = ev /\ vidx s h = ih /\ (h < actvar s)%nat.
Proof.
  destruct dv_v as (A & _). destruct dv_ih as (B & C & _).
  destruct (it_avar _ _ _ I ev ih A B) as (X & Y & Z). repeat split; try assumption.
  apply (it_act _ _ _ I ev ih A B). exact C.
Qed.

Lemma dv_j : (ej < n)%nat /\ (pj < P)%nat /\ (vidx s j < P)%nat /\ evar s ej pj = j /\ eavar s ej (vidx s j) = j.
Proof. apply (it_v _ _ _ I j dv_jn). Qed.

(* step 1 of the code: the slot transposition *)
Lemma dv_idx1 y : (y < nv)%nat -> idx1 y = tau ev iv ih (vex s y) (vidx s y).
Proof.
  intros Hy. destruct dv_v as (A & _ & B & _ & E). destruct dv_h as (H1 & H2 & H3 & _). destruct dv_ih as (C & _).
  destruct (it_v _ _ _ I y Hy) as (Y1 & _ & Y3 & _ & Y5).
  unfold idx1, updf, tau, sw.
  destruct (Nat.eqb_spec y h) as [Eh|Nh].
  - subst y. rewrite H2, Nat.eqb_refl, H3.
    destruct (Nat.eqb_spec ih iv); [congruence|]. rewrite Nat.eqb_refl. reflexivity.
  - destruct (Nat.eqb_spec y v) as [Ev|Nv].
    + subst y. fold ev iv. rewrite !Nat.eqb_refl. reflexivity.
    + destruct (Nat.eqb_spec (vex s y) ev) as [Ee|_]; [|reflexivity].
      destruct (Nat.eqb_spec (vidx s y) iv) as [X|_].
      { exfalso. apply Nv. rewrite <- Y5, Ee, X. exact E. }
      destruct (Nat.eqb_spec (vidx s y) ih) as [X|_]; [|reflexivity].
      exfalso. apply Nh. rewrite <- Y5, Ee, X. reflexivity.
Qed.

Lemma dv_avar1 e b : avar1 e b = eavar s e (tau ev iv ih e b).
Proof.
  unfold avar1, upd2, tau, sw.
  destruct (Nat.eqb_spec e ev) as [->|_]; cbn [andb]; [|reflexivity].
  destruct (Nat.eqb_spec b ih) as [->|N1]; cbn [andb].
  - destruct (Nat.eqb_spec ih iv) as [->|_]; [reflexivity|]. reflexivity.
  - destruct (Nat.eqb_spec b iv) as [->|N2]; reflexivity.
Qed.

Lemma dv_avar1_v : avar1 ev ih = v.
Proof.
  rewrite dv_avar1. unfold tau, sw. rewrite Nat.eqb_refl.
  destruct dv_v as (_ & _ & _ & _ & E).
  destruct (Nat.eqb_spec ih iv) as [X|_]; [rewrite X; exact E|]. rewrite Nat.eqb_refl. exact E.
Qed.

Lemma dv_ij : ij = tau ev iv ih ej (vidx s j).
Proof. unfold ij. apply dv_idx1. exact dv_jn. Qed.

Lemma dv_ij_lt : (ij < P)%nat.
Proof.
  rewrite dv_ij. destruct dv_v as (_ & _ & B & _). destruct dv_ih as (C & _). destruct dv_j as (_ & _ & D & _).
  apply tau_lt; assumption.
Qed.

Lemma dv_avar1_j : avar1 ej ij = j.
Proof. rewrite dv_avar1, dv_ij, tau_invol. apply dv_j. Qed.

(* the fields of the new state *)
Lemma dv_vex x : vex (deact_var s v) x = vex s (sg x).
Proof. unfold deact_var. cbn [vex]. apply swapf_sw. Qed.
Lemma dv_vp x : vp (deact_var s v) x = vp s (sg x).
Proof. unfold deact_var. cbn [vp]. apply swapf_sw. Qed.
Lemma dv_alpha x : malpha (deact_var s v) x = malpha s (sg x).
Proof. unfold deact_var. cbn [malpha]. apply swapf_sw. Qed.
Lemma dv_grad x : mgrad (deact_var s v) x = mgrad s (sg x).
Proof. unfold deact_var. cbn [mgrad]. apply swapf_sw. Qed.
Lemma dv_lin x : mlin (deact_var s v) x = mlin s (sg x).
Proof. unfold deact_var. cbn [mlin]. apply swapf_sw. Qed.
Lemma dv_diag x : vdiag (deact_var s v) x = vdiag s (sg x).
Proof. unfold deact_var. cbn [vdiag]. apply swapf_sw. Qed.

Lemma dv_vidx x : vidx (deact_var s v) x = idx1 (sg x).
Proof.
  unfold deact_var. cbn [vidx]. fold ev iv ih. fold avar1. fold h. fold idx1. fold j. fold ej. fold ij.
  rewrite dv_avar1_v, dv_avar1_j.
  unfold updf at 1. destruct (Nat.eqb_spec x j) as [->|Nj].
  - unfold sg, sw. destruct (Nat.eqb_spec j v) as [E|_].
    + (* j = v *) rewrite E. unfold idx1, updf. destruct (Nat.eqb_spec v h) as [Eh|_].
      * destruct dv_h as (_ & _ & H3 & _). rewrite <- Eh in H3. fold iv in H3. congruence.
      * rewrite Nat.eqb_refl. reflexivity.
    + rewrite Nat.eqb_refl. unfold idx1, updf. destruct (Nat.eqb_spec v h) as [Eh|_].
      * destruct dv_h as (_ & _ & H3 & _). rewrite <- Eh in H3. fold iv in H3. congruence.
      * rewrite Nat.eqb_refl. reflexivity.
  - unfold updf at 1. destruct (Nat.eqb_spec x v) as [->|Nv].
    + unfold sg, sw. rewrite Nat.eqb_refl. reflexivity.
    + rewrite swapf_sw. reflexivity.
Qed.

Lemma dv_evar e p : (e < n)%nat -> (p < P)%nat -> evar (deact_var s v) e p = sg (evar s e p).
Proof.
  intros He Hp. unfold deact_var. cbn [evar]. fold ev pv j ej pj.
  destruct (it_var _ _ _ I e p He Hp) as (X & _).
  pose proof (evar_eq s e p v I He Hp dv_vn) as Qv. pose proof (evar_eq s e p j I He Hp dv_jn) as Qj.
  fold ev pv in Qv. fold ej pj in Qj.
  unfold upd2, sg, sw.
  destruct (Nat.eqb_spec e ej) as [E1|N1]; cbn [andb].
  - destruct (Nat.eqb_spec p pj) as [E2|N2]; cbn [andb].
    + assert (Ej : evar s e p = j) by (apply Qj; split; assumption). rewrite Ej.
      destruct (Nat.eqb_spec j v) as [->|_]; [reflexivity|]. rewrite Nat.eqb_refl. reflexivity.
    + destruct (Nat.eqb_spec e ev) as [E3|N3]; cbn [andb].
      * destruct (Nat.eqb_spec p pv) as [E4|N4].
        -- assert (Ev : evar s e p = v) by (apply Qv; split; assumption). rewrite Ev, Nat.eqb_refl. reflexivity.
        -- destruct (Nat.eqb_spec (evar s e p) v) as [X1|_]; [apply Qv in X1; destruct X1; contradiction|].
           destruct (Nat.eqb_spec (evar s e p) j) as [X1|_]; [apply Qj in X1; destruct X1; contradiction|]. reflexivity.
      * destruct (Nat.eqb_spec (evar s e p) v) as [X1|_]; [apply Qv in X1; destruct X1; contradiction|].
        destruct (Nat.eqb_spec (evar s e p) j) as [X1|_]; [apply Qj in X1; destruct X1; contradiction|]. reflexivity.
  - destruct (Nat.eqb_spec e ev) as [E3|N3]; cbn [andb].
    + destruct (Nat.eqb_spec p pv) as [E4|N4].
      * assert (Ev : evar s e p = v) by (apply Qv; split; assumption). rewrite Ev, Nat.eqb_refl. reflexivity.
      * destruct (Nat.eqb_spec (evar s e p) v) as [X1|_]; [apply Qv in X1; destruct X1; contradiction|].
        destruct (Nat.eqb_spec (evar s e p) j) as [X1|_]; [apply Qj in X1; destruct X1; contradiction|]. reflexivity.
    + destruct (Nat.eqb_spec (evar s e p) v) as [X1|_]; [apply Qv in X1; destruct X1; contradiction|].
      destruct (Nat.eqb_spec (evar s e p) j) as [X1|_]; [apply Qj in X1; destruct X1; contradiction|]. reflexivity.
Qed.

(* avar1 e b = v  <->  (e, b) = (ev, ih);   avar1 e b = j  <->  (e, b) = (ej, ij) *)
Lemma dv_avar1_eq_v e b : (e < n)%nat -> (b < P)%nat -> (avar1 e b = v <-> e = ev /\ b = ih).
Proof.
  intros He Hb. destruct dv_v as (_ & _ & B & _). destruct dv_ih as (C & _).
  rewrite dv_avar1. rewrite (eavar_eq s e (tau ev iv ih e b) v I He (tau_lt ev iv ih e b B C Hb) dv_vn).
  fold ev iv. split.
  - intros [E1 E2]. split; [exact E1|]. subst e. unfold tau in E2. rewrite Nat.eqb_refl in E2.
    rewrite <- (sw_invol iv ih b), E2. unfold sw. rewrite Nat.eqb_refl. reflexivity.
  - intros [-> ->]. split; [reflexivity|]. unfold tau, sw. rewrite Nat.eqb_refl.
    destruct (Nat.eqb_spec ih iv) as [X|_]; [exact X|]. rewrite Nat.eqb_refl. reflexivity.
Qed.

Lemma dv_avar1_eq_j e b : (e < n)%nat -> (b < P)%nat -> (avar1 e b = j <-> e = ej /\ b = ij).
Proof.
  intros He Hb. destruct dv_v as (_ & _ & B & _). destruct dv_ih as (C & _).
  rewrite dv_avar1. rewrite (eavar_eq s e (tau ev iv ih e b) j I He (tau_lt ev iv ih e b B C Hb) dv_jn).
  fold ej. rewrite dv_ij. split.
  - intros [E1 E2]. split; [exact E1|]. subst e. rewrite <- E2. symmetry. apply tau_invol.
  - intros [-> ->]. split; [reflexivity|]. apply tau_invol.
Qed.

Lemma dv_eavar e b : (e < n)%nat -> (b < P)%nat -> eavar (deact_var s v) e b = sg (eavar s e (tau ev iv ih e b)).
Proof.
  intros He Hb. unfold deact_var. cbn [eavar]. fold ev iv ih. fold avar1. fold h. fold idx1. fold j. fold ej. fold ij.
  rewrite <- dv_avar1.
  pose proof (dv_avar1_eq_v e b He Hb) as Qv. pose proof (dv_avar1_eq_j e b He Hb) as Qj.
  unfold upd2 at 1. destruct (Nat.eqb_spec e ej) as [E1|N1]; cbn [andb].
  - destruct (Nat.eqb_spec b ij) as [E2|N2]; cbn [andb].
    + assert (Ej : avar1 e b = j) by (apply Qj; split; assumption). rewrite Ej.
      unfold sg, sw. destruct (Nat.eqb_spec j v) as [->|_]; [reflexivity|]. rewrite Nat.eqb_refl. reflexivity.
    + unfold upd2 at 1. destruct (Nat.eqb_spec e ev) as [E3|N3]; cbn [andb].
      * destruct (Nat.eqb_spec b ih) as [E4|N4].
        -- assert (Ev : avar1 e b = v) by (apply Qv; split; assumption). rewrite Ev.
           unfold sg, sw. rewrite Nat.eqb_refl. reflexivity.
        -- unfold sg, sw.
           destruct (Nat.eqb_spec (avar1 e b) v) as [X1|_]; [apply Qv in X1; destruct X1; contradiction|].
           destruct (Nat.eqb_spec (avar1 e b) j) as [X1|_]; [apply Qj in X1; destruct X1; contradiction|]. reflexivity.
      * unfold sg, sw.
        destruct (Nat.eqb_spec (avar1 e b) v) as [X1|_]; [apply Qv in X1; destruct X1; contradiction|].
        destruct (Nat.eqb_spec (avar1 e b) j) as [X1|_]; [apply Qj in X1; destruct X1; contradiction|]. reflexivity.
  - unfold upd2 at 1. destruct (Nat.eqb_spec e ev) as [E3|N3]; cbn [andb].
    + destruct (Nat.eqb_spec b ih) as [E4|N4].
      * assert (Ev : avar1 e b = v) by (apply Qv; split; assumption). rewrite Ev.
        unfold sg, sw. rewrite Nat.eqb_refl. reflexivity.
      * unfold sg, sw.
        destruct (Nat.eqb_spec (avar1 e b) v) as [X1|_]; [apply Qv in X1; destruct X1; contradiction|].
        destruct (Nat.eqb_spec (avar1 e b) j) as [X1|_]; [apply Qj in X1; destruct X1; contradiction|]. reflexivity.
    + unfold sg, sw.
      destruct (Nat.eqb_spec (avar1 e b) v) as [X1|_]; [apply Qv in X1; destruct X1; contradiction|].
      destruct (Nat.eqb_spec (avar1 e b) j) as [X1|_]; [apply Qj in X1; destruct X1; contradiction|]. reflexivity.
Qed.

Lemma dv_eact e : eact (deact_var s v) e = if (e =? ev)%nat then ih else eact s e.
Proof. unfold deact_var. cbn [eact]. fold ev ih. unfold updf. reflexivity. Qed.

Lemma dv_counts : actvar (deact_var s v) = j /\ actex (deact_var s v) = actex s /\ eorig (deact_var s v) = eorig s /\
  ey (deact_var s v) = ey s /\ evsum (deact_var s v) = evsum s /\ ediag (deact_var s v) = ediag s /\
  munshr (deact_var s v) = munshr s.
Proof. unfold deact_var. cbn. repeat split. Qed.

Lemma sg_lt x : (x < nv)%nat -> (sg x < nv)%nat.
Proof. intros. apply sw_lt; [exact dv_vn | exact dv_jn | assumption]. Qed.

(* the new position sg z of a variable is active iff z was active and is not v *)
Lemma sg_active z : (sg z < j)%nat <-> (z < actvar s)%nat /\ z <> v.
Proof.
  pose proof dv_vj. unfold sg, sw.
  destruct (Nat.eqb_spec z v) as [->|Nv].
  - split; [lia | intros [_ X]; contradiction].
  - destruct (Nat.eqb_spec z j) as [->|Nj].
    + split; [intros; split; [exact dv_ja | exact Nv] | intros _; lia].
    + unfold j in *. split; [intros; split; [lia | exact Nv] | intros [X _]; lia].
Qed.

Theorem deact_var_tab : Inv_tab (deact_var s v).
Proof.
  destruct dv_v as (A & A2 & B & A4 & A5). destruct dv_ih as (C & C2 & C3 & C4). destruct dv_counts as (K1 & K2 & K3 & _).
  constructor.
  - rewrite K1. pose proof dv_jn. lia.
  - rewrite K2. apply (it_ae _ _ _ I).
  - intros e p He Hp. rewrite dv_evar by assumption. destruct (it_var _ _ _ I e p He Hp) as (X & Y & Z).
    split; [apply sg_lt; exact X|]. rewrite dv_vex, dv_vp. unfold sg. rewrite sw_invol. split; assumption.
  - intros x Hx. pose proof (sg_lt x Hx) as Hy. destruct (it_v _ _ _ I (sg x) Hy) as (Y1 & Y2 & Y3 & Y4 & Y5).
    rewrite dv_vex, dv_vp, dv_vidx, (dv_idx1 (sg x) Hy).
    split; [exact Y1|]. split; [exact Y2|]. split; [apply tau_lt; assumption|]. split.
    + rewrite dv_evar by assumption. rewrite Y4. apply sw_invol.
    + rewrite dv_eavar by (try assumption; apply tau_lt; assumption). rewrite tau_invol, Y5. apply sw_invol.
  - intros e b He Hb. rewrite dv_eavar by assumption.
    pose proof (tau_lt ev iv ih e b B C Hb) as Ht.
    destruct (it_avar _ _ _ I e (tau ev iv ih e b) He Ht) as (X & Y & Z).
    split; [apply sg_lt; exact X|]. rewrite dv_vex, dv_vidx. unfold sg. rewrite sw_invol.
    split; [exact Y|]. rewrite (dv_idx1 _ X), Y, Z. apply tau_invol.
  - intros e b He Hb. rewrite dv_eavar by assumption. rewrite K1, dv_eact.
    pose proof (tau_lt ev iv ih e b B C Hb) as Ht.
    rewrite sg_active. rewrite <- (it_act _ _ _ I e _ He Ht).
    destruct (it_avar _ _ _ I e (tau ev iv ih e b) He Ht) as (X & _).
    rewrite (eavar_eq s e (tau ev iv ih e b) v I He Ht dv_vn). fold ev iv.
    unfold tau. destruct (Nat.eqb_spec e ev) as [->|Ne].
    + unfold sw. destruct (Nat.eqb_spec b iv) as [->|N1].
      * split; [intros; split; [lia|] | intros [_ X2]; destruct (Nat.eq_dec iv ih) as [Y|Y]; [exfalso; apply X2; split; [reflexivity|symmetry; exact Y] | lia]].
        intros [_ X2]. lia.
      * destruct (Nat.eqb_spec b ih) as [->|N2].
        -- split; [lia | intros [_ X2]; exfalso; apply X2; split; reflexivity].
        -- split; [intros; split; [lia | intros [_ X2]; contradiction] | intros [X1 _]; lia].
    + split; [intros; split; [assumption | intros [X2 _]; contradiction] | intros [X1 _]; exact X1].
  - intros e He. rewrite dv_eact. destruct (Nat.eqb_spec e ev); [lia | apply (it_actle _ _ _ I e He)].
  - intros x Hx. rewrite K1 in Hx. rewrite dv_vex, K2. apply (it_actex _ _ _ I).
    unfold sg, sw. pose proof dv_ja. destruct (x =? v)%nat; [assumption|]. destruct (x =? j)%nat; [assumption | unfold j in *; lia].
  - rewrite K3. apply (it_orig _ _ _ I).
  - rewrite K3. apply (it_orig_inj _ _ _ I).
Qed.

End DeactVar.

End Tables.
