(* C17 — the kernel hypotheses KPos / KCS of the KHC-tree theorems (C17ProjProofs.v) are closed under sums, non-negative
   scaling and pull-back along a feature map, hold for constant kernels, and therefore hold for the polynomial kernel
   PolynomialKernel(degree 2, offset c >= 0): k(x,y) = (<x,y> + c)^2 = <x (x) x, y (x) y> + 2c <x,y> + c^2, over any ordered
   field.  Axiom-free. *)
From Coq Require Import List Bool Arith Lia Field.
From SharkV Require Import C17Model C17Field C17Gen C17Proj C17ProjProofs.
Import ListNotations.

Section KP.
Variable A : Type.
Variable F : fops A.
Hypothesis L : olaws F.
Notation "0" := (o0 F) : OF_scope.
Notation "1" := (o1 F) : OF_scope.
Infix "+" := (oadd F) : OF_scope.
Infix "*" := (omul F) : OF_scope.
Infix "-" := (osub F) : OF_scope.
Infix "/" := (odiv F) : OF_scope.
Notation "- x" := (oopp F x) : OF_scope.
Notation "a <= b" := (oleb F a b = true) : OF_scope.
Local Open Scope OF_scope.
Add Field KPfield : (ol_field F L).
Notation apoint := (apoint A).
Notation le_refl := (le_refl A F L).
Notation le_trans := (le_trans A F L).
Notation KPos := (KPos A F).
Notation KCS := (KCS A F).
Notation kd2 := (kd2 A F).

Lemma mul_le_mono a b c d : 0 <= a -> a <= b -> 0 <= c -> c <= d -> a * c <= b * d.
Proof.
  intros Ha Hab Hc Hcd. apply le_trans with (b * c).
  - apply (sub_0_le A F L). replace (b * c - a * c) with ((b - a) * c) by ring.
    apply (mul_nonneg A F L); auto. apply (le_0_sub A F L); auto.
  - apply (sub_0_le A F L). replace (b * d - b * c) with (b * (d - c)) by ring.
    apply (mul_nonneg A F L); [apply (le_trans 0 a b); auto | apply (le_0_sub A F L); auto].
Qed.

(* (B1+B2)^2 <= (D1+D2)(E1+E2) from the two Cauchy-Schwarz inequalities *)
Lemma cs_sum B1 B2 D1 D2 E1 E2 :
  0 <= D1 -> 0 <= D2 -> 0 <= E1 -> 0 <= E2 -> B1 * B1 <= D1 * E1 -> B2 * B2 <= D2 * E2 ->
  (B1 + B2) * (B1 + B2) <= (D1 + D2) * (E1 + E2).
Proof.
  intros HD1 HD2 HE1 HE2 H1 H2.
  assert (K : B1 * B2 + B1 * B2 <= D1 * E2 + D2 * E1).
  { apply (sq_le_le A F L).
    - apply (add_nonneg A F L); apply (mul_nonneg A F L); auto.
    - apply (sub_0_le A F L).
      replace ((D1 * E2 + D2 * E1) * (D1 * E2 + D2 * E1) - (B1 * B2 + B1 * B2) * (B1 * B2 + B1 * B2))
        with ((D1 * E2 - D2 * E1) * (D1 * E2 - D2 * E1) + (1 + 1 + 1 + 1) * ((D1 * E1) * (D2 * E2) - (B1 * B1) * (B2 * B2))) by ring.
      apply (add_nonneg A F L); [apply (sq_nonneg A F L)|]. apply (mul_nonneg A F L).
      + repeat apply (add_nonneg A F L); apply (le_0_1 A F L).
      + apply (le_0_sub A F L). apply mul_le_mono; auto; apply (sq_nonneg A F L). }
  apply (sub_0_le A F L).
  replace ((D1 + D2) * (E1 + E2) - (B1 + B2) * (B1 + B2))
    with ((D1 * E1 - B1 * B1) + (D2 * E2 - B2 * B2) + (D1 * E2 + D2 * E1 - (B1 * B2 + B1 * B2))) by ring.
  repeat apply (add_nonneg A F L); apply (le_0_sub A F L); auto.
Qed.

Section Closure.
Variable dom : apoint -> Prop.

Lemma K_ext (k k' : apoint -> apoint -> A) : (forall x y, dom x -> dom y -> k' x y = k x y) ->
  KPos k dom /\ KCS k dom -> KPos k' dom /\ KCS k' dom.
Proof.
  intros E [HP HC]. split.
  - intros p q Dp Dq. unfold C17Proj.kd2. rewrite !E by auto. apply HP; auto.
  - intros a b p q Da Db Dp Dq. unfold C17Proj.kd2. rewrite !E by auto. apply HC; auto.
Qed.

Lemma K_sum (k1 k2 : apoint -> apoint -> A) :
  KPos k1 dom /\ KCS k1 dom -> KPos k2 dom /\ KCS k2 dom ->
  KPos (fun x y => k1 x y + k2 x y) dom /\ KCS (fun x y => k1 x y + k2 x y) dom.
Proof.
  intros [P1 C1] [P2 C2]. split.
  - intros p q Dp Dq. unfold C17Proj.kd2.
    replace (k1 p p + k2 p p - two F * (k1 p q + k2 p q) + (k1 q q + k2 q q)) with (kd2 k1 p q + kd2 k2 p q) by (unfold C17Proj.kd2; ring).
    apply (add_nonneg A F L); auto.
  - intros a b p q Da Db Dp Dq.
    replace (kd2 (fun x y => k1 x y + k2 x y) a b) with (kd2 k1 a b + kd2 k2 a b) by (unfold C17Proj.kd2; ring).
    replace (kd2 (fun x y => k1 x y + k2 x y) p q) with (kd2 k1 p q + kd2 k2 p q) by (unfold C17Proj.kd2; ring).
    replace (k1 a q + k2 a q - (k1 b q + k2 b q) - (k1 a p + k2 a p) + (k1 b p + k2 b p))
      with ((k1 a q - k1 b q - k1 a p + k1 b p) + (k2 a q - k2 b q - k2 a p + k2 b p)) by ring.
    apply cs_sum; auto.
Qed.

Lemma K_scale (c : A) (k : apoint -> apoint -> A) : 0 <= c ->
  KPos k dom /\ KCS k dom -> KPos (fun x y => c * k x y) dom /\ KCS (fun x y => c * k x y) dom.
Proof.
  intros Hc [HP HC]. split.
  - intros p q Dp Dq. replace (kd2 (fun x y => c * k x y) p q) with (c * kd2 k p q) by (unfold C17Proj.kd2; ring).
    apply (mul_nonneg A F L); auto.
  - intros a b p q Da Db Dp Dq.
    replace (kd2 (fun x y => c * k x y) a b) with (c * kd2 k a b) by (unfold C17Proj.kd2; ring).
    replace (kd2 (fun x y => c * k x y) p q) with (c * kd2 k p q) by (unfold C17Proj.kd2; ring).
    replace ((c * k a q - c * k b q - c * k a p + c * k b p) * (c * k a q - c * k b q - c * k a p + c * k b p))
      with ((c * c) * ((k a q - k b q - k a p + k b p) * (k a q - k b q - k a p + k b p))) by ring.
    replace (c * kd2 k a b * (c * kd2 k p q)) with ((c * c) * (kd2 k a b * kd2 k p q)) by ring.
    apply (sub_0_le A F L).
    replace (c * c * (kd2 k a b * kd2 k p q) - c * c * ((k a q - k b q - k a p + k b p) * (k a q - k b q - k a p + k b p)))
      with ((c * c) * (kd2 k a b * kd2 k p q - (k a q - k b q - k a p + k b p) * (k a q - k b q - k a p + k b p))) by ring.
    apply (mul_nonneg A F L); [apply (sq_nonneg A F L) | apply (le_0_sub A F L); auto].
Qed.

Lemma K_const (c : A) : KPos (fun _ _ => c) dom /\ KCS (fun _ _ => c) dom.
Proof.
  split.
  - intros p q _ _. unfold C17Proj.kd2, two. replace (c - (1 + 1) * c + c) with 0 by ring. apply le_refl.
  - intros a b p q _ _ _ _. unfold C17Proj.kd2, two.
    replace ((c - c - c + c) * (c - c - c + c)) with 0 by ring. replace ((c - (1 + 1) * c + c) * (c - (1 + 1) * c + c)) with 0 by ring.
    apply le_refl.
Qed.

(* pull-back along a feature map T *)
Lemma K_pullback (k : apoint -> apoint -> A) (domK : apoint -> Prop) (T : apoint -> apoint) :
  (forall x, dom x -> domK (T x)) -> KPos k domK /\ KCS k domK ->
  KPos (fun x y => k (T x) (T y)) dom /\ KCS (fun x y => k (T x) (T y)) dom.
Proof.
  intros HT [HP HC]. split.
  - intros p q Dp Dq. apply (HP (T p) (T q)); auto.
  - intros a b p q Da Db Dp Dq. apply (HC (T a) (T b) (T p) (T q)); auto.
Qed.

End Closure.

(* ---- the tensor feature map: <u (x) x, v (x) y> = <u,v> <x,y> ---- *)
Definition tens (u x : apoint) : apoint := flat_map (fun ui => map (fun xj => ui * xj) x) u.

Lemma dot_app x1 : forall y1 x2 y2, length x1 = length y1 ->
  dot F (x1 ++ x2) (y1 ++ y2) = dot F x1 y1 + dot F x2 y2.
Proof.
  induction x1 as [|a x1 IH]; intros [|b y1] x2 y2 H; simpl in *; try discriminate; [ring|].
  rewrite IH by congruence. ring.
Qed.

Lemma dot_map_scale a b x : forall y, dot F (map (fun xj => a * xj) x) (map (fun yj => b * yj) y) = a * b * dot F x y.
Proof. induction x as [|u x IH]; intros [|v y]; simpl; try ring. rewrite IH. ring. Qed.

Lemma dot_tens u : forall v x y, length u = length v -> length x = length y ->
  dot F (tens u x) (tens v y) = dot F u v * dot F x y.
Proof.
  induction u as [|a u IH]; intros [|b v] x y Hu Hx; simpl in *; try discriminate; [ring|].
  rewrite dot_app by (rewrite !map_length; auto). rewrite dot_map_scale. rewrite IH by congruence. ring.
Qed.

Lemma tens_length u x : length (tens u x) = (length u * length x)%nat.
Proof. induction u as [|a u IH]; simpl; auto. rewrite app_length, map_length, IH. reflexivity. Qed.

Lemma dot_comm x : forall y, dot F x y = dot F y x.
Proof. induction x as [|a x IH]; intros [|b y]; simpl; auto. rewrite IH. ring. Qed.

(* ---- PolynomialKernel(2, c) ---- *)
Theorem poly2_kernel_psd dim c : 0 <= c ->
  KPos (poly2_k A F c) (dimdom A dim) /\ KCS (poly2_k A F c) (dimdom A dim) /\
  (forall x y, poly2_k A F c x y = poly2_k A F c y x).
Proof.
  intros Hc.
  assert (Lin : forall d, KPos (lin_k A F) (dimdom A d) /\ KCS (lin_k A F) (dimdom A d)).
  { intros d. split; [apply (lin_KPos A F L) | apply (lin_KCS A F L)]. }
  assert (K1 : KPos (fun x y => lin_k A F (tens x x) (tens y y)) (dimdom A dim) /\
               KCS (fun x y => lin_k A F (tens x x) (tens y y)) (dimdom A dim)).
  { apply (K_pullback (dimdom A dim) (lin_k A F) (dimdom A (dim * dim)) (fun x => tens x x)); [|apply Lin].
    intros x Dx. unfold dimdom in *. rewrite tens_length, Dx. reflexivity. }
  assert (K2 : KPos (fun x y => (c + c) * lin_k A F x y) (dimdom A dim) /\ KCS (fun x y => (c + c) * lin_k A F x y) (dimdom A dim)).
  { apply K_scale; [apply (add_nonneg A F L); auto | apply Lin]. }
  pose proof (K_const (dimdom A dim) (c * c)) as K3.
  pose proof (K_sum (dimdom A dim) _ _ (K_sum (dimdom A dim) _ _ K1 K2) K3) as KS.
  assert (E : forall x y, dimdom A dim x -> dimdom A dim y ->
              poly2_k A F c x y = lin_k A F (tens x x) (tens y y) + (c + c) * lin_k A F x y + c * c).
  { intros x y Dx Dy. unfold poly2_k, lin_k, dimdom in *. rewrite dot_tens by congruence. ring. }
  destruct (K_ext (dimdom A dim) _ (poly2_k A F c) E KS) as [HP HC].
  split; [auto|]. split; [auto|].
  intros x y. unfold poly2_k. rewrite (dot_comm x y). reflexivity.
Qed.

End KP.
