(* C16 — one updateSMO step of QpMcBoxDecomp on the full state model (C16State.box_smo): the maintained gradient
   stays  linear - Q alpha  on the active variables, the box holds, the dual objective does not decrease, every
   variable outside the working set and every table is unchanged.  Also the generic two-point step lemma used
   for the simplex class (C16SmoSimplexProofs.v). *)
From Coq Require Import QArith Qminmax Lqa Arith Bool List Lia.
From SharkV Require Import C08Model C08Defs C08Aux C08Proofs C08ProofsBox C16Model C16State C16Proofs C16ProofsMc
  C16StateDefs C16GradProofs.
Import ListNotations.
Open Scope Q_scope.

Section Smo.
Variable P ncl n : nat.
Variable C : Q.
Variable Mrow : nat -> list (nat * Q).
Variable Mdef : nat -> Q.
Variable K0 : nat -> nat -> Q.
Hypothesis HM : Mwf P Mrow.
Hypothesis HMs : Msym P ncl Mrow Mdef.
Hypothesis HKs : K0sym K0.

Notation Inv_tab := (Inv_tab P n).
Notation nv := (nv P n).
Notation Qe := (Qe P ncl Mrow Mdef K0).
Notation Qalpha := (Qalpha P ncl n Mrow Mdef K0).
Notation Inv_grad := (Inv_grad P ncl n Mrow Mdef K0).
Notation mobj := (mobj P ncl n Mrow Mdef K0).
Notation Inv_data := (Inv_data P ncl n Mrow Mdef K0).

Lemma Qe_sym (s : qmst) a b : Qe s a b == Qe s b a.
Proof. unfold Qe. rewrite (HMs (ey s (vex s a))), (HKs (eorig s (vex s a))). reflexivity. Qed.

Lemma Qalpha_Kv (s : qmst) f : Qalpha s f == Kv nv (Qe s) (malpha s) f.
Proof. unfold Qalpha, C16StateDefs.Qalpha, Kv. apply sumn_ext. intros a _. rewrite Qe_sym. reflexivity. Qed.

Lemma Inv_tab_set_agv (s : qmst) al g vs : Inv_tab s -> Inv_tab (set_agv s al g vs).
Proof. intros [H1 H2 H3 H4 H5 H6 H7 H8 H9 H10]. constructor; cbn; assumption. Qed.

Lemma Inv_data_set_agv y0 lin0 (s : qmst) al g vs : Inv_data y0 lin0 s -> Inv_data y0 lin0 (set_agv s al g vs).
Proof. intros [H1 H2]. split; cbn; assumption. Qed.

(* a move of the two variables v, w (v = w allowed) by mv, mw whose gradient update subtracts the rows of Q *)
Lemma two_pt_step (s : qmst) v w mv mw al' g' vs' :
  Inv_tab s -> Inv_grad s -> (v < actvar s)%nat -> (w < actvar s)%nat ->
  (forall a, (a < nv)%nat -> al' a == two_pt (malpha s) v w mv mw a) ->
  (forall f, (f < actvar s)%nat -> g' f == mgrad s f - mv * Qe s v f - mw * Qe s w f) ->
  let s' := set_agv s al' g' vs' in
  Inv_grad s' /\
  mobj s' - mobj s ==
    mv * mgrad s v + mw * mgrad s w
    - (1 # 2) * (mv * mv * Qe s v v + 2 * mv * mw * Qe s v w + mw * mw * Qe s w w).
Proof.
  intros I G Hv Hw Hal Hg s'.
  assert (Hvn : (v < nv)%nat) by (pose proof (it_av _ _ _ I); lia).
  assert (Hwn : (w < nv)%nat) by (pose proof (it_av _ _ _ I); lia).
  split.
  - intros f Hf. unfold s' in *. cbn in Hf |- *.
    unfold C16StateDefs.Qalpha. cbn.
    change (g' f == mlin s f - sumn nv (fun w0 => Qe s w0 f * al' w0)).
    rewrite (sumn_ext nv (fun w0 => Qe s w0 f * al' w0) (fun w0 => (fun a => Qe s a f) w0 * two_pt (malpha s) v w mv mw w0))
      by (intros a Ha; cbv beta; rewrite (Hal a Ha); reflexivity).
    rewrite (sum_two_pt nv (fun a => Qe s a f) (malpha s) v w mv mw Hvn Hwn).
    rewrite (Hg f Hf). rewrite (G f Hf). unfold C16StateDefs.Qalpha. ring.
  - unfold s', C16StateDefs.mobj. cbn.
    change (objf nv (Qe s) (mlin s) al' - objf nv (Qe s) (mlin s) (malpha s) ==
            mv * mgrad s v + mw * mgrad s w
            - (1 # 2) * (mv * mv * Qe s v v + 2 * mv * mw * Qe s v w + mw * mw * Qe s w w)).
    rewrite (objf_ext nv (Qe s) (mlin s) al' (two_pt (malpha s) v w mv mw) Hal).
    rewrite (objf_two_pt nv (Qe s) (Qe_sym s) (mlin s) (malpha s) v w mv mw Hvn Hwn).
    rewrite <- !Qalpha_Kv. rewrite (G v Hv), (G w Hw). ring.
Qed.

(* ---------------- QpMcBoxDecomp::updateSMO ---------------- *)
Hypothesis HD : Qdiag_nonneg P ncl Mrow Mdef K0.
Hypothesis HC : 0 <= C.

Lemma Qe_diag_nonneg (s : qmst) v : 0 <= Qe s v v.
Proof. destruct HD as [D1 D2]. unfold Qe. apply Qmult_le_0_compat; [apply D1 | apply D2]. Qed.

Notation Inv_boxc := (Inv_boxc P n C).
Notation box_smoQ := (box_smoQ P ncl C Mrow Mdef K0).

Theorem box_smo_preserves y0 lin0 (s : qmst) v w :
  Inv_tab s -> Inv_data y0 lin0 s -> Inv_grad s -> Inv_boxc s -> (v < actvar s)%nat -> (w < actvar s)%nat ->
  let s' := box_smoQ s v w in
  Inv_tab s' /\ Inv_data y0 lin0 s' /\ Inv_grad s' /\ Inv_boxc s' /\ mobj s <= mobj s' /\
  (forall a, a <> v -> a <> w -> malpha s' a = malpha s a) /\
  mlin s' = mlin s /\ vex s' = vex s /\ vp s' = vp s /\ vidx s' = vidx s /\ vdiag s' = vdiag s /\
  eorig s' = eorig s /\ ey s' = ey s /\ eact s' = eact s /\ evar s' = evar s /\ eavar s' = eavar s /\
  evsum s' = evsum s /\ ediag s' = ediag s /\ actex s' = actex s /\ actvar s' = actvar s /\ munshr s' = munshr s.
Proof.
  intros I D G B Hv Hw s'.
  assert (Hvn : (v < nv)%nat) by (pose proof (it_av _ _ _ I); lia).
  assert (Hwn : (w < nv)%nat) by (pose proof (it_av _ _ _ I); lia).
  destruct (B v Hvn) as [Bv1 Bv2]. destruct (B w Hwn) as [Bw1 Bw2].
  destruct D as [D1 D2]. destruct (D2 v Hvn) as [_ Dv]. destruct (D2 w Hwn) as [_ Dw].
  unfold s', box_smoQ, box_smo.
  destruct (Nat.eqb_spec v w) as [E|N].
  - (* one variable *)
    subst w. cbn [o_zero o_add o_sub qops].
    set (a := malpha s v). set (a' := solve_edge qops a (mgrad s v) (vdiag s v) 0 C).
    set (mu := 0 - a + a').
    destruct (solve_edge_in_box a (mgrad s v) (vdiag s v) 0 C HC) as [E1 E2]. fold a' in E1, E2.
    pose proof (solve_edge_gain_nonneg_all a (mgrad s v) (vdiag s v) 0 C Bv1 Bv2) as Gn. fold a' in Gn.
    change (set_ag s (updf (malpha s) v a') ?g) with (set_agv s (updf (malpha s) v a') g (evsum s)).
    destruct (two_pt_step s v v mu 0 (updf (malpha s) v a')
               (grad_update qops ncl Mrow Mdef K0 s (mgrad s) (P * ey s (vex s v) + vp s v) mu (vex s v)) (evsum s)
               I G Hv Hv) as [G' O'].
    + intros b _. unfold two_pt. rewrite updf_delta. fold a. unfold mu.
      ring.
    + intros f Hf. rewrite (grad_update_Qe P ncl n Mrow Mdef K0 HM s (mgrad s) mu v f I Hf). ring.
    + split; [apply Inv_tab_set_agv; exact I|].
      split; [apply Inv_data_set_agv; split; assumption|].
      split; [exact G'|].
      split.
      { intros b Hb. cbn. unfold updf. destruct (Nat.eqb_spec b v); [split; assumption | apply B; exact Hb]. }
      split.
      { assert (X : 0 <= mu * mgrad s v + 0 * mgrad s v
                        - (1 # 2) * (mu * mu * Qe s v v + 2 * mu * 0 * Qe s v v + 0 * 0 * Qe s v v)).
        { unfold gain1 in Gn. rewrite <- Dv. unfold mu.
          assert (Em : 0 - a + a' == a' - a) by ring. rewrite Em. lra. }
        lra. }
      split.
      { intros b Nb _. cbn. apply updf_neq. exact Nb. }
      cbn. repeat split; reflexivity.
  - (* two variables *)
    cbn [o_zero o_add o_sub o_mul qops].
    set (av := malpha s v). set (aw := malpha s w).
    set (Qvw := Mq Mrow Mdef (ncl * (P * ey s (vex s v) + vp s v) + ey s (vex s w)) (vp s w) * kpos K0 s (vex s v) (vex s w)).
    assert (EQ : Qvw = Qe s v w) by reflexivity.
    set (r2 := solve_2d qops av aw (mgrad s v) (mgrad s w) (vdiag s v) Qvw (vdiag s w) 0 C 0 C).
    assert (Dv0 : 0 <= vdiag s v) by (rewrite Dv; apply Qe_diag_nonneg).
    assert (Dw0 : 0 <= vdiag s w) by (rewrite Dw; apply Qe_diag_nonneg).
    destruct (box2d_in_box_and_gain av aw (mgrad s v) (mgrad s w) (vdiag s v) Qvw (vdiag s w) 0 C 0 C
                Bv1 Bv2 Bw1 Bw2 Dv0 Dw0) as [(R1 & R2 & R3 & R4) Gn].
    fold r2 in R1, R2, R3, R4, Gn.
    set (muv := 0 - av + fst r2). set (muw := 0 - aw + snd r2).
    change (set_ag s ?al ?g) with (set_agv s al g (evsum s)).
    destruct (two_pt_step s v w muv muw (updf (updf (malpha s) v (fst r2)) w (snd r2))
               (grad_update qops ncl Mrow Mdef K0 s
                  (grad_update qops ncl Mrow Mdef K0 s (mgrad s) (P * ey s (vex s v) + vp s v) muv (vex s v))
                  (P * ey s (vex s w) + vp s w) muw (vex s w)) (evsum s)
               I G Hv Hw) as [G' O'].
    + intros b _. unfold two_pt. rewrite !updf_delta.
      fold av aw. unfold muv, muw.
      unfold delta. destruct (Nat.eqb_spec w v) as [X|_]; [exfalso; apply N; symmetry; exact X|].
      destruct (Nat.eqb_spec b v), (Nat.eqb_spec b w); try (subst; contradiction); ring.
    + intros f Hf.
      rewrite (grad_update_Qe P ncl n Mrow Mdef K0 HM s _ muw w f I Hf).
      rewrite (grad_update_Qe P ncl n Mrow Mdef K0 HM s (mgrad s) muv v f I Hf). ring.
    + split; [apply Inv_tab_set_agv; exact I|].
      split; [apply Inv_data_set_agv; split; assumption|].
      split; [exact G'|].
      split.
      { intros b Hb. cbn. unfold updf.
        destruct (Nat.eqb_spec b w); [split; assumption|].
        destruct (Nat.eqb_spec b v); [split; assumption | apply B; exact Hb]. }
      split.
      { assert (X : muv * mgrad s v + muw * mgrad s w
                    - (1 # 2) * (muv * muv * Qe s v v + 2 * muv * muw * Qe s v w + muw * muw * Qe s w w) ==
                    gain2 qops (mgrad s v) (mgrad s w) (vdiag s v) Qvw (vdiag s w) (fst r2 - av) (snd r2 - aw)).
        { rewrite gain2_q. rewrite EQ. unfold muv, muw. rewrite Dv, Dw. ring. }
        lra. }
      split.
      { intros b Nv Nw. cbn. rewrite updf_neq by exact Nw. apply updf_neq. exact Nv. }
      cbn. repeat split; reflexivity.
Qed.

End Smo.
