(* C08 — BoxBasedShrinkingStrategy::updateGradientEdge keeps the edge gradient consistent:
     gedge a = lin a - sum_b K a b * bcontrib b        (bcontrib b = alpha b if b sits at a bound, else 0)
   after every updateSMO of both problem kinds (two-variable step, and the single-variable step i = j of the
   box-constrained problem, which is accounted for once).

   Structure: [edge_update_char] is a pure computation fact (no invariant needed): one call with (old,new)
   subtracts (bc new - bc old) * K i a from every entry, bc x = (x strictly inside the box ? 0 : x).  The test
   `oldAlpha == 0 || isInsideOld` of the C++ is covered because bc 0 = 0 whether or not 0 is a bound.
   [bc_bcontrib] identifies bc with the flag-based bcontrib under Inv_flags + Inv_box.  Axiom-free. *)
From Coq Require Import QArith Qminmax Lqa Arith Bool List Lia.
From SharkV Require Import C08Model C08Defs C08Aux C08Proofs C08ProofsBox C08ProofsBoxStep.
Import ListNotations.
Open Scope Q_scope.

Ltac prj := cbn [alpha grad gedge lin lo hi perm fl fu active unshr].

(* the state with another edge gradient *)
Definition with_gedge (s : qst) (G : nat -> Q) : qst :=
  mk (alpha s) (grad s) G (lin s) (lo s) (hi s) (perm s) (fl s) (fu s) (active s) (unshr s).

Lemma with_gedge_id (s : qst) : with_gedge s (gedge s) = s.
Proof. destruct s; reflexivity. Qed.

Lemma with_gedge_twice (s : qst) G G' : with_gedge (with_gedge s G) G' = with_gedge s G'.
Proof. reflexivity. Qed.

(* contribution of a value x of variable i to the edge gradient, as updateGradientEdge sees it *)
Definition bc (s : qst) (i : nat) (x : Q) : Q :=
  if qltb (bmin s i) x && qltb x (bmax s i) then 0 else x.

Lemma bc_with_gedge s G i x : bc (with_gedge s G) i x = bc s i x.
Proof. reflexivity. Qed.

Section Edge.
Variable n : nat.
Variable K0 : nat -> nat -> Q.
Hypothesis Hsym : Ksym K0.

Local Notation Kq := (Kq K0).

(* ---- one call of updateGradientEdge (m_shrink = true) ---- *)
Lemma edge_update_char (s : qst) i old new :
  exists G, edge_update qops n K0 true s i old new = with_gedge s G /\
    (forall a, (a < n)%nat -> G a == gedge s a - (bc s i new - bc s i old) * Kq s i a) /\
    (forall a, ~ (a < n)%nat -> G a = gedge s a).
Proof.
  unfold edge_update. cbn [negb orb]. qsimpl.
  assert (Same : forall x, x == 0 ->
     exists G, s = with_gedge s G /\
       (forall a, (a < n)%nat -> G a == gedge s a - x * Kq s i a) /\
       (forall a, ~ (a < n)%nat -> G a = gedge s a)).
  { intros x Z. exists (gedge s). split; [symmetry; apply with_gedge_id|]. split; [|reflexivity].
    intros a _. rewrite Z. ring. }
  assert (Upd : forall diff x, diff == x ->
      exists G, mk (alpha s) (grad s)
                   (fun a => if (a <? n)%nat then gedge s a - diff * K K0 s i a else gedge s a)
                   (lin s) (lo s) (hi s) (perm s) (fl s) (fu s) (active s) (unshr s) = with_gedge s G /\
       (forall a, (a < n)%nat -> G a == gedge s a - x * Kq s i a) /\
       (forall a, ~ (a < n)%nat -> G a = gedge s a)).
  { intros diff x D. eexists. split; [reflexivity|]. split.
    - intros a Ha. cbv beta. apply Nat.ltb_lt in Ha. rewrite Ha. rewrite D. unfold C08Defs.Kq. reflexivity.
    - intros a Ha. cbv beta. destruct (Nat.ltb_spec a n); [contradiction|reflexivity]. }
  unfold bc.
  eqcase old new.
  - qcase (bmin s i) old; qcase old (bmax s i); qcase (bmin s i) new; qcase new (bmax s i); cbn [andb];
      apply Same; lra.
  - eqcase old 0;
      qcase (bmin s i) old; qcase old (bmax s i); qcase (bmin s i) new; qcase new (bmax s i);
      cbn [andb orb];
      first [ apply Same; lra | apply Upd; lra ].
Qed.

(* under exact flags and a box-feasible value, bc coincides with the flag-based contribution *)
Lemma bc_bcontrib (s : qst) a : (a < n)%nat -> Inv_flags n s -> Inv_box n s ->
  bc s a (alpha s a) == bcontrib s a.
Proof.
  intros Ha F B. pose proof (bmin_lo n s a Ha F) as L. pose proof (bmax_hi n s a Ha F) as U.
  destruct (F a Ha) as [F1 F2]. destruct (B a Ha) as [B1 B2].
  unfold bc, bcontrib. rewrite F1, F2.
  qcase (bmin s a) (alpha s a); qcase (alpha s a) (bmax s a);
    eqcase (alpha s a) (lo s a); eqcase (alpha s a) (hi s a); cbn [andb orb]; lra.
Qed.

(* the same for the OLD value, seen through the box of the state after the step (same lo/hi) *)
Lemma bc_bcontrib_old (s s1 : qst) a : (a < n)%nat -> Inv_flags n s -> Inv_box n s -> Inv_flags n s1 ->
  lo s1 = lo s -> hi s1 = hi s -> bc s1 a (alpha s a) == bcontrib s a.
Proof.
  intros Ha F B F1 El Eh. pose proof (bmin_lo n s1 a Ha F1) as L. pose proof (bmax_hi n s1 a Ha F1) as U.
  rewrite El in L. rewrite Eh in U.
  destruct (F a Ha) as [G1 G2]. destruct (B a Ha) as [B1 B2].
  unfold bc, bcontrib. rewrite G1, G2.
  qcase (bmin s1 a) (alpha s a); qcase (alpha s a) (bmax s1 a);
    eqcase (alpha s a) (lo s a); eqcase (alpha s a) (hi s a); cbn [andb orb]; lra.
Qed.

(* a variable whose value did not change keeps its contribution (flags are exact before and after) *)
Lemma bcontrib_same (s s1 : qst) b : (b < n)%nat -> Inv_flags n s -> Inv_flags n s1 ->
  lo s1 = lo s -> hi s1 = hi s -> alpha s1 b = alpha s b -> bcontrib s1 b = bcontrib s b.
Proof.
  intros Hb F F1 El Eh Ea. destruct (F b Hb) as [G1 G2]. destruct (F1 b Hb) as [H1 H2].
  unfold bcontrib. rewrite G1, G2, H1, H2, El, Eh, Ea. reflexivity.
Qed.

(* the edge part of BoxBasedShrinkingStrategy::updateSMO, after ANY base-class step s -> s1 that changes alpha
   at i and j only, keeps flags/box exact and leaves data, permutation and gedge alone *)
Definition edge_pair (s s1 : qst) (i j : nat) : qst :=
  let s2 := edge_update qops n K0 true s1 i (alpha s i) (alpha s1 i) in
  if (i =? j)%nat then s2 else edge_update qops n K0 true s2 j (alpha s j) (alpha s1 j).

Lemma edge_pair_keeps (s s1 : qst) i j :
  (i < n)%nat -> (j < n)%nat ->
  Inv_edge n K0 s -> Inv_flags n s -> Inv_box n s -> Inv_flags n s1 -> Inv_box n s1 ->
  (forall a, a <> i -> a <> j -> alpha s1 a = alpha s a) ->
  lin s1 = lin s -> lo s1 = lo s -> hi s1 = hi s -> perm s1 = perm s -> gedge s1 = gedge s ->
  exists G, edge_pair s s1 i j = with_gedge s1 G /\ Inv_edge n K0 (with_gedge s1 G).
Proof.
  intros Hi Hj IE F B F1 B1 Hoth El Elo Ehi Ep Eg. unfold edge_pair.
  destruct (edge_update_char s1 i (alpha s i) (alpha s1 i)) as (G2 & E2 & HG2 & _).
  rewrite E2.
  assert (EK : forall a b, Kq s1 a b = Kq s a b) by (intros; unfold C08Defs.Kq, K; rewrite Ep; reflexivity).
  set (di := bcontrib s1 i - bcontrib s i).
  assert (Di : bc s1 i (alpha s1 i) - bc s1 i (alpha s i) == di).
  { unfold di. rewrite (bc_bcontrib s1 i Hi F1 B1), (bc_bcontrib_old s s1 i Hi F B F1 Elo Ehi). reflexivity. }
  destruct (Nat.eqb_spec i j) as [Eij|Nij].
  - subst j. exists G2. split; [reflexivity|].
    intros a Ha. unfold with_gedge; prj. change (Kq (mk _ _ _ _ _ _ _ _ _ _ _) a) with (Kq s1 a).
    change (bcontrib (mk _ _ _ _ _ _ _ _ _ _ _)) with (bcontrib s1).
    rewrite (HG2 a Ha), Di, Eg, (IE a Ha), El.
    rewrite (sumn_ext n (fun b => Kq s1 a b * bcontrib s1 b)
                        (fun b => Kq s a b * two_pt (bcontrib s) i i di 0 b)).
    2:{ intros b Hb. rewrite EK. unfold two_pt, delta, di.
        destruct (Nat.eqb_spec b i) as [->|Nb]; [ring|].
        rewrite (bcontrib_same s s1 b Hb F F1 Elo Ehi (Hoth b Nb Nb)). ring. }
    fold (Kv n (Kq s) (two_pt (bcontrib s) i i di 0) a).
    rewrite (Kv_two_pt n (Kq s) (bcontrib s) i i di 0 a Hi Hi). unfold Kv.
    rewrite EK, (Kq_sym K0 Hsym s i a). ring.
  - destruct (edge_update_char (with_gedge s1 G2) j (alpha s j) (alpha s1 j)) as (G3 & E3 & HG3 & _).
    rewrite E3, with_gedge_twice. exists G3. split; [reflexivity|].
    set (dj := bcontrib s1 j - bcontrib s j).
    assert (Dj : bc s1 j (alpha s1 j) - bc s1 j (alpha s j) == dj).
    { unfold dj. rewrite (bc_bcontrib s1 j Hj F1 B1), (bc_bcontrib_old s s1 j Hj F B F1 Elo Ehi). reflexivity. }
    intros a Ha. unfold with_gedge; prj. change (Kq (mk _ _ _ _ _ _ _ _ _ _ _) a) with (Kq s1 a).
    change (bcontrib (mk _ _ _ _ _ _ _ _ _ _ _)) with (bcontrib s1).
    pose proof (HG3 a Ha) as H3. rewrite !bc_with_gedge in H3.
    change (gedge (with_gedge s1 G2) a) with (G2 a) in H3.
    change (Kq (with_gedge s1 G2) j a) with (Kq s1 j a) in H3.
    rewrite H3, Dj, (HG2 a Ha), Di, Eg, (IE a Ha), El.
    rewrite (sumn_ext n (fun b => Kq s1 a b * bcontrib s1 b)
                        (fun b => Kq s a b * two_pt (bcontrib s) i j di dj b)).
    2:{ intros b Hb. rewrite EK. unfold two_pt, delta, di, dj.
        destruct (Nat.eqb_spec b i) as [->|Nbi].
        - destruct (Nat.eqb_spec i j); [contradiction|]. ring.
        - destruct (Nat.eqb_spec b j) as [->|Nbj]; [ring|].
          rewrite (bcontrib_same s s1 b Hb F F1 Elo Ehi (Hoth b Nbi Nbj)). ring. }
    fold (Kv n (Kq s) (two_pt (bcontrib s) i j di dj) a).
    rewrite (Kv_two_pt n (Kq s) (bcontrib s) i j di dj a Hi Hj). unfold Kv.
    rewrite !EK, (Kq_sym K0 Hsym s i a), (Kq_sym K0 Hsym s j a). ring.
Qed.

(* smo_step = base-class step followed by the edge bookkeeping (shr = true), or the base-class step (shr = false) *)
Definition base_step (kind : bool) (s : qst) (i j : nat) : qst :=
  if kind then svm_update qops K0 s i j else box_update qops K0 s i j.

Lemma smo_step_shr kind s i j :
  smo_step qops n K0 kind true s i j = edge_pair s (base_step kind s i j) i j.
Proof. reflexivity. Qed.

Lemma smo_step_noshr kind s i j :
  smo_step qops n K0 kind false s i j = base_step kind s i j.
Proof.
  unfold smo_step, edge_update, base_step. cbn [negb orb]. destruct (i =? j)%nat; reflexivity.
Qed.

(* working-set conditions the solver guarantees; kind = true: SvmProblem, false: BoxConstrainedProblem *)
Definition wf_pair (kind : bool) (s : qst) (i j : nat) : Prop :=
  if kind then i <> j /\ grad s j <= grad s i else True.
Definition Kok (kind : bool) : Prop := if kind then True else forall p, 0 <= K0 p p.

(* what the base-class step does, uniformly for both kinds (no Inv_grad needed) *)
Lemma base_step_char kind (s : qst) i j :
  Kok kind -> (i < n)%nat -> (j < n)%nat -> wf_pair kind s i j -> Inv_box n s -> Inv_flags n s ->
  let s1 := base_step kind s i j in
  Inv_flags n s1 /\ Inv_box n s1 /\
  (forall a, a <> i -> a <> j -> alpha s1 a = alpha s a) /\
  lin s1 = lin s /\ lo s1 = lo s /\ hi s1 = hi s /\ perm s1 = perm s /\ active s1 = active s /\
  unshr s1 = unshr s /\ gedge s1 = gedge s /\ (forall a, ~ (a < active s)%nat -> grad s1 a = grad s a).
Proof.
  intros HK Hi Hj W B F s1. subst s1. destruct kind; cbn [base_step wf_pair Kok] in *.
  - destruct W as [Nij G].
    destruct (svm_update_char n K0 s i j Hi Hj Nij B F G) as
      (t & T0 & T1 & Hal & Hoth & Hg & Hg' & El & Elo & Ehi & Ep & Ea & Eu & Ee & F' & Bi & Bj).
    splits; auto.
    intros a Ha. rewrite Elo, Ehi. destruct (B a Ha) as [B1 B2].
    destruct (Nat.eq_dec a i) as [->|Ni]; [|destruct (Nat.eq_dec a j) as [->|Nj]].
    + split; [|assumption]. rewrite Hal. unfold two_pt, delta. rewrite Nat.eqb_refl.
      destruct (Nat.eqb_spec i j); [congruence|]. lra.
    + split; [assumption|]. rewrite Hal. unfold two_pt, delta. rewrite Nat.eqb_refl.
      destruct (Nat.eqb_spec j i); [congruence|]. lra.
    + rewrite (Hoth a Ni Nj). auto.
  - destruct (box_update_char n K0 HK s i j Hi Hj B F) as
      (mi & mj & Hz & Hal & Hoth & Hg & Hg' & El & Elo & Ehi & Ep & Ea & Eu & Ee & F' & Bi1 & Bi2 & Bj1 & Bj2 & GN).
    splits; auto.
    intros a Ha. rewrite Elo, Ehi. destruct (B a Ha) as [B1 B2].
    destruct (Nat.eq_dec a i) as [->|Ni]; [|destruct (Nat.eq_dec a j) as [->|Nj]].
    + split; assumption.
    + split; assumption.
    + rewrite (Hoth a Ni Nj). auto.
Qed.

(* ---- task 1: updateSMO with shrinking enabled keeps the edge gradient consistent ---- *)
Theorem smo_step_edge_form kind (s : qst) i j :
  Kok kind -> (i < n)%nat -> (j < n)%nat -> wf_pair kind s i j ->
  Inv_edge n K0 s -> Inv_flags n s -> Inv_box n s ->
  exists G, smo_step qops n K0 kind true s i j = with_gedge (base_step kind s i j) G /\
            Inv_edge n K0 (with_gedge (base_step kind s i j) G).
Proof.
  intros HK Hi Hj W IE F B. rewrite smo_step_shr.
  destruct (base_step_char kind s i j HK Hi Hj W B F) as (F1 & B1 & Hoth & El & Elo & Ehi & Ep & _ & _ & Eg & _).
  apply edge_pair_keeps; assumption.
Qed.

Theorem smo_step_keeps_edge kind (s : qst) i j :
  Kok kind -> (i < n)%nat -> (j < n)%nat -> wf_pair kind s i j ->
  Inv_edge n K0 s -> Inv_flags n s -> Inv_box n s ->
  Inv_edge n K0 (smo_step qops n K0 kind true s i j).
Proof.
  intros HK Hi Hj W IE F B.
  destruct (smo_step_edge_form kind s i j HK Hi Hj W IE F B) as (G & E & I). rewrite E. exact I.
Qed.

End Edge.

Print Assumptions edge_update_char.
Print Assumptions smo_step_keeps_edge.
