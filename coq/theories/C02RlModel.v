(* C02 — the blocked Cholesky recursion when the diagonal blocks are factorised by the RIGHT-LOOKING kernel
   (column-major lower / row-major upper): executable model, definitions only.

   Mirrors  /repo/include/shark/LinAlg/BLAS/kernels/default/potrf.hpp:
     potrf_block(A, column_major, lower) = potrf_block(trans(A), row_major, upper): on the window [s,e) of the stored lower
     triangle, step i: Aii < 0 -> return i+1 (index inside the window); Aii = sqrt(Aii); the column below is divided by it;
     rank-one update of the trailing lower triangle of the window                                   -> [potrf_rl_step], [potrf_w_rl]
     potrf_recursive (split, trsm<upper,right>, syrk<false>) with that leaf                         -> [potrf_rec_rl]
     dispatcher for all four (triangle, storage) pairs                                              -> [potrf_blocked2]
   As in C02Model.potrf_upper_step a zero pivot is ACCEPTED by this kernel (the test is `< 0`); the C++ then divides by zero;
   the model reports PZeroDiv when a division would follow inside the window (later windows: trsm throws "singular"). *)
From Coq Require Import List Arith Bool.
From SharkV Require Import C02Model C02BlkModel.
Import ListNotations.

Section Rl.
Variable A : Type.
Variable F : ops A.
Local Notation "0" := (fzero F).
Local Notation "1" := (fone F).
Local Infix "+" := (fadd F).
Local Infix "*" := (fmul F).
Local Infix "-" := (fsub F).
Local Infix "/" := (fdiv F).
Local Notation mat := (mat A).
Local Notation sumr := (sumr A F).
Local Notation memo2 := (memo2 A F).

Definition potrf_rl_step (n s e i : nat) (M : mat) : presult A :=
  let a := M i i in
  if fltb F a 0 then PFail A (S (Nat.sub i s)) M
  else
    let d := fsqrt F a in
    if feqb F d 0 && Nat.ltb (S i) e then PZeroDiv A (S (Nat.sub i s))
    else POk A (memo2 n (fun r c =>
           if Nat.eqb c i then (if Nat.eqb r i then d else if Nat.ltb i r && Nat.ltb r e then M r i / d else M r c)
           else if Nat.ltb i c && Nat.leb c r && Nat.ltb r e then M r c - (M c i / d) * (M r i / d)
           else M r c)).
Fixpoint potrf_w_rl (n s e k : nat) (M : mat) : presult A :=
  match k with
  | O => POk A M
  | S k' => match potrf_w_rl n s e k' M with POk _ L => potrf_rl_step n s e (Nat.add s k') L | r => r end
  end.

Fixpoint potrf_rec_rl (bs tbs fuel n s len : nat) (M : mat) : bresult A :=
  if Nat.leb len bs then of_presult A (potrf_w_rl n s (Nat.add s len) len M)
  else
    match fuel with
    | O => BExc A
    | S f =>
      let split := Nat.mul (Nat.div (Nat.div (Nat.sub (Nat.add len bs) 1) bs) 2) bs in
      let m := Nat.add s split in
      let e := Nat.add s len in
      match potrf_rec_rl bs tbs f n s split M with
      | BOk _ L1 =>
        match map_opt (fun i => trsv_rec A F tbs n false false L1 n s split (fun j => L1 i j)) (seq m (Nat.sub e m)) with
        | None => BExc A
        | Some X =>
          let L2 := memo2 n (fun i c => if Nat.leb m i && Nat.ltb i e && Nat.leb s c && Nat.ltb c m
                                        then nth (Nat.sub i m) X (fun _ => 0) c else L1 i c) in
          let L3 := memo2 n (fun i c => if Nat.leb m c && Nat.leb c i && Nat.ltb i e
                                        then L2 i c + fopp F 1 * sumr s m (fun t => L2 i t * L2 c t) else L2 i c) in
          potrf_rec_rl bs tbs f n m (Nat.sub len split) L3
        end
      | r => r
      end
    end.

(* dispatcher potrf<Triangular>(A), every size, all four (triangle, storage) pairs *)
Definition potrf_blocked2 (bs tbs : nat) (upper : bool) (o : orient) (n : nat) (M : mat) : bresult A :=
  match upper, o with
  | false, RowMajor => potrf_rec A F bs tbs n n 0 n M
  | true, ColMajor => transp_b A (potrf_rec A F bs tbs n n 0 n (transp A M))
  | false, ColMajor => potrf_rec_rl bs tbs n n 0 n M
  | true, RowMajor => transp_b A (potrf_rec_rl bs tbs n n 0 n (transp A M))
  end.
End Rl.
