(* C02 — pivoted Cholesky over Qc: concrete runs showing that the hypotheses of the pstrf theorems (exact square root on
   the pivots met, 0 <= eps) are satisfiable, with the blocked driver exercised (block size 2 on a 3 x 3 matrix). *)
From Coq Require Import QArith Qcanon List Lia.
From SharkV Require Import C02Model C02BlkModel C02Q C02QProofs C02PstrfModel C02PstrfProofs.
Import ListNotations.

(* square root given on 16, 4, 1 only *)
Definition ps_sq (x : Qc) : Qc :=
  if qc_eqb x (qc_make 16 1) then qc_make 4 1 else if qc_eqb x (qc_make 4 1) then qc_make 2 1
  else if qc_eqb x (qc_make 1 1) then qc_make 1 1 else Q2Qc 0.
Definition ps_F := qc_ops ps_sq.
Definition ps_epsm : Qc := qc_make 1 4503599627370496.   (* 2^-52 *)
(* A = [[1,0,0],[0,16,4],[0,4,5]]: pivots 16 (swap 0<->1), 4 (swap 1<->2), 1 *)
Definition ps_M3 : mat Qc := of_rows Qc ps_F
  [[qc_make 1 1; qc_make 0 1; qc_make 0 1]; [qc_make 0 1; qc_make 16 1; qc_make 4 1]; [qc_make 0 1; qc_make 4 1; qc_make 5 1]].
(* B = v v^T, v = (2,1,1): rank 1 *)
Definition ps_R1 : mat Qc := of_rows Qc ps_F
  [[qc_make 4 1; qc_make 2 1; qc_make 2 1]; [qc_make 2 1; qc_make 1 1; qc_make 1 1]; [qc_make 2 1; qc_make 1 1; qc_make 1 1]].

Definition ps_show (r : nat * mat Qc * pvec * list Qc) : nat * list (list Qc) * list nat * list Qc :=
  match r with (k, L, P, piv) => (k, to_rows Qc 3 3 L, tabp 3 P, piv) end.
Definition qc_eq_rows (a b : list (list Qc)) : bool :=
  forallb (fun p => qc_eq_list (fst p) (snd p)) (combine a b) && Nat.eqb (length a) (length b).

Example ex_pstrf_full_rank :
  match ps_show (pstrf_full Qc ps_F qc_abs 2 3 ps_epsm ps_M3) with
  | (k, L, P, piv) =>
      k = 3%nat /\ P = [1; 2; 2]%nat /\
      qc_eq_rows L [[qc_make 4 1; Q2Qc 0; Q2Qc 0]; [qc_make 1 1; qc_make 2 1; Q2Qc 0]; [Q2Qc 0; Q2Qc 0; qc_make 1 1]] = true /\
      qc_eq_list piv [qc_make 16 1; qc_make 4 1; qc_make 1 1] = true
  end.
Proof. vm_compute. repeat split; reflexivity. Qed.
Example ex_pstrf_rank_one :
  match ps_show (pstrf_full Qc ps_F qc_abs 2 3 ps_epsm ps_R1) with
  | (k, L, P, piv) =>
      k = 1%nat /\ P = [0; 1; 2]%nat /\
      qc_eq_rows L [[qc_make 2 1; Q2Qc 0; Q2Qc 0]; [qc_make 1 1; Q2Qc 0; Q2Qc 0]; [qc_make 1 1; Q2Qc 0; Q2Qc 0]] = true /\
      qc_eq_list piv [qc_make 4 1] = true
  end.
Proof. vm_compute. repeat split; reflexivity. Qed.

Lemma qc_eq_list_eq : forall l1 l2, qc_eq_list l1 l2 = true -> l1 = l2.
Proof.
  induction l1 as [|a l1 IH]; intros [|b l2] H; unfold qc_eq_list in H; cbn [combine forallb length Nat.eqb fst snd] in H;
    try reflexivity; try (rewrite andb_false_r in H; discriminate).
  apply andb_prop in H. destruct H as [H1 H2]. apply andb_prop in H1. destruct H1 as [H0 H1].
  apply (qc_eqb_spec ps_sq) in H0. subst b. f_equal. apply IH. unfold qc_eq_list. rewrite H1, H2. reflexivity.
Qed.

(* the hypotheses of pstrf_correct hold on these runs: 0 <= eps, and the square root is exact on every pivot met *)
Lemma ex_pstrf_hypotheses_satisfiable :
  fleb ps_F (fzero ps_F) (pstrf_eps Qc ps_F qc_abs 3 ps_epsm ps_M3) = true /\
  (let '(_, _, _, piv) := pstrf_full Qc ps_F qc_abs 2 3 ps_epsm ps_M3 in sq_ok Qc ps_F piv) /\
  (let '(_, _, _, piv) := pstrf_full Qc ps_F qc_abs 2 3 ps_epsm ps_R1 in sq_ok Qc ps_F piv).
Proof.
  split; [vm_compute; reflexivity|]. split.
  - destruct (pstrf_full Qc ps_F qc_abs 2 3 ps_epsm ps_M3) as [[[k L] P] piv] eqn:E.
    assert (Hp : qc_eq_list piv [qc_make 16 1; qc_make 4 1; qc_make 1 1] = true).
    { pose proof ex_pstrf_full_rank as H. unfold ps_show in H. rewrite E in H. tauto. }
    apply qc_eq_list_eq in Hp. subst piv.
    repeat constructor; apply Qc_is_canon; vm_compute; reflexivity.
  - destruct (pstrf_full Qc ps_F qc_abs 2 3 ps_epsm ps_R1) as [[[k L] P] piv] eqn:E.
    assert (Hp : qc_eq_list piv [qc_make 4 1] = true).
    { pose proof ex_pstrf_rank_one as H. unfold ps_show in H. rewrite E in H. tauto. }
    apply qc_eq_list_eq in Hp. subst piv.
    repeat constructor; apply Qc_is_canon; vm_compute; reflexivity.
Qed.

(* ---------- the two additional order laws of C02PstrfOrdProofs.v hold over Qc ---------- *)
Lemma qc_le_trans : forall sq x y z, fleb (qc_ops sq) x y = true -> fleb (qc_ops sq) y z = true -> fleb (qc_ops sq) x z = true.
Proof.
  intros sq x y z H1 H2. cbn in *. apply qc_leb_true in H1. apply qc_leb_true in H2. apply qc_leb_true.
  eapply Qcle_trans; eauto.
Qed.
Lemma qc_sq_nonneg : forall y : Qc, (0 <= y * y)%Qc.
Proof.
  intros y. destruct (Qclt_le_dec y 0) as [H|H].
  - assert (H2 : (0 <= - y)%Qc).
    { apply Qclt_le_weak in H. apply Qcopp_le_compat in H. replace (- 0)%Qc with 0%Qc in H by (apply Qc_is_canon; reflexivity). exact H. }
    replace (y * y)%Qc with ((- y) * (- y))%Qc by ring.
    replace 0%Qc with (0 * (- y))%Qc at 1 by ring. apply Qcmult_le_compat_r; assumption.
  - replace 0%Qc with (0 * y)%Qc at 1 by ring. apply Qcmult_le_compat_r; assumption.
Qed.
Lemma qc_le_sub_sq : forall sq x y, fleb (qc_ops sq) (fsub (qc_ops sq) x (fmul (qc_ops sq) y y)) x = true.
Proof.
  intros sq x y. cbn. apply qc_leb_true.
  pose proof (qc_sq_nonneg y) as H. apply Qcopp_le_compat in H.
  replace (- 0)%Qc with 0%Qc in H by (apply Qc_is_canon; reflexivity).
  replace (x - y * y)%Qc with (x + - (y * y))%Qc by ring.
  replace x with (x + 0)%Qc at 2 by ring. apply Qcplus_le_compat; [apply Qcle_refl|exact H].
Qed.
