(* C18 — text and binary archives: the stream of a vector (definitions only; proofs in C18TextProofs.v).

   C18Model.v treats an archive as a list of abstract typed tokens.  This file looks one level closer at the two
   archive formats Shark uses and at the vector serializer as it is coded in
   include/shark/LinAlg/BLAS/cpu/dense.hpp (remora::vector<T,cpu_tag>::serialize):

       collection_size_type count(size());
       ar & count;                                  // the SIZE item
       if (!Archive::is_saving::value) resize(count);
       if (!empty()) ar & make_array(data, size()); // the ELEMENTS, nothing at all for an empty vector

   * text archive  (boost::archive::text_oarchive): every primitive item is printed as one whitespace-free
     word preceded by ONE space; a word stream is re-tokenised by splitting at spaces, and the reader decides
     from the expected type how to parse the next word.  A vector is therefore: the decimal size word, then one
     word per element; an EMPTY vector is the single word "0".
   * binary archive (binary_oarchive): every primitive item is a fixed number of bytes (count: 8, double: 8);
     make_array is one block of size()*width bytes; an empty vector is the 8 count bytes and a block of length 0.

   In both formats nothing but the size item tells the reader how many items follow, so "token alignment" (the
   next field starts exactly where this one ends) hinges on writer and reader agreeing on what an EMPTY vector
   occupies.  The model is generic in the element codec (Section variables, instantiated in the theorems and, for
   the tie, by the OCaml driver with C's "%.17e" printing of doubles). *)
From Coq Require Import List Arith Bool String Ascii DecimalString DecimalNat Decimal.
Import ListNotations.
Open Scope list_scope.

(* ---------------------------------------------------------------------------------------- *)
(* decimal size words *)

Definition print_count (n : nat) : string := NilEmpty.string_of_uint (Nat.to_uint n).
Definition parse_count (s : string) : option nat :=
  match NilEmpty.uint_of_string s with Some d => Some (Nat.of_uint d) | None => None end.

Section VectorStream.
  (* items of the archive: words (text) or bytes (binary) *)
  Variable item : Type.
  (* the size item(s) *)
  Variable enc_count : nat -> list item.
  Variable dec_count : list item -> option (nat * list item).
  (* one element *)
  Variable A : Type.
  Variable enc : A -> list item.
  Variable dec : list item -> option (A * list item).
  Variable dflt : A.                   (* value-initialised element, what resize() appends *)

  (* resize(n): keeps the first n old elements, appends default elements *)
  Fixpoint resize (n : nat) (t : list A) : list A :=
    match n with
    | 0 => []
    | S n' => match t with [] => dflt :: resize n' [] | a :: t' => a :: resize n' t' end
    end.

  Definition is_empty (l : list A) : bool := match l with [] => true | _ => false end.

  (* make_array(data, size()) on the saving side *)
  Definition save_array (v : list A) : list item := flat_map enc v.

  (* make_array(data, n) on the loading side: n elements, overwriting *)
  Fixpoint load_array (n : nat) (ts : list item) : option (list A * list item) :=
    match n with
    | 0 => Some ([], ts)
    | S n' =>
      match dec ts with
      | None => None
      | Some (a, r) =>
        match load_array n' r with
        | None => None
        | Some (l, r') => Some (a :: l, r')
        end
      end
    end.

  (* vector::serialize, saving *)
  Definition save_vec (v : list A) : list item :=
    enc_count (List.length v) ++ (if is_empty v then [] else save_array v).

  (* vector::serialize, loading into the existing vector `target` *)
  Definition load_vec (target : list A) (ts : list item) : option (list A * list item) :=
    match dec_count ts with
    | None => None
    | Some (n, r) =>
      let t' := resize n target in
      if is_empty t' then Some (t', r) else load_array (List.length t') r
    end.

  (* the "tidied" variant of seeded change C18-3: return before the resize when the count is 0 *)
  Definition load_vec_early_return (target : list A) (ts : list item) : option (list A * list item) :=
    match dec_count ts with
    | None => None
    | Some (n, r) =>
      if Nat.eqb n 0 then Some (target, r)
      else let t' := resize n target in load_array (List.length t') r
    end.

  (* a writer that emits NO size item for an empty vector (what "an empty vector has no content" would mean if
     applied to the size as well): used to show that the alignment theorem is about the size item *)
  Definition save_vec_no_size_when_empty (v : list A) : list item :=
    if is_empty v then [] else enc_count (List.length v) ++ save_array v.

  (* several vectors one after the other in the same archive (consecutive fields of a class, or the elements of a
     std::vector<RealVector>): each is loaded into the corresponding old vector *)
  Fixpoint save_vecs (vs : list (list A)) : list item :=
    match vs with [] => [] | v :: r => save_vec v ++ save_vecs r end.

  Fixpoint load_vecs (targets : list (list A)) (ts : list item) : option (list (list A) * list item) :=
    match targets with
    | [] => Some ([], ts)
    | t :: tr =>
      match load_vec t ts with
      | None => None
      | Some (v, r) =>
        match load_vecs tr r with
        | None => None
        | Some (l, r') => Some (v :: l, r')
        end
      end
    end.
End VectorStream.

(* ---------------------------------------------------------------------------------------- *)
(* the text archive: words *)

Definition text_enc_count (n : nat) : list string := [print_count n].
Definition text_dec_count (ws : list string) : option (nat * list string) :=
  match ws with
  | w :: r => match parse_count w with Some n => Some (n, r) | None => None end
  | [] => None
  end.

(* element = one word, printed / parsed by a given pair of functions *)
Definition text_enc {A} (pr : A -> string) (a : A) : list string := [pr a].
Definition text_dec {A} (pa : string -> option A) (ws : list string) : option (A * list string) :=
  match ws with
  | w :: r => match pa w with Some a => Some (a, r) | None => None end
  | [] => None
  end.

Definition text_save_vec {A} (pr : A -> string) (v : list A) : list string :=
  save_vec string text_enc_count A (text_enc pr) v.
Definition text_save_vecs {A} (pr : A -> string) (vs : list (list A)) : list string :=
  save_vecs string text_enc_count A (text_enc pr) vs.
Definition text_load_vec {A} (pa : string -> option A) (dflt : A) (target : list A) (ws : list string) :=
  load_vec string text_dec_count A (text_dec pa) dflt target ws.

(* the character stream: every word is preceded by one space (basic_text_oprimitive::save + newtoken) *)
Fixpoint render (ws : list string) : string :=
  match ws with
  | [] => EmptyString
  | w :: r => String " "%char (append w (render r))
  end.

(* splitting at spaces; `cur` is the word being collected (reversed) *)
Fixpoint rev_string (acc : string) (s : string) : string :=
  match s with EmptyString => acc | String c r => rev_string (String c acc) r end.

Fixpoint lex_aux (cur : string) (s : string) : list string :=
  match s with
  | EmptyString => match cur with EmptyString => [] | _ => [rev_string EmptyString cur] end
  | String c r =>
    if Ascii.eqb c " "%char
    then match cur with EmptyString => lex_aux EmptyString r | _ => rev_string EmptyString cur :: lex_aux EmptyString r end
    else lex_aux (String c cur) r
  end.
Definition lex (s : string) : list string := lex_aux EmptyString s.

Fixpoint space_free (w : string) : bool :=
  match w with EmptyString => true | String c r => negb (Ascii.eqb c " "%char) && space_free r end.
Definition word (w : string) : bool :=
  match w with EmptyString => false | _ => space_free w end.

(* ---------------------------------------------------------------------------------------- *)
(* the binary archive: bytes; a count is 8 bytes little endian, an element `width` bytes *)

Fixpoint bytes_of_nat (k : nat) (n : nat) : list nat :=       (* k bytes, little endian *)
  match k with 0 => [] | S k' => (n mod 256) :: bytes_of_nat k' (n / 256) end.
Fixpoint nat_of_bytes (bs : list nat) : nat :=
  match bs with [] => 0 | b :: r => b + 256 * nat_of_bytes r end.

Definition bin_enc_count (n : nat) : list nat := bytes_of_nat 8 n.
Definition bin_dec_count (bs : list nat) : option (nat * list nat) :=
  if Nat.leb 8 (List.length bs) then Some (nat_of_bytes (firstn 8 bs), skipn 8 bs) else None.
