(* C10 — LBFGS.cpp, getBoxConstrainedDirection as coded (after the repairs e082c2d6 and 42faa67e): for EVERY input
   (history, m_bdiag, bounds, point inside the box widened by the 1e-13 slack of BoxConstraintHandler::isFeasible,
   gradient) the point x + d is again inside the widened box, in each of the three branches (full quasi-Newton step,
   Cauchy step cut at a bound, dog-leg).  Hence the SHARK_RUNTIME_CHECK "internal error" of computeSearchDirection never
   fires in exact arithmetic and every iterate of box-constrained L-BFGS is feasible: the hypothesis of
   C10_box_feasible_slack_partial is discharged for L-BFGS.  Axiom-free. *)
From Coq Require Import List QArith Qreduction Qabs Bool Arith Lia Lqa Qfield Setoid Morphisms.
From SharkV Require Import C10Model C10Proofs C10LsModel C10LsProofs C10BfgsProofs C10Gen C10LbfgsModel C10LbfgsProofs.
Import ListNotations.
Open Scope Q_scope.

Lemma box_eps_pos : 0 < box_eps. Proof. reflexivity. Qed.

(* ---------------- the widened box as a proposition ---------------- *)
Fixpoint slackP (l u x : vec) : Prop :=
  match l, u, x with
  | a :: l', b :: u', c :: x' => (a - box_eps <= c /\ c <= b + box_eps) /\ slackP l' u' x'
  | [], [], [] => True
  | _, _, _ => False
  end.

Lemma slack_iff : forall l u x, box_feasb_slack box_eps l u x = true <-> slackP l u x.
Proof.
  unfold box_feasb_slack.
  induction l as [|a l IH]; intros [|b u] [|c x]; cbn [map box_feasb slackP];
    try (split; [intro; discriminate | intro; contradiction]).
  - split; auto.
  - rewrite !andb_true_iff, !Qle_bool_iff, IH, qsub_eq, qadd_eq. tauto.
Qed.

Lemma slackP_length : forall l u x, slackP l u x -> length l = length x /\ length u = length x.
Proof.
  induction l as [|a l IH]; intros [|b u] [|c x] H; cbn [slackP] in H; try tauto.
  destruct H as [_ H]. destruct (IH u x H). cbn [length]. split; congruence.
Qed.

Definition veq (a b : vec) : Prop := Forall2 Qeq a b.

Lemma slackP_veq : forall x x', veq x x' -> forall l u, slackP l u x -> slackP l u x'.
Proof.
  induction 1 as [|c c' x x' E F IH]; intros [|a l] [|b u] H; cbn [slackP] in *; try tauto.
  destruct H as [[H1 H2] H3]. rewrite E in H1, H2. split; [split; assumption|]. apply IH. exact H3.
Qed.

Lemma veq_sym : forall a b, veq a b -> veq b a.
Proof. induction 1; constructor; [symmetry; assumption | assumption]. Qed.

Lemma veq_scale_one : forall x v, veq (vadd x (vscale 1 v)) (vadd x v).
Proof.
  induction x as [|a x IH]; intros [|b v]; cbn [vscale map vadd]; try constructor.
  - qn. ring.
  - apply IH.
Qed.

Lemma veq_dogleg : forall x c dir t,
  veq (vadd (vadd x c) (vscale t dir)) (vadd x (vscale 1 (vadd c (vscale t dir)))).
Proof.
  induction x as [|a x IH]; intros [|b c] [|e dir] t; cbn [vscale map vadd]; try constructor.
  - qn. ring.
  - apply IH.
Qed.

(* ---------------- min / max / ratio test ---------------- *)
Lemma qmin_eq : forall a b, qmin a b = if qltb b a then b else a. Proof. reflexivity. Qed.
Lemma qmax_eq : forall a b, qmax a b = if qltb a b then b else a. Proof. reflexivity. Qed.

Lemma qmin_le_l : forall a b, qmin a b <= a.
Proof. intros. rewrite qmin_eq. destruct (qltb b a) eqn:E; [apply qltb_lt in E; lra | lra]. Qed.
Lemma qmin_le_r : forall a b, qmin a b <= b.
Proof. intros. rewrite qmin_eq. destruct (qltb b a) eqn:E; [lra | apply qltb_false_le in E; exact E]. Qed.
Lemma qmin_nonneg : forall a b, 0 <= a -> 0 <= b -> 0 <= qmin a b.
Proof. intros. rewrite qmin_eq. destruct (qltb b a); assumption. Qed.
Lemma qmax0_nonneg : forall v, 0 <= qmax 0 v.
Proof. intros. rewrite qmax_eq. destruct (qltb 0 v) eqn:E; [apply qltb_lt in E; lra | lra]. Qed.
Lemma qmax0_cases : forall v, (qmax 0 v = v /\ 0 < v) \/ (qmax 0 v = 0 /\ v <= 0).
Proof.
  intros. rewrite qmax_eq. destruct (qltb 0 v) eqn:E; [left; apply qltb_lt in E | right; apply qltb_false_le in E]; auto.
Qed.

Definition ratio_head (b : bool) (a bb xi ci alpha : Q) : Q :=
  if negb b || Qeq_bool ci 0 then alpha
  else if qltb ci 0 then qmin alpha (qmax 0 (qdiv (qsub a xi) ci))
  else qmin alpha (qmax 0 (qdiv (qsub bb xi) ci)).

Lemma lb_ratio_cons : forall b m a l bb u xi x ci c alpha,
  lb_ratio (b :: m) (a :: l) (bb :: u) (xi :: x) (ci :: c) alpha = lb_ratio m l u x c (ratio_head b a bb xi ci alpha).
Proof. reflexivity. Qed.

Lemma ratio_head_bounds : forall b a bb xi ci alpha, 0 <= alpha ->
  0 <= ratio_head b a bb xi ci alpha /\ ratio_head b a bb xi ci alpha <= alpha.
Proof.
  intros b a bb xi ci alpha H. unfold ratio_head.
  destruct (negb b || Qeq_bool ci 0); [lra|].
  destruct (qltb ci 0); (split; [apply qmin_nonneg; [exact H | apply qmax0_nonneg] | apply qmin_le_l]).
Qed.

Lemma ratio_bounds : forall m l u x c alpha, 0 <= alpha ->
  0 <= lb_ratio m l u x c alpha /\ lb_ratio m l u x c alpha <= alpha.
Proof.
  induction m as [|b m IH]; intros l u x c alpha H; [cbn; lra|].
  destruct l as [|a l]; [cbn; lra|]. destruct u as [|bb u]; [cbn; lra|].
  destruct x as [|xi x]; [cbn; lra|]. destruct c as [|ci c]; [cbn; lra|].
  rewrite lb_ratio_cons. destruct (ratio_head_bounds b a bb xi ci alpha H) as [H0 H1].
  destruct (IH l u x c _ H0). lra.
Qed.

(* coordinates that are held fixed do not move *)
Fixpoint maskzero (m : list bool) (c : vec) : Prop :=
  match m, c with
  | b :: m', ci :: c' => (b = false -> ci == 0) /\ maskzero m' c'
  | [], [] => True
  | _, _ => False
  end.

(* the ratio test keeps every point x + t c, 0 <= t <= alpha, inside the widened box *)
Lemma ratio_feasible : forall m l u x c alpha t, 0 <= alpha -> 0 <= t -> t <= lb_ratio m l u x c alpha ->
  slackP l u x -> maskzero m c -> length c = length x -> slackP l u (vadd x (vscale t c)).
Proof.
  induction m as [|b m IH]; intros l u x c alpha t Ha Ht Hr S Z Lc.
  - destruct c; cbn [maskzero] in Z; [|tauto]. destruct x; [|discriminate]. destruct l, u; cbn [slackP] in S; try tauto.
  - destruct c as [|ci c]; cbn [maskzero] in Z; [tauto|]. destruct Z as [Z0 Z].
    destruct l as [|a l]; [destruct u, x; cbn [slackP] in S; tauto|].
    destruct u as [|bb u]; [destruct x; cbn [slackP] in S; tauto|].
    destruct x as [|xi x]; [cbn [slackP] in S; tauto|].
    cbn [slackP] in S. destruct S as [[S1 S2] S].
    rewrite lb_ratio_cons in Hr.
    destruct (ratio_head_bounds b a bb xi ci alpha Ha) as [H0 H1].
    destruct (ratio_bounds m l u x c _ H0) as [_ R1].
    cbn [vscale map vadd slackP]. fold (vscale t c). split; [|apply (IH l u x c _ t H0 Ht Hr S Z); simpl in Lc; lia].
    assert (t <= ratio_head b a bb xi ci alpha) as Tr by lra.
    pose proof box_eps_pos as EP.
    rewrite qadd_eq, qmul_eq. unfold ratio_head in Tr.
    destruct b; cbn [negb orb] in Tr.
    + destruct (Qeq_bool ci 0) eqn:E0.
      * apply Qeq_bool_iff in E0. rewrite E0. split; lra.
      * assert (~ ci == 0) as NZ by (intro E; apply Qeq_bool_iff in E; congruence).
        destruct (qltb ci 0) eqn:EL.
        -- apply qltb_lt in EL.
           pose proof (qmin_le_r alpha (qmax 0 (qdiv (qsub a xi) ci))) as M.
           assert (t <= qmax 0 (qdiv (qsub a xi) ci)) as T1 by lra. clear M Tr.
           destruct (qmax0_cases (qdiv (qsub a xi) ci)) as [[E P]|[E P]]; rewrite E in T1.
           ++ rewrite qdiv_eq, qsub_eq in T1.
              assert ((a - xi) / ci * ci == a - xi) as F by (field; exact NZ).
              assert ((a - xi) / ci * ci <= t * ci) by nra. split; nra.
           ++ assert (t == 0) as T0 by lra. rewrite T0. split; lra.
        -- apply qltb_false_le in EL. assert (0 < ci) as CP by (destruct (Qle_lt_or_eq _ _ EL) as [L|L]; [exact L | exfalso; apply NZ; symmetry; exact L]).
           pose proof (qmin_le_r alpha (qmax 0 (qdiv (qsub bb xi) ci))) as M.
           assert (t <= qmax 0 (qdiv (qsub bb xi) ci)) as T1 by lra. clear M Tr.
           destruct (qmax0_cases (qdiv (qsub bb xi) ci)) as [[E P]|[E P]]; rewrite E in T1.
           ++ rewrite qdiv_eq, qsub_eq in T1.
              assert ((bb - xi) / ci * ci == bb - xi) as F by (field; exact NZ).
              assert (t * ci <= (bb - xi) / ci * ci) by nra. split; nra.
           ++ assert (t == 0) as T0 by lra. rewrite T0. split; lra.
    + rewrite (Z0 eq_refl). split; lra.
Qed.

(* the full quasi-Newton step is taken only if it stays inside the widened box *)
Lemma lb_step_ok_cons : forall b m a l c u xi x si st,
  lb_step_ok (b :: m) (a :: l) (c :: u) (xi :: x) (si :: st) =
  (negb b || negb (qltb (qadd (qadd xi box_eps) si) a || qltb c (qadd (qsub xi box_eps) si))) && lb_step_ok m l u x st.
Proof. reflexivity. Qed.

Lemma step_ok_feasible : forall m l u x st, lb_step_ok m l u x st = true -> slackP l u x -> maskzero m st ->
  length st = length x -> slackP l u (vadd x (vscale 1 st)).
Proof.
  induction m as [|b m IH]; intros l u x st H S Z Ls.
  - destruct st; cbn [maskzero] in Z; [|tauto]. destruct x; [|discriminate]. destruct l, u; cbn [slackP] in S; try tauto.
  - destruct st as [|si st]; cbn [maskzero] in Z; [tauto|]. destruct Z as [Z0 Z].
    destruct l as [|a l]; [destruct u, x; cbn [slackP] in S; tauto|].
    destruct u as [|c u]; [destruct x; cbn [slackP] in S; tauto|].
    destruct x as [|xi x]; [cbn [slackP] in S; tauto|].
    cbn [slackP] in S. destruct S as [[S1 S2] S].
    rewrite lb_step_ok_cons in H. apply andb_prop in H. destruct H as [H1 H2].
    cbn [vscale map vadd slackP]. fold (vscale 1 st). split; [|apply IH; try assumption; simpl in Ls; lia].
    rewrite qadd_eq, qmul_eq. destruct b; cbn [negb orb] in H1.
    + apply negb_true_iff in H1. apply orb_false_iff in H1. destruct H1 as [A B].
      apply qltb_false_le in A. apply qltb_false_le in B. rewrite !qadd_eq in A. rewrite qadd_eq, qsub_eq in B. split; lra.
    + rewrite (Z0 eq_refl). split; lra.
Qed.

(* ---------------- masks ---------------- *)
Lemma lb_mask_length : forall l u x p, length l = length x -> length u = length x -> length p = length x ->
  length (lb_mask l u x p) = length x.
Proof.
  induction l as [|a l IH]; intros [|b u] [|c x] [|q p] L1 L2 L3; try discriminate; [reflexivity|].
  change (lb_mask (a :: l) (b :: u) (c :: x) (q :: p)) with
    (negb ((qltb (qsub c box_eps) a && qltb q 0) || (qltb b (qadd c box_eps) && qltb 0 q)) :: lb_mask l u x p).
  cbn [length] in *. f_equal. apply IH; lia.
Qed.

Lemma vmask_cons : forall b m a v, vmask (b :: m) (a :: v) = (if b then a else 0) :: vmask m v.
Proof. reflexivity. Qed.

Lemma vmask_length : forall m v, length m = length v -> length (vmask m v) = length v.
Proof.
  induction m as [|b m IH]; intros [|a v] L; try discriminate; [reflexivity|].
  rewrite vmask_cons. cbn [length] in *. f_equal. apply IH. lia.
Qed.

Lemma vmask_maskzero : forall m v, length m = length v -> maskzero m (vmask m v).
Proof.
  induction m as [|b m IH]; intros [|a v] L; try discriminate; [exact I|].
  rewrite vmask_cons. cbn [maskzero]. split; [intro E; rewrite E; reflexivity | apply IH; simpl in L; lia].
Qed.

Lemma maskzero_vdiv : forall m v d, maskzero m v -> maskzero m (vdiv v d).
Proof.
  induction m as [|b m IH]; intros [|a v] d Z; cbn [maskzero] in *; try tauto.
  change (vdiv (a :: v) d) with (qdiv a d :: vdiv v d). cbn [maskzero].
  destruct Z as [Z0 Z]. split; [|apply IH; exact Z].
  intro E. rewrite qdiv_eq, (Z0 E). unfold Qdiv. ring.
Qed.

Lemma maskzero_vsub : forall m v w, maskzero m v -> maskzero m w -> maskzero m (vsub v w).
Proof.
  induction m as [|b m IH]; intros [|a v] [|c w] Z1 Z2; cbn [maskzero vsub] in *; try tauto.
  destruct Z1 as [A Z1]. destruct Z2 as [B Z2]. split; [|apply IH; assumption].
  intro E. rewrite qsub_eq, (A E), (B E). ring.
Qed.

(* ---------------- getBoxConstrainedDirection ---------------- *)
Lemma lb_box_dir_eq : forall bdiag ps l u x g,
  lb_box_dir bdiag ps l u x g =
  let m := lb_mask l u x (vneg g) in
  let p0 := vmask m (vneg g) in
  let step := vmask m (lb_mult_binv bdiag ps p0) in
  if lb_step_ok m l u x step then step
  else
    let cauchy := vdiv p0 (dot p0 (lb_mult_b bdiag ps p0)) in
    let alpha := lb_ratio m l u x cauchy 1 in
    if qltb alpha 1 then vscale alpha cauchy
    else vadd cauchy (vscale (lb_ratio m l u (vadd x cauchy) (vsub step cauchy) 1) (vsub step cauchy)).
Proof. reflexivity. Qed.

(* FEASIBILITY of x + d for every input: history (any pairs of the right dimension with y's > 0: what updateHist
   stores), m_bdiag, bounds (no relation between lower and upper is needed), gradient *)
Theorem lb_box_dir_feasible : forall n bdiag ps l u x g,
  Forall (pair_ok n) ps -> length x = n -> length g = n ->
  box_feasb_slack box_eps l u x = true ->
  box_feasb_slack box_eps l u (vadd x (vscale 1 (lb_box_dir bdiag ps l u x g))) = true.
Proof.
  intros n bdiag ps l u x g F Lx Lg Hx. apply slack_iff in Hx. apply slack_iff.
  destruct (slackP_length l u x Hx) as [Ll Lu].
  rewrite lb_box_dir_eq. cbv zeta.
  set (m := lb_mask l u x (vneg g)).
  assert (length m = n) as Lm by (unfold m; rewrite lb_mask_length; rewrite ?vneg_length; congruence).
  set (p0 := vmask m (vneg g)).
  assert (length p0 = n) as Lp0 by (unfold p0; rewrite vmask_length; rewrite vneg_length; congruence).
  assert (maskzero m p0) as Zp0 by (apply vmask_maskzero; rewrite vneg_length; congruence).
  set (q := lb_mult_binv bdiag ps p0).
  assert (length q = n) as Lq by (apply mult_binv_length; assumption).
  set (step := vmask m q).
  assert (maskzero m step) as Zst by (apply vmask_maskzero; congruence).
  assert (length step = n) as Lst by (unfold step; rewrite vmask_length; congruence).
  destruct (lb_step_ok m l u x step) eqn:OK.
  - apply (step_ok_feasible m); try assumption. congruence.
  - set (cauchy := vdiv p0 (dot p0 (lb_mult_b bdiag ps p0))).
    assert (maskzero m cauchy) as Zc by (apply maskzero_vdiv; exact Zp0).
    assert (length cauchy = n) as Lc by (unfold cauchy; rewrite vdiv_length; exact Lp0).
    set (alpha := lb_ratio m l u x cauchy 1).
    assert (0 <= alpha /\ alpha <= 1) as [A0 A1] by (apply ratio_bounds; lra).
    destruct (qltb alpha 1) eqn:EA.
    + apply (slackP_veq (vadd x (vscale alpha cauchy))).
      * apply veq_sym. apply veq_scale_one.
      * apply (ratio_feasible m l u x cauchy 1 alpha); try assumption; try lra; try (fold alpha; lra); try congruence.
    + apply qltb_false_le in EA.
      assert (slackP l u (vadd x cauchy)) as Sp.
      { apply (slackP_veq (vadd x (vscale 1 cauchy))); [apply veq_scale_one|].
        apply (ratio_feasible m l u x cauchy 1 1); try assumption; try lra; try (fold alpha; exact EA); try congruence. }
      set (dir := vsub step cauchy).
      assert (maskzero m dir) as Zd by (apply maskzero_vsub; assumption).
      set (alpha2 := lb_ratio m l u (vadd x cauchy) dir 1).
      assert (0 <= alpha2 /\ alpha2 <= 1) as [B0 B1] by (apply ratio_bounds; lra).
      apply (slackP_veq (vadd (vadd x cauchy) (vscale alpha2 dir))); [apply veq_dogleg|].
      apply (ratio_feasible m l u (vadd x cauchy) dir 1 alpha2); try assumption; try lra; try (fold alpha2; lra).
      unfold dir. rewrite vsub_length, vadd_length; congruence.
Qed.

(* ---------------- box-constrained L-BFGS runs ---------------- *)
Lemma box_slack_segment : forall l u x d t0 t,
  0 <= t -> t <= t0 -> box_feasb_slack box_eps l u x = true -> box_feasb_slack box_eps l u (vadd x (vscale t0 d)) = true ->
  box_feasb_slack box_eps l u (vadd x (vscale t d)) = true.
Proof. intros l u. unfold box_feasb_slack. apply box_segment. Qed.

Section LbfgsBoxRun.
  Variable f : vec -> Q.
  Variable grad : vec -> vec.
  Variables l u : vec.
  Variable n : nat.
  Variable numhist : nat.
  Hypothesis grad_length : forall x, length x = n -> length (grad x) = n.

  Notation feas := (box_feasb_slack box_eps l u).
  Notation dirb := (lbfgs_dir_box l u).
  Notation step := (ls_step f grad lb_model dirb).
  Notation run := (ls_run f grad lb_model dirb).
  Notation init := (ls_init f grad feas lb_model (lb_init_model numhist)).

  Definition lbinv (s : ls_state lb_model) : Prop :=
    consistent f grad lb_model s /\ length (pt s) = n /\ lb_good n (extra s) /\
    finv feas lb_model s.

  Lemma lbinv_step : forall s, lbinv s -> lbinv (step s).
  Proof.
    intros s (C & Lp & G & Fi).
    pose proof (mid_feasible f grad feas lb_model (box_slack_segment l u) s Fi) as Fm.
    pose proof (step_consistent f grad lb_model dirb s C) as C'.
    destruct (step_via_mid f grad lb_model dirb s) as (A & B & D & E & T).
    set (mid := ls_mid f grad lb_model s) in *.
    assert (length (pt mid) = n) as Lm.
    { apply slack_iff in Fm. destruct (slackP_length _ _ _ Fm) as [L1 _].
      destruct Fi as (F0 & _). apply slack_iff in F0. destruct (slackP_length _ _ _ F0) as [L0 _]. congruence. }
    assert (der mid = grad (pt mid)) as Dm by (destruct C' as [_ Cd]; rewrite <- D, <- A; exact Cd).
    assert (length (der mid) = n) as Lg by (rewrite Dm; apply grad_length; exact Lm).
    assert (length (last_pt mid) = n /\ length (last_der mid) = n /\ extra mid = extra s) as (Llp & Lld & Em).
    { unfold mid, ls_mid. destruct (backtracking _ _ _ _ _ _ _) as [[p' v'] g']. cbn [last_pt last_der extra].
      destruct C as [_ Cd]. rewrite Cd. repeat split; auto. }
    assert (lb_good n (lbfgs_hist mid)) as G'.
    { unfold lbfgs_hist. apply update_hist_good; [| |rewrite Em; exact G]; rewrite vsub_length; congruence. }
    assert (extra (step s) = lbfgs_hist mid) as Ex.
    { unfold ls_step. fold mid. unfold mid, ls_mid. destruct (backtracking _ _ _ _ _ _ _) as [[p' v'] g']. reflexivity. }
    unfold lbinv. split; [exact C'|]. split; [rewrite A; exact Lm|]. split; [rewrite Ex; exact G'|].
    unfold finv. rewrite A, T, E. split; [exact Fm|]. split; [lra|].
    change (snd (dirb mid)) with (lb_box_dir (lb_bdiag (lbfgs_hist mid)) (lb_pairs (lbfgs_hist mid)) l u (pt mid) (der mid)).
    apply (lb_box_dir_feasible n); try assumption. apply (good_pairs _ _ G').
  Qed.

  Lemma lbinv_run : forall k s, lbinv s -> lbinv (run k s).
  Proof. induction k; intros s H; cbn [ls_run]; auto. apply IHk. apply lbinv_step. exact H. Qed.

  Lemma lbinv_init : forall ty x0, length x0 = n -> feas x0 = true -> lbinv (init ty x0).
  Proof.
    intros ty x0 L0 F. unfold lbinv. split; [apply init_consistent|]. split; [exact L0|].
    split; [unfold ls_init; cbn [extra]; rewrite L0; apply init_model_good|].
    apply finv_init; [exact F|]. unfold box_feasb_slack. apply box_zero_step; [|exact F].
    rewrite vneg_length, grad_length by exact L0. symmetry. exact L0.
  Qed.

  (* every iterate of box-constrained L-BFGS is feasible (isFeasible of BoxConstraintHandler, i.e. with its slack), for
     every objective, every m_numHist, every starting point inside the widened box: no hypothesis on the direction rule *)
  Theorem lbfgs_box_feasible : forall ty x0 k, length x0 = n -> feas x0 = true ->
    feas (pt (run k (init ty x0))) = true.
  Proof.
    intros ty x0 k L0 F. destruct (lbinv_run k _ (lbinv_init ty x0 L0 F)) as (_ & _ & _ & (H & _)). exact H.
  Qed.

  (* ... and the run-time check of computeSearchDirection (isFeasible (point + direction)) holds after every step *)
  Theorem lbfgs_box_internal_check_holds : forall ty x0 k, length x0 = n -> feas x0 = true ->
    let s := run (S k) (init ty x0) in feas (vadd (pt s) (vscale 1 (sdir s))) = true.
  Proof.
    intros ty x0 k L0 F s.
    assert (lbinv s) as (_ & _ & _ & (_ & _ & H)) by (apply lbinv_run, lbinv_init; assumption).
    replace (step_len s) with 1 in H; [exact H|].
    unfold s. clear. generalize (init ty x0). induction k as [|k IH]; intros s0.
    - cbn [ls_run]. destruct (step_via_mid f grad lb_model dirb s0) as (_ & _ & _ & _ & T). symmetry. exact T.
    - change (run (S (S k)) s0) with (run (S k) (step s0)). apply IH.
  Qed.
End LbfgsBoxRun.

(* ---------------- example: all three branches occur and every iterate is feasible ---------------- *)
Definition lbb_l : vec := [31 # 8; -2].
Definition lbb_u : vec := [33 # 8; - (15 # 8)].
Definition lbb_trace := ls_trace (quad_f exb_A exb_b) (quad_grad exb_A exb_b) lb_model (lbfgs_dir_box lbb_l lbb_u) 3
   (ls_init (quad_f exb_A exb_b) (quad_grad exb_A exb_b) (box_feasb_slack box_eps lbb_l lbb_u) lb_model (lb_init_model 2) 2 [4; -2]).
Definition lbb_branch (s : ls_state lb_model) : nat :=
  g_box_branch Q QO box_eps (lb_bdiag (extra s)) (lb_pairs (extra s)) lbb_l lbb_u (pt s) (der s).
Example lbfgs_box_run_example :
  forallb (fun s => box_feasb_slack box_eps lbb_l lbb_u (pt s)) lbb_trace = true /\
  map lbb_branch lbb_trace = [2; 2; 1; 0]%nat /\ strictly_decreasing (map val (firstn 3 lbb_trace)) = true.
Proof. vm_compute. repeat split. Qed.
