(* C13 — the WFG recursion (model C13Wfg.v of HypervolumeCalculatorMDWFG.h) equals hv_spec for every
   point set below the reference point, in every dimension.  Axiom-free (lists, nat, Z).

   Key identity on the unit-cell spec (inclusion/exclusion, no hypotheses):
       hv_box (p :: S) + hv_box (map (max . p) S) = hv_box S + hv_box [p]
   + hv_box [p] = product of the edge lengths (boxVolume)
   + removing the points that are not of rank 1 does not change hv_box (every point is weakly
     dominated by a rank-1 point). *)
From Coq Require Import List ZArith Lia Bool Arith Permutation.
From SharkV Require Import ListAux C13Model C13Proofs C13Wfg.
Import ListNotations.
Local Open Scope Z_scope.

(* ---------------------------------------------------------------------------------------- *)
(* sums *)
Lemma zsum_n_plus n : forall lo f g,
  zsum_n n lo (fun z => f z + g z) = zsum_n n lo f + zsum_n n lo g.
Proof. induction n as [|n IH]; intros; cbn [zsum_n]; [lia|]. rewrite IH. lia. Qed.

Lemma zsum_plus lo hi f g : zsum lo hi (fun z => f z + g z) = zsum lo hi f + zsum lo hi g.
Proof. apply zsum_n_plus. Qed.

(* ---------------------------------------------------------------------------------------- *)
(* inclusion / exclusion *)
Lemma pmax_nil_r q : pmax q [] = [].
Proof. destruct q; reflexivity. Qed.

Lemma slice_map_pmax_nil z S : slice z (map (fun q => pmax q []) S) = [].
Proof.
  induction S as [|q S IH]; [reflexivity|]. cbn [map]. rewrite slice_cons, IH, pmax_nil_r. reflexivity.
Qed.

Lemma slice_map_pmax z x t S :
  slice z (map (fun q => pmax q (x :: t)) S) =
  if x <=? z then map (fun u => pmax u t) (slice z S) else [].
Proof.
  induction S as [|q S IH]; [cbn; destruct (x <=? z); reflexivity|].
  cbn [map]. rewrite !slice_cons, IH. destruct q as [|y u]; cbn [pmax].
  - destruct (x <=? z); reflexivity.
  - destruct (Z.leb_spec x z); destruct (Z.leb_spec y z); destruct (Z.leb_spec (Z.max y x) z);
      try lia; reflexivity.
Qed.

Lemma slice_cons_nil z S : slice z ([] :: S) = slice z S.
Proof. reflexivity. Qed.
Lemma slice_cons_in z x t S : x <= z -> slice z ((x :: t) :: S) = t :: slice z S.
Proof. intros H. rewrite slice_cons. destruct (Z.leb_spec x z); [reflexivity|lia]. Qed.
Lemma slice_cons_out z x t S : z < x -> slice z ((x :: t) :: S) = slice z S.
Proof. intros H. rewrite slice_cons. destruct (Z.leb_spec x z); [lia|reflexivity]. Qed.
Lemma slice_nil z : slice z [] = [].
Proof. reflexivity. Qed.

Theorem hv_box_incl_excl lo ref : forall S p,
  hv_box lo ref (p :: S) + hv_box lo ref (map (fun q => pmax q p) S) =
  hv_box lo ref S + hv_box lo ref [p].
Proof.
  induction ref as [|r ref IH]; intros S p.
  - cbn [hv_box]. destruct S; cbn [map]; lia.
  - cbn [hv_box]. rewrite <- !zsum_plus. apply zsum_ext. intros z _.
    destruct p as [|x t].
    + rewrite slice_map_pmax_nil, !slice_cons_nil, slice_nil, hv_box_nil. lia.
    + rewrite slice_map_pmax. destruct (Z.leb_spec x z).
      * rewrite !slice_cons_in, slice_nil by auto. apply IH.
      * rewrite !slice_cons_out, slice_nil, hv_box_nil by auto. lia.
Qed.

(* ---------------------------------------------------------------------------------------- *)
(* one point: product of the edge lengths *)
Fixpoint lprod (l : list Z) : Z := match l with [] => 1 | x :: t => x * lprod t end.
Definition edges (ref p : point) : list Z := map (fun rp => fst rp - snd rp) (combine ref p).

Lemma hv_box_single lo : forall ref p, Forall2 (fun r x => lo <= x <= r) ref p ->
  hv_box lo ref [p] = lprod (edges ref p).
Proof.
  induction 1 as [|r x ref p Hx H IH]; [reflexivity|].
  unfold edges. cbn [hv_box combine map lprod fst snd].
  rewrite (zsum_split lo x r) by lia.
  rewrite (zsum_zero lo x).
  2:{ intros z Hz. rewrite slice_cons_out, slice_nil by lia. apply hv_box_nil. }
  rewrite (zsum_ext x r _ (fun _ => hv_box lo ref [p])).
  2:{ intros z Hz. rewrite slice_cons_in by lia. reflexivity. }
  rewrite zsum_const by lia. rewrite IH. unfold edges. lia.
Qed.

Lemma fold_left_mul (l : list (Z * Z)) : forall a,
  fold_left (fun v rp => v * (fst rp - snd rp)) l a = a * lprod (map (fun rp => fst rp - snd rp) l).
Proof. induction l as [|e l IH]; intros a; cbn [fold_left map lprod]; [lia|]. rewrite IH. lia. Qed.

Lemma box_vol_lprod ref p : box_vol ref p = lprod (edges ref p).
Proof. unfold box_vol, edges. rewrite fold_left_mul. lia. Qed.

Lemma lprod_app a b : lprod (a ++ b) = lprod a * lprod b.
Proof. induction a as [|x a IH]; cbn [app lprod]; [lia|]. rewrite IH. lia. Qed.

Lemma lprod_rev a : lprod (rev a) = lprod a.
Proof. induction a as [|x a IH]; [reflexivity|]. cbn [rev]. rewrite lprod_app, IH. cbn [lprod]. lia. Qed.

Lemma combine_app_eq {A B} (l1 l1' : list A) : forall (l2 l2' : list B), length l1 = length l2 ->
  combine (l1 ++ l1') (l2 ++ l2') = combine l1 l2 ++ combine l1' l2'.
Proof.
  induction l1 as [|a l1 IH]; intros [|b l2] l2' H; try discriminate; [reflexivity|].
  cbn. f_equal. apply IH. now injection H.
Qed.

Lemma combine_rev_eq {A B} (l1 : list A) : forall (l2 : list B), length l1 = length l2 ->
  combine (rev l1) (rev l2) = rev (combine l1 l2).
Proof.
  induction l1 as [|a l1 IH]; intros [|b l2] H; try discriminate; [reflexivity|].
  injection H as H. cbn [rev combine]. rewrite combine_app_eq by (now rewrite !rev_length).
  rewrite IH by auto. reflexivity.
Qed.

Lemma edges_rev ref p : length ref = length p -> lprod (edges (rev ref) (rev p)) = lprod (edges ref p).
Proof. intros H. unfold edges. rewrite combine_rev_eq by auto. rewrite map_rev. apply lprod_rev. Qed.

Lemma Forall2_rev {A B} (R : A -> B -> Prop) a b : Forall2 R a b -> Forall2 R (rev a) (rev b).
Proof. induction 1; cbn [rev]; [constructor|]. apply Forall2_app; auto. Qed.

(* ---------------------------------------------------------------------------------------- *)
(* a set that is covered by another one has at most its hypervolume *)
Lemma hv_box_cover_le lo ref : forall S S',
  (forall q, In q S -> exists p, In p S' /\ leq_all p q) -> hv_box lo ref S <= hv_box lo ref S'.
Proof.
  induction ref as [|r ref IH]; intros S S' H; cbn [hv_box].
  - destruct S as [|q S]; [destruct S'; lia|].
    destruct (H q (or_introl eq_refl)) as [p [Hp _]]. destruct S'; [destruct Hp|lia].
  - apply zsum_le. intros z _. apply IH. intros t Ht. apply slice_In in Ht. destruct Ht as [x [Hin Hx]].
    destruct (H _ Hin) as [p [Hp Hle]]. inversion Hle as [|y x' u t' Hyx Hut]; subst.
    exists u. split; auto. apply slice_In. exists y. split; auto. lia.
Qed.

Lemma hv_spec_cover_eq ref S S' :
  (forall q, In q S' -> In q S) -> (forall q, In q S -> exists p, In p S' /\ leq_all p q) ->
  hv_spec ref S' = hv_spec ref S.
Proof.
  intros Hsub Hcov.
  pose proof (min_coord_lower_bound ref S) as LB. set (lo := min_coord ref S) in *.
  rewrite (hv_spec_any_lo ref S lo LB), (hv_spec_any_lo ref S' lo) by (eapply lower_bound_incl; eauto).
  apply Z.le_antisymm.
  - apply hv_box_mono. intros p Hp. apply in_map_iff in Hp. destruct Hp as [q [<- Hq]]. apply in_map; auto.
  - apply hv_box_cover_le. intros p Hp. apply in_map_iff in Hp. destruct Hp as [q [<- Hq]].
    destruct (Hcov q Hq) as [p [Hp Hle]]. exists (rev p). split; [now apply in_map|now apply leq_all_rev].
Qed.

Lemma hv_spec_nil ref : hv_spec ref [] = 0.
Proof. unfold hv_spec. cbn [map]. apply hv_box_nil. Qed.

(* ---------------------------------------------------------------------------------------- *)
(* pmax *)
Lemma pmax_comm p : forall q, pmax p q = pmax q p.
Proof. induction p as [|x p IH]; intros [|y q]; cbn [pmax]; auto. rewrite IH, Z.max_comm. reflexivity. Qed.

Lemma pmax_below p q ref : leq_all p ref -> leq_all q ref -> leq_all (pmax p q) ref.
Proof.
  unfold leq_all. intros H; revert q; induction H as [|x r p ref Hx H IH]; intros q Hq.
  - destruct q; constructor.
  - inversion Hq; subst. cbn [pmax]. constructor; auto. lia.
Qed.

Lemma pmax_In v : forall p q, In v (pmax p q) -> In v p \/ In v q.
Proof.
  induction p as [|x p IH]; intros [|y q] H; cbn [pmax] in H; try destruct H.
  - destruct (Z.max_spec x y) as [[_ E]|[_ E]]; rewrite E in H; subst; cbn; auto.
  - destruct (IH q H); cbn; auto.
Qed.

Lemma pmax_app p1 : forall q1 p2 q2, length p1 = length q1 ->
  pmax (p1 ++ p2) (q1 ++ q2) = pmax p1 q1 ++ pmax p2 q2.
Proof.
  induction p1 as [|x p1 IH]; intros [|y q1] p2 q2 H; try discriminate; [reflexivity|].
  cbn [app pmax]. f_equal. apply IH. now injection H.
Qed.

Lemma pmax_length p : forall q, length p = length q -> length (pmax p q) = length p.
Proof. induction p as [|x p IH]; intros [|y q] H; try discriminate; cbn; auto. Qed.

Lemma rev_pmax p : forall q, length p = length q -> rev (pmax p q) = pmax (rev p) (rev q).
Proof.
  induction p as [|x p IH]; intros [|y q] H; try discriminate; [reflexivity|].
  injection H as H. cbn [pmax rev]. rewrite pmax_app by (now rewrite !rev_length).
  rewrite IH by auto. reflexivity.
Qed.

(* ---------------------------------------------------------------------------------------- *)
(* hv_spec: inclusion/exclusion with the box volume as coded *)
Lemma box_range lo ref p : leq_all p ref -> (forall x, In x p -> lo <= x) ->
  Forall2 (fun r x => lo <= x <= r) ref p.
Proof.
  unfold leq_all. induction 1 as [|x r p ref Hx H IH]; intros LB; constructor.
  - split; auto. apply LB. now left.
  - apply IH. intros y Hy. apply LB. now right.
Qed.

Theorem hv_spec_incl_excl ref S p : below_ref ref (p :: S) ->
  hv_spec ref (p :: S) = hv_spec ref S + box_vol ref p - hv_spec ref (map (fun q => pmax q p) S).
Proof.
  intros HB.
  pose proof (min_coord_lower_bound ref (p :: S)) as LB. set (lo := min_coord ref (p :: S)) in *.
  assert (Lp : length p = length ref) by (apply leq_all_length, HB; now left).
  assert (LBS : lower_bound lo S) by (eapply lower_bound_incl; [|exact LB]; intros; now right).
  assert (LBM : lower_bound lo (map (fun q => pmax q p) S)).
  { intros u Hu x Hx. apply in_map_iff in Hu. destruct Hu as [q [<- Hq]].
    apply pmax_In in Hx. destruct Hx as [Hx|Hx]; [apply (LB q); auto; now right|apply (LB p); auto; now left]. }
  rewrite (hv_spec_any_lo ref (p :: S) lo LB), (hv_spec_any_lo ref S lo LBS), (hv_spec_any_lo ref _ lo LBM).
  cbn [map].
  replace (map (@rev Z) (map (fun q => pmax q p) S)) with (map (fun q => pmax q (rev p)) (map (@rev Z) S)).
  2:{ rewrite !map_map. apply map_ext_in. intros q Hq. symmetry. apply rev_pmax.
      rewrite Lp. apply leq_all_length, HB. now right. }
  pose proof (hv_box_incl_excl lo (rev ref) (map (@rev Z) S) (rev p)) as IE.
  match type of IE with _ = _ + ?v => assert (E : v = box_vol ref p) end.
  { rewrite hv_box_single.
    - rewrite edges_rev by auto. symmetry. apply box_vol_lprod.
    - apply Forall2_rev. apply box_range; [apply HB; now left|]. intros x Hx. apply (LB p); auto. now left. }
  match goal with |- ?A = ?B + _ - ?C => enough (G : A + C = B + box_vol ref p) by lia end.
  rewrite <- E. exact IE.
Qed.

Corollary hv_spec_single ref p : leq_all p ref -> hv_spec ref [p] = box_vol ref p.
Proof.
  intros H. rewrite hv_spec_incl_excl by (intros q [<-|[]]; auto).
  cbn [map]. rewrite !hv_spec_nil. lia.
Qed.

(* ---------------------------------------------------------------------------------------- *)
(* the points of rank 1 cover the set *)
Local Close Scope Z_scope.

Lemma in_combine_nth {A B} (l : list A) da db : forall (l' : list B) a b, length l = length l' ->
  (In (a, b) (combine l l') <-> exists i, i < length l /\ nth i l da = a /\ nth i l' db = b).
Proof.
  induction l as [|x l IH]; intros [|y l'] a b H; try discriminate.
  - cbn. split; [tauto|intros [i [Hi _]]; lia].
  - injection H as H. cbn [combine In length]. rewrite IH by auto. split.
    + intros [E|[i [Hi [Ha Hb]]]].
      * injection E as -> ->. exists 0. cbn. split; [lia|auto].
      * exists (S i). cbn. split; [lia|auto].
    + intros [[|i] [Hi [Ha Hb]]]; cbn in Ha, Hb.
      * left. congruence.
      * right. exists i. split; [lia|auto].
Qed.

Lemma rank_list_length d L : same_dim d L -> length (rank_list L) = length L.
Proof. intros SD. apply (rank_list_is_rank d L SD). Qed.

Lemma In_nd_front d L p : same_dim d L ->
  (In p (nd_front L) <-> exists i, i < length L /\ nth i L [] = p /\ nth i (rank_list L) 0 = 1).
Proof.
  intros SD. unfold nd_front. rewrite in_map_iff. split.
  - intros [[q r] [E Hin]]. cbn in E. subst q. apply filter_In in Hin. destruct Hin as [Hin Hr].
    cbn in Hr. apply Nat.eqb_eq in Hr. subst r.
    apply (in_combine_nth L [] 0) in Hin; [|symmetry; eapply rank_list_length; eauto]. exact Hin.
  - intros [i [Hi [Hp Hr]]]. exists (p, 1). split; auto. apply filter_In. split; auto.
    apply (in_combine_nth L [] 0); [symmetry; eapply rank_list_length; eauto|]. eauto.
Qed.

Lemma nd_front_incl d L p : same_dim d L -> In p (nd_front L) -> In p L.
Proof. intros SD H. apply (In_nd_front d) in H; auto. destruct H as [i [Hi [<- _]]]. now apply nth_In. Qed.

Lemma nd_front_length L : length (nd_front L) <= length L.
Proof.
  unfold nd_front. rewrite map_length.
  etransitivity; [apply filter_length_le with (g := fun _ => true); auto|].
  rewrite filter_all_true, combine_length. lia.
Qed.

Lemma nd_cover d L : same_dim d L -> forall i, i < length L ->
  exists j, j < length L /\ nth j (rank_list L) 0 = 1 /\ leq_all (nth j L []) (nth i L []).
Proof.
  intros SD.
  pose proof (rank_list_is_rank d L SD) as RK.
  assert (LD : forall k, k < length L -> length (nth k L []) = d) by (intros k Hk; apply SD, nth_In; auto).
  assert (K : forall k i, i < length L -> ndom L i < k ->
     exists j, j < length L /\ nth j (rank_list L) 0 = 1 /\ leq_all (nth j L []) (nth i L [])).
  { induction k as [|k IH]; intros i Hi Hk; [lia|].
    destruct (rank_fronts_consistent L _ RK i Hi) as [H1 [_ [H3 _]]].
    destruct (Nat.eq_dec (nth i (rank_list L) 0) 1) as [E|NE].
    - exists i. split; auto. split; auto. apply leq_all_refl.
    - destruct H3 as [j [Hj [Hd _]]]; [lia|].
      pose proof (ndom_decreases d L i j SD Hi Hj Hd) as Hlt.
      destruct (IH j Hj ltac:(lia)) as [j' [Hj' [Hr Hle]]].
      exists j'. split; auto. split; auto. eapply leq_all_trans; eauto.
      apply domb_true_iff in Hd; [apply Hd|rewrite !LD; auto]. }
  intros i Hi. apply (K (length L)); auto. now apply ndom_lt_length.
Qed.

Lemma hv_spec_nd_front ref d L : same_dim d L -> hv_spec ref (nd_front L) = hv_spec ref L.
Proof.
  intros SD. apply hv_spec_cover_eq.
  - intros q. now apply (nd_front_incl d).
  - intros q Hq. destruct (In_nth L q [] Hq) as [i [Hi <-]].
    destruct (nd_cover d L SD i Hi) as [j [Hj [Hr Hle]]].
    exists (nth j L []). split; auto. apply (In_nd_front d); eauto.
Qed.

(* ---------------------------------------------------------------------------------------- *)
(* the recursion *)
Local Open Scope Z_scope.

Section WfgCorrect.
Variable arr : list point -> list point.
Hypothesis arr_perm : forall l, Permutation (arr l) l.

Lemma below_ref_same_dim ref S : below_ref ref S -> same_dim (length ref) S.
Proof. intros H p Hp. apply leq_all_length. auto. Qed.

Lemma limited_below ref rest p : below_ref ref (p :: rest) ->
  below_ref ref (map (fun q => pmax q p) rest).
Proof.
  intros HB u Hu. apply in_map_iff in Hu. destruct Hu as [q [<- Hq]].
  apply pmax_below; apply HB; [now right|now left].
Qed.

Lemma limit_set_below ref rest p : below_ref ref (p :: rest) -> below_ref ref (limit_set arr rest p).
Proof.
  intros HB u Hu. unfold limit_set in Hu. apply (Permutation_in _ (arr_perm _)) in Hu.
  pose proof (limited_below ref rest p HB) as HL.
  apply (nd_front_incl (length ref)) in Hu; [|now apply below_ref_same_dim]. auto.
Qed.

Lemma limit_set_length rest p : (length (limit_set arr rest p) <= length rest)%nat.
Proof.
  unfold limit_set. rewrite (Permutation_length (arr_perm _)).
  etransitivity; [apply nd_front_length|]. now rewrite map_length.
Qed.

Lemma limit_set_hv ref rest p : below_ref ref (p :: rest) ->
  hv_spec ref (limit_set arr rest p) = hv_spec ref (map (fun q => pmax q p) rest).
Proof.
  intros HB. unfold limit_set. rewrite (hv_spec_perm _ _ _ (arr_perm _)).
  apply (hv_spec_nd_front ref (length ref)). apply below_ref_same_dim. now apply limited_below.
Qed.

Lemma wfg_loop_correct (rec : list point -> Z) ref : forall pts vol,
  below_ref ref pts ->
  (forall L, below_ref ref L -> (length L < length pts)%nat -> rec L = hv_spec ref L) ->
  wfg_loop arr rec ref pts vol = vol + hv_spec ref pts.
Proof.
  induction pts as [|p rest IH]; intros vol HB Hrec; cbn [wfg_loop].
  - rewrite hv_spec_nil. lia.
  - rewrite IH.
    + rewrite Hrec.
      * rewrite limit_set_hv by auto. rewrite (hv_spec_incl_excl ref rest p HB). lia.
      * now apply limit_set_below.
      * pose proof (limit_set_length rest p). cbn [length]. lia.
    + intros q Hq. apply HB. now right.
    + intros L HL Hlen. apply Hrec; auto. cbn [length]. lia.
Qed.

Theorem wfg_fuel_correct : forall fuel ref pts,
  below_ref ref pts -> (length pts <= fuel)%nat -> wfg_fuel arr fuel ref pts = hv_spec ref pts.
Proof.
  induction fuel as [|f IH]; intros ref pts HB Hlen.
  - destruct pts; [|cbn in Hlen; lia]. cbn. now rewrite hv_spec_nil.
  - destruct pts as [|p [|q [|r rest]]].
    + cbn. now rewrite hv_spec_nil.
    + cbn [wfg_fuel]. symmetry. apply hv_spec_single. apply HB. now left.
    + cbn [wfg_fuel]. rewrite (hv_spec_incl_excl ref [q] p HB). cbn [map].
      rewrite !hv_spec_single.
      * rewrite (pmax_comm q p). lia.
      * apply pmax_below; apply HB; cbn; auto.
      * apply HB; cbn; auto.
    + change (wfg_fuel arr (S f) ref (p :: q :: r :: rest))
        with (wfg_loop arr (wfg_fuel arr f ref) ref (p :: q :: r :: rest) 0).
      rewrite wfg_loop_correct; [lia|exact HB|].
      intros L HL Hl. apply IH; auto. cbn [length] in *. lia.
Qed.

Theorem wfg_top_correct ref pts : below_ref ref pts -> wfg_top arr ref pts = hv_spec ref pts.
Proof.
  intros HB. unfold wfg_top. destruct pts as [|p pts]; [now rewrite hv_spec_nil|].
  cbv zeta. rewrite wfg_fuel_correct; auto.
  - apply hv_spec_perm, arr_perm.
  - intros q Hq. apply HB. eapply Permutation_in; [apply arr_perm|exact Hq].
Qed.
End WfgCorrect.

(* the extracted instance *)
Lemma insert_desc_perm p l : Permutation (insert_desc p l) (p :: l).
Proof.
  induction l as [|q l IH]; cbn [insert_desc]; [reflexivity|].
  destruct (head0 q <=? head0 p); [reflexivity|].
  etransitivity; [apply perm_skip, IH|apply perm_swap].
Qed.

Lemma sort_desc_perm l : Permutation (sort_desc l) l.
Proof.
  induction l as [|p l IH]; [reflexivity|]. cbn [sort_desc fold_right].
  etransitivity; [apply insert_desc_perm|]. apply perm_skip, IH.
Qed.

Theorem wfg_correct ref pts : below_ref ref pts -> wfg ref pts = hv_spec ref pts.
Proof. apply wfg_top_correct, sort_desc_perm. Qed.

(* the limit set as a set: exactly the non-dominated elements of { max(q,p) : q in S } *)
Theorem limit_set_members arr ref S p u :
  (forall l, Permutation (arr l) l) -> below_ref ref (p :: S) ->
  (In u (limit_set arr S p) <->
   (exists q, In q S /\ u = pmax q p) /\ forall q, In q S -> ~ dominates (pmax q p) u).
Proof.
  intros Harr HB. set (L := map (fun q => pmax q p) S).
  assert (SD : same_dim (length ref) L) by (apply below_ref_same_dim; now apply limited_below).
  assert (LD : forall k, (k < length L)%nat -> length (nth k L []) = length ref) by (intros k Hk; apply SD, nth_In; auto).
  pose proof (rank_list_is_rank _ L SD) as RK.
  unfold limit_set. fold L. split.
  - intros Hu. apply (Permutation_in _ (Harr _)) in Hu. apply (In_nd_front (length ref)) in Hu; auto.
    destruct Hu as [i [Hi [Hn Hr]]].
    destruct (rank_fronts_consistent L _ RK i Hi) as [_ [_ [_ H4]]]. split.
    + assert (In u L) as Hin by (rewrite <- Hn; now apply nth_In).
      apply in_map_iff in Hin. destruct Hin as [q [E Hq]]. eauto.
    + intros q Hq Hd. assert (In (pmax q p) L) as Hin by (apply in_map_iff; eauto).
      destruct (In_nth L _ [] Hin) as [j [Hj Ej]].
      pose proof (proj1 H4 Hr j Hj) as Hf. rewrite Ej, Hn in Hf.
      apply domb_true_iff in Hd; [congruence|]. rewrite <- Ej, <- Hn, !LD; auto.
  - intros [[q [Hq ->]] Hnd]. apply (Permutation_in _ (Permutation_sym (Harr _))).
    assert (In (pmax q p) L) as Hin by (apply in_map_iff; eauto).
    destruct (In_nth L _ [] Hin) as [i [Hi Ei]].
    apply (In_nd_front (length ref)); auto. exists i. split; auto. split; auto.
    destruct (rank_fronts_consistent L _ RK i Hi) as [_ [_ [_ H4]]]. apply H4.
    intros j Hj. destruct (domb (nth j L []) (nth i L [])) eqn:Hd; auto. exfalso.
    assert (In (nth j L []) L) as Hjn by (now apply nth_In).
    apply in_map_iff in Hjn. destruct Hjn as [q' [E' Hq']].
    apply (Hnd q' Hq'). rewrite E', <- Ei. apply domb_true_iff; auto. rewrite !LD; auto.
Qed.

(* the hypotheses are satisfiable: 3 objectives, a duplicate, a dominated point, ties in the first
   objective; 4 objectives with more than two points in a limit set *)
Example wfg_example :
  below_ref [6; 6; 6] [[1; 5; 2]; [2; 3; 3]; [2; 3; 3]; [4; 4; 4]; [3; 1; 5]; [1; 4; 5]] /\
  wfg [6; 6; 6] [[1; 5; 2]; [2; 3; 3]; [2; 3; 3]; [4; 4; 4]; [3; 1; 5]; [1; 4; 5]] = 51 /\
  hv_spec [6; 6; 6] [[1; 5; 2]; [2; 3; 3]; [2; 3; 3]; [4; 4; 4]; [3; 1; 5]; [1; 4; 5]] = 51 /\
  wfg [4; 4; 4; 4] [[0; 3; 2; 1]; [1; 2; 3; 0]; [2; 1; 0; 3]; [3; 0; 1; 2]; [1; 1; 2; 2]] =
  hv_spec [4; 4; 4; 4] [[0; 3; 2; 1]; [1; 2; 3; 0]; [2; 1; 0; 3]; [3; 0; 1; 2]; [1; 1; 2; 2]].
Proof.
  split; [|split; [|split]]; try (vm_compute; reflexivity).
  intros p Hp. cbn in Hp. unfold leq_all.
  repeat (destruct Hp as [<-|Hp]; [repeat constructor; lia|]). destruct Hp.
Qed.
