(* C14 — the generation loop shared by the optimisers (definitions only).

   IndicatorBasedRealCodedNSGAII::step / IndicatorBasedMOCMA::step (RealCodedNSGAII.h, RealCodedNSGAIII.h = the same class with
   NSGA3Indicator, MOCMA.h):
       offspring = generateOffspring();  PenalizingEvaluator(function, offspring);  updatePopulation(offspring)
   updatePopulation: m_parents.insert(end, offspring); m_selection(m_parents, mu); std::partition(selected first);
       erase from position mu; m_best[i] = (searchPoint, unpenalizedFitness) of m_parents[i].
   SMSEMOA::step / IndicatorBasedSteadyStateMOCMA::step: one offspring, push_back, selection, the offspring overwrites the
       first unselected parent if it was selected itself, pop_back.
   The offspring search points of every generation are ARBITRARY inputs here (history = list of lists of points): whatever
   mating selection, variation operators and random numbers produce.  The selection works on the penalized fitness. *)
From Coq Require Import List ZArith Arith Bool.
From SharkV Require Import ListAux C13Model C14Model.
Import ListNotations.

Record ind := mk_ind { sp : list Z; unp : point; pen : point }.

(* the individuals whose flag is set / std::partition with the predicate selected() (one admissible arrangement) *)
Fixpoint keep_g {A} (sel : list bool) (l : list A) : list A :=
  match sel, l with
  | b :: sel', x :: l' => if b then x :: keep_g sel' l' else keep_g sel' l'
  | _, _ => []
  end.
Definition partition_selected {A} (sel : list bool) (l : list A) : list A :=
  keep_g sel l ++ keep_g (map negb sel) l.

Fixpoint replace_first_unselected_g {A} (sel : list bool) (P : list A) (o : A) : list A :=
  match sel, P with
  | b :: sel', p :: P' => if b then p :: replace_first_unselected_g sel' P' o else o :: P'
  | _, _ => P
  end.

Section Loop.
  Variable f : list Z -> list Z.            (* deterministic objective *)
  Variable feasible : list Z -> bool.
  Variable closest : list Z -> list Z.
  Variable alpha : Z.
  Variable m : nat.
  Variable lcs : list point -> list point -> nat -> list nat.     (* indicator.leastContributors *)
  Variable mu : nat.

  (* PenalizingEvaluator on one offspring *)
  Definition evaluate (x : list Z) : ind :=
    let '(u, p) := penalized_eval f feasible closest alpha m x in mk_ind x u p.

  Definition flags (merged : list ind) : list bool :=
    o_sel (snd (indicator_selection lcs (map pen merged) mu)).

  (* updatePopulation of the generational optimisers *)
  Definition gen_update (parents offspring : list ind) : list ind :=
    let merged := parents ++ offspring in
    firstn mu (partition_selected (flags merged) merged).

  (* updatePopulation of the steady-state optimisers *)
  Definition ss_update (parents : list ind) (o : ind) : list ind :=
    let sel := flags (parents ++ [o]) in
    if nth (length parents) sel false
    then replace_first_unselected_g (firstn (length parents) sel) parents o
    else parents.

  Definition gen_step (parents : list ind) (offspring_points : list (list Z)) : list ind :=
    gen_update parents (map evaluate offspring_points).
  Definition ss_step_ind (parents : list ind) (x : list Z) : list ind := ss_update parents (evaluate x).

  (* any number of generations, any history of offspring points *)
  Definition run_gen (history : list (list (list Z))) (pop : list ind) : list ind := fold_left gen_step history pop.
  Definition run_ss (history : list (list Z)) (pop : list ind) : list ind := fold_left ss_step_ind history pop.

  (* solution(): (point, value) of every member *)
  Definition solution (pop : list ind) : list (list Z * point) := map (fun i => (sp i, unp i)) pop.
End Loop.
