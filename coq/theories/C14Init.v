(* C14 — initialisation of the multi-objective optimisers from caller-supplied starting points (definitions only).

   init(function, initialSearchPoints) of MOCMA.h, SteadyStateMOCMA.h, SMS-EMOA.h, RealCodedNSGAII.h (= RealCodedNSGAIII: its own
   doInit overload is not the one init() reaches), MOEAD.cpp, RVEA.cpp:
       values[i] = function.eval(initialSearchPoints[i])      (after SHARK_RUNTIME_CHECK(function.isFeasible(points[i])))
       doInit(initialSearchPoints, values, ..., mu, ...)
   and doInit, the same statements in all seven classes:
       m_parents.resize(mu); m_best.resize(mu);
       numPoints = 0;
       if (points.size() <= mu) { numPoints = points.size();
           for i < numPoints:  m_parents[i] = (points[i], values[i], values[i]) }         // search point, penalized, unpenalized
       for i in numPoints .. mu-1:  index = random::discrete(rng, 0, points.size()-1);
           m_parents[i] = (points[index], values[index], values[index])                    // "copy points randomly"
       for i < mu:  m_best[i] = (m_parents[i].searchPoint(), m_parents[i].unpenalizedFitness())
   so with MORE than mu starting points every slot is a random copy (with replacement).
   Differences between the classes:
     * MOEAD: m_mu = number of rows of the weight lattice sampled for mu (= mu without preference points); RVEA: m_mu =
       suggestMu(#objectives, approxMu) (rvea_mu below: Lattice.cpp computeOptimalLatticeTicks / sumlength);
     * NSGA-II/III, SMS-EMOA: m_selection(m_parents, mu) afterwards assigns ranks, the order is untouched;
     * SteadyStateMOCMA: m_selection, then sortRankOneToFront() -- a two-pointer partition that swaps m_parents AND m_best:
           start = 0; end = mu-1;
           while (start != end) { if (rank(start) == 1) ++start; else if (rank(end) != 1) --end; else swap(start, end); }
   The random indices are an explicit argument (oracle : list nat, one entry per random::discrete call, in call order); the model
   is total: a missing oracle entry or an index outside the list reads entry 0 (random::discrete never produces one).
   The rank-1 test of sortRankOneToFront is an argument (is1), a function of the individual: the ranks come from
   IndicatorBasedSelection (C14Model.indicator_selection), duplicates carry equal ranks. *)
From Coq Require Import List Arith Bool.
Import ListNotations.

(* one entry of the oracle per random::discrete call *)
Fixpoint draws (k : nat) (oracle : list nat) : list nat :=
  match k with
  | 0 => []
  | S k' => match oracle with
            | [] => 0 :: draws k' []
            | i :: r => i :: draws k' r
            end
  end.

(* numPoints of doInit *)
Definition num_points (n mu : nat) : nat := if n <=? mu then n else 0.

(* slot i of m_parents is built from entry (nth i (init_indices ..)) of the two parallel vectors *)
Definition init_indices (n mu : nat) (oracle : list nat) : list nat :=
  seq 0 (num_points n mu) ++ draws (mu - num_points n mu) oracle.

(* an oracle as random::discrete(rng, 0, n-1) produces it: one index below n per remaining slot *)
Definition oracle_ok (n mu : nat) (oracle : list nat) : bool :=
  (length oracle =? mu - num_points n mu) && forallb (fun i => i <? n) oracle.

(* sortRankOneToFront on the segment start..end *)
Fixpoint ss_sort_aux {A} (fuel : nat) (is1 : A -> bool) (l : list A) : list A :=
  match fuel with
  | 0 => l
  | S fuel' =>
    match l with
    | [] => []
    | [x] => [x]                                                     (* start = end *)
    | x :: t =>
      if is1 x then x :: ss_sort_aux fuel' is1 t                      (* ++start *)
      else let y := last t x in
           let mid := removelast t in
           if is1 y then y :: ss_sort_aux fuel' is1 mid ++ [x]        (* swap; then ++start and --end (or start = end) *)
           else ss_sort_aux fuel' is1 (x :: mid) ++ [y]               (* --end *)
    end
  end.
Definition ss_sort {A} (is1 : A -> bool) (l : list A) : list A := ss_sort_aux (length l) is1 l.

Section Init.
  Variables X V : Type.
  Variable f : X -> V.                                    (* function.eval, deterministic *)

  Record iind := mk_iind { ipt : X; ipen : V; iunp : V }.

  (* init + doInit up to the parents *)
  Definition init_parents (P : list X) (mu : nat) (oracle : list nat) : list iind :=
    let values := map f P in
    match P, values with
    | x0 :: _, v0 :: _ =>
        map (fun idx => mk_iind (nth idx P x0) (nth idx values v0) (nth idx values v0))
            (init_indices (length P) mu oracle)
    | _, _ => []                                           (* SIZE_CHECK(initialSearchPoints.size() > 0) *)
    end.

  (* m_best / solution() *)
  Definition init_solution (pop : list iind) : list (X * V) := map (fun m => (ipt m, iunp m)) pop.

  (* the seven classes *)
  Definition mocma_init := init_parents.
  Definition nsga2_init := init_parents.                  (* all three indicators *)
  Definition nsga3_init := init_parents.
  Definition smsemoa_init := init_parents.
  Definition moead_init (P : list X) (rows_of_weight_lattice : nat) := init_parents P rows_of_weight_lattice.
  Definition ssmocma_init (is1 : iind -> bool) (P : list X) (mu : nat) (oracle : list nat) : list iind :=
    ss_sort is1 (init_parents P mu oracle).
End Init.

Arguments mk_iind {X V}.
Arguments ipt {X V}.
Arguments ipen {X V}.
Arguments iunp {X V}.

(* RVEA: the population size is the number of lattice points (Lattice.cpp) *)
Fixpoint binom (n k : nat) : nat :=
  match n, k with
  | _, 0 => 1
  | 0, S _ => 0
  | S n', S k' => binom n' k' + binom n' k
  end.
Definition sumlength (n s : nat) : nat := binom (n - 1 + s) s.
Fixpoint ticks_from (fuel n target t : nat) : nat :=
  match fuel with
  | 0 => t
  | S fu => if sumlength n t <? target then ticks_from fu n target (S t) else t
  end.
Definition lattice_ticks (n target : nat) : nat :=
  match n with
  | 1 => target
  | 2 => target - 1
  | _ => ticks_from target n target 0
  end.
Definition rvea_mu (objectives approx_mu : nat) : nat := sumlength objectives (lattice_ticks objectives approx_mu).
Definition rvea_init {X V} (f : X -> V) (objectives : nat) (P : list X) (approx_mu : nat) (oracle : list nat) : list (iind X V) :=
  init_parents X V f P (rvea_mu objectives approx_mu) oracle.
