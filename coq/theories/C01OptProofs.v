(* C01, stage C — soundness of the rewrite table C01Opt.v (fx = true) over Z, and refutation of the
   table as it was before the repairs (fx = false).

   Main results (all for every store s, every fuel and every well-formed surface expression):
     opt_vrange_sound, opt_mtrans_sound, opt_mrow_sound, opt_mdiag_sound, opt_mrange_sound, opt_mrows_sound,
     opt_vscale_sound, opt_mscale_sound, opt_mvprod_sound, opt_mmprod_sound, opt_vunary_sound, opt_munary_sound,
     opt_fold_set_sound :  the optimised expression is well-formed, has the shape of the surface expression the
     user wrote and the same element at every index inside the shape.
     opt_*_refuted : the same statements are FALSE for fx = false (concrete witnesses).

   Technique: the ten mutually recursive optimizers are never unfolded with simpl/cbn (their bodies are huge
   mutual fixpoints); the unfolding equations opt_X_S below (proved by reflexivity, so they are tied to the text of
   C01Opt.v) are rewritten instead.  One simultaneous induction on the fuel with the conjunction of the ten
   statements (S_all) as induction hypothesis. *)
From Coq Require Import ZArith List Bool Arith Lia.
From SharkV Require Import C01Model C01Opt C01Proofs.
Open Scope Z_scope.

(* ---------- finite sums (sumn_ext, maxn_ext, minn_ext, foldk_ext are in C01Proofs) ---------- *)
Lemma sumn_scale n c f : sumn n (fun k => c * f k) = c * sumn n f.
Proof. induction n; cbn [sumn]; [ring|]. rewrite IHn. ring. Qed.

Lemma sumn_scale_r n c f : sumn n (fun k => f k * c) = sumn n f * c.
Proof. induction n; cbn [sumn]; [ring|]. rewrite IHn. ring. Qed.

Lemma sumn_add n f g : sumn n (fun k => f k + g k) = sumn n f + sumn n g.
Proof. induction n; cbn [sumn]; [ring|]. rewrite IHn. ring. Qed.

Lemma sumn_zero n : sumn n (fun _ => 0) = 0.
Proof. induction n; cbn [sumn]; [reflexivity|]. rewrite IHn. ring. Qed.

Lemma sumn_swap n m (f : nat -> nat -> Z) :
  sumn n (fun i => sumn m (fun j => f i j)) = sumn m (fun j => sumn n (fun i => f i j)).
Proof.
  induction n; cbn [sumn].
  - symmetry. apply sumn_zero.
  - rewrite IHn. rewrite <- sumn_add. reflexivity.
Qed.

Lemma sumn_delta n i g :
  (i < n)%nat -> sumn n (fun k => if (i =? k)%nat then g k else 0) = g i.
Proof.
  induction n; intros H; [lia|]. cbn [sumn].
  destruct (Nat.eq_dec i n) as [->|Hne].
  - rewrite Nat.eqb_refl.
    rewrite (sumn_ext n _ (fun _ => 0)), sumn_zero; [ring|].
    intros k Hk. destruct (Nat.eqb_spec n k); [lia|reflexivity].
  - rewrite IHn by lia. destruct (Nat.eqb_spec i n); [lia|ring].
Qed.

(* ---------- unfolding equations of the denotation (cbn does not refold the mutual fixpoint) ---------- *)
Lemma vden_VVar s x n i : vden s (VVar x n) i = ev s x i.
Proof. reflexivity. Qed.
Lemma vden_VRange s e a b i : vden s (VRange e a b) i = vden s e (a + i)%nat.
Proof. reflexivity. Qed.
Lemma vden_VRow s m k i : vden s (VRow m k) i = mden s m k i.
Proof. reflexivity. Qed.
Lemma vden_VCol s m k i : vden s (VCol m k) i = mden s m i k.
Proof. reflexivity. Qed.
Lemma vden_VDiag s m i : vden s (VDiag m) i = mden s m i i.
Proof. reflexivity. Qed.
Lemma vden_VConst s n c i : vden s (VConst n c) i = c.
Proof. reflexivity. Qed.
Lemma vden_VUnit s n idx c i : vden s (VUnit n idx c) i = if Z.of_nat i =? idx then c else 0.
Proof. reflexivity. Qed.
Lemma vden_VScale s c e i : vden s (VScale c e) i = c * vden s e i.
Proof. reflexivity. Qed.
Lemma vden_VAdd s e1 e2 i : vden s (VAdd e1 e2) i = vden s e1 i + vden s e2 i.
Proof. reflexivity. Qed.
Lemma vden_VMinus s e1 e2 i : vden s (VMinus e1 e2) i = vden s e1 i - vden s e2 i.
Proof. reflexivity. Qed.
Lemma vden_VUn s f e i : vden s (VUn f e) i = uapp f (vden s e i).
Proof. reflexivity. Qed.
Lemma vden_VBin s g e1 e2 i : vden s (VBin g e1 e2) i = bapp g (vden s e1 i) (vden s e2 i).
Proof. reflexivity. Qed.
Lemma vden_VMv s alpha m e i : vden s (VMv alpha m e) i = alpha * sumn (mcols m) (fun k => mden s m i k * vden s e k).
Proof. reflexivity. Qed.
Lemma vden_VFold s k g m i : vden s (VFold k g m) i = uapp g (foldk k (mcols m) (fun j => mden s m i j)).
Proof. reflexivity. Qed.
Lemma vden_VConcat s e1 e2 i : vden s (VConcat e1 e2) i = if (i <? vsize e1)%nat then vden s e1 i else vden s e2 (i - vsize e1)%nat.
Proof. reflexivity. Qed.
Lemma mden_MVar s A r c i j : mden s (MVar A r c) i j = em s A i j.
Proof. reflexivity. Qed.
Lemma mden_MTrans s m i j : mden s (MTrans m) i j = mden s m j i.
Proof. reflexivity. Qed.
Lemma mden_MRange s m a b c d i j : mden s (MRange m a b c d) i j = mden s m (a + i)%nat (c + j)%nat.
Proof. reflexivity. Qed.
Lemma mden_MRows s m a b i j : mden s (MRows m a b) i j = mden s m (a + i)%nat j.
Proof. reflexivity. Qed.
Lemma mden_MCols s m a b i j : mden s (MCols m a b) i j = mden s m i (a + j)%nat.
Proof. reflexivity. Qed.
Lemma mden_MConst s r c t i j : mden s (MConst r c t) i j = t.
Proof. reflexivity. Qed.
Lemma mden_MDiagM s e i j : mden s (MDiagM e) i j = if (i =? j)%nat then vden s e i else 0.
Proof. reflexivity. Qed.
Lemma mden_MScale s c m i j : mden s (MScale c m) i j = c * mden s m i j.
Proof. reflexivity. Qed.
Lemma mden_MAdd s m1 m2 i j : mden s (MAdd m1 m2) i j = mden s m1 i j + mden s m2 i j.
Proof. reflexivity. Qed.
Lemma mden_MMinus s m1 m2 i j : mden s (MMinus m1 m2) i j = mden s m1 i j - mden s m2 i j.
Proof. reflexivity. Qed.
Lemma mden_MUn s f m i j : mden s (MUn f m) i j = uapp f (mden s m i j).
Proof. reflexivity. Qed.
Lemma mden_MBin s g m1 m2 i j : mden s (MBin g m1 m2) i j = bapp g (mden s m1 i j) (mden s m2 i j).
Proof. reflexivity. Qed.
Lemma mden_MOuter s e1 e2 i j : mden s (MOuter e1 e2) i j = vden s e1 i * vden s e2 j.
Proof. reflexivity. Qed.
Lemma mden_MProd s alpha m1 m2 i j : mden s (MProd alpha m1 m2) i j = alpha * sumn (mcols m1) (fun k => mden s m1 i k * mden s m2 k j).
Proof. reflexivity. Qed.
Lemma mden_MRepeat s cm e k i j : mden s (MRepeat cm e k) i j = if cm then vden s e i else vden s e j.
Proof. destruct cm; reflexivity. Qed.
Lemma mden_MConcat s rt m1 m2 i j : mden s (MConcat rt m1 m2) i j = if rt then (if (j <? mcols m1)%nat then mden s m1 i j else mden s m2 i (j - mcols m1)%nat) else (if (i <? mrows m1)%nat then mden s m1 i j else mden s m2 (i - mrows m1)%nat j).
Proof. destruct rt; reflexivity. Qed.
Global Hint Rewrite vden_VVar vden_VRange vden_VRow vden_VCol vden_VDiag vden_VConst vden_VUnit vden_VScale vden_VAdd vden_VMinus vden_VUn vden_VBin vden_VMv vden_VFold vden_VConcat mden_MVar mden_MTrans mden_MRange mden_MRows mden_MCols mden_MConst mden_MDiagM mden_MScale mden_MAdd mden_MMinus mden_MUn mden_MBin mden_MOuter mden_MProd mden_MRepeat mden_MConcat : den.

(* ---------- unfolding equations of the optimizers (tied to C01Opt.v by reflexivity) ---------- *)
Section Unfold.
Variable fx : bool.
Variable s : env.

Lemma opt_vrange_O e a b : opt_vrange fx s O e a b = VRange e a b.
Proof. reflexivity. Qed.

Lemma opt_vrange_S f e a b : opt_vrange fx s (S f) e a b =
    match e with
    | VMv alpha m v =>
        let r := opt_mvprod fx s f (opt_mrange fx s f m a b 0 (mcols m)) v in
        if fx then opt_vscale fx s f alpha r else r
    | VFold k g m =>
        if fx then VFold k g (opt_mrows fx s f m a b)
        else VFold k g (opt_mrange fx s f m 0 (mrows m) a b)
    | VScale c e1 => VScale c (opt_vrange fx s f e1 a b)
    | VConst _ c => VConst (b - a) c
    | VUnit _ idx c =>
        VUnit (b - a) (if (Z.of_nat a <=? idx) && (idx <? Z.of_nat b) then idx - Z.of_nat a else Z.of_nat (b - a)) c
    | VUn g e1 => VUn g (opt_vrange fx s f e1 a b)
    | VAdd e1 e2 => VAdd (opt_vrange fx s f e1 a b) (opt_vrange fx s f e2 a b)
    | VBin g e1 e2 => VBin g (opt_vrange fx s f e1 a b) (opt_vrange fx s f e2 a b)
    | _ => VRange e a b
    end.
Proof. reflexivity. Qed.

Lemma opt_mtrans_O m : opt_mtrans fx s O m = MTrans m.
Proof. reflexivity. Qed.

Lemma opt_mtrans_S f m : opt_mtrans fx s (S f) m =
    match m with
    | MScale c m1 => MScale c (opt_mtrans fx s f m1)
    | MAdd m1 m2 => MAdd (opt_mtrans fx s f m1) (opt_mtrans fx s f m2)
    | MRepeat cm e k => MRepeat (negb cm) e k
    | MConst r c t => MConst c r t
    | MUn g m1 => MUn g (opt_mtrans fx s f m1)
    | MBin g m1 m2 => MBin g (opt_mtrans fx s f m1) (opt_mtrans fx s f m2)
    | MOuter e1 e2 => MOuter e2 e1
    | MProd alpha m1 m2 =>
        let r := opt_mmprod fx s f (opt_mtrans fx s f m2) (opt_mtrans fx s f m1) in
        if fx then opt_mscale fx s f alpha r else r
    | MDiagM e => MDiagM e
    | MConcat rt m1 m2 => MConcat (negb rt) (opt_mtrans fx s f m1) (opt_mtrans fx s f m2)
    | _ => MTrans m
    end.
Proof. reflexivity. Qed.

Lemma opt_mrow_O m i : opt_mrow fx s O m i = VRow m i.
Proof. reflexivity. Qed.

Lemma opt_mrow_S f m i : opt_mrow fx s (S f) m i =
    match m with
    | MScale c m1 => VScale c (opt_mrow fx s f m1 i)
    | MAdd m1 m2 => VAdd (opt_mrow fx s f m1 i) (opt_mrow fx s f m2 i)
    | MConst _ c t => VConst c t
    | MRepeat false e _ => e
    | MRepeat true e k => VConst k (vden s e i)
    | MUn g m1 => VUn g (opt_mrow fx s f m1 i)
    | MBin g m1 m2 => VBin g (opt_mrow fx s f m1 i) (opt_mrow fx s f m2 i)
    | MOuter e1 e2 => VScale (vden s e1 i) e2
    | MProd alpha m1 m2 =>
        let r := opt_mvprod fx s f (opt_mtrans fx s f m2) (opt_mrow fx s f m1 i) in
        if fx then opt_vscale fx s f alpha r else r
    | MDiagM e => VUnit (vsize e) (Z.of_nat i) (vden s e i)
    | _ => VRow m i
    end.
Proof. reflexivity. Qed.

Lemma opt_mdiag_O m : opt_mdiag fx s O m = VDiag m.
Proof. reflexivity. Qed.

Lemma opt_mdiag_S f m : opt_mdiag fx s (S f) m =
    match m with
    | MScale c m1 => VScale c (opt_mdiag fx s f m1)
    | MAdd m1 m2 => VAdd (opt_mdiag fx s f m1) (opt_mdiag fx s f m2)
    | MConst r c t => VConst (Nat.min r c) t
    | MRepeat cm e k => opt_vrange fx s f e 0 (Nat.min (mrows (MRepeat cm e k)) (mcols (MRepeat cm e k)))
    | MUn g m1 => VUn g (opt_mdiag fx s f m1)
    | MBin g m1 m2 => VBin g (opt_mdiag fx s f m1) (opt_mdiag fx s f m2)
    | MOuter e1 e2 =>
        let sz := Nat.min (vsize e1) (vsize e2) in
        VBin BMul (opt_vrange fx s f e1 0 sz) (opt_vrange fx s f e2 0 sz)
    | MDiagM e => e
    | _ => VDiag m
    end.
Proof. reflexivity. Qed.

Lemma opt_mrange_O m a b c d : opt_mrange fx s O m a b c d = MRange m a b c d.
Proof. reflexivity. Qed.

Lemma opt_mrange_S f m a b c d : opt_mrange fx s (S f) m a b c d =
    match m with
    | MScale t m1 => MScale t (opt_mrange fx s f m1 a b c d)
    | MAdd m1 m2 => MAdd (opt_mrange fx s f m1 a b c d) (opt_mrange fx s f m2 a b c d)
    | MConst _ _ t => MConst (b - a) (d - c) t
    | MRepeat cm e _ =>
        if cm then MRepeat true (opt_vrange fx s f e a b) (d - c)
        else MRepeat false (opt_vrange fx s f e c d) (b - a)
    | MUn g m1 => MUn g (opt_mrange fx s f m1 a b c d)
    | MBin g m1 m2 => MBin g (opt_mrange fx s f m1 a b c d) (opt_mrange fx s f m2 a b c d)
    | MOuter e1 e2 => MOuter (opt_vrange fx s f e1 a b) (opt_vrange fx s f e2 c d)
    | MProd alpha m1 m2 =>
        let r := opt_mmprod fx s f (opt_mrange fx s f m1 a b 0 (mcols m1)) (opt_mrange fx s f m2 0 (mrows m2) c d) in
        if fx then opt_mscale fx s f alpha r else r
    | MDiagM e =>
        let r := MDiagM (opt_vrange fx s f e (Nat.max a c) (Nat.min b d)) in
        if fx then (if (a =? c)%nat && (b =? d)%nat then r else MRange m a b c d) else r
    | _ => MRange m a b c d
    end.
Proof. reflexivity. Qed.

Lemma opt_mrows_O m a b : opt_mrows fx s O m a b = MRows m a b.
Proof. reflexivity. Qed.

Lemma opt_mrows_S f m a b : opt_mrows fx s (S f) m a b =
    match m with
    | MScale t m1 => MScale t (opt_mrows fx s f m1 a b)
    | MAdd m1 m2 => MAdd (opt_mrows fx s f m1 a b) (opt_mrows fx s f m2 a b)
    | MConst _ c t => MConst (b - a) c t
    | MRepeat true e k => MRepeat fx (opt_vrange fx s f e a b) k
    | MRepeat false e _ => MRepeat false e (b - a)
    | MUn g m1 => MUn g (opt_mrows fx s f m1 a b)
    | MBin g m1 m2 => MBin g (opt_mrows fx s f m1 a b) (opt_mrows fx s f m2 a b)
    | MOuter e1 e2 => MOuter (opt_vrange fx s f e1 a b) e2
    | MProd alpha m1 m2 =>
        let r := opt_mmprod fx s f (opt_mrows fx s f m1 a b) m2 in
        if fx then opt_mscale fx s f alpha r else r
    | _ => MRows m a b
    end.
Proof. reflexivity. Qed.

Lemma opt_vscale_O c e : opt_vscale fx s O c e = VScale c e.
Proof. reflexivity. Qed.

Lemma opt_vscale_S f c e : opt_vscale fx s (S f) c e =
    match e with
    | VScale c1 e1 => VScale (c * c1) e1
    | VAdd e1 e2 => VAdd (opt_vscale fx s f c e1) (opt_vscale fx s f c e2)
    | VUn _ _ => opt_vunary e (FMulScalar c)
    | VBin _ _ _ => opt_vunary e (FMulScalar c)
    | VMv alpha m v => VMv (c * alpha) m v
    | VConcat e1 e2 => VConcat (opt_vscale fx s f c e1) (opt_vscale fx s f c e2)
    | _ => VScale c e
    end.
Proof. reflexivity. Qed.

Lemma opt_mscale_O c m : opt_mscale fx s O c m = MScale c m.
Proof. reflexivity. Qed.

Lemma opt_mscale_S f c m : opt_mscale fx s (S f) c m =
    match m with
    | MScale c1 m1 => MScale (c * c1) m1
    | MAdd m1 m2 => MAdd (opt_mscale fx s f c m1) (opt_mscale fx s f c m2)
    | MRepeat cm e k => MRepeat cm (opt_vscale fx s f c e) k
    | MUn _ _ => opt_munary m (FMulScalar c)
    | MBin _ _ _ => opt_munary m (FMulScalar c)
    | MOuter e1 e2 => MOuter (opt_vscale fx s f c e1) e2
    | MProd alpha m1 m2 => MProd (c * alpha) m1 m2
    | MConcat rt m1 m2 => MConcat rt (opt_mscale fx s f c m1) (opt_mscale fx s f c m2)
    | _ => MScale c m
    end.
Proof. reflexivity. Qed.

Lemma opt_mvprod_O m v : opt_mvprod fx s O m v = VMv 1 m v.
Proof. reflexivity. Qed.

Lemma opt_mvprod_S f m v : opt_mvprod fx s (S f) m v =
    match m, v with
    | MScale c1 m1, VScale c2 v1 => opt_vscale fx s f (c2 * c1) (opt_mvprod fx s f m1 v1)
    | MScale c1 m1, _ => opt_vscale fx s f c1 (opt_mvprod fx s f m1 v)
    | _, VScale c2 v1 => opt_vscale fx s f c2 (opt_mvprod fx s f m v1)
    | MProd alpha m1 m2, _ => opt_vscale fx s f alpha (opt_mvprod fx s f m1 (opt_mvprod fx s f m2 v))
    | MAdd m1 m2, _ => VAdd (opt_mvprod fx s f m1 v) (opt_mvprod fx s f m2 v)
    | MOuter e1 e2, _ => VScale (inner_at s e2 v) e1
    | MRepeat false e k, _ => VConst k (inner_at s e v)
    | MRepeat true e _, _ => VScale (sum_at s v) e
    | MDiagM e, _ => VBin BMul e v
    | _, _ => VMv 1 m v
    end.
Proof. reflexivity. Qed.

Lemma opt_mmprod_O m1 m2 : opt_mmprod fx s O m1 m2 = MProd 1 m1 m2.
Proof. reflexivity. Qed.

Lemma opt_mmprod_S f m1 m2 : opt_mmprod fx s (S f) m1 m2 =
    match m1, m2 with
    | MScale c1 a1, MScale c2 a2 => opt_mscale fx s f (c1 * c2) (opt_mmprod fx s f a1 a2)
    | MScale c1 a1, _ => opt_mscale fx s f c1 (opt_mmprod fx s f a1 m2)
    | _, MScale c2 a2 => opt_mscale fx s f c2 (opt_mmprod fx s f m1 a2)
    | _, _ => MProd 1 m1 m2
    end.
Proof. reflexivity. Qed.
End Unfold.

Arguments opt_vrange : simpl never.
Arguments opt_mtrans : simpl never.
Arguments opt_mrow : simpl never.
Arguments opt_mdiag : simpl never.
Arguments opt_mrange : simpl never.
Arguments opt_mrows : simpl never.
Arguments opt_vscale : simpl never.
Arguments opt_mscale : simpl never.
Arguments opt_mvprod : simpl never.
Arguments opt_mmprod : simpl never.

(* ---------- soundness predicates ---------- *)
Section Sound.
Variable s : env.

(* e' (optimised) stands for e0 (surface): well-formed, same shape, same elements inside the shape *)
Definition vsound (e' e0 : vexp) : Prop :=
  vwf e' = true /\ vsize e' = vsize e0 /\
  forall i, (i < vsize e0)%nat -> vden s e' i = vden s e0 i.

Definition msound (m' m0 : mexp) : Prop :=
  mwf m' = true /\ mrows m' = mrows m0 /\ mcols m' = mcols m0 /\
  forall i j, (i < mrows m0)%nat -> (j < mcols m0)%nat -> mden s m' i j = mden s m0 i j.

Lemma vsound_refl e : vwf e = true -> vsound e e.
Proof. intros H; repeat split; auto. Qed.
Lemma msound_refl m : mwf m = true -> msound m m.
Proof. intros H; repeat split; auto. Qed.

Lemma vsound_trans a b c : vsound a b -> vsound b c -> vsound a c.
Proof.
  intros (W1 & S1 & D1) (W2 & S2 & D2). repeat split; auto; try congruence.
  intros i Hi. rewrite D1 by congruence. apply D2; auto.
Qed.
Lemma msound_trans a b c : msound a b -> msound b c -> msound a c.
Proof.
  intros (W1 & R1 & C1 & D1) (W2 & R2 & C2 & D2). repeat split; auto; try congruence.
  intros i j Hi Hj. rewrite D1 by congruence. apply D2; auto.
Qed.

Local Notation ovrange := (opt_vrange true s).
Local Notation omtrans := (opt_mtrans true s).
Local Notation omrow := (opt_mrow true s).
Local Notation omdiag := (opt_mdiag true s).
Local Notation omrange := (opt_mrange true s).
Local Notation omrows := (opt_mrows true s).
Local Notation ovscale := (opt_vscale true s).
Local Notation omscale := (opt_mscale true s).
Local Notation omvprod := (opt_mvprod true s).
Local Notation ommprod := (opt_mmprod true s).

Definition S_vrange f := forall e a b, vwf (VRange e a b) = true -> vsound (ovrange f e a b) (VRange e a b).
Definition S_mtrans f := forall m, mwf (MTrans m) = true -> msound (omtrans f m) (MTrans m).
Definition S_mrow f := forall m i, vwf (VRow m i) = true -> vsound (omrow f m i) (VRow m i).
Definition S_mdiag f := forall m, vwf (VDiag m) = true -> vsound (omdiag f m) (VDiag m).
Definition S_mrange f := forall m a b c d, mwf (MRange m a b c d) = true -> msound (omrange f m a b c d) (MRange m a b c d).
Definition S_mrows f := forall m a b, mwf (MRows m a b) = true -> msound (omrows f m a b) (MRows m a b).
Definition S_vscale f := forall c e, vwf (VScale c e) = true -> vsound (ovscale f c e) (VScale c e).
Definition S_mscale f := forall c m, mwf (MScale c m) = true -> msound (omscale f c m) (MScale c m).
Definition S_mvprod f := forall m v, vwf (VMv 1 m v) = true -> vsound (omvprod f m v) (VMv 1 m v).
Definition S_mmprod f := forall m1 m2, mwf (MProd 1 m1 m2) = true -> msound (ommprod f m1 m2) (MProd 1 m1 m2).

Record S_all (f : nat) : Prop := {
  s_vrange : S_vrange f; s_mtrans : S_mtrans f; s_mrow : S_mrow f; s_mdiag : S_mdiag f;
  s_mrange : S_mrange f; s_mrows : S_mrows f; s_vscale : S_vscale f; s_mscale : S_mscale f;
  s_mvprod : S_mvprod f; s_mmprod : S_mmprod f }.

(* ---------- tactics ---------- *)
Ltac bprop :=
  repeat rewrite ?andb_true_iff, ?Nat.leb_le, ?Nat.eqb_eq, ?Nat.ltb_lt in *.
Ltac shp := cbn [vsize mrows mcols vwf mwf fold_ok negb] in *.
Ltac wfs := shp; bprop; intuition (try lia; try congruence).

(* ---------- unary optimizers (no recursion) ---------- *)
Lemma opt_vunary_sound_aux e g : vwf (VUn g e) = true -> vsound (opt_vunary e g) (VUn g e).
Proof.
  intros H. destruct e; try (apply vsound_refl; exact H); cbn [opt_vunary];
    (split; [exact H|split; [reflexivity|intros; reflexivity]]).
Qed.

Lemma opt_munary_sound_aux m g : mwf (MUn g m) = true -> msound (opt_munary m g) (MUn g m).
Proof.
  intros H. destruct m; try (apply msound_refl; exact H); cbn [opt_munary];
    (split; [exact H|split; [reflexivity|split; [reflexivity|intros; reflexivity]]]).
Qed.

Ltac rwden :=
  repeat match goal with
  | D : forall i, _ -> vden s _ i = _ |- _ => rewrite D by lia
  | D : forall i j, _ -> _ -> mden s _ i j = _ |- _ => rewrite D by lia
  end.
Ltac dcbn := autorewrite with den; cbn [uapp bapp Nat.add].
Ltac hsplit := repeat match goal with H : _ /\ _ |- _ => destruct H end.
Ltac prep := unfold vsound, msound in *; cbn [opt_vunary opt_munary] in *; shp; bprop; hsplit.
Ltac side := first [assumption | lia | congruence | intuition (try lia; try congruence)].
Ltac is_opt t :=
  match t with
  | opt_vrange _ _ _ _ _ _ => idtac | opt_mtrans _ _ _ _ => idtac | opt_mrow _ _ _ _ _ => idtac
  | opt_mdiag _ _ _ _ => idtac | opt_mrange _ _ _ _ _ _ _ _ => idtac | opt_mrows _ _ _ _ _ _ => idtac
  | opt_vscale _ _ _ _ _ => idtac | opt_mscale _ _ _ _ _ => idtac | opt_mvprod _ _ _ _ _ => idtac
  | opt_mmprod _ _ _ _ _ => idtac
  end.
Ltac szrw :=
  repeat match goal with
  | Z : vsize ?t = _ |- context [vsize ?t] => is_opt t; rewrite Z
  | Z : mrows ?t = _ |- context [mrows ?t] => is_opt t; rewrite Z
  | Z : mcols ?t = _ |- context [mcols ?t] => is_opt t; rewrite Z
  end.
Ltac splitif :=
  repeat match goal with
  | |- context [(?a <? ?b)%nat] => destruct (Nat.ltb_spec a b)
  | |- context [(?a =? ?b)%nat] => destruct (Nat.eqb_spec a b)
  | |- context [(?a =? ?b)%Z] => destruct (Z.eqb_spec a b)
  end.
Ltac fin := szrw; splitif; try lia; repeat (progress (rwden; dcbn)); try reflexivity; try ring; try (subst; reflexivity).
Ltac nrm := cbn [vsize mrows mcols]; rewrite ?Z.mul_1_l; szrw; rewrite ?Nat.sub_0_r, ?Nat.add_0_l.
Ltac sext := apply sumn_ext; intros k Hk; fin.
Ltac vfin :=
  prep; split; [side | split; [side | intros i Hi; dcbn; fin]].
Ltac mfin :=
  prep; split; [side | split; [side | split; [side | intros i j Hi Hj; dcbn; fin]]].

(* pose every applicable induction hypothesis (innermost calls first: the outer ones need the inner facts) *)
Ltac newv t := lazymatch goal with _ : vwf t = true |- _ => fail | _ => idtac end.
Ltac newm t := lazymatch goal with _ : mwf t = true |- _ => fail | _ => idtac end.
Ltac ihv' H := let W := fresh "W" in let Z := fresh "Z" in let D := fresh "D" in
  destruct H as (W & Z & D); [solve [wfs]|].
Ltac ihm' H := let W := fresh "W" in let R := fresh "R" in let C := fresh "C" in let D := fresh "D" in
  destruct H as (W & R & C & D); [solve [wfs]|].
Ltac autoih IH :=
  repeat match goal with
  | |- context [opt_vrange true s ?f ?e ?a ?b] => newv (opt_vrange true s f e a b); ihv' (s_vrange _ IH e a b)
  | |- context [opt_mtrans true s ?f ?m] => newm (opt_mtrans true s f m); ihm' (s_mtrans _ IH m)
  | |- context [opt_mrow true s ?f ?m ?r] => newv (opt_mrow true s f m r); ihv' (s_mrow _ IH m r)
  | |- context [opt_mdiag true s ?f ?m] => newv (opt_mdiag true s f m); ihv' (s_mdiag _ IH m)
  | |- context [opt_mrange true s ?f ?m ?a ?b ?c ?d] => newm (opt_mrange true s f m a b c d); ihm' (s_mrange _ IH m a b c d)
  | |- context [opt_mrows true s ?f ?m ?a ?b] => newm (opt_mrows true s f m a b); ihm' (s_mrows _ IH m a b)
  | |- context [opt_vscale true s ?f ?c ?e] => newv (opt_vscale true s f c e); ihv' (s_vscale _ IH c e)
  | |- context [opt_mscale true s ?f ?c ?m] => newm (opt_mscale true s f c m); ihm' (s_mscale _ IH c m)
  | |- context [opt_mvprod true s ?f ?m ?v] => newv (opt_mvprod true s f m v); ihv' (s_mvprod _ IH m v)
  | |- context [opt_mmprod true s ?f ?m1 ?m2] => newm (opt_mmprod true s f m1 m2); ihm' (s_mmprod _ IH m1 m2)
  end.

Lemma step_vscale f : S_all f -> S_vscale (S f).
Proof.
  intros IH c e H. rewrite opt_vscale_S.
  destruct e; try (apply vsound_refl; exact H); autoih IH; vfin.
Qed.

Lemma step_mscale f : S_all f -> S_mscale (S f).
Proof.
  intros IH c m H. rewrite opt_mscale_S.
  destruct m; try (apply msound_refl; exact H); try destruct colmajor; try destruct rt; autoih IH; mfin.
Qed.
Ltac sumbound :=
  match goal with
  | |- sumn ?n _ = sumn ?m _ => first [constr_eq n m | replace n with m by lia]
  | |- foldk _ ?n _ = foldk _ ?m _ => first [constr_eq n m | replace n with m by lia]
  end.
Ltac sext' := sumbound; apply sumn_ext; intros ? ?; fin.
Ltac fext := sumbound; apply foldk_ext; intros ? ?; fin.
Ltac close := nrm; try assumption; try (f_equal; first [sext' | fext]).

Lemma step_vrange f : S_all f -> S_vrange (S f).
Proof.
  intros IH e a b H. rewrite opt_vrange_S. cbv zeta.
  destruct e; try (apply vsound_refl; exact H); autoih IH;
    try (destruct (Z.leb_spec (Z.of_nat a) idx); destruct (Z.ltb_spec idx (Z.of_nat b)); cbn [andb]).
  all: vfin.
  all: close.
Qed.

Lemma step_mtrans f : S_all f -> S_mtrans (S f).
Proof.
  intros IH m H. rewrite opt_mtrans_S. cbv zeta.
  destruct m; try (apply msound_refl; exact H); try destruct colmajor; try destruct rt; autoih IH.
  all: mfin.
  all: close.
Qed.

Lemma step_mrow f : S_all f -> S_mrow (S f).
Proof.
  intros IH m r H. rewrite opt_mrow_S. cbv zeta.
  destruct m; try (apply vsound_refl; exact H); try destruct colmajor; autoih IH.
  all: vfin.
  all: close.
Qed.

Lemma step_mdiag f : S_all f -> S_mdiag (S f).
Proof.
  intros IH m H. rewrite opt_mdiag_S. cbv zeta.
  destruct m; try (apply vsound_refl; exact H); try destruct colmajor; autoih IH.
  all: vfin.
  all: close.
Qed.

Lemma step_mrange f : S_all f -> S_mrange (S f).
Proof.
  intros IH m a b c d H. rewrite opt_mrange_S. cbv zeta.
  destruct m; try (apply msound_refl; exact H); try destruct colmajor;
    try (destruct (Nat.eqb_spec a c) as [<-|?]; [destruct (Nat.eqb_spec b d) as [<-|?]|]; cbn [andb];
         try (apply msound_refl; exact H); rewrite Nat.max_id, Nat.min_id);
    autoih IH.
  all: mfin.
  all: close.
Qed.

Lemma step_mrows f : S_all f -> S_mrows (S f).
Proof.
  intros IH m a b H. rewrite opt_mrows_S. cbv zeta.
  destruct m; try (apply msound_refl; exact H); try destruct colmajor; autoih IH.
  all: mfin.
  all: close.
Qed.
(* ---------- products ---------- *)
Lemma sumn_assoc n m alpha (a : nat -> Z) (b : nat -> nat -> Z) (v : nat -> Z) :
  alpha * sumn n (fun k => a k * sumn m (fun l => b k l * v l)) =
  sumn m (fun l => alpha * sumn n (fun k => a k * b k l) * v l).
Proof.
  rewrite <- sumn_scale.
  rewrite (sumn_ext n _ (fun k => sumn m (fun l => alpha * (a k * (b k l * v l))))).
  2:{ intros k _. rewrite <- !sumn_scale. reflexivity. }
  rewrite sumn_swap. apply sumn_ext. intros l _.
  rewrite <- sumn_scale, <- sumn_scale_r. apply sumn_ext. intros k _. ring.
Qed.

Lemma sumn_diag n i (x : Z) (v : nat -> Z) :
  (i < n)%nat -> sumn n (fun k => (if (i =? k)%nat then x else 0) * v k) = x * v i.
Proof.
  intros H. rewrite <- (sumn_delta n i (fun k => x * v k) H).
  apply sumn_ext. intros k _. destruct (i =? k)%nat; ring.
Qed.

Ltac sumfin := nrm; unfold inner_at, sum_at; first
  [ solve [sext']
  | rewrite <- sumn_scale; solve [sext']
  | rewrite <- sumn_scale_r; solve [sext']
  | rewrite <- sumn_add; solve [sext'] ].

Ltac sumfin2 := nrm;
  match goal with
  | |- _ = sumn ?n (fun k => mden s (MDiagM ?e) ?i k * vden s ?v k) =>
      symmetry; exact (sumn_diag n i (vden s e i) (vden s v) ltac:(lia))
  | |- sumn ?n1 _ + sumn ?n2 _ = _ => replace n2 with n1 by lia; rewrite <- sumn_add; solve [sext']
  | |- ?alpha * sumn ?n (fun k => mden s ?m1 ?i k * vden s (opt_mvprod true s ?f ?m2 ?v) k) = _ =>
      rewrite (sumn_ext n _ (fun k => mden s m1 i k * sumn (mcols m2) (fun l => mden s m2 k l * vden s v l)))
        by (intros; rwden; dcbn; nrm; reflexivity);
      exact (sumn_assoc n (mcols m2) alpha (fun k => mden s m1 i k) (fun k l => mden s m2 k l) (vden s v))
  end.

Lemma step_mmprod f : S_all f -> S_mmprod (S f).
Proof.
  intros IH m1 m2 H. rewrite opt_mmprod_S.
  destruct m1; destruct m2; try (apply msound_refl; exact H); autoih IH.
  all: mfin.
  all: sumfin.
Qed.

(* the rules of matrix_vector_prod_optimizer whose second pattern is not vector_scalar_multiply *)
Definition mvprod_ns (f : nat) (m : mexp) (v : vexp) : vexp :=
  match m with
  | MScale c1 m1 => ovscale f c1 (omvprod f m1 v)
  | MProd alpha m1 m2 => ovscale f alpha (omvprod f m1 (omvprod f m2 v))
  | MAdd m1 m2 => VAdd (omvprod f m1 v) (omvprod f m2 v)
  | MOuter e1 e2 => VScale (inner_at s e2 v) e1
  | MRepeat false e k => VConst k (inner_at s e v)
  | MRepeat true e _ => VScale (sum_at s v) e
  | MDiagM e => VBin BMul e v
  | _ => VMv 1 m v
  end.

Lemma opt_mvprod_S' f m v : omvprod (S f) m v =
  match v with
  | VScale c2 v1 =>
      match m with
      | MScale c1 m1 => ovscale f (c2 * c1) (omvprod f m1 v1)
      | _ => ovscale f c2 (omvprod f m v1)
      end
  | _ => mvprod_ns f m v
  end.
Proof. rewrite opt_mvprod_S. destruct m; destruct v; try reflexivity; destruct colmajor; reflexivity. Qed.

Lemma mvprod_ns_sound f : S_all f -> forall m v, vwf (VMv 1 m v) = true -> vsound (mvprod_ns f m v) (VMv 1 m v).
Proof.
  intros IH m v H. unfold mvprod_ns.
  destruct m; try (apply vsound_refl; exact H); try destruct colmajor; autoih IH.
  all: vfin.
  all: try sumfin.
  all: sumfin2.
Qed.

Lemma step_mvprod f : S_all f -> S_mvprod (S f).
Proof.
  intros IH m v H. rewrite opt_mvprod_S'.
  destruct v; try (apply mvprod_ns_sound; assumption).
  destruct m; autoih IH.
  all: vfin.
  all: sumfin.
Qed.
Lemma S_all_O : S_all 0.
Proof.
  split; red; intros;
    rewrite ?opt_vrange_O, ?opt_mtrans_O, ?opt_mrow_O, ?opt_mdiag_O, ?opt_mrange_O, ?opt_mrows_O,
            ?opt_vscale_O, ?opt_mscale_O, ?opt_mvprod_O, ?opt_mmprod_O;
    first [apply vsound_refl | apply msound_refl]; assumption.
Qed.

Lemma S_all_step f : S_all f -> S_all (S f).
Proof.
  intros IH. split.
  - apply step_vrange, IH.
  - apply step_mtrans, IH.
  - apply step_mrow, IH.
  - apply step_mdiag, IH.
  - apply step_mrange, IH.
  - apply step_mrows, IH.
  - apply step_vscale, IH.
  - apply step_mscale, IH.
  - apply step_mvprod, IH.
  - apply step_mmprod, IH.
Qed.

Lemma S_all_any f : S_all f.
Proof. induction f; [apply S_all_O | apply S_all_step, IHf]. Qed.

Lemma opt_fold_set_sound_aux fuel (cm : bool) k g m :
  vwf (VFold k g (if cm then MTrans m else m)) = true ->
  vsound (opt_fold_set true s fuel cm k g m) (VFold k g (if cm then MTrans m else m)).
Proof.
  intros H. destruct cm; cbn [opt_fold_set]; [|apply vsound_refl; exact H].
  destruct (s_mtrans _ (S_all_any fuel) m) as (W & R & C & D); [wfs|].
  vfin. close.
Qed.

(* variant of the vector_range<matrix_row_transform> rule as it is written in the repaired C++
   (matrix_rows_optimizer on the folded matrix; C01Opt.v uses the equivalent matrix_range_optimizer call) *)
Lemma vrange_fold_rows_aux fuel k g m a b :
  vwf (VRange (VFold k g m) a b) = true ->
  vsound (VFold k g (omrows fuel m a b)) (VRange (VFold k g m) a b).
Proof.
  intros H. destruct (s_mrows _ (S_all_any fuel) m a b) as (W & R & C & D); [wfs|].
  vfin. all: close.
Qed.

End Sound.

(* ====================== main theorems: the repaired table (fx = true) is sound ====================== *)
Theorem opt_vrange_sound : forall (s : env) (fuel : nat) (e : vexp) (a b : nat),
  vwf (VRange e a b) = true ->
  vwf (opt_vrange true s fuel e a b) = true /\
  vsize (opt_vrange true s fuel e a b) = vsize (VRange e a b) /\
  forall i, (i < vsize (VRange e a b))%nat ->
    vden s (opt_vrange true s fuel e a b) i = vden s (VRange e a b) i.
Proof. intros s fuel. exact (s_vrange s _ (S_all_any s fuel)). Qed.

Theorem opt_mtrans_sound : forall (s : env) (fuel : nat) (m : mexp),
  mwf (MTrans m) = true ->
  mwf (opt_mtrans true s fuel m) = true /\
  mrows (opt_mtrans true s fuel m) = mrows (MTrans m) /\
  mcols (opt_mtrans true s fuel m) = mcols (MTrans m) /\
  forall i j, (i < mrows (MTrans m))%nat -> (j < mcols (MTrans m))%nat ->
    mden s (opt_mtrans true s fuel m) i j = mden s (MTrans m) i j.
Proof. intros s fuel. exact (s_mtrans s _ (S_all_any s fuel)). Qed.

Theorem opt_mrow_sound : forall (s : env) (fuel : nat) (m : mexp) (r : nat),
  vwf (VRow m r) = true ->
  vwf (opt_mrow true s fuel m r) = true /\
  vsize (opt_mrow true s fuel m r) = vsize (VRow m r) /\
  forall i, (i < vsize (VRow m r))%nat ->
    vden s (opt_mrow true s fuel m r) i = vden s (VRow m r) i.
Proof. intros s fuel. exact (s_mrow s _ (S_all_any s fuel)). Qed.

Theorem opt_mdiag_sound : forall (s : env) (fuel : nat) (m : mexp),
  vwf (VDiag m) = true ->
  vwf (opt_mdiag true s fuel m) = true /\
  vsize (opt_mdiag true s fuel m) = vsize (VDiag m) /\
  forall i, (i < vsize (VDiag m))%nat ->
    vden s (opt_mdiag true s fuel m) i = vden s (VDiag m) i.
Proof. intros s fuel. exact (s_mdiag s _ (S_all_any s fuel)). Qed.

Theorem opt_mrange_sound : forall (s : env) (fuel : nat) (m : mexp) (a b c d : nat),
  mwf (MRange m a b c d) = true ->
  mwf (opt_mrange true s fuel m a b c d) = true /\
  mrows (opt_mrange true s fuel m a b c d) = mrows (MRange m a b c d) /\
  mcols (opt_mrange true s fuel m a b c d) = mcols (MRange m a b c d) /\
  forall i j, (i < mrows (MRange m a b c d))%nat -> (j < mcols (MRange m a b c d))%nat ->
    mden s (opt_mrange true s fuel m a b c d) i j = mden s (MRange m a b c d) i j.
Proof. intros s fuel. exact (s_mrange s _ (S_all_any s fuel)). Qed.

Theorem opt_mrows_sound : forall (s : env) (fuel : nat) (m : mexp) (a b : nat),
  mwf (MRows m a b) = true ->
  mwf (opt_mrows true s fuel m a b) = true /\
  mrows (opt_mrows true s fuel m a b) = mrows (MRows m a b) /\
  mcols (opt_mrows true s fuel m a b) = mcols (MRows m a b) /\
  forall i j, (i < mrows (MRows m a b))%nat -> (j < mcols (MRows m a b))%nat ->
    mden s (opt_mrows true s fuel m a b) i j = mden s (MRows m a b) i j.
Proof. intros s fuel. exact (s_mrows s _ (S_all_any s fuel)). Qed.

Theorem opt_vscale_sound : forall (s : env) (fuel : nat) (c : Z) (e : vexp),
  vwf (VScale c e) = true ->
  vwf (opt_vscale true s fuel c e) = true /\
  vsize (opt_vscale true s fuel c e) = vsize (VScale c e) /\
  forall i, (i < vsize (VScale c e))%nat ->
    vden s (opt_vscale true s fuel c e) i = vden s (VScale c e) i.
Proof. intros s fuel. exact (s_vscale s _ (S_all_any s fuel)). Qed.

Theorem opt_mscale_sound : forall (s : env) (fuel : nat) (c : Z) (m : mexp),
  mwf (MScale c m) = true ->
  mwf (opt_mscale true s fuel c m) = true /\
  mrows (opt_mscale true s fuel c m) = mrows (MScale c m) /\
  mcols (opt_mscale true s fuel c m) = mcols (MScale c m) /\
  forall i j, (i < mrows (MScale c m))%nat -> (j < mcols (MScale c m))%nat ->
    mden s (opt_mscale true s fuel c m) i j = mden s (MScale c m) i j.
Proof. intros s fuel. exact (s_mscale s _ (S_all_any s fuel)). Qed.

(* prod(m,v) : the user-level product has alpha = 1 *)
Theorem opt_mvprod_sound : forall (s : env) (fuel : nat) (m : mexp) (v : vexp),
  vwf (VMv 1 m v) = true ->
  vwf (opt_mvprod true s fuel m v) = true /\
  vsize (opt_mvprod true s fuel m v) = vsize (VMv 1 m v) /\
  forall i, (i < vsize (VMv 1 m v))%nat ->
    vden s (opt_mvprod true s fuel m v) i = vden s (VMv 1 m v) i.
Proof. intros s fuel. exact (s_mvprod s _ (S_all_any s fuel)). Qed.

Theorem opt_mmprod_sound : forall (s : env) (fuel : nat) (m1 m2 : mexp),
  mwf (MProd 1 m1 m2) = true ->
  mwf (opt_mmprod true s fuel m1 m2) = true /\
  mrows (opt_mmprod true s fuel m1 m2) = mrows (MProd 1 m1 m2) /\
  mcols (opt_mmprod true s fuel m1 m2) = mcols (MProd 1 m1 m2) /\
  forall i j, (i < mrows (MProd 1 m1 m2))%nat -> (j < mcols (MProd 1 m1 m2))%nat ->
    mden s (opt_mmprod true s fuel m1 m2) i j = mden s (MProd 1 m1 m2) i j.
Proof. intros s fuel. exact (s_mmprod s _ (S_all_any s fuel)). Qed.

(* the unary optimizers do not depend on fx / s / fuel *)
Theorem opt_vunary_sound : forall (s : env) (e : vexp) (g : ufun),
  vwf (VUn g e) = true ->
  vwf (opt_vunary e g) = true /\
  vsize (opt_vunary e g) = vsize (VUn g e) /\
  forall i, (i < vsize (VUn g e))%nat -> vden s (opt_vunary e g) i = vden s (VUn g e) i.
Proof. intros s e g. exact (opt_vunary_sound_aux s e g). Qed.

Theorem opt_munary_sound : forall (s : env) (m : mexp) (g : ufun),
  mwf (MUn g m) = true ->
  mwf (opt_munary m g) = true /\
  mrows (opt_munary m g) = mrows (MUn g m) /\
  mcols (opt_munary m g) = mcols (MUn g m) /\
  forall i j, (i < mrows (MUn g m))%nat -> (j < mcols (MUn g m))%nat ->
    mden s (opt_munary m g) i j = mden s (MUn g m) i j.
Proof. intros s m g. exact (opt_munary_sound_aux s m g). Qed.

(* fold over a vector set: as_rows(m) folds the rows of m, as_columns(m) the rows of trans(m) *)
Theorem opt_fold_set_sound : forall (s : env) (fuel : nat) (colmajor : bool) (k : fkind) (g : ufun) (m : mexp),
  let surface := VFold k g (if colmajor then MTrans m else m) in
  vwf surface = true ->
  vwf (opt_fold_set true s fuel colmajor k g m) = true /\
  vsize (opt_fold_set true s fuel colmajor k g m) = vsize surface /\
  forall i, (i < vsize surface)%nat ->
    vden s (opt_fold_set true s fuel colmajor k g m) i = vden s surface i.
Proof. intros s fuel cm k g m. exact (opt_fold_set_sound_aux s fuel cm k g m). Qed.

Theorem opt_vrange_fold_rows_variant_sound : forall (s : env) (fuel : nat) (k : fkind) (g : ufun) (m : mexp) (a b : nat),
  let surface := VRange (VFold k g m) a b in
  let r := VFold k g (opt_mrows true s fuel m a b) in
  vwf surface = true ->
  vwf r = true /\ vsize r = vsize surface /\
  forall i, (i < vsize surface)%nat -> vden s r i = vden s surface i.
Proof. intros s fuel k g m a b. exact (vrange_fold_rows_aux s fuel k g m a b). Qed.

(* ====================== the table before the repairs (fx = false) is NOT sound ====================== *)
(* stores used by the witnesses *)
Definition env_ones : env := mkEnv (fun _ _ => 1) (fun _ _ _ => 1).
Definition env_count : env := mkEnv (fun _ i => Z.of_nat i + 1) (fun _ i j => Z.of_nat (2 * i + j) + 1).

Definition A11 := MVar 0 1 1.
Definition B11 := MVar 1 1 1.
Definition x1 := VVar 0 1.

(* vector_range<matrix_vector_prod>: alpha dropped.  subrange(2*prod(A,x),0,1)(0) = 2, the rule gives 1 *)
Theorem opt_vrange_mvprod_refuted :
  exists s fuel e a b i,
    vwf (VRange e a b) = true /\ (i < vsize (VRange e a b))%nat /\
    vden s (opt_vrange false s fuel e a b) i <> vden s (VRange e a b) i.
Proof.
  exists env_ones, 2%nat, (VMv 2 A11 x1), 0%nat, 1%nat, 0%nat.
  split; [reflexivity|]. split; [apply Nat.lt_0_1|]. vm_compute. discriminate.
Qed.

(* vector_range<matrix_row_transform> (as coded: cuts columns): wrong size *)
Theorem opt_vrange_fold_refuted :
  exists s fuel e a b,
    vwf (VRange e a b) = true /\ vsize (opt_vrange false s fuel e a b) <> vsize (VRange e a b).
Proof.
  exists env_ones, 2%nat, (VFold KSum FId (MVar 0 2 2)), 0%nat, 1%nat.
  split; [reflexivity|]. vm_compute. discriminate.
Qed.

(* matrix_transpose<matrix_matrix_prod>: alpha dropped *)
Theorem opt_mtrans_mmprod_refuted :
  exists s fuel m i j,
    mwf (MTrans m) = true /\ (i < mrows (MTrans m))%nat /\ (j < mcols (MTrans m))%nat /\
    mden s (opt_mtrans false s fuel m) i j <> mden s (MTrans m) i j.
Proof.
  exists env_ones, 2%nat, (MProd 2 A11 B11), 0%nat, 0%nat.
  split; [reflexivity|]. split; [apply Nat.lt_0_1|]. split; [apply Nat.lt_0_1|]. vm_compute. discriminate.
Qed.

(* matrix_row<matrix_matrix_prod>: alpha dropped *)
Theorem opt_mrow_mmprod_refuted :
  exists s fuel m r i,
    vwf (VRow m r) = true /\ (i < vsize (VRow m r))%nat /\
    vden s (opt_mrow false s fuel m r) i <> vden s (VRow m r) i.
Proof.
  exists env_ones, 2%nat, (MProd 2 A11 B11), 0%nat, 0%nat.
  split; [reflexivity|]. split; [apply Nat.lt_0_1|]. vm_compute. discriminate.
Qed.

(* matrix_range<matrix_matrix_prod>: alpha dropped *)
Theorem opt_mrange_mmprod_refuted :
  exists s fuel m a b c d i j,
    mwf (MRange m a b c d) = true /\ (i < mrows (MRange m a b c d))%nat /\ (j < mcols (MRange m a b c d))%nat /\
    mden s (opt_mrange false s fuel m a b c d) i j <> mden s (MRange m a b c d) i j.
Proof.
  exists env_ones, 2%nat, (MProd 2 A11 B11), 0%nat, 1%nat, 0%nat, 1%nat, 0%nat, 0%nat.
  split; [reflexivity|]. split; [apply Nat.lt_0_1|]. split; [apply Nat.lt_0_1|]. vm_compute. discriminate.
Qed.

(* matrix_rows<matrix_matrix_prod>: alpha dropped *)
Theorem opt_mrows_mmprod_refuted :
  exists s fuel m a b i j,
    mwf (MRows m a b) = true /\ (i < mrows (MRows m a b))%nat /\ (j < mcols (MRows m a b))%nat /\
    mden s (opt_mrows false s fuel m a b) i j <> mden s (MRows m a b) i j.
Proof.
  exists env_ones, 2%nat, (MProd 2 A11 B11), 0%nat, 1%nat, 0%nat, 0%nat.
  split; [reflexivity|]. split; [apply Nat.lt_0_1|]. split; [apply Nat.lt_0_1|]. vm_compute. discriminate.
Qed.

(* matrix_rows<vector_repeater<V,column_major>>: a row_major repeater (the transposed matrix) is built.
   x = (1,2): rows(trans(repeat(x,2)),0,2) = [[1,1],[2,2]], the rule gives [[1,2],[1,2]] (same shape, element (0,1) differs) *)
Theorem opt_mrows_repeat_refuted :
  exists s fuel m a b i j,
    mwf (MRows m a b) = true /\
    mrows (opt_mrows false s fuel m a b) = mrows (MRows m a b) /\
    mcols (opt_mrows false s fuel m a b) = mcols (MRows m a b) /\
    (i < mrows (MRows m a b))%nat /\ (j < mcols (MRows m a b))%nat /\
    mden s (opt_mrows false s fuel m a b) i j <> mden s (MRows m a b) i j.
Proof.
  exists env_count, 2%nat, (MRepeat true (VVar 0 2) 2), 0%nat, 2%nat, 0%nat, 1%nat.
  split; [reflexivity|]. split; [reflexivity|]. split; [reflexivity|].
  split; [apply Nat.lt_0_2|]. split; [apply Nat.lt_1_2|]. vm_compute. discriminate.
Qed.

(* ... and for a non-square result even the shape is wrong *)
Theorem opt_mrows_repeat_shape_refuted :
  exists s fuel m a b,
    mwf (MRows m a b) = true /\ mrows (opt_mrows false s fuel m a b) <> mrows (MRows m a b).
Proof.
  exists env_count, 2%nat, (MRepeat true (VVar 0 2) 3), 0%nat, 2%nat.
  split; [reflexivity|]. vm_compute. discriminate.
Qed.

(* matrix_range<diagonal_matrix> with an off-diagonal block (STILL the behaviour of the C++, known finding
   C01-RANGEDIAG): subrange(diag(x),0,2,1,3) with x = (1,2,3) is the 2x2 block [[0,0],[2,0]]; the rule returns
   the 1x1 matrix diag(subrange(x,1,2)) *)
Theorem opt_mrange_diag_shape_refuted :
  exists s fuel m a b c d,
    mwf (MRange m a b c d) = true /\
    (mrows (opt_mrange false s fuel m a b c d) <> mrows (MRange m a b c d) /\
     mcols (opt_mrange false s fuel m a b c d) <> mcols (MRange m a b c d)).
Proof.
  exists env_count, 2%nat, (MDiagM (VVar 0 3)), 0%nat, 2%nat, 1%nat, 3%nat.
  split; [reflexivity|]. split; vm_compute; discriminate.
Qed.

Theorem opt_mrange_diag_refuted :
  exists s fuel m a b c d i j,
    mwf (MRange m a b c d) = true /\ (i < mrows (MRange m a b c d))%nat /\ (j < mcols (MRange m a b c d))%nat /\
    mden s (opt_mrange false s fuel m a b c d) i j <> mden s (MRange m a b c d) i j.
Proof.
  exists env_count, 2%nat, (MDiagM (VVar 0 3)), 0%nat, 2%nat, 1%nat, 3%nat, 1%nat, 0%nat.
  split; [reflexivity|]. split; [apply Nat.lt_1_2|]. split; [apply Nat.lt_0_2|]. vm_compute. discriminate.
Qed.

(* the repaired rule (fx = true) keeps the proxy for an off-diagonal block: same witness, now equal *)
Example opt_mrange_diag_fixed_witness :
  opt_mrange true env_count 2 (MDiagM (VVar 0 3)) 0 2 1 3 = MRange (MDiagM (VVar 0 3)) 0 2 1 3.
Proof. reflexivity. Qed.

(* the hypotheses of the soundness theorems are satisfiable and the rules do fire *)
Example opt_sound_nonvacuous :
  vwf (VRange (VMv 2 (MProd 3 (MVar 0 2 2) (MScale 5 (MVar 1 2 2))) (VScale 7 (VVar 0 2))) 0 1) = true /\
  opt_vrange true env_count 6 (VMv 2 (MProd 3 (MVar 0 2 2) (MScale 5 (MVar 1 2 2))) (VScale 7 (VVar 0 2))) 0 1
    <> VRange (VMv 2 (MProd 3 (MVar 0 2 2) (MScale 5 (MVar 1 2 2))) (VScale 7 (VVar 0 2))) 0 1.
Proof. split; [reflexivity|]. vm_compute. discriminate. Qed.

