(* C01 — proofs about the compressed_matrix storage model and the sparse matrix kernels (C01SparseMatModel.v).
   Every matrix operation is the corresponding vector operation on one major line plus the bookkeeping of the shared
   capacity; the theorems are obtained from the vector theorems line by line. *)
From Coq Require Import ZArith List Bool Arith Lia.
From SharkV Require Import ListAux C01SparseModel C01SparseMatModel C01SparseProofs C01SparseFunProofs.
Import ListNotations.
Open Scope Z_scope.

(* ---------- the shared capacity ---------- *)
Definition sumcap (rows : list svec) : nat := fold_right (fun r a => (sv_cap r + a)%nat) 0%nat rows.
Definition gok (m : smat) : Prop := (sm_reserved m <= sm_cap m)%nat.

Lemma sumcap_upd rows i r' d :
  (i < length rows)%nat -> (sumcap (upd i r' rows) + sv_cap (nth i rows d) = sumcap rows + sv_cap r')%nat.
Proof.
  revert i; induction rows as [|r rows IH]; intros [|i] L; simpl in *; try lia.
  specialize (IH i ltac:(lia)). lia.
Qed.

Lemma sm_grow_rows m diff ex : sm_rows (sm_grow m diff ex) = sm_rows m /\ sm_minor (sm_grow m diff ex) = sm_minor m.
Proof. unfold sm_grow, sm_reserve. destruct (_ <? diff)%nat; auto. destruct (_ <? sm_cap m)%nat; auto. Qed.

Lemma sm_grow_cap m diff ex : gok m -> (sm_reserved m + diff <= sm_cap (sm_grow m diff ex))%nat /\ (sm_cap m <= sm_cap (sm_grow m diff ex))%nat.
Proof.
  unfold gok, sm_grow, sm_reserve. intros G.
  destruct (Nat.ltb_spec (sm_cap m - sm_reserved m) diff); [|lia].
  destruct ex.
  - destruct (Nat.ltb_spec (sm_cap m + diff) (sm_cap m)); cbn [sm_cap]; lia.
  - destruct (Nat.ltb_spec (Nat.max (2 * sm_cap m) (sm_cap m + 2 * diff)) (sm_cap m)); cbn [sm_cap]; lia.
Qed.

(* replacing line i by a line of at least the same capacity, after growing the shared arrays by the difference *)
Lemma grow_row_gok m i r' ex :
  gok m -> (i < sm_major m)%nat -> (sv_cap (sm_row m i) <= sv_cap r')%nat ->
  let m1 := sm_grow m (sv_cap r' - sv_cap (sm_row m i)) ex in
  gok (mkSM (sm_minor m1) (sm_cap m1) (upd i r' (sm_rows m1))).
Proof.
  intros G L C. cbv zeta. destruct (sm_grow_rows m (sv_cap r' - sv_cap (sm_row m i)) ex) as (R & _).
  destruct (sm_grow_cap m (sv_cap r' - sv_cap (sm_row m i)) ex G) as (A & _).
  unfold gok, sm_reserved in *. cbn [sm_rows sm_cap]. rewrite R.
  pose proof (sumcap_upd (sm_rows m) i r' (sv_empty (sm_minor m)) L) as U.
  unfold sumcap, sm_row in *. lia.
Qed.

(* ---------- line-level view of the storage operations ---------- *)
Lemma sm_set_element_rows m i p idx x :
  sm_rows (fst (sm_set_element m i p idx x)) = upd i (fst (sv_set_element (sm_row m i) p idx x)) (sm_rows m) /\
  sm_minor (fst (sm_set_element m i p idx x)) = sm_minor m /\
  snd (sm_set_element m i p idx x) = snd (sv_set_element (sm_row m i) p idx x).
Proof.
  unfold sm_set_element. destruct (sv_set_element (sm_row m i) p idx x) as [r' p'] eqn:Q. cbn [fst snd sm_rows sm_minor].
  destruct (sm_grow_rows m (sv_cap r' - sv_cap (sm_row m i)) false) as (A & B). rewrite A, B. auto.
Qed.

Lemma set_element_cap_mono v p idx x : (sv_cap v <= sv_cap (fst (sv_set_element v p idx x)))%nat.
Proof.
  unfold sv_set_element, sv_setval, sv_reserve.
  destruct (negb (p =? length (sv_el v))%nat && (idx_at (sv_el v) p =? idx)%nat); cbn [fst sv_cap]; [lia|].
  destruct (length (sv_el v) =? sv_cap v)%nat; [|lia].
  destruct (Nat.leb_spec (Nat.min (Nat.max 5 (2 * sv_cap v)) (sv_size v)) (sv_cap v)); cbn [sv_cap]; lia.
Qed.

Lemma sm_set_element_gok m i p idx x :
  gok m -> (i < sm_major m)%nat -> gok (fst (sm_set_element m i p idx x)) /\ (sm_cap m <= sm_cap (fst (sm_set_element m i p idx x)))%nat.
Proof.
  intros G L. unfold sm_set_element.
  pose proof (set_element_cap_mono (sm_row m i) p idx x) as C.
  destruct (sv_set_element (sm_row m i) p idx x) as [r' p'] eqn:Q. cbn [fst] in *. split.
  - apply (grow_row_gok m i r' false G L C).
  - cbn [sm_cap]. apply sm_grow_cap. exact G.
Qed.

Lemma sm_fill_rows : forall src m i p,
  (i < sm_major m)%nat ->
  sm_rows (fst (sm_fill m i p src)) = upd i (fst (sv_fill (sm_row m i) p src)) (sm_rows m) /\
  sm_minor (fst (sm_fill m i p src)) = sm_minor m /\
  (gok m -> gok (fst (sm_fill m i p src))).
Proof.
  induction src as [|[j y] s IH]; intros m i p L; cbn [sm_fill sv_fill].
  - cbn [fst]. unfold sm_row. rewrite upd_nth_same. auto.
  - destruct (sm_set_element_rows m i p j y) as (A & B & C).
    pose proof (sm_set_element_gok m i p j y) as G.
    destruct (sm_set_element m i p j y) as [m' p'] eqn:Q. cbn [fst snd] in *.
    destruct (sv_set_element (sm_row m i) p j y) as [r' q'] eqn:Q2. cbn [fst snd] in *. subst q'.
    assert (L' : (i < sm_major m')%nat) by (unfold sm_major in *; rewrite A, upd_length; exact L).
    destruct (IH m' i p' L') as (A2 & B2 & G2).
    assert (R' : sm_row m' i = r').
    { unfold sm_row. rewrite A, B. apply nth_upd_eq. exact L. }
    rewrite R' in A2. repeat split.
    + rewrite A2, A, upd_upd. reflexivity.
    + rewrite B2. exact B.
    + intros G0. apply G2. apply G; auto.
Qed.

Lemma sm_major_reserve_rows m i n ex :
  (i < sm_major m)%nat ->
  sm_rows (sm_major_reserve m i n ex) = upd i (sv_reserve (sm_row m i) (Nat.min (sm_minor m) n)) (sm_rows m) /\
  sm_minor (sm_major_reserve m i n ex) = sm_minor m /\
  (gok m -> gok (sm_major_reserve m i n ex)).
Proof.
  intros L. unfold sm_major_reserve, sv_reserve.
  destruct (Nat.leb_spec (Nat.min (sm_minor m) n) (sv_cap (sm_row m i))).
  - unfold sm_row. rewrite upd_nth_same. auto.
  - destruct (sm_grow_rows m (Nat.min (sm_minor m) n - sv_cap (sm_row m i)) ex) as (A & B).
    cbn [sm_rows sm_minor]. split; [rewrite A; reflexivity|]. split; [exact B|].
    intros G.
    pose proof (grow_row_gok m i (mkSV (sv_size (sm_row m i)) (Nat.min (sm_minor m) n) (sv_el (sm_row m i))) ex G L) as X.
    cbn [sv_cap] in X. apply X. lia.
Qed.

(* ---------- zipping lines ---------- *)
Fixpoint zipw {A B C : Type} (f : A -> B -> C) (la : list A) (lb : list B) : list C :=
  match la, lb with
  | a :: la', b :: lb' => f a b :: zipw f la' lb'
  | _, _ => []
  end.

Lemma zipw_length {A B C} (f : A -> B -> C) la lb : length la = length lb -> length (zipw f la lb) = length la.
Proof. revert lb; induction la as [|a la IH]; intros [|b lb] H; simpl in *; try lia. rewrite IH; lia. Qed.

Lemma zipw_nth {A B C} (f : A -> B -> C) la lb i da db dc :
  (i < length la)%nat -> length la = length lb -> nth i (zipw f la lb) dc = f (nth i la da) (nth i lb db).
Proof.
  revert lb i; induction la as [|a la IH]; intros [|b lb] [|i] L H; simpl in *; try lia; auto.
  apply IH; lia.
Qed.

Lemma upd_app_len {A} (pre : list A) x y suf : upd (length pre) y (pre ++ x :: suf) = pre ++ y :: suf.
Proof. induction pre; simpl; auto. f_equal. exact IHpre. Qed.

(* ---------- plain kernel, same orientation ---------- *)
Lemma copy_lines_rows : forall lines m done todo,
  sm_rows m = done ++ todo -> length todo = length lines ->
  sm_rows (sm_copy_lines m (length done) lines) =
    done ++ zipw (fun r e => fst (sv_fill r 0 (sv_el e))) todo lines /\
  sm_minor (sm_copy_lines m (length done) lines) = sm_minor m /\
  (gok m -> gok (sm_copy_lines m (length done) lines)).
Proof.
  induction lines as [|e t IH]; intros m done todo E L; cbn [sm_copy_lines].
  - destruct todo; [|simpl in L; lia]. simpl. auto.
  - destruct todo as [|r todo]; [simpl in L; lia|].
    assert (Li : (length done < sm_major m)%nat).
    { unfold sm_major. rewrite E, app_length. simpl. lia. }
    destruct (sm_fill_rows (sv_el e) m (length done) 0%nat Li) as (A & B & G).
    assert (Rw : sm_row m (length done) = r).
    { unfold sm_row. rewrite E. rewrite nth_app_len. reflexivity. }
    rewrite Rw in A. rewrite E, upd_app_len in A.
    set (r1 := fst (sv_fill r 0 (sv_el e))) in *.
    assert (E1 : sm_rows (fst (sm_fill m (length done) 0 (sv_el e))) = (done ++ [r1]) ++ todo).
    { rewrite A, <- app_assoc. reflexivity. }
    specialize (IH _ (done ++ [r1]) todo E1 ltac:(simpl in L; lia)).
    replace (length (done ++ [r1])) with (S (length done)) in IH by (rewrite app_length; simpl; lia).
    destruct IH as (A2 & B2 & G2). repeat split.
    + rewrite A2, <- app_assoc. reflexivity.
    + rewrite B2. exact B.
    + intros G0. apply G2. apply G. exact G0.
Qed.

Lemma sm_clear_facts m :
  sm_rows (sm_clear m) = map sv_clear (sm_rows m) /\ sm_minor (sm_clear m) = sm_minor m /\
  sm_cap (sm_clear m) = sm_cap m /\ sm_reserved (sm_clear m) = sm_reserved m.
Proof.
  unfold sm_clear, sm_reserved. cbn [sm_rows sm_minor sm_cap]. repeat split.
  induction (sm_rows m) as [|r rows IH]; simpl; auto.
Qed.

Lemma zipw_map_l {A A' B C} (g : A -> A') (f : A' -> B -> C) la lb :
  zipw f (map g la) lb = zipw (fun a b => f (g a) b) la lb.
Proof. revert lb; induction la as [|a la IH]; intros [|b lb]; simpl; auto. f_equal. apply IH. Qed.

(* the kernel is the vector kernel k_assign_ss on every pair of lines *)
Lemma km_assign_same_rows m e :
  sm_major m = sm_major e ->
  sm_rows (km_assign_same m e) = zipw k_assign_ss (sm_rows m) (sm_rows e) /\
  sm_minor (km_assign_same m e) = sm_minor m /\ (gok m -> gok (km_assign_same m e)).
Proof.
  intros L. unfold km_assign_same.
  destruct (sm_clear_facts m) as (A & B & C & D).
  destruct (copy_lines_rows (sm_rows e) (sm_clear m) [] (map sv_clear (sm_rows m)) A) as (A2 & B2 & G2).
  { rewrite map_length. exact L. }
  cbn [length app] in *. repeat split.
  - rewrite A2, zipw_map_l. reflexivity.
  - rewrite B2. exact B.
  - intros G. apply G2. unfold gok in *. rewrite C, D. exact G.
Qed.

Definition rows_ok (m : smat) : Prop := forall r, In r (sm_rows m) -> sv_inv r /\ sv_size r = sm_minor m.

Lemma sm_inv_split m : sm_inv m <-> rows_ok m /\ gok m.
Proof. unfold sm_inv, rows_ok, gok. tauto. Qed.

Lemma sm_row_in m i : (i < sm_major m)%nat -> In (sm_row m i) (sm_rows m).
Proof. intros L. unfold sm_row. apply nth_In. exact L. Qed.

Lemma in_zipw {A B C} (f : A -> B -> C) la lb c :
  In c (zipw f la lb) -> exists a b, In a la /\ In b lb /\ c = f a b.
Proof.
  revert lb; induction la as [|a la IH]; intros [|b lb] H; simpl in H; try tauto.
  destruct H as [<-|H].
  - exists a, b. simpl. auto.
  - destruct (IH lb H) as (a' & b' & X & Y & Z). exists a', b'. simpl. auto.
Qed.

Theorem km_assign_same_correct m e :
  sm_inv m -> sm_inv e -> sm_major m = sm_major e -> sm_minor m = sm_minor e ->
  let r := km_assign_same m e in
  sm_inv r /\ sm_major r = sm_major m /\ sm_minor r = sm_minor m /\
  (forall i, (i < sm_major m)%nat -> sv_el (sm_row r i) = sv_el (sm_row e i)) /\
  (forall i j, (i < sm_major m)%nat -> smden r i j = smden e i j).
Proof.
  intros Hm He LM Lm. cbv zeta.
  apply sm_inv_split in Hm. destruct Hm as (Rm & Gm). apply sm_inv_split in He. destruct He as (Re & Ge).
  destruct (km_assign_same_rows m e LM) as (A & B & G).
  assert (ROW : forall i, (i < sm_major m)%nat ->
            sm_row (km_assign_same m e) i = k_assign_ss (sm_row m i) (sm_row e i)).
  { intros i Hi. unfold sm_row at 1. rewrite A.
    apply (zipw_nth k_assign_ss (sm_rows m) (sm_rows e) i); auto. }
  assert (FACT : forall i, (i < sm_major m)%nat ->
            let r := k_assign_ss (sm_row m i) (sm_row e i) in
            sv_inv r /\ sv_size r = sv_size (sm_row m i) /\ sv_el r = sv_el (sm_row e i) /\
            (forall j, sden r j = sden (sm_row e i) j)).
  { intros i Hi. destruct (Rm _ (sm_row_in m i Hi)) as (I1 & S1).
    destruct (Re _ (sm_row_in e i ltac:(rewrite <- LM; exact Hi))) as (I2 & S2).
    apply assign_ss_correct; auto. congruence. }
  split; [|split; [|split; [|split]]].
  - apply sm_inv_split. split; [|apply G; exact Gm].
    intros r Hr. rewrite A in Hr. destruct (in_zipw _ _ _ _ Hr) as (a & b & Ha & Hb & ->).
    destruct (Rm _ Ha) as (I1 & S1). destruct (Re _ Hb) as (I2 & S2).
    destruct (assign_ss_correct a b I1 I2 ltac:(congruence)) as (X & Y & _). rewrite B. split; [exact X | congruence].
  - unfold sm_major. rewrite A. apply zipw_length. exact LM.
  - exact B.
  - intros i Hi. rewrite (ROW i Hi). apply (FACT i Hi).
  - intros i j Hi. unfold smden. rewrite (ROW i Hi). apply (FACT i Hi).
Qed.

(* ---------- storage operations at matrix level ---------- *)
Lemma in_upd {A} (l : list A) i y x : In x (upd i y l) -> x = y \/ In x l.
Proof.
  revert i; induction l as [|a l IH]; intros [|i] H; simpl in *; try tauto.
  - destruct H as [H|H]; auto.
  - destruct H as [H|H]; auto. destruct (IH i H); auto.
Qed.

Lemma rows_ok_upd m i r' minor cap :
  rows_ok m -> sv_inv r' -> sv_size r' = sm_minor m -> minor = sm_minor m ->
  rows_ok (mkSM minor cap (upd i r' (sm_rows m))).
Proof.
  intros R I S ->. intros r Hr. cbn [sm_rows sm_minor] in *. destruct (in_upd _ _ _ _ Hr) as [->|H]; auto.
Qed.

Lemma sm_row_upd m i r' k minor cap :
  (i < sm_major m)%nat -> minor = sm_minor m ->
  sm_row (mkSM minor cap (upd i r' (sm_rows m))) k = if (k =? i)%nat then r' else sm_row m k.
Proof.
  intros L ->. unfold sm_row. cbn [sm_rows sm_minor]. destruct (Nat.eqb_spec k i) as [->|N].
  - apply nth_upd_eq. exact L.
  - apply nth_upd_neq. auto.
Qed.

Theorem sm_set_element_correct m i p idx x :
  sm_inv m -> (i < sm_major m)%nat -> pos_ok (sm_row m i) p idx ->
  let m' := fst (sm_set_element m i p idx x) in
  sm_inv m' /\ sm_major m' = sm_major m /\ sm_minor m' = sm_minor m /\ (sm_cap m <= sm_cap m')%nat /\
  snd (sm_set_element m i p idx x) = S p /\
  (forall a b, smden m' a b = if (a =? i)%nat && (b =? idx)%nat then x else smden m a b) /\
  (forall a b, smstored m' a b = (a =? i)%nat && (b =? idx)%nat || smstored m a b).
Proof.
  intros Hm L P. apply sm_inv_split in Hm. destruct Hm as (Rm & Gm). cbv zeta.
  destruct (Rm _ (sm_row_in m i L)) as (I1 & S1).
  destruct (set_element_correct (sm_row m i) p idx x I1 P) as (I' & PS & SZ & CP & DN & ST).
  destruct (sm_set_element_rows m i p idx x) as (A & B & C).
  destruct (sm_set_element_gok m i p idx x Gm L) as (G' & CC).
  set (m' := fst (sm_set_element m i p idx x)) in *.
  assert (ROW : forall k, sm_row m' k = if (k =? i)%nat then fst (sv_set_element (sm_row m i) p idx x) else sm_row m k).
  { intros k. unfold sm_row at 1. rewrite A, B. destruct (Nat.eqb_spec k i) as [->|N].
    - apply nth_upd_eq. exact L.
    - apply nth_upd_neq. auto. }
  split; [|split; [|split; [|split; [|split; [|split]]]]].
  - apply sm_inv_split. split; [|exact G'].
    intros r Hr. rewrite A in Hr. rewrite B. destruct (in_upd _ _ _ _ Hr) as [->|H]; auto. split; [exact I'|congruence].
  - unfold sm_major. rewrite A. apply upd_length.
  - exact B.
  - exact CC.
  - rewrite C. exact PS.
  - intros a b. unfold smden. rewrite ROW. destruct (Nat.eqb_spec a i) as [->|N]; cbn [andb]; auto.
  - intros a b. unfold smstored. rewrite ROW. destruct (Nat.eqb_spec a i) as [->|N]; cbn [andb orb]; auto.
Qed.

Theorem sm_major_reserve_correct m i n ex :
  sm_inv m -> (i < sm_major m)%nat ->
  let m' := sm_major_reserve m i n ex in
  sm_inv m' /\ sm_major m' = sm_major m /\ sm_minor m' = sm_minor m /\
  (Nat.min (sm_minor m) n <= sv_cap (sm_row m' i))%nat /\
  (forall a, sv_el (sm_row m' a) = sv_el (sm_row m a)).
Proof.
  intros Hm L. apply sm_inv_split in Hm. destruct Hm as (Rm & Gm). cbv zeta.
  destruct (sm_major_reserve_rows m i n ex L) as (A & B & G).
  destruct (Rm _ (sm_row_in m i L)) as (I1 & S1).
  destruct (reserve_correct (sm_row m i) (Nat.min (sm_minor m) n) I1) as (RI & RE & RS & RC).
  assert (ROW : forall k, sm_row (sm_major_reserve m i n ex) k =
                          if (k =? i)%nat then sv_reserve (sm_row m i) (Nat.min (sm_minor m) n) else sm_row m k).
  { intros k. unfold sm_row at 1. rewrite A, B. destruct (Nat.eqb_spec k i) as [->|N].
    - apply nth_upd_eq. exact L.
    - apply nth_upd_neq. auto. }
  split; [|split; [|split; [|split]]].
  - apply sm_inv_split. split; [|apply G; exact Gm].
    intros r Hr. rewrite A in Hr. rewrite B. destruct (in_upd _ _ _ _ Hr) as [->|H]; auto. split; [exact RI|congruence].
  - unfold sm_major. rewrite A. apply upd_length.
  - exact B.
  - rewrite ROW, Nat.eqb_refl. exact RC.
  - intros a. rewrite ROW. destruct (Nat.eqb_spec a i) as [->|N]; auto.
Qed.

Theorem sm_clear_correct m :
  sm_inv m -> sm_inv (sm_clear m) /\ sm_major (sm_clear m) = sm_major m /\ sm_minor (sm_clear m) = sm_minor m /\
  (forall a b, smden (sm_clear m) a b = 0).
Proof.
  intros Hm. apply sm_inv_split in Hm. destruct Hm as (Rm & Gm).
  destruct (sm_clear_facts m) as (A & B & C & D).
  split; [|split; [|split]].
  - apply sm_inv_split. split.
    + intros r Hr. rewrite A in Hr. apply in_map_iff in Hr. destruct Hr as (r0 & <- & H0).
      destruct (Rm _ H0) as (I & S). destruct (clear_correct r0 I) as (CI & _ & CS & _). rewrite B. split; [exact CI|congruence].
    + unfold gok in *. rewrite C, D. exact Gm.
  - unfold sm_major. rewrite A. apply map_length.
  - exact B.
  - intros a b. unfold smden, sm_row. rewrite A, B.
    destruct (Nat.ltb_spec a (length (sm_rows m))) as [La|La].
    + rewrite (nth_indep _ _ (sv_clear (sv_empty (sm_minor m)))) by (rewrite map_length; exact La).
      rewrite map_nth. unfold sden, sv_clear, sv_clear_range, sv_nnz. cbn [sv_el]. rewrite skipn_all. reflexivity.
    + rewrite nth_overflow by (rewrite map_length; exact La). reflexivity.
Qed.

(* ---------- functor kernel, same orientation ---------- *)
Definition fun_row (f : Z -> Z -> Z) (minor : nat) (r e : svec) : svec :=
  let els := merge_el f (sv_el r) (sv_el e) in
  fst (sv_fill (sv_reserve (sv_clear r) (Nat.min minor (length els))) 0 els).

Lemma sm_clear_range_rows m i a b :
  (i < sm_major m)%nat ->
  sm_rows (sm_clear_range m i a b) = upd i (sv_clear_range (sm_row m i) a b) (sm_rows m) /\
  sm_minor (sm_clear_range m i a b) = sm_minor m /\ (gok m -> gok (sm_clear_range m i a b)).
Proof.
  intros L. unfold sm_clear_range. cbn [sm_rows sm_minor]. repeat split.
  unfold gok, sm_reserved. cbn [sm_rows sm_cap]. intros G.
  pose proof (sumcap_upd (sm_rows m) i (sv_clear_range (sm_row m i) a b) (sv_empty (sm_minor m)) L) as U.
  unfold sumcap, sm_row, sv_clear_range in *. cbn [sv_cap] in U. lia.
Qed.

Lemma fun_lines_rows f : forall lines m done todo,
  sm_rows m = done ++ todo -> length todo = length lines ->
  sm_rows (sm_fun_lines f m (length done) lines) = done ++ zipw (fun_row f (sm_minor m)) todo lines /\
  sm_minor (sm_fun_lines f m (length done) lines) = sm_minor m /\
  (gok m -> gok (sm_fun_lines f m (length done) lines)).
Proof.
  induction lines as [|e t IH]; intros m done todo E L; cbn [sm_fun_lines].
  - destruct todo; [|simpl in L; lia]. simpl. auto.
  - destruct todo as [|r todo]; [simpl in L; lia|].
    assert (Li : (length done < sm_major m)%nat).
    { unfold sm_major. rewrite E, app_length. simpl. lia. }
    assert (Rw : sm_row m (length done) = r).
    { unfold sm_row. rewrite E. rewrite nth_app_len. reflexivity. }
    rewrite Rw.
    set (els := merge_el f (sv_el r) (sv_el e)).
    destruct (sm_clear_range_rows m (length done) 0 (sv_nnz r) Li) as (A1 & B1 & G1).
    rewrite Rw, E, upd_app_len in A1.
    set (m1 := sm_clear_range m (length done) 0 (sv_nnz r)) in *.
    assert (Li1 : (length done < sm_major m1)%nat).
    { unfold sm_major. rewrite A1, app_length. simpl. lia. }
    destruct (sm_major_reserve_rows m1 (length done) (length els) false Li1) as (A2 & B2 & G2).
    assert (Rw1 : sm_row m1 (length done) = sv_clear r).
    { unfold sm_row. rewrite A1, nth_app_len. reflexivity. }
    rewrite Rw1, A1, upd_app_len, B1 in A2.
    set (m2 := sm_major_reserve m1 (length done) (length els) false) in *.
    assert (Li2 : (length done < sm_major m2)%nat).
    { unfold sm_major. rewrite A2, app_length. simpl. lia. }
    destruct (sm_fill_rows els m2 (length done) 0%nat Li2) as (A3 & B3 & G3).
    assert (Rw2 : sm_row m2 (length done) = sv_reserve (sv_clear r) (Nat.min (sm_minor m) (length els))).
    { unfold sm_row. rewrite A2, nth_app_len. reflexivity. }
    rewrite Rw2, A2, upd_app_len in A3.
    fold (fun_row f (sm_minor m) r e) in A3.
    set (r1 := fun_row f (sm_minor m) r e) in *.
    assert (E3 : sm_rows (fst (sm_fill m2 (length done) 0 els)) = (done ++ [r1]) ++ todo).
    { rewrite A3, <- app_assoc. reflexivity. }
    specialize (IH _ (done ++ [r1]) todo E3 ltac:(simpl in L; lia)).
    replace (length (done ++ [r1])) with (S (length done)) in IH by (rewrite app_length; simpl; lia).
    destruct IH as (A4 & B4 & G4). rewrite B3, B2, B1 in A4, B4. repeat split.
    + rewrite A4, <- app_assoc. reflexivity.
    + exact B4.
    + intros G0. apply G4, G3, G2, G1, G0.
Qed.

Lemma fun_row_correct f minor r e :
  sv_inv r -> sv_inv e -> sv_size r = minor -> sv_size e = minor ->
  sv_inv (fun_row f minor r e) /\ sv_size (fun_row f minor r e) = minor /\
  sv_el (fun_row f minor r e) = merge_el f (sv_el r) (sv_el e).
Proof.
  intros Ir Ie Sr Se. unfold fun_row.
  set (els := merge_el f (sv_el r) (sv_el e)).
  destruct Ir as [Sor Cr]. destruct Ie as [Soe Ce].
  rewrite Sr in Sor. rewrite Se in Soe.
  destruct (merge_el_sem f minor (sv_el r) (sv_el e) 0%nat Sor Soe) as (SM & _). fold els in SM.
  assert (Ir : sv_inv r) by (split; [rewrite Sr; exact Sor | exact Cr]).
  destruct (clear_correct r Ir) as (CI & CE & CS & CC).
  destruct (reserve_correct (sv_clear r) (Nat.min minor (length els)) CI) as (RI & RE & RS & RC).
  set (c := sv_reserve (sv_clear r) (Nat.min minor (length els))) in *.
  assert (N0 : 0%nat = length (sv_el c)) by (rewrite RE, CE; reflexivity).
  destruct (sv_fill_end_gen els c 0%nat N0) as (A & B & _ & D & _).
  rewrite RE, CE in A. cbn [app] in A.
  pose proof (sorted_in_length _ _ _ SM) as LM.
  split; [|split].
  - split.
    + rewrite A, B, RS, CS, Sr. exact SM.
    + unfold sv_nnz. rewrite A. cbn [Nat.add] in D. apply D; [lia|]. rewrite RS, CS, Sr. lia.
  - rewrite B, RS, CS. exact Sr.
  - exact A.
Qed.

Theorem km_fun_same_correct f m e :
  sm_inv m -> sm_inv e -> sm_major m = sm_major e -> sm_minor m = sm_minor e ->
  let r := km_fun_same f m e in
  sm_inv r /\ sm_major r = sm_major m /\ sm_minor r = sm_minor m /\
  (forall i, (i < sm_major m)%nat -> sv_el (sm_row r i) = merge_el f (sv_el (sm_row m i)) (sv_el (sm_row e i))) /\
  (forall i j, (i < sm_major m)%nat ->
     smstored r i j = smstored m i j || smstored e i j /\
     smden r i j = if smstored m i j || smstored e i j then f (smden m i j) (smden e i j) else 0) /\
  (f 0 0 = 0 -> forall i j, (i < sm_major m)%nat -> smden r i j = f (smden m i j) (smden e i j)).
Proof.
  intros Hm He LM Lm. cbv zeta.
  apply sm_inv_split in Hm. destruct Hm as (Rm & Gm). apply sm_inv_split in He. destruct He as (Re & Ge).
  unfold km_fun_same.
  destruct (fun_lines_rows f (sm_rows e) m [] (sm_rows m) eq_refl LM) as (A & B & G). cbn [length app] in *.
  set (r := sm_fun_lines f m 0 (sm_rows e)) in *.
  assert (ROW : forall i, (i < sm_major m)%nat -> sm_row r i = fun_row f (sm_minor m) (sm_row m i) (sm_row e i)).
  { intros i Hi. unfold sm_row at 1. rewrite A. apply (zipw_nth (fun_row f (sm_minor m)) (sm_rows m) (sm_rows e) i); auto. }
  assert (FACT : forall i, (i < sm_major m)%nat ->
            sv_inv (sm_row r i) /\ sv_size (sm_row r i) = sm_minor m /\
            sv_el (sm_row r i) = merge_el f (sv_el (sm_row m i)) (sv_el (sm_row e i))).
  { intros i Hi. rewrite (ROW i Hi). destruct (Rm _ (sm_row_in m i Hi)) as (I1 & S1).
    destruct (Re _ (sm_row_in e i ltac:(rewrite <- LM; exact Hi))) as (I2 & S2).
    apply fun_row_correct; auto. congruence. }
  assert (SEM : forall i j, (i < sm_major m)%nat ->
            lookup j (sv_el (sm_row r i)) =
            match lookup j (sv_el (sm_row m i)), lookup j (sv_el (sm_row e i)) with
            | Some x, Some y => Some (f x y) | Some x, None => Some (f x 0)
            | None, Some y => Some (f 0 y) | None, None => None end).
  { intros i j Hi. destruct (FACT i Hi) as (_ & _ & EL). rewrite EL.
    destruct (Rm _ (sm_row_in m i Hi)) as ((So1 & _) & S1).
    destruct (Re _ (sm_row_in e i ltac:(rewrite <- LM; exact Hi))) as ((So2 & _) & S2).
    rewrite S1 in So1. rewrite S2, <- Lm in So2.
    apply (merge_el_sem f (sm_minor m) _ _ 0%nat So1 So2). }
  split; [|split; [|split; [|split; [|split]]]].
  - apply sm_inv_split. split; [|apply G; exact Gm].
    intros x Hx. rewrite A in Hx. destruct (in_zipw _ _ _ _ Hx) as (a & b & Ha & Hb & ->).
    destruct (Rm _ Ha) as (I1 & S1). destruct (Re _ Hb) as (I2 & S2).
    destruct (fun_row_correct f (sm_minor m) a b I1 I2 S1 ltac:(congruence)) as (X & Y & _). rewrite B. auto.
  - unfold sm_major. rewrite A. apply zipw_length. exact LM.
  - exact B.
  - intros i Hi. apply (FACT i Hi).
  - intros i j Hi. unfold smstored, smden, stored, sden. rewrite (SEM i j Hi).
    destruct (lookup j (sv_el (sm_row m i))), (lookup j (sv_el (sm_row e i))); split; reflexivity.
  - intros Z0 i j Hi. unfold smden, sden. rewrite (SEM i j Hi).
    destruct (lookup j (sv_el (sm_row m i))), (lookup j (sv_el (sm_row e i))); auto.
Qed.

(* ---------- plain kernel, opposite orientation ---------- *)
Lemma gather_from_sem i hi : forall lines j,
  (j + length lines <= hi)%nat ->
  sorted_in j hi (gather_from lines j i) /\
  forall k, lookup k (gather_from lines j i) =
            if (j <=? k)%nat && (k <? j + length lines)%nat
            then lookup i (sv_el (nth (k - j) lines (sv_empty 0))) else None.
Proof.
  induction lines as [|e t IH]; intros j L; cbn [gather_from length] in *.
  - split; [exact I|]. intros k. destruct (Nat.leb_spec j k), (Nat.ltb_spec k (j + 0)); cbn [andb]; auto; lia.
  - destruct (IH (S j) ltac:(lia)) as (A & B).
    assert (W : sorted_in j hi (gather_from t (S j) i)) by (eapply sorted_in_weaken; [|exact A]; lia).
    assert (LKj : lookup j (gather_from t (S j) i) = None).
    { rewrite B. destruct (Nat.leb_spec (S j) j); [lia|]. reflexivity. }
    assert (REST : forall k, k <> j ->
              lookup k (gather_from t (S j) i) =
              if (j <=? k)%nat && (k <? j + S (length t))%nat
              then lookup i (sv_el (nth (k - j) (e :: t) (sv_empty 0))) else None).
    { intros k N. rewrite B.
      destruct (Nat.leb_spec (S j) k), (Nat.leb_spec j k), (Nat.ltb_spec k (S j + length t)), (Nat.ltb_spec k (j + S (length t)));
        cbn [andb]; auto; try lia.
      replace (k - j)%nat with (S (k - S j)) by lia. reflexivity. }
    destruct (lookup i (sv_el e)) as [x|] eqn:Q.
    + split; [cbn [sorted_in]; repeat split; auto; lia|].
      intros k. cbn [lookup]. destruct (Nat.eqb_spec k j) as [->|N]; [|apply REST; exact N].
      rewrite Nat.leb_refl. destruct (Nat.ltb_spec j (j + S (length t))); [|lia]. cbn [andb].
      rewrite Nat.sub_diag. cbn [nth]. rewrite Q. reflexivity.
    + split; [exact W|].
      intros k. destruct (Nat.eqb_spec k j) as [->|N]; [|apply REST; exact N].
      rewrite LKj, Nat.leb_refl. destruct (Nat.ltb_spec j (j + S (length t))); [|lia]. cbn [andb].
      rewrite Nat.sub_diag. cbn [nth]. rewrite Q. reflexivity.
Qed.

Definition cross_row (minor : nat) (r : svec) (g : list (nat * Z)) : svec :=
  match g with
  | [] => r
  | _ => fst (sv_fill (sv_reserve r (Nat.min minor (length g))) 0 g)
  end.

Fixpoint cross_rows (minor : nat) (e : smat) (i : nat) (todo : list svec) : list svec :=
  match todo with
  | [] => []
  | r :: t => cross_row minor r (gather e i) :: cross_rows minor e (S i) t
  end.

Lemma cross_rows_length minor e : forall todo i, length (cross_rows minor e i todo) = length todo.
Proof. induction todo; intros; simpl; auto. Qed.

Lemma cross_rows_nth minor e d : forall todo i k,
  (k < length todo)%nat -> nth k (cross_rows minor e i todo) d = cross_row minor (nth k todo d) (gather e (i + k)).
Proof.
  induction todo as [|r t IH]; intros i [|k] L; simpl in *; try lia.
  - rewrite Nat.add_0_r. reflexivity.
  - rewrite IH by lia. f_equal. f_equal. lia.
Qed.

Lemma write_groups_rows e : forall n m done todo,
  sm_rows m = done ++ todo -> length todo = n ->
  sm_rows (sm_write_groups m e (length done) n) = done ++ cross_rows (sm_minor m) e (length done) todo /\
  sm_minor (sm_write_groups m e (length done) n) = sm_minor m /\
  (gok m -> gok (sm_write_groups m e (length done) n)).
Proof.
  induction n as [|n IH]; intros m done todo E L; cbn [sm_write_groups].
  - destruct todo; [|simpl in L; lia]. simpl. auto.
  - destruct todo as [|r todo]; [simpl in L; lia|].
    assert (Li : (length done < sm_major m)%nat).
    { unfold sm_major. rewrite E, app_length. simpl. lia. }
    assert (Rw : sm_row m (length done) = r).
    { unfold sm_row. rewrite E. rewrite nth_app_len. reflexivity. }
    set (g := gather e (length done)).
    set (m1 := match g with [] => m | _ => fst (sm_fill (sm_major_reserve m (length done) (length g) false) (length done) 0 g) end).
    assert (STEP : sm_rows m1 = (done ++ [cross_row (sm_minor m) r g]) ++ todo /\ sm_minor m1 = sm_minor m /\ (gok m -> gok m1)).
    { unfold m1, cross_row. destruct g as [|g0 g'] eqn:Eg.
      - rewrite E, <- app_assoc. auto.
      - rewrite <- Eg.
        destruct (sm_major_reserve_rows m (length done) (length g) false Li) as (A2 & B2 & G2).
        rewrite Rw, E, upd_app_len in A2.
        set (m2 := sm_major_reserve m (length done) (length g) false) in *.
        assert (Li2 : (length done < sm_major m2)%nat).
        { unfold sm_major. rewrite A2, app_length. simpl. lia. }
        destruct (sm_fill_rows g m2 (length done) 0%nat Li2) as (A3 & B3 & G3).
        assert (Rw2 : sm_row m2 (length done) = sv_reserve r (Nat.min (sm_minor m) (length g))).
        { unfold sm_row. rewrite A2, nth_app_len. reflexivity. }
        rewrite Rw2, A2, upd_app_len in A3. repeat split.
        + rewrite A3, <- app_assoc. reflexivity.
        + rewrite B3. exact B2.
        + intros G0. apply G3, G2, G0. }
    destruct STEP as (A & B & G).
    specialize (IH m1 (done ++ [cross_row (sm_minor m) r g]) todo A ltac:(simpl in L; lia)).
    replace (length (done ++ [cross_row (sm_minor m) r g])) with (S (length done)) in IH by (rewrite app_length; simpl; lia).
    destruct IH as (A4 & B4 & G4). rewrite B in A4, B4. repeat split.
    + rewrite A4, <- app_assoc. reflexivity.
    + exact B4.
    + intros G0. apply G4, G, G0.
Qed.

Lemma cross_row_correct minor r g :
  sv_inv r -> sv_el r = [] -> sv_size r = minor -> sorted_in 0 minor g ->
  sv_inv (cross_row minor r g) /\ sv_size (cross_row minor r g) = minor /\ sv_el (cross_row minor r g) = g.
Proof.
  intros Ir Er Sr Sg. unfold cross_row. destruct g as [|g0 g'] eqn:Eg; [auto|]. rewrite <- Eg in *. clear Eg g0 g'.
  destruct (reserve_correct r (Nat.min minor (length g)) Ir) as (RI & RE & RS & RC).
  set (c := sv_reserve r (Nat.min minor (length g))) in *.
  assert (N0 : 0%nat = length (sv_el c)) by (rewrite RE, Er; reflexivity).
  destruct (sv_fill_end_gen g c 0%nat N0) as (A & B & _ & D & _).
  rewrite RE, Er in A. cbn [app] in A.
  pose proof (sorted_in_length _ _ _ Sg) as LM.
  split; [|split].
  - split.
    + rewrite A, B, RS, Sr. exact Sg.
    + unfold sv_nnz. rewrite A. cbn [Nat.add] in D. apply D; [lia|]. rewrite RS, Sr. lia.
  - rewrite B, RS. exact Sr.
  - exact A.
Qed.

Theorem km_assign_cross_correct m e :
  sm_inv m -> sm_inv e -> sm_major e = sm_minor m -> sm_minor e = sm_major m ->
  let r := km_assign_cross m e in
  sm_inv r /\ sm_major r = sm_major m /\ sm_minor r = sm_minor m /\
  (forall i j, (i < sm_major m)%nat -> smstored r i j = smstored e j i /\ smden r i j = smden e j i).
Proof.
  intros Hm He L1 L2. cbv zeta. unfold km_assign_cross.
  destruct (sm_clear_correct m Hm) as (Hc & Mc & Nc & _).
  destruct (sm_clear_facts m) as (CA & CB & CC & CD).
  apply sm_inv_split in Hm. destruct Hm as (Rm & Gm). apply sm_inv_split in He. destruct He as (Re & Ge).
  apply sm_inv_split in Hc. destruct Hc as (Rc & Gc).
  destruct (write_groups_rows e (sm_major m) (sm_clear m) [] (sm_rows (sm_clear m)) eq_refl) as (A & B & G).
  { exact Mc. }
  cbn [length app] in *.
  set (r := sm_write_groups (sm_clear m) e 0 (sm_major m)) in *.
  assert (GS : forall i, sorted_in 0 (sm_minor m) (gather e i) /\
                         forall k, lookup k (gather e i) = lookup i (sv_el (sm_row e k))).
  { intros i. unfold gather. destruct (gather_from_sem i (sm_minor m) (sm_rows e) 0%nat ltac:(unfold sm_major in L1; lia)) as (X & Y).
    split; [exact X|]. intros k. rewrite Y. cbn [Nat.leb andb]. rewrite Nat.sub_0_r, Nat.add_0_l.
    unfold sm_row. destruct (Nat.ltb_spec k (length (sm_rows e))).
    - f_equal. f_equal. apply nth_indep. exact H.
    - rewrite (nth_overflow (sm_rows e)) by exact H. reflexivity. }
  assert (ROW : forall i, (i < sm_major m)%nat ->
            sv_inv (sm_row r i) /\ sv_size (sm_row r i) = sm_minor m /\ sv_el (sm_row r i) = gather e i).
  { intros i Hi. unfold sm_row at 1 2 3. rewrite A, B, CB.
    rewrite (cross_rows_nth (sm_minor m) e _ (sm_rows (sm_clear m)) 0 i) by (fold (sm_major (sm_clear m)); rewrite Mc; exact Hi).
    cbn [Nat.add].
    assert (IN : In (nth i (sm_rows (sm_clear m)) (sv_empty (sm_minor m))) (sm_rows (sm_clear m))).
    { apply nth_In. fold (sm_major (sm_clear m)). rewrite Mc. exact Hi. }
    destruct (Rc _ IN) as (I1 & S1). rewrite CB in S1.
    apply cross_row_correct; auto; [|apply GS].
    rewrite CA. rewrite CA in IN. apply in_map_iff in IN. destruct IN as (r0 & Q & _).
    rewrite (nth_indep _ _ (sv_clear (sv_empty (sm_minor m)))) by (rewrite map_length; exact Hi).
    rewrite map_nth. unfold sv_clear, sv_clear_range, sv_nnz. cbn [sv_el]. rewrite skipn_all. reflexivity. }
  split; [|split; [|split]].
  - apply sm_inv_split. split; [|apply G; exact Gc].
    intros x Hx. destruct (In_nth _ _ (sv_empty (sm_minor r)) Hx) as (k & Lk & Ek).
    assert (Lk' : (k < sm_major m)%nat).
    { rewrite A, cross_rows_length in Lk. fold (sm_major (sm_clear m)) in Lk. rewrite Mc in Lk. exact Lk. }
    destruct (ROW k Lk') as (X & Y & _). unfold sm_row in X, Y. rewrite Ek in X, Y. rewrite B, CB. auto.
  - unfold sm_major at 1. rewrite A, cross_rows_length. exact Mc.
  - rewrite B. exact CB.
  - intros i j Hi. destruct (ROW i Hi) as (_ & _ & EL). destruct (GS i) as (_ & LK).
    unfold smstored, smden, stored, sden. rewrite EL, LK. split; reflexivity.
Qed.

Lemma sm_empty_inv major minor : sm_inv (sm_empty major minor) /\ sm_major (sm_empty major minor) = major /\ sm_minor (sm_empty major minor) = minor.
Proof.
  unfold sm_empty, sm_inv, sm_major, sm_reserved. cbn [sm_rows sm_minor sm_cap]. split; [split|split].
  - intros r H. apply repeat_spec in H. subst r. split; [|reflexivity]. unfold sv_inv, sv_empty, sv_nnz. cbn. auto.
  - induction major; simpl; auto.
  - apply repeat_length.
  - reflexivity.
Qed.

Theorem km_fun_cross_correct f m e :
  sm_inv m -> sm_inv e -> sm_major e = sm_minor m -> sm_minor e = sm_major m ->
  let r := km_fun_cross f m e in
  sm_inv r /\ sm_major r = sm_major m /\ sm_minor r = sm_minor m /\
  (forall i j, (i < sm_major m)%nat ->
     smstored r i j = smstored m i j || smstored e j i /\
     smden r i j = if smstored m i j || smstored e j i then f (smden m i j) (smden e j i) else 0) /\
  (f 0 0 = 0 -> forall i j, (i < sm_major m)%nat -> smden r i j = f (smden m i j) (smden e j i)).
Proof.
  intros Hm He L1 L2. cbv zeta. unfold km_fun_cross.
  destruct (sm_empty_inv (sm_major m) (sm_minor m)) as (Ie & Me & Ne).
  set (z := sm_empty (sm_major m) (sm_minor m)) in *.
  destruct (km_assign_cross_correct z e Ie He ltac:(congruence) ltac:(congruence)) as (It & Mt & Nt & Dt).
  cbv zeta in *. set (t := km_assign_cross z e) in *.
  destruct (km_fun_same_correct f m t Hm It ltac:(congruence) ltac:(congruence)) as (Ir & Mr & Nr & _ & Dr & Zr).
  cbv zeta in *. split; [exact Ir|]. split; [exact Mr|]. split; [exact Nr|]. split.
  - intros i j Hi. destruct (Dr i j Hi) as (X & Y). destruct (Dt i j ltac:(rewrite Me; exact Hi)) as (P & Q).
    rewrite X, Y, P, Q. split; reflexivity.
  - intros Z0 i j Hi. rewrite (Zr Z0 i j Hi). destruct (Dt i j ltac:(rewrite Me; exact Hi)) as (_ & Q). rewrite Q. reflexivity.
Qed.

(* ---------- dense targets ---------- *)
Definition dshape (d : dmat) (R C : nat) : Prop := length d = R /\ forall row, In row d -> length row = C.

Lemma zip_lines_sem (k : dvec -> svec -> dvec) : forall d lines,
  length d = length lines ->
  length (zip_lines k d lines) = length d /\
  forall i, (i < length d)%nat -> nth i (zip_lines k d lines) [] = k (nth i d []) (nth i lines (sv_empty 0)).
Proof.
  induction d as [|r d IH]; intros [|e t] L; simpl in *; try lia.
  - split; auto. intros; lia.
  - destruct (IH t ltac:(lia)) as (A & B). split; [lia|]. intros [|i] Hi; auto. apply B. lia.
Qed.

Lemma sm_row_nth e i d0 : (i < sm_major e)%nat -> nth i (sm_rows e) d0 = sm_row e i.
Proof. intros L. unfold sm_row. apply nth_indep. exact L. Qed.

Theorem km_ds_same_correct (f : Z -> Z -> Z) (rzi : bool) d e :
  sm_inv e -> dshape d (sm_major e) (sm_minor e) -> (rzi = true -> forall x, f x 0 = x) ->
  (dshape (km_assign_ds_same d e) (sm_major e) (sm_minor e) /\
   forall i j, (i < sm_major e)%nat -> dmden (km_assign_ds_same d e) i j = smden e i j) /\
  (dshape (km_fun_ds_same f rzi d e) (sm_major e) (sm_minor e) /\
   forall i j, (i < sm_major e)%nat -> (j < sm_minor e)%nat ->
               dmden (km_fun_ds_same f rzi d e) i j = f (dmden d i j) (smden e i j)).
Proof.
  intros He (DL & DR) RZ. apply sm_inv_split in He. destruct He as (Re & _).
  assert (ROWS : forall i, (i < sm_major e)%nat ->
            sv_inv (sm_row e i) /\ length (nth i d []) = sv_size (sm_row e i) /\ sv_size (sm_row e i) = sm_minor e).
  { intros i Hi. destruct (Re _ (sm_row_in e i Hi)) as (I & S). split; [exact I|]. split; [|exact S].
    rewrite S. apply DR. apply nth_In. lia. }
  unfold km_assign_ds_same, km_fun_ds_same. split.
  - destruct (zip_lines_sem k_assign_ds d (sm_rows e) DL) as (A & B). split.
    + split; [lia|]. intros row Hrow. destruct (In_nth _ _ [] Hrow) as (i & Li & <-).
      rewrite A in Li. rewrite (B i Li), sm_row_nth by lia. destruct (ROWS i ltac:(lia)) as (I & LN & S).
      destruct (assign_ds_correct _ _ I LN) as (X & _). rewrite X. lia.
    + intros i j Hi. unfold dmden, smden. rewrite (B i ltac:(lia)), sm_row_nth by lia.
      destruct (ROWS i Hi) as (I & LN & S). destruct (assign_ds_correct _ _ I LN) as (_ & Y). apply Y.
  - destruct (zip_lines_sem (k_fun_ds f rzi) d (sm_rows e) DL) as (A & B). split.
    + split; [lia|]. intros row Hrow. destruct (In_nth _ _ [] Hrow) as (i & Li & <-).
      rewrite A in Li. rewrite (B i Li), sm_row_nth by lia. destruct (ROWS i ltac:(lia)) as (I & LN & S).
      destruct (fun_ds_correct f rzi _ _ I LN RZ) as (X & _). rewrite X. lia.
    + intros i j Hi Hj. unfold dmden, smden. rewrite (B i ltac:(lia)), sm_row_nth by lia.
      destruct (ROWS i Hi) as (I & LN & S). destruct (fun_ds_correct f rzi _ _ I LN RZ) as (_ & Y).
      apply Y. lia.
Qed.

(* columns of a dense matrix *)
Lemma d_col_nth d j i : nth i (d_col d j) 0 = dmden d i j.
Proof.
  unfold d_col, dmden. destruct (Nat.ltb_spec i (length d)).
  - rewrite (nth_indep _ 0 (nth j [] 0)) by (rewrite map_length; exact H). rewrite (map_nth (fun r => nth j r 0)). reflexivity.
  - rewrite nth_overflow by (rewrite map_length; exact H). rewrite (nth_overflow d) by exact H. destruct j; reflexivity.
Qed.

Lemma d_set_col_sem : forall d j c R C,
  dshape d R C -> length c = R -> (j < C)%nat ->
  dshape (d_set_col d j c) R C /\
  forall i j', (i < R)%nat -> dmden (d_set_col d j c) i j' = if (j' =? j)%nat then nth i c 0 else dmden d i j'.
Proof.
  induction d as [|r d IH]; intros j c R C (DL & DR) LC LJ.
  - simpl in *. subst R. split; [split; auto|]. intros; lia.
  - destruct c as [|x c]; [simpl in *; lia|]. simpl in DL. cbn [d_set_col].
    destruct (IH j c (length d) C) as ((A1 & A2) & B).
    { split; auto. intros row H. apply DR. simpl. auto. }
    { simpl in *. lia. } { exact LJ. }
    split.
    + split; [simpl; lia|]. intros row [<-|H]; [rewrite upd_length; apply DR; simpl; auto | apply A2; exact H].
    + intros [|i] j' Hi.
      * unfold dmden. cbn [nth]. rewrite nth_upd. destruct (Nat.eqb_spec j j') as [->|N].
        -- rewrite Nat.eqb_refl. replace (j' <? length r)%nat with true; [reflexivity|].
           symmetry. apply Nat.ltb_lt. rewrite (DR r) by (simpl; auto). exact LJ.
        -- cbn [andb]. destruct (Nat.eqb_spec j' j); [congruence|reflexivity].
      * specialize (B i j' ltac:(lia)). unfold dmden in *. cbn [nth]. exact B.
Qed.

Lemma d_col_length d j : length (d_col d j) = length d.
Proof. apply map_length. Qed.

Lemma d_col_ext d d' j R : length d = R -> length d' = R ->
  (forall i, (i < R)%nat -> dmden d' i j = dmden d i j) -> d_col d' j = d_col d j.
Proof.
  intros L L' H. apply (nth_ext _ _ 0 0).
  - rewrite !d_col_length. lia.
  - intros i Hi. rewrite d_col_length in Hi. rewrite !d_col_nth. apply H. lia.
Qed.

Lemma cross_lines_sem (k : dvec -> svec -> dvec) R C :
  (forall dv e, length (k dv e) = length dv) ->
  forall lines d j0,
  dshape d R C -> (j0 + length lines <= C)%nat ->
  dshape (cross_lines k d j0 lines) R C /\
  forall i j, (i < R)%nat ->
    dmden (cross_lines k d j0 lines) i j =
    if (j0 <=? j)%nat && (j <? j0 + length lines)%nat
    then nth i (k (d_col d j) (nth (j - j0) lines (sv_empty 0))) 0 else dmden d i j.
Proof.
  intros KL. induction lines as [|e t IH]; intros d j0 DS L; cbn [cross_lines length] in *.
  - split; auto. intros i j Hi. destruct (Nat.leb_spec j0 j), (Nat.ltb_spec j (j0 + 0)); cbn [andb]; auto; lia.
  - destruct DS as (DL & DR).
    destruct (d_set_col_sem d j0 (k (d_col d j0) e) R C (conj DL DR)) as (DS1 & B1).
    { rewrite KL, d_col_length. exact DL. } { lia. }
    set (d1 := d_set_col d j0 (k (d_col d j0) e)) in *.
    destruct (IH d1 (S j0) DS1 ltac:(lia)) as (DS2 & B2). split; [exact DS2|].
    intros i j Hi. rewrite (B2 i j Hi).
    destruct (Nat.eqb_spec j j0) as [->|N].
    + destruct (Nat.leb_spec (S j0) j0); [lia|]. cbn [andb]. rewrite (B1 i j0 Hi), Nat.eqb_refl.
      rewrite Nat.leb_refl. destruct (Nat.ltb_spec j0 (j0 + S (length t))); [|lia]. cbn [andb].
      rewrite Nat.sub_diag. reflexivity.
    + assert (COL : d_col d1 j = d_col d j).
      { apply (d_col_ext d d1 j R); auto; [apply DS1|]. intros i' Hi'. rewrite (B1 i' j Hi').
        destruct (Nat.eqb_spec j j0); [contradiction|reflexivity]. }
      rewrite COL, (B1 i j Hi). destruct (Nat.eqb_spec j j0); [contradiction|].
      destruct (Nat.leb_spec (S j0) j), (Nat.leb_spec j0 j), (Nat.ltb_spec j (S j0 + length t)), (Nat.ltb_spec j (j0 + S (length t)));
        cbn [andb]; auto; try lia.
      replace (j - j0)%nat with (S (j - S j0)) by lia. reflexivity.
Qed.

(* the target has the opposite orientation: its major lines are indexed by the source's MINOR index *)
Theorem km_ds_cross_correct (f : Z -> Z -> Z) (rzi : bool) d e :
  sm_inv e -> dshape d (sm_minor e) (sm_major e) -> (rzi = true -> forall x, f x 0 = x) ->
  (dshape (km_assign_ds_cross d e) (sm_minor e) (sm_major e) /\
   forall i j, (i < sm_minor e)%nat -> (j < sm_major e)%nat -> dmden (km_assign_ds_cross d e) i j = smden e j i) /\
  (dshape (km_fun_ds_cross f rzi d e) (sm_minor e) (sm_major e) /\
   forall i j, (i < sm_minor e)%nat -> (j < sm_major e)%nat ->
               dmden (km_fun_ds_cross f rzi d e) i j = f (dmden d i j) (smden e j i)).
Proof.
  intros He DS RZ. pose proof DS as (DL & DR). apply sm_inv_split in He. destruct He as (Re & _).
  assert (ROWS : forall j, (j < sm_major e)%nat ->
            sv_inv (sm_row e j) /\ length (d_col d j) = sv_size (sm_row e j)).
  { intros j Hj. destruct (Re _ (sm_row_in e j Hj)) as (I & S). split; auto. rewrite d_col_length, S. exact DL. }
  unfold km_assign_ds_cross, km_fun_ds_cross. split.
  - destruct (cross_lines_sem k_assign_ds (sm_minor e) (sm_major e)) with (lines := sm_rows e) (d := d) (j0 := 0%nat) as (A & B); auto.
    { intros dv e0. unfold k_assign_ds. rewrite fold_upd_length. apply repeat_length. }
    split; [exact A|]. intros i j Hi Hj. rewrite (B i j Hi). cbn [Nat.leb andb Nat.add].
    destruct (Nat.ltb_spec j (length (sm_rows e))); [|unfold sm_major in Hj; lia].
    rewrite Nat.sub_0_r, sm_row_nth by exact Hj. destruct (ROWS j Hj) as (I & LN).
    destruct (assign_ds_correct _ _ I LN) as (_ & Y). apply Y.
  - destruct (cross_lines_sem (k_fun_ds f rzi) (sm_minor e) (sm_major e)) with (lines := sm_rows e) (d := d) (j0 := 0%nat) as (A & B); auto.
    { intros dv e0. unfold k_fun_ds. destruct (fun_ds_loop f rzi dv 0 (sv_el e0)) as [d1 pos] eqn:Q.
      assert (L1 : length d1 = length dv).
      { clear - Q. revert dv d1 pos Q. generalize 0%nat. induction (sv_el e0) as [|[j y] s IH]; intros p dv d1 pos Q; cbn [fun_ds_loop] in Q.
        - inversion Q. reflexivity.
        - apply IH in Q. rewrite Q, upd_length. destruct rzi; auto. apply d_apply_n_length. }
      destruct rzi; auto. rewrite d_apply_n_length. exact L1. }
    split; [exact A|]. intros i j Hi Hj. rewrite (B i j Hi). cbn [Nat.leb andb Nat.add].
    destruct (Nat.ltb_spec j (length (sm_rows e))); [|unfold sm_major in Hj; lia].
    rewrite Nat.sub_0_r, sm_row_nth by exact Hj. destruct (ROWS j Hj) as (I & LN).
    destruct (fun_ds_correct f rzi _ _ I LN RZ) as (_ & Y).
    specialize (Y i ltac:(rewrite d_col_length; lia)). unfold dden in Y. rewrite Y, d_col_nth. reflexivity.
Qed.

(* the executable invariant check of the model agrees with the invariant *)
Lemma sm_invb_spec_ex m : sm_invb m = true -> sm_inv m.
Proof.
  unfold sm_invb, sm_inv. rewrite andb_true_iff, forallb_forall, Nat.leb_le. intros (A & B). split; [|exact B].
  intros r Hr. specialize (A r Hr). rewrite andb_true_iff, Nat.eqb_eq in A. destruct A as (A1 & A2).
  split; [apply sv_invb_spec; exact A1 | exact A2].
Qed.
