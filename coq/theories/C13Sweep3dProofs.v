(* C13 — the 3-D sweep (model C13Sweep3d.v of HypervolumeCalculator3D.h) equals hv_spec in dimension 3
   for every point set below the reference point (ties, duplicates, dominated points, points on the
   reference boundary included) and for every order the sort may leave equal third objectives in.
   Axiom-free (lists, Z).

   Structure:  hv_spec [r0;r1;r2] S = sum over the unit levels z of the third objective of the 2-D
   area dominated by the projections of the points with third objective <= z  (H3);
   loop invariant of the sweep: the map is a staircase (keys strictly increasing, values strictly
   decreasing) that covers exactly the cells the processed projections cover, [area] is its area
   (closed form G: vertical strips), volume + area * (z - prev_x2) is the sum up to level z. *)
From Coq Require Import List ZArith Lia Bool Arith Sorted.
From SharkV Require Import ListAux C13Model C13Proofs C13WfgProofs C13Sweep3d.
Import ListNotations.
Local Open Scope Z_scope.

(* ---------------------------------------------------------------------------------------- *)
(* 1. the spec as a sum of 2-D areas over the levels of the third objective *)
Definition pairs_upto (z : Z) (T : list triple) : list (Z * Z) :=
  map pair_of (filter (fun p => third p <=? z) T).
Definition H3 (lo r0 r1 r2 : Z) (T : list triple) : Z :=
  zsum lo r2 (fun z => area_below lo r0 (pairs_upto z T) r1).
Definition len3 (S : list point) : Prop := Forall (fun p => length p = 3%nat) S.

Lemma pairs_upto_cons z a b c T :
  pairs_upto z ((a, b, c) :: T) = if c <=? z then (a, b) :: pairs_upto z T else pairs_upto z T.
Proof. unfold pairs_upto. cbn [filter third snd]. destruct (c <=? z); reflexivity. Qed.

Lemma slice3_nil_iff z w v S : len3 S ->
  (slice v (slice w (slice z (map (@rev Z) S))) = [] <-> cov (pairs_upto z (map to_triple S)) v w = false).
Proof.
  induction 1 as [|p S Hp HS IH]; [cbn; tauto|].
  destruct p as [|a [|b [|c [|? ?]]]]; try discriminate.
  cbn [map to_triple]. change (rev [a; b; c]) with [c; b; a]. rewrite pairs_upto_cons.
  destruct (Z.leb_spec c z); [|rewrite slice_cons_out by lia; exact IH].
  rewrite slice_cons_in by lia. unfold cov. cbn [existsb fst snd]. fold (cov (pairs_upto z (map to_triple S)) v w).
  destruct (Z.leb_spec b w); [|rewrite slice_cons_out, andb_false_r by lia; exact IH].
  rewrite slice_cons_in by lia.
  destruct (Z.leb_spec a v); [|rewrite slice_cons_out by lia; exact IH].
  rewrite slice_cons_in by lia. cbn. split; discriminate.
Qed.

Lemma hv_box_3d lo r0 r1 r2 S : len3 S ->
  hv_box lo [r2; r1; r0] (map (@rev Z) S) = H3 lo r0 r1 r2 (map to_triple S).
Proof.
  intros H. unfold H3, area_below, width. cbn [hv_box]. apply zsum_ext. intros z _.
  apply zsum_ext. intros w _. apply zsum_ext. intros v _.
  pose proof (slice3_nil_iff z w v S H) as E.
  destruct (slice v (slice w (slice z (map (@rev Z) S)))) as [|t l];
    destruct (cov (pairs_upto z (map to_triple S)) v w); auto.
  - destruct E as [E _]. specialize (E eq_refl). discriminate.
  - destruct E as [_ E]. specialize (E eq_refl). discriminate.
Qed.

Lemma cov_true_iff L v w : cov L v w = true <-> exists p, In p L /\ fst p <= v /\ snd p <= w.
Proof.
  unfold cov. rewrite existsb_exists. split; intros [p [Hin H]]; exists p; split; auto.
  - apply andb_prop in H. destruct H as [H1 H2]. apply Z.leb_le in H1, H2. auto.
  - destruct H as [H1 H2]. apply Z.leb_le in H1, H2. now rewrite H1, H2.
Qed.

Lemma cov_app A B v w : cov (A ++ B) v w = cov A v w || cov B v w.
Proof. apply existsb_app. Qed.

Lemma In_pairs_upto z T p : In p (pairs_upto z T) <-> exists c, In (p, c) T /\ c <= z.
Proof.
  unfold pairs_upto. rewrite in_map_iff. split.
  - intros [[q c] [E Hin]]. cbn in E. subst q. apply filter_In in Hin. destruct Hin as [Hin Hc].
    cbn in Hc. apply Z.leb_le in Hc. eauto.
  - intros [c [Hin Hc]]. exists (p, c). split; auto. apply filter_In. split; auto. cbn. now apply Z.leb_le.
Qed.

Lemma area_below_cov_ext lo r0 L L' m :
  (forall v w, lo <= v < r0 -> lo <= w < m -> cov L v w = cov L' v w) ->
  area_below lo r0 L m = area_below lo r0 L' m.
Proof.
  intros H. unfold area_below, width. apply zsum_ext. intros w Hw. apply zsum_ext. intros v Hv.
  now rewrite H.
Qed.

Lemma area_below_nil lo r0 m : area_below lo r0 [] m = 0.
Proof. unfold area_below, width. apply zsum_zero. intros. apply zsum_zero. auto. Qed.

Lemma H3_set_ext lo r0 r1 r2 T T' : (forall t, In t T <-> In t T') -> H3 lo r0 r1 r2 T = H3 lo r0 r1 r2 T'.
Proof.
  intros H. unfold H3. apply zsum_ext. intros z _. apply area_below_set_ext.
  intros p. rewrite !In_pairs_upto. split; intros [c [Hin Hc]]; exists c; split; auto; apply H; auto.
Qed.

(* points that are not strictly below the reference point do not dominate any cell *)
Lemma H3_filter_strict lo r0 r1 r2 T :
  H3 lo r0 r1 r2 (filter (strict3 r0 r1 r2) T) = H3 lo r0 r1 r2 T.
Proof.
  unfold H3. apply zsum_ext. intros z Hz. apply area_below_cov_ext. intros v w Hv Hw.
  apply eq_true_iff_eq. rewrite !cov_true_iff. split.
  - intros [p [Hin Hp]]. exists p. split; auto. apply In_pairs_upto in Hin. apply In_pairs_upto.
    destruct Hin as [c [Hin Hc]]. apply filter_In in Hin. exists c. tauto.
  - intros [p [Hin Hp]]. exists p. split; auto. apply In_pairs_upto in Hin. apply In_pairs_upto.
    destruct Hin as [c [Hin Hc]]. exists c. split; auto. apply filter_In. split; auto.
    destruct p as [x y]. cbn [strict3 fst snd] in *.
    apply andb_true_intro; split; [apply andb_true_intro; split|]; apply Z.ltb_lt; lia.
Qed.

Lemma pairs_upto_app z A B : pairs_upto z (A ++ B) = pairs_upto z A ++ pairs_upto z B.
Proof. unfold pairs_upto. now rewrite filter_app, map_app. Qed.

Lemma pairs_upto_all z T : (forall t, In t T -> third t <= z) -> pairs_upto z T = map pair_of T.
Proof.
  intros H. unfold pairs_upto. f_equal. induction T as [|t T IH]; [reflexivity|]. cbn [filter].
  rewrite (proj2 (Z.leb_le _ _) (H t (or_introl eq_refl))). f_equal. apply IH. intros; apply H; now right.
Qed.

Lemma pairs_upto_none z T : (forall t, In t T -> z < third t) -> pairs_upto z T = [].
Proof.
  intros H. unfold pairs_upto. induction T as [|t T IH]; [reflexivity|]. cbn [filter].
  destruct (Z.leb_spec (third t) z); [pose proof (H t (or_introl eq_refl)); lia|].
  apply IH. intros; apply H; now right.
Qed.

(* ---------------------------------------------------------------------------------------- *)
(* 2. staircases and the closed form of their area (vertical strips, as the code accumulates it) *)
Definition stairR (a b : Z * Z) : Prop := fst a < fst b /\ snd b < snd a.
Definition stair (F : front2) : Prop := StronglySorted stairR F.

Lemma stair_app A B : stair (A ++ B) <->
  stair A /\ stair B /\ forall a b, In a A -> In b B -> stairR a b.
Proof.
  unfold stair. induction A as [|x A IH]; cbn [app].
  - split; [intros H; split; [constructor|split; auto; intros a b []]|tauto].
  - split.
    + intros H. apply StronglySorted_inv in H. destruct H as [H1 H2]. apply IH in H1.
      destruct H1 as [HA [HB HX]]. rewrite Forall_forall in H2. split; [|split; auto].
      * constructor; auto. apply Forall_forall. intros y Hy. apply H2. apply in_or_app; auto.
      * intros a b [<-|Ha] Hb; [apply H2; apply in_or_app; auto|auto].
    + intros [HA [HB HX]]. apply StronglySorted_inv in HA. destruct HA as [HA1 HA2].
      rewrite Forall_forall in HA2. constructor.
      * apply IH. split; auto. split; auto. intros a b Ha Hb. apply HX; auto. now right.
      * apply Forall_forall. intros y Hy. apply in_app_or in Hy. destruct Hy; auto. apply HX; auto. now left.
Qed.

Lemma stair_cons e F : stair (e :: F) <-> stair F /\ forall b, In b F -> stairR e b.
Proof.
  unfold stair. split.
  - intros H. apply StronglySorted_inv in H. rewrite Forall_forall in H. exact H.
  - intros [H1 H2]. constructor; auto. now apply Forall_forall.
Qed.

Fixpoint G (r0 t : Z) (F : front2) : Z :=
  match F with
  | [] => 0
  | e :: F' => (next_key r0 F' - fst e) * (t - snd e) + G r0 t F'
  end.

Lemma G_shift r0 t t' F : G r0 t F = G r0 t' F + (t - t') * (r0 - next_key r0 F).
Proof.
  induction F as [|e F IH]; cbn [G next_key]; [ring|]. rewrite IH. ring.
Qed.

Lemma next_key_app r0 A B : next_key r0 (A ++ B) = next_key (next_key r0 B) A.
Proof. destruct A; reflexivity. Qed.

Lemma G_app r0 t A B : G r0 t (A ++ B) = G (next_key r0 B) t A + G r0 t B.
Proof.
  induction A as [|e A IH]; cbn [app G]; [ring|]. rewrite IH, next_key_app. ring.
Qed.

Fixpoint lasty (d : Z) (l : front2) : Z := match l with [] => d | e :: l' => lasty (snd e) l' end.

Lemma G_key_diff k k' t l : G k t l - G k' t l = (k - k') * (t - lasty t l).
Proof.
  induction l as [|e l IH]; cbn [G lasty]; [ring|].
  destruct l as [|e2 l]; cbn [next_key lasty G] in *; [ring|]. lia.
Qed.

Lemma lasty_cases l : forall d, (l = [] /\ lasty d l = d) \/ exists l0 e, l = l0 ++ [e] /\ lasty d l = snd e.
Proof.
  induction l as [|a l IH]; intros d; [left; auto|right]. cbn [lasty].
  destruct (IH (snd a)) as [[-> E]|[l0 [e [-> E]]]].
  - exists [], a. auto.
  - exists (a :: l0), e. auto.
Qed.

Lemma G_area lo r0 : forall F t, stair F ->
  (forall e, In e F -> lo <= fst e <= r0 /\ lo <= snd e <= t) ->
  area_below lo r0 F t = G r0 t F.
Proof.
  induction F as [|[x y] F IH]; intros t HS HB; [apply area_below_nil|].
  apply stair_cons in HS. destruct HS as [HS HR].
  destruct (HB (x, y) (or_introl eq_refl)) as [Hx Hy]. cbn [fst snd] in Hx, Hy.
  rewrite area_cons_le; auto.
  2:{ intros q Hq. destruct (HR q Hq) as [H1 _]. cbn in H1. lia. }
  rewrite (IH y HS).
  2:{ intros e He. destruct (HB e (or_intror He)) as [H1 H2]. destruct (HR e He) as [_ H3]. cbn in H3. lia. }
  cbn [G fst snd]. rewrite (G_shift r0 t y F). ring.
Qed.

(* ---------------------------------------------------------------------------------------- *)
(* 3. the map operations *)
Lemma split_lb_spec x : forall F prev l tl r, split_lb x prev F = (l, tl, r) ->
  F = l ++ r /\ tl = lasty prev l /\ (forall e, In e l -> fst e < x) /\
  match r with e :: _ => x <= fst e | [] => True end.
Proof.
  induction F as [|e F IH]; intros prev l tl r H; cbn [split_lb] in H.
  - injection H as <- <- <-. cbn. tauto.
  - destruct (Z.ltb_spec (fst e) x) as [Hlt|Hge].
    + destruct (split_lb x (snd e) F) as [[l' t'] r'] eqn:E. injection H as <- <- <-.
      destruct (IH _ _ _ _ E) as [-> [-> [Hl Hr]]]. cbn [app lasty]. split; auto. split; auto. split; auto.
      intros a [<-|Ha]; auto.
    + injection H as <- <- <-. cbn. split; auto. split; auto. split; [tauto|auto].
Qed.

Lemma remove_dom_spec r0 t x1 : forall rgt area a' rgt', remove_dom r0 t x1 rgt area = (a', rgt') ->
  exists rem, rgt = rem ++ rgt' /\ a' = area - G (next_key r0 rgt') t rem /\
    (forall e, In e rem -> x1 <= snd e) /\ match rgt' with e :: _ => snd e < x1 | [] => True end.
Proof.
  induction rgt as [|e rgt IH]; intros area a' rgt' H; cbn [remove_dom] in H.
  - injection H as <- <-. exists []. cbn. split; auto. split; [ring|]. split; [tauto|auto].
  - destruct (Z.leb_spec x1 (snd e)) as [Hle|Hgt].
    + destruct (IH _ _ _ H) as [rem [-> [-> [Hrem Hhd]]]]. exists (e :: rem). cbn [app G].
      split; auto. split; [rewrite next_key_app; ring|]. split; auto. intros a [<-|Ha]; auto.
    + injection H as <- <-. exists []. cbn. split; auto. split; [ring|]. split; [tauto|auto].
Qed.

Lemma map_set_spec x y : forall lft rgt, (forall e, In e lft -> fst e < x) ->
  match rgt with e :: _ => x < fst e | [] => True end ->
  map_set x y (lft ++ rgt) = lft ++ (x, y) :: rgt.
Proof.
  induction lft as [|e lft IH]; intros rgt Hl Hr; cbn [app map_set].
  - destruct rgt as [|e rgt]; [reflexivity|]. cbn [map_set].
    destruct (Z.ltb_spec (fst e) x); [lia|]. destruct (Z.eqb_spec (fst e) x); [lia|reflexivity].
  - destruct (Z.ltb_spec (fst e) x) as [_|Hge]; [|pose proof (Hl e (or_introl eq_refl)); lia].
    f_equal. apply IH; auto. intros a Ha. apply Hl. now right.
Qed.

(* ---------------------------------------------------------------------------------------- *)
(* 4. one step of the sweep *)
Definition inbox (lo r0 r1 : Z) (L : list (Z * Z)) : Prop :=
  forall e, In e L -> lo <= fst e < r0 /\ lo <= snd e < r1.

Record Inv (lo r0 r1 : Z) (st : sw3) (P : list (Z * Z)) : Prop := {
  inv_stair : stair (s_front st);
  inv_sub : forall e, In e (s_front st) -> In e P;
  inv_cov : forall v w, cov (s_front st) v w = cov P v w;
  inv_area : s_area st = area_below lo r0 (s_front st) r1 }.

Definition value (st : sw3) (z : Z) : Z := s_vol st + s_area st * (z - s_prev st).

Lemma step_value r0 r1 st x0 x1 x2 z :
  let st' := sweep3_step r0 r1 st (x0, x1, x2) in
  value st' z = value st x2 + s_area st' * (z - x2).
Proof.
  cbv zeta. unfold sweep3_step.
  destruct (split_lb x0 r1 (s_front st)) as [[lft tl] rgt].
  match goal with |- context [if ?c then _ else _] => destruct c end.
  - unfold value. ring.
  - destruct (remove_dom _ _ _ _ _) as [a' rgt']. unfold value. cbn [s_vol s_area s_prev]. ring.
Qed.

Lemma step_inv lo r0 r1 st P x0 x1 x2 :
  Inv lo r0 r1 st P -> inbox lo r0 r1 P -> lo <= x0 < r0 -> lo <= x1 < r1 ->
  Inv lo r0 r1 (sweep3_step r0 r1 st (x0, x1, x2)) (P ++ [(x0, x1)]).
Proof.
  intros [HS Hsub Hcov Harea] HB Hx0 Hx1.
  assert (HB' : inbox lo r0 r1 (P ++ [(x0, x1)])).
  { intros e He. apply in_app_or in He. destruct He as [He|[<-|[]]]; auto. }
  assert (COV : forall v w, cov (P ++ [(x0, x1)]) v w = cov P v w || ((x0 <=? v) && (x1 <=? w))).
  { intros v w. rewrite cov_app. unfold cov at 2. cbn [existsb fst snd]. now rewrite orb_false_r. }
  unfold sweep3_step.
  destruct (split_lb x0 r1 (s_front st)) as [[lft tl] rgt] eqn:ES.
  destruct (split_lb_spec _ _ _ _ _ _ ES) as [HF [Htl [Hl Hr]]].
  set (t := match rgt with e :: _ => if fst e =? x0 then snd e else tl | [] => tl end).
  pose proof HS as HS0. rewrite HF in HS. apply stair_app in HS. destruct HS as [HSl [HSr HX]].
  (* the top coordinate: below every entry on the left; equals tl unless the key is present *)
  assert (Tcase : t = tl \/ exists e rgt0, rgt = e :: rgt0 /\ fst e = x0 /\ t = snd e).
  { unfold t. destruct rgt as [|e rgt0]; [now left|].
    destruct (Z.eqb_spec (fst e) x0); [right; exists e, rgt0; auto|now left]. }
  assert (Ttl : lft <> [] -> t <= tl).
  { intros Hne. destruct Tcase as [->|[e [rgt0 [-> [_ ->]]]]]; [lia|].
    destruct (lasty_cases lft r1) as [[E _]|[l0 [el [E E2]]]]; [congruence|].
    rewrite Htl, E2.
    assert (In el lft) as H1 by (rewrite E; apply in_or_app; cbn; auto).
    destruct (HX el e H1 (or_introl eq_refl)) as [_ H]. lia. }
  assert (Tl : forall e, In e lft -> t <= snd e).
  { intros e He. assert (lft <> []) as Hne by (intros ->; destruct He). specialize (Ttl Hne).
    destruct (lasty_cases lft r1) as [[E _]|[l0 [el [E E2]]]]; [congruence|].
    rewrite Htl, E2 in Ttl. rewrite E in He, HSl. apply in_app_or in He. destruct He as [He|[<-|[]]]; [|lia].
    apply stair_app in HSl. destruct HSl as [_ [_ HXl]]. destruct (HXl e el He (or_introl eq_refl)) as [_ H]. lia. }
  destruct (Z.leb_spec t x1) as [Hdom|Hnd].
  - (* dominated in the projection *)
    assert (D : exists e, In e (s_front st) /\ fst e <= x0 /\ snd e <= x1).
    { destruct Tcase as [E|[e [rgt0 [E [E1 E2]]]]].
      - destruct (lasty_cases lft r1) as [[El E2]|[l0 [el [El E2]]]].
        + rewrite Htl, E2 in E. lia.
        + exists el. rewrite HF, El. split; [apply in_or_app; left; apply in_or_app; cbn; auto|].
          split; [apply Z.lt_le_incl, Hl; rewrite El; apply in_or_app; cbn; auto|]. rewrite <- E2, <- Htl. lia.
      - exists e. rewrite HF, E. split; [apply in_or_app; cbn; auto|]. lia. }
    constructor; auto.
    + intros e He. apply in_or_app. auto.
    + intros v w. rewrite COV, Hcov.
      destruct (Z.leb_spec x0 v); destruct (Z.leb_spec x1 w); cbn [andb]; rewrite ?orb_false_r; auto.
      rewrite orb_true_r. rewrite <- Hcov. apply cov_true_iff.
      destruct D as [e [He [H1 H2]]]. exists e. split; auto. lia.
  - (* the point enters the front *)
    destruct (remove_dom r0 t x1 rgt (s_area st)) as [a' rgt'] eqn:ER.
    destruct (remove_dom_spec _ _ _ _ _ _ _ ER) as [rem [Hrgt [Ha' [Hrem Hhd]]]].
    rewrite Hrgt in HSr. apply stair_app in HSr. destruct HSr as [HSrem [HSr' HXr]].
    assert (K4 : forall e, In e rem -> x0 <= fst e /\ x1 <= snd e).
    { intros e He. split; auto. destruct rem as [|e0 rem0]; [destruct He|].
      rewrite Hrgt in Hr. cbn [app] in Hr. destruct He as [<-|He]; auto.
      apply stair_cons in HSrem. destruct HSrem as [_ H]. destruct (H e He) as [H1 _]. lia. }
    assert (K2 : match rgt' with e :: _ => x0 < fst e | [] => True end).
    { destruct rgt' as [|e rgt0]; auto. destruct rem as [|e0 rem0].
      - cbn [app] in Hrgt.
        assert (Et : t = if fst e =? x0 then snd e else tl) by (unfold t; rewrite Hrgt; reflexivity).
        rewrite Hrgt in Hr. destruct (Z.eqb_spec (fst e) x0); lia.
      - destruct (HXr e0 e (or_introl eq_refl) (or_introl eq_refl)) as [H1 _].
        destruct (K4 e0 (or_introl eq_refl)). lia. }
    assert (K3 : forall e, In e rgt' -> x0 < fst e /\ snd e < x1).
    { destruct rgt' as [|e0 rgt0]; [intros e []|]. intros e [<-|He]; [lia|].
      apply stair_cons in HSr'. destruct HSr' as [_ H]. destruct (H e He). lia. }
    assert (K5 : t = tl \/ next_key r0 (rem ++ rgt') = x0).
    { destruct Tcase as [E|[e [rgt1 [E [E1 E2]]]]]; auto. right.
      rewrite <- Hrgt, E. exact E1. }
    rewrite map_set_spec by auto.
    assert (HS' : stair (lft ++ (x0, x1) :: rgt')).
    { apply stair_app. split; auto. split.
      - apply stair_cons. split; [exact HSr'|]. intros b Hb. destruct (K3 b Hb). split; cbn; lia.
      - intros a b Ha [<-|Hb].
        + split; cbn; [now apply Hl|]. specialize (Tl a Ha). lia.
        + apply HX; auto. rewrite Hrgt. apply in_or_app. auto. }
    assert (Hsub' : forall e, In e (lft ++ (x0, x1) :: rgt') -> In e (P ++ [(x0, x1)])).
    { intros e He. apply in_or_app. apply in_app_or in He. destruct He as [He|[<-|He]]; [left|right; now left|left];
        apply Hsub; rewrite HF; apply in_or_app; auto. right. rewrite Hrgt. apply in_or_app. auto. }
    constructor; cbn [s_front s_area]; auto.
    + intros v w. rewrite COV, <- Hcov, HF, Hrgt. rewrite !cov_app.
      replace (cov ((x0, x1) :: rgt') v w) with (((x0 <=? v) && (x1 <=? w)) || cov rgt' v w) by reflexivity.
      destruct (cov rem v w) eqn:Erem.
      * apply cov_true_iff in Erem. destruct Erem as [e [He [H1 H2]]]. destruct (K4 e He).
        rewrite (proj2 (Z.leb_le x0 v)), (proj2 (Z.leb_le x1 w)) by lia. cbn. now rewrite !orb_true_r.
      * cbn [orb]. destruct (cov lft v w); cbn [orb]; auto. apply orb_comm.
    + (* the area update is the difference of the two closed forms *)
      assert (BF : forall e, In e (s_front st) -> lo <= fst e <= r0 /\ lo <= snd e <= r1).
      { intros e He. destruct (HB e (Hsub e He)). lia. }
      assert (BF' : forall e, In e (lft ++ (x0, x1) :: rgt') -> lo <= fst e <= r0 /\ lo <= snd e <= r1).
      { intros e He. destruct (HB' e (Hsub' e He)). lia. }
      rewrite (G_area lo r0 _ r1 HS' BF').
      rewrite Ha', Harea. rewrite (G_area lo r0 (s_front st) r1 HS0 BF).
      rewrite HF, Hrgt, !G_app. cbn [G next_key fst snd].
      rewrite (G_shift (next_key r0 rgt') r1 t rem).
      pose proof (G_key_diff (next_key r0 (rem ++ rgt')) x0 r1 lft) as KD. rewrite <- Htl in KD.
      rewrite next_key_app in K5, KD |- *.
      destruct K5 as [E|E]; [rewrite E in *|rewrite E in *]; lia.
Qed.

(* ---------------------------------------------------------------------------------------- *)
(* 5. the whole sweep *)
Inductive sorted_z : list triple -> Prop :=
| sz_nil : sorted_z []
| sz_cons p L : (forall q, In q L -> third p <= third q) -> sorted_z L -> sorted_z (p :: L).

Definition inbox3 (lo r0 r1 r2 : Z) (T : list triple) : Prop :=
  forall x y z, In (x, y, z) T -> lo <= x < r0 /\ lo <= y < r1 /\ lo <= z < r2.

Lemma sweep3_fold lo r0 r1 r2 : forall Q st Pt zc,
  Inv lo r0 r1 st (map pair_of Pt) -> inbox3 lo r0 r1 r2 (Pt ++ Q) ->
  (forall t, In t Pt -> third t <= zc) -> sorted_z Q -> (forall q, In q Q -> zc <= third q) -> zc <= r2 ->
  value (fold_left (sweep3_step r0 r1) Q st) r2 =
  value st zc + zsum zc r2 (fun z => area_below lo r0 (pairs_upto z (Pt ++ Q)) r1).
Proof.
  induction Q as [|[[x0 x1] x2] Q IH]; intros st Pt zc HI HB HP HS HQ Hz; cbn [fold_left].
  - rewrite app_nil_r.
    rewrite (zsum_ext zc r2 _ (fun _ => s_area st)).
    + rewrite zsum_const by lia. unfold value. ring.
    + intros z Hz'. rewrite pairs_upto_all by (intros t Ht; specialize (HP t Ht); lia).
      rewrite (inv_area _ _ _ _ _ HI). apply area_below_cov_ext. intros. symmetry. apply (inv_cov _ _ _ _ _ HI).
  - assert (Hq : lo <= x0 < r0 /\ lo <= x1 < r1 /\ lo <= x2 < r2) by (apply HB, in_or_app; right; now left).
    pose proof (HQ _ (or_introl eq_refl)) as Hzc. cbn [third snd] in Hzc.
    inversion HS as [|p L Hmin HS']; subst.
    assert (HBP : inbox lo r0 r1 (map pair_of Pt)).
    { intros e He. apply in_map_iff in He. destruct He as [[[a b] c] [<- Hin]].
      destruct (HB a b c) as [H1 [H2 _]]; [apply in_or_app; auto|]. cbn. auto. }
    pose proof (step_inv lo r0 r1 st _ x0 x1 x2 HI HBP ltac:(lia) ltac:(lia)) as HI'.
    set (st' := sweep3_step r0 r1 st (x0, x1, x2)) in *.
    rewrite (IH st' (Pt ++ [(x0, x1, x2)]) x2).
    + rewrite <- app_assoc. cbn [app].
      pose proof (step_value r0 r1 st x0 x1 x2 x2) as SV. cbv zeta in SV. fold st' in SV. rewrite SV.
      rewrite (zsum_split zc x2 r2) by lia.
      rewrite (zsum_ext zc x2 _ (fun _ => s_area st)).
      * rewrite zsum_const by lia. unfold value. ring.
      * intros z Hz'. rewrite pairs_upto_app.
        rewrite (pairs_upto_none z (_ :: _)).
        2:{ intros t [<-|Ht]; [cbn; lia|]. specialize (Hmin t Ht). cbn [third snd] in Hmin. lia. }
        rewrite app_nil_r, pairs_upto_all by (intros t Ht; specialize (HP t Ht); lia).
        rewrite (inv_area _ _ _ _ _ HI). apply area_below_cov_ext. intros. symmetry. apply (inv_cov _ _ _ _ _ HI).
    + rewrite map_app. exact HI'.
    + rewrite <- app_assoc. exact HB.
    + intros t Ht. apply in_app_or in Ht. destruct Ht as [Ht|[<-|[]]]; [specialize (HP t Ht); lia|cbn; lia].
    + exact HS'.
    + intros q Hq'. specialize (Hmin q Hq'). exact Hmin.
    + lia.
Qed.

Theorem sweep3d_H3 lo r0 r1 r2 L : sorted_z L -> inbox3 lo r0 r1 r2 L ->
  sweep3d r0 r1 r2 L = H3 lo r0 r1 r2 L.
Proof.
  intros HS HB. destruct L as [|[[x0 y0] z0] L]; cbn [sweep3d].
  - unfold H3. symmetry. apply zsum_zero. intros. apply area_below_nil.
  - destruct (HB x0 y0 z0 (or_introl eq_refl)) as [Hx [Hy Hz]].
    inversion HS as [|p L' Hmin HS']; subst.
    set (st0 := {| s_front := [(x0, y0)]; s_area := (r0 - x0) * (r1 - y0); s_vol := 0; s_prev := z0 |}).
    change (value (fold_left (sweep3_step r0 r1) L st0) r2 = H3 lo r0 r1 r2 ((x0, y0, z0) :: L)).
    rewrite (sweep3_fold lo r0 r1 r2 L st0 [(x0, y0, z0)] z0); auto.
    + unfold H3. rewrite (zsum_split lo z0 r2) by lia.
      rewrite (zsum_zero lo z0).
      * change ([(x0, y0, z0)] ++ L) with ((x0, y0, z0) :: L). unfold value, st0. cbn [s_vol s_area s_prev]. ring.
      * intros z Hz'. rewrite pairs_upto_none; [apply area_below_nil|].
        intros t [<-|Ht]; [cbn; lia|]. specialize (Hmin t Ht). cbn [third snd] in Hmin. lia.
    + constructor; cbn [s_front s_area map pair_of fst]; auto.
      * apply stair_cons. split; [constructor|intros b []].
      * unfold st0. cbn [s_front s_area]. rewrite area_cons_le by (try lia; intros q []). rewrite area_below_nil. ring.
    + intros t [<-|[]]. cbn. lia.
    + lia.
Qed.

(* ---------------------------------------------------------------------------------------- *)
(* 6. against hv_spec *)
Lemma below_ref_len3 r0 r1 r2 S : below_ref [r0; r1; r2] S -> len3 S.
Proof. intros H. apply Forall_forall. intros p Hp. apply (leq_all_length p [r0; r1; r2]). auto. Qed.

Lemma hv_spec_H3 r0 r1 r2 S lo : below_ref [r0; r1; r2] S -> lower_bound lo S ->
  hv_spec [r0; r1; r2] S = H3 lo r0 r1 r2 (map to_triple S).
Proof.
  intros HB LB. rewrite (hv_spec_any_lo _ S lo LB). cbn [rev app].
  apply hv_box_3d. eapply below_ref_len3; eauto.
Qed.

(* main theorem, for ANY arrangement of the kept points that is sorted by the third objective *)
Theorem sweep3d_correct r0 r1 r2 S L :
  below_ref [r0; r1; r2] S ->
  (forall t, In t L <-> In t (filter (strict3 r0 r1 r2) (map to_triple S))) -> sorted_z L ->
  sweep3d r0 r1 r2 L = hv_spec [r0; r1; r2] S.
Proof.
  intros HB HL HS.
  pose proof (min_coord_lower_bound [r0; r1; r2] S) as LB. set (lo := min_coord [r0; r1; r2] S) in *.
  rewrite (hv_spec_H3 r0 r1 r2 S lo HB LB), <- H3_filter_strict, <- (H3_set_ext _ _ _ _ _ _ HL).
  apply sweep3d_H3; auto.
  intros x y z Hin. apply HL in Hin. apply filter_In in Hin. destruct Hin as [Hin Hst].
  apply in_map_iff in Hin. destruct Hin as [p [E Hp]].
  pose proof (below_ref_len3 _ _ _ _ HB) as H3l. unfold len3 in H3l. rewrite Forall_forall in H3l. specialize (H3l p Hp).
  destruct p as [|a [|b [|c [|? ?]]]]; try discriminate. cbn in E. injection E as -> -> ->.
  pose proof (LB _ Hp) as Hlo.
  cbn [strict3] in Hst. apply andb_prop in Hst. destruct Hst as [Hst H3']. apply andb_prop in Hst.
  destruct Hst as [H1' H2']. apply Z.ltb_lt in H1', H2', H3'.
  pose proof (Hlo x ltac:(cbn; auto)). pose proof (Hlo y ltac:(cbn; auto)). pose proof (Hlo z ltac:(cbn; auto)). lia.
Qed.

Lemma insert_z3_In p q l : In q (insert_z3 p l) <-> q = p \/ In q l.
Proof.
  induction l as [|a l IH]; cbn [insert_z3 In]; [intuition|].
  destruct (third p <=? third a); cbn [In]; rewrite ?IH; intuition.
Qed.

Lemma sort_z3_In q l : In q (sort_z3 l) <-> In q l.
Proof. induction l as [|a l IH]; cbn [sort_z3 fold_right In]; [tauto|]. fold (sort_z3 l). rewrite insert_z3_In, IH. intuition. Qed.

Lemma insert_z3_sorted p l : sorted_z l -> sorted_z (insert_z3 p l).
Proof.
  induction 1 as [|a l Ha Hs IH]; cbn [insert_z3].
  - constructor; [intros q []|constructor].
  - destruct (Z.leb_spec (third p) (third a)).
    + constructor; [|constructor; auto]. intros q [<-|Hq]; auto. specialize (Ha q Hq). lia.
    + constructor; auto. intros q Hq. apply insert_z3_In in Hq. destruct Hq as [->|Hq]; [lia|auto].
Qed.

Lemma sort_z3_sorted l : sorted_z (sort_z3 l).
Proof. induction l; cbn [sort_z3 fold_right]; [constructor|now apply insert_z3_sorted]. Qed.

Theorem hv3d_correct ref S : length ref = 3%nat -> below_ref ref S -> hv3d ref S = hv_spec ref S.
Proof.
  intros Hl HB. destruct ref as [|r0 [|r1 [|r2 [|? ?]]]]; try discriminate.
  unfold hv3d. apply sweep3d_correct; auto.
  - intros t. apply sort_z3_In.
  - apply sort_z3_sorted.
Qed.

(* the premises are satisfiable: ties in the third objective, a duplicate, dominated points, a key that
   is already in the map, a point on the reference boundary *)
Example hv3d_example :
  below_ref [6; 6; 6] [[1; 5; 2]; [2; 3; 3]; [2; 3; 3]; [4; 4; 4]; [3; 1; 5]; [1; 4; 5]; [2; 2; 3]; [6; 0; 0]] /\
  hv3d [6; 6; 6] [[1; 5; 2]; [2; 3; 3]; [2; 3; 3]; [4; 4; 4]; [3; 1; 5]; [1; 4; 5]; [2; 2; 3]; [6; 0; 0]] = 60 /\
  hv_spec [6; 6; 6] [[1; 5; 2]; [2; 3; 3]; [2; 3; 3]; [4; 4; 4]; [3; 1; 5]; [1; 4; 5]; [2; 2; 3]; [6; 0; 0]] = 60.
Proof.
  split; [|split; vm_compute; reflexivity].
  intros p Hp. cbn in Hp. unfold leq_all.
  repeat (destruct Hp as [<-|Hp]; [repeat constructor; lia|]). destruct Hp.
Qed.
