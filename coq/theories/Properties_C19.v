(* C19 — Text importers are memory-safe on any input and round-trip exported data.
   Only statements + `exact`; proofs in C19Proofs.v / C19RoundTrip.v / C19RoundTrip2.v / C19SvmRoundTrip.v / C19Batches.v /
   C19BigBatchProofs.v / C19LinesProofs.v / C19ScalarRoundTripProofs.v, executable model in C19Model.v, C19BigBatch.v, C19Lines.v.

   PROVED (about the model, for every byte string, separator, comment character, label position, batch size):
   every importer overload returns either a well-formed dataset (all records of the reported dimension,
   labels in [0, class count), elements = parsed records in order, no empty batch, no batch larger than
   requested) or the library exception; the outcome Fault (undefined behaviour of the C++: division by zero,
   write outside an element, *end() of an empty range) is unreachable for maximumBatchSize >= 1 (CSV) and for
   the LibSVM importer AS REPAIRED in /repo (commits b597e6a8, de125c41, 0d98833e: records with non-increasing
   indices rejected, no record -> empty dataset, shape = element dimension; the theorems keep the name
   `_repaired_`).  The LibSVM importer as coded BEFORE these commits reaches Fault: C19_F10_..., C19_F11_...
   (findings F10, F11; kept as regression witnesses about the `_coded` definitions of the model).
   PROVED, round trip (C19RoundTrip.v, C19RoundTrip2.v, C19SvmRoundTrip.v; the text is the one the exporter model prints,
   numbers are tokens): import (export d) returns every element of d, in order, with the dimension of d, for
   - unlabelled and regression CSV data, separator CHARACTER or WHITE-SPACE separator (blank other than a line end);
   - CLASSIFICATION CSV data, label first or last, both kinds of separator, with the label normalisation as coded:
     the imported label is  label - (smallest label of the dataset); labels come back unchanged IFF class 0 occurs
     (otherwise: known deviation C19-LABELSHIFT, by design of the importers);
   - LibSVM data (exportSparseData -> importSparseData as repaired: indices strictly increasing, zero-based detection,
     dimension inference), dense and compressed storage, regression and classification (2-class datasets written as
     -1/+1, others as label+1; imported label = label - smallest label, unchanged IFF class 0 occurs): the stored
     (index, value) lists come back exactly; the dimension is the least d >= highestIndex containing every stored index.
     What the format preserves: a dense element stores all components (zeros included), so its dimension comes back;
     a compressed element stores non-zeros only, so TRAILING ZERO FEATURES ARE LOST unless highestIndex is passed
     (C19_libsvm_roundtrip_example shows dimension 3 -> 1, and 3 with highestIndex = 3); explicit zeros of a
     compressed vector and the value digits beyond the printed precision are not carried by the text either.
   PROVED, batch structure (C19Batches.v, reusing C03's opt_sizes_spec): every CSV importer returns batches whose sizes
   ARE detail::optimalBatchSizes(n, maximumBatchSize) (balanced, none empty or too large, ceil(n/m) batches); the
   LibSVM importers return full batches of batchSize followed by the remainder (LabeledData(n, blueprint, batchSize)),
   which is a different partition (C19_partitions_differ).
   PROVED, extreme batch sizes (C19BigBatch.v, C19BigBatchProofs.v): maximumBatchSize / batchSize is a 64-bit number.
   C19_batches_saturate / C19_libsvm_batches_saturate: for a batch size >= the number of records the batch sizes do not depend
   on it (one batch); hence the entry points the check executes (csv_import_*_N, svm_import_*_N: batch size a binary number,
   capped at records + 1 inside the model after parsing) ARE csv_import_* / svm_import_* at that batch size
   (C19_import_64bit_batch_size_is_import), and every theorem above holds for every batch size in 1 .. 2^64-1 (one instance is
   spelled out: C19_csv_data_import_total_any_batch_size_partial).  std::size_t arithmetic (modulo 2^64): optimalBatchSizes AS
   CODED (n / m, then +1 if n - (n/m)*m > 0) and initializeBatches never wrap and compute opt_sizes / init_sizes for ALL 64-bit
   arguments (C19_optimalBatchSizes_size_t_correct, C19_initializeBatches_size_t_correct,
   C19_csv_import_batches_are_optimalBatchSizes_size_t); the round-up idiom (n + m - 1) / m is right iff n + m <= 2^64 and
   divides by zero otherwise (C19_roundup_idiom_ok_iff_no_wrap, witness C19_roundup_idiom_refuted: 2 records, SIZE_MAX).
   PROVED, target object: the model entry points csv_import_*_into / svm_import_*_into take the dataset the caller passes by
   reference; no outcome depends on it (C19_import_ignores_target — true by construction of the model, every path of the code
   assigns a new dataset; what ties this to the code is the reused-target comparison below); an importer whose early return on a
   record-free input keeps the target is refuted (C19_import_without_reset_refuted).
   PROVED, line ends (C19Lines.v, C19LinesProofs.v): converting the line ends of an exported unlabelled / regression file from LF
   to CR LF does not change what the importer returns (separator character, comment character not CR).
   SCOPE of the theorems, overload by overload.  Import totality / well-formedness: csvStringToData x10 = csv_import_data
   (Data<RealVector|FloatVector>), csv_import_cls (LabeledData<Real|FloatVector, unsigned>), csv_import_reg (LabeledData<V, V>),
   csv_import_ints / _uints / _reals (Data<int> / Data<unsigned> / Data<float|double>); importSparseData x16 = svm_import_cls / _reg
   x compressed (float and double differ only in the token -> number conversion, stream and file only in how the bytes arrive:
   both outside the model and compared); importCSV x3 and import_libsvm x4 are forwarders (compared).  Round trip: exportCSV of
   Data<Vector>, of LabeledData<Vector, unsigned> and of LabeledData<Vector, Vector> with the default options (scientific, no field
   width), exportSparseData (stream or file) of LabeledData<I, unsigned> with oneMinusOne = true, sortLabels = false and of
   LabeledData<I, RealVector>.  NOT in the round-trip theorems:
   - exportCSV with scientific = false or fieldwidth > 0 (padding blanks), exportSparseData with oneMinusOne = false, sortLabels =
     true or append = true: neither modelled nor compared;
   - scalar datasets: there is NO exporter for Data<int|unsigned|float|double> (detail::exportCSV needs vector elements and does not
     compile for them), so the scalar importers have no export counterpart.  What exists: integer-valued VECTORS (Data<IntVector|
     UIntVector>) written by exportCSV; read back by the scalar importers Data<int> / Data<unsigned>: PROVED
     (C19ScalarRoundTripProofs.v: components in reading order, white-space separator or one component per element) and compared (XINT
     stream); read back by the vector importer (integer tokens are not sci_tok), and Data<float|double>: compared and monitored only;
   - export_libsvm (Libsvm.h) passes six arguments to exportSparseData, which takes five: it does not compile when instantiated;
   - LabeledData<_, FloatVector> has no LibSVM exporter (exportSparseData takes RealVector labels): double precision only;
   - labels: all classification importers (CSV x2, LibSVM x8) return  label - smallest label  (or -1/+1 -> 0/1), so labels come
     back unchanged IFF class 0 occurs (proved: ..._labels_iff_class0_partial; the other case is the known deviation);
   - CR LF line ends of classification files and with white-space separators; token <-> double conversion; compared only.
   COMPARED on every run (tools/c19.py): EVERY import goes into a fresh dataset object and into one that already holds an earlier
   import through the same overload (all 10 + 16 + 4 overloads, string and file variants): contents, batch structure, shape and
   exception behaviour must agree (monitor key ...:reused-target); every importer stream uses the batch sizes {small, 1, 2, n-1, n,
   n+1, 2^31, 2^32+1, 2^63, SIZE_MAX-1, SIZE_MAX, ..}; opt_sizes64 / init_sizes64 = detail::optimalBatchSizes / Data(n, element,
   batchSize) called directly with 64-bit arguments (OBS / OBI); round trips with 36 separators (incl. | * ( ) [ ] \ ^ $ { } . + ?),
   both label positions, LF and CR LF (crlf) line ends.  Further, as before:
   model = compiled importers on generated files (exact on numbers
   with <= 15 digits), exporters = printers incl. exportSparseData (text compared byte for byte, re-imported dataset
   compared line-exact).  MONITORED only: memory safety / termination / exception type
   of the compiled Spirit parsers on arbitrary bytes (ASan+UBSan, SIGALRM); token <-> double conversion (a double ->
   its printed token and back: outside the model, compared in the OCaml driver with printf/strtod).
   The full-strength statement "for all byte strings the C++ importer never reads
   or writes out of bounds" is a statement about compiled code and is not a Coq theorem here: the theorems are
   named _partial. *)
From Coq Require Import List Arith ZArith NArith Bool.
From SharkV Require Import ListAux C03Model C03Proofs C19Model C19Proofs C19RoundTrip C19RoundTrip2 C19SvmRoundTrip C19Batches C19BigBatch C19BigBatchProofs C19Lines C19LinesProofs C19ScalarRoundTripProofs.
Import ListNotations.

Theorem C19_csv_data_import_total_partial :
  forall sep cm m s, 1 <= m ->
  match csv_import_data sep cm m s with
  | Ok d => exists rows, read_values cm sep s = Some rows /\ map snd (ds_elems d) = rows /\
                         wf_batches m (ds_batches d) /\ wf_dense_dim d
  | Exc => True
  | Fault => False
  end.
Proof. exact csv_data_import_total. Qed.
Print Assumptions C19_csv_data_import_total_partial.

Theorem C19_csv_regression_import_total_partial :
  forall first nout sep cm m s, 1 <= m ->
  match csv_import_reg first nout sep cm m s with
  | Ok d => exists rows, read_values cm sep s = Some rows /\ ds_elems d = map (split_reg first nout) rows /\
                         wf_batches m (ds_batches d) /\
                         (forall l v, In (l, v) (ds_elems d) -> length l = nout /\ Z.of_nat (length v) = ds_dim d)
  | Exc => True
  | Fault => False
  end.
Proof. exact csv_reg_import_total. Qed.
Print Assumptions C19_csv_regression_import_total_partial.

Theorem C19_csv_classification_import_total_partial :
  forall first sep cm m s, 1 <= m ->
  match csv_import_cls first sep cm m s with
  | Ok d => exists rows, read_points cm sep first s = Some rows /\ map snd (ds_elems d) = map snd rows /\
                         wf_batches m (ds_batches d) /\ wf_dense_dim d /\ wf_labels (map fst (ds_elems d))
  | Exc => True
  | Fault => False
  end.
Proof. exact csv_cls_import_total. Qed.
Print Assumptions C19_csv_classification_import_total_partial.

Theorem C19_csv_scalar_import_total_partial :
  forall (T : Type) (lexT : list byte -> option (T * list byte)) cm m s, 1 <= m ->
  match lift (read_scalars cm lexT s) (fun v => post_scalar v m) with
  | Ok d => exists vals, read_scalars cm lexT s = Some vals /\ map snd (ds_elems d) = vals /\ wf_batches m (ds_batches d)
  | Exc => True
  | Fault => False
  end.
Proof. exact @csv_scalar_import_total. Qed.
Print Assumptions C19_csv_scalar_import_total_partial.

Theorem C19_libsvm_classification_import_total_repaired_partial :
  forall compressed hi bsz s,
  match svm_import_cls compressed hi bsz s with
  | Ok d => exists recs, read_svm s = Some recs /\ length (ds_elems d) = length recs /\
                         wf_batches0 bsz (ds_batches d) /\ wf_sparse_dim d /\ wf_labels (map fst (ds_elems d))
  | Exc => True
  | Fault => False
  end.
Proof. exact svm_cls_import_total. Qed.
Print Assumptions C19_libsvm_classification_import_total_repaired_partial.

Theorem C19_libsvm_regression_import_total_repaired_partial :
  forall compressed hi bsz s,
  match svm_import_reg compressed hi bsz s with
  | Ok d => exists recs, read_svm s = Some recs /\ map fst (ds_elems d) = map fst recs /\
                         length (ds_elems d) = length recs /\ wf_batches0 bsz (ds_batches d) /\ wf_sparse_dim d
  | Exc => True
  | Fault => False
  end.
Proof. exact svm_reg_import_total. Qed.
Print Assumptions C19_libsvm_regression_import_total_repaired_partial.

(* findings F10 / F11 as theorems about the importer as coded *)
Theorem C19_F10_unsorted_indices_fault_as_coded :
  svm_import_cls_coded false 0 256 (bytes_of [49;32;53;58;49;32;50;58;49;10]) = Fault /\
  svm_import_cls false 0 256 (bytes_of [49;32;53;58;49;32;50;58;49;10]) = Exc.
Proof. exact f10_unsorted_faults. Qed.
Print Assumptions C19_F10_unsorted_indices_fault_as_coded.

Theorem C19_F10_zero_index_not_first_fault_as_coded :
  svm_import_reg_coded false 0 256 (bytes_of [49;32;51;58;49;32;48;58;50;10]) = Fault /\
  svm_import_reg_coded true 0 256 (bytes_of [49;32;51;58;49;32;48;58;50;10]) = Fault.
Proof. exact f10_zero_not_first_faults. Qed.
Print Assumptions C19_F10_zero_index_not_first_fault_as_coded.

Theorem C19_F11_empty_input_fault_as_coded :
  svm_import_cls_coded false 0 256 [] = Fault /\ svm_import_cls false 0 256 [] = Ok (mkDs [] 0).
Proof. exact f11_empty_faults. Qed.
Print Assumptions C19_F11_empty_input_fault_as_coded.

(* Round trip.  Full statement of the property: for every dataset d (unlabeled, classification, regression), every
   separator, label position and batch size, import (export d) = Ok d' with elements d' = elements d up to the printed
   precision.  PROVED below for unlabeled and regression datasets written with a separator CHARACTER (chars_ok: not a
   digit, not white space, different from the comment character; comment character not a digit/sign/newline), numbers
   as printed scientific tokens (sci_tok: [-]d.ddd..e[+-]dd), any label position, any batch size >= 1: hence _partial.
   The theorems further below extend this to white-space separators, classification files and the LibSVM format. *)
Theorem C19_export_import_roundtrip_data_partial :
  forall sep cm, chars_ok sep cm ->
  forall rows d m, 1 <= m -> 1 <= d -> rows <> [] ->
  Forall (fun r => length r = d /\ Forall sci_tok r) rows ->
  exists ds, csv_import_data sep cm m (export_data sep rows) = Ok ds /\
             map snd (ds_elems ds) = rows /\ ds_dim ds = Z.of_nat d /\ wf_batches m (ds_batches ds).
Proof. exact data_roundtrip. Qed.
Print Assumptions C19_export_import_roundtrip_data_partial.

Theorem C19_export_import_roundtrip_regression_partial :
  forall sep cm, chars_ok sep cm ->
  forall first nout rows d m, 1 <= m -> 1 <= nout -> 1 <= d -> rows <> [] ->
  Forall (fun r => length (fst r) = nout /\ length (snd r) = d /\ Forall sci_tok (fst r) /\ Forall sci_tok (snd r)) rows ->
  exists ds, csv_import_reg first nout sep cm m (export_reg first sep rows) = Ok ds /\
             ds_elems ds = rows /\ ds_dim ds = Z.of_nat d /\ wf_batches m (ds_batches ds).
Proof. exact reg_roundtrip. Qed.
Print Assumptions C19_export_import_roundtrip_regression_partial.

(* the hypotheses are satisfiable and the outcomes inhabited *)
Example C19_chars_ok_comma_hash : chars_ok 44%N 35%N.
Proof. exact chars_ok_comma_hash. Qed.
Example C19_tokens_sci : sci_tok tok_1_5 /\ sci_tok tok_m2_25em3.
Proof. exact tok_examples_sci. Qed.
Example C19_roundtrip_example :
  csv_import_data 44%N 35%N 1 (export_data 44%N [[tok_1_5; tok_m2_25em3]; [tok_m2_25em3; tok_1_5]]) =
  Ok (mkDs [[(tt, [tok_1_5; tok_m2_25em3])]; [(tt, [tok_m2_25em3; tok_1_5])]] 2).
Proof. exact roundtrip_example. Qed.
(* "1,2\n3,4\n" with ',' '#' and batches of 1;  "1,2\n3\n" is ragged;  maximumBatchSize = 0 is outside the domain *)
Example C19_example_ok :
  csv_import_data 44%N 35%N 1 (bytes_of [49;44;50;10;51;44;52;10]) =
  Ok (mkDs [[(tt, [NDec None [49%N] false [] None; NDec None [50%N] false [] None])];
            [(tt, [NDec None [51%N] false [] None; NDec None [52%N] false [] None])]] 2).
Proof. exact example_ok. Qed.
Example C19_example_ragged_exc : csv_import_data 44%N 35%N 1 (bytes_of [49;44;50;10;51;10]) = Exc.
Proof. exact example_ragged_exc. Qed.
Example C19_example_max_batch_zero_faults : csv_import_data 44%N 35%N 0 [49%N; 10%N] = Fault.
Proof. exact csv_max_batch_zero_faults. Qed.

(* ---- round trip, second part: white-space separators, classification files, LibSVM ---- *)
(* sep_ok: separator character as above, or a blank that is not a line end (space, tab, VT, FF) *)
Theorem C19_export_import_roundtrip_data_any_separator_partial :
  forall sep cm rows d m, sep_ok sep cm -> 1 <= m -> 1 <= d -> rows <> [] ->
  Forall (fun r => length r = d /\ Forall sci_tok r) rows ->
  exists ds, csv_import_data sep cm m (export_data sep rows) = Ok ds /\
             map snd (ds_elems ds) = rows /\ ds_dim ds = Z.of_nat d /\
             opt_sizes (length rows) m = Some (map (@length _) (ds_batches ds)).
Proof. exact data_roundtrip_any. Qed.
Print Assumptions C19_export_import_roundtrip_data_any_separator_partial.

Theorem C19_export_import_roundtrip_regression_any_separator_partial :
  forall sep cm first nout rows d m, sep_ok sep cm -> 1 <= m -> 1 <= nout -> 1 <= d -> rows <> [] ->
  Forall (fun r => length (fst r) = nout /\ length (snd r) = d /\ Forall sci_tok (fst r) /\ Forall sci_tok (snd r)) rows ->
  exists ds, csv_import_reg first nout sep cm m (export_reg first sep rows) = Ok ds /\
             ds_elems ds = rows /\ ds_dim ds = Z.of_nat d /\
             opt_sizes (length rows) m = Some (map (@length _) (ds_batches ds)).
Proof. exact reg_roundtrip_any. Qed.
Print Assumptions C19_export_import_roundtrip_regression_any_separator_partial.

(* classification: cls_sep_ok = separator character other than '.', or a blank; labels below 2^31; label first/last.
   Imported label = exported label - smallest exported label. *)
Theorem C19_export_import_roundtrip_classification_partial :
  forall sep cm first rows d m, cls_sep_ok sep cm -> 1 <= m -> 1 <= d -> rows <> [] ->
  Forall (fun r => (fst r <= 2147483647)%N /\ length (snd r) = d /\ Forall sci_tok (snd r)) rows ->
  exists ds mn, csv_import_cls first sep cm m (export_cls first sep rows) = Ok ds /\
    In mn (map fst rows) /\ (forall l, In l (map fst rows) -> (mn <= l)%N) /\
    ds_elems ds = map (fun r => ((Z.of_N (fst r) - Z.of_N mn)%Z, snd r)) rows /\
    ds_dim ds = Z.of_nat d /\
    opt_sizes (length rows) m = Some (map (@length _) (ds_batches ds)).
Proof. exact cls_roundtrip. Qed.
Print Assumptions C19_export_import_roundtrip_classification_partial.

Theorem C19_export_import_roundtrip_classification_labels_iff_class0_partial :
  forall sep cm first rows d m, cls_sep_ok sep cm -> 1 <= m -> 1 <= d -> rows <> [] ->
  Forall (fun r => (fst r <= 2147483647)%N /\ length (snd r) = d /\ Forall sci_tok (snd r)) rows ->
  exists ds, csv_import_cls first sep cm m (export_cls first sep rows) = Ok ds /\
    map snd (ds_elems ds) = map snd rows /\
    (map fst (ds_elems ds) = map (fun r => Z.of_N (fst r)) rows <-> In 0%N (map fst rows)).
Proof. exact cls_roundtrip_labels. Qed.
Print Assumptions C19_export_import_roundtrip_classification_labels_iff_class0_partial.

(* LibSVM.  reg_ok / cls_ok: label token well formed (tok_ok: any [-]digits[.digits][e[+-]digits] shape) resp. label
   below 2^31 - 1; stored indices of an element strictly increasing and below 2^32 - 1, values well-formed tokens.
   highestIndex hi is 0 (infer) or at least every one-based index.  zelem: the element as (index, token) list.
   dim_spec hi els d: d is the least value >= hi with every stored index below d. *)
Theorem C19_libsvm_export_import_roundtrip_regression_partial :
  forall compressed hi bsz rows, rows <> [] -> Forall reg_ok rows -> (0 <= hi)%Z ->
  (hi = 0%Z \/ forall r i x, In r rows -> In (i, x) (snd r) -> (Z.of_N i + 1 <= hi)%Z) ->
  exists ds, svm_import_reg compressed hi bsz (export_svm_reg rows) = Ok ds /\
    ds_elems ds = map (fun r => (fst r, zelem (snd r))) rows /\
    map (@length _) (ds_batches ds) = init_sizes (length rows) bsz /\
    dim_spec hi (map snd rows) (ds_dim ds).
Proof. exact svm_reg_roundtrip. Qed.
Print Assumptions C19_libsvm_export_import_roundtrip_regression_partial.

Theorem C19_libsvm_export_import_roundtrip_classification_partial :
  forall compressed hi bsz rows, rows <> [] -> Forall cls_ok rows -> (0 <= hi)%Z ->
  (hi = 0%Z \/ forall r i x, In r rows -> In (i, x) (snd r) -> (Z.of_N i + 1 <= hi)%Z) ->
  exists ds mn, svm_import_cls compressed hi bsz (export_svm_cls rows) = Ok ds /\
    In mn (map fst rows) /\ (forall l, In l (map fst rows) -> (mn <= l)%N) /\
    ds_elems ds = map (fun r => ((Z.of_N (fst r) - Z.of_N mn)%Z, zelem (snd r))) rows /\
    map (@length _) (ds_batches ds) = init_sizes (length rows) bsz /\
    dim_spec hi (map snd rows) (ds_dim ds).
Proof. exact svm_cls_roundtrip. Qed.
Print Assumptions C19_libsvm_export_import_roundtrip_classification_partial.

Theorem C19_libsvm_export_import_roundtrip_labels_iff_class0_partial :
  forall compressed hi bsz rows, rows <> [] -> Forall cls_ok rows -> (0 <= hi)%Z ->
  (hi = 0%Z \/ forall r i x, In r rows -> In (i, x) (snd r) -> (Z.of_N i + 1 <= hi)%Z) ->
  exists ds, svm_import_cls compressed hi bsz (export_svm_cls rows) = Ok ds /\
    map snd (ds_elems ds) = map (fun r => zelem (snd r)) rows /\
    (map fst (ds_elems ds) = map (fun r => Z.of_N (fst r)) rows <-> In 0%N (map fst rows)).
Proof. exact svm_cls_roundtrip_labels. Qed.
Print Assumptions C19_libsvm_export_import_roundtrip_labels_iff_class0_partial.

(* dimension: dense elements (all n components stored) come back with dimension n; with highestIndex >= every
   one-based index the dimension is highestIndex *)
Theorem C19_libsvm_roundtrip_dimension_dense :
  forall els n d, els <> [] -> 1 <= n ->
  (forall e, In e els -> map fst e = map N.of_nat (seq 0 n)) -> dim_spec 0 els d -> d = Z.of_nat n.
Proof. exact dim_spec_dense. Qed.
Print Assumptions C19_libsvm_roundtrip_dimension_dense.

Theorem C19_libsvm_roundtrip_dimension_highest_index :
  forall els hi d, (forall e i x, In e els -> In (i, x) e -> (Z.of_N i + 1 <= hi)%Z) -> dim_spec hi els d -> d = hi.
Proof. exact dim_spec_hi. Qed.
Print Assumptions C19_libsvm_roundtrip_dimension_highest_index.

(* ---- batch structure ---- *)
(* opt_batched m bs: the sizes of bs are optimalBatchSizes(number of elements, m) *)
Theorem C19_csv_import_batches_are_optimalBatchSizes :
  forall sep cm m s, 1 <= m ->
  (forall d, csv_import_data sep cm m s = Ok d -> opt_batched m (ds_batches d)) /\
  (forall first nout d, csv_import_reg first nout sep cm m s = Ok d -> opt_batched m (ds_batches d)) /\
  (forall first d, csv_import_cls first sep cm m s = Ok d -> opt_batched m (ds_batches d)) /\
  (forall (T : Type) (lexT : list byte -> option (T * list byte)) d,
     lift (read_scalars cm lexT s) (fun v => post_scalar v m) = Ok d -> opt_batched m (ds_batches d)).
Proof. exact csv_import_batches. Qed.
Print Assumptions C19_csv_import_batches_are_optimalBatchSizes.

Theorem C19_optimal_batches_properties :
  forall (A : Type) m (bs : list (list A)), opt_batched m bs ->
  (forall b, In b bs -> 1 <= length b <= m) /\
  (forall b b', In b bs -> In b' bs -> length b <= length b' + 1) /\
  length bs = (if length (concat bs) =? 0 then 0 else ceil_div (length (concat bs)) m).
Proof. exact @opt_batched_props. Qed.
Print Assumptions C19_optimal_batches_properties.

(* init_batched b bs: no batch for no element, else the sizes are init_sizes n b (b, b, .., remainder; one batch for b = 0) *)
Theorem C19_libsvm_import_batches :
  forall compressed hi bsz s,
  (forall d, svm_import_cls compressed hi bsz s = Ok d -> init_batched bsz (ds_batches d)) /\
  (forall d, svm_import_reg compressed hi bsz s = Ok d -> init_batched bsz (ds_batches d)).
Proof. exact svm_import_batches. Qed.
Print Assumptions C19_libsvm_import_batches.

(* satisfiability of the new hypotheses and concrete instances *)
Example C19_separators_ok : cls_sep_ok 44%N 35%N /\ cls_sep_ok 32%N 35%N /\ ws_ok 9%N 35%N /\ sep_ok 32%N 35%N.
Proof. exact (conj cls_sep_ok_comma (conj cls_sep_ok_space (conj ws_ok_tab sep_ok_space))). Qed.
(* labels {0,2} with a blank, label last: unchanged;  labels {1,2} with a comma, label first: re-based to {0,1} *)
Example C19_classification_roundtrip_example :
  csv_import_cls false 32%N 35%N 2 (export_cls false 32%N [(0%N, [tok_1_5]); (2%N, [tok_m2_25em3])]) =
    Ok (mkDs [[(0%Z, [tok_1_5]); (2%Z, [tok_m2_25em3])]] 1) /\
  csv_import_cls true 44%N 35%N 2 (export_cls true 44%N [(1%N, [tok_1_5]); (2%N, [tok_m2_25em3])]) =
    Ok (mkDs [[(0%Z, [tok_1_5]); (1%Z, [tok_m2_25em3])]] 1).
Proof. exact cls_roundtrip_example. Qed.
Example C19_libsvm_tokens_ok : tok_ok tok_0_25 /\ tok_ok tok_m3 /\ tok_ok tok_1em05.
Proof. exact tok_examples_ok. Qed.
(* a compressed element of a 3-dimensional dataset with one stored entry: dimension 1, or 3 with highestIndex = 3;
   two classes {0,1}: written -1/+1, read back {0,1};  one class {1,1}: read back {0,0} (label shift) *)
Example C19_libsvm_roundtrip_example :
  svm_import_reg true 0 0 (export_svm_reg [(tok_m3, [(0%N, tok_0_25)])]) = Ok (mkDs [[(tok_m3, [(0%Z, tok_0_25)])]] 1) /\
  svm_import_reg true 3 0 (export_svm_reg [(tok_m3, [(0%N, tok_0_25)])]) = Ok (mkDs [[(tok_m3, [(0%Z, tok_0_25)])]] 3) /\
  svm_import_cls false 0 2 (export_svm_cls [(0%N, [(0%N, tok_0_25); (1%N, tok_1em05)]); (1%N, [(0%N, tok_m3); (1%N, tok_0_25)])]) =
    Ok (mkDs [[(0%Z, [(0%Z, tok_0_25); (1%Z, tok_1em05)]); (1%Z, [(0%Z, tok_m3); (1%Z, tok_0_25)])]] 2) /\
  svm_import_cls false 0 2 (export_svm_cls [(1%N, [(0%N, tok_0_25)]); (1%N, [(0%N, tok_m3)])]) =
    Ok (mkDs [[(0%Z, [(0%Z, tok_0_25)]); (0%Z, [(0%Z, tok_m3)])]] 1).
Proof. exact svm_examples. Qed.
Example C19_partitions_differ : opt_sizes 7 3 = Some [3; 2; 2] /\ init_sizes 7 3 = [3; 3; 1].
Proof. exact partitions_differ. Qed.

(* ---- extreme batch sizes (C19BigBatch.v, C19BigBatchProofs.v) ---- *)
(* saturation: for maximumBatchSize >= number of records (>= 1) the batch sizes do not depend on maximumBatchSize: one batch
   holding everything.  This justifies running the unary model with min(maximumBatchSize, records + 1). *)
Theorem C19_batches_saturate :
  forall n m, 1 <= m -> n <= m -> opt_sizes n m = Some (if n =? 0 then [] else [n]).
Proof. exact batches_saturate. Qed.
Print Assumptions C19_batches_saturate.

Theorem C19_libsvm_batches_saturate : forall n b, n <= b -> init_sizes n b = [n].
Proof. exact init_sizes_saturate. Qed.
Print Assumptions C19_libsvm_batches_saturate.

(* the entry points the check executes (batch size a binary number, capped inside the model AFTER parsing at records + 1)
   are the importers of C19Model.v at that batch size: every theorem above holds for them with m := N.to_nat m *)
Theorem C19_import_64bit_batch_size_is_import :
  (forall sep cm m s, csv_import_data_N sep cm m s = csv_import_data sep cm (N.to_nat m) s) /\
  (forall first nout sep cm m s, csv_import_reg_N first nout sep cm m s = csv_import_reg first nout sep cm (N.to_nat m) s) /\
  (forall first sep cm m s, csv_import_cls_N first sep cm m s = csv_import_cls first sep cm (N.to_nat m) s) /\
  (forall (T : Type) (lexT : list byte -> option (T * list byte)) cm m s,
     csv_import_scalar_N lexT cm m s = lift (read_scalars cm lexT s) (fun v => post_scalar v (N.to_nat m))) /\
  (forall compressed hi b s, svm_import_cls_N compressed hi b s = svm_import_cls compressed hi (N.to_nat b) s) /\
  (forall compressed hi b s, svm_import_reg_N compressed hi b s = svm_import_reg compressed hi (N.to_nat b) s) /\
  (forall compressed hi b s, svm_import_cls_coded_N compressed hi b s = svm_import_cls_coded compressed hi (N.to_nat b) s) /\
  (forall compressed hi b s, svm_import_reg_coded_N compressed hi b s = svm_import_reg_coded compressed hi (N.to_nat b) s).
Proof. exact import_N_eq. Qed.
Print Assumptions C19_import_64bit_batch_size_is_import.

Theorem C19_csv_data_import_total_any_batch_size_partial :
  forall sep cm (m : N) s, (1 <= m)%N ->
  match csv_import_data_N sep cm m s with
  | Ok d => exists rows, read_values cm sep s = Some rows /\ map snd (ds_elems d) = rows /\
                         wf_batches (N.to_nat m) (ds_batches d) /\ wf_dense_dim d /\ opt_batched (N.to_nat m) (ds_batches d)
  | Exc => True
  | Fault => False
  end.
Proof. exact csv_import_total_N. Qed.
Print Assumptions C19_csv_data_import_total_any_batch_size_partial.

(* std::size_t arithmetic (W64 = 2^64; wadd/wsub/wmul wrap).  opt_sizes64 = detail::optimalBatchSizes AS CODED (n / m, then +1
   if n - (n/m)*m > 0, ...): no operation wraps for any 64-bit arguments, the result is opt_sizes.  No-wrap side condition of
   the round-up idiom (n + m - 1) / m: n + m <= 2^64; beyond it the quotient is 0 and the next line divides by zero. *)
Theorem C19_optimalBatchSizes_size_t_correct :
  forall n m : N, (1 <= m)%N -> (n < W64)%N ->
  opt_sizes64 n m = option_map (map N.of_nat) (opt_sizes (N.to_nat n) (N.to_nat m)).
Proof. exact opt_sizes64_correct. Qed.
Print Assumptions C19_optimalBatchSizes_size_t_correct.

Theorem C19_initializeBatches_size_t_correct :
  forall n b : N, (n < W64)%N -> init_sizes64 n b = map N.of_nat (init_sizes (N.to_nat n) (N.to_nat b)).
Proof. exact init_sizes64_correct. Qed.
Print Assumptions C19_initializeBatches_size_t_correct.

Theorem C19_roundup_idiom_ok_iff_no_wrap :
  (forall n m : N, (1 <= m)%N -> (n + m <= W64)%N -> opt_sizes64_idiom n m = opt_sizes64 n m) /\
  (forall n m : N, (1 <= n)%N -> (n < W64)%N -> (m < W64)%N -> (W64 < n + m)%N -> opt_sizes64_idiom n m = None).
Proof. exact (conj opt_sizes64_idiom_ok opt_sizes64_idiom_faults). Qed.
Print Assumptions C19_roundup_idiom_ok_iff_no_wrap.

(* 2 records, maximumBatchSize = SIZE_MAX: the idiom divides by zero, the code returns one batch of 2 *)
Theorem C19_roundup_idiom_refuted :
  opt_sizes64_idiom 2 (W64 - 1) = None /\ opt_sizes64 2 (W64 - 1) = Some [2%N].
Proof. exact idiom_refuted. Qed.
Print Assumptions C19_roundup_idiom_refuted.

Theorem C19_csv_import_batches_are_optimalBatchSizes_size_t :
  forall sep cm (m : N) s, (1 <= m)%N ->
  (forall d, csv_import_data_N sep cm m s = Ok d -> (N.of_nat (length (ds_elems d)) < W64)%N ->
     opt_sizes64 (N.of_nat (length (ds_elems d))) m = Some (map N.of_nat (map (@length _) (ds_batches d)))) /\
  (forall first nout d, csv_import_reg_N first nout sep cm m s = Ok d -> (N.of_nat (length (ds_elems d)) < W64)%N ->
     opt_sizes64 (N.of_nat (length (ds_elems d))) m = Some (map N.of_nat (map (@length _) (ds_batches d)))) /\
  (forall first d, csv_import_cls_N first sep cm m s = Ok d -> (N.of_nat (length (ds_elems d)) < W64)%N ->
     opt_sizes64 (N.of_nat (length (ds_elems d))) m = Some (map N.of_nat (map (@length _) (ds_batches d)))) /\
  (forall (T : Type) (lexT : list byte -> option (T * list byte)) d,
     csv_import_scalar_N lexT cm m s = Ok d -> (N.of_nat (length (ds_elems d)) < W64)%N ->
     opt_sizes64 (N.of_nat (length (ds_elems d))) m = Some (map N.of_nat (map (@length _) (ds_batches d)))).
Proof. exact csv_import_batches_64. Qed.
Print Assumptions C19_csv_import_batches_are_optimalBatchSizes_size_t.

(* ---- the target object ---- *)
(* the importers take the dataset by reference; the model passes it explicitly and no outcome looks at it *)
Theorem C19_import_ignores_target :
  (forall t t' sep cm m s, csv_import_data_into t sep cm m s = csv_import_data_into t' sep cm m s) /\
  (forall t t' first nout sep cm m s, csv_import_reg_into t first nout sep cm m s = csv_import_reg_into t' first nout sep cm m s) /\
  (forall t t' first sep cm m s, csv_import_cls_into t first sep cm m s = csv_import_cls_into t' first sep cm m s) /\
  (forall t t' cm m s, csv_import_ints_into t cm m s = csv_import_ints_into t' cm m s) /\
  (forall t t' cm m s, csv_import_uints_into t cm m s = csv_import_uints_into t' cm m s) /\
  (forall t t' cm m s, csv_import_reals_into t cm m s = csv_import_reals_into t' cm m s) /\
  (forall t t' compressed hi b s, svm_import_cls_into t compressed hi b s = svm_import_cls_into t' compressed hi b s) /\
  (forall t t' compressed hi b s, svm_import_reg_into t compressed hi b s = svm_import_reg_into t' compressed hi b s).
Proof. exact target_ignored. Qed.
Print Assumptions C19_import_ignores_target.

(* an "importer" whose early return on a record-free input keeps the target: one element reported for zero records *)
Theorem C19_import_without_reset_refuted :
  let target := mkDs [[(tt, 7%Z)]] 0 in
  csv_import_scalar_noreset lex_int target 35%N 2%N [] = Ok target /\ ds_elems target <> [] /\
  read_scalars 35%N lex_int [] = Some [] /\
  csv_import_ints_into target 35%N 2%N [] = Ok (mkDs [] 0).
Proof. exact noreset_refuted. Qed.
Print Assumptions C19_import_without_reset_refuted.

(* ---- CR LF line ends, separators that are special characters elsewhere ---- *)
(* an exported file whose line ends were converted LF -> CR LF (crlf) is imported to the same result, for every batch size:
   unlabelled and regression files, separator character (chars_ok), comment character not CR; hence the round-trip theorems
   above hold for the converted file too.  (Classification files and white-space separators: compared on every run only.) *)
Theorem C19_crlf_export_import_data_partial :
  forall sep cm, chars_ok sep cm -> (cm =? 13)%N = false ->
  forall rows m, rows <> [] -> Forall (fun r => r <> [] /\ Forall sci_tok r) rows ->
  csv_import_data sep cm m (crlf (export_data sep rows)) = csv_import_data sep cm m (export_data sep rows).
Proof. exact crlf_data_import. Qed.
Print Assumptions C19_crlf_export_import_data_partial.

Theorem C19_crlf_export_import_regression_partial :
  forall sep cm, chars_ok sep cm -> (cm =? 13)%N = false ->
  forall first nout rows m, rows <> [] ->
  Forall (fun r => fst r ++ snd r <> [] /\ Forall sci_tok (fst r) /\ Forall sci_tok (snd r)) rows ->
  csv_import_reg first nout sep cm m (crlf (export_reg first sep rows)) = csv_import_reg first nout sep cm m (export_reg first sep rows).
Proof. exact crlf_reg_import. Qed.
Print Assumptions C19_crlf_export_import_regression_partial.

(* the separator hypotheses of the round-trip theorems are met by the characters that are special in regular expressions
   and format strings:  | * ( ) [ \ ^ $ { / ! and, for unlabelled/regression files, even . + ? (with comment '#') *)
Example C19_special_separators_ok :
  cls_sep_ok 124%N 35%N /\ cls_sep_ok 42%N 35%N /\ cls_sep_ok 40%N 35%N /\ cls_sep_ok 41%N 35%N /\ cls_sep_ok 91%N 35%N /\
  cls_sep_ok 92%N 35%N /\ cls_sep_ok 94%N 35%N /\ cls_sep_ok 36%N 35%N /\ cls_sep_ok 123%N 35%N /\ cls_sep_ok 47%N 35%N /\
  cls_sep_ok 33%N 35%N /\ cls_sep_ok 43%N 35%N /\ cls_sep_ok 63%N 35%N /\
  chars_ok 46%N 35%N /\ chars_ok 43%N 35%N /\ chars_ok 63%N 35%N.
Proof. repeat split; left; repeat split. Qed.

(* ---- scalar importers: integer-valued vectors written by exportCSV (there is no exporter for scalar datasets) ---- *)
(* export_data sep (map (map int_tok) rows) is the text exportCSV writes for Data<IntVector> (int_tok z prints as operator<< prints
   an int).  The scalar importer Data<int> / Data<unsigned> returns the components in reading order when the separator is white
   space or every element has one component; every batch size >= 1; comment character not a digit (nor '-'). *)
Theorem C19_export_import_roundtrip_int_scalars_partial :
  forall cm sep rows m, is_digit cm = false -> (cm =? 45)%N = false -> 1 <= m ->
  (is_space sep = true \/ Forall (fun r => length r = 1) rows) ->
  Forall (fun r => r <> [] /\ Forall (fun z => in_int32 z = true) r) rows ->
  exists ds, csv_import_ints cm m (export_data sep (map (map int_tok) rows)) = Ok ds /\
             map snd (ds_elems ds) = concat rows /\ opt_batched m (ds_batches ds).
Proof. exact int_scalar_roundtrip. Qed.
Print Assumptions C19_export_import_roundtrip_int_scalars_partial.

Theorem C19_export_import_roundtrip_uint_scalars_partial :
  forall cm sep (rows : list (list N)) m, is_digit cm = false -> 1 <= m ->
  (is_space sep = true \/ Forall (fun r => length r = 1) rows) ->
  Forall (fun r => r <> [] /\ Forall (fun n => (n <= 4294967295)%N) r) rows ->
  exists ds, csv_import_uints cm m (export_data sep (map (map (fun n => int_tok (Z.of_N n))) rows)) = Ok ds /\
             map snd (ds_elems ds) = map Z.of_N (concat rows) /\ opt_batched m (ds_batches ds).
Proof. exact uint_scalar_roundtrip. Qed.
Print Assumptions C19_export_import_roundtrip_uint_scalars_partial.

Example C19_scalar_roundtrip_examples :
  csv_import_ints 35%N 2 (export_data 32%N (map (map int_tok) [[5; -3]; [7; 8]]%Z)) =
    Ok (mkDs [[(tt, 5%Z); (tt, (-3)%Z)]; [(tt, 7%Z); (tt, 8%Z)]] 0) /\
  csv_import_uints 35%N 2 (export_data 44%N (map (map (fun n => int_tok (Z.of_N n))) [[5]; [6]]%N)) =
    Ok (mkDs [[(tt, 5%Z); (tt, 6%Z)]] 0).
Proof. exact scalar_roundtrip_examples. Qed.
