(* C19 — Text importers are memory-safe on any input and round-trip exported data.
   Only statements + `exact`; proofs in C19Proofs.v / C19RoundTrip.v, executable model in C19Model.v.

   PROVED (about the model, for every byte string, separator, comment character, label position, batch size):
   every importer overload returns either a well-formed dataset (all records of the reported dimension,
   labels in [0, class count), elements = parsed records in order, no empty batch, no batch larger than
   requested) or the library exception; the outcome Fault (undefined behaviour of the C++: division by zero,
   write outside an element, *end() of an empty range) is unreachable for maximumBatchSize >= 1 (CSV) and for
   the LibSVM importer AS REPAIRED in /repo (commits b597e6a8, de125c41, 0d98833e: records with non-increasing
   indices rejected, no record -> empty dataset, shape = element dimension; the theorems keep the name
   `_repaired_`).  The LibSVM importer as coded BEFORE these commits reaches Fault: C19_F10_..., C19_F11_...
   (findings F10, F11; kept as regression witnesses about the `_coded` definitions of the model).
   COMPARED on every run (tools/c19.py): model = compiled importers on generated files (exact on numbers
   with <= 15 digits), exporters = printers.  MONITORED only: memory safety / termination / exception type
   of the compiled Spirit parsers on arbitrary bytes (ASan+UBSan, SIGALRM); token <-> double conversion;
   LibSVM export round trip.  The full-strength statement "for all byte strings the C++ importer never reads
   or writes out of bounds" is a statement about compiled code and is not a Coq theorem here: the theorems are
   named _partial. *)
From Coq Require Import List Arith ZArith NArith Bool.
From SharkV Require Import ListAux C03Model C19Model C19Proofs C19RoundTrip.
Import ListNotations.

Theorem C19_csv_data_import_total_partial :
  forall sep cm m s, 1 <= m ->
  match csv_import_data sep cm m s with
  | Ok d => exists rows, read_values cm sep s = Some rows /\ map snd (ds_elems d) = rows /\
                         wf_batches m (ds_batches d) /\ wf_dense_dim d
  | Exc => True
  | Fault => False
  end.
Proof. exact csv_data_import_total. Qed.
Print Assumptions C19_csv_data_import_total_partial.

Theorem C19_csv_regression_import_total_partial :
  forall first nout sep cm m s, 1 <= m ->
  match csv_import_reg first nout sep cm m s with
  | Ok d => exists rows, read_values cm sep s = Some rows /\ ds_elems d = map (split_reg first nout) rows /\
                         wf_batches m (ds_batches d) /\
                         (forall l v, In (l, v) (ds_elems d) -> length l = nout /\ Z.of_nat (length v) = ds_dim d)
  | Exc => True
  | Fault => False
  end.
Proof. exact csv_reg_import_total. Qed.
Print Assumptions C19_csv_regression_import_total_partial.

Theorem C19_csv_classification_import_total_partial :
  forall first sep cm m s, 1 <= m ->
  match csv_import_cls first sep cm m s with
  | Ok d => exists rows, read_points cm sep first s = Some rows /\ map snd (ds_elems d) = map snd rows /\
                         wf_batches m (ds_batches d) /\ wf_dense_dim d /\ wf_labels (map fst (ds_elems d))
  | Exc => True
  | Fault => False
  end.
Proof. exact csv_cls_import_total. Qed.
Print Assumptions C19_csv_classification_import_total_partial.

Theorem C19_csv_scalar_import_total_partial :
  forall (T : Type) (lexT : list byte -> option (T * list byte)) cm m s, 1 <= m ->
  match lift (read_scalars cm lexT s) (fun v => post_scalar v m) with
  | Ok d => exists vals, read_scalars cm lexT s = Some vals /\ map snd (ds_elems d) = vals /\ wf_batches m (ds_batches d)
  | Exc => True
  | Fault => False
  end.
Proof. exact @csv_scalar_import_total. Qed.
Print Assumptions C19_csv_scalar_import_total_partial.

Theorem C19_libsvm_classification_import_total_repaired_partial :
  forall compressed hi bsz s,
  match svm_import_cls compressed hi bsz s with
  | Ok d => exists recs, read_svm s = Some recs /\ length (ds_elems d) = length recs /\
                         wf_batches0 bsz (ds_batches d) /\ wf_sparse_dim d /\ wf_labels (map fst (ds_elems d))
  | Exc => True
  | Fault => False
  end.
Proof. exact svm_cls_import_total. Qed.
Print Assumptions C19_libsvm_classification_import_total_repaired_partial.

Theorem C19_libsvm_regression_import_total_repaired_partial :
  forall compressed hi bsz s,
  match svm_import_reg compressed hi bsz s with
  | Ok d => exists recs, read_svm s = Some recs /\ map fst (ds_elems d) = map fst recs /\
                         length (ds_elems d) = length recs /\ wf_batches0 bsz (ds_batches d) /\ wf_sparse_dim d
  | Exc => True
  | Fault => False
  end.
Proof. exact svm_reg_import_total. Qed.
Print Assumptions C19_libsvm_regression_import_total_repaired_partial.

(* findings F10 / F11 as theorems about the importer as coded *)
Theorem C19_F10_unsorted_indices_fault_as_coded :
  svm_import_cls_coded false 0 256 (bytes_of [49;32;53;58;49;32;50;58;49;10]) = Fault /\
  svm_import_cls false 0 256 (bytes_of [49;32;53;58;49;32;50;58;49;10]) = Exc.
Proof. exact f10_unsorted_faults. Qed.
Print Assumptions C19_F10_unsorted_indices_fault_as_coded.

Theorem C19_F10_zero_index_not_first_fault_as_coded :
  svm_import_reg_coded false 0 256 (bytes_of [49;32;51;58;49;32;48;58;50;10]) = Fault /\
  svm_import_reg_coded true 0 256 (bytes_of [49;32;51;58;49;32;48;58;50;10]) = Fault.
Proof. exact f10_zero_not_first_faults. Qed.
Print Assumptions C19_F10_zero_index_not_first_fault_as_coded.

Theorem C19_F11_empty_input_fault_as_coded :
  svm_import_cls_coded false 0 256 [] = Fault /\ svm_import_cls false 0 256 [] = Ok (mkDs [] 0).
Proof. exact f11_empty_faults. Qed.
Print Assumptions C19_F11_empty_input_fault_as_coded.

(* Round trip.  Full statement of the property: for every dataset d (unlabeled, classification, regression), every
   separator, label position and batch size, import (export d) = Ok d' with elements d' = elements d up to the printed
   precision.  PROVED below for unlabeled and regression datasets written with a separator CHARACTER (chars_ok: not a
   digit, not white space, different from the comment character; comment character not a digit/sign/newline), numbers
   as printed scientific tokens (sci_tok: [-]d.ddd..e[+-]dd), any label position, any batch size >= 1: hence _partial.
   Classification files, white-space separators and the LibSVM format are compared/monitored by tools/c19.py only
   (the classification importer re-bases labels on the smallest label: see the finding label-shift). *)
Theorem C19_export_import_roundtrip_data_partial :
  forall sep cm, chars_ok sep cm ->
  forall rows d m, 1 <= m -> 1 <= d -> rows <> [] ->
  Forall (fun r => length r = d /\ Forall sci_tok r) rows ->
  exists ds, csv_import_data sep cm m (export_data sep rows) = Ok ds /\
             map snd (ds_elems ds) = rows /\ ds_dim ds = Z.of_nat d /\ wf_batches m (ds_batches ds).
Proof. exact data_roundtrip. Qed.
Print Assumptions C19_export_import_roundtrip_data_partial.

Theorem C19_export_import_roundtrip_regression_partial :
  forall sep cm, chars_ok sep cm ->
  forall first nout rows d m, 1 <= m -> 1 <= nout -> 1 <= d -> rows <> [] ->
  Forall (fun r => length (fst r) = nout /\ length (snd r) = d /\ Forall sci_tok (fst r) /\ Forall sci_tok (snd r)) rows ->
  exists ds, csv_import_reg first nout sep cm m (export_reg first sep rows) = Ok ds /\
             ds_elems ds = rows /\ ds_dim ds = Z.of_nat d /\ wf_batches m (ds_batches ds).
Proof. exact reg_roundtrip. Qed.
Print Assumptions C19_export_import_roundtrip_regression_partial.

(* the hypotheses are satisfiable and the outcomes inhabited *)
Example C19_chars_ok_comma_hash : chars_ok 44%N 35%N.
Proof. exact chars_ok_comma_hash. Qed.
Example C19_tokens_sci : sci_tok tok_1_5 /\ sci_tok tok_m2_25em3.
Proof. exact tok_examples_sci. Qed.
Example C19_roundtrip_example :
  csv_import_data 44%N 35%N 1 (export_data 44%N [[tok_1_5; tok_m2_25em3]; [tok_m2_25em3; tok_1_5]]) =
  Ok (mkDs [[(tt, [tok_1_5; tok_m2_25em3])]; [(tt, [tok_m2_25em3; tok_1_5])]] 2).
Proof. exact roundtrip_example. Qed.
(* "1,2\n3,4\n" with ',' '#' and batches of 1;  "1,2\n3\n" is ragged;  maximumBatchSize = 0 is outside the domain *)
Example C19_example_ok :
  csv_import_data 44%N 35%N 1 (bytes_of [49;44;50;10;51;44;52;10]) =
  Ok (mkDs [[(tt, [NDec None [49%N] false [] None; NDec None [50%N] false [] None])];
            [(tt, [NDec None [51%N] false [] None; NDec None [52%N] false [] None])]] 2).
Proof. exact example_ok. Qed.
Example C19_example_ragged_exc : csv_import_data 44%N 35%N 1 (bytes_of [49;44;50;10;51;10]) = Exc.
Proof. exact example_ragged_exc. Qed.
Example C19_example_max_batch_zero_faults : csv_import_data 44%N 35%N 0 [49%N; 10%N] = Fault.
Proof. exact csv_max_batch_zero_faults. Qed.
