(* C01 — proofs about the sparse vector storage and the sparse assignment kernels (C01SparseModel.v). *)
From Coq Require Import ZArith List Bool Arith Lia.
From SharkV Require Import ListAux C01SparseModel.
Import ListNotations.
Open Scope Z_scope.

(* ---------- lists of (index, value) ---------- *)
Lemma lookup_app i a b :
  lookup i (a ++ b) = match lookup i a with Some x => Some x | None => lookup i b end.
Proof.
  induction a as [|[j x] a IH]; simpl; auto. destruct (i =? j)%nat; auto.
Qed.

Lemma lookup_none i l : (forall e, In e l -> fst e <> i) -> lookup i l = None.
Proof.
  induction l as [|[j x] l IH]; simpl; intros H; auto.
  destruct (Nat.eqb_spec i j) as [->|N].
  - exfalso. apply (H (j, x)); auto.
  - apply IH. intros e He. apply H; auto.
Qed.

Lemma lookup_in i l x : lookup i l = Some x -> In (i, x) l.
Proof.
  induction l as [|[j y] l IH]; simpl; try discriminate.
  destruct (Nat.eqb_spec i j) as [->|N]; intros H.
  - inversion H; auto.
  - right; auto.
Qed.

Lemma sorted_in_bounds lo hi l e : sorted_in lo hi l -> In e l -> (lo <= fst e < hi)%nat.
Proof.
  revert lo; induction l as [|[j x] l IH]; simpl; intros lo H He; [tauto|].
  destruct H as (H1 & H2 & H3). destruct He as [<-|He]; simpl; [lia|].
  specialize (IH _ H3 He). lia.
Qed.

Lemma sorted_in_weaken lo lo' hi l : (lo' <= lo)%nat -> sorted_in lo hi l -> sorted_in lo' hi l.
Proof. destruct l as [|[j x] l]; simpl; auto. intros ? (?&?&?). repeat split; auto; lia. Qed.

Lemma sorted_in_cons lo hi j x l :
  sorted_in lo hi ((j, x) :: l) <->
  (lo <= j < hi)%nat /\ sorted_in lo hi l /\ (forall e, In e l -> (j < fst e)%nat).
Proof.
  simpl. split.
  - intros (H1 & H2 & H3). repeat split; auto.
    + eapply sorted_in_weaken; [|exact H3]. lia.
    + intros e He. pose proof (sorted_in_bounds _ _ _ _ H3 He). lia.
  - intros ((H1 & H2) & H3 & H4). repeat split; auto.
    clear H1 H2. revert H3 H4. generalize lo. induction l as [|[k y] l IH]; simpl; auto.
    intros lo0 (A & B & C) H4. repeat split; auto.
    specialize (H4 (k, y) (or_introl eq_refl)). simpl in H4. lia.
Qed.

Lemma sorted_in_app lo hi a b :
  sorted_in lo hi (a ++ b) <->
  sorted_in lo hi a /\ sorted_in lo hi b /\ (forall x y, In x a -> In y b -> (fst x < fst y)%nat).
Proof.
  induction a as [|[j x] a IH].
  - simpl. split; [intros H; repeat split; auto; tauto | tauto].
  - rewrite <- app_comm_cons. rewrite !sorted_in_cons, IH. split.
    + intros (H1 & (H2 & H3 & H4) & H5). repeat split; auto; try lia.
      * intros e He. apply H5. apply in_or_app; auto.
      * intros u w [<-|Hu] Hw; simpl; [apply H5; apply in_or_app; auto | apply H4; auto].
    + intros ((H1 & H2 & H3) & H4 & H5). repeat split; auto; try lia.
      * intros u w Hu Hw. apply H5; simpl; auto.
      * intros e He. apply in_app_or in He. destruct He as [He|He]; [apply H3; auto|].
        apply (H5 (j, x) e); simpl; auto.
Qed.

Lemma sorted_app_i lo hi a b :
  sorted_in lo hi a -> sorted_in lo hi b -> (forall x y, In x a -> In y b -> (fst x < fst y)%nat) ->
  sorted_in lo hi (a ++ b).
Proof. intros. apply sorted_in_app. auto. Qed.

Lemma sorted_cons_i lo hi j x l :
  (lo <= j < hi)%nat -> sorted_in lo hi l -> (forall e, In e l -> (j < fst e)%nat) -> sorted_in lo hi ((j, x) :: l).
Proof. intros. apply sorted_in_cons. auto. Qed.

Lemma sorted_in_length lo hi l : sorted_in lo hi l -> (length l <= hi - lo)%nat.
Proof.
  revert lo; induction l as [|[j x] l IH]; simpl; intros lo H; [lia|].
  destruct H as (H1 & H2 & H3). specialize (IH _ H3). lia.
Qed.

Lemma sorted_inb_spec lo hi l : sorted_inb lo hi l = true <-> sorted_in lo hi l.
Proof.
  revert lo; induction l as [|[j x] l IH]; simpl; intros lo; [tauto|].
  rewrite !andb_true_iff, Nat.leb_le, Nat.ltb_lt, IH. tauto.
Qed.

Lemma sv_invb_spec v : sv_invb v = true <-> sv_inv v.
Proof. unfold sv_invb, sv_inv. rewrite andb_true_iff, sorted_inb_spec, Nat.leb_le. tauto. Qed.

Lemma nth_app_len {A} (pre suf : list A) d : nth (length pre) (pre ++ suf) d = nth 0 suf d.
Proof. rewrite app_nth2 by lia. rewrite Nat.sub_diag. reflexivity. Qed.

Lemma firstn_app_len {A} (pre suf : list A) : firstn (length pre) (pre ++ suf) = pre.
Proof. rewrite firstn_app, Nat.sub_diag, firstn_all. simpl. apply app_nil_r. Qed.

Lemma skipn_app_len {A} (pre suf : list A) : skipn (length pre) (pre ++ suf) = suf.
Proof. rewrite skipn_app, Nat.sub_diag, skipn_all. reflexivity. Qed.

Lemma skipn_S_app_len {A} (pre suf : list A) e : skipn (S (length pre)) (pre ++ e :: suf) = suf.
Proof.
  replace (S (length pre)) with (length (pre ++ [e])) by (rewrite app_length; simpl; lia).
  replace (pre ++ e :: suf) with ((pre ++ [e]) ++ suf) by (rewrite <- app_assoc; reflexivity).
  apply skipn_app_len.
Qed.

Lemma skipn_plus {A} (l : list A) m n : skipn n (skipn m l) = skipn (m + n) l.
Proof.
  revert l; induction m as [|m IH]; intros l; simpl; auto.
  destruct l; simpl; auto. destruct n; reflexivity.
Qed.

(* ---------- set_element, computed on a split of the element list ---------- *)
Definition grow_cap (v : svec) : nat :=
  if (sv_nnz v =? sv_cap v)%nat
  then (if (Nat.min (Nat.max 5 (2 * sv_cap v)) (sv_size v) <=? sv_cap v)%nat then sv_cap v
        else Nat.min (Nat.max 5 (2 * sv_cap v)) (sv_size v))
  else sv_cap v.

Lemma set_element_split v pre suf idx x :
  sv_el v = pre ++ suf ->
  sv_set_element v (length pre) idx x =
  match suf with
  | (j, y) :: suf' =>
      if (j =? idx)%nat then (mkSV (sv_size v) (sv_cap v) (pre ++ (idx, x) :: suf'), S (length pre))
      else (mkSV (sv_size v) (grow_cap v) (pre ++ (idx, x) :: suf), S (length pre))
  | [] => (mkSV (sv_size v) (grow_cap v) (pre ++ [(idx, x)]), S (length pre))
  end.
Proof.
  intros E. unfold sv_set_element, sv_setval, idx_at, grow_cap, sv_nnz, sv_reserve. rewrite E.
  rewrite nth_app_len, firstn_app_len, skipn_app_len.
  destruct suf as [|[j y] suf'].
  - rewrite app_nil_r, Nat.eqb_refl. simpl negb. cbn [andb].
    destruct (length pre =? sv_cap v)%nat; [|reflexivity].
    destruct (_ <=? sv_cap v)%nat; reflexivity.
  - assert (L : (length pre =? length (pre ++ (j, y) :: suf'))%nat = false).
    { apply Nat.eqb_neq. rewrite app_length. simpl. lia. }
    rewrite L. cbn [negb andb nth fst].
    destruct (Nat.eqb_spec j idx) as [->|N].
    + rewrite skipn_S_app_len. reflexivity.
    + destruct (_ =? sv_cap v)%nat; [|reflexivity].
      destruct (_ <=? sv_cap v)%nat; reflexivity.
Qed.

Lemma grow_cap_ok v : (sv_nnz v <= sv_cap v)%nat -> (sv_nnz v < sv_size v)%nat -> (S (sv_nnz v) <= grow_cap v)%nat.
Proof.
  unfold grow_cap. intros H1 H2.
  destruct (Nat.eqb_spec (sv_nnz v) (sv_cap v)) as [E|N]; [|lia].
  destruct (Nat.leb_spec (Nat.min (Nat.max 5 (2 * sv_cap v)) (sv_size v)) (sv_cap v)); lia.
Qed.

Lemma grow_cap_ge v : (sv_cap v <= grow_cap v)%nat.
Proof.
  unfold grow_cap. destruct (_ =? _)%nat; [|lia].
  destruct (Nat.leb_spec (Nat.min (Nat.max 5 (2 * sv_cap v)) (sv_size v)) (sv_cap v)); lia.
Qed.

(* position precondition of set_element: everything before pos is smaller, everything from pos on is >= idx *)
Definition pos_ok (v : svec) (pos idx : nat) : Prop :=
  (pos <= sv_nnz v)%nat /\ (idx < sv_size v)%nat /\
  (forall e, In e (firstn pos (sv_el v)) -> (fst e < idx)%nat) /\
  (forall e, In e (skipn pos (sv_el v)) -> (idx <= fst e)%nat).

Theorem set_element_correct v pos idx x :
  sv_inv v -> pos_ok v pos idx ->
  let v' := fst (sv_set_element v pos idx x) in
  sv_inv v' /\ snd (sv_set_element v pos idx x) = S pos /\ sv_size v' = sv_size v /\
  (sv_cap v <= sv_cap v')%nat /\
  (forall i, sden v' i = if (i =? idx)%nat then x else sden v i) /\
  (forall i, stored v' i = (i =? idx)%nat || stored v i).
Proof.
  intros [S0 C0] (P1 & P2 & P3 & P4).
  set (pre := firstn pos (sv_el v)) in *. set (suf := skipn pos (sv_el v)) in *.
  assert (E : sv_el v = pre ++ suf) by (symmetry; apply firstn_skipn).
  assert (Lp : length pre = pos) by (apply firstn_length_le; exact P1).
  rewrite <- Lp. rewrite (set_element_split v pre suf idx x E).
  rewrite E in S0. apply sorted_in_app in S0. destruct S0 as (Sp & Ss & Sx).
  assert (LK : lookup idx pre = None).
  { apply lookup_none. intros e He. specialize (P3 e He). lia. }
  assert (DEN : forall tl : list (nat * Z), forall i,
            match lookup i (pre ++ (idx, x) :: tl) with Some z => z | None => 0 end =
            if (i =? idx)%nat then x else match lookup i (pre ++ tl) with Some z => z | None => 0 end).
  { intros tl i. rewrite !lookup_app. simpl. destruct (Nat.eqb_spec i idx) as [->|N].
    - rewrite LK. reflexivity.
    - reflexivity. }
  assert (STO : forall tl : list (nat * Z), forall i,
            match lookup i (pre ++ (idx, x) :: tl) with Some _ => true | None => false end =
            (i =? idx)%nat || match lookup i (pre ++ tl) with Some _ => true | None => false end).
  { intros tl i. rewrite !lookup_app. simpl. destruct (Nat.eqb_spec i idx) as [->|N].
    - rewrite LK. reflexivity.
    - reflexivity. }
  destruct suf as [|[j y] suf'] eqn:Esuf.
  - (* append at the end *)
    cbn [fst snd sv_size sv_cap]. unfold sv_inv, sden, stored, sv_nnz. cbn [sv_el sv_size sv_cap].
    assert (SI : sorted_in 0 (sv_size v) (pre ++ [(idx, x)])).
    { apply sorted_app_i; auto.
      - simpl. repeat split; auto; lia.
      - intros u w Hu [<-|[]]. simpl. apply P3; auto. }
    repeat split; auto.
    + pose proof (sorted_in_length _ _ _ SI) as L. rewrite app_length in L. simpl in L.
      rewrite app_length. simpl. rewrite app_nil_r in E.
      assert (sv_nnz v = length pre) by (unfold sv_nnz; rewrite E; reflexivity).
      pose proof (grow_cap_ok v C0). lia.
    + apply grow_cap_ge.
    + intros i. rewrite (DEN [] i). rewrite E. reflexivity.
    + intros i. rewrite (STO [] i). rewrite E. reflexivity.
  - destruct (Nat.eqb_spec j idx) as [->|N].
    + (* the element exists: overwrite *)
      cbn [fst snd sv_size sv_cap]. unfold sv_inv, sden, stored, sv_nnz. cbn [sv_el sv_size sv_cap].
      apply sorted_in_cons in Ss. destruct Ss as (B & Ss' & Sh).
      assert (LKs : lookup idx suf' = None).
      { apply lookup_none. intros e He. specialize (Sh e He). lia. }
      repeat split; auto.
      * apply sorted_app_i; auto.
        -- apply sorted_cons_i; auto; lia.
        -- intros u w Hu [<-|Hw]; [simpl; apply P3; auto | apply Sx; simpl; auto].
      * unfold sv_nnz in C0. rewrite E in C0. rewrite !app_length in *. simpl in *. lia.
      * intros i. rewrite (DEN suf' i). rewrite E. rewrite !lookup_app. simpl.
        destruct (Nat.eqb_spec i idx) as [->|Ni]; auto.
      * intros i. rewrite (STO suf' i). rewrite E. rewrite !lookup_app. simpl.
        destruct (Nat.eqb_spec i idx) as [->|Ni]; auto.
    + (* insert before a larger index *)
      cbn [fst snd sv_size sv_cap]. unfold sv_inv, sden, stored, sv_nnz. cbn [sv_el sv_size sv_cap].
      assert (J : (idx < j)%nat).
      { specialize (P4 (j, y) (or_introl eq_refl)). simpl in P4. lia. }
      assert (SI : sorted_in 0 (sv_size v) (pre ++ (idx, x) :: (j, y) :: suf')).
      { apply sorted_app_i; auto.
        - apply sorted_cons_i; auto; try lia.
          intros e He. specialize (P4 e He). destruct He as [<-|He]; simpl; [lia|].
          apply sorted_in_cons in Ss. destruct Ss as (_ & _ & Sh). specialize (Sh e He). lia.
        - intros u w Hu [<-|Hw]; [simpl; apply P3; auto | apply Sx; auto]. }
      repeat split; auto.
      * pose proof (sorted_in_length _ _ _ SI) as L. rewrite app_length in L. simpl in L.
        rewrite app_length. simpl.
        assert (sv_nnz v = (length pre + S (length suf'))%nat).
        { unfold sv_nnz. rewrite E, app_length. reflexivity. }
        pose proof (grow_cap_ok v C0). lia.
      * apply grow_cap_ge.
      * intros i. rewrite (DEN _ i). rewrite E. reflexivity.
      * intros i. rewrite (STO _ i). rewrite E. reflexivity.
Qed.

(* reserve and clear_range keep the invariant; reserve keeps the denotation, clear_range removes exactly the range *)
Lemma reserve_correct v n :
  sv_inv v -> sv_inv (sv_reserve v n) /\ sv_el (sv_reserve v n) = sv_el v /\ sv_size (sv_reserve v n) = sv_size v /\
              (n <= sv_cap (sv_reserve v n))%nat.
Proof.
  unfold sv_reserve, sv_inv, sv_nnz. intros [S C].
  destruct (Nat.leb_spec n (sv_cap v)); cbn [sv_el sv_size sv_cap]; repeat split; auto; lia.
Qed.

Lemma clear_range_inv v a b : sv_inv v -> (a <= b)%nat -> sv_inv (sv_clear_range v a b).
Proof.
  unfold sv_inv, sv_clear_range, sv_nnz. cbn [sv_el sv_size sv_cap]. intros [S C] AB.
  rewrite <- (firstn_skipn a (sv_el v)) in S. apply sorted_in_app in S. destruct S as (S1 & S2 & S3).
  assert (K : skipn b (sv_el v) = skipn (b - a) (skipn a (sv_el v))).
  { rewrite skipn_plus. f_equal. lia. }
  split.
  - apply sorted_app_i; auto.
    + rewrite K. rewrite <- (firstn_skipn (b - a) (skipn a (sv_el v))) in S2.
      apply sorted_in_app in S2. tauto.
    + intros x y Hx Hy. apply S3; auto. rewrite K in Hy.
      rewrite <- (firstn_skipn (b - a) (skipn a (sv_el v))). apply in_or_app; auto.
  - rewrite app_length, firstn_length, skipn_length. lia.
Qed.

Lemma clear_correct v :
  sv_inv v -> sv_inv (sv_clear v) /\ sv_el (sv_clear v) = [] /\ sv_size (sv_clear v) = sv_size v /\
              sv_cap (sv_clear v) = sv_cap v.
Proof.
  intros H. split; [apply clear_range_inv; auto; lia|].
  unfold sv_clear, sv_clear_range, sv_nnz. cbn [sv_el sv_size sv_cap]. rewrite skipn_all. auto.
Qed.

(* ---------- appending at the end: the loop of the plain kernels ---------- *)
Lemma sv_fill_end_gen src : forall v p, p = length (sv_el v) ->
  sv_el (fst (sv_fill v p src)) = sv_el v ++ src /\
  sv_size (fst (sv_fill v p src)) = sv_size v /\
  snd (sv_fill v p src) = (p + length src)%nat /\
  ((p <= sv_cap v)%nat -> (p + length src <= sv_size v)%nat ->
   (p + length src <= sv_cap (fst (sv_fill v p src)))%nat) /\
  (sv_cap v <= sv_cap (fst (sv_fill v p src)))%nat.
Proof.
  induction src as [|[j y] s IH]; intros v p ->.
  - simpl. rewrite app_nil_r. repeat split; auto; lia.
  - cbn [sv_fill].
    pose proof (set_element_split v (sv_el v) [] j y (eq_sym (app_nil_r _))) as E. cbn iota in E.
    rewrite E. clear E.
    set (v1 := mkSV (sv_size v) (grow_cap v) (sv_el v ++ [(j, y)])).
    assert (N1 : S (length (sv_el v)) = length (sv_el v1)).
    { unfold v1. cbn [sv_el]. rewrite app_length. simpl. lia. }
    destruct (IH v1 _ N1) as (A & B & C & D & F).
    split; [|split; [|split; [|split]]].
    + rewrite A. unfold v1. cbn [sv_el]. rewrite <- app_assoc. reflexivity.
    + rewrite B. reflexivity.
    + rewrite C. simpl. lia.
    + intros H1 H2. cbn [length] in *.
      assert (G : (S (length (sv_el v)) <= grow_cap v)%nat) by (apply grow_cap_ok; unfold sv_nnz; lia).
      replace (sv_cap v1) with (grow_cap v) in D by reflexivity.
      replace (sv_size v1) with (sv_size v) in D by reflexivity. lia.
    + etransitivity; [apply grow_cap_ge|]. exact F.
Qed.

Lemma sv_fill_end v src :
  sv_el (fst (sv_fill v (sv_nnz v) src)) = sv_el v ++ src /\
  sv_size (fst (sv_fill v (sv_nnz v) src)) = sv_size v /\
  snd (sv_fill v (sv_nnz v) src) = (sv_nnz v + length src)%nat /\
  ((sv_nnz v <= sv_cap v)%nat -> (sv_nnz v + length src <= sv_size v)%nat ->
   (sv_nnz v + length src <= sv_cap (fst (sv_fill v (sv_nnz v) src)))%nat) /\
  (sv_cap v <= sv_cap (fst (sv_fill v (sv_nnz v) src)))%nat.
Proof. apply sv_fill_end_gen. reflexivity. Qed.

(* ---------- plain assignment kernels ---------- *)
Theorem assign_ss_correct v e :
  sv_inv v -> sv_inv e -> sv_size v = sv_size e ->
  let r := k_assign_ss v e in
  sv_inv r /\ sv_size r = sv_size v /\ sv_el r = sv_el e /\ (forall i, sden r i = sden e i).
Proof.
  intros Hv He Hs. unfold k_assign_ss.
  destruct (clear_correct v Hv) as (Ci & Ce & Cs & Cc).
  set (c := sv_clear v) in *.
  assert (N0 : 0%nat = length (sv_el c)) by (rewrite Ce; reflexivity).
  destruct (sv_fill_end_gen (sv_el e) c 0%nat N0) as (A & B & _ & D & _).
  rewrite Ce in A. simpl in A. destruct He as [Se Cap].
  assert (R : sv_inv (fst (sv_fill c 0 (sv_el e)))).
  { split.
    - rewrite A, B, Cs, Hs. exact Se.
    - unfold sv_nnz at 1. rewrite A. simpl in D. apply D.
      + lia.
      + pose proof (sorted_in_length _ _ _ Se). try rewrite Cs. lia. }
  cbv zeta. repeat split; try apply R; try congruence.
  intros i. unfold sden. rewrite A. reflexivity.
Qed.

(* dense <- sparse *)
Lemma fold_upd_length (src : list (nat * Z)) d :
  length (fold_left (fun acc jy => upd (fst jy) (snd jy) acc) src d) = length d.
Proof. revert d; induction src as [|[j y] s IH]; simpl; intros d; auto. rewrite IH. apply upd_length. Qed.

Lemma fold_upd_nth lo hi (src : list (nat * Z)) d i :
  sorted_in lo hi src -> (hi <= length d)%nat ->
  nth i (fold_left (fun acc jy => upd (fst jy) (snd jy) acc) src d) 0 =
  match lookup i src with Some x => x | None => nth i d 0 end.
Proof.
  revert lo d; induction src as [|[j y] s IH]; simpl; intros lo d S L; auto.
  destruct S as (S1 & S2 & S3).
  rewrite (IH (Datatypes.S j) (upd j y d) S3) by (rewrite upd_length; exact L).
  destruct (Nat.eqb_spec i j) as [->|N].
  - rewrite (lookup_none j s).
    + apply nth_upd_eq. lia.
    + intros e He. pose proof (sorted_in_bounds _ _ _ _ S3 He). lia.
  - destruct (lookup i s); auto. apply nth_upd_neq. auto.
Qed.

Lemma nth_repeat_0 n i : nth i (repeat 0 n) 0 = 0.
Proof. revert i; induction n; intros [|i]; simpl; auto. Qed.

Theorem assign_ds_correct d e :
  sv_inv e -> length d = sv_size e ->
  length (k_assign_ds d e) = length d /\ (forall i, dden (k_assign_ds d e) i = sden e i).
Proof.
  intros [Se _] L. unfold k_assign_ds, dclear. split.
  - rewrite fold_upd_length. apply repeat_length.
  - intros i. unfold dden, sden. rewrite (fold_upd_nth 0 (sv_size e)); auto.
    + destruct (lookup i (sv_el e)); auto. apply nth_repeat_0.
    + rewrite repeat_length. lia.
Qed.

(* sparse <- dense: every index becomes a stored element *)
Fixpoint enum_from (i : nat) (l : list Z) : list (nat * Z) :=
  match l with [] => [] | y :: s => (i, y) :: enum_from (S i) s end.

Lemma sv_fill_dense_as_fill v pos i src : sv_fill_dense v pos i src = sv_fill v pos (enum_from i src).
Proof.
  revert v pos i; induction src as [|y s IH]; intros v pos i; simpl; auto.
  destruct (sv_set_element v pos i y). apply IH.
Qed.

Lemma enum_from_sorted i l hi : (i + length l <= hi)%nat -> sorted_in i hi (enum_from i l).
Proof.
  revert i; induction l as [|y s IH]; simpl; intros i H; auto.
  repeat split; try lia. apply IH. lia.
Qed.

Lemma enum_from_length i l : length (enum_from i l) = length l.
Proof. revert i; induction l; simpl; intros; auto. Qed.

Lemma enum_from_lookup k i l :
  lookup k (enum_from i l) = if (i <=? k)%nat && (k <? i + length l)%nat then Some (nth (k - i) l 0) else None.
Proof.
  revert i; induction l as [|y s IH]; intros i; cbn [enum_from lookup length].
  - destruct (Nat.leb_spec i k); destruct (Nat.ltb_spec k (i + 0)); cbn [andb]; auto; lia.
  - rewrite IH. destruct (Nat.eqb_spec k i) as [->|N].
    + rewrite Nat.leb_refl. destruct (Nat.ltb_spec i (i + S (length s))); [|lia].
      rewrite Nat.sub_diag. reflexivity.
    + destruct (Nat.leb_spec (S i) k), (Nat.leb_spec i k), (Nat.ltb_spec k (S i + length s)),
               (Nat.ltb_spec k (i + S (length s))); try lia; cbn [andb]; auto.
      replace (k - i)%nat with (S (k - S i)) by lia. reflexivity.
Qed.

Theorem assign_sd_correct v e :
  sv_inv v -> sv_size v = length e ->
  let r := k_assign_sd v e in
  sv_inv r /\ sv_size r = sv_size v /\ sv_nnz r = length e /\
  (forall i, (i < length e)%nat -> stored r i = true) /\
  (forall i, sden r i = dden e i).
Proof.
  intros Hv Hs. unfold k_assign_sd. rewrite sv_fill_dense_as_fill.
  destruct (clear_correct v Hv) as (Ci & Ce & Cs & Cc).
  destruct (reserve_correct (sv_clear v) (length e) Ci) as (Ri & Re & Rs & Rc).
  set (c := sv_reserve (sv_clear v) (length e)) in *.
  assert (N0 : 0%nat = length (sv_el c)) by (rewrite Re, Ce; reflexivity).
  destruct (sv_fill_end_gen (enum_from 0 e) c 0%nat N0) as (A & B & _ & D & _).
  rewrite Re, Ce in A. simpl in A.
  assert (SE : sorted_in 0 (sv_size v) (enum_from 0 e)) by (apply enum_from_sorted; lia).
  assert (R : sv_inv (fst (sv_fill c 0 (enum_from 0 e)))).
  { split.
    - rewrite A, B, Rs, Cs. exact SE.
    - unfold sv_nnz at 1. rewrite A. simpl in D. apply D.
      + lia.
      + rewrite enum_from_length. try rewrite Rs. try rewrite Cs. lia. }
  cbv zeta. repeat split; try apply R.
  - rewrite B, Rs, Cs. reflexivity.
  - unfold sv_nnz. rewrite A. apply enum_from_length.
  - intros i Hi. unfold stored. rewrite A, enum_from_lookup. simpl.
    replace (i <? length e)%nat with true by (symmetry; apply Nat.ltb_lt; lia). reflexivity.
  - intros i. unfold sden, dden. rewrite A, enum_from_lookup. simpl. rewrite Nat.sub_0_r.
    destruct (Nat.ltb_spec i (length e)); auto. symmetry. apply nth_overflow. lia.
Qed.
