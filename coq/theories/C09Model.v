(* C09 — executable model of shark::LRUCache<T> and shark::CachedMatrix<Matrix>.
   Definitions only (so that the model still runs when a proof breaks).

   The base matrix is the *free* matrix: entry (i,j) under the current variable order is the
   pair (id of variable i, id of variable j).  Every concrete kernel matrix is the image of this
   one under a function of the two ids, so statements about pairs carry over to every matrix.

   Mirrors include/shark/LinAlg/LRUCache.h and include/shark/LinAlg/CachedMatrix.h:
     getCacheLine / cacheCreateRow / cacheRedeclareNewest / resizeLine / cacheRemoveRow /
     ensureFreeMemory / markLineForDeletion / swapLineIndices / clear,
     CachedMatrix::row (both overloads) / flipColumnsAndRows / setMaxCachedIndex / clear. *)
From Coq Require Import List Arith Bool.
From SharkV Require Import ListAux.
Import ListNotations.

Definition T := (nat * nat)%type.
Definition garbage : T := (0, 0).   (* content of freshly allocated, not yet written cells *)

Record st := mk {
  perm  : list nat;          (* variable order: position -> id (base matrix state) *)
  ents  : list (list T);     (* cache line per index; [] = not cached (length 0)    *)
  lru   : list nat;          (* LRU list, head = newest, last = next to be evicted  *)
  csize : nat;               (* m_cacheSize *)
  cmax  : nat;               (* m_maxSize   *)
  err   : bool               (* set when the C++ would execute undefined behaviour  *)
}.

Definition size (s : st) : nat := length (perm s).
Definition line (s : st) (k : nat) : list T := nth k (ents s) [].
Definition linelen (s : st) (k : nat) : nat := length (line s k).

(* base matrix under the current order *)
Definition bent (p : list nat) (i j : nat) : T := (nth i p 0, nth j p 0).
Definition brow (p : list nat) (k a b : nat) : list T := map (bent p k) (seq a (b - a)).

Definition init (ids : list nat) (maxsz : nat) : st :=
  mk ids (repeat [] (length ids)) [] 0 maxsz false.

(* ---- LRUCache ---- *)

Definition remove_row (k : nat) (s : st) : st :=
  mk (perm s) (upd k [] (ents s)) (remove_nat k (lru s)) (csize s - linelen s k) (cmax s) (err s).

(* while(m_maxSize-m_cacheSize < size) cacheRemoveRow(m_lruList.back());
   fuel = number of listed lines; back() of an empty list is undefined behaviour *)
Fixpoint ensure_free (fuel need : nat) (s : st) : st :=
  if cmax s - csize s <? need then
    match fuel with
    | 0 => mk (perm s) (ents s) (lru s) (csize s) (cmax s) true
    | S f =>
      match last_opt (lru s) with
      | None => mk (perm s) (ents s) (lru s) (csize s) (cmax s) true
      | Some k => ensure_free f need (remove_row k s)
      end
    end
  else s.

Definition ensure_free' (need : nat) (s : st) : st := ensure_free (length (lru s)) need s.

Definition add_front (k : nat) (l : list T) (s : st) : st :=
  mk (perm s) (upd k l (ents s)) (k :: lru s) (csize s + length l) (cmax s) (err s).

Definition create_row (k sz : nat) (s : st) : st :=
  add_front k (repeat garbage sz) (ensure_free' sz s).

Definition redeclare_newest (k : nat) (s : st) : st :=
  mk (perm s) (ents s) (k :: remove_nat k (lru s)) (csize s) (cmax s) (err s).

(* resizeLine: copy min(old,new) entries, remove, free, re-insert at the front *)
Definition resize_line (k sz : nat) (s : st) : st :=
  let old := line s k in
  let nl := firstn sz old ++ repeat garbage (sz - length old) in
  add_front k nl (ensure_free' sz (remove_row k s)).

Definition get_line (k sz : nat) (s : st) : st :=
  if linelen s k =? 0 then create_row k sz s
  else if sz <=? linelen s k then redeclare_newest k s
  else resize_line k sz s.

Definition mark_for_deletion (k : nat) (s : st) : st :=
  if linelen s k =? 0 then s
  else mk (perm s) (ents s) (remove_nat k (lru s) ++ [k]) (csize s) (cmax s) (err s).

(* all three list-surgery cases of swapLineIndices amount to renaming i<->j in the list *)
Definition swap_line_indices (i j : nat) (s : st) : st :=
  if (i =? j) || ((linelen s i =? 0) && (linelen s j =? 0)) then s
  else mk (perm s) (swapl [] i j (ents s)) (map (tr i j) (lru s)) (csize s) (cmax s) (err s).

Definition lru_clear (s : st) : st := ensure_free' (cmax s) s.

(* ---- CachedMatrix ---- *)

(* QpFloatType* row(k, start, end): the returned line; model returns the new state, the line is
   [line s' k] *)
Definition cm_row (k e : nat) (s : st) : st :=
  let cached := linelen s k in
  let s1 := get_line k e s in
  if cached <? e then
    mk (perm s1) (upd k (firstn cached (line s1 k) ++ brow (perm s) k cached e) (ents s1))
       (lru s1) (csize s1) (cmax s1) (err s1)
  else s1.

(* void row(k,start,end,storage) const : out-of-order access, cache untouched.  Every caller in the
   library uses start = 0.  As repaired by f9a1ac31 the C++ copies the cached cells [0, min(cached,end)) and
   evaluates [min(cached,end), end) from the base matrix: exactly [end] cells are written.  (Before, the whole
   cached line was copied, past the end of the caller's buffer when cached > end.) *)
Definition cm_row_const (k e : nat) (s : st) : list T :=
  let c := Nat.min (linelen s k) e in
  firstn c (line s k) ++ brow (perm s) k c e.

Definition flip_line (p : list nat) (i j k : nat) (l : list T) : list T :=
  if length l <=? i then l
  else if j <? length l then upd i (nth j l garbage) (upd j (nth i l garbage) l)
  else upd i (bent p k j) l.

Definition cm_flip (i0 j0 : nat) (s : st) : st :=
  if i0 =? j0 then s else
  let i := Nat.min i0 j0 in let j := Nat.max i0 j0 in
  let ents1 := map (fun k => flip_line (perm s) i j k (nth k (ents s) [])) (seq 0 (length (ents s))) in
  let s1 := mk (perm s) ents1 (lru s) (csize s) (cmax s) (err s) in
  let s2 := swap_line_indices i j s1 in
  mk (swapl 0 i j (perm s2)) (ents s2) (lru s2) (csize s2) (cmax s2) (err s2).

Definition cm_set_max_cached_index (m : nat) (s : st) : st :=
  fold_left (fun s k => mark_for_deletion k s) (seq m (size s - m)) s.

(* ---- operations and histories ---- *)

Inductive op :=
| ORow (k e : nat)          (* row(k,0,e), 0 < e <= min(size,max) *)
| OFlip (i j : nat)
| OSetMax (m : nat)
| OClear
| OTrunc (k e : nat)        (* LRUCache::resizeLine(k,e) with 0 < e <= current length *)
| OMark (k : nat)           (* LRUCache::markLineForDeletion *)
| ORowC (k e : nat).        (* row(k,0,e,storage) const: observation only *)

(* the documented preconditions (SIZE_CHECKs and comments of the two classes) *)
Definition wf_op (s : st) (o : op) : bool :=
  match o with
  | ORow k e => (k <? size s) && (0 <? e) && (e <=? size s) && (e <=? cmax s)
  | OFlip i j => (i <? size s) && (j <? size s)
  | OSetMax m => m <=? size s
  | OClear => true
  | OTrunc k e => (k <? size s) && (0 <? e) && (e <=? linelen s k)
  | OMark k => k <? size s
  | ORowC k e => (k <? size s) && (e <=? size s)
  end.

Definition step (s : st) (o : op) : st :=
  if wf_op s o then
    match o with
    | ORow k e => cm_row k e s
    | OFlip i j => cm_flip i j s
    | OSetMax m => cm_set_max_cached_index m s
    | OClear => lru_clear s
    | OTrunc k e => resize_line k e s
    | OMark k => mark_for_deletion k s
    | ORowC _ _ => s
    end
  else s.

Definition run (s : st) (ops : list op) : st := fold_left step ops s.

(* ---- derived matrices (PrecomputedMatrix, RegularizedKernelMatrix, ModifiedKernelMatrix,
        ExampleModifiedKernelMatrix, DifferenceKernelMatrix, BlockMatrix2x2) are modelled in
        C09Derived.v ---- *)
