(* C15 — PCA small-sample branch: a concrete run (4 points in 5 dimensions, exact rationals) on which every hypothesis of
   pca_small_correct holds: the oracle answers with the (rational) Hadamard basis, the square roots met are 16, 4, 4, 1. *)
From Coq Require Import List Arith Bool QArith Lia Lqa.
From SharkV Require Import ListAux C03Model C15Model C15Aux C15PcaModel C15PcaProofs.
Import ListNotations.
Open Scope Q_scope.

Definition ex_pca_data : @data (list Q) :=
  [[[2; 1; 1; 0; 0]; [2; -(1); -(1); 0; 0]]; [[-(2); 1; -(1); 0; 0]; [-(2); -(1); 1; 0; 0]]].
(* columns h1, h2, h3, h0 of the 4 x 4 Hadamard matrix, divided by 2 *)
Definition ex_pca_U : matq := fun a i =>
  nth i (nth a [[1#2; 1#2; 1#2; 1#2]; [1#2; -(1#2); -(1#2); 1#2]; [-(1#2); 1#2; -(1#2); 1#2]; [-(1#2); -(1#2); 1#2; 1#2]] []) 0.
Definition ex_pca_D : vecq := fun i => nth i [4; 1; 1; 0] 0.
Definition ex_pca_eig (n : nat) (M : matq) : matq * vecq := (ex_pca_U, ex_pca_D).
Definition ex_pca_sq (v : Q) : Q := if Qeq_bool v 16 then 4 else if Qeq_bool v 4 then 2 else 1.
Definition ex_pca_epsm : Q := 1 # 4503599627370496.

Ltac four i := destruct i as [|[|[|[|i]]]]; [| | | |lia].

Definition ex_pca_run_ok : bool :=
  match pca_small ex_pca_sq ex_pca_eig ex_pca_epsm 5 ex_pca_data with
  | (V, ev, met) =>
    forallb (fun v => Qeq_bool (ex_pca_sq v * ex_pca_sq v) v) met &&
    forallb (fun j => forallb (fun k => Qeq_bool (V j k) (delta j k)) (seq 0 4)) (seq 0 5)
  end.
Lemma ex_pca_run : ex_pca_run_ok = true.
Proof. vm_compute. reflexivity. Qed.

Lemma ex_pca_hypotheses :
  let l := nelems ex_pca_data in
  let M := ss_gram 5 l (count ex_pca_data) (cen 5 ex_pca_data) in
  (0 < l)%nat /\ (l <= 5)%nat /\ 0 <= ex_pca_epsm /\
  eig_contract l M (fst (ex_pca_eig l M)) (snd (ex_pca_eig l M)) /\
  (forall i, (i < l)%nat -> snd (ex_pca_eig l M) i <= ss_threshold ex_pca_epsm 5 (snd (ex_pca_eig l M) O) -> snd (ex_pca_eig l M) i == 0) /\
  match pca_small ex_pca_sq ex_pca_eig ex_pca_epsm 5 ex_pca_data with
  | (V, ev, met) => Forall (fun v => ex_pca_sq v * ex_pca_sq v == v) met /\
                    forall j k, (j < 5)%nat -> (k < 4)%nat -> V j k == delta j k
  end.
Proof.
  cbv zeta. change (nelems ex_pca_data) with 4%nat.
  split; [lia|]. split; [lia|]. split; [vm_compute; discriminate|]. split; [|split].
  - unfold eig_contract. cbn [ex_pca_eig fst snd]. repeat split.
    + intros i k Hi Hk. four i; four k; vm_compute; reflexivity.
    + intros a b Ha Hb. four a; four b; vm_compute; reflexivity.
    + intros i a Hi Ha. four i; four a; vm_compute; reflexivity.
    + intros i Hi. destruct i as [|[|[|i]]]; [| | |lia]; vm_compute; discriminate.
  - cbn [ex_pca_eig fst snd]. intros i Hi. four i; intros H; try (vm_compute; reflexivity); exfalso; revert H; vm_compute; intros H; apply H; reflexivity.
  - pose proof ex_pca_run as H. unfold ex_pca_run_ok in H.
    destruct (pca_small ex_pca_sq ex_pca_eig ex_pca_epsm 5 ex_pca_data) as [[V ev] met].
    apply andb_prop in H. destruct H as [H1 H2]. split.
    + apply Forall_forall. intros v Hv. rewrite forallb_forall in H1. apply Qeq_bool_iff. apply H1. exact Hv.
    + intros j k Hj Hk. rewrite forallb_forall in H2. specialize (H2 j ltac:(apply in_seq; lia)).
      rewrite forallb_forall in H2. apply Qeq_bool_iff. apply H2. apply in_seq. lia.
Qed.
