(* C20 — parallel routines: executable model.  Definitions only.

   A Shark parallel region is `SHARK_PARALLEL_FOR(int i = a; i < b; ++i){ body }` with
   `SHARK_CRITICAL_REGION{...}` blocks (one global named lock, include/shark/Core/OpenMP.h).
   tools/translate_omp.py regenerates, from the clang AST of the current source, for every region
   the list of memory accesses one iteration performs to variables that live outside the loop body:

     access = (location, read|write, inside a critical block?)
     location = Shared v            the whole object v (same for every iteration and thread)
              | SharedIndexed v     a cell of v selected by the loop variable: distinct iterations
                                    touch distinct cells
              | ThreadLocal v cap   a cell of v selected by the thread number (SHARK_THREAD_NUM);
                                    `cap` says how many cells v was allocated with
              | Local               something private to the iteration (never conflicts)

   region = list of per-iteration access lists (iteration k performs `nth k region []`).

   Semantics (C20 "for all thread counts and all interleavings admitted by the synchronisation"):
   a *schedule* gives every one of T >= 1 threads the list of iterations it executes, in order, such
   that every iteration is executed exactly once (covers static, dynamic, guided, any chunking).
   Each thread's program is the concatenation of its iterations' accesses in program order, a maximal
   run of critical accesses being bracketed by Acq/Rel of the single global lock.  The machine
   interleaves threads arbitrarily; Acq needs the lock to be free. *)
From Coq Require Import List Arith Bool PeanoNat Permutation.
Import ListNotations.

(* ---------------------------------------------------------------- regions (translator output) *)

(* how many cells a thread-indexed array was allocated with *)
Inductive tlcap :=
| CapThreads            (* SHARK_NUM_THREADS cells                                      *)
| CapMinThreadsIters    (* min(SHARK_NUM_THREADS, number of iterations) cells            *)
| CapUnknown.           (* translator could not tell: treated as possibly too small (1) *)

Inductive loc :=
| Shared (v : nat)
| SharedIndexed (v : nat)
| ThreadLocal (v : nat) (cap : tlcap)
| Local.

Inductive rw := Read | Write.

Record access := Acc { a_loc : loc; a_rw : rw; a_crit : bool }.

Definition body := list access.
Definition region := list body.

(* a loop whose iterations all run the same code: n copies of the generic body *)
Definition uniform (b : body) (n : nat) : region := repeat b n.

(* ---------------------------------------------------------------- the checker *)

Definition is_write (a : access) : bool := match a_rw a with Write => true | Read => false end.

Definition cap_full (c : tlcap) : bool := match c with CapThreads => true | _ => false end.

(* may the two locations, touched by two DIFFERENT iterations run by two DIFFERENT threads, overlap? *)
Definition loc_disjoint (l1 l2 : loc) : bool :=
  match l1, l2 with
  | Local, _ | _, Local => true
  | Shared v, Shared w => negb (v =? w)
  | SharedIndexed v, SharedIndexed w => true
  | ThreadLocal v c, ThreadLocal w c' => negb (v =? w) || (cap_full c && cap_full c')
  | Shared v, SharedIndexed w | SharedIndexed w, Shared v => negb (v =? w)
  | Shared v, ThreadLocal w _ | ThreadLocal w _, Shared v => negb (v =? w)
  | SharedIndexed v, ThreadLocal w _ | ThreadLocal w _, SharedIndexed v => negb (v =? w)
  end.

Definition pair_ok (a b : access) : bool :=
  (a_crit a && a_crit b) || (negb (is_write a) && negb (is_write b)) || loc_disjoint (a_loc a) (a_loc b).

(* an access through a thread-number index is only in bounds for every schedule when the array has
   one cell per thread *)
Definition access_ok (a : access) : bool :=
  match a_loc a with ThreadLocal _ c => cap_full c | _ => true end.

Definition bodies_ok (b1 b2 : body) : bool :=
  forallb (fun a => forallb (pair_ok a) b2) b1.

(* all ordered pairs of distinct positions *)
Fixpoint pairs_ok (r : region) : bool :=
  match r with
  | [] => true
  | b :: r' => forallb (fun b' => bodies_ok b b' && bodies_ok b' b) r' && pairs_ok r'
  end.

Definition race_free_b (r : region) : bool :=
  forallb (forallb access_ok) r && pairs_ok r.

(* ---------------------------------------------------------------- concrete machine *)

Inductive fkind := KWhole | KIter | KThread.

(* what an access touches once iteration number and thread number are known *)
Inductive footprint :=
| FNone                                   (* private *)
| FCell (v : nat) (k : fkind) (idx : nat) (* cell idx of v (KWhole: the whole object, idx = 0) *)
| FOob (v : nat).                         (* index past the allocated cells of v *)

Definition capval (c : tlcap) (T n : nat) : nat :=
  match c with CapThreads => T | CapMinThreadsIters => Nat.min T n | CapUnknown => 1 end.

(* T threads, n iterations, iteration i run by thread t *)
Definition resolve (T n i t : nat) (l : loc) : footprint :=
  match l with
  | Local => FNone
  | Shared v => FCell v KWhole 0
  | SharedIndexed v => FCell v KIter i
  | ThreadLocal v c => if t <? capval c T n then FCell v KThread t else FOob v
  end.

Definition fkind_eqb (a b : fkind) : bool :=
  match a, b with KWhole, KWhole | KIter, KIter | KThread, KThread => true | _, _ => false end.

(* two footprints overlap: same object and (one of them is the whole object, or they are indexed
   in different ways (no information: assume overlap), or the same cell, or one is out of bounds) *)
Definition overlap (f g : footprint) : bool :=
  match f, g with
  | FNone, _ | _, FNone => false
  | FOob v, FOob w | FOob v, FCell w _ _ | FCell v _ _, FOob w => v =? w
  | FCell v k i, FCell w k' j =>
      (v =? w) && (match k, k' with
                   | KWhole, _ | _, KWhole => true
                   | KIter, KIter | KThread, KThread => i =? j
                   | _, _ => true
                   end)
  end.

Record caccess := CAcc { c_fp : footprint; c_write : bool; c_crit : bool }.

Definition conflict (a b : caccess) : bool :=
  overlap (c_fp a) (c_fp b) && (c_write a || c_write b).

Inductive instr := IAcq | IRel | IAcc (a : caccess).

(* bracket maximal runs of critical accesses with Acq/Rel; `inside` = currently holding the lock *)
Fixpoint compile (inside : bool) (l : list caccess) : list instr :=
  match l with
  | [] => if inside then [IRel] else []
  | a :: r =>
    match inside, c_crit a with
    | false, true  => IAcq :: IAcc a :: compile true r
    | true,  false => IRel :: IAcc a :: compile false r
    | _, _         => IAcc a :: compile inside r
    end
  end.

Definition concretize (T n i t : nat) (a : access) : caccess :=
  CAcc (resolve T n i t (a_loc a)) (is_write a) (a_crit a).

(* schedule: per thread, the iterations it executes, in order *)
Definition schedule := list (list nat).

Definition iter_prog (r : region) (T t i : nat) : list instr :=
  compile false (map (concretize T (length r) i t) (nth i r [])).

Definition thread_prog (r : region) (T t : nat) (its : list nat) : list instr :=
  flat_map (iter_prog r T t) its.

Record mstate := MS { progs : list (list instr); lock : option nat }.

Definition init_state (r : region) (s : schedule) : mstate :=
  MS (map (fun t => thread_prog r (length s) t (nth t s [])) (seq 0 (length s))) None.

Definition prog_of (m : mstate) (t : nat) : list instr := nth t (progs m) [].

Fixpoint set_nth {A} (k : nat) (x : A) (l : list A) : list A :=
  match l, k with
  | [], _ => []
  | _ :: r, 0 => x :: r
  | y :: r, S k' => y :: set_nth k' x r
  end.

(* one step of thread t (None = t cannot move) *)
Definition step (m : mstate) (t : nat) : option mstate :=
  match prog_of m t with
  | [] => None
  | IAcq :: r => match lock m with None => Some (MS (set_nth t r (progs m)) (Some t)) | Some _ => None end
  | IRel :: r => match lock m with
                 | Some h => if h =? t then Some (MS (set_nth t r (progs m)) None) else None
                 | None => None
                 end
  | IAcc _ :: r => Some (MS (set_nth t r (progs m)) (lock m))
  end.

(* run the machine along a list of thread choices (an interleaving); None if some choice is not enabled *)
Fixpoint run (m : mstate) (choices : list nat) : option mstate :=
  match choices with
  | [] => Some m
  | t :: cs => match step m t with Some m' => run m' cs | None => None end
  end.

(* ---------------------------------------------------------------- merge of thread-local results *)

Section Merge.
  Variable A : Type.
  Variable op : A -> A -> A.

  (* acc := acc (+) local_t, executed once per thread under the lock, in the order given *)
  Definition merge_in_order (acc : A) (locals : list A) : A := fold_left op locals acc.

  (* the lock serialises the updates but fixes no order: at every step ANY thread whose local result
     is still pending may be the next one to enter the critical section *)
  Inductive merge_run : A -> list A -> A -> Prop :=
  | merge_done acc : merge_run acc [] acc
  | merge_step acc pending x rest res :
      Permutation.Permutation pending (x :: rest) ->
      merge_run (op acc x) rest res ->
      merge_run acc pending res.
End Merge.

(* ---------------------------------------------------------------- static work split
   include/shark/ObjectiveFunctions/Impl/ErrorFunction.inl (eval, evalDerivative), also
   NegativeLogLikelihood::evalDerivative:
       batchesPerThread = numBatches/numThreads;
       leftOver = numBatches - batchesPerThread*numThreads;
       start = t*batchesPerThread+std::min(t,leftOver);
       end = (t+1)*batchesPerThread+std::min(t+1,leftOver);                                   *)

Definition batches_per_thread (B T : nat) : nat := B / T.
Definition left_over (B T : nat) : nat := B - batches_per_thread B T * T.
Definition range_start (B T t : nat) : nat := t * batches_per_thread B T + Nat.min t (left_over B T).
Definition range_end (B T t : nat) : nat := (t + 1) * batches_per_thread B T + Nat.min (t + 1) (left_over B T).

(* batches handled by thread t, as the inner sequential loop `for(i = start; i != end; ++i)` visits them *)
Definition thread_range (B T t : nat) : list nat :=
  seq (range_start B T t) (range_end B T t - range_start B T t).

Definition all_ranges (B T : nat) : list (list nat) := map (thread_range B T) (seq 0 T).
