(* C06 — calling context of ErrorFunctionImpl::eval / evalDerivative (full-batch branch): WHICH thread executes which batch range.
   Definitions only; proofs in C06CtxProofs.v.

   The code loops (SHARK_PARALLEL_FOR) over numThreads = min(SHARK_NUM_THREADS, numBatches) batch RANGES, not over threads.  Which
   OpenMP thread executes range i is decided by the runtime and by the calling context:
     * called from serial code with a team of >= numThreads threads and a static schedule: range i is executed by thread i;
     * called from INSIDE an active parallel region of k threads (nested parallelism off, the default): SHARK_NUM_THREADS is k, the
       inner team has ONE thread, number 0, which executes all min(k, numBatches) ranges one after the other;
     * a team smaller than numThreads, a dynamic schedule, ...: some other assignment.
   The model makes this explicit: an ASSIGNMENT  a : range index -> thread id  (any function; the constant function is the nested
   call), and the ORDER in which the range results reach the merge (any list of range indices).  One merge event = (thread id,
   partial result of the range).
     as coded:           SHARK_CRITICAL_REGION{ error += threadError; derivative += threadDerivative; }   -- shared sum, the thread
                         id plays no role (shared_merge);
     per-thread slots:   slot[SHARK_THREAD_NUM] = partial;  afterwards  for t in 0..maxThreads-1: error += slot[t]
                         (slot_merge; the variant seeded as C06-8, NOT the code of /repo). *)
From Coq Require Import List Arith QArith.
From SharkV Require Import ListAux C03Model C06Model.
Import ListNotations.

Section Ctx.
Context {E : Type}.
Variable bq : list E -> vec.

(* the merge events: range i (in the order `order`) executed by thread a i *)
Definition ctx_events (a : nat -> nat) (order : list nat) (ranges : list (nat * nat)) (d : @data E) : list (nat * vec) :=
  map (fun i => (a i, nth i (partials bq ranges d) [])) order.

(* as coded: every event is added to the shared sum *)
Definition shared_merge (ev : list (nat * vec)) : vec :=
  fold_left (fun acc e => vadd acc (snd e)) ev [].

(* per-thread slots, assigned (not accumulated), summed in the fixed order 0 .. maxThreads-1 afterwards *)
Definition slot_merge (maxThreads : nat) (ev : list (nat * vec)) : vec :=
  vsum (fold_left (fun slots e => upd (fst e) (snd e) slots) ev (repeat [] maxThreads)).

(* ErrorFunctionImpl::eval / evalDerivative called in a context where SHARK_NUM_THREADS = threads, range i runs on thread a i and
   the results arrive in the order `order` *)
Definition errfn_ctx (a : nat -> nat) (order : list nat) (threads : nat) (d : @data E) : vec :=
  vdiv (shared_merge (ctx_events a order (thread_ranges threads (length d)) d)) (Qn (nelems d)).

Definition errfn_slots (a : nat -> nat) (order : list nat) (threads : nat) (d : @data E) : vec :=
  vdiv (slot_merge threads (ctx_events a order (thread_ranges threads (length d)) d)) (Qn (nelems d)).

(* the nested call: all ranges on thread 0, in increasing order *)
Definition nested_order (threads : nat) (d : @data E) : list nat := seq 0 (length (thread_ranges threads (length d))).
Definition errfn_nested (threads : nat) (d : @data E) : vec := errfn_ctx (fun _ => O) (nested_order threads d) threads d.
(* the call from serial code with a full team: range i on thread i *)
Definition errfn_toplevel (order : list nat) (threads : nat) (d : @data E) : vec := errfn_ctx (fun i => i) order threads d.
End Ctx.

(* the linear-model error function of C06Model in a calling context (run by the driver next to the C++) *)
Definition ef_ctx_eval (k : lossk) (m : linmodel) (a : nat -> nat) (order : list nat) (threads : nat) (d : @data elem) : vec :=
  errfn_ctx (lin_bq_eval k m) a order threads d.
Definition ef_ctx_evald (k : lossk) (m : linmodel) (a : nat -> nat) (order : list nat) (threads : nat) (d : @data elem) : vec :=
  errfn_ctx (lin_bq k m) a order threads d.
Definition net2_ef_ctx_eval (k : lossk) (m : net2) (a : nat -> nat) (order : list nat) (threads : nat) (d : @data elem) : vec :=
  errfn_ctx (net2_bq_eval k m) a order threads d.
Definition net2_ef_ctx_evald (k : lossk) (m : net2) (a : nat -> nat) (order : list nat) (threads : nat) (d : @data elem) : vec :=
  errfn_ctx (net2_bq k m) a order threads d.
(* the refuted variant, for the driver's self-test line *)
Definition ef_slots_eval (k : lossk) (m : linmodel) (a : nat -> nat) (order : list nat) (threads : nat) (d : @data elem) : vec :=
  errfn_slots (lin_bq_eval k m) a order threads d.
