(* C17 — proofs about the model in C17Model.v.  Axiom-free (Z, nat, lists). *)
From Coq Require Import List ZArith Bool Arith Lia Permutation.
From SharkV Require Import C17Model.
Import ListNotations.
Open Scope Z_scope.

(* ======================================================================================== *)
(* A. the kd cell lower bound                                                                *)

Definition in_cell (path : list pstep) (p : point) : Prop :=
  Forall (fun s : pstep => let '(cd, t, isr) := s in
                           if isr then t <= coord p cd else coord p cd <= t) path.

Lemma lower_sound path p d l : in_cell path p -> lower path d = Some l -> l <= coord p d.
Proof.
  induction path as [|[[cd t] isr] rest IH]; simpl; intros HC HL; [discriminate|].
  inversion HC as [|? ? H1 H2]; subst.
  destruct (Nat.eqb_spec cd d) as [->|]; simpl in HL.
  - destruct isr; simpl in HL; [inversion HL; subst; auto | auto].
  - auto.
Qed.

Lemma upper_sound path p d u : in_cell path p -> upper path d = Some u -> coord p d <= u.
Proof.
  induction path as [|[[cd t] isr] rest IH]; simpl; intros HC HL; [discriminate|].
  inversion HC as [|? ? H1 H2]; subst.
  destruct (Nat.eqb_spec cd d) as [->|]; simpl in HL.
  - destruct isr; simpl in HL; [auto | inversion HL; subst; auto].
  - auto.
Qed.

Lemma sq_mono a b : 0 <= a <= b -> a * a <= b * b.
Proof. intros. apply Z.mul_le_mono_nonneg; lia. Qed.

Lemma lb_dim_le v l u x :
  (forall lo, l = Some lo -> lo <= x) -> (forall up, u = Some up -> x <= up) ->
  lb_dim v l u <= (x - v) * (x - v).
Proof.
  intros HL HU. unfold lb_dim.
  assert (P0 : 0 <= (x - v) * (x - v)) by apply Z.square_nonneg.
  assert (PL : forall lo, lo <= x -> v < lo -> (lo - v) * (lo - v) <= (x - v) * (x - v)).
  { intros. apply sq_mono. lia. }
  assert (PU : forall up, x <= up -> up < v -> (v - up) * (v - up) <= (x - v) * (x - v)).
  { intros. replace ((x - v) * (x - v)) with ((v - x) * (v - x)) by ring. apply sq_mono. lia. }
  destruct l as [lo|]; [specialize (HL lo eq_refl)|]; (destruct u as [up|]; [specialize (HU up eq_refl)|]);
    repeat match goal with |- context [?a <? ?b] => destruct (Z.ltb_spec a b) end; auto.
Qed.

Lemma lb_from_le path p q d : in_cell path p -> lb_from path q d <= dist2_from p q d.
Proof.
  intros HC. revert d. induction q as [|v q IH]; intros d; simpl; [lia|].
  pose proof (lb_dim_le v (lower path d) (upper path d) (coord p d)
                (fun lo H => lower_sound path p d lo HC H) (fun up H => upper_sound path p d up HC H)).
  specialize (IH (S d)). lia.
Qed.

(* squaredDistanceLowerBound(q) <= |p - q|^2 for every point p of the cell *)
Lemma kd_cell_lower_bound path p q : in_cell path p -> lbound path q <= dist2 p q.
Proof. apply lb_from_le. Qed.

Lemma in_cell_tail s path p : in_cell (s :: path) p -> in_cell path p.
Proof. intros H; inversion H; auto. Qed.

(* ======================================================================================== *)
(* B. the incremental query on a trace tree, relative to the true squared distance of an index *)

Section Search.
Variable dist : nat -> Z.

Fixpoint tidx (t : ttree) : list nat :=
  match t with TLeaf _ _ _ idx => idx | TNode _ _ _ l r => tidx l ++ tidx r end.

(* indices of leaves that have not been queued yet *)
Fixpoint unq (t : ttree) : list nat :=
  match t with
  | TLeaf qd _ _ idx => if qd then [] else idx
  | TNode _ _ _ l r => unq l ++ unq r
  end.

(* stored bounds / leaf keys are right: leaf key = true distance of every index of the leaf
   (bucket size one: a leaf holds copies of one point), node bound <= distance of every point below *)
Fixpoint Sound (t : ttree) : Prop :=
  match t with
  | TLeaf _ lb pd idx => idx <> [] /\ (forall i, In i idx -> dist i = pd) /\ lb <= pd
  | TNode _ lb _ l r => (forall i, In i (tidx l ++ tidx r) -> lb <= dist i) /\ Sound l /\ Sound r
  end.

Fixpoint StInv (t : ttree) : Prop :=
  match t with
  | TLeaf _ _ _ _ => True
  | TNode st _ _ l r => (st = COMPLETE -> tstatus l = COMPLETE /\ tstatus r = COMPLETE) /\ StInv l /\ StInv r
  end.

Fixpoint same_skel (a b : ttree) : Prop :=
  match a, b with
  | TLeaf _ lb pd idx, TLeaf _ lb' pd' idx' => lb = lb' /\ pd = pd' /\ idx = idx'
  | TNode _ lb gl l r, TNode _ lb' gl' l' r' => lb = lb' /\ gl = gl' /\ same_skel l l' /\ same_skel r r'
  | _, _ => False
  end.

Lemma same_skel_refl t : same_skel t t.
Proof. induction t; simpl; auto. Qed.

Lemma same_skel_tidx a : forall b, same_skel a b -> tidx b = tidx a.
Proof.
  induction a; intros [ ] H; simpl in *; try contradiction.
  - destruct H as (_ & _ & ->); auto.
  - destruct H as (_ & _ & H1 & H2). rewrite (IHa1 _ H1), (IHa2 _ H2); auto.
Qed.

Lemma same_skel_Sound a : forall b, same_skel a b -> Sound a -> Sound b.
Proof.
  induction a; intros [ ] H S; simpl in *; try contradiction.
  - destruct H as (-> & -> & ->); auto.
  - destruct H as (-> & _ & H1 & H2). destruct S as (S0 & S1 & S2).
    rewrite (same_skel_tidx _ _ H1), (same_skel_tidx _ _ H2). auto.
Qed.

Lemma unq_tidx t i : In i (unq t) -> In i (tidx t).
Proof.
  induction t; simpl; intros H.
  - destruct queued; [contradiction | auto].
  - apply in_app_or in H. apply in_or_app. tauto.
Qed.

Lemma complete_unq t : StInv t -> tstatus t = COMPLETE -> unq t = [].
Proof.
  induction t; simpl; intros I H.
  - destruct queued; [auto | discriminate].
  - destruct I as (I0 & I1 & I2). destruct (I0 H) as [H1 H2].
    rewrite IHt1, IHt2; auto.
Qed.

(* ---- queue ---- *)
Fixpoint qsorted (q : list qelem) : Prop :=
  match q with
  | [] => True
  | e :: t => Forall (fun e' => fst e <= fst e') t /\ qsorted t
  end.
Definition qvalid (q : list qelem) : Prop :=
  Forall (fun e : qelem => snd e <> [] /\ forall i, In i (snd e) -> dist i = fst e) q.
Definition qidx (q : list qelem) : list nat := concat (map snd q).
Definition hdle (q : list qelem) (x : Z) : Prop :=
  match q with [] => False | e :: _ => fst e <= x end.

Lemma qinsert_Forall (P : qelem -> Prop) e q : P e -> Forall P q -> Forall P (qinsert e q).
Proof.
  induction q; simpl; intros He H; [auto|].
  inversion H; subst. destruct (fst e <? fst a); auto.
Qed.

Lemma qinsert_sorted e q : qsorted q -> qsorted (qinsert e q).
Proof.
  induction q as [|h t IH]; simpl; intros H; [auto|].
  destruct H as [H1 H2]. destruct (Z.ltb_spec (fst e) (fst h)); simpl.
  - split; [|auto]. constructor; [lia|]. eapply Forall_impl; [|exact H1]. simpl; intros; lia.
  - split; [|auto]. apply qinsert_Forall; [lia | auto].
Qed.

Lemma qinsert_perm e q : Permutation (qidx (qinsert e q)) (snd e ++ qidx q).
Proof.
  unfold qidx. induction q as [|h t IH]; simpl; [auto|].
  destruct (fst e <? fst h); simpl; [auto|].
  rewrite IH. rewrite !app_assoc. apply Permutation_app_tail. apply Permutation_app_comm.
Qed.

Lemma qinsert_hdle_old e q x : hdle q x -> hdle (qinsert e q) x.
Proof.
  destruct q as [|h t]; simpl; [tauto|].
  destruct (Z.ltb_spec (fst e) (fst h)); simpl; lia.
Qed.

Lemma qinsert_hdle_new e q : hdle (qinsert e q) (fst e).
Proof.
  destruct q as [|h t]; simpl; [lia|].
  destruct (Z.ltb_spec (fst e) (fst h)); simpl; lia.
Qed.

Lemma hdle_trans q x y : hdle q x -> x <= y -> hdle q y.
Proof. destruct q; simpl; [tauto | lia]. Qed.

Lemma pruned_hdle q lb : pruned q lb = true -> hdle q lb.
Proof. destruct q as [|[pd i] t]; simpl; [discriminate|]. intros H; apply Z.leb_le in H; auto. Qed.

Lemma arrive_complete st c sib :
  arrive st c sib = COMPLETE -> st = COMPLETE \/ (st = PARTIAL /\ c = true /\ sib = COMPLETE).
Proof.
  unfold arrive. destruct c; [|auto]. destruct st; try discriminate; auto.
  destruct sib; simpl; try discriminate; auto.
Qed.

Lemma completed_true c c' : completed c c' = true -> tstatus c' = COMPLETE.
Proof.
  unfold completed. intros H; apply andb_prop in H; destruct H as [_ H].
  destruct (tstatus c'); simpl in H; try discriminate; auto.
Qed.

Lemma is_complete_true s : is_complete s = true <-> s = COMPLETE.
Proof. destruct s; simpl; split; intros; try discriminate; auto. Qed.

(* everything enqueue(tn) guarantees, in one induction *)
Record enq_ok (t : ttree) (q : list qelem) (t' : ttree) (q' : list qelem) : Prop := {
  eo_skel : same_skel t t';
  eo_stinv : StInv t -> StInv t';
  eo_compl : tstatus t = COMPLETE -> tstatus t' = COMPLETE;
  eo_sorted : qsorted q -> qsorted q';
  eo_valid : Sound t -> qvalid q -> qvalid q';
  eo_perm : Permutation (unq t ++ qidx q) (unq t' ++ qidx q');
  eo_mono : forall x, hdle q x -> hdle q' x
}.

Lemma enq_ok_refl t q : enq_ok t q t q.
Proof. constructor; auto. apply same_skel_refl. Qed.

Lemma enq_ok_node (st : status) (lb : Z) (gl : bool) (l r : ttree) (q : list qelem)
  (a' : ttree) (q1 : list qelem) (b' : ttree) (q2 : list qelem) :
  let a := if gl then l else r in
  let b := if gl then r else l in
  st <> COMPLETE ->
  enq_ok a q a' q1 -> enq_ok b q1 b' q2 ->
  (tstatus b = COMPLETE -> b' = b) ->
  enq_ok (TNode st lb gl l r) q
         (TNode (arrive (arrive st (completed a a') (tstatus b)) (completed b b') (tstatus a')) lb gl
                (if gl then a' else b') (if gl then b' else a')) q2.
Proof.
  intros a b Hst Ha Hb Hbc.
  assert (Hperm : Permutation (unq a ++ unq b ++ qidx q) (unq a' ++ unq b' ++ qidx q2)).
  { rewrite app_assoc. rewrite (Permutation_app_comm (unq a) (unq b)). rewrite <- app_assoc.
    rewrite (eo_perm _ _ _ _ Ha).
    rewrite app_assoc. rewrite (Permutation_app_comm (unq b) (unq a')). rewrite <- app_assoc.
    rewrite (eo_perm _ _ _ _ Hb). reflexivity. }
  constructor.
  - simpl. split; [auto|]. split; [auto|]. subst a b. destruct gl; split; (apply Ha || apply Hb).
  - simpl. intros (I0 & Il & Ir).
    assert (Ia : StInv a') by (apply Ha; subst a; destruct gl; auto).
    assert (Ib : StInv b') by (apply Hb; subst b; destruct gl; auto).
    split; [|destruct gl; auto].
    intros HC. apply arrive_complete in HC.
    assert (tstatus a' = COMPLETE /\ tstatus b' = COMPLETE) as [Ca Cb].
    { destruct HC as [HC|(HC & Hc & Hs)].
      - apply arrive_complete in HC. destruct HC as [HC|(HC & Hc & Hs)]; [contradiction|].
        split; [eapply completed_true; eauto|]. rewrite (Hbc Hs); auto.
      - split; [auto | eapply completed_true; eauto]. }
    destruct gl; auto.
  - simpl. intros; contradiction.
  - intros H. apply Hb, Ha, H.
  - simpl. intros (S0 & Sl & Sr) H. apply Hb; [subst b; destruct gl; auto|].
    apply Ha; [subst a; destruct gl; auto | auto].
  - simpl. subst a b. destruct gl.
    + rewrite <- !app_assoc. exact Hperm.
    + rewrite (Permutation_app_comm (unq l) (unq r)), (Permutation_app_comm (unq b') (unq a')).
      rewrite <- !app_assoc. exact Hperm.
  - intros x H. apply Hb, Ha, H.
Qed.

Lemma enqueue_complete t q : tstatus t = COMPLETE -> enqueue t q = (t, q).
Proof.
  destruct t; simpl; intros H.
  - destruct queued; [auto | discriminate].
  - subst; auto.
Qed.

Lemma enqueue_ok t : forall q t' q', enqueue t q = (t', q') -> enq_ok t q t' q'.
Proof.
  induction t as [qd lb pd idx | st lb gl l IHl r IHr]; intros q t' q' E; simpl in E.
  - destruct qd; [inversion E; subst; apply enq_ok_refl|].
    destruct (pruned q lb); inversion E; subst; [apply enq_ok_refl|].
    constructor; simpl; auto; try (intros; discriminate).
    + intros; apply qinsert_sorted; auto.
    + intros (S0 & S1 & S2) H. apply qinsert_Forall; auto.
    + rewrite qinsert_perm. simpl. reflexivity.
    + intros; apply qinsert_hdle_old; auto.
  - destruct (is_complete st) eqn:Ec; [inversion E; subst; apply enq_ok_refl|].
    destruct (pruned q lb); [inversion E; subst; apply enq_ok_refl|].
    set (a := if gl then l else r) in *. set (b := if gl then r else l) in *.
    destruct (enqueue a q) as [a' q1] eqn:Ea. destruct (enqueue b q1) as [b' q2] eqn:Eb.
    inversion E; subst t' q'.
    apply (enq_ok_node st lb gl l r q a' q1 b' q2).
    + intros ->; discriminate.
    + subst a; destruct gl; [apply IHl | apply IHr]; auto.
    + subst b; destruct gl; [apply IHr | apply IHl]; auto.
    + fold b. intros H. rewrite (enqueue_complete _ _ H) in Eb. inversion Eb; auto.
Qed.

(* after enqueue(tn) every point of tn that is still not queued is at least as far as the queue head *)
Lemma enqueue_post t : forall q t' q', enqueue t q = (t', q') -> Sound t -> StInv t ->
  forall i, In i (unq t') -> hdle q' (dist i).
Proof.
  induction t as [qd lb pd idx | st lb gl l IHl r IHr]; intros q t' q' E S I i Hi; simpl in E.
  - destruct S as (S0 & S1 & S2).
    destruct qd; [inversion E; subst; simpl in Hi; contradiction|].
    destruct (pruned q lb) eqn:Ep; inversion E; subst; simpl in Hi; [|contradiction].
    apply pruned_hdle in Ep. eapply hdle_trans; eauto. rewrite (S1 _ Hi); auto.
  - destruct (is_complete st) eqn:Ec.
    { inversion E; subst. apply is_complete_true in Ec. rewrite (complete_unq (TNode st lb gl l r)) in Hi; auto. contradiction. }
    destruct (pruned q lb) eqn:Ep.
    { inversion E; subst. apply pruned_hdle in Ep. eapply hdle_trans; eauto.
      destruct S as (S0 & _). apply S0. apply (unq_tidx (TNode st lb gl l r)); auto. }
    set (a := if gl then l else r) in *. set (b := if gl then r else l) in *.
    destruct (enqueue a q) as [a' q1] eqn:Ea. destruct (enqueue b q1) as [b' q2] eqn:Eb.
    inversion E; subst t' q'. simpl in Hi.
    destruct S as (S0 & Sl & Sr). destruct I as (I0 & Il & Ir).
    assert (Ha : forall i, In i (unq a') -> hdle q1 (dist i)).
    { subst a; destruct gl; [eapply IHl | eapply IHr]; eauto. }
    assert (Hb : forall i, In i (unq b') -> hdle q2 (dist i)).
    { pose proof (enqueue_ok _ _ _ _ Ea) as Oa.
      subst b; destruct gl; [eapply IHr | eapply IHl]; eauto. }
    pose proof (enqueue_ok _ _ _ _ Eb) as Ob.
    assert (In i (unq a') \/ In i (unq b')) as [H|H].
    { destruct gl; apply in_app_or in Hi; tauto. }
    + apply Ob. apply Ha; auto.
    + apply Hb; auto.
Qed.

(* ---- radius ---- *)
Lemma radius_ok t : StInv t -> Sound t -> forall i, In i (unq t) ->
  exists r, sqradius t = Some r /\ r <= dist i.
Proof.
  induction t as [qd lb pd idx | st lb gl l IHl r IHr]; simpl; intros I S i Hi.
  - destruct qd; [contradiction|]. destruct S as (_ & S1 & S2). exists lb; split; auto. rewrite (S1 _ Hi); auto.
  - destruct S as (S0 & Sl & Sr). destruct I as (I0 & Il & Ir).
    destruct st.
    + exists lb; split; auto. apply S0. apply in_app_or in Hi. apply in_or_app.
      destruct Hi as [H|H]; [left | right]; apply unq_tidx; auto.
    + apply in_app_or in Hi. destruct Hi as [H|H].
      * destruct (IHl Il Sl i H) as (x & -> & Hx). destruct (sqradius r) as [y|]; simpl; eexists; split; eauto; lia.
      * destruct (IHr Ir Sr i H) as (x & -> & Hx). destruct (sqradius l) as [y|]; simpl; eexists; split; eauto; lia.
    + destruct (I0 eq_refl) as [C1 C2].
      rewrite (complete_unq l), (complete_unq r) in Hi; auto. contradiction.
Qed.


(* ---- the "enqueue more points" loop ---- *)
Lemma same_skel_trans a : forall b c, same_skel a b -> same_skel b c -> same_skel a c.
Proof.
  induction a; intros [ ] [ ] H1 H2; simpl in *; try contradiction.
  - destruct H1 as (-> & -> & ->); auto.
  - destruct H1 as (-> & -> & H11 & H12). destruct H2 as (-> & -> & H21 & H22). repeat split; eauto.
Qed.

Lemma enq_ok_trans a q b q1 c q2 : enq_ok a q b q1 -> enq_ok b q1 c q2 -> enq_ok a q c q2.
Proof.
  intros [A1 A2 A3 A4 A5 A6 A7] [B1 B2 B3 B4 B5 B6 B7]. constructor; auto.
  - eapply same_skel_trans; eauto.
  - intros S H. apply B5; auto. eapply same_skel_Sound; eauto.
  - rewrite A6; auto.
Qed.

Lemma enq_ok_child_l st lb gl l r q l' q' :
  enq_ok l q l' q' ->
  enq_ok (TNode st lb gl l r) q (TNode (arrive st (completed l l') (tstatus r)) lb gl l' r) q'.
Proof.
  intros [A1 A2 A3 A4 A5 A6 A7]. constructor; simpl; auto.
  - repeat split; auto. apply same_skel_refl.
  - intros (I0 & Il & Ir). split; [|auto].
    intros H. apply arrive_complete in H. destruct H as [H|(H & Hc & Hs)].
    + destruct (I0 H); split; auto.
    + split; auto. eapply completed_true; eauto.
  - intros ->. unfold arrive. destruct (completed l l'); auto.
  - intros (S0 & Sl & Sr) H. auto.
  - rewrite <- !app_assoc. rewrite (Permutation_app_comm (unq r)), (Permutation_app_comm (unq r)).
    rewrite !app_assoc. apply Permutation_app_tail. auto.
Qed.

Lemma enq_ok_child_r st lb gl l r q r' q' :
  enq_ok r q r' q' ->
  enq_ok (TNode st lb gl l r) q (TNode (arrive st (completed r r') (tstatus l)) lb gl l r') q'.
Proof.
  intros [A1 A2 A3 A4 A5 A6 A7]. constructor; simpl; auto.
  - repeat split; auto. apply same_skel_refl.
  - intros (I0 & Il & Ir). split; [|auto].
    intros H. apply arrive_complete in H. destruct H as [H|(H & Hc & Hs)].
    + destruct (I0 H); split; auto.
    + split; auto. eapply completed_true; eauto.
  - intros ->. unfold arrive. destruct (completed r r'); auto.
  - intros (S0 & Sl & Sr) H. auto.
  - rewrite <- !app_assoc. apply Permutation_app_head. auto.
Qed.

Lemma phase_ok hc : forall dep t q t' q' h', phase dep hc t q = (t', q', h') ->
  enq_ok t q t' q' /\ (dep <= h')%nat /\ (h' = dep -> hc = O \/ tstatus t' = COMPLETE) /\
  (hc <> O -> Sound t -> StInv t -> forall i, In i (unq t') -> hdle q' (dist i)).
Proof.
  induction hc as [|hc IH]; intros dep t q t' q' h' E; simpl in E.
  - inversion E; subst. split; [apply enq_ok_refl|]. split; [lia|]. split; [auto|]. intros H; contradiction.
  - assert (G : forall t1 q1 hb, enq_ok t q t1 q1 -> (S dep <= hb)%nat ->
                enqueue t1 q1 = (t', q') -> h' = (if is_complete (tstatus t') then dep else hb) ->
                enq_ok t q t' q' /\ (dep <= h')%nat /\ (h' = dep -> S hc = O \/ tstatus t' = COMPLETE) /\
                (S hc <> O -> Sound t -> StInv t -> forall i, In i (unq t') -> hdle q' (dist i))).
    { intros t1 q1 hb O1 Hhb E2 Hh. pose proof (enqueue_ok _ _ _ _ E2) as O2.
      split; [eapply enq_ok_trans; eauto|].
      destruct (is_complete (tstatus t')) eqn:Ec; subst h'.
      - split; [lia|]. split; [intros; right; apply is_complete_true; auto|].
        intros _ S I i Hi. eapply enqueue_post; eauto. eapply same_skel_Sound; [apply O1 | auto]. apply O1; auto.
      - split; [lia|]. split; [intros; lia|].
        intros _ S I i Hi. eapply enqueue_post; eauto. eapply same_skel_Sound; [apply O1 | auto]. apply O1; auto. }
    destruct t as [qd lb pd idx | st lb gl l r].
    + destruct (enqueue (TLeaf qd lb pd idx) q) as [t2 q2] eqn:E2. injection E as E1 E3 E4; subst t2 q2; symmetry in E4.
      eapply (G _ _ (S dep)); eauto. apply enq_ok_refl.
    + destruct gl.
      * destruct (phase (S dep) hc l q) as [[l' q0] hb] eqn:El.
        destruct (enqueue (TNode (arrive st (completed l l') (tstatus r)) lb true l' r) q0) as [t2 q2] eqn:E2.
        injection E as E1 E3 E4; subst t2 q2; symmetry in E4. destruct (IH _ _ _ _ _ _ El) as (O1 & Hb & _).
        eapply (G _ _ hb); eauto. apply enq_ok_child_l; auto.
      * destruct (phase (S dep) hc r q) as [[r' q0] hb] eqn:Er.
        destruct (enqueue (TNode (arrive st (completed r r') (tstatus l)) lb false l r') q0) as [t2 q2] eqn:E2.
        injection E as E1 E3 E4; subst t2 q2; symmetry in E4. destruct (IH _ _ _ _ _ _ Er) as (O1 & Hb & _).
        eapply (G _ _ hb); eauto. apply enq_ok_child_r; auto.
Qed.


(* ---- next() ---- *)
(* indices not yet reported: not queued, or queued and not yet handed out *)
Definition pending (s : state) : list nat :=
  unq (tt s) ++ match queue s with
                | [] => []
                | e :: rest => skipn (nidx s) (snd e) ++ qidx rest
                end.

Record Inv (s : state) : Prop := {
  i_sound : Sound (tt s);
  i_stinv : StInv (tt s);
  i_sorted : qsorted (queue s);
  i_valid : qvalid (queue s);
  i_rad : rad s = sqradius (tt s);
  i_head : hcnt s = O -> tstatus (tt s) = COMPLETE;
  i_first : nnb s = O -> nidx s = O;
  i_cur : (0 < nnb s)%nat -> queue s <> [] /\ forall i, In i (unq (tt s)) -> hdle (queue s) (dist i)
}.

Lemma qsorted_head e rest j :
  qsorted (e :: rest) -> qvalid (e :: rest) -> In j (qidx (e :: rest)) -> fst e <= dist j.
Proof.
  intros [H1 H2] V Hj. unfold qidx in Hj. simpl in Hj. apply in_app_or in Hj.
  inversion V as [|? ? [_ Ve] Vr]; subst. destruct Hj as [Hj|Hj].
  - rewrite (Ve _ Hj). lia.
  - apply in_concat in Hj. destruct Hj as (x & Hx & Hjx). apply in_map_iff in Hx.
    destruct Hx as (e' & <- & He').
    rewrite Forall_forall in H1, Vr. destruct (Vr _ He') as [_ V']. rewrite (V' _ Hjx). apply H1; auto.
Qed.

Lemma skipn_nth_error {A} (l : list A) n x : nth_error l n = Some x -> skipn n l = x :: skipn (S n) l.
Proof.
  revert n; induction l as [|h t IH]; intros [|n] H; simpl in *; try discriminate.
  - inversion H; auto.
  - rewrite (IH _ H). destruct t; auto.
Qed.

Lemma in_skipn {A} (l : list A) n x : In x (skipn n l) -> In x l.
Proof.
  revert n; induction l as [|h t IH]; intros [|n] H; simpl in *; auto. right; eauto.
Qed.

Lemma skipn_all_none {A} (l : list A) n : nth_error l n = None -> skipn n l = [].
Proof. intros H. apply skipn_all2. apply nth_error_None; auto. Qed.

Lemma next_cont_spec s qu :
  Sound (tt s) -> StInv (tt s) -> qsorted qu -> qvalid qu -> rad s = sqradius (tt s) ->
  (hcnt s = O -> tstatus (tt s) = COMPLETE) ->
  unq (tt s) ++ qidx qu <> [] ->
  exists d i s', next_cont s qu = Some ((d, i), s') /\ Inv s' /\ dist i = d /\
                 Permutation (unq (tt s) ++ qidx qu) (i :: pending s') /\
                 forall j, In j (unq (tt s) ++ qidx qu) -> d <= dist j.
Proof.
  intros SS I Qs Qv Hr Hh Hne. unfold next_cont.
  (* common tail: a state (t', q') whose head is valid *)
  assert (T : forall t' q' h' r', same_skel (tt s) t' -> StInv t' -> qsorted q' -> qvalid q' ->
            r' = sqradius t' -> (h' = O -> tstatus t' = COMPLETE) ->
            Permutation (unq (tt s) ++ qidx qu) (unq t' ++ qidx q') ->
            (forall i, In i (unq t') -> hdle q' (dist i)) ->
            exists d i s',
              match q' with
              | (pd, i :: _) :: _ => Some ((pd, i), mkstate t' q' 1 (S (nnb s)) h' r')
              | _ => None
              end = Some ((d, i), s') /\ Inv s' /\ dist i = d /\
              Permutation (unq (tt s) ++ qidx qu) (i :: pending s') /\
              forall j, In j (unq (tt s) ++ qidx qu) -> d <= dist j).
  { intros t' q' h' r' K I' Qs' Qv' Hr' Hh' P Hu.
    assert (Hq : q' <> []).
    { destruct (unq t') as [|i0 u] eqn:Eu.
      - intros ->. simpl in P. apply Permutation_sym, Permutation_nil in P. contradiction.
      - specialize (Hu i0 (or_introl eq_refl)). intros ->. exact Hu. }
    destruct q' as [|[pd idx] rest]; [contradiction|].
    inversion Qv' as [|? ? [Vne Ve] Vr]; subst. simpl in Vne, Ve.
    destruct idx as [|i tl]; [contradiction|].
    exists pd, i, (mkstate t' ((pd, i :: tl) :: rest) 1 (S (nnb s)) h' (sqradius t')).
    split; [reflexivity|]. split; [|split; [apply Ve; left; auto|split]].
    - constructor; simpl; auto.
      + eapply same_skel_Sound; eauto.
      + intros; lia.
    - unfold pending; simpl. rewrite P. unfold qidx; simpl. symmetry. apply Permutation_middle.
    - intros j Hj. eapply Permutation_in in Hj; [|exact P]. apply in_app_or in Hj. destruct Hj as [Hj|Hj].
      + apply (Hu j Hj).
      + change pd with (fst (pd, i :: tl)). eapply qsorted_head; eauto. }
  destruct (need_more qu (rad s)) eqn:En.
  - destruct (phase 0 (hcnt s) (tt s) qu) as [[t' q'] h'] eqn:Ep.
    destruct (phase_ok _ _ _ _ _ _ _ Ep) as (O1 & _ & Hh' & Hpost).
    apply T; auto; try apply O1; auto.
    + intros ->. destruct (Hh' eq_refl) as [H0|H0]; [|auto]. apply O1. auto.
    + destruct (Nat.eq_dec (hcnt s) 0) as [H0|H0].
      * rewrite H0 in Ep. simpl in Ep. inversion Ep; subst. rewrite (complete_unq (tt s)); auto. intros ? [].
      * apply Hpost; auto.
  - apply T; auto.
    + apply same_skel_refl.
    + intros i Hi. destruct (radius_ok _ I SS i Hi) as (r & Er & Hle).
      destruct qu as [|[pd idx] rest]; simpl in En; [discriminate|].
      rewrite Hr, Er in En. simpl. apply Z.ltb_ge in En. lia.
Qed.

Theorem next_spec s : Inv s -> pending s <> [] ->
  exists d i s', next s = Some ((d, i), s') /\ Inv s' /\ dist i = d /\
                 Permutation (pending s) (i :: pending s') /\
                 forall j, In j (pending s) -> d <= dist j.
Proof.
  intros [SS I Qs Qv Hr Hh Hf Hc] Hne. unfold next.
  destruct (Nat.ltb_spec 0 (nnb s)) as [Hn|Hn].
  - destruct (Hc Hn) as [Hq Hu]. destruct (queue s) as [|[pd idx] rest] eqn:Eq; [contradiction|].
    destruct (nth_error idx (nidx s)) as [i|] eqn:En.
    + exists pd, i, (mkstate (tt s) (queue s) (S (nidx s)) (nnb s) (hcnt s) (rad s)).
      inversion Qv as [|? ? [Vne Ve] Vr]; subst. simpl in Ve.
      assert (Hi : In i idx) by (eapply nth_error_In; eauto).
      split; [rewrite Eq; reflexivity|]. split; [|split; [auto|split]].
      * constructor; simpl; rewrite ?Eq; auto. intros; lia.
      * unfold pending; simpl. rewrite Eq. simpl. rewrite (skipn_nth_error _ _ _ En).
        symmetry. apply Permutation_middle.
      * unfold pending. rewrite Eq. simpl. intros j Hj. apply in_app_or in Hj. destruct Hj as [Hj|Hj].
        -- apply (Hu j Hj).
        -- change pd with (fst (pd, idx)). eapply qsorted_head; eauto.
           unfold qidx; simpl. apply in_app_or in Hj. apply in_or_app. destruct Hj as [Hj|Hj]; [left|right; auto].
           eapply in_skipn; eauto.
    + unfold pending in *. rewrite Eq in *. simpl in *. rewrite (skipn_all_none _ _ En) in *. simpl in *.
      destruct Qs as [Q1 Q2]. inversion Qv; subst.
      apply next_cont_spec; auto.
  - assert (H0 : nnb s = O) by lia. specialize (Hf H0).
    assert (E : pending s = unq (tt s) ++ qidx (queue s)).
    { unfold pending. rewrite Hf. destruct (queue s); auto. }
    rewrite E in *. apply next_cont_spec; auto.
Qed.

(* ---- k calls ---- *)
Fixpoint dsorted (l : list Z) : Prop :=
  match l with [] => True | d :: t => Forall (fun d' => d <= d') t /\ dsorted t end.

Theorem results_spec k : forall s, Inv s -> (k <= length (pending s))%nat ->
  let res := results k s in
  length res = k /\
  (forall d i, In (d, i) res -> dist i = d) /\
  dsorted (map fst res) /\
  exists rest, Permutation (pending s) (map snd res ++ rest) /\
               forall d j, In d (map fst res) -> In j rest -> d <= dist j.
Proof.
  induction k as [|k IH]; intros s I Hk; simpl.
  - repeat split; auto; try contradiction. exists (pending s). split; auto. intros; contradiction.
  - assert (Hne : pending s <> []) by (destruct (pending s); simpl in *; [lia | discriminate]).
    destruct (next_spec s I Hne) as (d & i & s' & -> & I' & Hd & P & Hmin).
    assert (Hk' : (k <= length (pending s'))%nat).
    { apply Permutation_length in P. simpl in P. lia. }
    destruct (IH s' I' Hk') as (L & V & Sd & rest & P' & Hrest). simpl.
    assert (Hsub : forall j, In j (pending s') -> In j (pending s)).
    { intros j Hj. eapply Permutation_in; [apply Permutation_sym; exact P|]. right; auto. }
    split; [lia|]. split; [|split].
    + intros d0 i0 [H|H]; [inversion H; subst; auto | eauto].
    + split; [|auto]. rewrite Forall_forall. intros d' Hd'. apply in_map_iff in Hd'.
      destruct Hd' as ([d0 i0] & <- & Hin). simpl. rewrite <- (V _ _ Hin).
      apply Hmin, Hsub. eapply Permutation_in; [apply Permutation_sym; exact P'|].
      apply in_or_app; left. apply in_map_iff. exists (d0, i0); auto.
    + exists rest. split.
      * rewrite P. simpl. constructor. auto.
      * intros d0 j [<-|H] Hj; [|eauto].
        apply Hmin, Hsub. eapply Permutation_in; [apply Permutation_sym; exact P'|]. apply in_or_app; auto.
Qed.

End Search.

(* ======================================================================================== *)
(* C. from a kd-tree that is well-formed for the data to the trace tree                      *)

(* every leaf's points lie in the leaf's cell (left <= threshold <= right along the path) and a
   leaf holds copies of one point (bucket size one) *)
Fixpoint WF (data : list point) (path : list pstep) (t : tree) : Prop :=
  match t with
  | Leaf idx => idx <> [] /\ (forall i, In i idx -> in_cell path (pt data i)) /\
                (forall i, In i idx -> pt data i = pt data (hd 0%nat idx))
  | Node cd thr l r => WF data ((cd, thr, false) :: path) l /\ WF data ((cd, thr, true) :: path) r
  end.

Definition tdist (data : list point) (q : point) (i : nat) : Z := dist2 (pt data i) q.

Lemma WF_cell data t : forall path, WF data path t -> forall i, In i (tindices t) -> in_cell path (pt data i).
Proof.
  induction t as [idx | cd thr l IHl r IHr]; simpl; intros path W i Hi.
  - apply W; auto.
  - destruct W as [Wl Wr]. apply in_app_or in Hi. destruct Hi as [H|H].
    + eapply in_cell_tail. eapply IHl; eauto.
    + eapply in_cell_tail. eapply IHr; eauto.
Qed.

Lemma tidx_mk data q t : forall path, tidx (mk_trace data q path t) = tindices t.
Proof. induction t; simpl; intros; auto. rewrite IHt1, IHt2; auto. Qed.

Lemma mk_trace_sound data q t : forall path, WF data path t -> Sound (tdist data q) (mk_trace data q path t).
Proof.
  induction t as [idx | cd thr l IHl r IHr]; simpl; intros path W.
  - destruct W as (Hne & Hc & He). split; [auto|]. split.
    + intros i Hi. unfold tdist. rewrite (He i Hi). reflexivity.
    + apply kd_cell_lower_bound. apply Hc. destruct idx; [contradiction | left; auto].
  - destruct W as [Wl Wr]. split; [|split; auto].
    intros i Hi. rewrite !tidx_mk in Hi. unfold tdist. apply kd_cell_lower_bound.
    apply (WF_cell data (Node cd thr l r) path); simpl; auto.
Qed.

Fixpoint fresh (t : ttree) : Prop :=
  match t with
  | TLeaf qd _ _ _ => qd = false
  | TNode st _ _ l r => st = NONE /\ fresh l /\ fresh r
  end.

Lemma mk_trace_fresh data q t : forall path, fresh (mk_trace data q path t).
Proof. induction t; simpl; intros; auto. Qed.

Lemma fresh_unq t : fresh t -> unq t = tidx t.
Proof.
  induction t; simpl; intros H.
  - subst; auto.
  - destruct H as (_ & H1 & H2). rewrite IHt1, IHt2; auto.
Qed.

Lemma fresh_stinv t : fresh t -> StInv t.
Proof.
  induction t; simpl; intros H; auto.
  destruct H as (-> & H1 & H2). split; [intros; discriminate | auto].
Qed.

Lemma arrive_none c sib : arrive NONE c sib <> COMPLETE.
Proof. unfold arrive. destruct c; discriminate. Qed.

Lemma init_tr_ok dist t : forall t' q dep, fresh t -> Sound dist t -> init_tr t = (t', q, dep) ->
  same_skel t t' /\ StInv t' /\ qsorted q /\ qvalid dist q /\
  (dep = O -> tstatus t' = COMPLETE) /\
  (exists pd idx, q = [(pd, idx)]) /\
  Permutation (tidx t) (unq t' ++ qidx q).
Proof.
  induction t as [qd lb pd idx | st lb gl l IHl r IHr]; simpl; intros t' q dep F S E.
  - inversion E; subst. destruct S as (S0 & S1 & S2).
    repeat split; simpl; auto.
    + constructor; auto.
    + eauto.
    + unfold qidx; simpl. rewrite app_nil_r. auto.
  - destruct F as (-> & Fl & Fr). destruct S as (S0 & Sl & Sr). destruct gl.
    + destruct (init_tr l) as [[l' q0] d] eqn:El. inversion E; subst.
      destruct (IHl _ _ _ Fl Sl eq_refl) as (K & I & Qs & Qv & _ & Hq & P).
      repeat split; auto.
      * apply same_skel_refl.
      * exfalso; eapply arrive_none; eauto.
      * exfalso; eapply arrive_none; eauto.
      * apply fresh_stinv; auto.
      * intros; discriminate.
      * simpl. rewrite (fresh_unq r Fr). rewrite P. rewrite <- !app_assoc.
        apply Permutation_app_head. apply Permutation_app_comm.
    + destruct (init_tr r) as [[r' q0] d] eqn:Er. inversion E; subst.
      destruct (IHr _ _ _ Fr Sr eq_refl) as (K & I & Qs & Qv & _ & Hq & P).
      repeat split; auto.
      * apply same_skel_refl.
      * exfalso; eapply arrive_none; eauto.
      * exfalso; eapply arrive_none; eauto.
      * apply fresh_stinv; auto.
      * intros; discriminate.
      * simpl. rewrite (fresh_unq l Fl). rewrite P. rewrite <- !app_assoc. reflexivity.
Qed.

Lemma init_ok dist t : fresh t -> Sound dist t ->
  Inv dist (init t) /\ Permutation (tidx t) (pending (init t)).
Proof.
  intros F S. unfold init. destruct (init_tr t) as [[t' q] dep] eqn:E.
  destruct (init_tr_ok dist t _ _ _ F S E) as (K & I & Qs & Qv & Hd & (pd & idx & ->) & P).
  split.
  - constructor; simpl; auto.
    + eapply same_skel_Sound; eauto.
    + intros; lia.
  - unfold pending; simpl. unfold qidx in P; simpl in P. exact P.
Qed.

Lemma list_eqb_eq a : forall b, list_eqb a b = true -> a = b.
Proof.
  induction a as [|x a IH]; intros [|y b] H; simpl in H; try discriminate; auto.
  apply andb_prop in H. destruct H as [H1 H2]. apply Z.eqb_eq in H1. subst. f_equal; auto.
Qed.

(* the executable check run on every real tree implies the hypothesis of the theorems *)
Lemma wf_treeb_WF_gen data t : forall path,
  (forall i, In i (tindices t) -> in_cell path (pt data i)) -> wf_treeb data t = true -> WF data path t.
Proof.
  induction t as [idx | cd thr l IHl r IHr]; simpl; intros path HC H.
  - destruct idx as [|i rest]; [discriminate|]. split; [discriminate|]. split; [auto|].
    rewrite forallb_forall in H. simpl. intros j [<-|Hj]; auto. apply list_eqb_eq. auto.
  - apply andb_prop in H; destruct H as [H Hr]. apply andb_prop in H; destruct H as [H Hl].
    apply andb_prop in H; destruct H as [H1 H2]. rewrite forallb_forall in H1, H2.
    split; [apply IHl | apply IHr]; auto; intros i Hi; constructor;
      try (apply HC; apply in_or_app; auto).
    + apply Z.leb_le. apply H1; auto.
    + apply Z.leb_le. apply H2; auto.
Qed.

Lemma wf_treeb_WF data t : wf_treeb data t = true -> WF data [] t.
Proof. apply wf_treeb_WF_gen. intros; constructor. Qed.

(* ======================================================================================== *)
(* D. the property                                                                           *)

Theorem query_correct data t q k :
  WF data [] t -> (k <= length (tindices t))%nat ->
  let res := query data t q k in
  length res = k /\
  (forall d i, In (d, i) res -> d = dist2 (pt data i) q) /\
  dsorted (map fst res) /\
  exists rest, Permutation (tindices t) (map snd res ++ rest) /\
               forall d j, In d (map fst res) -> In j rest -> d <= dist2 (pt data j) q.
Proof.
  intros W Hk. unfold query.
  pose proof (mk_trace_sound data q t [] W) as S.
  pose proof (mk_trace_fresh data q t []) as F.
  destruct (init_ok (tdist data q) _ F S) as [I P].
  rewrite tidx_mk in P.
  assert (Hk' : (k <= length (pending (init (mk_trace data q [] t))))%nat).
  { rewrite <- (Permutation_length P); auto. }
  destruct (results_spec (tdist data q) k _ I Hk') as (L & V & Sd & rest & P' & Hr).
  split; [auto|]. split; [|split; [auto|]].
  - intros d i Hi. symmetry. apply (V d i Hi).
  - exists rest. split; [rewrite P; auto | exact Hr].
Qed.

(* bucket size > 1 (finding F4): a leaf with two different points keeps the distance of index(0)
   for both; the faithful model reports index 1 at squared distance 81 although it is at 1, and
   reports it after index 0 *)
Example bucket_gt_1_witness :
  let data := [[0]; [10]; [30]] in
  let t := Node 0 20 (Leaf [0%nat; 1%nat]) (Leaf [2%nat]) in
  query data t [9] 2 = [(81, 0%nat); (81, 1%nat)] /\ dist2 (pt data 1) [9] = 1 /\
  wf_treeb data t = false /\
  (forall i, In i (tindices t) -> in_cell [] (pt data i)).
Proof. cbv zeta. repeat split; try (vm_compute; reflexivity). intros; constructor. Qed.

(* the hypotheses of query_correct are satisfiable (and decided by wf_treeb) *)
Example wf_example :
  let data := [[0; 2]; [4; 2]; [4; 2]; [10; -6]] in
  let t := Node 0 7 (Node 0 2 (Leaf [0%nat]) (Leaf [2%nat; 1%nat])) (Leaf [3%nat]) in
  WF data [] t /\ query data t [9; 0] 4 = [(29, 2%nat); (29, 1%nat); (37, 3%nat); (85, 0%nat)].
Proof. split; [apply wf_treeb_WF; vm_compute; reflexivity | vm_compute; reflexivity]. Qed.

Lemma NoDup_app_l {A} (a b : list A) : NoDup (a ++ b) -> NoDup a.
Proof.
  induction a as [|x a IH]; simpl; intros H; [constructor|].
  inversion H; subst. constructor; [|auto]. intros Hx. apply H2. apply in_or_app; auto.
Qed.

(* the same over the whole data set 0 .. n-1 when the tree's index list is a permutation of it *)
Theorem query_k_smallest_dataset data t q k :
  WF data [] t -> Permutation (tindices t) (seq 0 (length data)) -> (k <= length data)%nat ->
  let res := query data t q k in
  length res = k /\
  NoDup (map snd res) /\
  (forall d i, In (d, i) res -> (i < length data)%nat /\ d = dist2 (pt data i) q) /\
  dsorted (map fst res) /\
  (forall j, (j < length data)%nat -> ~ In j (map snd res) ->
             forall d, In d (map fst res) -> d <= dist2 (pt data j) q).
Proof.
  intros W P Hk.
  assert (Hk' : (k <= length (tindices t))%nat) by (rewrite (Permutation_length P), seq_length; auto).
  destruct (query_correct data t q k W Hk') as (L & V & Sd & rest & P' & Hr).
  assert (P2 : Permutation (seq 0 (length data)) (map snd (query data t q k) ++ rest)).
  { rewrite <- P. auto. }
  assert (ND : NoDup (map snd (query data t q k) ++ rest)).
  { eapply Permutation_NoDup; [exact P2 | apply seq_NoDup]. }
  split; [auto|]. split; [eapply NoDup_app_l; eauto|]. split; [|split; [auto|]].
  - intros d i Hi. split; [|apply V; auto].
    assert (In i (seq 0 (length data))).
    { eapply Permutation_in; [apply Permutation_sym; exact P2|]. apply in_or_app; left.
      apply in_map_iff. exists (d, i); auto. }
    apply in_seq in H. lia.
  - intros j Hj Hn d Hd. apply Hr; auto.
    assert (In j (map snd (query data t q k) ++ rest)).
    { eapply Permutation_in; [exact P2|]. apply in_seq. lia. }
    apply in_app_or in H. tauto.
Qed.
