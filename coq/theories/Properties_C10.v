(* C10 — Gradient-based optimizers report consistent solutions and make progress.
   Only statements + `exact`; proofs live in C10Proofs.v, C10LsProofs.v, C10BfgsProofs.v, C10LbfgsProofs.v, C10LbfgsBoxProofs.v,
   C10LbfgsDescentProofs.v, C10AdamRpropProofs.v, C10CgProofs.v, C10TrustRegionProofs.v, the executable model in C10Model.v, C10LsModel.v and - written once over an abstract
   number type (C10Gen.v, C10AdamRprop.v, C10TrustRegion.v) and instantiated with the exact rationals - C10LbfgsModel.v, C10AdamRprop.v, C10TrustRegion.v.

   PROPERTY (properties.jsonl): after init and after every step the reported best value equals the objective
   at the reported best point, the point is finite and (box-constrained objectives) feasible; line-search
   methods never increase the objective and reach the minimiser of strictly convex quadratics within a step
   budget; an optimizer saved after any number of steps and restored into a fresh instance continues with the
   same iterates.  Quantified over objectives, starts, optimizers, line searches, step counts, save points.

   WHAT IS PROVED (models over exact rationals, objective = two arbitrary oracles f / grad, all dimensions,
   all starting points, all step counts; no axioms).  Part 1: backtracking (C10Model.v / C10Proofs.v):
     * C10_linesearch_state_consistent    value = f(point), derivative = grad(point) after init and every
         step of AbstractLineSearchOptimizer with the backtracking line search, for EVERY derived class
         (direction rule and model state are universally quantified: CG, BFGS, L-BFGS are instances).
     * C10_steepestdescent_state_consistent   the same for SteepestDescent (learning rate + momentum).
     * C10_backtracking_never_increases   one backtracking call along a non-ascent direction.
     * C10_linesearch_monotone_partial    every step of a whole run, for every direction rule that never
         returns an ascent direction (backtracking).  The hypothesis is false for CG as coded on non-convex objectives
         (Part 6: exactly when; NOT because of the reset branch that keeps the old direction); it is DISCHARGED for BFGS
         (Part 3), for L-BFGS (Part 4) and for CG on objectives that are convex along rays (Part 6).
     * C10_steepest_descent_direction_monotone   instance without hypothesis (direction -gradient; this is
         also the first step of every line-search optimiser).
     * C10_box_feasible_partial, C10_box_feasible_slack_partial (the box widened by the 1e-13 slack of
         BoxConstraintHandler::isFeasible, which is the test the code uses)   box constraints, backtracking: every iterate is feasible for every
         objective and every direction rule returning d with x + d in the box.  PARTIAL: that hypothesis is
         what LBFGS::computeSearchDirection checks at run time (SHARK_RUNTIME_CHECK "internal error"); it is
         DISCHARGED for L-BFGS in Part 4 (C10_lbfgs_box_feasible).  Satisfiable: proj_oracle_feasible.
     * C10_box_feasible_penalised_partial  one step, for objectives that report infeasible points as not
         better than feasible ones (hypothesis), any direction.
     * C10_linesearch_saverestore_continues / C10_cg_saverestore_continues / C10_bfgs_saverestore_continues   the
         archived member list of AbstractLineSearchOptimizer (+ m_count for CG, + m_hessian for BFGS) is the complete
         model state: restoring into ANY instance and continuing gives the same iterates.  L-BFGS, Adam and Rprop:
         Parts 4 and 5.
     * C10_steepestdescent_saverestore_continues   the member list of SteepestDescent::read/write (path, learning
         rate, momentum, derivative, point, value - as coded since the repair c36da89f of finding F16) is complete;
         the earlier list (path, rate, momentum) was not: steepestdescent_coded_restore_refuted in C10Proofs.v is
         a machine-checked counterexample.
   Part 2: ALL THREE LINE SEARCHES (C10LsModel.v / C10LsProofs.v).  The model is the state handling of wolfecubic
   (bracketing loop with its three exits, zoom loop with lo/hi bookkeeping, done / tolerance / iteration-limit exits,
   the shared iteration counter, the final write-back test), of dlinmin (which of the trials becomes x, the final
   fx < fp test, value := fp otherwise, the evalDerivative that follows) and of LineSearch::operator(); the numerical
   choice of every trial step length (cubic interpolation + "sufficient progress" correction, Brent steps, golden
   section bracketing, rounding of t *= 10) is an ORACLE.  Every theorem is for every oracle:
     * C10_linesearch_call_consistent, C10_linesearch_state_consistent_all_types   value = f(point) and derivative =
         grad(point) after one call / after init and every step, every derived class, all line-search types
         (a constrained objective forces backtracking, as in init()).
     * C10_linesearch_call_never_increases   wolfecubic and backtracking along a non-ascent direction with t0 >= 0;
         C10_dlinmin_spec: dlinmin never returns a value above f(point) (no hypothesis) and is consistent even when
         the incoming value is not.
     * C10_linesearch_on_line (all types) / C10_linesearch_on_ray (wolfecubic, backtracking; oracle without negative
         proposals).  dlinmin does NOT stay on the ray: C10_ex_dlinmin_steps_backward (model run; the C++ is run on
         the same input by tools/c10.py: harness/c10_findings.txt).
     * C10_linesearch_call_defined, C10_linesearch_run_defined   the model returns None exactly where the C++ reads a
         variable it never assigned.  Since the repair 1272c59f (after maxIter = 25 expansions that all pass the three
         bracketing tests - e.g. any linear objective - the last tested point, which satisfies the sufficient-decrease
         test, is taken; consistency / never-increases / on-ray cover that path) every call with t0 >= 0 and every run
         of every line-search optimizer is defined, for every oracle.  C10_wolfecubic_undefined_iff: the one path left
         (strong-Wolfe point found in expansion 25 without decrease: bracketf[1] read unassigned) needs t0 < 0
         (C10_ex_wolfecubic_negative_step_undefined); no caller passes a negative step length.  Regression witness of the
         old behaviour: old_wolfecubic, C10_ex_wolfecubic_linear_objective_regression; inputs in harness/c10_findings.txt.
     * C10_linesearch_monotone_all_types_partial   whole runs, all types, for direction rules without ascent directions.
   Part 3: BFGS (bfgs_update / bfgs_dir in C10LsModel.v, C10BfgsProofs.v):
     * C10_bfgs_update_symmetric (+ C10_bfgs_symmetry_is_entrywise), C10_bfgs_update_quadratic_form
         (x'H+x = w'Hw + (s'x)^2/(y's), w = x - (s'x/y's) y), C10_bfgs_update_positive_definite (y's > 0),
         C10_bfgs_reset_as_coded (y's < 1e-20: identity).
     * C10_bfgs_direction_descent   after init and every step, all line-search types, every oracle: the matrix is symmetric
         positive definite and g'd <= 0, g'd < 0 whenever g is not the zero vector (hypothesis: the gradient has the
         dimension of the point).  C10_bfgs_monotone: every BFGS step is monotone - the hypothesis of
         C10_linesearch_monotone_partial is gone for BFGS.  (Exact arithmetic: in floating point y's >= 1e-20 does not
         protect against loss of definiteness by rounding; monitored.)

   Part 4: L-BFGS (LBFGS.cpp; C10Gen.v / C10LbfgsModel.v; C10LbfgsProofs.v, C10LbfgsBoxProofs.v, C10LbfgsDescentProofs.v):
     * C10_lbfgs_history_skip_rule / _store_rule   updateHist as coded: a pair is stored iff y's > m_updThres (1e-10), the OLDEST
         pair is dropped iff the history already holds m_numHist pairs, m_bdiag := y'y / y's.
     * C10_lbfgs_two_loop_is_matrix / _entries   multBInv (the two loops over the arrays, as coded) computes H x for H = lb_H =
         the BFGS inverse updates (bfgs_update of Part 3) of the stored pairs, oldest first, applied to (1/m_bdiag) I: every
         history length, every dimension.  C10_lbfgs_matrix_spd: H is symmetric positive definite when m_bdiag > 0 and all
         stored y's > 0.
     * C10_lbfgs_direction_descent   after init and every step, all line-search types, every oracle, every m_numHist:
         m_bdiag > 0, EVERY stored pair has y's > 1e-10 (the code cannot store a pair with y's <= 0 - in exact arithmetic; the
         floating-point y's is recomputed from the same two vectors by multBInv, so it is the tested number), the history
         holds at most m_numHist pairs (the bound that keeps rho(i) / alpha(i) inside their m_numHist-sized arrays; NOT
         covered: lowering m_numHist by setHistCount between two steps, which makes multBInv write beyond them), H is
         symmetric positive definite, g'd < 0 for g != 0.  C10_lbfgs_monotone: every unconstrained L-BFGS step is monotone.
     * C10_lbfgs_box_direction_feasible   getBoxConstrainedDirection as coded (after e082c2d6 / 42faa67e): for every input
         x + d stays in the box widened by the 1e-13 slack of isFeasible (all three branches; no relation between lower
         and upper needed).  C10_lbfgs_box_feasible: every iterate of box-constrained L-BFGS is feasible;
         C10_lbfgs_box_internal_check_holds: the run-time check "internal error" never fires (exact arithmetic).
     * C10_lbfgs_mult_b_positive_definite (multB as coded, the cancelled sqrt aside, is a symmetric positive definite form),
         C10_lbfgs_box_direction_nonascent (g'd <= 0 in all three branches, every input), C10_lbfgs_box_monotone (every step
         of box-constrained L-BFGS is monotone).  NOT PROVED: the strict version "g'd < 0 or d = 0" (monitored as g'd <= 0).
     * C10_lbfgs_saverestore_continues + C10_lbfgs_threshold_constant   the archived list (base + m_numHist, m_bdiag, m_steps,
         m_gradientDifferences) is complete for every instance whose m_updThres equals the saved one; initModel sets it to
         the constant 1e-10, so every init-ed instance qualifies.  m_updThres itself is NOT archived:
         C10_ex_lbfgs_restore_other_threshold_refuted (not reachable through init, which LineSearch needs anyway).
   Part 5: Adam and Rprop (C10AdamRprop.v; C10AdamRpropProofs.v).  solution().value of both classes is the value returned by
   evalDerivative at solution().point at the end of init / step; std::sqrt is an arbitrary function, std::pow the exact power:
     * C10_adam_state_consistent (value, derivative, m_counter = number of steps, parameters untouched),
       C10_adam_second_moment_nonneg (the argument of sqrt is not negative for 0 <= beta2 <= 1), C10_adam_saverestore_continues.
     * C10_rprop_state_consistent (all four variants + the two unnamed flag combinations, every feasibility predicate),
       C10_rprop_delta_positive (every feasibility predicate), C10_rprop_delta_range_partial (inside [minDelta, maxDelta] on
       unconstrained objectives; FALSE with box constraints as coded: the infeasible branch multiplies by m_decreaseFactor
       without the clamp, C10_ex_rprop_box_delta_below_min_refuted; the initial step size is not clamped either),
       C10_irprop_plus_undoes_increase (after a step that increased the value every coordinate whose partial derivative
       changed sign is back where it was), C10_rprop_saverestore_continues (list as repaired by 9fe8fcd6; the earlier list:
       C10_ex_rprop_old_list_restore_refuted).
     * OBSERVED AND PROVED AS CODED: C10_rprop_stale_step_as_coded - with backtracking and the old-value test (iRprop+, the
       default) a sign change WITHOUT an increase of the value assigns nothing to m_deltaw(i), and "point(i) += m_deltaw(i)"
       repeats the previous step of the coordinate, i.e. moves it further against the new sign of the derivative
       (C10_ex_irprop_plus_stale_step: values 21, 7, 89 on a convex quadratic; the C++ gives the same numbers).  iRprop+ as
       published makes no move there.  Not a clause of the property (Rprop is not a line-search method): reported.
   Part 6: CG as coded (C10CgProofs.v):
     * C10_cg_direction_ascent_iff   with g_last'd < 0: the new direction is an ascent direction iff it comes from the main
         branch and d'(g - g_last) < -1e-10 g'g (the slope along d decreased: negative curvature along the step; beta is the
         Dai-Yuan quotient g'g / d'(g - g_last) and g'd_new = g'g g_last'd / d'(g - g_last)).  The reset branch that keeps the
         old direction never gives one.  C10_cg_direction_nonascent: the guard d'(g - g_last) >= 0 excludes it.
     * C10_cg_monotone_convex_partial   on objectives whose slope along a direction does not decrease along the ray, with
         WolfeCubic / Backtracking and oracles without negative proposals, every CG step is monotone.  PARTIAL: false for all
         objectives, C10_ex_cg_ascent_direction_refuted (dyadic indefinite quadratic; the C++ gives the same g'd > 0).  An
         ascent direction does not by itself increase the objective: Backtracking accepts x + t d only if f < value +
         1e-4 t g'd, i.e. an increase below 1e-4 t g'd (seen once in 18000 CG steps on indefinite quadratics: 1.8e-15), and
         otherwise keeps the point; no increase was observed on the generated family of the property.

   Part 7: trust-region Newton (TrustRegionNewton.cpp; C10TrustRegion.v, C10TrustRegionProofs.v).  The model mirrors, as coded after
   the repair fd35712b, borderDistance, errorDifference, trustRegionCG (Steihaug CG: the loop with its four exits and the
   10 n iteration limit) and TrustRegionNewton::init / step (forcing tolerance min(0.5, sqrt|g|) |g|, predicted and actual change,
   rho, radius / 4 resp. * 2, acceptance iff rho >= m_minImprovementRatio, ONE evalDerivative call after acceptance), written once
   over an abstract number type; operator() and evalDerivative are two unrelated oracles, std::sqrt an arbitrary function:
     * C10_trn_state_consistent (+ _as_coded)   for EVERY number type and EVERY answer of the sub-problem solver in every step:
         after init and after every step value / gradient / Hessian are the ones evalDerivative returns at the reported point,
         m_minImprovementRatio is the 0.1 set by init.  (Pure bookkeeping: holds for IEEE doubles incl. NaN answers.)
     * C10_trn_radius_positive, C10_trn_radius_factors   exact rationals, every solver answer: the radius stays positive and
         changes by 1/4, 1 or 2 only.
     * C10_trn_accepted_step_follows_prediction, C10_trn_rejected_step_keeps_solution, C10_trn_step_never_increases_partial   what
         the acceptance rule guarantees for every solver answer (objective coherent, ratio > 0): an accepted step changes the
         value strictly in the direction of the PREDICTED change; the sign of the prediction is NOT tested by the code, so the
         statement "a step never increases the value" holds under the guard "predicted change <= 0" (PARTIAL) and is false
         without it (second conjunct of the first theorem: a positive prediction that comes true is accepted).
     * C10_trn_cg_inside_region_and_predicts_decrease   trustRegionCG as repaired, every symmetric matrix (definite or not),
         every gradient / tolerance / positive radius: the step lies inside the trust region (on the border after
         borderDistance) and the predicted change is <= 0 - this discharges the guard.  Invariants proved for the loop:
         residual = gradient + H step, residual'direction = -|residual|^2, |step| < radius, model value non-increasing, the
         positive root tau of the border equation with tau <= alpha.  Hypothesis: std::sqrt is right at the ONE number whose
         root borderDistance takes in that call (satisfiable: C10_ex_trn_cg_border_second_iteration).
     * C10_trn_run_never_increases   the clauses of the property for whole runs of the model class: consistent, radius positive,
         trial point inside the trust region, value never increases (objective coherent with symmetric Hessians; sqrt right at
         the root of each step).  Satisfiable: C10_ex_trn_hypotheses_satisfiable.
     * REGRESSION WITNESSES of the repaired defect (borderDistance took +p/2 + sqrt(..), the wrong root, harmless only in the first
         CG iteration): C10_ex_trn_old_border_leaves_region_refuted (exact root, step of length > 3 with radius 25/12),
         C10_ex_trn_old_formula_increases_value_refuted (the failing input of the defect: f = (x^2+16y^2)/2 from (3,-1), radius 2:
         second step from < 4 to > 7), C10_ex_trn_repaired_run_decreases.
     OUTSIDE AN ORDERED FIELD: NaN.  At an exactly zero gradient the C++ divides 0/0 in borderDistance, evaluates the objective
     at a NaN point and keeps the old point only because "NaN >= ratio" is false; in the rational instance 0/0 = 0 and the step
     returns through "solution.first == 0" - the same state, for a different reason.  That the C++ behaves so is MONITORED
     (histories started at the minimiser / continued after exact convergence) and replayed by the double instance of the model
     (whose comparisons are the C++ operators also on NaN).  NOT PROVED: convergence; anything about rounding (observed: after ~268
     consecutive rejections the square of the radius underflows, the CG step is empty and step() returns through
     solution.first == 0; the radius itself stays positive).

   WHAT IS ONLY COMPARED (tools/c10.py, every run): the extracted model against the C++ on generated dyadic
   quadratics (exact equality of point, value, derivative, direction, step length, last point/derivative/value,
   CG counter, line-search type, BFGS matrix, L-BFGS history / m_bdiag) for a harness subclass of AbstractLineSearchOptimizer
   with direction -gradient, for CG, for BFGS (two to three steps = two updates of the matrix, save/restore), for L-BFGS with
   and without box (whole histories incl. save/restore while the exact rationals stay below 200 bits, i.e. 2-3 stored pairs),
   and for SteepestDescent; tolerance 1e-9 after the first inexact floating-point operation (CG's beta, the divisions of
   BFGS / L-BFGS).
   ONE-STEP REPLAYS from the implementation's own previous state (every single step S of every L-BFGS / Adam / Rprop history
   of the run; the harness prints the complete private state): the GENERIC model functions of C10Gen.v / C10AdamRprop.v - the
   very terms whose rational instances the theorems are about - instantiated with IEEE doubles recompute
     * L-BFGS: updateHist (stored / skipped / oldest dropped: exact equality of the history) and the direction (multBInv
       resp. getBoxConstrainedDirection incl. multB), 1e-10 relative; y and s are recomputed by the same two subtractions;
       steps whose y's is within rounding of the threshold are counted and skipped.  Streams: history shorter than / equal to
       / longer than the memory, y's tiny (objective scaled by 2^-8..2^-16) or negative (indefinite quadratics), small boxes
       with the start on a bound (fixed coordinates, Cauchy and dog-leg branches);
     * Adam: moments, counter, point (bitwise equal on this platform; 1e-10 allowed);
     * Rprop: point, step sizes, last steps, derivative memory, old value (double instance: bitwise equal; rational instance:
       1e-10): four variants + two unnamed flag combinations, sign changes, clamps at minDelta / maxDelta, box constraints
       with infeasible candidates;
     * TrustRegionNewton (real class through a subclass that supplies the init override the class lacks): EVERY single step S is
       recomputed by the extracted tr_step from the state the C++ reports (point, value, radius, ratio, stored gradient and Hessian);
       the double instance gets as oracles the value the C++ objective returned at its trial point and the evalDerivative result
       after acceptance: trial point (i.e. the CG step), acceptance, new radius (exactly), new point and value must agree to 1e-9
       (+ 256 x the distance the model's own CG step moves when every sum is accumulated in another order or gradient and Hessian
       are moved by one unit in the last place - ~1e-16 unless the Hessian is ill-conditioned; steps where that distance exceeds 1e-3
       of the step or the orders leave the CG differently, and steps that still differ while the condition of the Hessian exceeds 1.1e4,
       are counted, not compared; near ties of rho
       with 0.25 / 0.75 / the ratio are counted, not compared); the rational instance (quadratics n <= 4 with short mantissas,
       objective evaluated exactly) must agree to 1e-9 and, where the harness saw NO inexact floating-point operation in the whole
       step (FE_INEXACT clear: stream of multiples of the identity with |gradient| a dyadic square) EXACTLY in point, value,
       radius.  A run must exercise every case split (zero gradient, tolerance / border in the first / in a later iteration /
       non-positive curvature exits, rho below / between / above the thresholds, accept / reject with each radius change).
   the objective oracles of the replayed step return the value / derivative the implementation reports after the step.
   The witnesses C10_ex_irprop_plus_stale_step, C10_ex_rprop_box_delta_below_min_refuted, C10_ex_cg_ascent_direction_refuted
   are run on the C++ and must give the numbers of the Examples.
   Single calls of LineSearch::operator() (all three types) on a hooked objective whose values are a hash of the
   evaluated point (small dyadic numbers, many ties) or linear up to a threshold: the harness logs the order and the
   step lengths of all evaluations, tools/c10.py turns the log into the oracle, the extracted [linesearch] must return
   exactly the same point, value and derivative, must ask for exactly as many trial steps as the code evaluated, and its
   expansions 10*t must round to the logged ones.  Calls where a rounded comparison of the code (c1*t*gtd, c2*gtd)
   decides differently from the exact one are counted and skipped.
   The comparison of a history stops where the exact model reaches the minimiser (zero gradient) and, once the
   run is inexact, where |gradient|^2 <= 1e-9 max(1,|value|): there the Armijo test of the C++ compares rounding noise.
   WHAT IS ONLY MONITORED on the C++ (all classes: SteepestDescent, Adam, CG, BFGS, L-BFGS with/without box,
   Rprop variants with/without box; line searches Dlinmin/WolfeCubic/Backtracking; quadratics, Rosenbrock, box
   variants): value = re-evaluated objective and stored derivative = re-evaluated gradient (bitwise), finiteness,
   feasibility (BoxConstraintHandler::isFeasible, i.e. with its 1e-13 slack), monotonicity of line-search methods,
   minimiser reached within the step budget (CG/BFGS/L-BFGS on quadratics with condition <= 1e4),
   save-at-k / restore into a fresh differently initialised instance / continue equality; single line-search calls:
   consistency, no increase, result independent of the previous stack contents; replayed steps: the L-BFGS direction is a
   descent direction (box: not an ascent direction) and point + direction is inside the box, Rprop's step sizes are positive
   and (unconstrained) inside [minDelta, maxDelta], iRprop+ takes the coordinates back after an increase, Adam's second
   moment is not negative.
   TrustRegionNewton, after init and after EVERY step of every history (strictly convex quadratics of condition 1..1e8 incl. badly
   scaled ones, axis-parallel ones with integer minimiser started at / one exact Newton step from the minimiser, multiples of the
   identity, Rosenbrock-type incl. starts in the region of negative curvature and at the optimum, indefinite / singular / linear
   objectives; radii 1e-3..1e3, ratios 0.01..0.9; 250-900 steps, i.e. hundreds of steps past convergence): value = objective at the
   point and stored gradient / Hessian = derivatives at the point (bitwise), finite, value never increases, the evaluated trial
   point lies inside the trust region (up to the rounding of point + step), minimiser of strictly convex quadratics of condition
   <= 1e4 reached within 200 steps (beyond 1e4: counted; condition 1e8 can stall when the objective's rounding noise exceeds the
   predicted decrease of the short step the forcing tolerance accepts: every step rejected, radius -> 0).
   OBSERVED, outside the model: wlsCubicInterp returns NaN (0/0) when the two bracket ends have equal values and opposite
   slopes with the lower end rising, more generally (f2-f1)/(t2-t1) = (g1+g2)/6 with g1 >= g2; wolfecubic then evaluates
   the objective at a NaN point.  In the check this happened only along ASCENT directions (incoming g'd > 0; 4 of 60000
   calls on the hash objective, whose gradient is not the derivative of its value), never with g'd < 0: the first bracket
   [0, t] cannot be degenerate then (its lower end has the most negative slope and the upper end failed a test), and on a
   convex objective g1 >= g2 forces a flat piece, where the search has already stopped.  No input with a consistent state, a
   descent direction and a differentiable objective was found; BFGS and L-BFGS never pass an ascent direction
   (C10_bfgs_direction_descent, C10_lbfgs_direction_descent).  Such calls are counted (nonfinite) and not compared.
   NOT COVERED: convergence proofs; the numerics of the interpolation / Brent / golden-section steps (that the oracle's
   proposals are the ones the formulas give; that wolfecubic's result satisfies the Wolfe conditions); rounding: every theorem is about exact rationals (floating point can lose
   y's > 0, positive definiteness, positivity of a step size after ~1075 halvings, and can put x + alpha c one ulp outside
   the bound - inside the 1e-13 slack); Adam's setters accept beta >= 1 (bias correction 1 - beta^t <= 0: division by zero /
   sqrt of a negative number) - outside the generated configurations; TrustRegionNewton: convergence and rounding (Part 7); its
   read / write (the class archives nothing: C18). *)
From Coq Require Import List QArith Qreduction Qabs Bool Arith.
From SharkV Require Import C10Model C10Proofs C10LsModel C10LsProofs C10BfgsProofs C10Gen C10LbfgsModel C10LbfgsProofs C10LbfgsBoxProofs C10LbfgsDescentProofs C10AdamRprop C10AdamRpropProofs C10CgProofs C10TrustRegion C10TrustRegionProofs.
Import ListNotations.
Open Scope Q_scope.

Theorem C10_linesearch_state_consistent :
  forall (f : vec -> Q) (grad : vec -> vec) (feasible : vec -> bool)
         (M : Type) (init_model : nat -> M) (compute_dir : ls_state M -> M * vec)
         (lstype : nat) (x0 : vec) (n : nat),
    let s := ls_run f grad M compute_dir n (ls_init f grad feasible M init_model lstype x0) in
    val s = f (pt s) /\ der s = grad (pt s).
Proof. exact linesearch_state_consistent. Qed.
Print Assumptions C10_linesearch_state_consistent.

Theorem C10_steepestdescent_state_consistent :
  forall (f : vec -> Q) (grad : vec -> vec) (lr mom : Q) (x0 : vec) (n : nat),
    let r := sd_run f grad n (sd_init f grad lr mom x0) in
    sd_val r = f (sd_pt r) /\ sd_der r = grad (sd_pt r).
Proof. exact steepestdescent_state_consistent. Qed.
Print Assumptions C10_steepestdescent_state_consistent.

Theorem C10_backtracking_never_increases :
  forall (f : vec -> Q) (grad : vec -> vec) (point d : vec) (value : Q) (g : vec) (t0 : Q),
    0 <= t0 -> dot g d <= 0 ->
    let '(p', v', g') := backtracking f grad point d value g t0 in v' <= value.
Proof. exact backtracking_monotone. Qed.
Print Assumptions C10_backtracking_never_increases.

(* full statement (not proved): forall optimizer in {CG, BFGS, LBFGS}, forall line search type, forall n,
   f (point after step n+1) <= f (point after step n). *)
Theorem C10_linesearch_monotone_partial :
  forall (f : vec -> Q) (grad : vec -> vec) (feasible : vec -> bool)
         (M : Type) (init_model : nat -> M) (compute_dir : ls_state M -> M * vec),
    (forall s1, dot (der s1) (snd (compute_dir s1)) <= 0) ->
    forall (lstype : nat) (x0 : vec) (n : nat),
    let s := ls_run f grad M compute_dir n (ls_init f grad feasible M init_model lstype x0) in
    val (ls_step f grad M compute_dir s) <= val s /\
    f (pt (ls_step f grad M compute_dir s)) <= f (pt s).
Proof. exact run_monotone_descent_oracle. Qed.
Print Assumptions C10_linesearch_monotone_partial.

Theorem C10_steepest_descent_direction_monotone :
  forall (f : vec -> Q) (grad : vec -> vec) (feasible : vec -> bool) (lstype : nat) (x0 : vec) (n : nat),
    let s := ls_run f grad unit sd_dir n (ls_init f grad feasible unit sd_init_model lstype x0) in
    val (ls_step f grad unit sd_dir s) <= val s /\
    f (pt (ls_step f grad unit sd_dir s)) <= f (pt s).
Proof. exact steepest_descent_linesearch_monotone. Qed.
Print Assumptions C10_steepest_descent_direction_monotone.

(* full statement (not proved): the hypothesis on compute_dir instantiated and discharged for
   LBFGS::getBoxConstrainedDirection. *)
Theorem C10_box_feasible_partial :
  forall (f : vec -> Q) (grad : vec -> vec) (l u : vec)
         (M : Type) (init_model : nat -> M) (compute_dir : ls_state M -> M * vec),
    (forall s1, box_feasb l u (pt s1) = true ->
                box_feasb l u (vadd (pt s1) (vscale 1 (snd (compute_dir s1)))) = true) ->
    forall (lstype : nat) (x0 : vec) (n : nat),
    box_feasb l u x0 = true -> length (grad x0) = length x0 ->
    box_feasb l u (pt (ls_run f grad M compute_dir n (ls_init f grad (box_feasb l u) M init_model lstype x0))) = true.
Proof. exact box_feasible_run. Qed.
Print Assumptions C10_box_feasible_partial.

(* the same for the feasibility test as coded (box widened by the slack 1e-13 of BoxConstraintHandler::isFeasible) *)
Theorem C10_box_feasible_slack_partial :
  forall (f : vec -> Q) (grad : vec -> vec) (eps : Q) (l u : vec)
         (M : Type) (init_model : nat -> M) (compute_dir : ls_state M -> M * vec),
    (forall s1, box_feasb_slack eps l u (pt s1) = true ->
                box_feasb_slack eps l u (vadd (pt s1) (vscale 1 (snd (compute_dir s1)))) = true) ->
    forall (lstype : nat) (x0 : vec) (n : nat),
    box_feasb_slack eps l u x0 = true -> length (grad x0) = length x0 ->
    box_feasb_slack eps l u (pt (ls_run f grad M compute_dir n (ls_init f grad (box_feasb_slack eps l u) M init_model lstype x0))) = true.
Proof. exact box_feasible_slack_run. Qed.
Print Assumptions C10_box_feasible_slack_partial.

Theorem C10_box_feasible_penalised_partial :
  forall (f : vec -> Q) (grad : vec -> vec) (feasible : vec -> bool)
         (M : Type) (compute_dir : ls_state M -> M * vec),
    (forall x y, feasible x = false -> feasible y = true -> f y <= f x) ->
    forall s : ls_state M,
    consistent f grad M s -> feasible (pt s) = true -> 0 <= step_len s -> dot (der s) (sdir s) <= 0 ->
    feasible (pt (ls_step f grad M compute_dir s)) = true.
Proof. exact box_feasible_step. Qed.
Print Assumptions C10_box_feasible_penalised_partial.

Theorem C10_linesearch_saverestore_continues :
  forall (M : Type) (save_extra : M -> list field) (restore_extra : list field -> option M),
    (forall m, restore_extra (save_extra m) = Some m) ->
    forall (f : vec -> Q) (grad : vec -> vec) (compute_dir : ls_state M -> M * vec) (fresh s s' : ls_state M),
    ls_restore M restore_extra fresh (ls_save M save_extra s) = Some s' ->
    forall n, ls_run f grad M compute_dir n s' = ls_run f grad M compute_dir n s.
Proof. exact ls_saverestore_continues. Qed.
Print Assumptions C10_linesearch_saverestore_continues.

Theorem C10_cg_saverestore_continues :
  forall (f : vec -> Q) (grad : vec -> vec) (fresh s : ls_state nat),
    ls_restore nat cg_restore_extra fresh (ls_save nat cg_save_extra s) = Some s /\
    forall s', ls_restore nat cg_restore_extra fresh (ls_save nat cg_save_extra s) = Some s' ->
    forall n, ls_run f grad nat cg_dir n s' = ls_run f grad nat cg_dir n s.
Proof. exact cg_saverestore_total_and_continues. Qed.
Print Assumptions C10_cg_saverestore_continues.

Theorem C10_steepestdescent_saverestore_continues :
  forall (f : vec -> Q) (grad : vec -> vec) (fresh s s' : sd_state),
    sd_restore_full fresh (sd_save_full s) = Some s' ->
    forall n, sd_run f grad n s' = sd_run f grad n s.
Proof. exact sd_saverestore_full_continues. Qed.
Print Assumptions C10_steepestdescent_saverestore_continues.

(* ====================================================================================================
   All three line searches (Dlinmin, WolfeCubic, Backtracking) with the numerical choice of the trial step
   lengths as an arbitrary oracle [o : ls_oracle]; BFGS.  Models in C10LsModel.v. *)

(* one call of LineSearch::operator(): state consistency.  [None] = the C++ reads unassigned memory, see
   C10_wolfecubic_undefined_iff *)
Theorem C10_linesearch_call_consistent :
  forall (f : vec -> Q) (grad : vec -> vec) (ty : nat) (o : ls_oracle) (point d : vec) (value : Q) (g : vec) (t0 : Q)
         (p' : vec) (v' : Q) (g' : vec),
    value = f point -> g = grad point ->
    linesearch f grad ty o point d value g t0 = Some (p', v', g') ->
    v' = f p' /\ g' = grad p'.
Proof. exact linesearch_consistent. Qed.
Print Assumptions C10_linesearch_call_consistent.

(* one call never increases the value: along a non-ascent direction with a non-negative initial step length
   (wolfecubic, backtracking; dlinmin needs neither: C10_dlinmin_spec) *)
Theorem C10_linesearch_call_never_increases :
  forall (f : vec -> Q) (grad : vec -> vec) (ty : nat) (o : ls_oracle) (point d : vec) (value : Q) (g : vec) (t0 : Q)
         (p' : vec) (v' : Q) (g' : vec),
    value = f point -> 0 <= t0 -> dot g d <= 0 ->
    linesearch f grad ty o point d value g t0 = Some (p', v', g') -> v' <= value.
Proof. exact linesearch_monotone. Qed.
Print Assumptions C10_linesearch_call_never_increases.

Theorem C10_dlinmin_spec :
  forall (f : vec -> Q) (o : ls_oracle) (point d : vec),
    let r := dlinmin f o point d in
    snd r = f (fst r) /\ snd r <= f point /\
    (fst r = point \/ exists u, In u (o_dx0 o :: firstn dl_itmax (o_dus o)) /\ fst r = ray point d u).
Proof. exact dlinmin_spec. Qed.
Print Assumptions C10_dlinmin_spec.

(* the new point is on the search LINE for every type and every oracle ... *)
Theorem C10_linesearch_on_line :
  forall (f : vec -> Q) (grad : vec -> vec) (ty : nat) (o : ls_oracle) (point d : vec) (value : Q) (g : vec) (t0 : Q)
         (p' : vec) (v' : Q) (g' : vec),
    linesearch f grad ty o point d value g t0 = Some (p', v', g') ->
    p' = point \/ exists t, p' = vadd point (vscale t d).
Proof. exact linesearch_on_line. Qed.
Print Assumptions C10_linesearch_on_line.

(* ... and on the search RAY for wolfecubic and backtracking (oracle without negative proposals: the C++ clamps the
   interpolated step into the bracket).  Not for dlinmin: C10_ex_dlinmin_steps_backward. *)
Theorem C10_linesearch_on_ray :
  forall (f : vec -> Q) (grad : vec -> vec) (ty : nat) (o : ls_oracle) (point d : vec) (value : Q) (g : vec) (t0 : Q)
         (p' : vec) (v' : Q) (g' : vec),
    ty <> 0%nat -> 0 <= t0 -> (forall k q, 0 <= q -> 0 <= o_wexp o k q) -> (forall k, 0 <= o_wzoom o k) ->
    linesearch f grad ty o point d value g t0 = Some (p', v', g') ->
    p' = point \/ exists t, 0 <= t /\ p' = vadd point (vscale t d).
Proof. exact linesearch_on_ray. Qed.
Print Assumptions C10_linesearch_on_ray.

(* DEFINEDNESS.  Since the repair 1272c59f of /repo (all maxIter expansions succeed: the last tested point is taken)
   every call with a non-negative initial step length is defined: every type, every oracle, every objective, consistent
   incoming state or not *)
Theorem C10_linesearch_call_defined :
  forall (f : vec -> Q) (grad : vec -> vec) (ty : nat) (o : ls_oracle) (point d : vec) (value : Q) (g : vec) (t0 : Q),
    0 <= t0 -> linesearch f grad ty o point d value g t0 <> None.
Proof. exact linesearch_defined. Qed.
Print Assumptions C10_linesearch_call_defined.

(* what remains undefined (reads bracketf[1] unassigned): exactly a strong-Wolfe point found in bracketing iteration
   maxIter whose value is not below the old one; by the theorem above this needs t0 < 0, which no caller in the library
   passes (C10_ex_wolfecubic_negative_step_undefined shows that it is reachable then) *)
Theorem C10_wolfecubic_undefined_iff :
  forall (f : vec -> Q) (grad : vec -> vec) (o : ls_oracle) (point d : vec) (value : Q) (g : vec) (t0 : Q),
    wolfecubic f grad o point d value g t0 = None <->
    match wc_bracketing f grad wc_max_iter 1 (o_wexp o) point d value (dot g d) (0, value, g) (eval3 f grad point d t0) with
    | WB_single e0 iter => (wc_max_iter <= iter)%nat /\ value <= e_f e0
    | _ => False
    end.
Proof. exact wolfecubic_undefined_iff. Qed.
Print Assumptions C10_wolfecubic_undefined_iff.

(* init / step of AbstractLineSearchOptimizer, every derived class, ALL line-search types, every oracle sequence *)
Theorem C10_linesearch_state_consistent_all_types :
  forall (f : vec -> Q) (grad : vec -> vec) (feasible : vec -> bool)
         (M : Type) (init_model : nat -> M) (compute_dir : ls_state M -> M * vec)
         (constrained : bool) (lstype : nat) (x0 : vec) (orcs : nat -> ls_oracle) (n : nat) (s : ls_state M),
    ls_run_o f grad M compute_dir orcs 0 n (ls_init_o f grad feasible M init_model constrained lstype x0) = Some s ->
    val s = f (pt s) /\ der s = grad (pt s).
Proof. exact linesearch_state_consistent_all_types. Qed.
Print Assumptions C10_linesearch_state_consistent_all_types.

(* every run of every line-search optimizer is defined: init leaves a non-negative step length, step sets it to 1 *)
Theorem C10_linesearch_run_defined :
  forall (f : vec -> Q) (grad : vec -> vec) (feasible : vec -> bool)
         (M : Type) (init_model : nat -> M) (compute_dir : ls_state M -> M * vec)
         (constrained : bool) (lstype : nat) (x0 : vec) (orcs : nat -> ls_oracle) (n : nat),
    exists s, ls_run_o f grad M compute_dir orcs 0 n (ls_init_o f grad feasible M init_model constrained lstype x0) = Some s.
Proof. exact run_o_total. Qed.
Print Assumptions C10_linesearch_run_defined.

(* full statement (not proved): without the hypothesis on compute_dir for CG (false as coded) and L-BFGS *)
Theorem C10_linesearch_monotone_all_types_partial :
  forall (f : vec -> Q) (grad : vec -> vec) (feasible : vec -> bool)
         (M : Type) (init_model : nat -> M) (compute_dir : ls_state M -> M * vec),
    (forall s1, dot (der s1) (snd (compute_dir s1)) <= 0) ->
    forall (constrained : bool) (lstype : nat) (x0 : vec) (orcs : nat -> ls_oracle) (n : nat) (o : ls_oracle) (s s' : ls_state M),
    ls_run_o f grad M compute_dir orcs 0 n (ls_init_o f grad feasible M init_model constrained lstype x0) = Some s ->
    ls_step_o f grad M compute_dir o s = Some s' ->
    val s' <= val s /\ f (pt s') <= f (pt s).
Proof. exact run_o_monotone_descent_oracle. Qed.
Print Assumptions C10_linesearch_monotone_all_types_partial.

(* ---------------- BFGS ---------------- *)
(* y'H x = x'H y for all x, y of length n; C10_bfgs_symmetry_is_entrywise relates it to the entries *)
Theorem C10_bfgs_update_symmetric :
  forall (n : nat) (H : mat) (gamma delta : vec) (d : Q),
    length H = n -> rows n H -> length delta = n -> symm n H ->
    symm n (bfgs_update H gamma delta d).
Proof. exact bfgs_update_symm. Qed.
Print Assumptions C10_bfgs_update_symmetric.

Theorem C10_bfgs_symmetry_is_entrywise :
  forall (n : nat) (A : mat), length A = n -> rows n A -> symm n A ->
    forall i j, (i < n)%nat -> (j < n)%nat -> nth j (nth i A []) 0 == nth i (nth j A []) 0.
Proof. exact symm_entries. Qed.
Print Assumptions C10_bfgs_symmetry_is_entrywise.

(* the quadratic-form identity  x'H+x = w'Hw + (s'x)^2 / (y's),  w = x - (s'x / y's) y *)
Theorem C10_bfgs_update_quadratic_form :
  forall (n : nat) (H : mat) (gamma delta : vec) (d : Q),
    length H = n -> rows n H -> length gamma = n -> length delta = n -> symm n H ->
    forall x, length x = n -> ~ d == 0 ->
    let c := dot x delta / d in
    let w := vsub x (vscale c gamma) in
    bil (bfgs_update H gamma delta d) x x == bil H w w + dot x delta * dot x delta / d.
Proof. exact bfgs_update_quadratic_form. Qed.
Print Assumptions C10_bfgs_update_quadratic_form.

Theorem C10_bfgs_update_positive_definite :
  forall (n : nat) (H : mat) (gamma delta : vec) (d : Q),
    length H = n -> rows n H -> length gamma = n -> length delta = n -> symm n H -> posdef n H ->
    0 < d -> posdef n (bfgs_update H gamma delta d).
Proof. exact bfgs_update_posdef. Qed.
Print Assumptions C10_bfgs_update_positive_definite.

(* the reset as coded: y's < 1e-20 replaces the matrix by the identity (and the direction by -g) *)
Theorem C10_bfgs_reset_as_coded :
  forall s : ls_state mat,
    dot (vsub (der s) (last_der s)) (vsub (pt s) (last_pt s)) < bfgs_eps ->
    bfgs_dir s = (identity (dim s), vneg (mv (identity (dim s)) (der s))).
Proof. exact bfgs_dir_reset. Qed.
Print Assumptions C10_bfgs_reset_as_coded.

(* after init and after every step of BFGS, every line-search type, every oracle: the matrix is symmetric positive
   definite and the stored direction is a descent direction (strictly, whenever the gradient is not zero) *)
Theorem C10_bfgs_direction_descent :
  forall (f : vec -> Q) (grad : vec -> vec) (feasible : vec -> bool) (n : nat),
    (forall x, length x = n -> length (grad x) = n) ->
    forall (constrained : bool) (lstype : nat) (x0 : vec) (orcs : nat -> ls_oracle) (k : nat) (s : ls_state mat),
    length x0 = n ->
    ls_run_o f grad mat bfgs_dir orcs 0 k (ls_init_o f grad feasible mat bfgs_init_model constrained lstype x0) = Some s ->
    symm n (extra s) /\ posdef n (extra s) /\
    dot (der s) (sdir s) <= 0 /\ (~ vzero (der s) -> dot (der s) (sdir s) < 0).
Proof. exact bfgs_direction_descent. Qed.
Print Assumptions C10_bfgs_direction_descent.

(* ... hence C10_linesearch_monotone_partial without its hypothesis, for BFGS *)
Theorem C10_bfgs_monotone :
  forall (f : vec -> Q) (grad : vec -> vec) (feasible : vec -> bool) (n : nat),
    (forall x, length x = n -> length (grad x) = n) ->
    forall (constrained : bool) (lstype : nat) (x0 : vec) (orcs : nat -> ls_oracle) (k : nat) (o : ls_oracle) (s s' : ls_state mat),
    length x0 = n ->
    ls_run_o f grad mat bfgs_dir orcs 0 k (ls_init_o f grad feasible mat bfgs_init_model constrained lstype x0) = Some s ->
    ls_step_o f grad mat bfgs_dir o s = Some s' ->
    val s' <= val s /\ f (pt s') <= f (pt s).
Proof. exact bfgs_monotone. Qed.
Print Assumptions C10_bfgs_monotone.

Theorem C10_bfgs_saverestore_continues :
  forall (f : vec -> Q) (grad : vec -> vec) (fresh s s' : ls_state mat),
    ls_restore mat bfgs_restore_extra fresh (ls_save mat bfgs_save_extra s) = Some s' ->
    forall orcs k n, ls_run_o f grad mat bfgs_dir orcs k n s' = ls_run_o f grad mat bfgs_dir orcs k n s.
Proof. exact bfgs_saverestore_continues. Qed.
Print Assumptions C10_bfgs_saverestore_continues.

(* ====================================================================================================
   L-BFGS (LBFGS.cpp; model C10Gen.v instantiated with rationals in C10LbfgsModel.v, proofs C10LbfgsProofs.v) *)

(* updateHist as coded: nothing changes unless y's > m_updThres ... *)
Theorem C10_lbfgs_history_skip_rule :
  forall (m : lb_model) (y s : vec), dot y s <= lb_thres m -> lb_update_hist m y s = m.
Proof. exact update_hist_skips. Qed.
Print Assumptions C10_lbfgs_history_skip_rule.

(* ... otherwise the pair is appended, the OLDEST pair is dropped iff the history already holds m_numHist pairs, and
   m_bdiag = y'y / y's *)
Theorem C10_lbfgs_history_store_rule :
  forall (m : lb_model) (y s : vec), lb_thres m < dot y s ->
    lb_hist (lb_update_hist m y s) = lb_hist m /\ lb_thres (lb_update_hist m y s) = lb_thres m /\
    lb_bdiag (lb_update_hist m y s) == dot y y / dot y s /\
    lb_pairs (lb_update_hist m y s) =
      (if Nat.leb (lb_hist m) (length (lb_pairs m)) then tl (lb_pairs m) else lb_pairs m) ++ [(s, y)].
Proof. exact update_hist_stores. Qed.
Print Assumptions C10_lbfgs_history_store_rule.

(* THE TWO-LOOP RECURSION (multBInv, the two loops over the arrays as coded) applies the matrix lb_H = the BFGS inverse
   updates (bfgs_update, the function of the BFGS theorems) of the stored pairs, oldest first, starting from (1/bdiag) I:
   for every test vector z, z'(multBInv x) = z' H x, ... *)
Theorem C10_lbfgs_two_loop_is_matrix :
  forall (n : nat) (bdiag : Q) (ps : list (vec * vec)),
    0 < bdiag -> Forall (fun p => length (fst p) = n /\ length (snd p) = n /\ 0 < dot (snd p) (fst p)) ps ->
    forall x z, length x = n -> length z = n ->
    dot z (lb_mult_binv bdiag ps x) == bil (lb_H n bdiag ps) z x.
Proof. exact two_loop_is_H. Qed.
Print Assumptions C10_lbfgs_two_loop_is_matrix.

(* ... i.e. entry by entry multBInv x = H x *)
Theorem C10_lbfgs_two_loop_entries :
  forall (n : nat) (bdiag : Q) (ps : list (vec * vec)),
    0 < bdiag -> Forall (fun p => length (fst p) = n /\ length (snd p) = n /\ 0 < dot (snd p) (fst p)) ps ->
    forall x i, length x = n -> (i < n)%nat ->
    nth i (lb_mult_binv bdiag ps x) 0 == nth i (mv (lb_H n bdiag ps) x) 0.
Proof. exact two_loop_entries. Qed.
Print Assumptions C10_lbfgs_two_loop_entries.

(* H is symmetric positive definite whenever bdiag > 0 and every stored pair has y's > 0 *)
Theorem C10_lbfgs_matrix_spd :
  forall (n : nat) (bdiag : Q) (ps : list (vec * vec)),
    0 < bdiag -> Forall (fun p => length (fst p) = n /\ length (snd p) = n /\ 0 < dot (snd p) (fst p)) ps ->
    length (lb_H n bdiag ps) = n /\ rows n (lb_H n bdiag ps) /\ symm n (lb_H n bdiag ps) /\ posdef n (lb_H n bdiag ps).
Proof. intros n b ps Hb F. destruct (lb_H_ok n b ps Hb F) as [A B C D]. auto. Qed.
Print Assumptions C10_lbfgs_matrix_spd.

(* after init and after every step of (unconstrained) L-BFGS, every line-search type, every oracle, every m_numHist:
   m_bdiag > 0, EVERY STORED PAIR HAS y's > 1e-10 > 0 (the code cannot store a pair with y's <= 0 in exact arithmetic), the
   history holds at most m_numHist pairs (the bound that keeps the arrays rho / alpha of multBInv in range), the matrix
   is symmetric positive definite, g'd <= 0 and g'd < 0 whenever g is not the zero vector *)
Theorem C10_lbfgs_direction_descent :
  forall (f : vec -> Q) (grad : vec -> vec) (feasible : vec -> bool) (n numhist : nat),
    (forall x, length x = n -> length (grad x) = n) ->
    forall (constrained : bool) (lstype : nat) (x0 : vec) (orcs : nat -> ls_oracle) (k : nat) (s : ls_state lb_model),
    length x0 = n ->
    ls_run_o f grad lb_model lbfgs_dir orcs 0 k (ls_init_o f grad feasible lb_model (lb_init_model numhist) constrained lstype x0) = Some s ->
    let m := extra s in
    0 < lb_bdiag m /\ Forall (fun p => lb_upd_thres < dot (snd p) (fst p)) (lb_pairs m) /\
    ((1 <= numhist)%nat -> (length (lb_pairs m) <= numhist)%nat) /\
    symm n (lb_H n (lb_bdiag m) (lb_pairs m)) /\ posdef n (lb_H n (lb_bdiag m) (lb_pairs m)) /\
    dot (der s) (sdir s) <= 0 /\ (~ vzero (der s) -> dot (der s) (sdir s) < 0).
Proof. exact lbfgs_direction_descent. Qed.
Print Assumptions C10_lbfgs_direction_descent.

(* ... hence C10_linesearch_monotone_all_types_partial without its hypothesis, for L-BFGS *)
Theorem C10_lbfgs_monotone :
  forall (f : vec -> Q) (grad : vec -> vec) (feasible : vec -> bool) (n numhist : nat),
    (forall x, length x = n -> length (grad x) = n) ->
    forall (constrained : bool) (lstype : nat) (x0 : vec) (orcs : nat -> ls_oracle) (k : nat) (o : ls_oracle) (s s' : ls_state lb_model),
    length x0 = n ->
    ls_run_o f grad lb_model lbfgs_dir orcs 0 k (ls_init_o f grad feasible lb_model (lb_init_model numhist) constrained lstype x0) = Some s ->
    ls_step_o f grad lb_model lbfgs_dir o s = Some s' ->
    val s' <= val s /\ f (pt s') <= f (pt s).
Proof. exact lbfgs_monotone. Qed.
Print Assumptions C10_lbfgs_monotone.

(* save / restore.  LBFGS::write archives the base members + m_numHist, m_bdiag, m_steps, m_gradientDifferences; m_updThres
   is NOT archived.  The list is complete for every instance that is read into whose m_updThres equals the saved one, for
   both direction rules (dir arbitrary) ... *)
Theorem C10_lbfgs_saverestore_continues :
  forall (f : vec -> Q) (grad : vec -> vec) (dir : ls_state lb_model -> lb_model * vec) (fresh s s' : ls_state lb_model),
    lb_thres (extra fresh) = lb_thres (extra s) ->
    ls_restore lb_model (lb_restore_extra (lb_thres (extra fresh))) fresh (ls_save lb_model lb_save_extra s) = Some s' ->
    s' = s /\ forall orcs k n, ls_run_o f grad lb_model dir orcs k n s' = ls_run_o f grad lb_model dir orcs k n s.
Proof. exact lbfgs_saverestore_continues. Qed.
Print Assumptions C10_lbfgs_saverestore_continues.

(* ... and initModel sets m_updThres to the constant 1e-10: every instance that was init-ed and stepped qualifies *)
Theorem C10_lbfgs_threshold_constant :
  forall (f : vec -> Q) (grad : vec -> vec) (feasible : vec -> bool) (numhist : nat) (dir : ls_state lb_model -> lb_model * vec),
    (forall s1, fst (dir s1) = lbfgs_hist s1) ->
    forall (constrained : bool) (lstype : nat) (x0 : vec) (orcs : nat -> ls_oracle) (k : nat) (s : ls_state lb_model),
    ls_run_o f grad lb_model dir orcs 0 k (ls_init_o f grad feasible lb_model (lb_init_model numhist) constrained lstype x0) = Some s ->
    lb_thres (extra s) = lb_upd_thres.
Proof. exact lbfgs_threshold_constant. Qed.
Print Assumptions C10_lbfgs_threshold_constant.

(* ---------------- L-BFGS with box constraints (C10LbfgsBoxProofs.v) ---------------- *)
(* getBoxConstrainedDirection as coded (after the repairs e082c2d6 / 42faa67e): for EVERY history of the right dimension
   with y's > 0 (what updateHist stores), every m_bdiag, all bounds, every point inside the box widened by the slack 1e-13
   of BoxConstraintHandler::isFeasible (the test the code uses) and every gradient, x + d is inside the widened box again -
   in the full-step, the Cauchy and the dog-leg branch *)
Theorem C10_lbfgs_box_direction_feasible :
  forall (n : nat) (bdiag : Q) (ps : list (vec * vec)) (l u x g : vec),
    Forall (fun p => length (fst p) = n /\ length (snd p) = n /\ 0 < dot (snd p) (fst p)) ps ->
    length x = n -> length g = n ->
    box_feasb_slack box_eps l u x = true ->
    box_feasb_slack box_eps l u (vadd x (vscale 1 (lb_box_dir bdiag ps l u x g))) = true.
Proof. exact lb_box_dir_feasible. Qed.
Print Assumptions C10_lbfgs_box_direction_feasible.

(* hence every iterate of box-constrained L-BFGS is feasible, every objective, every m_numHist, every feasible start:
   C10_box_feasible_slack_partial without its hypothesis on the direction rule *)
Theorem C10_lbfgs_box_feasible :
  forall (f : vec -> Q) (grad : vec -> vec) (l u : vec) (n numhist : nat),
    (forall x, length x = n -> length (grad x) = n) ->
    forall (lstype : nat) (x0 : vec) (k : nat),
    length x0 = n -> box_feasb_slack box_eps l u x0 = true ->
    box_feasb_slack box_eps l u
      (pt (ls_run f grad lb_model (lbfgs_dir_box l u) k
             (ls_init f grad (box_feasb_slack box_eps l u) lb_model (lb_init_model numhist) lstype x0))) = true.
Proof. exact lbfgs_box_feasible. Qed.
Print Assumptions C10_lbfgs_box_feasible.

(* the SHARK_RUNTIME_CHECK(isFeasible(point + direction), "internal error") of computeSearchDirection holds after every
   step (exact arithmetic) *)
Theorem C10_lbfgs_box_internal_check_holds :
  forall (f : vec -> Q) (grad : vec -> vec) (l u : vec) (n numhist : nat),
    (forall x, length x = n -> length (grad x) = n) ->
    forall (lstype : nat) (x0 : vec) (k : nat),
    length x0 = n -> box_feasb_slack box_eps l u x0 = true ->
    let s := ls_run f grad lb_model (lbfgs_dir_box l u) (S k)
               (ls_init f grad (box_feasb_slack box_eps l u) lb_model (lb_init_model numhist) lstype x0) in
    box_feasb_slack box_eps l u (vadd (pt s) (vscale 1 (sdir s))) = true.
Proof. exact lbfgs_box_internal_check_holds. Qed.
Print Assumptions C10_lbfgs_box_internal_check_holds.

(* multB as coded (compact representation; the square root of the row normalisation cancels): x'(B x) >= 0, > 0 for x <> 0 *)
Theorem C10_lbfgs_mult_b_positive_definite :
  forall (n : nat) (bdiag : Q) (ps : list (vec * vec)) (x : vec),
    0 < bdiag -> Forall (fun p => length (fst p) = n /\ length (snd p) = n /\ 0 < dot (snd p) (fst p)) ps -> length x = n ->
    0 <= dot x (lb_mult_b bdiag ps x) /\ (~ vzero x -> 0 < dot x (lb_mult_b bdiag ps x)).
Proof. exact mult_b_posdef. Qed.
Print Assumptions C10_lbfgs_mult_b_positive_definite.

(* the direction of getBoxConstrainedDirection is NEVER AN ASCENT direction: g'd <= 0 in the full-step branch (-p0'H p0), in
   the Cauchy branch (-alpha |p0|^2 / p0'B p0, alpha >= 0) and in the dog-leg branch (convex combination), every input *)
Theorem C10_lbfgs_box_direction_nonascent :
  forall (n : nat) (bdiag : Q) (ps : list (vec * vec)) (l u x g : vec),
    0 < bdiag -> Forall (fun p => length (fst p) = n /\ length (snd p) = n /\ 0 < dot (snd p) (fst p)) ps ->
    length x = n -> length g = n -> length l = n -> length u = n ->
    dot g (lb_box_dir bdiag ps l u x g) <= 0.
Proof. exact lb_box_dir_nonascent. Qed.
Print Assumptions C10_lbfgs_box_direction_nonascent.

(* hence every step of box-constrained L-BFGS is monotone: C10_linesearch_monotone_partial without its hypothesis *)
Theorem C10_lbfgs_box_monotone :
  forall (f : vec -> Q) (grad : vec -> vec) (l u : vec) (n numhist : nat),
    (forall x, length x = n -> length (grad x) = n) -> length l = n -> length u = n ->
    forall (lstype : nat) (x0 : vec) (k : nat), length x0 = n ->
    let s := ls_run f grad lb_model (lbfgs_dir_box l u) k
               (ls_init f grad (box_feasb_slack box_eps l u) lb_model (lb_init_model numhist) lstype x0) in
    dot (der s) (sdir s) <= 0 /\
    val (ls_step f grad lb_model (lbfgs_dir_box l u) s) <= val s /\
    f (pt (ls_step f grad lb_model (lbfgs_dir_box l u) s)) <= f (pt s).
Proof. exact lbfgs_box_monotone. Qed.
Print Assumptions C10_lbfgs_box_monotone.

(* ====================================================================================================
   Adam (Adam.h) and Rprop (Rprop.h / Rprop.cpp): models C10AdamRprop.v (generic, rational instance), proofs
   C10AdamRpropProofs.v.  [sq] stands for std::sqrt (arbitrary function); std::pow is the exact power. *)

(* solution().value is the objective at solution().point, the stored derivative is the gradient there, m_counter counts the
   steps and the four parameters are left alone: after init and after every step *)
Theorem C10_adam_state_consistent :
  forall (f : vec -> Q) (grad : vec -> vec) (sq : Q -> Q) (b1 b2 e eta : Q) (x0 : vec) (n : nat),
    let s := adam_run f grad sq n (adam_init f grad sq b1 b2 e eta x0) in
    ad_val s = f (ad_pt s) /\ ad_der s = grad (ad_pt s) /\ ad_cnt s = n /\
    ad_b1 s = b1 /\ ad_b2 s = b2 /\ ad_eps s = e /\ ad_eta s = eta.
Proof. exact adam_state_consistent. Qed.
Print Assumptions C10_adam_state_consistent.

(* the argument of std::sqrt is never negative (0 <= beta2 <= 1) *)
Theorem C10_adam_second_moment_nonneg :
  forall (f : vec -> Q) (grad : vec -> vec) (sq : Q -> Q) (b1 b2 e eta : Q) (x0 : vec) (n : nat),
    0 <= b2 -> b2 <= 1 -> Forall (fun v => 0 <= v) (ad_sec (adam_run f grad sq n (adam_init f grad sq b1 b2 e eta x0))).
Proof. exact adam_second_moment_nonneg. Qed.
Print Assumptions C10_adam_second_moment_nonneg.

(* Adam::read / write list all members: restoring into ANY instance and continuing = the uninterrupted run *)
Theorem C10_adam_saverestore_continues :
  forall (f : vec -> Q) (grad : vec -> vec) (sq : Q -> Q) (fresh s s' : adam_state),
    adam_restore fresh (adam_save s) = Some s' -> forall n, adam_run f grad sq n s' = adam_run f grad sq n s.
Proof. exact adam_saverestore_continues. Qed.
Print Assumptions C10_adam_saverestore_continues.

(* Rprop, all variants (flags), every feasibility predicate: value = f(point), derivative = grad(point) *)
Theorem C10_rprop_state_consistent :
  forall (f : vec -> Q) (grad : vec -> vec) (feas : vec -> bool) (huge inc dec dmax dmin : Q) (frz bt ov : bool) (d0 : Q) (x0 : vec) (n : nat),
    let s := rprop_run f grad feas n (rprop_init f grad huge inc dec dmax dmin frz bt ov d0 x0) in
    rp_val s = f (rp_pt s) /\ rp_der s = grad (rp_pt s).
Proof. exact rprop_state_consistent. Qed.
Print Assumptions C10_rprop_state_consistent.

(* step sizes stay POSITIVE: all variants, every feasibility predicate (exact arithmetic: a double underflows to 0 after
   ~1075 halvings) *)
Theorem C10_rprop_delta_positive :
  forall (f : vec -> Q) (grad : vec -> vec) (feas : vec -> bool) (n : nat) (s : rprop_state),
    0 < rp_inc s -> 0 < rp_dec s -> 0 < rp_dmax s -> Forall (fun d => 0 < d) (rp_delta s) ->
    Forall (fun d => 0 < d) (rp_delta (rprop_run f grad feas n s)).
Proof. exact rprop_delta_positive. Qed.
Print Assumptions C10_rprop_delta_positive.

(* full statement (false as coded, see C10_ex_rprop_box_delta_below_min_refuted): for every feasibility predicate.
   Proved: step sizes stay inside [minDelta, maxDelta] on UNCONSTRAINED objectives, all variants *)
Theorem C10_rprop_delta_range_partial :
  forall (f : vec -> Q) (grad : vec -> vec) (n : nat) (s : rprop_state),
    1 <= rp_inc s -> 0 < rp_dec s -> rp_dec s <= 1 -> rp_dmin s <= rp_dmax s -> 0 <= rp_dmin s ->
    Forall (fun d => rp_dmin s <= d /\ d <= rp_dmax s) (rp_delta s) ->
    Forall (fun d => rp_dmin s <= d /\ d <= rp_dmax s) (rp_delta (rprop_run f grad (fun _ => true) n s)).
Proof. exact rprop_delta_range_unconstrained. Qed.
Print Assumptions C10_rprop_delta_range_partial.

(* iRprop+ (all three flags), unconstrained: after a step that INCREASED the value, every coordinate whose partial
   derivative changed sign is put back where it was before that step, and the move is not counted as a step *)
Theorem C10_irprop_plus_undoes_increase :
  forall (f : vec -> Q) (grad : vec -> vec) (n : nat) (s0 : rprop_state),
    (forall x, length x = n -> length (grad x) = n) ->
    rp_frz s0 = true -> rp_bt s0 = true -> rp_ov s0 = true ->
    length (rp_pt s0) = n -> length (rp_der s0) = n -> length (rp_oldder s0) = n -> length (rp_delta s0) = n -> length (rp_deltaw s0) = n ->
    let s1 := rprop_step f grad (fun _ => true) s0 in
    let s2 := rprop_step f grad (fun _ => true) s1 in
    rp_val s0 < rp_val s1 ->
    forall i, (i < n)%nat -> nth i (rp_der s1) 0 * nth i (rp_oldder s1) 0 < 0 ->
    nth i (rp_pt s2) 0 == nth i (rp_pt s0) 0 /\ nth i (rp_deltaw s2) 0 = 0.
Proof. exact irprop_plus_undoes_increase. Qed.
Print Assumptions C10_irprop_plus_undoes_increase.

(* AS CODED, the other half of that branch (backtracking + old-value test, sign change, value NOT increased): nothing is
   assigned to m_deltaw(i), so "point(i) += m_deltaw(i)" repeats the previous step of the coordinate.  Concrete run:
   C10_ex_irprop_plus_stale_step (values 21, 7, 89 on a convex quadratic; reproduced on the C++ by tools/c10.py) *)
Theorem C10_rprop_stale_step_as_coded :
  forall (s : rprop_state) (p g og d dw : Q),
    rp_bt s = true -> rp_ov s = true -> rp_val s <= rp_oldval s -> g * og < 0 ->
    c_p (rprop_coord s p g og d dw) == p + dw /\ c_dw (rprop_coord s p g og d dw) = dw.
Proof. exact coord_stale_step. Qed.
Print Assumptions C10_rprop_stale_step_as_coded.

(* Rprop::read / write (as repaired by 9fe8fcd6) list all members *)
Theorem C10_rprop_saverestore_continues :
  forall (f : vec -> Q) (grad : vec -> vec) (feas : vec -> bool) (fresh s s' : rprop_state),
    rprop_restore fresh (rprop_save s) = Some s' -> forall n, rprop_run f grad feas n s' = rprop_run f grad feas n s.
Proof. exact rprop_saverestore_continues. Qed.
Print Assumptions C10_rprop_saverestore_continues.

(* ====================================================================================================
   CG as coded (cg_dir; proofs C10CgProofs.v).  divisor = d'(g - g_last), the change of the slope along the old direction *)

(* EXACT CHARACTERISATION of the ascent directions of CG::computeSearchDirection: if the old direction was a descent
   direction where the line search started (g_last'd < 0), the new direction is an ascent direction (g'd_new > 0) exactly
   when it comes from the main branch (no periodic reset) with d'(g - g_last) < -1e-10 g'g: the slope along d DEcreased
   over the step.  The reset branch that keeps the old direction (d := d - g, "sic" in C10Model.v) and the periodic reset
   never produce one. *)
Theorem C10_cg_direction_ascent_iff :
  forall (n : nat) (s : ls_state nat),
    length (der s) = n -> length (sdir s) = n -> length (last_der s) = n ->
    dot (sdir s) (last_der s) < 0 ->
    (0 < dot (der s) (snd (cg_dir s)) <->
     Nat.eqb (S (extra s)) (dim s) = false /\ 0 < dot (der s) (der s) /\
     dot (sdir s) (vsub (der s) (last_der s)) < - (cg_eps * dot (der s) (der s))).
Proof. exact cg_dir_ascent_iff. Qed.
Print Assumptions C10_cg_direction_ascent_iff.

(* the GUARD that excludes it: the slope along the old direction did not decrease *)
Theorem C10_cg_direction_nonascent :
  forall (n : nat) (s : ls_state nat),
    length (der s) = n -> length (sdir s) = n -> length (last_der s) = n ->
    dot (sdir s) (last_der s) <= 0 -> 0 <= dot (sdir s) (vsub (der s) (last_der s)) ->
    dot (der s) (snd (cg_dir s)) <= 0.
Proof. exact cg_dir_nonascent. Qed.
Print Assumptions C10_cg_direction_nonascent.

(* hence: on every objective whose slope along a direction does not decrease along the ray (convex objectives; hypothesis
   satisfiable: C10_ex_cg_convex_objective), with WolfeCubic or Backtracking (they stay on the ray; Dlinmin does not) and
   oracles without negative proposals, the stored direction of CG is never an ascent direction and EVERY CG STEP IS MONOTONE:
   the hypothesis of C10_linesearch_monotone_all_types_partial is discharged for CG on this class.
   full statement (false as coded: C10_ex_cg_ascent_direction_refuted): for all objectives *)
Theorem C10_cg_monotone_convex_partial :
  forall (f : vec -> Q) (grad : vec -> vec) (feasible : vec -> bool) (n : nat),
    (forall x, length x = n -> length (grad x) = n) ->
    (forall x d t, length x = n -> length d = n -> 0 <= t -> 0 <= dot d (vsub (grad (vadd x (vscale t d))) (grad x))) ->
    forall (constrained : bool) (lstype : nat) (x0 : vec) (orcs : nat -> ls_oracle) (k : nat) (o : ls_oracle) (s s' : ls_state nat),
    length x0 = n -> (constrained = true \/ lstype <> 0%nat) ->
    (forall j, (forall k q, 0 <= q -> 0 <= o_wexp (orcs j) k q) /\ (forall k, 0 <= o_wzoom (orcs j) k)) ->
    ls_run_o f grad nat cg_dir orcs 0 k (ls_init_o f grad feasible nat cg_init_model constrained lstype x0) = Some s ->
    ls_step_o f grad nat cg_dir o s = Some s' ->
    dot (der s) (sdir s) <= 0 /\ val s' <= val s /\ f (pt s') <= f (pt s).
Proof. exact cg_monotone_on_convex. Qed.
Print Assumptions C10_cg_monotone_convex_partial.

(* hypotheses are satisfiable / conclusions are not vacuous *)
Example C10_ex_quadratic_run : strictly_decreasing (map val exq_trace) = true.
Proof. exact (proj1 quadratic_iterates_decrease). Qed.
Example C10_ex_box_direction_rule : forall l u s1, box_feasb l u (pt s1) = true ->
  box_feasb l u (vadd (pt s1) (vscale 1 (snd (proj_oracle l u s1)))) = true.
Proof. exact proj_oracle_feasible. Qed.
Example C10_ex_box_run : forallb (fun s => box_feasb exb_l exb_u (pt s)) exb_trace = true.
Proof. exact (proj1 box_iterates_feasible). Qed.
Example C10_ex_descent_rule : forall s1 : ls_state unit, dot (der s1) (snd (sd_dir s1)) <= 0.
Proof. exact sd_dir_descent. Qed.
Example C10_ex_penalised_objective : forall x y, box_feas x = false -> box_feas y = true -> box_f y <= box_f x.
Proof. exact box_f_infeasible_worse. Qed.
Example C10_ex_ascent_direction_accepted : backtracking asc_f asc_grad [-1] [1] 0 [20000] 1 = ([0], 1, [20000]).
Proof. exact backtracking_ascent_example. Qed.
(* regression witness of the repaired defect: the pre-repair wolfecubic is undefined on a linear objective *)
Example C10_ex_wolfecubic_linear_objective_regression :
  old_wolfecubic lin_f lin_grad id_oracle [0] [1] 0 [-1] 1 = None /\
  wolfecubic lin_f lin_grad id_oracle [0] [1] 0 [-1] 1
    = Some ([1000000000000000000000000], - (1000000000000000000000000), [-1]).
Proof. exact wolfecubic_linear_regression. Qed.
Example C10_ex_wolfecubic_negative_step_undefined : wolfecubic neg_f neg_grad id_oracle [0] [1] 0 [-1] (-1) = None.
Proof. exact wolfecubic_negative_step_undefined. Qed.
Example C10_ex_wolfecubic_defined : wolfecubic par_f par_grad half_oracle [0] [1] 0 [-1] 1 = Some ([1 # 2], - (1 # 4), [0]).
Proof. exact wolfecubic_parabola. Qed.
Example C10_ex_oracle_without_negative_steps :
  (forall k q, 0 <= q -> 0 <= o_wexp id_oracle k q) /\ (forall k, 0 <= o_wzoom id_oracle k).
Proof. exact id_oracle_nonneg. Qed.
Example C10_ex_dlinmin_steps_backward :
  dot (back_grad [0]) [1] < 0 /\
  linesearch back_f back_grad 0 back_oracle [0] [1] 0 (back_grad [0]) 1 = Some ([- (3 # 2)], - (21 # 16), [- (1 # 4)]).
Proof. exact dlinmin_backward_example. Qed.
Example C10_ex_gradient_length : forall n A b, length A = n -> length b = n -> forall x, length (quad_grad A b x) = n.
Proof. exact quad_grad_length. Qed.
Example C10_ex_identity_spd : forall n, symm n (identity n) /\ posdef n (identity n).
Proof. intro n. split; [apply identity_symm | apply identity_posdef]. Qed.
Example C10_ex_bfgs_runs :
  forallb (fun ty => forallb (fun n => defined (exb_run ty n)) [0; 1; 2; 3]%nat &&
                     strictly_decreasing (map (fun n => opt_val (exb_run ty n)) [0; 1; 2; 3]%nat)) [0; 1; 2]%nat = true.
Proof. exact bfgs_runs_decrease. Qed.
(* L-BFGS: reading into an instance with another m_updThres (the member is uninitialised before the first init and is not
   archived) continues differently: the proviso of C10_lbfgs_saverestore_continues is needed *)
Example C10_ex_lbfgs_restore_other_threshold_refuted :
  match lbx_s with
  | Some s =>
    match ls_restore lb_model (lb_restore_extra (lb_thres (extra lbx_fresh))) lbx_fresh (ls_save lb_model lb_save_extra s) with
    | Some s' =>
      match ls_run_o exq_f exq_grad lb_model lbfgs_dir (fun _ => ex_oracle) 0 2 s',
            ls_run_o exq_f exq_grad lb_model lbfgs_dir (fun _ => ex_oracle) 0 2 s with
      | Some a, Some b => negb (Qeq_bool (hd 0 (pt a)) (hd 0 (pt b)))
      | _, _ => false
      end
    | None => false
    end
  | None => false
  end = true.
Proof. exact lbfgs_restore_other_threshold_refuted. Qed.
(* L-BFGS with m_numHist = 2, all three line searches: strictly decreasing values over four steps; the history grows to
   the memory and stays there *)
Example C10_ex_lbfgs_runs :
  forallb (fun ty => strictly_decreasing (map (fun n => lb_opt_val (lbx_run ty 2 n)) [0; 1; 2; 3; 4]%nat)) [0; 1; 2]%nat = true /\
  map (fun n => lb_hist_len (lbx_run 2 2 n)) [0; 1; 2; 3; 4]%nat = [0; 1; 2; 2; 2]%nat.
Proof. exact lbfgs_runs_decrease. Qed.
(* box-constrained L-BFGS on a 2-d quadratic in a small box: every iterate feasible; the direction comes from the dog-leg
   branch (2) twice, then from the Cauchy branch cut at a bound (1), then from the full step (0) *)
Example C10_ex_lbfgs_box_run :
  forallb (fun s => box_feasb_slack box_eps lbb_l lbb_u (pt s)) lbb_trace = true /\
  map lbb_branch lbb_trace = [2; 2; 1; 0]%nat /\ strictly_decreasing (map val (firstn 3 lbb_trace)) = true.
Proof. exact lbfgs_box_run_example. Qed.
(* Rprop with box constraints: the infeasible branch multiplies the step size by m_decreaseFactor without the clamp
   max(minDelta, .): minDelta = maxDelta = 1, start 1/2 in [0, 1], objective -x: after one step the step size is 1/2 < minDelta *)
Example C10_ex_rprop_box_delta_below_min_refuted :
  let s := rprop_run (fun x => - hd 0 x) (fun _ => [-1]) rpb_feas 1 rpb_init in
  rp_dmin s = 1 /\ rp_delta s = [1 # 2] /\ rp_pt s = [1 # 2] /\
  Forall (fun d => rp_dmin rpb_init <= d /\ d <= rp_dmax rpb_init) (rp_delta rpb_init).
Proof. exact rprop_box_delta_below_min_refuted. Qed.
(* default iRprop+ on f = x^2 + 2y^2 - x - y/2 from (4, -2) with initial step size 4: values 21, 7, 89 *)
Example C10_ex_irprop_plus_stale_step :
  map (fun n => rp_val (rpx n)) [0; 1; 2; 3]%nat = [21; 7; 89; 36] /\
  map (fun n => rp_pt (rpx n)) [0; 1; 2; 3]%nat = [[4; -2]; [0; 2]; [-4; 6]; [-2; 4]] /\
  rp_der (rpx 1) = [-1; 15 # 2] /\ rp_oldder (rpx 1) = [7; - (17 # 2)] /\ rp_deltaw (rpx 1) = [-4; 4] /\ rp_deltaw (rpx 2) = [-4; 4].
Proof. exact irprop_plus_stale_step_example. Qed.
(* regression witness of the repair 9fe8fcd6: the earlier Rprop member list (no derivative, no flags) was not complete *)
Example C10_ex_rprop_old_list_restore_refuted :
  match rprop_restore_old rpo_fresh (rprop_save_old rpo_s) with
  | Some s' => negb (Qeq_bool (hd 0 (rp_pt (rprop_run exq_f exq_grad (fun _ => true) 2 s')))
                              (hd 0 (rp_pt (rprop_run exq_f exq_grad (fun _ => true) 2 rpo_s))))
  | None => false
  end = true.
Proof. exact rprop_old_list_restore_refuted. Qed.
(* CG: the convexity hypothesis of C10_cg_monotone_convex_partial holds for the gradient of x^2 + 2y^2 - x - y/2 *)
Example C10_ex_cg_convex_objective : forall x d t, length x = 2%nat -> length d = 2%nat -> 0 <= t ->
  0 <= dot d (vsub (exq_grad (vadd x (vscale t d))) (exq_grad x)).
Proof. exact exq_ray_monotone. Qed.
(* CG with Backtracking on the indefinite quadratic 1/2 x'Ax - b'x, A = [[-1, 1/2], [1/2, -1/2]], b = (-3/2, 1/2), start
   (1/2, -4): the first direction is a descent direction, the direction after the first step is an ASCENT direction
   (g'd = 993005/48224); the C++ is run on this input by tools/c10.py and must give the same g'd *)
Example C10_ex_cg_ascent_direction_refuted :
  dot (last_der (cgx 1)) (sdir (cgx 0)) < 0 /\ 0 < dot (der (cgx 1)) (sdir (cgx 1)) /\
  Qeq_bool (dot (der (cgx 1)) (sdir (cgx 1))) (993005 # 48224) = true /\ val (cgx 2) < val (cgx 1).
Proof. exact cg_ascent_direction_refuted. Qed.

(* ================= Part 7: trust-region Newton (C10TrustRegion.v, C10TrustRegionProofs.v) ================= *)
(* Bookkeeping, for EVERY number type (operations arbitrary: also IEEE doubles with NaN), every objective oracle pair, every
   answer of the sub-problem solver in every step ([orc]: step number and state -> predicted change and step): after init and
   after every step value / gradient / Hessian are what ONE evalDerivative call returns at the reported point, and
   m_minImprovementRatio is the value set by init.  g_tr_consistent fd s := fd (tr_pt s) = (tr_val s, tr_grad s, tr_hess s). *)
Theorem C10_trn_state_consistent :
  forall (T : Type) (O : ops T) (leb : T -> T -> bool) (c099 c01 : T)
         (f : list T -> T) (fd : list T -> T * list T * list (list T))
         (orc : nat -> gtr_state T -> T * list T) (n : nat) (x0 : list T) (d0 : T),
    let s := tr_run_with T O leb c099 f fd orc n (tr_init T c01 fd x0 d0) in
    g_tr_consistent T fd s /\ tr_ratio s = c01.
Proof. exact g_tr_run_with_consistent. Qed.
Print Assumptions C10_trn_state_consistent.

(* the same for the step as coded (sub-problem solved by the model of trustRegionCG) *)
Theorem C10_trn_state_consistent_as_coded :
  forall (T : Type) (O : ops T) (leb : T -> T -> bool) (c099 c01 : T)
         (f : list T -> T) (fd : list T -> T * list T * list (list T)) (n : nat) (x0 : list T) (d0 : T),
    let s := tr_run T O leb c099 f fd n (tr_init T c01 fd x0 d0) in
    g_tr_consistent T fd s /\ tr_ratio s = c01.
Proof. exact g_tr_run_consistent. Qed.
Print Assumptions C10_trn_state_consistent_as_coded.

(* exact rationals from here on; [sq] (std::sqrt) is an arbitrary function unless a hypothesis says otherwise.
   The radius stays positive, for every answer of the sub-problem solver, and changes by the factors 1/4, 1, 2 only *)
Theorem C10_trn_radius_positive :
  forall (sq : Q -> Q) (f : vec -> Q) (fd : vec -> Q * vec * list vec) (orc : nat -> tr_state -> Q * vec)
         (n : nat) (x0 : vec) (d0 : Q),
    0 < d0 -> 0 < tr_delta (q_tr_run_with sq f fd orc n (q_tr_init sq fd x0 d0)).
Proof. exact q_run_with_radius_positive. Qed.
Print Assumptions C10_trn_radius_positive.

Theorem C10_trn_radius_factors :
  forall (sq : Q -> Q) (f : vec -> Q) (fd : vec -> Q * vec * list vec) (pred : Q) (sol : vec) (s : tr_state),
    let d' := tr_delta (q_tr_step_with sq f fd pred sol s) in
    d' == tr_delta s / 4 \/ d' = tr_delta s \/ d' == tr_delta s * 2.
Proof. exact q_step_with_delta_cases. Qed.
Print Assumptions C10_trn_radius_factors.

(* WHAT THE ACCEPTANCE RULE GUARANTEES, for every answer (pred, sol) of the sub-problem solver: with one objective function
   (coherent: operator() and evalDerivative return the same value) and m_minImprovementRatio > 0, an accepted step changes
   the value strictly in the direction of the PREDICTED change; the code does not test the sign of the prediction, so a
   positive prediction that comes true is accepted and increases the value (second conjunct).  A rejected step leaves point
   and value alone.  q_accepted = (pred != 0) && (ratio <= (f(point + sol) - value) / pred). *)
Theorem C10_trn_accepted_step_follows_prediction :
  forall (sq : Q -> Q) (f : vec -> Q) (fd : vec -> Q * vec * list vec) (pred : Q) (sol : vec) (s : tr_state),
    coherent f fd -> 0 < tr_ratio s -> q_accepted f pred sol s = true ->
    let s' := q_tr_step_with sq f fd pred sol s in
    (pred < 0 -> tr_val s' < tr_val s) /\ (0 < pred -> tr_val s < tr_val s').
Proof. exact q_step_with_accept_sign. Qed.
Print Assumptions C10_trn_accepted_step_follows_prediction.

Theorem C10_trn_rejected_step_keeps_solution :
  forall (sq : Q -> Q) (f : vec -> Q) (fd : vec -> Q * vec * list vec) (pred : Q) (sol : vec) (s : tr_state),
    q_accepted f pred sol s = false ->
    tr_pt (q_tr_step_with sq f fd pred sol s) = tr_pt s /\ tr_val (q_tr_step_with sq f fd pred sol s) = tr_val s.
Proof. exact q_step_with_rejected. Qed.
Print Assumptions C10_trn_rejected_step_keeps_solution.

(* the guard under which a step never increases the value: the predicted change is not positive *)
Theorem C10_trn_step_never_increases_partial :
  forall (sq : Q -> Q) (f : vec -> Q) (fd : vec -> Q * vec * list vec) (pred : Q) (sol : vec) (s : tr_state),
    coherent f fd -> 0 < tr_ratio s -> pred <= 0 ->
    tr_val (q_tr_step_with sq f fd pred sol s) <= tr_val s.
Proof. exact q_step_with_never_increases. Qed.
Print Assumptions C10_trn_step_never_increases_partial.

(* trustRegionCG as coded (after the repair fd35712b of borderDistance): for every symmetric matrix (definite or not), every
   gradient, tolerance and positive radius the returned step lies inside the trust region and the predicted change
   (errorDifference) is not positive.  std::sqrt has to be right only at the one number whose root borderDistance takes
   (exits 1 and 2): sqrt_ok_at sq y := sq y * sq y == y /\ 0 <= sq y.  cg_good D r := |cg_step r|^2 <= D /\ cg_pred r <= 0. *)
Theorem C10_trn_cg_inside_region_and_predicts_decrease :
  forall (sq : Q -> Q) (n : nat) (H : mat) (g : vec),
    length g = n -> length H = n -> symm n H ->
    forall tol delta : Q, 0 < delta ->
    let r := q_cg sq H g tol delta in
    ((cg_exit r = 1 \/ cg_exit r = 2)%nat -> sqrt_ok_at sq (cg_sqarg r)) ->
    dot (cg_step r) (cg_step r) <= delta * delta /\ cg_pred r <= 0.
Proof. exact q_cg_good. Qed.
Print Assumptions C10_trn_cg_inside_region_and_predicts_decrease.

(* THE PROPERTY for the model of the whole class: for every objective with symmetric Hessians (fd_shape) whose operator() and
   evalDerivative agree (coherent), every start, every positive initial radius, every step count k: the state after k steps is
   consistent, the radius is positive, and the next step - provided std::sqrt is right at the one root that step takes - keeps
   its trial point inside the trust region, predicts no increase and does not increase the value. *)
Theorem C10_trn_run_never_increases :
  forall (sq : Q -> Q) (f : vec -> Q) (fd : vec -> Q * vec * list vec) (n : nat) (x0 : vec) (d0 : Q) (k : nat),
    coherent f fd -> fd_shape fd n -> 0 < d0 ->
    let s := q_tr_run sq f fd k (q_tr_init sq fd x0 d0) in
    g_tr_consistent Q fd s /\ 0 < tr_delta s /\
    (sqrt_ok_for sq (q_tr_solve sq s) ->
     let r := q_tr_solve sq s in
     dot (cg_step r) (cg_step r) <= tr_delta s * tr_delta s /\ cg_pred r <= 0 /\
     tr_val (q_tr_run sq f fd (S k) (q_tr_init sq fd x0 d0)) <= tr_val s).
Proof. exact q_tr_run_good. Qed.
Print Assumptions C10_trn_run_never_increases.

(* the hypotheses are satisfiable: f = (x^2 + 16 y^2)/2 is coherent with a symmetric 2 x 2 Hessian; and on |g| = 4, tolerance 2,
   radius 25/12 the second CG iteration crosses the border, the root is taken of (236/783)^2 (fsqrt: floor of the square root at
   2^-30, exact on squares), the step ends ON the border and predicts a decrease *)
Example C10_ex_trn_hypotheses_satisfiable : coherent ex_f ex_fd /\ fd_shape ex_fd 2 /\ symm 2 ex_H.
Proof. exact (conj ex_coherent (conj ex_shape ex_H_symm)). Qed.
Example C10_ex_trn_cg_border_second_iteration :
  let r := q_cg fsqrt ex_H ex_g 2 (25 # 12) in
  cg_exit r = 2%nat /\ cg_iters r = 1%nat /\ sqrt_ok_at fsqrt (cg_sqarg r) /\ Qeq_bool (cg_sqarg r) ((236 # 783) * (236 # 783)) = true /\
  Qeq_bool (dot (cg_step r) (cg_step r)) ((25 # 12) * (25 # 12)) = true /\ cg_pred r < 0.
Proof. exact ex_cg_border_second_iteration. Qed.
(* REGRESSION WITNESSES of the repair fd35712b.  borderDistance computed +p/2 + sqrt(..) instead of -p/2 + sqrt(..): on the input
   above, with an exact square root, the returned step (-3, 1/6) is longer than 3 with radius 25/12 ... *)
Example C10_ex_trn_old_border_leaves_region_refuted :
  let r := q_cg_old fsqrt ex_H ex_g 2 (25 # 12) in
  cg_exit r = 2%nat /\ sqrt_ok_at fsqrt (cg_sqarg r) /\ cg_step r = [- (3 # 1); 1 # 6] /\
  (25 # 12) * (25 # 12) < dot (cg_step r) (cg_step r).
Proof. exact ex_cg_old_border_leaves_region_refuted. Qed.
(* ... and on the failing input of the defect (f = (x^2 + 16 y^2)/2, start (3, -1), radius 2; the C++ gave 12.5, 3.9464068,
   7.3915939) the second step of the old formula increases the value from < 4 to > 7 and moves the point by more than 5 *)
Example C10_ex_trn_old_formula_increases_value_refuted :
  let s1 := q_tr_step_old fsqrt ex_f ex_fd ex_s0 in
  let s2 := q_tr_step_old fsqrt ex_f ex_fd s1 in
  Qeq_bool (tr_val ex_s0) (25 # 2) = true /\ tr_val s1 < 4 /\ 7 < tr_val s2 /\ Qeq_bool (tr_delta s1) 2 = true /\
  5 * 5 < dot (vsub (tr_pt s2) (tr_pt s1)) (vsub (tr_pt s2) (tr_pt s1)).
Proof. exact ex_old_formula_increases_value_refuted. Qed.
(* the repaired step on the same input *)
Example C10_ex_trn_repaired_run_decreases :
  let s1 := q_tr_run fsqrt ex_f ex_fd 1 ex_s0 in
  let s2 := q_tr_run fsqrt ex_f ex_fd 2 ex_s0 in
  tr_val s2 < tr_val s1 /\ tr_val s1 < tr_val ex_s0 /\
  dot (vsub (tr_pt s2) (tr_pt s1)) (vsub (tr_pt s2) (tr_pt s1)) <= tr_delta s1 * tr_delta s1.
Proof. exact ex_repaired_run_decreases. Qed.
