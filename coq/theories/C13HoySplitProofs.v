(* C13 — HOY, step (5) of stream: the search for the split bound succeeds inside the first m-1 objectives, the bound
   lies strictly inside the region, and the recursion measure
        mu(low, pts) = sum over the points of (1 + number of dimensions i with point[i] > regionLow[i])
   decreases strictly for both children.  Axiom-free.

   Invariant of the split dimension s: every point has at most one "open" dimension (point[i] > regionLow[i]) below s.
   It holds for s = 0, is kept by split++ (that branch is taken only when no point has containsBoundary = 1 at s),
   and is inherited by both children.  Hence a point that is not a pile has its second open dimension at or above s,
   and at that dimension (at the latest) containsBoundary = 1 yields a bound. *)
From Coq Require Import List ZArith Lia Bool Arith Permutation Sorted.
From SharkV Require Import ListAux C13Model C13Proofs C13ProofsContrib C13Wfg C13WfgProofs.
From SharkV Require Import C13Hoy C13HoyBoxProofs C13HoyCoverProofs C13HoyPileProofs.
Import ListNotations.
Local Open Scope Z_scope.

(* ---------------------------------------------------------------------------------------- *)
(* getMedian lies between two of its arguments *)
Lemma half_between a b : a <= b -> a <= (a + b) / 2 <= b.
Proof.
  intros H. pose proof (Z.div_mod (a + b) 2 ltac:(lia)). pose proof (Z.mod_pos_bound (a + b) 2 ltac:(lia)). lia.
Qed.

Lemma median_ge3 l : (3 <= length l)%nat ->
  median l = if Nat.odd (length l) then nth (length l / 2) (sort_z l) 0
             else (nth (length l / 2 - 1) (sort_z l) 0 + nth (length l / 2) (sort_z l) 0) / 2.
Proof. destruct l as [|x [|y [|w t]]]; cbn [length]; intros H; try lia. reflexivity. Qed.

Lemma median_between l : l <> [] -> exists a b, In a l /\ In b l /\ a <= median l <= b.
Proof.
  intros Hne. destruct l as [|x [|y [|w t]]]; [congruence| | |].
  - exists x, x. cbn. repeat split; auto; lia.
  - exists y, y. cbn. repeat split; auto; lia.
  - set (l := x :: y :: w :: t) in *. rewrite median_ge3 by (cbn; lia).
    pose proof (sort_z_perm l) as HP.
    assert (HL : length (sort_z l) = length l) by (apply Permutation_length; auto).
    assert (Hn : (0 < length l)%nat) by (cbn; lia).
    assert (H1 : In (nth (length l / 2) (sort_z l) 0) l).
    { eapply Permutation_in; [exact HP|]. apply nth_In. rewrite HL. apply Nat.div_lt; lia. }
    assert (H2 : In (nth (length l / 2 - 1) (sort_z l) 0) l).
    { eapply Permutation_in; [exact HP|]. apply nth_In. rewrite HL.
      pose proof (Nat.div_lt (length l) 2 Hn ltac:(lia)). lia. }
    destruct (Nat.odd (length l)).
    + eexists _, _. split; [exact H1|]. split; [exact H1|]. lia.
    + set (a := nth (length l / 2 - 1) (sort_z l) 0) in *. set (b := nth (length l / 2) (sort_z l) 0) in *.
      destruct (Z.le_ge_cases a b).
      * exists a, b. split; auto. split; auto. apply half_between; auto.
      * exists b, a. split; auto. split; auto. rewrite Z.add_comm. apply half_between; lia.
Qed.

(* ---------------------------------------------------------------------------------------- *)
(* the recursion measure *)
Definition mu (low : list Z) (pts : list hpt) : nat :=
  fold_right (fun p a => (S (length (open_dims low (fst p))) + a)%nat) 0%nat pts.

Lemma mu_cons low p pts : mu low (p :: pts) = (S (length (open_dims low (fst p))) + mu low pts)%nat.
Proof. reflexivity. Qed.

Lemma mu_app low a b : mu low (a ++ b) = (mu low a + mu low b)%nat.
Proof. induction a as [|p a IH]; cbn [app]; [reflexivity|]. rewrite !mu_cons, IH. lia. Qed.

Lemma mu_firstn low k pts : (mu low (firstn k pts) <= mu low pts)%nat.
Proof. rewrite <- (firstn_skipn k pts) at 2. rewrite mu_app. lia. Qed.

Lemma mu_filter_le low f pts : (mu low (filter f pts) <= mu low pts)%nat.
Proof.
  induction pts as [|p pts IH]; cbn [filter]; [lia|]. destruct (f p); rewrite !mu_cons; lia.
Qed.

Lemma mu_filter_lt low f pts p : In p pts -> f p = false -> (mu low (filter f pts) < mu low pts)%nat.
Proof.
  induction pts as [|q pts IH]; intros Hin Hf; [destruct Hin|]. cbn [filter].
  destruct Hin as [->|Hin].
  - rewrite Hf, mu_cons. pose proof (mu_filter_le low f pts). lia.
  - specialize (IH Hin Hf). destruct (f q); rewrite !mu_cons; lia.
Qed.

Lemma mu_low_le low low' pts :
  (forall p j, In p pts -> open_at low' (fst p) j = true -> open_at low (fst p) j = true) ->
  (mu low' pts <= mu low pts)%nat.
Proof.
  induction pts as [|q pts IH]; intros H; [cbn; lia|]. rewrite !mu_cons.
  assert (mu low' pts <= mu low pts)%nat by (apply IH; intros; eapply H; eauto; now right).
  assert (length (open_dims low' (fst q)) <= length (open_dims low (fst q)))%nat.
  { unfold open_dims. apply filter_length_le. intros j _. apply H. now left. }
  lia.
Qed.

Lemma mu_low_lt low low' pts p s :
  (forall p j, In p pts -> open_at low' (fst p) j = true -> open_at low (fst p) j = true) ->
  In p pts -> (s < length (fst p))%nat -> open_at low (fst p) s = true -> open_at low' (fst p) s = false ->
  (mu low' pts < mu low pts)%nat.
Proof.
  induction pts as [|q pts IH]; intros H Hin Hs Ho Ho'; [destruct Hin|]. rewrite !mu_cons.
  assert (Hle : (mu low' pts <= mu low pts)%nat) by (apply mu_low_le; intros; eapply H; eauto; now right).
  assert (Hq : (length (open_dims low' (fst q)) <= length (open_dims low (fst q)))%nat).
  { unfold open_dims. apply filter_length_le. intros j _. apply H. now left. }
  destruct Hin as [->|Hin].
  - assert (length (open_dims low' (fst p)) < length (open_dims low (fst p)))%nat; [|lia].
    unfold open_dims. apply (filter_length_lt _ _ _ s); auto.
    + intros j _. apply H. now left.
    + apply in_seq. lia.
  - assert (mu low' pts < mu low pts)%nat; [|lia]. apply IH; auto. intros; eapply H; eauto. now right.
Qed.

(* ---------------------------------------------------------------------------------------- *)
(* the split dimension *)
Definition split_inv (low : list Z) (pts : list hpt) (s : nat) : Prop :=
  forall p j1 j2, In p pts -> (j1 < s)%nat -> (j2 < s)%nat ->
    open_at low (fst p) j1 = true -> open_at low (fst p) j2 = true -> j1 = j2.

Lemma split_inv_0 low pts : split_inv low pts 0.
Proof. intros p j1 j2 _ H. lia. Qed.

Lemma split_inv_incl low pts pts' s : (forall p, In p pts' -> In p pts) -> split_inv low pts s -> split_inv low pts' s.
Proof. intros H I p j1 j2 Hp. apply I. auto. Qed.

Lemma split_inv_low low low' pts s :
  (forall p j, In p pts -> open_at low' (fst p) j = true -> open_at low (fst p) j = true) ->
  split_inv low pts s -> split_inv low' pts s.
Proof. intros H I p j1 j2 Hp H1 H2 O1 O2. apply (I p j1 j2); eauto. Qed.

Lemma coords_with_In low P s v x : In x (coords_with low P s v) <->
  exists p, In p P /\ x = nth s (fst p) 0 /\ contains_boundary (fst p) low s = v.
Proof.
  unfold coords_with. rewrite in_map_iff. split.
  - intros [p [<- Hp]]. apply filter_In in Hp. destruct Hp as [Hp Hv]. apply Z.eqb_eq in Hv. eauto.
  - intros [p [Hp [-> Hv]]]. exists p. split; auto. apply filter_In. split; auto. now apply Z.eqb_eq.
Qed.

Lemma contains_boundary_cases c low s :
  (contains_boundary c low s = 1 /\ open_at low c s = true /\ exists j, (j < s)%nat /\ open_at low c j = true) \/
  (contains_boundary c low s = 0 /\ open_at low c s = true /\ forall j, (j < s)%nat -> open_at low c j = false) \/
  (contains_boundary c low s = -1 /\ open_at low c s = false).
Proof.
  unfold contains_boundary. destruct (open_at low c s) eqn:E; [|right; right; auto].
  destruct (existsb (open_at low c) (seq 0 s)) eqn:E2.
  - left. split; auto. split; auto. apply existsb_exists in E2. destruct E2 as [j [Hj Ho]]. apply in_seq in Hj.
    exists j. split; auto. lia.
  - right. left. split; auto. split; auto. intros j Hj. destruct (open_at low c j) eqn:E3; auto.
    assert (existsb (open_at low c) (seq 0 s) = true); [|congruence].
    apply existsb_exists. exists j. split; auto. apply in_seq. lia.
Qed.

Lemma split_inv_succ low P s : coords_with low P s 1 = [] -> split_inv low P s -> split_inv low P (S s).
Proof.
  intros HB I p j1 j2 Hp H1 H2 O1 O2.
  assert (K : forall ja jb, ja = s -> (jb < s)%nat -> open_at low (fst p) ja = true -> open_at low (fst p) jb = true -> False).
  { intros ja jb -> Hb Oa Ob.
    destruct (contains_boundary_cases (fst p) low s) as [[Hc _]|[[_ [_ Hn]]|[_ Hn]]].
    - assert (In (nth s (fst p) 0) (coords_with low P s 1)) as Hin by (apply coords_with_In; eauto).
      rewrite HB in Hin. destruct Hin.
    - rewrite (Hn jb Hb) in Ob. discriminate.
    - congruence. }
  destruct (Nat.eq_dec j1 s) as [E1|N1]; destruct (Nat.eq_dec j2 s) as [E2|N2].
  - congruence.
  - exfalso. apply (K j1 j2); auto. lia.
  - exfalso. apply (K j2 j1); auto. lia.
  - apply (I p j1 j2); auto; lia.
Qed.

Section FindBound.
Variables (sq : nat) (low up : list Z) (P : list hpt).
Hypothesis HLlow : length low = length up.
Hypothesis HP : forall p, In p P -> length (fst p) = length low /\ part_covers (fst p) up = true.

Definition good_bound (s : nat) (b : Z) : Prop :=
  (s < length low)%nat /\ split_inv low P s /\ nth s low 0 < b < nth s up 0 /\
  (exists p, In p P /\ open_at low (fst p) s = true /\ b <= nth s (fst p) 0) /\
  (exists p, In p P /\ open_at low (fst p) s = true /\ nth s (fst p) 0 <= b).

Lemma median_good s v : (s < length low)%nat -> split_inv low P s -> (v = 0 \/ v = 1) -> coords_with low P s v <> [] ->
  good_bound s (median (coords_with low P s v)).
Proof.
  intros Hs I Hv Hne. destruct (median_between _ Hne) as [a [b [Ha [Hb Hm]]]].
  apply coords_with_In in Ha, Hb. destruct Ha as [pa [Hpa [-> Hca]]]. destruct Hb as [pb [Hpb [-> Hcb]]].
  assert (Oa : open_at low (fst pa) s = true).
  { destruct (contains_boundary_cases (fst pa) low s) as [[_ [H _]]|[[_ [H _]]|[H _]]]; auto. lia. }
  assert (Ob : open_at low (fst pb) s = true).
  { destruct (contains_boundary_cases (fst pb) low s) as [[_ [H _]]|[[_ [H _]]|[H _]]]; auto. lia. }
  split; auto. split; auto. split; [|split].
  - pose proof Oa as Oa'. pose proof Ob as Ob'. unfold open_at in Oa', Ob'. apply Z.ltb_lt in Oa', Ob'.
    destruct (HP pb Hpb) as [Lb Cb].
    pose proof (all2_true_nth Z.ltb (fst pb) up ltac:(lia) Cb s ltac:(lia)) as Hlt. apply Z.ltb_lt in Hlt. lia.
  - exists pb. repeat split; auto. lia.
  - exists pa. repeat split; auto. lia.
Qed.

Lemma find_bound_good : forall n s s' b, (s + n <= length low)%nat -> split_inv low P s ->
  find_bound n sq low P s = Some (s', b) -> (s <= s')%nat /\ good_bound s' b.
Proof.
  induction n as [|n IH]; intros s s' b Hn I H; [discriminate|]. cbn [find_bound] in H.
  destruct (coords_with low P s 1) as [|x B] eqn:EB.
  - destruct (Nat.ltb_spec sq (length (coords_with low P s 0))) as [Hlt|Hge].
    + injection H as <- <-. split; [lia|]. apply median_good; auto; [lia|].
      intros E. rewrite E in Hlt. cbn in Hlt. lia.
    + apply IH in H; [|lia|now apply split_inv_succ]. destruct H. split; [lia|auto].
  - assert (Es : s = s') by congruence.
    assert (Eb : median (coords_with low P s 1) = b) by (rewrite EB; congruence). subst s' b.
    split; [lia|]. apply median_good; auto; [lia|congruence].
Qed.

(* a point that is not a pile forces a bound *)
Lemma find_bound_exists : forall n s q j1 j2, (s + n = length low)%nat -> In q P ->
  (j1 < j2)%nat -> (s <= j2)%nat -> (j2 < length low)%nat ->
  open_at low (fst q) j1 = true -> open_at low (fst q) j2 = true ->
  find_bound n sq low P s <> None.
Proof.
  induction n as [|n IH]; intros s q j1 j2 Hn Hq H12 Hs Hj O1 O2; [lia|]. cbn [find_bound].
  destruct (coords_with low P s 1) as [|x B] eqn:EB; [|discriminate].
  destruct (sq <? length (coords_with low P s 0))%nat; [discriminate|].
  destruct (Nat.eq_dec s j2) as [->|Hne].
  - exfalso. assert (In (nth j2 (fst q) 0) (coords_with low P j2 1)) as Hin; [|rewrite EB in Hin; destruct Hin].
    apply coords_with_In. exists q. split; auto. split; auto.
    destruct (contains_boundary_cases (fst q) low j2) as [[Hc _]|[[_ [_ Hn0]]|[_ Hn0]]]; auto.
    + rewrite (Hn0 j1 H12) in O1. discriminate.
    + congruence.
  - apply (IH (S s) q j1 j2); auto; lia.
Qed.
End FindBound.

(* ---------------------------------------------------------------------------------------- *)
(* a point that is not a pile has two open dimensions *)
Lemma SS_seq a n : StronglySorted lt (seq a n).
Proof.
  revert a. induction n as [|n IH]; intros a; cbn [seq]; constructor; auto.
  apply Forall_forall. intros x Hx. apply in_seq in Hx. lia.
Qed.

Lemma pile_list_None low : forall P, pile_list low P = None -> exists p, In p P /\ is_pile low (fst p) = None.
Proof.
  induction P as [|p P IH]; intros H; [discriminate|]. cbn [pile_list] in H.
  destruct (is_pile low (fst p)) as [j|] eqn:E.
  - destruct (pile_list low P); [discriminate|]. destruct (IH eq_refl) as [q [Hq Hn]]. exists q. split; auto. now right.
  - exists p. split; auto. now left.
Qed.

Lemma not_pile_two low c : is_pile low c = None ->
  exists j1 j2, (j1 < j2)%nat /\ (j2 < length c)%nat /\ open_at low c j1 = true /\ open_at low c j2 = true.
Proof.
  unfold is_pile. destruct (open_dims low c) as [|j1 [|j2 t]] eqn:E; try discriminate. intros _.
  assert (S1 : StronglySorted lt (open_dims low c)) by (apply SS_filter, SS_seq).
  rewrite E in S1. apply StronglySorted_inv in S1. destruct S1 as [_ F]. rewrite Forall_forall in F.
  assert (H1 : In j1 (open_dims low c)) by (rewrite E; now left).
  assert (H2 : In j2 (open_dims low c)) by (rewrite E; right; now left).
  unfold open_dims in H1, H2. apply filter_In in H1, H2. destruct H1 as [_ H1]. destruct H2 as [R2 H2].
  apply in_seq in R2. exists j1, j2. repeat split; auto; [apply F; now left|lia].
Qed.
