(* C02 — pivoting_lu_decomposition::solve with matrix right-hand sides: every column of the result of solve(B,left) solves
   A x = b for the corresponding column of B, every row of the result of solve(B,right) solves x A = b. *)
From Coq Require Import List Arith Bool Lia Field Permutation.
From SharkV Require Import C02Model C02Proofs C02BlkModel C02LUProofs C02LURightProofs C02LUMatModel.
Import ListNotations.

Section LUMatProofs.
Variable A : Type.
Variable F : ops A.
Variable fabs : A -> A.
Notation "0" := (fzero F) : F_scope.
Infix "+" := (fadd F) : F_scope.
Infix "*" := (fmul F) : F_scope.
Hypothesis Fth : field_theory (fzero F) (fone F) (fadd F) (fmul F) (fsub F) (fopp F) (fdiv F) (finv F) (@eq A).
Hypothesis feqb_spec : forall x y, feqb F x y = true <-> x = y.
Add Field FfieldLUM : Fth.
Local Open Scope F_scope.
Notation mat := (mat A).
Notation vec := (vec A).
Notation sumr := (sumr A F).
Notation sumr_ext := (sumr_ext A F).
Notation mv := (mv A F).
Notation vm := (vm A F).
Notation tri := (tri A F).

Section Core.
Variables (n : nat) (M0 LU : mat) (P : pvec).
Hypothesis HLU : forall i c, (i < n)%nat -> (c < n)%nat ->
  sumr 0 n (fun t => tri false true LU i t * tri true false LU t c) = M0 (perm_of P 0 n i) c.
Hypothesis G : pgood P 0 n n.

Lemma lu_left_core : forall (b y x : vec),
  (forall i, (i < n)%nat -> mv n (tri false true LU) y i = swap_vec A F n n P b i) ->
  (forall i, (i < n)%nat -> mv n (tri true false LU) x i = y i) ->
  forall k, (k < n)%nat -> mv n M0 x k = b k.
Proof.
  intros b y x Y Xs k Hk.
  destruct (perm_of_bijective P n G k Hk) as [_ [Hi [Hki _]]].
  set (i := perm_inv P 0 n k) in *.
  unfold C02Proofs.mv in *.
  rewrite (sumr_ext 0 n _ (fun c => sumr 0 n (fun t => tri false true LU i t * (tri true false LU t c * x c)))).
  2:{ intros c Hc. rewrite <- Hki. rewrite <- (HLU i c) by lia. rewrite <- (sumr_mul_r A F Fth). apply sumr_ext. intros; ring. }
  rewrite (sumr_swap A F Fth).
  rewrite (sumr_ext 0 n _ (fun t => tri false true LU i t * y t)).
  2:{ intros t Ht. rewrite (sumr_mul_l A F Fth). f_equal. apply Xs. lia. }
  rewrite (Y i Hi). rewrite swap_vec_eq. rewrite Hki. reflexivity.
Qed.

Lemma lu_right_core : forall (b y z : vec),
  (forall c, (c < n)%nat -> vm n y (tri true false LU) c = b c) ->
  (forall c, (c < n)%nat -> vm n z (tri false true LU) c = y c) ->
  forall c, (c < n)%nat -> vm n (swap_vec_inv A F n n P z) M0 c = b c.
Proof.
  intros b y z Y Z c Hc. unfold C02Proofs.vm in *.
  rewrite <- (sumr_perm A F Fth P n n (fun i => swap_vec_inv A F n n P z i * M0 i c) (le_n _) G).
  rewrite (sumr_ext 0 n _ (fun k => sumr 0 n (fun t => (z k * tri false true LU k t) * tri true false LU t c))).
  2:{ intros k Hk. rewrite swap_vec_inv_eq by lia. rewrite Nat.sub_diag. rewrite perm_inv_of.
      rewrite <- (HLU k c) by lia. rewrite <- (sumr_mul_l A F Fth). apply sumr_ext. intros; ring. }
  rewrite (sumr_swap A F Fth).
  rewrite (sumr_ext 0 n _ (fun t => y t * tri true false LU t c)).
  2:{ intros t Ht. rewrite (sumr_mul_r A F Fth). f_equal. apply Z. lia. }
  apply Y. exact Hc.
Qed.
End Core.

Lemma Forall2_comp : forall (X Y Z : Type) (P1 : X -> Y -> Prop) (P2 : Y -> Z -> Prop) l1 l2 l3,
  Forall2 P1 l1 l2 -> Forall2 P2 l2 l3 -> Forall2 (fun x z => exists y, P1 x y /\ P2 y z) l1 l3.
Proof.
  intros X Y Z P1 P2 l1 l2 l3 H. revert l3. induction H; intros l3 H2; inversion H2; subst; constructor; eauto.
Qed.
Lemma Forall2_map_l : forall (X X' Y : Type) (f : X -> X') (Q : X' -> Y -> Prop) l l2,
  Forall2 Q (map f l) l2 -> Forall2 (fun x y => Q (f x) y) l l2.
Proof. intros X X' Y f Q l. induction l; intros l2 H; inversion H; subst; constructor; auto. Qed.
Lemma Forall2_map_r : forall (X Y Y' : Type) (f : Y -> Y') (Q : X -> Y' -> Prop) l l2,
  Forall2 (fun x y => Q x (f y)) l l2 -> Forall2 Q l (map f l2).
Proof. intros X Y Y' f Q l l2 H. induction H; cbn; constructor; auto. Qed.
Lemma Forall2_impl : forall (X Y : Type) (Q R : X -> Y -> Prop), (forall x y, Q x y -> R x y) -> forall l l2, Forall2 Q l l2 -> Forall2 R l l2.
Proof. intros X Y Q R H l l2 H2. induction H2; constructor; auto. Qed.

Theorem lu_solve_m_correct : forall bs tbs tbs' n (M0 LU : mat) P left vs X, (0 < bs)%nat -> (0 < tbs)%nat -> (0 < tbs')%nat ->
  getrf A F fabs bs tbs n M0 = LUOk A LU P -> lu_solve_m A F tbs' left LU P n vs = Some X ->
  Forall2 (fun b x => forall k, (k < n)%nat -> (if left then mv n M0 x k else vm n x M0 k) = b k) vs X.
Proof.
  intros bs tbs tbs' n M0 LU P left vs X Hb Htb Htb' HG H.
  destruct (getrf_PA_LU A F fabs Fth feqb_spec bs tbs n M0 LU P Hb Htb HG) as [HLU [HP _]].
  assert (G : pgood P 0 n n) by (intros t Ht; apply HP; lia).
  unfold lu_solve_m in H. destruct left.
  - destruct (trsm A F tbs' false true true LU n (map (swap_vec A F n n P) vs)) as [Y|] eqn:E1; [|discriminate].
    pose proof (trsm_left_correct A F Fth feqb_spec _ _ _ _ _ _ _ Htb' E1) as F1. apply Forall2_map_l in F1.
    pose proof (trsm_left_correct A F Fth feqb_spec _ _ _ _ _ _ _ Htb' H) as F2.
    eapply Forall2_impl; [|exact (Forall2_comp _ _ _ _ _ _ _ _ F1 F2)].
    intros b x [y [Y1 Y2]] k Hk. exact (lu_left_core n M0 LU P HLU G b y x Y1 Y2 k Hk).
  - destruct (trsm A F tbs' true false false LU n vs) as [Y|] eqn:E1; [|discriminate].
    destruct (trsm A F tbs' false true false LU n Y) as [Z|] eqn:E2; [|discriminate]. inversion H; subst X; clear H.
    pose proof (trsm_right_correct A F Fth feqb_spec _ _ _ _ _ _ _ Htb' E1) as F1.
    pose proof (trsm_right_correct A F Fth feqb_spec _ _ _ _ _ _ _ Htb' E2) as F2.
    apply Forall2_map_r.
    eapply Forall2_impl; [|exact (Forall2_comp _ _ _ _ _ _ _ _ F1 F2)].
    intros b z [y [Y1 Y2]] c Hc. exact (lu_right_core n M0 LU P HLU G b y z Y1 Y2 c Hc).
Qed.

End LUMatProofs.
