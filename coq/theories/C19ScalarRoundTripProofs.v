(* C19 — the scalar importers (csvStringToData(Data<int>&..), (Data<unsigned>&..)) read back integer-valued vectors written by
   exportCSV.  There is no exporter for scalar datasets; what exists is exportCSV of Data<IntVector> / Data<UIntVector>, whose
   text is  join sep (decimal integers) '\n'  per element.  The scalar readers skip white space (line ends included) between
   numbers, so they return the components in reading order whenever every separator position holds a blank: white-space
   separator, or one component per element. *)
From Coq Require Import List Arith ZArith NArith Bool Lia.
From SharkV Require Import ListAux C03Model C03Proofs C19Model C19Proofs C19RoundTrip C19RoundTrip2 C19SvmRoundTrip C19Batches.
Import ListNotations.
Local Open Scope N_scope.

Lemma sk1_blank cm b r : is_space b = true -> sk1 cm (b :: r) = sk1 cm r.
Proof. intros H. unfold sk1. cbn [skipc]. rewrite H. reflexivity. Qed.

Lemma sk1_nonblank cm c r : is_space c = false -> (c =? cm) = false -> sk1 cm (c :: r) = c :: r.
Proof. intros A B. unfold sk1. cbn [skipc]. rewrite A, B. reflexivity. Qed.

Lemma sk1_nil cm : sk1 cm [] = [].
Proof. reflexivity. Qed.

Section Gen.
Context {T : Type}.
Variable pr : T -> list byte.                       (* the printed number *)
Variable lexT : list byte -> option (T * list byte).
Variable good : T -> Prop.
Variable cm : byte.
Hypothesis LEX : forall v rest, good v -> nodigit_head rest -> lexT (pr v ++ rest) = Some (v, rest).
Hypothesis HEAD : forall v, good v -> exists c r, pr v = c :: r /\ is_space c = false /\ (c =? cm) = false.
Hypothesis LEXNIL : lexT [] = None.

(* numbers, each followed by one character *)
Definition flat (l : list (T * byte)) : list byte := concat (map (fun p => pr (fst p) ++ [snd p]) l).
Definition item_ok (p : T * byte) : Prop := good (fst p) /\ is_space (snd p) = true.

Lemma flat_cons p l : flat (p :: l) = pr (fst p) ++ snd p :: flat l.
Proof. unfold flat. cbn [map concat]. rewrite <- app_assoc. reflexivity. Qed.

Lemma flat_length l : (length l <= length (flat l))%nat.
Proof. induction l as [|p l IH]; [cbn; lia|]. rewrite flat_cons, app_length. cbn [length]. lia. Qed.

Lemma blank_nodigit_c b r : is_space b = true -> nodigit_head (b :: r).
Proof. intros H. cbn. destruct (is_digit b) eqn:E; [|reflexivity]. rewrite (digit_not_space b E) in H. discriminate. Qed.

Lemma sk1_item v rest : good v -> sk1 cm (pr v ++ rest) = pr v ++ rest.
Proof. intros G. destruct (HEAD v G) as (c & r & E & A & B). rewrite E. cbn [app]. apply sk1_nonblank; assumption. Qed.

Lemma scalars_flat l : forall fuel b, is_space b = true -> (length l < fuel)%nat -> Forall item_ok l ->
  exists r, scalars cm lexT fuel (b :: flat l) = (map fst l, [r]) /\ is_space r = true.
Proof.
  induction l as [|[v c] l IH]; intros fuel b Hb Hf F; (destruct fuel as [|f]; [cbn in Hf; lia|]).
  - exists b. split; [|exact Hb]. change (flat []) with (@nil byte). cbn [scalars].
    rewrite (sk1_blank cm b [] Hb), sk1_nil, LEXNIL. reflexivity.
  - inversion F as [|? ? (G & Hc) Fl]; subst. cbn [fst snd] in *.
    destruct (IH f c Hc ltac:(cbn in Hf; lia) Fl) as (r & E & Hr). exists r. split; [|exact Hr].
    rewrite flat_cons. cbn [fst snd scalars]. rewrite (sk1_blank cm b _ Hb), (sk1_item v _ G).
    rewrite (LEX v _ G (blank_nodigit_c c _ Hc)). rewrite E. reflexivity.
Qed.

Theorem read_scalars_flat l : Forall item_ok l -> read_scalars cm lexT (flat l) = Some (map fst l).
Proof.
  intros F. unfold read_scalars. destruct l as [|[v c] l].
  - change (flat []) with (@nil byte). cbn [length scalars]. rewrite sk1_nil, LEXNIL. reflexivity.
  - inversion F as [|? ? (G & Hc) Fl]; subst. cbn [fst snd] in *.
    rewrite flat_cons. cbn [fst snd]. set (text := pr v ++ c :: flat l).
    assert (LT : (length l < length text)%nat).
    { unfold text. rewrite app_length. cbn [length]. pose proof (flat_length l). lia. }
    cbn [scalars]. unfold text at 1. rewrite (sk1_item v _ G), (LEX v _ G (blank_nodigit_c c _ Hc)).
    destruct (scalars_flat l (length text) c Hc LT Fl) as (r & E & Hr). rewrite E. cbn [map fst].
    rewrite (sk1_blank cm r [] Hr), sk1_nil. reflexivity.
Qed.
End Gen.

(* ---- rows of an exported integer dataset as numbers followed by one character ---- *)
Fixpoint row_pairs {T} (sep : byte) (r : list T) : list (T * byte) :=
  match r with
  | [] => []
  | [z] => [(z, 10)]
  | z :: r' => (z, sep) :: row_pairs sep r'
  end.

Lemma row_pairs_fst {T} sep (r : list T) : map fst (row_pairs sep r) = r.
Proof. induction r as [|z [|z' r'] IH]; [reflexivity|reflexivity|]. change (row_pairs sep (z :: z' :: r')) with ((z, sep) :: row_pairs sep (z' :: r')). cbn [map fst]. f_equal. exact IH. Qed.

Lemma row_pairs_text {T} (pr : T -> list byte) sep (r : list T) : r <> [] ->
  join sep (map pr r) ++ [10] = flat pr (row_pairs sep r).
Proof.
  induction r as [|z [|z' r'] IH]; intros NE; [contradiction| |].
  - cbn. rewrite app_nil_r. reflexivity.
  - change (row_pairs sep (z :: z' :: r')) with ((z, sep) :: row_pairs sep (z' :: r')). rewrite flat_cons. cbn [fst snd].
    change (join sep (map pr (z :: z' :: r'))) with (pr z ++ sep :: join sep (map pr (z' :: r'))).
    rewrite <- app_assoc. cbn [app]. rewrite (IH ltac:(discriminate)). reflexivity.
Qed.

Lemma row_pairs_blank {T} sep (r : list T) : (is_space sep = true \/ length r = 1%nat) ->
  Forall (fun p => is_space (snd p) = true) (row_pairs sep r).
Proof.
  intros H. induction r as [|z [|z' r'] IH]; [constructor|repeat constructor|].
  destruct H as [H|H]; [|cbn in H; lia].
  change (row_pairs sep (z :: z' :: r')) with ((z, sep) :: row_pairs sep (z' :: r')). constructor; [exact H|]. apply IH. left. exact H.
Qed.

Lemma flat_app {T} (pr : T -> list byte) a b : flat pr (a ++ b) = flat pr a ++ flat pr b.
Proof. unfold flat. rewrite map_app, concat_app. reflexivity. Qed.

(* the text exportCSV writes for rows of numbers printed by pr *)
Definition export_rows {T} (pr : T -> list byte) (sep : byte) (rows : list (list T)) : list byte :=
  concat (map (fun r => line sep (map pr r)) rows).

Lemma export_rows_flat {T} (pr : T -> list byte) sep rows : Forall (fun r => r <> []) rows ->
  export_rows pr sep rows = flat pr (concat (map (row_pairs sep) rows)).
Proof.
  induction 1 as [|r rows NE _ IH]; [reflexivity|].
  unfold export_rows in *. cbn [map concat]. rewrite flat_app, <- IH. unfold line. rewrite (row_pairs_text pr sep r NE). reflexivity.
Qed.

Lemma concat_row_pairs_fst {T} sep (rows : list (list T)) : map fst (concat (map (row_pairs sep) rows)) = concat rows.
Proof. induction rows as [|r rows IH]; [reflexivity|]. cbn [map concat]. rewrite map_app, row_pairs_fst, IH. reflexivity. Qed.

(* as tokens: export_rows print_int = export_data of the integer tokens *)
Lemma export_rows_int_tok sep rows : export_rows print_int sep rows = export_data sep (map (map int_tok) rows).
Proof.
  unfold export_rows, export_data. rewrite map_map. f_equal. apply map_ext. intros r. f_equal. rewrite map_map.
  apply map_ext. intros z. apply print_int_tok.
Qed.

(* ---- signed ---- *)
Lemma lex_int_print_int z rest : in_int32 z = true -> nodigit_head rest -> lex_int (print_int z ++ rest) = Some (z, rest).
Proof.
  intros R H. unfold in_int32 in R. apply andb_true_iff in R. destruct R as (R1 & R2). apply Z.leb_le in R1, R2.
  destruct z as [|p|p].
  - apply (lex_int_print 0 rest); [lia|exact H].
  - change (print_int (Zpos p)) with (print_nat (Npos p)). change (Zpos p) with (Z.of_N (Npos p)). apply lex_int_print; [lia|exact H].
  - change (print_int (Zneg p)) with (45 :: print_nat (Npos p)). unfold lex_int. cbn [app lex_sign].
    replace (45 =? 45) with true by reflexivity.
    rewrite (span_digits_app (print_nat (Npos p)) rest (print_nat_digits _) H).
    pose proof (print_nat_nonempty (Npos p)) as NE. destruct (print_nat (Npos p)) as [|c ds] eqn:E; [contradiction|].
    rewrite <- E, print_nat_val. cbn [signed Z.of_N Z.opp]. unfold in_int32.
    replace (-2147483648 <=? Zneg p)%Z with true by (symmetry; apply Z.leb_le; lia).
    replace (Zneg p <=? 2147483647)%Z with true by (symmetry; apply Z.leb_le; lia). reflexivity.
Qed.

Lemma print_int_head cm z : is_digit cm = false -> (cm =? 45) = false ->
  exists c r, print_int z = c :: r /\ is_space c = false /\ (c =? cm) = false.
Proof.
  intros A B. destruct z as [|p|p].
  - destruct (print_nat_head 0) as (c & r & E & Hc). exists c, r. split; [exact E|]. split; [apply digit_not_space; exact Hc|].
    apply N.eqb_neq. intros ->. congruence.
  - destruct (print_nat_head (Npos p)) as (c & r & E & Hc). exists c, r. split; [exact E|]. split; [apply digit_not_space; exact Hc|].
    apply N.eqb_neq. intros ->. congruence.
  - exists 45, (print_nat (Npos p)). split; [reflexivity|]. split; [reflexivity|]. rewrite N.eqb_sym. exact B.
Qed.

Theorem int_scalar_roundtrip cm sep rows m : is_digit cm = false -> (cm =? 45) = false -> (1 <= m)%nat ->
  (is_space sep = true \/ Forall (fun r => length r = 1%nat) rows) ->
  Forall (fun r => r <> [] /\ Forall (fun z => in_int32 z = true) r) rows ->
  exists ds, csv_import_ints cm m (export_data sep (map (map int_tok) rows)) = Ok ds /\
             map snd (ds_elems ds) = concat rows /\ opt_batched m (ds_batches ds).
Proof.
  intros A B Hm WS F. rewrite <- export_rows_int_tok.
  rewrite export_rows_flat by (eapply Forall_impl; [|exact F]; intros r (NE & _); exact NE).
  set (l := concat (map (row_pairs sep) rows)).
  assert (OKl : Forall (item_ok (fun z => in_int32 z = true)) l).
  { unfold l. apply Forall_concat. apply Forall_forall. intros ps Hps. apply in_map_iff in Hps. destruct Hps as (r & <- & Hr).
    rewrite Forall_forall in F. destruct (F r Hr) as (NE & Z).
    assert (BL : Forall (fun p => is_space (snd p) = true) (row_pairs sep r)).
    { apply row_pairs_blank. destruct WS as [W|W]; [left; exact W|right]. rewrite Forall_forall in W. apply W. exact Hr. }
    apply Forall_forall. intros p Hp. split; [|rewrite Forall_forall in BL; apply BL; exact Hp].
    rewrite Forall_forall in Z. apply Z. rewrite <- (row_pairs_fst sep r). apply in_map. exact Hp. }
  pose proof (read_scalars_flat print_int lex_int (fun z => in_int32 z = true) cm lex_int_print_int
                (fun z _ => print_int_head cm z A B) eq_refl l OKl) as RD.
  pose proof (csv_scalar_import_total lex_int cm m (flat print_int l) Hm) as TOT.
  destruct (csv_import_batches 0 cm m (flat print_int l) Hm) as (_ & _ & _ & BT).
  unfold csv_import_ints in *. specialize (BT Z lex_int).
  destruct (lift (read_scalars cm lex_int (flat print_int l)) (fun v => post_scalar v m)) as [d| |] eqn:E; [| |contradiction].
  - destruct TOT as (vals & RV & EL & _). rewrite RD in RV. injection RV as <-.
    exists d. split; [reflexivity|]. split; [rewrite EL; unfold l; apply concat_row_pairs_fst|]. apply BT. reflexivity.
  - rewrite RD in E. cbn [lift] in E. unfold post_scalar in E. destruct (map fst l); [discriminate|].
    destruct (batch_opt _ m); discriminate.
Qed.

(* ---- unsigned ---- *)
Lemma print_nat_head_cm cm n : is_digit cm = false ->
  exists c r, print_nat n = c :: r /\ is_space c = false /\ (c =? cm) = false.
Proof.
  intros A. destruct (print_nat_head n) as (c & r & E & Hc). exists c, r. split; [exact E|]. split; [apply digit_not_space; exact Hc|].
  apply N.eqb_neq. intros ->. congruence.
Qed.

Theorem uint_scalar_roundtrip_rows cm sep (rows : list (list N)) m : is_digit cm = false -> (1 <= m)%nat ->
  (is_space sep = true \/ Forall (fun r => length r = 1%nat) rows) ->
  Forall (fun r => r <> [] /\ Forall (fun n => n <= 4294967295) r) rows ->
  exists ds, csv_import_uints cm m (export_rows print_nat sep rows) = Ok ds /\
             map snd (ds_elems ds) = map Z.of_N (concat rows) /\ opt_batched m (ds_batches ds).
Proof.
  intros A Hm WS F.
  rewrite export_rows_flat by (eapply Forall_impl; [|exact F]; intros r (NE & _); exact NE).
  set (l := concat (map (row_pairs sep) rows)).
  assert (OKl : Forall (item_ok (fun n => n <= 4294967295)) l).
  { unfold l. apply Forall_concat. apply Forall_forall. intros ps Hps. apply in_map_iff in Hps. destruct Hps as (r & <- & Hr).
    rewrite Forall_forall in F. destruct (F r Hr) as (NE & Z).
    assert (BL : Forall (fun p => is_space (snd p) = true) (row_pairs sep r)).
    { apply row_pairs_blank. destruct WS as [W|W]; [left; exact W|right]. rewrite Forall_forall in W. apply W. exact Hr. }
    apply Forall_forall. intros p Hp. split; [|rewrite Forall_forall in BL; apply BL; exact Hp].
    rewrite Forall_forall in Z. apply Z. rewrite <- (row_pairs_fst sep r). apply in_map. exact Hp. }
  assert (RD : read_scalars cm lex_uint (flat print_nat l) = Some (map Z.of_N (map fst l))).
  { (* re-index the list by Z values *)
    set (lz := map (fun p => (Z.of_N (fst p), snd p)) l).
    assert (FL : flat (fun z => print_nat (Z.to_N z)) lz = flat print_nat l).
    { unfold flat, lz. rewrite map_map. f_equal. apply map_ext. intros p. cbn [fst snd]. rewrite N2Z.id. reflexivity. }
    rewrite <- FL.
    rewrite (read_scalars_flat (fun z => print_nat (Z.to_N z)) lex_uint (fun z => (0 <= z <= 4294967295)%Z) cm).
    - unfold lz. rewrite !map_map. reflexivity.
    - intros v rest (V0 & V1) H. rewrite (lex_uint_print (Z.to_N v) rest ltac:(lia) H). rewrite Z2N.id by lia. reflexivity.
    - intros v _. apply print_nat_head_cm. exact A.
    - reflexivity.
    - unfold lz. apply Forall_forall. intros p Hp. apply in_map_iff in Hp. destruct Hp as (q & <- & Hq).
      rewrite Forall_forall in OKl. destruct (OKl q Hq) as (G & S). split; [cbn [fst]; lia|exact S]. }
  pose proof (csv_scalar_import_total lex_uint cm m (flat print_nat l) Hm) as TOT.
  destruct (csv_import_batches 0 cm m (flat print_nat l) Hm) as (_ & _ & _ & BT).
  unfold csv_import_uints in *. specialize (BT Z lex_uint).
  destruct (lift (read_scalars cm lex_uint (flat print_nat l)) (fun v => post_scalar v m)) as [d| |] eqn:E; [| |contradiction].
  - destruct TOT as (vals & RV & EL & _). rewrite RD in RV. injection RV as <-.
    exists d. split; [reflexivity|]. split; [rewrite EL; unfold l; rewrite concat_row_pairs_fst; reflexivity|]. apply BT. reflexivity.
  - rewrite RD in E. cbn [lift] in E. unfold post_scalar in E. destruct (map Z.of_N (map fst l)); [discriminate|].
    destruct (batch_opt _ m); discriminate.
Qed.

Lemma export_rows_uint_tok sep (rows : list (list N)) :
  export_rows print_nat sep rows = export_data sep (map (map (fun n => int_tok (Z.of_N n))) rows).
Proof.
  unfold export_rows, export_data. rewrite map_map. f_equal. apply map_ext. intros r. f_equal. rewrite map_map.
  apply map_ext. intros n. rewrite <- print_int_tok. destruct n; reflexivity.
Qed.

Theorem uint_scalar_roundtrip cm sep (rows : list (list N)) m : is_digit cm = false -> (1 <= m)%nat ->
  (is_space sep = true \/ Forall (fun r => length r = 1%nat) rows) ->
  Forall (fun r => r <> [] /\ Forall (fun n => n <= 4294967295) r) rows ->
  exists ds, csv_import_uints cm m (export_data sep (map (map (fun n => int_tok (Z.of_N n))) rows)) = Ok ds /\
             map snd (ds_elems ds) = map Z.of_N (concat rows) /\ opt_batched m (ds_batches ds).
Proof. intros. rewrite <- export_rows_uint_tok. apply uint_scalar_roundtrip_rows; assumption. Qed.

(* examples: "5 -3\n7 8\n" through the int importer, "5\n6\n" with a comma separator (one column) *)
Lemma scalar_roundtrip_examples :
  csv_import_ints 35 2 (export_data 32 (map (map int_tok) [[5; -3]; [7; 8]]%Z)) = Ok (mkDs [[(tt, 5%Z); (tt, (-3)%Z)]; [(tt, 7%Z); (tt, 8%Z)]] 0) /\
  csv_import_uints 35 2 (export_data 44 (map (map (fun n => int_tok (Z.of_N n))) [[5]; [6]])) = Ok (mkDs [[(tt, 5%Z); (tt, 6%Z)]] 0).
Proof. split; vm_compute; reflexivity. Qed.
