(* C17 — the choice of the anchors as coded (C17ProjBuild.coded_choose: calculateNormal on the sample, fallback of
   repair c6ff0316 for a degenerate sample) satisfies the hypothesis choose_ok of the construction theorems:
   the anchors are points of the cell, and they are at non-zero distance whenever the cell holds two points at
   non-zero distance.  Instances for LCTree and KHCTree.  Axiom-free. *)
From Coq Require Import List Bool Arith Lia Permutation Field.
From SharkV Require Import C17Model C17Build C17Field C17Gen C17Proj C17ProjProofs C17ProjBuild C17ProjBuildProofs.
Import ListNotations.

Section CH.
Variable A : Type.
Variable F : fops A.
Hypothesis L : olaws F.
Notation "0" := (o0 F) : OF_scope.
Notation "1" := (o1 F) : OF_scope.
Infix "+" := (oadd F) : OF_scope.
Infix "*" := (omul F) : OF_scope.
Infix "-" := (osub F) : OF_scope.
Infix "/" := (odiv F) : OF_scope.
Notation "- x" := (oopp F x) : OF_scope.
Notation "a <= b" := (oleb F a b = true) : OF_scope.
Notation "a < b" := (oleb F b a = false) : OF_scope.
Local Open Scope OF_scope.
Add Field CHfield : (ol_field F L).
Notation le_refl := (le_refl A F L).
Notation le_trans := (le_trans A F L).
Notation lt_le := (lt_le A F L).

Section Scan.
Variable d2 : nat -> nat -> A.
Variable V : nat -> Prop.                   (* the indices of data points *)
Hypothesis d2_nonneg : forall i j, V i -> V j -> 0 <= d2 i j.
Hypothesis d2_refl : forall i, V i -> d2 i i = 0.
Hypothesis d2_sym : forall i j, V i -> V j -> d2 i j = d2 j i.
Hypothesis d2_tri0 : forall i j p, V i -> V j -> V p -> d2 i p = 0 -> d2 j p = 0 -> d2 i j = 0.

Notation scan_inner := (scan_inner A F d2).
Notation scan_outer := (scan_outer A F d2).
Notation calc_anchors := (calc_anchors A F d2).
Definition trip := (nat * nat * A)%type.

Lemma m1_lt_0 : oopp F 1 < 0.
Proof.
  destruct (oleb F 0 (oopp F 1)) eqn:E; [|auto]. exfalso.
  assert (H : 1 <= 0).
  { apply (le_opp A F L) in E. replace (- oopp F 1) with 1 in E by ring. replace (- 0) with 0 in E by ring. auto. }
  apply (one_neq_0 A F L). apply (ol_antisym F L); auto. apply (le_0_1 A F L).
Qed.

(* the best pair so far, relative to the list S of pairs already looked at; init = the start value *)
Definition Good (init b : trip) (S : list (nat * nat)) : Prop :=
  (forall i j, In (i, j) S -> d2 i j <= snd b) /\
  ((b = init /\ S = []) \/ (In (fst (fst b), snd (fst b)) S /\ snd b = d2 (fst (fst b)) (snd (fst b)))).

Lemma scan_inner_good init si : snd init < 0 -> V si -> forall prefix b S, (forall x, In x prefix -> V x) -> Good init b S ->
  Good init (scan_inner si b prefix) (S ++ map (fun sj => (si, sj)) prefix).
Proof.
  intros Hi Vsi. induction prefix as [|sj prefix IH]; intros b S Vp G; simpl.
  - rewrite app_nil_r. auto.
  - replace (S ++ (si, sj) :: map (fun sj0 => (si, sj0)) prefix) with ((S ++ [(si, sj)]) ++ map (fun sj0 => (si, sj0)) prefix)
      by (rewrite <- app_assoc; reflexivity).
    assert (Vsj : V sj) by (apply Vp; left; auto).
    apply IH; [intros x Hx; apply Vp; right; auto|]. destruct G as [G1 G2]. unfold oltb.
    destruct (oleb F (d2 si sj) (snd b)) eqn:E; simpl.
    + split.
      * intros i j Hij. apply in_app_or in Hij. destruct Hij as [Hij|[Hij|[]]]; [auto|]. inversion Hij; subst. auto.
      * destruct G2 as [[-> ->]|[G2 G3]].
        -- exfalso. assert (K : 0 <= snd init) by (apply (le_trans 0 (d2 si sj)); [apply d2_nonneg; auto | exact E]).
           rewrite K in Hi. discriminate.
        -- right. split; [apply in_or_app; auto | auto].
    + split.
      * simpl. intros i j Hij. apply in_app_or in Hij. destruct Hij as [Hij|[Hij|[]]].
        -- eapply le_trans; [apply G1; eauto | apply lt_le; auto].
        -- inversion Hij; subst. apply le_refl.
      * right. simpl. split; [apply in_or_app; right; left; auto | auto].
Qed.

Fixpoint allpairs (prefix_rev rest : list nat) : list (nat * nat) :=
  match rest with
  | [] => []
  | si :: rest' => map (fun sj => (si, sj)) (rev prefix_rev) ++ allpairs (si :: prefix_rev) rest'
  end.

Lemma scan_outer_good init : snd init < 0 -> forall rest prefix_rev b S,
  (forall x, In x (prefix_rev ++ rest) -> V x) -> Good init b S ->
  Good init (scan_outer prefix_rev rest b) (S ++ allpairs prefix_rev rest).
Proof.
  intros Hi. induction rest as [|si rest IH]; intros pr b S Vp G; simpl.
  - rewrite app_nil_r. auto.
  - rewrite app_assoc. apply IH.
    + intros x Hx. apply Vp. simpl in Hx. destruct Hx as [<-|Hx]; [apply in_or_app; right; left; auto|].
      apply in_app_or in Hx. apply in_or_app. destruct Hx; [left | right; right]; auto.
    + apply scan_inner_good; auto.
      * apply Vp. apply in_or_app. right. left. auto.
      * intros x Hx. apply Vp. apply in_or_app. left. apply in_rev. auto.
Qed.

Lemma allpairs_in pr rest i j : In (i, j) (allpairs pr rest) -> In i rest /\ In j (pr ++ rest).
Proof.
  revert pr. induction rest as [|si rest IH]; intros pr H; simpl in *; [contradiction|].
  apply in_app_or in H. destruct H as [H|H].
  - apply in_map_iff in H. destruct H as (sj & E & Hs). inversion E; subst. split; [auto|].
    apply in_or_app. left. apply in_rev. auto.
  - destruct (IH _ H) as [H1 H2]. split; [auto|]. simpl in H2. destruct H2 as [<-|H2].
    + apply in_or_app. right. left. auto.
    + apply in_app_or in H2. apply in_or_app. destruct H2; [left | right; right]; auto.
Qed.

Lemma allpairs_cover pr rest : forall x y, In x rest -> (In y pr -> In (x, y) (allpairs pr rest)) /\
  (In y rest -> x = y \/ In (x, y) (allpairs pr rest) \/ In (y, x) (allpairs pr rest)).
Proof.
  revert pr. induction rest as [|si rest IH]; intros pr x y Hx; simpl in *; [contradiction|].
  destruct Hx as [<-|Hx].
  - split.
    + intros Hy. apply in_or_app. left. apply in_map_iff. exists y. split; auto. apply in_rev. rewrite rev_involutive. auto.
    + intros [<-|Hy]; [auto|]. right. right. apply in_or_app. right.
      apply (IH (si :: pr) y si Hy). left. auto.
  - destruct (IH (si :: pr) x y Hx) as [H1 H2]. split.
    + intros Hy. apply in_or_app. right. apply H1. right. auto.
    + intros [<-|Hy].
      * right. left. apply in_or_app. right. apply H1. left. auto.
      * destruct (H2 Hy) as [H|[H|H]]; auto; right; [left | right]; apply in_or_app; right; auto.
Qed.

(* calculateNormal on a non-empty sample list: the returned pair is in the list; if two samples are at non-zero distance,
   so is the returned pair *)
Lemma calc_anchors_spec samples a b v : samples <> [] -> (forall x, In x samples -> V x) -> calc_anchors samples = (a, b, v) ->
  In a samples /\ In b samples /\
  ((exists i j, In i samples /\ In j samples /\ d2 i j <> 0) -> d2 a b <> 0).
Proof.
  destruct samples as [|s0 rest]; [congruence|]. intros _ Vs E. unfold C17ProjBuild.calc_anchors in E.
  pose proof (scan_outer_good (s0, s0, oopp F 1) m1_lt_0 rest [s0] (s0, s0, oopp F 1) [] Vs) as G.
  rewrite E in G. simpl in G.
  destruct G as [G1 G2]. { split; [intros i j []|]. left; auto. }
  simpl in G1, G2.
  assert (Hab : In a (s0 :: rest) /\ In b (s0 :: rest)).
  { destruct G2 as [[G2 _]|[G2 _]].
    - inversion G2; subst. simpl; auto.
    - destruct (allpairs_in _ _ _ _ G2) as [H1 H2]. simpl in H2. split; [right; auto | auto]. }
  split; [apply Hab|]. split; [apply Hab|].
  intros (i & j & Hi & Hj & Hd).
  assert (Vi : V i) by (apply Vs; auto). assert (Vj : V j) by (apply Vs; auto).
  assert (Hp : In (i, j) (allpairs [s0] rest) \/ In (j, i) (allpairs [s0] rest)).
  { destruct Hi as [<-|Hi]; destruct Hj as [<-|Hj].
    - exfalso. apply Hd. apply d2_refl; auto.
    - right. apply (allpairs_cover [s0] rest j s0 Hj). left; auto.
    - left. apply (allpairs_cover [s0] rest i s0 Hi). left; auto.
    - destruct (proj2 (allpairs_cover [s0] rest i j Hi) Hj) as [->|[H|H]]; auto. exfalso. apply Hd. apply d2_refl; auto. }
  assert (Hv : d2 i j <= v).
  { destruct Hp as [Hp|Hp]; [apply G1; auto | rewrite d2_sym by auto; apply G1; auto]. }
  assert (Hpos : 0 < d2 i j) by (apply pos_of_nonneg_neq; auto).
  destruct G2 as [[G2 G3]|[G2 G3]].
  - destruct Hp as [Hp|Hp]; rewrite G3 in Hp; destruct Hp.
  - intros Z. rewrite <- G3 in Z. rewrite Z in Hv. rewrite Hv in Hpos. discriminate.
Qed.

Lemma sample_of_incl ca elems : elems <> [] -> forall x, In x (sample_of ca elems) -> In x elems.
Proof.
  intros Hne x. unfold sample_of. destruct (Nat.leb_spec (length elems) ca) as [H|H]; [auto|].
  intros Hx. apply in_map_iff in Hx. destruct Hx as (i & <- & Hi). apply in_seq in Hi.
  apply nth_In. apply Nat.div_lt_upper_bound; [lia|].
  rewrite (Nat.mul_comm (2 * ca)). apply Nat.mul_lt_mono_pos_l; lia.
Qed.

Lemma sample_of_nonempty ca elems : elems <> [] -> (ca <> 0)%nat -> sample_of ca elems <> [].
Proof.
  intros Hne Hc. unfold sample_of. destruct (Nat.leb_spec (length elems) ca) as [H|H]; [auto|].
  destruct ca; [congruence|]. simpl. discriminate.
Qed.

(* the point farthest from the first one *)
Lemma farthest_spec p0 rest : (forall x, In x (p0 :: rest) -> V x) -> In (farthest A F d2 (p0 :: rest)) (p0 :: rest) /\
  ((exists x, In x rest /\ d2 x p0 <> 0) -> d2 (farthest A F d2 (p0 :: rest)) p0 <> 0).
Proof.
  intros Vs. unfold farthest.
  assert (G : forall l (acc : nat * A), (forall x, In x l -> V x) -> 0 <= snd acc ->
            (acc = (p0, 0) \/ snd acc = d2 (fst acc) p0) ->
            let r := fold_left (fun acc i => let d := d2 i p0 in if oltb F (snd acc) d then (i, d) else acc) l acc in
            snd acc <= snd r /\ (forall x, In x l -> d2 x p0 <= snd r) /\
            (r = acc \/ (In (fst r) l /\ snd r = d2 (fst r) p0))).
  { induction l as [|i l IH]; intros acc Vl H0 Ha; simpl.
    - split; [apply le_refl|]. split; [intros x []|auto].
    - set (acc' := if oltb F (snd acc) (d2 i p0) then (i, d2 i p0) else acc).
      assert (K : snd acc <= snd acc' /\ d2 i p0 <= snd acc' /\ (acc' = acc \/ acc' = (i, d2 i p0))).
      { subst acc'. unfold oltb. destruct (oleb F (d2 i p0) (snd acc)) eqn:E; simpl.
        - split; [apply le_refl|]. split; auto.
        - split; [apply lt_le; auto|]. split; [apply le_refl | auto]. }
      destruct K as (K1 & K2 & K3).
      destruct (IH acc') as (I1 & I2 & I3).
      { intros x Hx. apply Vl. right. auto. }
      { eapply le_trans; eauto. }
      { destruct K3 as [->| ->]; [auto | right; auto]. }
      cbv zeta in *. split; [eapply le_trans; eauto|]. split.
      + intros x [<-|Hx]; [eapply le_trans; eauto | auto].
      + destruct I3 as [I3|[I3 I4]].
        * rewrite I3. destruct K3 as [->| ->]; [left; auto | right; simpl; auto].
        * right. split; [right; auto | auto]. }
  destruct (G rest (p0, 0)) as (G1 & G2 & G3); [intros x Hx; apply Vs; right; auto | apply le_refl | left; auto|]. cbv zeta in *. simpl in *.
  set (r := fold_left (fun acc i => if oltb F (snd acc) (d2 i p0) then (i, d2 i p0) else acc) rest (p0, 0)) in *.
  split.
  - destruct G3 as [->|[G3 _]]; simpl; auto.
  - intros (x & Hx & Hd).
    assert (Hnn : 0 <= d2 x p0) by (apply d2_nonneg; apply Vs; [right | left]; auto).
    assert (Hpos : 0 < d2 x p0) by (apply pos_of_nonneg_neq; auto).
    specialize (G2 x Hx).
    destruct G3 as [G3|[G3 G4]].
    + rewrite G3 in G2. simpl in G2. rewrite G2 in Hpos. discriminate.
    + intros Z. rewrite <- G4 in Z. rewrite Z in G2. rewrite G2 in Hpos. discriminate.
Qed.

Variable degenerate : nat -> nat -> bool.
Hypothesis degenerate_spec : forall a b, V a -> V b -> (degenerate a b = true <-> d2 a b = 0).

Theorem coded_choose_ok ca : (ca <> 0)%nat -> choose_ok A F V d2 (coded_choose A F d2 ca degenerate).
Proof.
  intros Hca elems a b Hne Ve E. unfold coded_choose in E.
  destruct (calc_anchors (sample_of ca elems)) as [[a0 b0] v0] eqn:Ec.
  assert (Vsam : forall x, In x (sample_of ca elems) -> V x) by (intros x Hx; apply Ve; eapply sample_of_incl; eauto).
  destruct (calc_anchors_spec _ a0 b0 v0 (sample_of_nonempty ca elems Hne Hca) Vsam Ec) as (Ha0 & Hb0 & Hs).
  destruct ((ca <? length elems)%nat && degenerate a0 b0) eqn:Ed.
  - (* degenerate sample: first point and the point farthest from it *)
    apply andb_prop in Ed. destruct Ed as [Ed1 Ed2]. apply degenerate_spec in Ed2; auto.
    destruct elems as [|p0 rest]; [congruence|]. cbn [hd] in E.
    destruct (calc_anchors [p0; farthest A F d2 (p0 :: rest)]) as [[a1 b1] v1] eqn:Ec1. inversion E; subst a1 b1. clear E.
    destruct (farthest_spec p0 rest Ve) as [Hf1 Hf2]. set (far := farthest A F d2 (p0 :: rest)) in *.
    assert (Hin : forall x, In x [p0; far] -> In x (p0 :: rest)).
    { intros x [<-|[<-|[]]]; [left; auto | auto]. }
    assert (Hne2 : [p0; far] <> []) by discriminate.
    destruct (calc_anchors_spec [p0; far] a b v1 Hne2 (fun x Hx => Ve x (Hin x Hx)) Ec1) as (Ha & Hb & Hs1).
    split; [auto|]. split; [auto|].
    intros (i & j & Hi & Hj & Hd). apply Hs1. exists far, p0. split; [right; left; auto|]. split; [left; auto|].
    apply Hf2. assert (Vp0 : V p0) by (apply Ve; left; auto).
    destruct (eq_dec_of A F L (d2 i p0) 0) as [Zi|Zi]; [destruct (eq_dec_of A F L (d2 j p0) 0) as [Zj|Zj]|].
    + exfalso. apply Hd. apply (d2_tri0 i j p0); auto.
    + exists j. split; [|auto]. destruct Hj as [<-|Hj]; [exfalso; apply Zj; apply d2_refl; auto | auto].
    + exists i. split; [|auto]. destruct Hi as [<-|Hi]; [exfalso; apply Zi; apply d2_refl; auto | auto].
  - inversion E; subst a0 b0. clear E.
    split; [eapply sample_of_incl; eauto|]. split; [eapply sample_of_incl; eauto|].
    intros Hfar. apply andb_false_iff in Ed. destruct Ed as [Ed|Ed].
    + (* at most ca points: the sample is the whole cell *)
      apply Nat.ltb_ge in Ed. apply Hs. unfold sample_of. apply Nat.leb_le in Ed. rewrite Ed. auto.
    + intros Z. apply degenerate_spec in Z; auto. congruence.
Qed.

End Scan.

(* ---- sorting is an admissible std::nth_element; the executable check of a recorded result is sound ---- *)
Notation akv := (akv A).
Fixpoint aksorted (l : list akv) : Prop :=
  match l with
  | [] => True
  | x :: t => (forall y, In y t -> fst x <= fst y) /\ aksorted t
  end.

Lemma akinsert_perm e l : Permutation (e :: l) (akinsert A F e l).
Proof.
  induction l as [|h t IH]; simpl; [auto|].
  destruct (oleb F (fst e) (fst h)); [auto|]. eapply perm_trans; [apply perm_swap|]. constructor. auto.
Qed.

Lemma aksort_perm l : Permutation l (aksort A F l).
Proof.
  induction l as [|e t IH]; simpl; [auto|]. eapply perm_trans; [|apply akinsert_perm]. constructor. auto.
Qed.

Lemma akinsert_sorted e l : aksorted l -> aksorted (akinsert A F e l).
Proof.
  induction l as [|h t IH]; simpl; intros H.
  - split; [intros y []| auto].
  - destruct H as [H1 H2]. destruct (oleb F (fst e) (fst h)) eqn:E.
    + simpl. split; [|auto]. intros y [<-|Hy]; [auto|]. specialize (H1 y Hy). eapply le_trans; eauto.
    + simpl. split; [|auto]. intros y Hy.
      eapply Permutation_in in Hy; [|apply Permutation_sym; apply akinsert_perm].
      destruct Hy as [<-|Hy]; [apply lt_le; auto | auto].
Qed.

Lemma aksort_sorted l : aksorted (aksort A F l).
Proof. induction l; simpl; [auto | apply akinsert_sorted; auto]. Qed.

Lemma asorted_median r : aksorted r -> forall mp, amedian_prop A F mp r.
Proof.
  induction r as [|x t IH]; intros S mp e He.
  - destruct mp; discriminate.
  - destruct S as [S1 S2]. destruct mp as [|m]; simpl in He.
    + inversion He; subst e. simpl. split; [constructor|].
      constructor; [apply le_refl|]. apply Forall_forall. auto.
    + destruct (IH S2 m e He) as [H1 H2]. simpl. split; [|auto].
      constructor; [|auto]. apply S1. eapply nth_error_In; eauto.
Qed.

Theorem aksort_oracle_ok : aoracle_ok A F (aksort A F).
Proof. intros l. split; [apply aksort_perm | apply asorted_median; apply aksort_sorted]. Qed.

Theorem amedian_okb_sound mp r : amedian_okb A F mp r = true -> amedian_prop A F mp r.
Proof.
  unfold amedian_okb, amedian_prop. intros H e He. rewrite He in H.
  apply andb_prop in H. destruct H as [H1 H2]. rewrite forallb_forall in H1, H2.
  split; apply Forall_forall; intros x Hx; auto.
Qed.

(* ---- LCTree ---- *)
Lemma edist2_refl (x : list A) : edist2 F x x = 0.
Proof. induction x as [|a x IH]; simpl; [auto|]. rewrite IH. ring. Qed.

Lemma lc_degenerate_spec data : (forall a b, sqrt_ok A F (lc_d2 A F data a b)) ->
  forall a b, lc_degenerate A F data a b = true <-> lc_d2 A F data a b = 0.
Proof.
  intros Hsqrt a b. unfold lc_degenerate.
  assert (E : dot F (lc_prep A F data a b) (lc_prep A F data a b) =
              inv_norm A F (lc_d2 A F data a b) * (inv_norm A F (lc_d2 A F data a b) * lc_d2 A F data a b)).
  { unfold lc_prep. rewrite (dot_vscale A F L), (dot_vscale_r A F L). rewrite (dot_vsub_self_gen A F L).
    rewrite (dist2_sym A F L). reflexivity. }
  cbv zeta. rewrite E. set (best := lc_d2 A F data a b). split.
  - intros H. apply (keqb_eq A F L) in H.
    destruct (eq_dec_of A F L best 0) as [Z|Z]; [auto|]. exfalso.
    destruct (inv_norm_sq A F L best) as [_ K]; [apply (dist2_nonneg A F L) | apply Hsqrt|].
    specialize (K Z). destruct (mul_eq_0 A F L _ _ H) as [H1|H1]; [|auto].
    apply K. rewrite H1. ring.
  - intros ->. replace (inv_norm A F 0 * (inv_norm A F 0 * 0)) with 0 by ring. apply (keqb_refl A F L).
Qed.

Theorem lc_coded_choose_ok dim data ca : (ca <> 0)%nat -> (forall a b, sqrt_ok A F (lc_d2 A F data a b)) ->
  choose_ok A F (fun i => dimdom A dim (ptA A data i)) (lc_d2 A F data) (lc_coded_choose A F ca data).
Proof.
  intros Hca Hsqrt. unfold lc_coded_choose. apply coded_choose_ok; auto.
  - intros; apply (dist2_nonneg A F L).
  - intros; apply edist2_refl.
  - intros; apply (dist2_sym A F L).
  - unfold dimdom, lc_d2. intros i j p Vi Vj Vp Hi Hj.
    assert (E1 : length (ptA A data i) = length (ptA A data p)) by congruence.
    assert (E2 : length (ptA A data j) = length (ptA A data p)) by congruence.
    rewrite (edist2_0_eq A F L _ _ E1 Hi). rewrite (edist2_0_eq A F L _ _ E2 Hj). apply edist2_refl.
  - intros a b _ _. apply lc_degenerate_spec; auto.
Qed.

(* ---- KHCTree ---- *)
Theorem khc_coded_choose_ok (k : apoint A -> apoint A -> A) (dom : apoint A -> Prop) data ca : (ca <> 0)%nat ->
  KPos A F k dom -> KCS A F k dom -> (forall x y, dom x -> dom y -> k x y = k y x) ->
  choose_ok A F (fun i => dom (ptA A data i)) (khc_d2 A F k data) (khc_coded_choose A F k ca data).
Proof.
  intros Hca HP HC Hsym. unfold khc_coded_choose. apply coded_choose_ok; auto.
  - intros i j Vi Vj. apply HP; auto.
  - intros i Vi. unfold khc_d2, kd2, two. ring.
  - intros i j Vi Vj. unfold khc_d2, kd2, two. rewrite (Hsym _ _ Vi Vj). ring.
  - intros i j p Vi Vj Vp Hi Hj. unfold khc_d2 in *.
    rewrite (kd2_equiv A F L k dom HC Hsym _ _ Vi Vp Hi _ Vj).
    assert (S : kd2 A F k (ptA A data p) (ptA A data j) = kd2 A F k (ptA A data j) (ptA A data p)).
    { unfold kd2, two. rewrite (Hsym _ _ Vp Vj). ring. }
    rewrite S. exact Hj.
  - intros a b _ _. unfold khc_degenerate. split; [apply (keqb_eq A F L) | intros ->; apply (keqb_refl A F L)].
Qed.

End CH.
