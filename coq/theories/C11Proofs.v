(* C11 — evolution strategies: proofs about C11Model.v (axiom-free, over Q and lists). *)
From Coq Require Import List Arith Bool QArith Lia Lqa Permutation Sorted Morphisms.
From SharkV Require Import C11Model.
Import ListNotations.

(* ================================================================ 1. rank-based selection *)
Section RankGeneric.
Variables (A P : Type) (O : ops A) (phi : A -> A).
Hypothesis phi_ltb : forall a b, o_ltb O (phi a) (phi b) = o_ltb O a b.

Definition remap (l : list (A * P)) : list (A * P) := map (fun i => (phi (fst i), snd i)) l.

Lemma insert_remap x l : insert O (phi (fst x), snd x) (remap l) = remap (insert O x l).
Proof.
  induction l as [|y t IH]; cbn [insert remap map fst snd]; auto.
  rewrite phi_ltb. destruct (o_ltb O (fst y) (fst x)); cbn [map fst snd]; auto.
  f_equal. apply IH.
Qed.

Lemma isort_remap l : isort O (remap l) = remap (isort O l).
Proof.
  induction l as [|x t IH]; cbn [isort fold_right remap map]; auto.
  change (fold_right (insert (P:=P) O) [] (map (fun i => (phi (fst i), snd i)) t)) with (isort O (remap t)).
  rewrite IH. apply insert_remap.
Qed.

Lemma payload_remap l : map snd (remap l) = map snd l.
Proof. unfold remap. rewrite map_map. apply map_ext. reflexivity. Qed.

Lemma payload_isort_remap l : map snd (isort O (remap l)) = map snd (isort O l).
Proof. rewrite isort_remap. apply payload_remap. Qed.

Lemma payload_select_remap mu l : map snd (select O mu (remap l)) = map snd (select O mu l).
Proof.
  unfold select. rewrite isort_remap. unfold remap. rewrite firstn_map, map_map. apply map_ext. reflexivity.
Qed.
End RankGeneric.
Arguments remap {A P} phi l.

(* ---------------------------------------------------------------- the Q instantiation *)
Definition Qltb (a b : Q) : bool := negb (Qle_bool b a).

Lemma Qltb_spec a b : Qltb a b = true <-> a < b.
Proof.
  unfold Qltb. rewrite negb_true_iff, <- not_true_iff_false, Qle_bool_iff. split; intro H; lra.
Qed.

Lemma Qltb_false a b : Qltb a b = false <-> b <= a.
Proof.
  rewrite <- not_true_iff_false, Qltb_spec. split; intro H; lra.
Qed.

Section QInst.
Variables (sq ex : Q -> Q) (pw : Q -> Q -> Q).

Definition QO : ops Q :=
  mkOps 0 1 2 Qplus Qminus Qmult Qdiv Qltb sq ex pw (fun n => inject_Z (Z.of_nat n)).

Lemma incr_ltb (phi : Q -> Q) :
  (forall a b, a < b -> phi a < phi b) -> (forall a b, a == b -> phi a == phi b) ->
  forall a b, o_ltb QO (phi a) (phi b) = o_ltb QO a b.
Proof.
  intros Hi He a b. cbn [o_ltb QO]. apply eq_iff_eq_true. rewrite !Qltb_spec. split; intro H.
  - destruct (Qlt_le_dec a b) as [|L]; auto. exfalso.
    destruct (Qle_lt_or_eq _ _ L) as [L'|E].
    + pose proof (Hi _ _ L'). lra.
    + pose proof (He _ _ E). lra.
  - auto.
Qed.

(* any strictly increasing, ==-compatible rescaling of the fitness values leaves the order of the
   individuals produced by the sort, the selected mu best, and hence the recombination, unchanged *)
Lemma selection_rank_invariant_lemma (P : Type) (phi : Q -> Q) :
  (forall a b, a < b -> phi a < phi b) -> (forall a b, a == b -> phi a == phi b) ->
  forall (l : list (Q * P)) (mu : nat),
    map snd (isort QO (remap phi l)) = map snd (isort QO l) /\
    map snd (select QO mu (remap phi l)) = map snd (select QO mu l) /\
    forall n ws (pt : P -> list Q),
      recombine QO n ws (map pt (map snd (select QO mu (remap phi l)))) =
      recombine QO n ws (map pt (map snd (select QO mu l))).
Proof.
  intros Hi He l mu. pose proof (incr_ltb phi Hi He) as H.
  split; [apply payload_isort_remap; auto|].
  split; [apply payload_select_remap; auto|].
  intros. rewrite payload_select_remap; auto.
Qed.

(* ---------------------------------------------------------------- std::sort = isort on tie-free lists *)
Section SortUnique.
Variable P : Type.
Implicit Types x y : (Q * P)%type.
Implicit Types l : list (Q * P).
Definition fle x y := fst x <= fst y.
Definition flt x y := fst x < fst y.
Definition no_ties (l : list (Q * P)) :=
  NoDup l /\ forall x y, In x l -> In y l -> fst x == fst y -> x = y.

Lemma insert_perm x l : Permutation (insert QO x l) (x :: l).
Proof.
  induction l as [|y t IH]; cbn [insert]; auto.
  destruct (o_ltb QO (fst y) (fst x)); auto.
  rewrite IH. apply perm_swap.
Qed.

Lemma isort_perm l : Permutation (isort QO l) l.
Proof.
  induction l as [|x t IH]; cbn [isort fold_right]; auto.
  rewrite insert_perm. constructor. exact IH.
Qed.

Lemma insert_sorted x l : StronglySorted fle l -> StronglySorted fle (insert QO x l).
Proof.
  induction 1 as [|y t S IH F]; cbn [insert].
  - repeat constructor.
  - destruct (o_ltb QO (fst y) (fst x)) eqn:E; cbn [o_ltb QO] in E.
    + apply Qltb_spec in E. constructor; auto.
      eapply Permutation_Forall; [symmetry; apply insert_perm|].
      constructor; auto. unfold fle. lra.
    + apply Qltb_false in E. constructor; [constructor; auto|].
      constructor; [exact E|]. eapply Forall_impl; [|exact F]. unfold fle. intros; lra.
Qed.

Lemma isort_sorted l : StronglySorted fle (isort QO l).
Proof.
  induction l as [|x t IH]; cbn [isort fold_right]; [constructor|]. apply insert_sorted. exact IH.
Qed.

Lemma no_ties_perm l l' : Permutation l l' -> no_ties l -> no_ties l'.
Proof.
  intros Hp [N T]. split; [eapply Permutation_NoDup; eauto|].
  intros x y Hx Hy. apply T; eapply Permutation_in; try apply Permutation_sym; eauto.
Qed.

Lemma sorted_strict l : no_ties l -> StronglySorted fle l -> StronglySorted flt l.
Proof.
  intros NT S. induction S as [|a t S IH F]; constructor.
  - apply IH. destruct NT as [N T]. inversion N; subst. split; auto. intros; apply T; simpl; auto.
  - destruct NT as [N T]. inversion N as [|? ? Hn N']; subst.
    rewrite Forall_forall in *. intros y Hy. pose proof (F y Hy) as L. unfold fle, flt in *.
    destruct (Qeq_dec (fst a) (fst y)) as [E|E]; [|lra].
    exfalso. apply Hn. rewrite (T a y); simpl; auto.
Qed.

Lemma strict_sorted_perm_unique l1 : forall l2,
  StronglySorted flt l1 -> StronglySorted flt l2 -> Permutation l1 l2 -> l1 = l2.
Proof.
  induction l1 as [|a l1 IH]; intros l2 S1 S2 Hp.
  - apply Permutation_nil in Hp. auto.
  - destruct l2 as [|b l2]; [symmetry in Hp; apply Permutation_nil in Hp; discriminate|].
    inversion S1 as [|? ? S1' F1]; inversion S2 as [|? ? S2' F2]; subst.
    assert (a = b) as ->.
    { assert (In a (b :: l2)) as Ia by (eapply Permutation_in; [exact Hp|simpl; auto]).
      assert (In b (a :: l1)) as Ib by (eapply Permutation_in; [symmetry; exact Hp|simpl; auto]).
      destruct Ia as [|Ia]; auto. destruct Ib as [|Ib]; auto.
      rewrite Forall_forall in F1, F2. pose proof (F1 _ Ib). pose proof (F2 _ Ia). unfold flt in *. lra. }
    f_equal. apply IH; auto. eapply Permutation_cons_inv; eauto.
Qed.

(* whatever permutation a correct sort w.r.t. `<` returns (std::sort: "sorted", unspecified among
   equivalent elements), on a tie-free list it is the list computed by the model's insertion sort *)
Lemma sorted_perm_is_isort_lemma l l' :
  no_ties l -> Permutation l' l -> StronglySorted fle l' -> l' = isort QO l.
Proof.
  intros NT Hp S. apply strict_sorted_perm_unique.
  - apply sorted_strict; auto. eapply no_ties_perm; [symmetry; exact Hp|auto].
  - apply sorted_strict; [|apply isort_sorted]. eapply no_ties_perm; [symmetry; apply isort_perm|auto].
  - rewrite Hp. symmetry. apply isort_perm.
Qed.
End SortUnique.

End QInst.

(* ================================================================ 2. covariance update *)
Section QLin.
Variables (sq ex : Q -> Q) (pw : Q -> Q -> Q).
Notation O := (QO sq ex pw).
Implicit Types u v x p : list Q.
Implicit Types M N C : list (list Q).

Ltac rd := unfold vadd, vsub, vscale, vzero, madd, mscale, mzero, outer, mvec, quad, normsqr in *;
  cbn [dot vadd vsub vscale map2 map mvec quad madd mscale outer repeat vzero mzero nth
                 o_zero o_one o_two o_add o_sub o_mul o_div QO normsqr length] in *.

Ltac vlia := unfold vec, mat in *; lia.

Lemma dot_nil_r u : dot O u [] = 0.
Proof. destruct u; reflexivity. Qed.

Lemma dot_comm u : forall v, dot O u v == dot O v u.
Proof.
  induction u as [|a u IH]; intros [|b v]; rd; try reflexivity.
  rewrite IH. ring.
Qed.

Lemma dot_vadd_l u : forall v x, length u = length v ->
  dot O (vadd O u v) x == dot O u x + dot O v x.
Proof.
  induction u as [|a u IH]; intros [|b v] [|c x] L; rd; try discriminate; try ring.
  rewrite IH by (simpl in L; lia). ring.
Qed.

Lemma dot_vscale_l c u : forall x, dot O (vscale O c u) x == c * dot O u x.
Proof.
  induction u as [|a u IH]; intros [|b x]; rd; try ring.
  rewrite IH. ring.
Qed.

Lemma dot_vzero_l n : forall x, dot O (vzero O n) x == 0.
Proof.
  induction n as [|n IH]; intros [|b x]; rd; try reflexivity.
  rewrite IH. ring.
Qed.

Lemma dot_self_nonneg u : 0 <= dot O u u.
Proof.
  induction u as [|a u IH]; rd; [lra|]. nra.
Qed.

Lemma vsub_self_normsqr u : normsqr O (vsub O u u) == 0.
Proof.
  induction u as [|a u IH]; rd; [reflexivity|].
  rewrite IH. ring.
Qed.

(* bilinear form x'^T M x, quad M x = bil x M x *)
Definition bil x' M x := dot O x' (mvec O M x).
Definition rows_eq M N := Forall2 (fun r s : list Q => length r = length s) M N.
Definition isnn (n : nat) M := length M = n /\ Forall (fun r => length r = n) M.

Lemma rows_eq_of n M : forall N, length M = length N ->
  Forall (fun r => length r = n) M -> Forall (fun r => length r = n) N -> rows_eq M N.
Proof.
  induction M as [|r M IH]; intros [|s N] L F1 F2; simpl in L; try discriminate; constructor.
  - inversion F1; inversion F2; subst; lia.
  - inversion F1; inversion F2; subst. apply IH; auto.
Qed.

Lemma isnn_rows_eq n M N : isnn n M -> isnn n N -> rows_eq M N.
Proof. intros [L1 F1] [L2 F2]. apply (rows_eq_of n); auto. lia. Qed.

(* ---- shapes *)
Lemma map2_length {X Y Z} (f : X -> Y -> Z) l1 : forall l2, length l1 = length l2 -> length (map2 f l1 l2) = length l1.
Proof. induction l1; intros [|b l2] L; simpl in *; try discriminate; auto. Qed.

Lemma isnn_mscale n c M : isnn n M -> isnn n (mscale O c M).
Proof.
  intros [L F]. split; [unfold mscale; rewrite map_length; auto|].
  unfold mscale. rewrite Forall_map. eapply Forall_impl; [|exact F]. intros r Hr. unfold vscale. rewrite map_length. auto.
Qed.

Lemma isnn_madd n M : forall N, isnn n M -> isnn n N -> isnn n (madd O M N).
Proof.
  intros N [L1 F1] [L2 F2]. split; [unfold madd; rewrite map2_length; vlia|].
  clear L1 L2. revert N F2. induction F1 as [|r M Hr F1 IH]; intros [|s N] F2; cbn [madd map2]; constructor.
  - inversion F2; subst. unfold vadd. rewrite map2_length; vlia.
  - inversion F2; subst. apply IH; auto.
Qed.

Lemma isnn_outer n u : length u = n -> isnn n (outer O u u).
Proof.
  intros L. split; [unfold outer; rewrite map_length; auto|].
  unfold outer. rewrite Forall_map. apply Forall_forall. intros a _. rewrite map_length. auto.
Qed.

Lemma isnn_mzero n : isnn n (mzero O n).
Proof.
  split; [unfold mzero; apply repeat_length|].
  unfold mzero. apply Forall_forall. intros r Hr. apply repeat_spec in Hr. subst. unfold vzero. apply repeat_length.
Qed.

Lemma isnn_rankmu n ws : forall ys, Forall (fun y => length y = n) ys -> isnn n (rankmu O n ws ys).
Proof.
  induction ws as [|w ws IH]; intros [|y ys] F; cbn [rankmu]; try apply isnn_mzero.
  inversion F; subst. apply isnn_madd; [apply isnn_mscale, isnn_outer; auto|apply IH; auto].
Qed.

(* ---- bilinear form *)
Lemma bil_madd x' M N : rows_eq M N -> forall x,
  bil x' (madd O M N) x == bil x' M x + bil x' N x.
Proof.
  intros R x. revert x'. induction R as [|r s M N L R IH]; intros [|a x']; unfold bil in *; rd; try ring.
  rewrite dot_vadd_l by exact L. rd. rewrite IH. ring.
Qed.

Lemma bil_mscale x' c M x : bil x' (mscale O c M) x == c * bil x' M x.
Proof.
  revert x'. induction M as [|r M IH]; intros [|a x']; unfold bil in *; rd; try ring.
  rewrite (dot_vscale_l c r x). rd. rewrite IH. ring.
Qed.

Lemma bil_outer u v x : forall x', bil x' (outer O u v) x == dot O x' u * dot O v x.
Proof.
  induction u as [|a u IH]; intros [|b x']; unfold bil in *; rd; try ring.
  rewrite (dot_vscale_l a v x). rd. rewrite IH. ring.
Qed.

Lemma bil_zero_rows n k x : forall x', bil x' (repeat (vzero O n) k) x == 0.
Proof.
  induction k as [|k IH]; intros [|b x']; unfold bil in *; rd; try ring.
  rewrite (dot_vzero_l n x). rd. rewrite IH. ring.
Qed.

(* sum_i w_i * g(y_i) *)
Fixpoint wsum (ws : list Q) (ys : list (list Q)) (g : list Q -> Q) : Q :=
  match ws, ys with
  | w :: wt, y :: yt => w * g y + wsum wt yt g
  | _, _ => 0
  end.

Lemma wsum_nonneg ws : forall ys g, Forall (fun w => 0 <= w) ws -> (forall y, 0 <= g y) -> 0 <= wsum ws ys g.
Proof.
  induction ws as [|w ws IH]; intros [|y ys] g F G; cbn [wsum]; try lra.
  inversion F; subst. pose proof (IH ys g H2 G). pose proof (G y). nra.
Qed.

Lemma bil_rankmu n x' x ws : forall ys, Forall (fun y => length y = n) ys ->
  bil x' (rankmu O n ws ys) x == wsum ws ys (fun y => dot O x' y * dot O y x).
Proof.
  induction ws as [|w ws IH]; intros [|y ys] F; cbn [rankmu wsum]; try apply bil_zero_rows.
  inversion F; subst.
  rewrite bil_madd by (apply (isnn_rows_eq (length y)); [apply isnn_mscale, isnn_outer; auto|apply isnn_rankmu; auto]).
  rewrite bil_mscale, bil_outer, IH by auto. ring.
Qed.

(* x^T C' x, the identity of DESIGN.md C11 (with the hsig term delta*C and the factor s = cMu/sigma^2) *)
Lemma cov_update_quad_lemma n c1 cmu delta s C p ws ys x :
  isnn n C -> length p = n -> Forall (fun y => length y = n) ys ->
  quad O (cov_update O n c1 cmu delta s C p ws ys) x ==
    (1 - c1 - cmu) * quad O C x + c1 * (dot O p x * dot O p x + delta * quad O C x)
    + s * wsum ws ys (fun y => dot O y x * dot O y x).
Proof.
  intros HC Hp Hy. change (quad O) with (fun M x => bil x M x). cbv beta. unfold cov_update.
  assert (isnn n (outer O p p)) as Ho by (apply isnn_outer; auto).
  assert (isnn n (rankmu O n ws ys)) as Hr by (apply isnn_rankmu; auto).
  rewrite bil_madd.
  2:{ apply (isnn_rows_eq n); [apply isnn_madd; apply isnn_mscale; auto; apply isnn_madd; auto; apply isnn_mscale; auto
                              |apply isnn_mscale; auto]. }
  rewrite bil_madd.
  2:{ apply (isnn_rows_eq n); apply isnn_mscale; auto. apply isnn_madd; auto. apply isnn_mscale; auto. }
  rewrite !bil_mscale.
  rewrite bil_madd by (apply (isnn_rows_eq n); auto; apply isnn_mscale; auto).
  rewrite bil_mscale, bil_outer, (bil_rankmu n) by auto.
  rewrite (dot_comm x p).
  assert (wsum ws ys (fun y => dot O x y * dot O y x) == wsum ws ys (fun y => dot O y x * dot O y x)) as ->.
  { clear. revert ys. induction ws as [|w ws IH]; intros [|y ys]; cbn [wsum]; try reflexivity.
    rewrite IH, (dot_comm x y). reflexivity. }
  cbn [o_sub o_one QO]. ring.
Qed.

Definition nonzero x := ~ Forall (fun a => a == 0) x.
Definition posdef n C := forall x, length x = n -> nonzero x -> 0 < quad O C x.

Lemma cov_update_pd_lemma n c1 cmu delta s C p ws ys :
  isnn n C -> length p = n -> Forall (fun y => length y = n) ys ->
  posdef n C -> 0 <= c1 -> 0 <= cmu -> c1 + cmu < 1 -> 0 <= delta -> 0 <= s ->
  Forall (fun w => 0 <= w) ws ->
  posdef n (cov_update O n c1 cmu delta s C p ws ys).
Proof.
  intros HC Hp Hy PD H1 Hm H1m Hd Hs Hw x Lx Nx.
  rewrite (cov_update_quad_lemma n) by auto.
  pose proof (PD x Lx Nx) as Ha.
  assert (0 <= wsum ws ys (fun y => dot O y x * dot O y x)) as HW
    by (apply wsum_nonneg; auto; intros; nra).
  set (a := quad O C x) in *. set (W := wsum ws ys _) in *. set (b := dot O p x).
  assert (0 < (1 - c1 - cmu) * a) by (apply Qmult_lt_0_compat; lra).
  assert (0 <= c1 * (b * b + delta * a)) by (apply Qmult_le_0_compat; nra).
  assert (0 <= s * W) by (apply Qmult_le_0_compat; auto).
  lra.
Qed.

(* ---- symmetry *)
Definition msym M := forall i j, mget O M i j == mget O M j i.

Lemma nth_vadd u : forall v j, length u = length v ->
  nth j (vadd O u v) 0 == nth j u 0 + nth j v 0.
Proof.
  induction u as [|a u IH]; intros [|b v] [|j] L; rd; try discriminate; try ring.
  apply IH. simpl in L; vlia.
Qed.

Lemma nth_vscale c u : forall j, nth j (vscale O c u) 0 == c * nth j u 0.
Proof. induction u as [|a u IH]; intros [|j]; rd; try ring. apply IH. Qed.

Lemma nth_vzero n : forall j, nth j (vzero O n) 0 == 0.
Proof. induction n as [|n IH]; intros [|j]; rd; try reflexivity. apply IH. Qed.

Lemma mget_nil i j : mget O [] i j = 0.
Proof. unfold mget. destruct i; destruct j; reflexivity. Qed.

Lemma mget_madd M N : rows_eq M N -> forall i j, mget O (madd O M N) i j == mget O M i j + mget O N i j.
Proof.
  induction 1 as [|r s M N L R IH]; intros i j.
  - unfold mget; destruct i, j; cbn [madd map2 nth o_zero QO]; ring.
  - destruct i as [|i]; unfold mget in *; cbn [madd map2 nth].
    + apply nth_vadd; auto.
    + apply IH.
Qed.

Lemma mget_mscale c M : forall i j, mget O (mscale O c M) i j == c * mget O M i j.
Proof.
  induction M as [|r M IH]; intros i j.
  - unfold mget; destruct i, j; cbn [mscale map nth o_zero QO]; ring.
  - destruct i as [|i]; unfold mget in *; cbn [mscale map nth].
    + apply nth_vscale.
    + apply IH.
Qed.

Lemma mget_outer u v : forall i j, mget O (outer O u v) i j == nth i u 0 * nth j v 0.
Proof.
  induction u as [|a u IH]; intros i j.
  - unfold mget; destruct i, j; cbn [outer map nth o_zero QO]; ring.
  - destruct i as [|i]; unfold mget in *; cbn [outer map nth].
    + apply (nth_vscale a v j).
    + apply IH.
Qed.

Lemma mget_zero_rows n k : forall i j, mget O (repeat (vzero O n) k) i j == 0.
Proof.
  induction k as [|k IH]; intros i j; cbn [repeat].
  - unfold mget; destruct i, j; cbn [nth o_zero QO]; reflexivity.
  - destruct i as [|i]; unfold mget in *; cbn [nth]; [apply nth_vzero|apply IH].
Qed.

Lemma msym_rankmu n ws : forall ys, Forall (fun y => length y = n) ys -> msym (rankmu O n ws ys).
Proof.
  induction ws as [|w ws IH]; intros [|y ys] F i j; cbn [rankmu]; unfold mzero;
    try (rewrite !mget_zero_rows; reflexivity).
  inversion F; subst.
  rewrite !mget_madd by (apply (isnn_rows_eq (length y)); [apply isnn_mscale, isnn_outer; auto|apply isnn_rankmu; auto]).
  rewrite !mget_mscale, !mget_outer, (IH ys H2 i j). ring.
Qed.

Lemma cov_update_sym_lemma n c1 cmu delta s C p ws ys :
  isnn n C -> length p = n -> Forall (fun y => length y = n) ys ->
  msym C -> msym (cov_update O n c1 cmu delta s C p ws ys).
Proof.
  intros HC Hp Hy S i j. unfold cov_update.
  assert (isnn n (outer O p p)) as Ho by (apply isnn_outer; auto).
  assert (isnn n (rankmu O n ws ys)) as Hr by (apply isnn_rankmu; auto).
  assert (forall i j, mget O (madd O (outer O p p) (mscale O delta C)) i j ==
                      nth i p 0 * nth j p 0 + delta * mget O C i j) as E1.
  { intros. rewrite mget_madd by (apply (isnn_rows_eq n); auto; apply isnn_mscale; auto).
    rewrite mget_mscale, mget_outer. reflexivity. }
  assert (forall A B D i j, isnn n A -> isnn n B -> isnn n D ->
            mget O (madd O (madd O A B) D) i j == mget O A i j + mget O B i j + mget O D i j) as E2.
  { intros. rewrite mget_madd by (apply (isnn_rows_eq n); auto; apply isnn_madd; auto).
    rewrite mget_madd by (apply (isnn_rows_eq n); auto). reflexivity. }
  rewrite !E2 by (repeat first [apply isnn_mscale | apply isnn_madd | assumption]).
  rewrite !mget_mscale, !E1, (S i j), (msym_rankmu n ws ys Hy i j). ring.
Qed.

(* ---- step size *)
Lemma sigma_update_pos_lemma sigma arg : (forall t, 0 < ex t) -> 0 < sigma -> 0 < sigma_update O sigma arg.
Proof. intros E S. unfold sigma_update. cbn [o_mul o_exp QO]. apply Qmult_lt_0_compat; auto. Qed.

End QLin.

(* ================================================================ 3. elitist acceptance, penalised evaluation *)
Section QElitist.
Variables (sq ex : Q -> Q) (pw : Q -> Q -> Q).
Notation O := (QO sq ex pw).
Variable P : Type.
Implicit Types s : est Q P.

(* the ancestral window is non-empty and its newest entry (the fitness of the kept individual) is its minimum *)
Definition anc_ok (anc : list Q) := anc <> [] /\ forall a, In a anc -> last anc 0 <= a.

Lemma last_snoc (l : list Q) a d : last (l ++ [a]) d = a.
Proof. induction l as [|b l IH]; auto. cbn [app last]. destruct (l ++ [a]) eqn:E; [destruct l; discriminate|exact IH]. Qed.

Lemma hd_in (l : list Q) d : l <> [] -> In (hd d l) l.
Proof. destruct l; [congruence|simpl; auto]. Qed.

Lemma classify_successful active anc f :
  anc_ok anc -> (classify O active anc f = Successful <-> f < last anc 0).
Proof.
  intros [Ne Min]. unfold classify. cbn [o_ltb o_zero QO].
  destruct (Qltb f (last anc 0)) eqn:E1.
  - apply Qltb_spec in E1. pose proof (Min _ (hd_in anc 0 Ne)) as Hh.
    destruct (Qltb (hd 0 anc) f) eqn:E2; [apply Qltb_spec in E2; lra|].
    rewrite andb_false_r. tauto.
  - apply Qltb_false in E1. destruct (active && Qltb (hd 0 anc) f); split; intro H; try discriminate; lra.
Qed.

Lemma elitist_step_cases active s (o : P * Q * Q) : anc_ok (e_anc s) ->
  let '(x, unp, pen) := o in
  (pen < last (e_anc s) 0 /\ elitist_step O active s o = mkEst x unp (tl (e_anc s) ++ [pen])) \/
  (last (e_anc s) 0 <= pen /\ elitist_step O active s o = s).
Proof.
  destruct o as [[x unp] pen]. intros H. unfold elitist_step.
  pose proof (classify_successful active (e_anc s) pen H) as C.
  destruct (classify O active (e_anc s) pen) eqn:E.
  - left. split; auto. apply C; auto.
  - right. split; auto. destruct (Qlt_le_dec pen (last (e_anc s) 0)) as [L|L]; auto. apply C in L. discriminate.
  - right. split; auto. destruct (Qlt_le_dec pen (last (e_anc s) 0)) as [L|L]; auto. apply C in L. discriminate.
Qed.

Lemma elitist_step_ok active s o : anc_ok (e_anc s) -> anc_ok (e_anc (elitist_step O active s o)).
Proof.
  intros H. pose proof (elitist_step_cases active s o H) as Cs. destruct o as [[x unp] pen].
  destruct Cs as [[L ->]|[L ->]]; auto. cbn [e_anc]. split.
  - destruct (tl (e_anc s)); discriminate.
  - intros a Ha. rewrite last_snoc. apply in_app_or in Ha. destruct Ha as [Ha|[<-|[]]]; [|lra].
    destruct H as [Ne Min]. assert (In a (e_anc s)) by (destruct (e_anc s); simpl in *; auto). pose proof (Min a H). lra.
Qed.

Lemma elitist_run_ok active os : forall s, anc_ok (e_anc s) -> anc_ok (e_anc (elitist_run O active s os)).
Proof.
  induction os as [|o os IH]; intros s H; cbn [elitist_run fold_left]; auto.
  apply IH. apply elitist_step_ok. exact H.
Qed.

(* over every history of offspring: the (penalised) fitness of the kept individual never increases *)
Lemma elitist_never_worse_lemma active s0 os o : anc_ok (e_anc s0) ->
  last (e_anc (elitist_run O active s0 (os ++ [o]))) 0 <= last (e_anc (elitist_run O active s0 os)) 0.
Proof.
  intros H. unfold elitist_run. rewrite fold_left_app. cbn [fold_left].
  fold (elitist_run O active s0 os). set (s := elitist_run O active s0 os).
  assert (anc_ok (e_anc s)) as Hs by (apply elitist_run_ok; auto).
  pose proof (elitist_step_cases active s o Hs) as Cs. destruct o as [[x unp] pen].
  destruct Cs as [[L ->]|[L ->]]; [|lra]. cbn [e_anc]. rewrite last_snoc. lra.
Qed.

(* when penalised = unpenalised for every evaluated individual (unconstrained objective, or every
   point feasible) the REPORTED value is that fitness, hence never gets worse either *)
Definition unconstrained (os : list (P * Q * Q)) := Forall (fun o => snd (fst o) = snd o) os.

Lemma reported_is_last active os : forall s, anc_ok (e_anc s) -> unconstrained os ->
  e_value s = last (e_anc s) 0 ->
  e_value (elitist_run O active s os) = last (e_anc (elitist_run O active s os)) 0.
Proof.
  induction os as [|o os IH]; intros s H U E; cbn [elitist_run fold_left]; auto.
  inversion U as [|? ? Uo U']; subst. apply IH; auto; [apply elitist_step_ok; auto|].
  pose proof (elitist_step_cases active s o H) as Cs. destruct o as [[x unp] pen]. cbn [fst snd] in Uo. subst.
  destruct Cs as [[L ->]|[L ->]]; auto. cbn [e_value e_anc]. rewrite last_snoc. reflexivity.
Qed.

Lemma elitist_reported_never_worse_lemma active s0 os o : anc_ok (e_anc s0) ->
  unconstrained (os ++ [o]) -> e_value s0 = last (e_anc s0) 0 ->
  e_value (elitist_run O active s0 (os ++ [o])) <= e_value (elitist_run O active s0 os).
Proof.
  intros H U E. rewrite !reported_is_last; auto.
  - apply elitist_never_worse_lemma; auto.
  - unfold unconstrained in *. apply Forall_app in U. tauto.
Qed.

(* the reported (point, value) pair is always one of the evaluated pairs *)
Lemma elitist_reports_evaluated active os : forall s,
  In (e_point s, e_value s) ((e_point s, e_value s) :: map fst os) ->
  In (e_point (elitist_run O active s os), e_value (elitist_run O active s os))
     ((e_point s, e_value s) :: map fst os).
Proof.
  induction os as [|o os IH]; intros s _; cbn [elitist_run fold_left map]; [left; auto|].
  fold (elitist_run O active (elitist_step O active s o) os).
  destruct o as [[x unp] pen]. unfold elitist_step.
  destruct (classify O active (e_anc s) pen).
  - set (s' := mkEst x unp _). specialize (IH s' (or_introl eq_refl)). cbn [e_point e_value s' fst] in *.
    destruct IH as [IH|IH]; [right; left; exact IH|right; right; exact IH].
  - specialize (IH s (or_introl eq_refl)). destruct IH as [IH|IH]; [left; exact IH|right; right; exact IH].
  - specialize (IH s (or_introl eq_refl)). destruct IH as [IH|IH]; [left; exact IH|right; right; exact IH].
Qed.

(* ---- PenalizingEvaluator *)
Lemma penalized_eval_lemma (f : list Q -> Q) feasible closest penalty x :
  let r := penalized_eval O f feasible closest penalty x in
  (feasible x = true  -> fst r = f x /\ snd r == f x) /\
  (feasible x = false -> fst r = f (closest x) /\
                         snd r = f (closest x) + penalty * normsqr O (vsub O (closest x) x)) /\
  (0 <= penalty -> fst r <= snd r).
Proof.
  unfold penalized_eval. cbn zeta. split; [|split].
  - intros ->. cbn [fst snd o_add o_mul QO]. split; auto.
    rewrite (vsub_self_normsqr sq ex pw x). ring.
  - intros ->. cbn [fst snd o_add o_mul QO]. split; auto.
  - intros Hp. cbn [fst snd o_add o_mul QO]. set (d := vsub O _ x).
    pose proof (dot_self_nonneg sq ex pw d). unfold normsqr. nra.
Qed.
End QElitist.

(* ================================================================ 4. CMA::updatePopulation as coded keeps C symmetric positive definite *)
Section QCma.
Variables (sq ex : Q -> Q) (pw : Q -> Q -> Q).
Notation O := (QO sq ex pw).

Lemma vadd_length (u v : list Q) : length u = length v -> length (vadd O u v) = length u.
Proof. intros. unfold vadd. apply map2_length. auto. Qed.
Lemma vsub_length (u v : list Q) : length u = length v -> length (vsub O u v) = length u.
Proof. intros. unfold vsub. apply map2_length. auto. Qed.
Lemma vscale_length c (u : list Q) : length (vscale O c u) = length u.
Proof. unfold vscale. apply map_length. Qed.

Lemma recombine_length n ws : forall xs, Forall (fun x : list Q => length x = n) xs -> length (recombine O n ws xs) = n.
Proof.
  induction ws as [|w ws IH]; intros [|x xs] F; cbn [recombine]; try (unfold vzero; apply repeat_length).
  inversion F; subst. rewrite vadd_length; rewrite vscale_length; auto. rewrite IH; auto.
Qed.

Lemma select_Forall (P : Type) (R : Q * P -> Prop) mu l : Forall R l -> Forall R (select O mu l).
Proof.
  intros F. unfold select.
  assert (Forall R (isort O l)) as G by (eapply Permutation_Forall; [symmetry; apply isort_perm|exact F]).
  rewrite <- (firstn_skipn mu (isort O l)) in G. apply Forall_app in G. tauto.
Qed.

Definition consts_ok (k : cma_consts Q) :=
  0 <= k_c1 k /\ 0 <= k_cMu k /\ k_c1 k + k_cMu k < 1 /\ 0 <= k_cC k /\ k_cC k <= 2.

Lemma cma_update_keeps_spd_lemma (k : cma_consts Q) n mu ws B st offspring :
  consts_ok k -> Forall (fun w => 0 <= w) ws ->
  isnn n (s_C st) -> msym sq ex pw (s_C st) -> posdef sq ex pw n (s_C st) ->
  length (s_mean st) = n -> length (s_pc st) = n ->
  Forall (fun i : Q * (list Q * list Q) => length (fst (snd i)) = n) offspring ->
  let st' := cma_update O k n mu ws B st offspring in
  isnn n (s_C st') /\ msym sq ex pw (s_C st') /\ posdef sq ex pw n (s_C st').
Proof.
  intros (H1 & Hm & H1m & Hc0 & Hc2) Hw HC HS HP Lm Lp Fo. unfold cma_update. cbn zeta. cbn [s_C].
  set (sel := select O mu offspring).
  assert (Forall (fun i : Q * (list Q * list Q) => length (fst (snd i)) = n) sel) as Fs by (apply select_Forall; auto).
  set (xs := map (fun i => fst (snd i)) sel).
  assert (Forall (fun x : list Q => length x = n) xs) as Fx.
  { unfold xs. rewrite Forall_map. exact Fs. }
  set (ds := map (fun x => vsub O x (s_mean st)) xs).
  assert (Forall (fun y : list Q => length y = n) ds) as Fd.
  { unfold ds. rewrite Forall_map. eapply Forall_impl; [|exact Fx]. cbv beta. intros x Hx. rewrite vsub_length; lia. }
  set (pc := vadd O _ _).
  assert (length pc = n) as Lpc.
  { unfold pc. rewrite vadd_length; rewrite !vscale_length; auto.
    rewrite vsub_length; rewrite recombine_length; auto. }
  set (delta := o_mul O (o_mul O _ (k_cC k)) _).
  assert (0 <= delta) as Hd.
  { unfold delta. cbn [o_mul o_sub o_one o_two o_zero QO].
    destruct (hsig O k n (s_ps st) (S (s_counter st))); nra. }
  set (s := o_div O _ _).
  assert (0 <= s) as Hs.
  { unfold s. cbn [o_div o_mul o_one QO]. unfold Qdiv. apply Qmult_le_0_compat; [lra|].
    apply Qinv_le_0_compat. nra. }
  split; [|split].
  - unfold cov_update. repeat first [apply isnn_madd | apply isnn_mscale | apply isnn_outer | apply isnn_rankmu | assumption].
  - apply cov_update_sym_lemma; auto.
  - apply cov_update_pd_lemma; auto.
Qed.
End QCma.
