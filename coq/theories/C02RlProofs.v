(* C02 — the blocked Cholesky recursion with right-looking diagonal-block kernel (C02RlModel.potrf_rec_rl): a successful run
   satisfies the column recurrence of the Cholesky factor, hence L L^T = A on the lower triangle when the square root is exact
   on the pivots (stated on the returned factor: pivot j = A(j,j) - sum_{t<j} L(j,t)^2). *)
From Coq Require Import List Arith Bool Lia Field.
From SharkV Require Import C02Model C02Proofs C02BlkModel C02LUProofs C02CholBlkProofs C02RlModel.
Import ListNotations.

Section RlProofs.
Variable A : Type.
Variable F : ops A.
Notation "0" := (fzero F) : F_scope.
Notation "1" := (fone F) : F_scope.
Infix "+" := (fadd F) : F_scope.
Infix "*" := (fmul F) : F_scope.
Infix "-" := (fsub F) : F_scope.
Infix "/" := (fdiv F) : F_scope.
Notation "- x" := (fopp F x) : F_scope.
Hypothesis Fth : field_theory (fzero F) (fone F) (fadd F) (fmul F) (fsub F) (fopp F) (fdiv F) (finv F) (@eq A).
Hypothesis feqb_spec : forall x y, feqb F x y = true <-> x = y.
Add Field FfieldRl : Fth.
Local Open Scope F_scope.
Notation vec := (vec A).
Notation mat := (mat A).
Notation sumr := (sumr A F).
Notation memo2_eq := (memo2_eq A F).
Notation sumr_ext := (sumr_ext A F).
Notation sumr_split := (sumr_split A F Fth).
Notation sumr_S := (sumr_S A F).
Notation sumr_empty := (sumr_empty A F).

Definition tst (p : A) : bool := fltb F p 0.

(* the column recurrence on the window [s,e), columns s .. s+k-1, with the acceptance test of the right-looking kernel and
   the fact that every pivot that is divided by is non-zero *)
Definition cpart (s e k : nat) (X Y : mat) : Prop :=
  (forall j, (s <= j < s + k)%nat ->
     tst (X j j - sumr s j (fun t => Y j t * Y j t)) = false /\
     Y j j = fsqrt F (X j j - sumr s j (fun t => Y j t * Y j t))) /\
  (forall j i, (s <= j < s + k)%nat -> (j < i < e)%nat ->
     Y i j = (X i j - sumr s j (fun t => Y i t * Y j t)) / Y j j) /\
  (forall i c, ~ ((s <= c < s + k)%nat /\ (c <= i < e)%nat) -> Y i c = X i c) /\
  (forall j, (s <= j < s + k)%nat -> (S j < e)%nat -> Y j j <> 0).

(* invariant of the right-looking kernel after k steps: the recurrence for the finished columns, the trailing lower
   triangle of the window carries the rank-one updates, everything else untouched *)
Definition rl_inv (s e k : nat) (X Y : mat) : Prop :=
  (forall j, (s <= j < s + k)%nat ->
     tst (X j j - sumr s j (fun t => Y j t * Y j t)) = false /\
     Y j j = fsqrt F (X j j - sumr s j (fun t => Y j t * Y j t))) /\
  (forall j i, (s <= j < s + k)%nat -> (j < i < e)%nat ->
     Y i j = (X i j - sumr s j (fun t => Y i t * Y j t)) / Y j j) /\
  (forall c r, (s + k <= c)%nat -> (c <= r < e)%nat -> Y r c = X r c - sumr s (s + k) (fun t => Y r t * Y c t)) /\
  (forall i c, ~ ((s <= c)%nat /\ (c <= i < e)%nat) -> Y i c = X i c) /\
  (forall j, (s <= j < s + k)%nat -> (S j < e)%nat -> Y j j <> 0).

Lemma potrf_w_rl_inv : forall n s e k (X Y : mat), (s + k <= e)%nat ->
  potrf_w_rl A F n s e k X = POk A Y -> rl_inv s e k X Y.
Proof.
  intros n s e k X. induction k; intros Y Hk H; cbn [potrf_w_rl] in H.
  - inversion H; subst. unfold rl_inv. rewrite Nat.add_0_r. repeat split; intros; try lia; try reflexivity.
    rewrite sumr_empty by lia. ring.
  - destruct (potrf_w_rl A F n s e k X) as [Y0| |] eqn:E; try discriminate.
    specialize (IHk Y0 ltac:(lia) eq_refl). destruct IHk as (I1 & I2 & I3 & I4 & I5).
    set (i := (s + k)%nat) in *. unfold potrf_rl_step in H.
    destruct (fltb F (Y0 i i) 0) eqn:Ea; [discriminate|].
    set (d := fsqrt F (Y0 i i)) in *.
    destruct (feqb F d 0 && Nat.ltb (S i) e) eqn:Ez; [discriminate|].
    assert (Hd0 : (S i < e)%nat -> d <> 0).
    { intros Hlt. apply Nat.ltb_lt in Hlt. rewrite Hlt, andb_true_r in Ez. apply (feqb_false A F feqb_spec) in Ez. exact Ez. }
    inversion H; subst Y; clear H Ez.
    match goal with |- rl_inv _ _ _ _ (memo2 A F n ?f) => set (g := f) end.
    assert (G : forall r c, memo2 A F n g r c = g r c) by (intros; apply memo2_eq).
    set (Y := memo2 A F n g) in *. clearbody Y.
    assert (Yii : Y i i = d) by (rewrite G; unfold g; rewrite !Nat.eqb_refl; reflexivity).
    assert (Ycol : forall r, (i < r < e)%nat -> Y r i = Y0 r i / d).
    { intros r Hr. rewrite G. unfold g. bdall; try lia; reflexivity. }
    assert (Ytr : forall r c, (i < c)%nat -> (c <= r < e)%nat -> Y r c = Y0 r c - (Y0 c i / d) * (Y0 r i / d)).
    { intros r c Hc Hr. rewrite G. unfold g. bdall; try lia; reflexivity. }
    assert (Yoth : forall r c, (c < i \/ r < c \/ e <= r \/ (c = i /\ r < i))%nat -> Y r c = Y0 r c).
    { intros r c Hc. rewrite G. unfold g. bdall; try lia; reflexivity. }
    clear G. clearbody g.
    assert (Hpiv : Y0 i i = X i i - sumr s i (fun t => Y i t * Y i t)).
    { rewrite (I3 i i) by (unfold i; lia). fold i. f_equal. apply sumr_ext. intros t Ht. rewrite !Yoth by lia. reflexivity. }
    unfold rl_inv. replace (s + S k)%nat with (S i) by (unfold i; lia).
    split; [|split; [|split; [|split]]].
    + intros j Hj. destruct (Nat.eq_dec j i) as [->|N].
      * rewrite <- Hpiv. split; [exact Ea|exact Yii].
      * destruct (I1 j ltac:(unfold i in *; lia)) as [P1 P2].
        assert (E1 : sumr s j (fun t => Y j t * Y j t) = sumr s j (fun t => Y0 j t * Y0 j t)).
        { apply sumr_ext. intros t Ht. rewrite !Yoth by lia. reflexivity. }
        rewrite E1. rewrite (Yoth j j) by lia. split; assumption.
    + intros j r Hj Hr. destruct (Nat.eq_dec j i) as [->|N].
      * rewrite Ycol by lia. rewrite Yii. rewrite (I3 i r) by (unfold i; lia). fold i. f_equal. f_equal.
        apply sumr_ext. intros t Ht. rewrite !Yoth by lia. reflexivity.
      * rewrite (Yoth r j) by lia. rewrite (Yoth j j) by lia. rewrite (I2 j r) by (unfold i in *; lia).
        f_equal. f_equal. apply sumr_ext. intros t Ht. rewrite !Yoth by lia. reflexivity.
    + intros c r Hc Hr. rewrite Ytr by lia. rewrite (I3 c r) by (unfold i in *; lia). fold i.
      rewrite (sumr_S s i) by (unfold i; lia). rewrite (Ycol r) by lia. rewrite (Ycol c) by lia.
      rewrite (sumr_ext s i (fun t => Y r t * Y c t) (fun t => Y0 r t * Y0 c t)) by (intros t Ht; rewrite !Yoth by lia; reflexivity).
      ring.
    + intros r c Hc. rewrite Yoth. { apply I4. exact Hc. }
      destruct (Nat.lt_ge_cases c i); [lia|]. destruct (Nat.lt_ge_cases r c); [lia|]. destruct (Nat.le_gt_cases e r); [lia|].
      exfalso. apply Hc. unfold i in *. lia.
    + intros j Hj Hlt. destruct (Nat.eq_dec j i) as [->|N]; [rewrite Yii; apply Hd0; exact Hlt|].
      rewrite (Yoth j j) by lia. apply I5; [unfold i in *; lia|exact Hlt].
Qed.

Lemma potrf_w_rl_spec : forall n s len (X Y : mat),
  potrf_w_rl A F n s (s + len) len X = POk A Y -> cpart s (s + len) len X Y.
Proof.
  intros n s len X Y H. apply potrf_w_rl_inv in H; [|lia]. destruct H as (I1 & I2 & I3 & I4 & I5).
  split; [exact I1|]. split; [exact I2|]. split; [|exact I5].
  intros i c Hc. apply I4. intros [H1 H2]. apply Hc. lia.
Qed.

(* ---------- the blocked recursion satisfies the recurrence (as C02CholBlkProofs.potrf_rec_spec, other leaf) ---------- *)
Lemma potrf_rec_rl_spec : forall bs tbs fuel n s len (X Y : mat), (0 < bs)%nat -> (0 < tbs)%nat ->
  potrf_rec_rl A F bs tbs fuel n s len X = BOk A Y -> cpart s (s + len) len X Y.
Proof.
  intros bs tbs fuel n. induction fuel; intros s len X Y Hb Htb H; cbn [potrf_rec_rl] in H.
  - destruct (Nat.leb len bs); [|discriminate].
    destruct (potrf_w_rl A F n s (s + len) len X) as [L| |] eqn:E; try discriminate. cbn [of_presult] in H. inversion H; subst.
    apply (potrf_w_rl_spec n s len X Y E).
  - destruct (Nat.leb len bs).
    { destruct (potrf_w_rl A F n s (s + len) len X) as [L| |] eqn:E; try discriminate. cbn [of_presult] in H. inversion H; subst.
      apply (potrf_w_rl_spec n s len X Y E). }
    pose proof (split_le bs len Hb) as Hsp.
    set (split := ((len + bs - 1) / bs / 2 * bs)%nat) in *. clearbody split.
    set (m := (s + split)%nat) in *. set (e := (s + len)%nat) in *.
    destruct (potrf_rec_rl A F bs tbs fuel n s split X) as [L1| |] eqn:E1; try discriminate.
    apply IHfuel in E1; [|exact Hb|exact Htb]. fold m in E1. destruct E1 as [A1 [A2 [A3 A4]]].
    match type of H with match map_opt ?f ?l with _ => _ end = _ => destruct (map_opt f l) as [Xs|] eqn:EX; [|discriminate] end.
    apply (map_opt_nth _ _ _ _ _ O (fun _ => 0)) in EX. destruct EX as [_ EX]. rewrite seq_length in EX.
    assert (HX : forall i, (m <= i < e)%nat ->
              win_lower A F false L1 s split (fun j => L1 i j) (nth (i - m) Xs (fun _ => 0)) /\
              forall j, (s <= j < m)%nat -> L1 j j <> 0).
    { intros i Hi. specialize (EX (i - m)%nat ltac:(lia)). rewrite seq_nth in EX by lia.
      replace (m + (i - m))%nat with i in EX by lia. split.
      - eapply (trsv_rec_lower A F Fth feqb_spec); [exact Htb|exact EX].
      - intros j Hj. eapply (trsv_rec_lower_diag A F Fth feqb_spec); [exact Htb|exact EX|unfold m in *; lia]. }
    clear EX.
    match type of H with potrf_rec_rl A F bs tbs fuel n m (len - split) (memo2 A F n ?f3) = _ => set (g3 := f3) in * end.
    match (eval unfold g3 in g3) with context [memo2 A F n ?f2] => set (g2 := f2) in * end.
    assert (G2 : forall i c, memo2 A F n g2 i c = g2 i c) by (intros; apply memo2_eq).
    set (L2 := memo2 A F n g2) in *. clearbody L2.
    assert (G3 : forall i c, memo2 A F n g3 i c = g3 i c) by (intros; apply memo2_eq).
    set (L3 := memo2 A F n g3) in *. clearbody L3.
    apply IHfuel in H; [|exact Hb|exact Htb].
    replace (m + (len - split))%nat with e in H by (unfold m, e; lia).
    destruct H as [B1 [B2 [B3 B4]]].
    assert (L2a : forall i c, (m <= i < e)%nat -> (s <= c < m)%nat -> L2 i c = nth (i - m) Xs (fun _ => 0) c).
    { intros i c Hi Hc. rewrite G2. unfold g2. bdall; try lia; reflexivity. }
    assert (L2b : forall i c, ~ ((m <= i < e)%nat /\ (s <= c < m)%nat) -> L2 i c = L1 i c).
    { intros i c Hc. rewrite G2. unfold g2. bdall; try lia; reflexivity. }
    assert (L3a : forall i c, (m <= c)%nat -> (c <= i < e)%nat -> L3 i c = L2 i c + - (1) * sumr s m (fun t => L2 i t * L2 c t)).
    { intros i c Hc Hi. rewrite G3. unfold g3. bdall; try lia; reflexivity. }
    assert (L3b : forall i c, ~ ((m <= c)%nat /\ (c <= i < e)%nat) -> L3 i c = L2 i c).
    { intros i c Hc. rewrite G3. unfold g3. bdall; try lia; reflexivity. }
    clear G2 G3. clearbody g2 g3.
    (* blocks of the result *)
    assert (K1 : forall i c, (c < m)%nat -> Y i c = L2 i c).
    { intros i c Hc. rewrite B3 by lia. apply L3b. lia. }
    assert (K11 : forall i c, (c < m)%nat -> ~ (m <= i < e)%nat -> Y i c = L1 i c).
    { intros i c Hc Hi. rewrite K1 by lia. apply L2b. lia. }
    assert (K21 : forall i c, (m <= i < e)%nat -> (s <= c < m)%nat -> Y i c = nth (i - m) Xs (fun _ => 0) c).
    { intros i c Hi Hc. rewrite K1 by lia. apply L2a; lia. }
    assert (X21 : forall i j, (m <= i < e)%nat -> (s <= j < m)%nat ->
              Y i j = (X i j - sumr s j (fun t => Y i t * Y j t)) / Y j j).
    { intros i j Hi Hj. destruct (HX i Hi) as [[W _] D]. specialize (W j ltac:(unfold m in *; lia)). cbn beta in W.
      unfold dg in W. specialize (D j Hj).
      rewrite (A3 i j) in W by lia.
      rewrite (K11 j j) by lia. rewrite (K21 i j) by lia.
      assert (E : sumr s j (fun t => Y i t * Y j t) = sumr s j (fun t => L1 j t * nth (i - m) Xs (fun _ => 0) t)).
      { apply sumr_ext. intros t Ht. rewrite (K21 i t) by lia. rewrite (K11 j t) by lia. ring. }
      rewrite E. rewrite <- W. field. exact D. }
    assert (Upd : forall i c, (m <= c)%nat -> (c <= i < e)%nat ->
              L3 i c = X i c + - (1) * sumr s m (fun t => Y i t * Y c t)).
    { intros i c Hc Hi. rewrite L3a by lia. rewrite (L2b i c) by lia. rewrite (A3 i c) by lia.
      f_equal. f_equal. apply sumr_ext. intros t Ht. rewrite (K1 i t) by lia. rewrite (K1 c t) by lia. reflexivity. }
    unfold cpart. fold e.
    split; [|split; [|split]].
    + intros j Hj. destruct (Nat.lt_ge_cases j m) as [Hjm|Hjm].
      * destruct (A1 j ltac:(unfold m in *; lia)) as [P1 P2].
        assert (E : sumr s j (fun t => Y j t * Y j t) = sumr s j (fun t => L1 j t * L1 j t)).
        { apply sumr_ext. intros t Ht. rewrite (K11 j t) by lia. reflexivity. }
        rewrite E. rewrite (K11 j j) by lia. split; assumption.
      * destruct (B1 j ltac:(unfold m, e in *; lia)) as [P1 P2].
        assert (E : X j j - sumr s j (fun t => Y j t * Y j t) = L3 j j - sumr m j (fun t => Y j t * Y j t)).
        { rewrite Upd by lia. rewrite (sumr_split s m j) by (unfold m; lia). ring. }
        rewrite E. split; assumption.
    + intros j i Hj Hi. destruct (Nat.lt_ge_cases j m) as [Hjm|Hjm].
      * destruct (Nat.lt_ge_cases i m) as [Him|Him]; [|apply X21; lia].
        rewrite (K11 i j) by lia. rewrite (K11 j j) by lia. rewrite (A2 j i) by (unfold m in *; lia).
        f_equal. f_equal. apply sumr_ext. intros t Ht. rewrite (K11 i t) by lia. rewrite (K11 j t) by lia. reflexivity.
      * rewrite (B2 j i) by (unfold m, e in *; lia). rewrite Upd by lia.
        f_equal. rewrite (sumr_split s m j) by (unfold m; lia). ring.
    + intros i c Hic.
      destruct (Nat.lt_ge_cases c m) as [Hcm|Hcm].
      * rewrite K1 by lia. rewrite L2b by (unfold m, e in *; lia). apply A3. unfold m, e in *; lia.
      * rewrite B3 by (unfold m, e in *; lia). rewrite L3b by (unfold m, e in *; lia).
        rewrite L2b by lia. apply A3. lia.
    + intros j Hj Hlt. destruct (Nat.lt_ge_cases j m) as [Hjm|Hjm].
      * rewrite (K11 j j) by lia. destruct (Nat.lt_ge_cases (S j) m) as [Hs|Hs]; [apply A4; unfold m in *; lia|].
        destruct (HX m ltac:(lia)) as [_ D]. apply D. lia.
      * apply B4; unfold m, e in *; lia.
Qed.

(* ---------- L L^T = A ---------- *)
Definition rl_sqrt_exact (n : nat) (M L : mat) : Prop :=
  forall j, (j < n)%nat -> let p := M j j - sumr 0 j (fun t => L j t * L j t) in fsqrt F p * fsqrt F p = p.

Theorem potrf_rec_rl_correct : forall bs tbs fuel n (M L : mat), (0 < bs)%nat -> (0 < tbs)%nat ->
  potrf_rec_rl A F bs tbs fuel n 0 n M = BOk A L -> rl_sqrt_exact n M L ->
  (forall i c, (c <= i < n)%nat -> sumr 0 (S c) (fun t => L i t * L c t) = M i c) /\
  (forall c, (S c < n)%nat -> L c c <> 0) /\
  (forall i c, (i < c)%nat -> L i c = M i c) /\
  (forall j, (j < n)%nat -> fltb F (M j j - sumr 0 j (fun t => L j t * L j t)) 0 = false).
Proof.
  intros bs tbs fuel n M L Hb Htb H Hsq. apply potrf_rec_rl_spec in H; [|exact Hb|exact Htb]. cbn [Nat.add] in H.
  destruct H as (C1 & C2 & C3 & C4).
  split; [|split; [|split]].
  - intros i c Hic. rewrite sumr_S by lia. destruct (Nat.eq_dec i c) as [->|N].
    + destruct (C1 c ltac:(lia)) as [_ E]. rewrite E. rewrite (Hsq c ltac:(lia)). ring.
    + rewrite (C2 c i) by lia. field. apply C4; lia.
  - intros c Hc. apply C4; lia.
  - intros i c Hic. apply C3. lia.
  - intros j Hj. apply (C1 j). lia.
Qed.

(* row-major upper: the same recursion on the transposed matrix *)
Theorem potrf_blocked2_upper_row_correct : forall bs tbs n (M U : mat), (0 < bs)%nat -> (0 < tbs)%nat ->
  potrf_blocked2 A F bs tbs true RowMajor n M = BOk A U -> rl_sqrt_exact n (transp A M) (transp A U) ->
  (forall r c, (r <= c < n)%nat -> sumr 0 (S r) (fun t => U t r * U t c) = M r c) /\
  (forall r c, (c < r)%nat -> U r c = M r c).
Proof.
  intros bs tbs n M U Hb Htb H Hsq. unfold potrf_blocked2 in H.
  destruct (potrf_rec_rl A F bs tbs n n 0 n (transp A M)) as [L| |] eqn:E; cbn [transp_b] in H; try discriminate.
  inversion H; subst U. clear H.
  destruct (potrf_rec_rl_correct bs tbs n n (transp A M) L Hb Htb E) as (C1 & _ & C3 & _).
  { intros j Hj. exact (Hsq j Hj). }
  split.
  - intros r c Hrc. change (M r c) with (transp A M c r). rewrite <- (C1 c r) by lia. unfold transp. apply sumr_ext. intros; ring.
  - intros r c Hrc. change (M r c) with (transp A M c r). rewrite <- (C3 c r) by exact Hrc. reflexivity.
Qed.

End RlProofs.
