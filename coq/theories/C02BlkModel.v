(* C02 — blocked Cholesky recursion and pivoted LU (remora): executable model, definitions only.

   Mirrors  /repo/include/shark/LinAlg/BLAS/kernels/default/potrf.hpp  potrf_block(row_major,lower) on a sub-range,
                                                                      potrf_recursive (split, trsm<upper,right>, syrk<false>)
            /repo/include/shark/LinAlg/BLAS/kernels/default/getrf.hpp  getrf_block (pivot search, row swap, column scaling,
                                                                      rank-one update), getrf_recursive, getrf
            /repo/include/shark/LinAlg/BLAS/permutation.hpp            swap_rows, swap_rows_inverted
            /repo/include/shark/LinAlg/BLAS/decompositions.hpp         pivoting_lu_decomposition::solve

   Sub-ranges (subrange(A,start,end,...)) are index windows of the one stored matrix [nat -> nat -> A]; all row and
   column numbers are ABSOLUTE.  The code stores pivot rows relative to the start of the sub-range it works on and
   shifts them when it returns (`p += split-start`); the model keeps the absolute row number throughout, the
   reported permutation (start = 0) is the same vector.
   getrf_block(row_major) copies the panel into column-major storage, runs the column-major kernel and copies back:
   the same arithmetic, so the model has one kernel (both storage orders are compared by tools/c02.py).
   Arithmetic: the record [ops A] of C02Model.v, plus [fabs] (std::abs) for the pivot search. *)
From Coq Require Import List Arith Bool.
From SharkV Require Import C02Model.
Import ListNotations.

Section Blk.
Variable A : Type.
Variable F : ops A.
Variable fabs : A -> A.
Local Notation "0" := (fzero F).
Local Notation "1" := (fone F).
Local Infix "+" := (fadd F).
Local Infix "*" := (fmul F).
Local Infix "-" := (fsub F).
Local Infix "/" := (fdiv F).
Local Notation mat := (mat A).
Local Notation vec := (vec A).
Local Notation sumr := (sumr A F).
Local Notation memo2 := (memo2 A F).
Local Notation memo := (memo A F).

(* ================= kernels/default/potrf.hpp ================= *)
(* potrf_block(row_major, lower) on the window [s,e) x [s,e): column j.  Sums start at the window start s: the
   contributions of the columns before s have already been subtracted by syrk. *)
Definition potrf_w_col (n s e j : nat) (L : mat) : option mat :=
  let p := L j j - sumr s j (fun k => L j k * L j k) in
  if fleb F p 0 then None
  else
    let d := fsqrt F p in
    Some (memo2 n (fun i c => if Nat.eqb c j && Nat.leb j i && Nat.ltb i e
                             then (if Nat.eqb i j then d else (L i j - sumr s j (fun k => L i k * L j k)) / d)
                             else L i c)).
(* k columns s .. s+k-1 done; `return i+1` is the index inside the window *)
Fixpoint potrf_w (n s e k : nat) (M : mat) : presult A :=
  match k with
  | O => POk A M
  | S k' =>
    match potrf_w n s e k' M with
    | POk _ L => match potrf_w_col n s e (Nat.add s k') L with None => PFail A (S k') L | Some L' => POk A L' end
    | r => r
    end
  end.

Inductive bresult :=
| BOk (L : mat)
| BFail (k : nat) (L : mat)    (* return k > 0 (index inside the diagonal block that rejected its pivot) *)
| BExc.                        (* exception out of trsm ("singular") -- or the model ran out of fuel *)

(* potrf_recursive(Afull, start, end, lower);  bs = block_size (32), tbs = Block_Size of trsm (32);
   fuel: any value >= len suffices *)
Fixpoint potrf_rec (bs tbs fuel n s len : nat) (M : mat) : bresult :=
  if Nat.leb len bs then
    match potrf_w n s (Nat.add s len) len M with
    | POk _ L => BOk L | PFail _ k L => BFail k L | PZeroDiv _ _ => BExc end
  else
    match fuel with
    | O => BExc
    | S f =>
      let split := Nat.mul (Nat.div (Nat.div (Nat.sub (Nat.add len bs) 1) bs) 2) bs in
      let m := Nat.add s split in
      let e := Nat.add s len in
      match potrf_rec bs tbs f n s split M with
      | BOk L1 =>
        (* trsm<upper,right>(trans(Aul), All): row i of All becomes the solution x of  Aul x = (row i)^T *)
        match map_opt (fun i => trsv_rec A F tbs n false false L1 n s split (fun j => L1 i j)) (seq m (Nat.sub e m)) with
        | None => BExc
        | Some X =>
          let L2 := memo2 n (fun i c => if Nat.leb m i && Nat.ltb i e && Nat.leb s c && Nat.ltb c m
                                        then nth (Nat.sub i m) X (fun _ => 0) c else L1 i c) in
          (* syrk<false>(All, Alr, -1): lower triangle of Alr only *)
          let L3 := memo2 n (fun i c => if Nat.leb m c && Nat.leb c i && Nat.ltb i e
                                        then L2 i c + fopp F 1 * sumr s m (fun t => L2 i t * L2 c t) else L2 i c) in
          potrf_rec bs tbs f n m (Nat.sub len split) L3
        end
      | r => r
      end
    end.

Definition of_presult (r : presult A) : bresult :=
  match r with POk _ L => BOk L | PFail _ k L => BFail k L | PZeroDiv _ _ => BExc end.
Definition transp_b (r : bresult) : bresult :=
  match r with BOk L => BOk (transp A L) | BFail k L => BFail k (transp A L) | BExc => BExc end.
(* dispatcher potrf<Triangular>(A), every size.  The diagonal blocks are factorised by the left-looking lower kernel
   when (row_major, lower) or (column_major, upper: recursion on trans(A)); in the other two cases potrf_block
   dispatches to the right-looking upper kernel on the transposed block -- those keep the unblocked model
   (same factor in exact arithmetic; compared only). *)
Definition potrf_blocked (bs tbs : nat) (upper : bool) (o : orient) (n : nat) (M : mat) : bresult :=
  match upper, o with
  | false, RowMajor => potrf_rec bs tbs n n 0 n M
  | true, ColMajor => transp_b (potrf_rec bs tbs n n 0 n (transp A M))
  | _, _ => of_presult (potrf A F upper o n M)
  end.

(* ================= permutation.hpp ================= *)
Definition pvec := nat -> nat.
Definition updp (P : pvec) (i v : nat) : pvec := fun k => if Nat.eqb k i then v else P k.
Definition tabp (n : nat) (P : pvec) : list nat := map P (seq 0 n).
(* the transposition (j p) *)
Definition tr (j p i : nat) : nat := if Nat.eqb i j then p else if Nat.eqb i p then j else i.
(* A().swap_rows(j,p) where A has the columns [c0,c1) *)
Definition swap_rows_w (n c0 c1 j p : nat) (M : mat) : mat :=
  memo2 n (fun i c => if Nat.leb c0 c && Nat.ltb c c1 then M (tr j p i) c else M i c).
(* swap_rows(P[s..s+k), A) : for i = s .. s+k-1 : A.swap_rows(i, P(i)) *)
Fixpoint swap_seq (n c0 c1 s k : nat) (P : pvec) (M : mat) : mat :=
  match k with
  | O => M
  | S k' => let i := Nat.add s k' in swap_rows_w n c0 c1 i (P i) (swap_seq n c0 c1 s k' P M)
  end.
(* swap_rows(P, v) : for i = 0 .. k-1 : swap(v(i), v(P(i))) *)
Fixpoint swap_vec (n k : nat) (P : pvec) (b : vec) : vec :=
  match k with
  | O => b
  | S k' => let b' := swap_vec n k' P b in memo n (fun t => b' (tr k' (P k') t))
  end.
(* swap_rows_inverted(P, v) : for i = n-1 .. n-k : swap(v(i), v(P(i))) *)
Fixpoint swap_vec_inv (n k : nat) (P : pvec) (b : vec) : vec :=
  match k with
  | O => b
  | S k' => let b' := swap_vec_inv n k' P b in let i := Nat.sub (Nat.sub n 1) k' in memo n (fun t => b' (tr i (P i) t))
  end.

(* ================= kernels/default/getrf.hpp ================= *)
(* pivot search in column j: rows j+1 .. j+k scanned upwards, a later row wins only if
   std::abs(A(i,j)) > std::abs(pivot_value)  (strictly) *)
Fixpoint pivot_scan (M : mat) (j k : nat) : A * nat :=
  match k with
  | O => (M j j, j)
  | S k' =>
    let (pv, p) := pivot_scan M j k' in
    let i := Nat.add j (S k') in
    if fltb F (fabs pv) (fabs (M i j)) then (M i j, i) else (pv, p)
  end.

Inductive luresult :=
| LUOk (M : mat) (P : pvec)
| LUFail (j : nat) (M : mat)   (* throw "[getrf] Matrix is rank deficient ..." at column j, matrix as left behind *)
| LUExc.                       (* the model ran out of fuel (never, see getrf) / exception out of trsm (never: unit diagonal) *)

(* one column of getrf_block on the window rows [s,n) x columns [s,e) *)
Definition getrf_step (n s e j : nat) (M : mat) (P : pvec) : luresult :=
  let (pv, p) := pivot_scan M j (Nat.sub (Nat.sub n 1) j) in
  if feqb F pv 0 then LUFail j M
  else
    let M1 := swap_rows_w n s e j p M in
    LUOk (memo2 n (fun i c =>
            if Nat.ltb j i && Nat.ltb i n then
              (if Nat.eqb c j then M1 i j / pv
               else if Nat.ltb j c && Nat.ltb c e then M1 i c - (M1 i j / pv) * M1 j c
               else M1 i c)
            else M1 i c))
         (updp P j p).
Fixpoint getrf_block (n s e k : nat) (M : mat) (P : pvec) : luresult :=
  match k with
  | O => LUOk M P
  | S k' =>
    match getrf_block n s e k' M P with
    | LUOk M1 P1 => getrf_step n s e (Nat.add s k') M1 P1
    | r => r
    end
  end.

(* getrf_recursive(A, P, start, end);  bs = block_size (4), tbs = Block_Size of trsm (32) *)
Fixpoint getrf_rec (bs tbs fuel n s len : nat) (M : mat) (P : pvec) : luresult :=
  if Nat.leb len bs then getrf_block n s (Nat.add s len) len M P
  else
    match fuel with
    | O => LUExc
    | S f =>
      let split := Nat.mul (Nat.div (Nat.div (Nat.sub (Nat.add len bs) 1) bs) 2) bs in
      let m := Nat.add s split in
      let e := Nat.add s len in
      match getrf_rec bs tbs f n s split M P with
      | LUOk M1 P1 =>
        (* swap_rows(P1, A_2) *)
        let M2 := swap_seq n m e s split P1 M1 in
        (* trsm<unit_lower,left>(A11, A12), column by column *)
        match map_opt (fun c => trsv_rec A F tbs n false true M2 n s split (fun i => M2 i c)) (seq m (Nat.sub e m)) with
        | None => LUExc
        | Some X =>
          let M3 := memo2 n (fun i c => if Nat.leb s i && Nat.ltb i m && Nat.leb m c && Nat.ltb c e
                                        then nth (Nat.sub c m) X (fun _ => 0) i else M2 i c) in
          (* gemm(A21, A12, A22, -1) *)
          let M4 := memo2 n (fun i c => if Nat.leb m i && Nat.ltb i n && Nat.leb m c && Nat.ltb c e
                                        then M3 i c + fopp F 1 * sumr s m (fun t => M3 i t * M3 t c) else M3 i c) in
          match getrf_rec bs tbs f n m (Nat.sub len split) M4 P1 with
          | LUOk M5 P2 => LUOk (swap_seq n s m m (Nat.sub len split) P2 M5) P2     (* swap_rows(P2, A21) *)
          | r => r
          end
        end
      | r => r
      end
    end.

(* getrf(A,P): P(i) = i, then the recursion on [0,n) *)
Definition getrf (bs tbs n : nat) (M : mat) : luresult := getrf_rec bs tbs n n 0 n M (fun i => i).

(* ================= decompositions.hpp: pivoting_lu_decomposition::solve ================= *)
(* solve(b, left): swap_rows(P,b); trsv<unit_lower,left>; trsv<upper,left> *)
Definition lu_solve (o : orient) (LU : mat) (P : pvec) (n : nat) (b : vec) : option vec :=
  match trsv_left A F false true o LU n (swap_vec n n P b) with
  | None => None
  | Some y => trsv_left A F true false o LU n y
  end.
(* solve(b, right): trsv<upper,right>; trsv<unit_lower,right>; swap_rows_inverted(P,b) *)
Definition lu_solve_right (o : orient) (LU : mat) (P : pvec) (n : nat) (b : vec) : option vec :=
  match trsv A F true false o false LU n b with
  | None => None
  | Some y =>
    match trsv A F false true o false LU n y with
    | None => None
    | Some z => Some (swap_vec_inv n n P z)
    end
  end.
(* solve(A, b, indefinite_full_rank, left) *)
Definition lu_solve_full (bs tbs : nat) (o : orient) (M : mat) (n : nat) (b : vec) : option vec :=
  match getrf bs tbs n M with
  | LUOk LU P => lu_solve o LU P n b
  | _ => None
  end.

End Blk.
