(* C16 — gradientUpdate as coded (sparse row entries through ex.var, the row default through the active part of
   ex.avar, active examples only) subtracts exactly  mu * M(row, p_f) * k(i, example of f)  from the gradient of
   every ACTIVE variable f - given consistent variable / example tables and well-formed rows of m_M. *)
From Coq Require Import QArith Qminmax Lqa Arith Bool List Lia.
From SharkV Require Import C08Model C08Defs C08Aux C08Proofs C16Model C16State C16Proofs C16ProofsMc C16StateDefs.
Import ListNotations.
Open Scope Q_scope.

Ltac qs := cbn [o_zero o_add o_sub o_mul o_div o_ltb o_eqb o_thr o_two o_half o_big o_ten qops] in *.

Lemma updf_eq {B} (f : nat -> B) i v : updf f i v i = v.
Proof. unfold updf. rewrite Nat.eqb_refl. reflexivity. Qed.
Lemma updf_neq {B} (f : nat -> B) i v a : a <> i -> updf f i v a = f a.
Proof. intros H. unfold updf. destruct (Nat.eqb_spec a i); [contradiction|reflexivity]. Qed.

(* ---------------- sparse rows ---------------- *)
Lemma sa_lookup_in : forall (es : list (nat * Q)) def p0 ix v, sorted_from Q p0 es -> In (ix, v) es ->
  sa_lookup es def ix = v.
Proof.
  induction es as [|[i w] t IH]; intros def p0 ix v S I; [destruct I|].
  destruct S as [S1 S2]. cbn [sa_lookup]. destruct I as [E|I].
  - inversion E; subst. rewrite Nat.eqb_refl. reflexivity.
  - destruct (Nat.eqb_spec i ix) as [E|N].
    + subst ix. exfalso.
      assert (G : forall (l : list (nat * Q)) q, sorted_from Q q l -> forall a b, In (a, b) l -> (q <= a)%nat).
      { induction l as [|[a0 b0] l IHl]; intros q Sq a b Ia; [destruct Ia|].
        destruct Sq as [Q1 Q2]. destruct Ia as [Ea|Ia]; [inversion Ea; subst; exact Q1|].
        specialize (IHl (S a0) Q2 a b Ia). lia. }
      specialize (G t (S i) S2 i v I). lia.
    + apply (IH def (S i)); assumption.
Qed.

Lemma sa_lookup_notin : forall (es : list (nat * Q)) def col, (forall ix v, In (ix, v) es -> ix <> col) ->
  sa_lookup es def col = def.
Proof.
  induction es as [|[i w] t IH]; intros def col H; cbn [sa_lookup]; [reflexivity|].
  destruct (Nat.eqb_spec i col) as [E|N].
  - exfalso. apply (H i w); [left; reflexivity | exact E].
  - apply IH. intros ix v I. apply (H ix v). right. exact I.
Qed.

(* ---------------- the two inner loops ---------------- *)
Section Loops.
Variable var : nat -> nat.
Variable f pf : nat.

Lemma gu_entries_other : forall (es : list (nat * Q)) g def mu k,
  (forall ix v, In (ix, v) es -> var ix <> f) ->
  gu_entries qops g var es def mu k f = g f.
Proof.
  induction es as [|[i w] t IH]; intros g def mu k H; cbn [gu_entries]; [reflexivity|].
  rewrite IH by (intros ix v I; apply (H ix v); right; exact I).
  apply updf_neq. intro E. apply (H i w); [left; reflexivity | symmetry; exact E].
Qed.

Lemma gu_entries_at : forall (es : list (nat * Q)) p0 g def mu k,
  sorted_from Q p0 es ->
  (forall ix v, In (ix, v) es -> (var ix = f <-> ix = pf)) ->
  gu_entries qops g var es def mu k f == g f - mu * (sa_lookup es def pf - def) * k.
Proof.
  induction es as [|[i w] t IH]; intros p0 g def mu k S H; cbn [gu_entries sa_lookup].
  - ring.
  - destruct S as [S1 S2].
    assert (Ht : forall ix v, In (ix, v) t -> (var ix = f <-> ix = pf))
      by (intros ix v I; apply (H ix v); right; exact I).
    destruct (Nat.eqb_spec i pf) as [E|N].
    + subst i.
      assert (Vf : var pf = f) by (apply (H pf w); [left; reflexivity | reflexivity]).
      rewrite (gu_entries_other t).
      * rewrite Vf, updf_eq. qs. ring.
      * intros ix v I E. apply (Ht ix v I) in E. subst ix.
        assert (G : forall (l : list (nat * Q)) q, sorted_from Q q l -> forall a b, In (a, b) l -> (q <= a)%nat).
        { induction l as [|[a0 b0] l IHl]; intros q Sq a b Ia; [destruct Ia|].
          destruct Sq as [Q1 Q2]. destruct Ia as [Ea|Ia]; [inversion Ea; subst; exact Q1|].
          specialize (IHl (S a0) Q2 a b Ia). lia. }
        specialize (G t (S pf) S2 pf v I). lia.
    + rewrite (IH (S i) _ def mu k S2 Ht).
      rewrite updf_neq; [reflexivity|].
      intro E. apply N. symmetry in E. apply (H i w) in E; [exact E | left; reflexivity].
Qed.

Variable avar : nat -> nat.
Variable bf : nat.

Lemma gu_avar_other : forall m (g : nat -> Q) upd, (forall b, (b < m)%nat -> avar b <> f) ->
  gu_avar qops g avar upd m f = g f.
Proof.
  induction m as [|m IH]; intros g upd H; cbn [gu_avar]; [reflexivity|].
  rewrite updf_neq by (intro E; apply (H m); [lia | symmetry; exact E]).
  apply IH. intros b Hb. apply H. lia.
Qed.

Lemma gu_avar_at : forall m (g : nat -> Q) upd, (forall b, (b < m)%nat -> (avar b = f <-> b = bf)) ->
  gu_avar qops g avar upd m f == if (bf <? m)%nat then g f - upd else g f.
Proof.
  induction m as [|m IH]; intros g upd H; cbn [gu_avar].
  - destruct (Nat.ltb_spec bf 0); [lia|reflexivity].
  - assert (Hm : forall b, (b < m)%nat -> (avar b = f <-> b = bf)) by (intros b Hb; apply H; lia).
    destruct (Nat.eq_dec m bf) as [E|N].
    + subst bf. assert (Vf : avar m = f) by (apply (H m); [lia|reflexivity]).
      rewrite Vf, updf_eq. qs.
      rewrite (gu_avar_other m g upd).
      * destruct (Nat.ltb_spec m (S m)); [reflexivity|lia].
      * intros b Hb E. apply (Hm b Hb) in E. lia.
    + rewrite updf_neq.
      * rewrite (IH g upd Hm).
        destruct (Nat.ltb_spec bf m), (Nat.ltb_spec bf (S m)); try lia; reflexivity.
      * intro E. symmetry in E. apply (H m) in E; [lia|lia].
Qed.
End Loops.

(* ---------------- one example, all active examples ---------------- *)
Section Grad.
Variable P ncl n : nat.
Variable C : Q.
Variable Mrow : nat -> list (nat * Q).
Variable Mdef : nat -> Q.
Variable K0 : nat -> nat -> Q.
Hypothesis HM : Mwf P Mrow.

Notation Inv_tab := (Inv_tab P n).
Notation nv := (nv P n).

(* an example other than the one of f does not touch f *)
Lemma gu_example_other (s : qmst) g r mu i a f : Inv_tab s -> (a < n)%nat -> (f < nv)%nat -> vex s f <> a ->
  gu_example qops ncl Mrow Mdef K0 s g r mu i a f = g f.
Proof.
  intros I Ha Hf N. unfold gu_example.
  set (row := (ncl * r + ey s a)%nat).
  destruct (HM row) as [Hs Hp].
  assert (E1 : gu_entries qops g (evar s a) (Mrow row) (Mdef row) mu (kpos K0 s i a) f = g f).
  { apply gu_entries_other. intros ix v In1 E.
    destruct (it_var _ _ _ I a ix Ha (Hp ix v In1)) as (_ & X & _). rewrite E in X. contradiction. }
  destruct (o_eqb qops (Mdef row) (o_zero qops)); [exact E1|].
  rewrite gu_avar_other; [exact E1|].
  intros b Hb E.
  assert (Hb' : (b < P)%nat) by (pose proof (it_actle _ _ _ I a Ha); lia).
  destruct (it_avar _ _ _ I a b Ha Hb') as (_ & X & _). rewrite E in X. contradiction.
Qed.

(* the example of an active variable f *)
Lemma gu_example_at (s : qmst) g r mu i f : Inv_tab s -> (f < actvar s)%nat ->
  gu_example qops ncl Mrow Mdef K0 s g r mu i (vex s f) f ==
  g f - mu * Mq Mrow Mdef (ncl * r + ey s (vex s f)) (vp s f) * kpos K0 s i (vex s f).
Proof.
  intros I Hf.
  assert (Hfn : (f < nv)%nat) by (pose proof (it_av _ _ _ I); lia).
  destruct (it_v _ _ _ I f Hfn) as (Va & Vp & Vi & Vvar & Vavar).
  set (a := vex s f) in *.
  unfold gu_example. set (row := (ncl * r + ey s a)%nat). set (k := kpos K0 s i a).
  destruct (HM row) as [Hs Hp]. unfold Mq. set (def := Mdef row).
  assert (E1 : gu_entries qops g (evar s a) (Mrow row) def mu k f ==
               g f - mu * (sa_lookup (Mrow row) def (vp s f) - def) * k).
  { apply (gu_entries_at (evar s a) f (vp s f) (Mrow row) 0%nat); [exact Hs|].
    intros ix v In1. destruct (it_var _ _ _ I a ix Va (Hp ix v In1)) as (_ & _ & X). split.
    - intro E. rewrite E in X. symmetry. exact X.
    - intro E. subst ix. exact Vvar. }
  remember (sa_lookup (Mrow row) def (vp s f)) as L eqn:EL. clear EL.
  qs. destruct (qeqb_spec def 0) as [[Eb Ed]|[Eb Ed]]; rewrite Eb.
  - rewrite E1. rewrite Ed. ring.
  - rewrite (gu_avar_at f (eavar s a) (vidx s f)).
    + assert (Act : (vidx s f < eact s a)%nat) by (apply (it_act _ _ _ I a (vidx s f) Va Vi); rewrite Vavar; exact Hf).
      destruct (Nat.ltb_spec (vidx s f) (eact s a)); [|lia].
      rewrite E1. ring.
    + intros b Hb.
      assert (Hb' : (b < P)%nat) by (pose proof (it_actle _ _ _ I a Va); lia).
      destruct (it_avar _ _ _ I a b Va Hb') as (_ & _ & X). split.
      * intro E. rewrite E in X. symmetry. exact X.
      * intro E. subst b. exact Vavar.
Qed.

Lemma gu_loop_other (s : qmst) r mu i f : Inv_tab s -> (f < nv)%nat ->
  forall m g, (m <= n)%nat -> (m <= vex s f)%nat -> gu_loop qops ncl Mrow Mdef K0 s g r mu i m f = g f.
Proof.
  intros I Hf. induction m as [|m IH]; intros g Hm Hv; cbn [gu_loop]; [reflexivity|].
  rewrite gu_example_other by (try assumption; lia). apply IH; lia.
Qed.

Lemma gu_loop_at (s : qmst) r mu i f : Inv_tab s -> (f < actvar s)%nat ->
  forall m g, (m <= n)%nat -> (vex s f < m)%nat ->
  gu_loop qops ncl Mrow Mdef K0 s g r mu i m f ==
  g f - mu * Mq Mrow Mdef (ncl * r + ey s (vex s f)) (vp s f) * kpos K0 s i (vex s f).
Proof.
  intros I Hf.
  assert (Hfn : (f < nv)%nat) by (pose proof (it_av _ _ _ I); lia).
  induction m as [|m IH]; intros g Hm Hv; [lia|]. cbn [gu_loop].
  destruct (Nat.eq_dec (vex s f) m) as [E|N].
  - rewrite <- E at 2. rewrite gu_example_at by assumption.
    rewrite (gu_loop_other s r mu i f I Hfn m g) by lia. reflexivity.
  - rewrite gu_example_other by (try assumption; lia). apply IH; lia.
Qed.

(* gradientUpdate(r, mu, row of example i): every active variable f loses mu * M(r; y_f, p_f) * k(i, e_f) *)
Theorem grad_update_active (s : qmst) g r mu i f : Inv_tab s -> (f < actvar s)%nat ->
  grad_updateQ ncl Mrow Mdef K0 s g r mu i f ==
  g f - mu * Mq Mrow Mdef (ncl * r + ey s (vex s f)) (vp s f) * kpos K0 s i (vex s f).
Proof.
  intros I Hf. unfold grad_updateQ, grad_update.
  apply gu_loop_at; try assumption.
  - apply (it_ae _ _ _ I).
  - apply (it_actex _ _ _ I). exact Hf.
Qed.

(* in terms of the big matrix: the row of the moved variable v *)
Corollary grad_update_Qe (s : qmst) g mu v f : Inv_tab s -> (f < actvar s)%nat ->
  grad_updateQ ncl Mrow Mdef K0 s g (P * ey s (vex s v) + vp s v) mu (vex s v) f == g f - mu * Qe P ncl Mrow Mdef K0 s v f.
Proof.
  intros I Hf. rewrite grad_update_active by assumption. unfold Qe, Mfour, kpos. ring.
Qed.

End Grad.
