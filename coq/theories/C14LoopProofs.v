(* C14 — per-generation invariants of the loop skeleton (C14Loop.v), axiom-free.
   For every valid indicator, every history of offspring points and every number of generations:
     * the population has exactly mu members after every generation (generational and steady-state update);
     * every member is a parent or an offspring of that generation (nothing is invented), hence every predicate
       on search points that holds for the initial population and for all offspring (e.g. "inside the box", which the
       bounded variation operators guarantee: C14VarProofs) holds for every reported point;
     * every reported value is the evaluator's unpenalized value: f at the closest feasible point, f itself at
       feasible points; the penalized value the selection works on is that value plus alpha*|x - closest(x)|^2. *)
From Coq Require Import List ZArith Arith Bool Lia.
From SharkV Require Import ListAux C13Model C13Proofs C14Model C14Proofs C14Loop.
Import ListNotations.

Lemma keep_g_length {A} : forall sel (l : list A), length sel = length l -> length (keep_g sel l) = count_true sel.
Proof.
  unfold count_true. induction sel as [|b sel IH]; intros [|x l] H; simpl in *; try lia.
  destruct b; simpl; rewrite IH; auto.
Qed.

Lemma keep_g_In {A} (x : A) : forall sel l, In x (keep_g sel l) -> In x l.
Proof.
  induction sel as [|b sel IH]; intros [|y l] H; simpl in *; auto; try contradiction.
  destruct b; simpl in *; [destruct H as [->|H]; auto|auto].
Qed.

Lemma firstn_app_exact {A} (a b : list A) n : length a = n -> firstn n (a ++ b) = a.
Proof. intros <-. rewrite firstn_app, Nat.sub_diag, firstn_all. simpl. apply app_nil_r. Qed.

Lemma rfu_g_length {A} (o : A) : forall sel P, length (replace_first_unselected_g sel P o) = length P.
Proof. induction sel as [|[] sel IH]; intros [|p P]; simpl; auto. Qed.

Lemma rfu_g_In {A} (o x : A) : forall sel P, In x (replace_first_unselected_g sel P o) -> In x P \/ x = o.
Proof.
  induction sel as [|b sel IH]; intros [|p P] H; simpl in *; auto; try contradiction.
  destruct b; simpl in *.
  - destruct H as [->|H]; auto. destruct (IH P H); auto.
  - destruct H as [->|H]; auto.
Qed.

Section LoopProofs.
  Variable f : list Z -> list Z.
  Variable feasible : list Z -> bool.
  Variable closest : list Z -> list Z.
  Variable alpha : Z.
  Variable m : nat.
  Variable lcs : list point -> list point -> nat -> list nat.
  Variable mu : nat.
  Hypothesis lcs_valid : valid_oracle lcs.
  Hypothesis mu_pos : 1 <= mu.
  Variable d : nat.
  Hypothesis f_dim : forall x, length (f x) = d.

  Notation evaluate := (evaluate f feasible closest alpha m).
  Notation flags := (flags lcs mu).
  Notation gen_update := (gen_update lcs mu).
  Notation ss_update := (ss_update lcs mu).

  Definition consistent (i : ind) : Prop :=
    let t := repaired feasible closest (sp i) in
    unp i = f t /\ pen i = map (fun v => (v + alpha * norm_sqr_diff t (sp i))%Z) (f t).

  Lemma evaluate_consistent x : consistent (evaluate x) /\ sp (evaluate x) = x.
  Proof.
    unfold C14Loop.evaluate, consistent. pose proof (penalized_eval_spec f feasible closest alpha m x) as H.
    cbv zeta in H. destruct (penalized_eval f feasible closest alpha m x) as [u p]. cbn [sp unp pen].
    destruct H as [H1 [H2 _]]. auto.
  Qed.

  Lemma consistent_dim i : consistent i -> length (pen i) = d.
  Proof. intros [_ ->]. now rewrite map_length. Qed.

  Lemma flags_spec merged : Forall consistent merged -> mu <= length merged ->
    count_true (flags merged) = mu /\ length (flags merged) = length merged.
  Proof.
    intros HC Hmu. unfold C14Loop.flags.
    assert (SD : same_dim d (map pen merged)).
    { intros p Hp. apply in_map_iff in Hp. destruct Hp as [i [<- Hi]]. apply consistent_dim.
      rewrite Forall_forall in HC. auto. }
    pose proof (indicator_selection_count lcs d (map pen merged) mu lcs_valid SD) as H.
    rewrite map_length in H. apply H. lia.
  Qed.

  (* ---- generational update *)
  Theorem gen_update_spec parents offspring :
    Forall consistent (parents ++ offspring) -> mu <= length (parents ++ offspring) ->
    gen_update parents offspring = keep_g (flags (parents ++ offspring)) (parents ++ offspring) /\
    length (gen_update parents offspring) = mu /\
    forall i, In i (gen_update parents offspring) -> In i (parents ++ offspring).
  Proof.
    intros HC Hmu. destruct (flags_spec _ HC Hmu) as [CNT LEN].
    assert (E : gen_update parents offspring = keep_g (flags (parents ++ offspring)) (parents ++ offspring)).
    { unfold C14Loop.gen_update, partition_selected. apply firstn_app_exact. now rewrite keep_g_length. }
    rewrite E. split; [reflexivity|]. split; [now rewrite keep_g_length|]. intros i. apply keep_g_In.
  Qed.

  (* ---- steady-state update *)
  Theorem ss_update_spec parents o :
    length (ss_update parents o) = length parents /\
    forall i, In i (ss_update parents o) -> In i (parents ++ [o]).
  Proof.
    unfold C14Loop.ss_update. destruct (nth (length parents) (flags (parents ++ [o])) false).
    - split; [apply rfu_g_length|]. intros i Hi. apply rfu_g_In in Hi. apply in_or_app. simpl. destruct Hi as [Hi|Hi]; auto.
    - split; auto. intros i Hi. apply in_or_app. auto.
  Qed.

  (* ---- invariants over any history *)
  Section Invariant.
    Variable P : list Z -> Prop.          (* any predicate on search points, e.g. "inside the box" *)
    Definition good (i : ind) : Prop := consistent i /\ P (sp i).
    Definition inv (pop : list ind) : Prop := length pop = mu /\ Forall good pop.

    Lemma good_evaluate x : P x -> good (evaluate x).
    Proof. intros H. destruct (evaluate_consistent x) as [C E]. split; [exact C|]. rewrite E. exact H. Qed.

    Lemma gen_step_inv pop offs : inv pop -> Forall P offs ->
      inv (gen_step f feasible closest alpha m lcs mu pop offs).
    Proof.
      intros [L G] HO. unfold gen_step.
      assert (GA : Forall good (pop ++ map evaluate offs)).
      { apply Forall_app. split; auto. rewrite Forall_forall in *. intros i Hi.
        apply in_map_iff in Hi. destruct Hi as [x [<- Hx]]. apply good_evaluate. auto. }
      assert (CA : Forall consistent (pop ++ map evaluate offs)).
      { rewrite Forall_forall in *. intros i Hi. apply GA. auto. }
      destruct (gen_update_spec pop (map evaluate offs) CA) as [_ [L' IN]].
      { rewrite app_length. lia. }
      split; auto. rewrite Forall_forall in *. intros i Hi. apply GA. apply IN. auto.
    Qed.

    Lemma ss_step_inv pop x : inv pop -> P x ->
      inv (ss_step_ind f feasible closest alpha m lcs mu pop x).
    Proof.
      intros [L G] HX. unfold ss_step_ind.
      destruct (ss_update_spec pop (evaluate x)) as [L' IN].
      split; [lia|]. rewrite Forall_forall in *. intros i Hi. apply IN in Hi.
      apply in_app_or in Hi. destruct Hi as [Hi|[<-|[]]]; auto. apply good_evaluate. auto.
    Qed.

    Theorem run_gen_invariant : forall history pop, inv pop -> Forall (Forall P) history ->
      inv (run_gen f feasible closest alpha m lcs mu history pop).
    Proof.
      unfold run_gen. induction history as [|offs h IH]; intros pop I H; simpl; auto.
      inversion H; subst. apply IH; auto. now apply gen_step_inv.
    Qed.

    Theorem run_ss_invariant : forall history pop, inv pop -> Forall P history ->
      inv (run_ss f feasible closest alpha m lcs mu history pop).
    Proof.
      unfold run_ss. induction history as [|x h IH]; intros pop I H; simpl; auto.
      inversion H; subst. apply IH; auto. now apply ss_step_inv.
    Qed.

    (* what solution() reports *)
    Theorem solution_spec pop : inv pop ->
      length (solution pop) = mu /\
      forall x v, In (x, v) (solution pop) ->
        P x /\ v = f (repaired feasible closest x) /\ (feasible x = true -> v = f x).
    Proof.
      intros [L G]. unfold solution. split; [now rewrite map_length|].
      intros x v H. apply in_map_iff in H. destruct H as [i [E Hi]]. injection E as <- <-.
      rewrite Forall_forall in G. destruct (G i Hi) as [[C1 _] HP]. repeat split; auto.
      intros F. rewrite C1. unfold repaired. now rewrite F.
    Qed.
  End Invariant.

  (* the initial population of doInit: feasible points with penalized = unpenalized = f(x) *)
  Lemma initial_consistent x : feasible x = true -> consistent (mk_ind x (f x) (f x)).
  Proof.
    intros F. unfold consistent, repaired. cbn [sp unp pen]. rewrite F. split; auto.
    rewrite norm_sqr_diff_same. rewrite <- (map_id (f x)) at 1. apply map_ext. intros; lia.
  Qed.
End LoopProofs.

(* ------------------------------------------------------------------------------------------ *)
(* top-level statements with all hypotheses explicit *)
Theorem generation_loop_invariant :
  forall (f : list Z -> list Z) feasible closest alpha m lcs mu d (P : list Z -> Prop),
    valid_oracle lcs -> 1 <= mu -> (forall x, length (f x) = d) ->
    forall pop0, inv f feasible closest alpha mu P pop0 ->
    (forall history, Forall (Forall P) history ->
       let pop := run_gen f feasible closest alpha m lcs mu history pop0 in
       inv f feasible closest alpha mu P pop /\
       length (solution pop) = mu /\
       forall x v, In (x, v) (solution pop) ->
         P x /\ v = f (repaired feasible closest x) /\ (feasible x = true -> v = f x)) /\
    (forall history, Forall P history ->
       let pop := run_ss f feasible closest alpha m lcs mu history pop0 in
       inv f feasible closest alpha mu P pop /\
       length (solution pop) = mu /\
       forall x v, In (x, v) (solution pop) ->
         P x /\ v = f (repaired feasible closest x) /\ (feasible x = true -> v = f x)).
Proof.
  intros f feasible closest alpha m lcs mu d P V Hmu FD pop0 I0. split.
  - intros history H. cbn zeta.
    pose proof (run_gen_invariant f feasible closest alpha m lcs mu V Hmu d FD P history pop0 I0 H) as I.
    split; auto. apply (solution_spec f feasible closest alpha mu P _ I).
  - intros history H. cbn zeta.
    pose proof (run_ss_invariant f feasible closest alpha m lcs mu Hmu P history pop0 I0 H) as I.
    split; auto. apply (solution_spec f feasible closest alpha mu P _ I).
Qed.

(* the population doInit builds from feasible starting points satisfies the invariant *)
Theorem initial_population_inv :
  forall (f : list Z -> list Z) feasible closest alpha mu (P : list Z -> Prop) (points : list (list Z)),
    1 <= mu -> length points = mu -> Forall (fun x => feasible x = true /\ P x) points ->
    inv f feasible closest alpha mu P (map (fun x => mk_ind x (f x) (f x)) points).
Proof.
  intros f feasible closest alpha mu P points Hmu L H. split; [now rewrite map_length|].
  rewrite Forall_forall in *. intros i Hi. apply in_map_iff in Hi. destruct Hi as [x [<- Hx]].
  destruct (H x Hx) as [F Px]. split; [now apply (initial_consistent f feasible closest alpha mu Hmu)|exact Px].
Qed.

(* satisfiability / a worked run: one variable in the box [0,6], f(a) = (a, 6-a), mu = 3, AdditiveEpsilonIndicator,
   penalty factor 1000; the second offspring of the first generation (9) lies outside the box *)
From SharkV Require Import C14Ind C14IndProofs.
Definition loop_fex (x : list Z) : list Z := match x with [a] => [a; 6 - a]%Z | _ => [0; 0]%Z end.
Example loop_example :
  let feasible := box_feasible [0%Z] [6%Z] in let closest := box_closest [0%Z] [6%Z] in
  let pop0 := map (fun x => mk_ind x (loop_fex x) (loop_fex x)) [[1]; [3]; [5]]%Z in
  valid_oracle eps_lcs /\ (forall x, length (loop_fex x) = 2) /\
  inv loop_fex feasible closest 1000%Z 3 (fun _ => True) pop0 /\
  solution (run_gen loop_fex feasible closest 1000%Z 0 eps_lcs 3 [[[2]; [9]]; [[4]; [0]]]%Z pop0) =
    [([2], [2; 4]); ([4], [4; 2]); ([0], [0; 6])]%Z /\
  solution (run_ss loop_fex feasible closest 1000%Z 0 eps_lcs 3 [[2]; [9]; [4]]%Z pop0) =
    [([4], [4; 2]); ([3], [3; 3]); ([5], [5; 1])]%Z.
Proof.
  cbv zeta. split; [exact eps_lcs_valid|]. split.
  - intros [|a [|b x]]; reflexivity.
  - split; [|split; vm_compute; reflexivity].
    apply initial_population_inv; [lia|reflexivity|].
    repeat constructor.
Qed.
