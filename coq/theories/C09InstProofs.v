(* C09 — every derived kernel-matrix class satisfies the laws [flip_aware] of C09CompProofs.v (and
   [mat_ok] where its matrix() is correct), so the composed cache / precomputed-matrix theorems apply
   to CachedMatrix<RegularizedKernelMatrix>, PrecomputedMatrix<DifferenceKernelMatrix>, ... *)
From Coq Require Import List Arith ZArith Lia Bool Permutation.
From SharkV Require Import ListAux C09Derived C09Comp C09CompProofs C09More.
Import ListNotations.

Lemma tr_eqb i j a c : (tr i j a =? tr i j c) = (a =? c).
Proof.
  destruct (Nat.eqb_spec a c) as [->|H]; [apply Nat.eqb_refl|].
  apply Nat.eqb_neq. intros E. apply H. eapply tr_inj; eauto.
Qed.

Lemma combine_map_r {A B} (f : A -> B) l : combine l (map f l) = map (fun x => (x, f x)) l.
Proof. induction l; simpl; congruence. Qed.

Lemma nth_map_seq_gen {A} (f : nat -> A) a m c d : c < m -> nth c (map f (seq a m)) d = f (a + c).
Proof.
  intros H. rewrite nth_indep with (d' := f 0) by (rewrite map_length, seq_length; auto).
  rewrite map_nth with (d := 0). rewrite seq_nth; auto.
Qed.

Section DmInst.
Variable k0 : nat -> nat -> Z.

Lemma e_kernel_flip s i j a c : i < dm_size s -> j < dm_size s ->
  e_kernel k0 (dflip i j s) a c = e_kernel k0 s (tr i j a) (tr i j c).
Proof. intros Hi Hj. unfold e_kernel, p, dflip. simpl. rewrite !nth_swapl by auto. reflexivity. Qed.

(* ---- KernelMatrix ---- *)
Lemma kernel_flip_aware : flip_aware (M := kernel_ops k0) (fun _ => True).
Proof.
  constructor; simpl; auto.
  - intros b i j _ _ _. unfold dm_size, dflip. simpl. apply swapl_length.
  - intros b i j a c _ Hi Hj _ _. apply e_kernel_flip; auto.
Qed.

(* ---- RegularizedKernelMatrix ---- *)
Definition reg_okP (s : dm) : Prop := length (dmod s) = length (pos s).

Lemma reg_row_spec s k a e : reg_row k0 s k a e = map (e_reg k0 s k) (seq a (e - a)).
Proof.
  unfold reg_row, k_row.
  assert (G : forall c, c < e - a ->
     e_reg k0 s k (a + c) = (e_kernel k0 s k (a + c) + (if (k =? a + c)%nat then nth k (dmod s) 0 else 0))%Z).
  { intros c _. unfold e_reg. destruct (Nat.eqb_spec k (a + c)) as [<-|]; reflexivity. }
  apply nth_ext with (d := 0%Z) (d' := 0%Z).
  { destruct ((a <=? k) && (k <? e)); rewrite ?upd_length, !map_length; reflexivity. }
  intros c Hc.
  assert (Hc' : c < e - a) by (destruct ((a <=? k) && (k <? e)); rewrite ?upd_length, map_length, seq_length in Hc; exact Hc).
  rewrite (nth_map_seq_gen (e_reg k0 s k)) by exact Hc'. rewrite G by exact Hc'.
  destruct ((a <=? k) && (k <? e)) eqn:W.
  - apply andb_prop in W. destruct W as [W1 W2]. apply Nat.leb_le in W1. apply Nat.ltb_lt in W2.
    rewrite nth_upd, map_length, seq_length.
    assert (k - a <? e - a = true) as -> by (apply Nat.ltb_lt; lia). rewrite andb_true_r.
    destruct (Nat.eqb_spec (k - a) c) as [E|E].
    + assert (k = a + c) as -> by lia. rewrite Nat.eqb_refl.
      rewrite (nth_map_seq_gen (e_kernel k0 s (a + c))) by lia. replace (a + (a + c - a)) with (a + c) by lia. reflexivity.
    + destruct (Nat.eqb_spec k (a + c)); [lia|]. rewrite (nth_map_seq_gen (e_kernel k0 s k)) by exact Hc'. lia.
  - rewrite (nth_map_seq_gen (e_kernel k0 s k)) by exact Hc'.
    destruct (Nat.eqb_spec k (a + c)) as [->|]; [|lia].
    exfalso. apply andb_false_iff in W. destruct W as [W|W]; [apply Nat.leb_gt in W|apply Nat.ltb_ge in W]; lia.
Qed.

Lemma reg_flip_aware : flip_aware (M := reg_ops k0) reg_okP.
Proof.
  constructor; simpl.
  - intros b i j OK _ _. unfold reg_okP, dflip in *. simpl. rewrite !swapl_length. exact OK.
  - intros b i j _ _ _. unfold dm_size, dflip. simpl. apply swapl_length.
  - intros b i j a c OK Hi Hj _ _. unfold e_reg. rewrite e_kernel_flip by auto. rewrite tr_eqb.
    f_equal. destruct (a =? c); auto. unfold dflip. simpl.
    apply nth_swapl; unfold reg_okP, dm_size in *; lia.
  - intros b k a e _ _ _. apply reg_row_spec.
Qed.

(* ---- ModifiedKernelMatrix ---- *)
Definition lab_okP (s : dm) : Prop := length (labs s) = length (pos s).

Lemma mod_row_spec eq ne s k a e : mod_row k0 eq ne s k a e = map (e_mod k0 eq ne s k) (seq a (e - a)).
Proof.
  unfold mod_row, k_row. rewrite combine_map_r, map_map. apply map_ext.
  intros j. simpl. unfold e_mod. apply Z.mul_comm.
Qed.

Lemma mod_flip_aware eq ne : flip_aware (M := mod_ops k0 eq ne) lab_okP.
Proof.
  constructor; simpl.
  - intros b i j OK _ _. unfold lab_okP, dflip in *. simpl. rewrite !swapl_length. exact OK.
  - intros b i j _ _ _. unfold dm_size, dflip. simpl. apply swapl_length.
  - intros b i j a c OK Hi Hj _ _. unfold e_mod. rewrite e_kernel_flip by auto.
    unfold dflip. simpl. rewrite !nth_swapl by (unfold lab_okP, dm_size in *; lia). reflexivity.
  - intros b k a e _ _ _. apply mod_row_spec.
Qed.

(* ---- ExampleModifiedKernelMatrix (scaling coefficients follow the examples: 729b58f0) ---- *)
Lemma exmod_flip_aware : flip_aware (M := exmod_ops k0) lab_okP.
Proof.
  constructor; simpl.
  - intros b i j OK _ _. unfold lab_okP, dflip in *. simpl. rewrite !swapl_length. exact OK.
  - intros b i j _ _ _. unfold dm_size, dflip. simpl. apply swapl_length.
  - intros b i j a c OK Hi Hj _ _. unfold e_ex. rewrite e_kernel_flip by auto.
    unfold dflip. simpl. rewrite !nth_swapl by (unfold lab_okP, dm_size in *; lia). reflexivity.
  - intros b k a e _ _ _. reflexivity.
Qed.

(* matrix(): correct in the unflipped state (KernelMatrix family), in every state (ExampleModified) *)
Lemma e_kernel_init n d0 l0 a c : a < n -> c < n -> e_kernel k0 (dinit n d0 l0) a c = k0 a c.
Proof. intros Ha Hc. unfold e_kernel, p, dinit. simpl. rewrite !seq_nth by auto. reflexivity. Qed.

Lemma map_seq_ext {A} (f g : nat -> A) a m : (forall c, c < m -> f (a + c) = g (a + c)) -> map f (seq a m) = map g (seq a m).
Proof.
  intros H. apply map_ext_in. intros x Hx. apply in_seq in Hx.
  replace x with (a + (x - a)) by lia. apply H. lia.
Qed.

Lemma k_mat_row n d0 l0 i : i < n ->
  nth i (k_mat k0 (dinit n d0 l0)) [] = map (k0 i) (seq 0 n).
Proof.
  intros Hi. unfold k_mat, m_of, dm_size, dinit. simpl. rewrite seq_length.
  rewrite (nth_map_seq_gen (fun i => map (k0 i) (seq 0 n)) 0 n i []) by exact Hi. reflexivity.
Qed.

Lemma kernel_mat_ok n d0 l0 : mat_ok (M := kernel_ops k0) (dinit n d0 l0).
Proof.
  unfold mat_ok. simpl. unfold k_mat, m_of, dm_size, dinit. simpl. rewrite seq_length.
  apply map_seq_ext. intros i Hi. apply map_seq_ext. intros c Hc. simpl.
  symmetry. apply (e_kernel_init n d0 l0); auto.
Qed.

Lemma reg_mat_ok n d0 l0 : mat_ok (M := reg_ops k0) (dinit n d0 l0).
Proof.
  unfold mat_ok. simpl. unfold reg_mat.
  assert (SZ : dm_size (dinit n d0 l0) = n) by (unfold dm_size, dinit; simpl; apply seq_length).
  rewrite SZ. apply map_seq_ext. intros i Hi. simpl. rewrite k_mat_row by exact Hi.
  apply nth_ext with (d := 0%Z) (d' := 0%Z); [rewrite upd_length, !map_length; reflexivity|].
  intros c Hc. rewrite upd_length, map_length, seq_length in Hc.
  rewrite (nth_map_seq_gen (e_reg k0 (dinit n d0 l0) i) 0 n c) by exact Hc. simpl.
  unfold e_reg. rewrite (e_kernel_init n d0 l0) by auto.
  rewrite nth_upd, map_length, seq_length. apply Nat.ltb_lt in Hi. rewrite Hi, andb_true_r.
  apply Nat.ltb_lt in Hi.
  destruct (Nat.eqb_spec i c) as [->|Hne].
  - rewrite (nth_map_seq_gen (k0 c) 0 n c) by exact Hc. reflexivity.
  - rewrite (nth_map_seq_gen (k0 i) 0 n c) by exact Hc. simpl. lia.
Qed.

Lemma mod_mat_ok eq ne n d0 l0 : mat_ok (M := mod_ops k0 eq ne) (dinit n d0 l0).
Proof.
  unfold mat_ok. simpl. unfold mod_mat.
  assert (SZ : dm_size (dinit n d0 l0) = n) by (unfold dm_size, dinit; simpl; apply seq_length).
  rewrite SZ. apply map_seq_ext. intros i Hi. simpl. rewrite k_mat_row by exact Hi.
  rewrite combine_map_r, map_map. apply map_seq_ext. intros c Hc. simpl.
  unfold e_mod. rewrite (e_kernel_init n d0 l0) by auto. apply Z.mul_comm.
Qed.

Lemma exmod_mat_ok s : mat_ok (M := exmod_ops k0) s.
Proof. reflexivity. Qed.

End DmInst.

(* ---- BlockMatrix2x2 over any base ---- *)
Section BlockInst.
Context {V B : Type} {M : MatOps V B}.
Variable b : B.
Definition blk_okP (m : list nat) : Prop := length m = 2 * bsize b.

Lemma blk_flip_aware : flip_aware (M := blk_ops b) blk_okP.
Proof.
  constructor; simpl.
  - intros m i j OK _ _. unfold blk_okP, blk_flip in *. rewrite swapl_length. exact OK.
  - intros m i j _ _ _. reflexivity.
  - intros m i j a c OK Hi Hj _ _. unfold blk_entry, blk_flip, blk_size, blk_okP in *.
    rewrite !nth_swapl by lia. reflexivity.
  - intros m k a e _ _ _. reflexivity.
Qed.

Lemma blk_mat_ok m : mat_ok (M := blk_ops b) m.
Proof. reflexivity. Qed.

Lemma blk_init_ok : blk_okP (blk_init b).
Proof. unfold blk_okP, blk_init. rewrite app_length, !seq_length. lia. Qed.

(* the four blocks are copies of the base matrix *)
Lemma blk_init_entry i j : i < 2 * bsize b -> j < 2 * bsize b ->
  blk_entry b (blk_init b) i j = bentry b (i mod bsize b) (j mod bsize b).
Proof.
  intros Hi Hj. unfold blk_entry, blk_init.
  assert (G : forall x, x < 2 * bsize b -> nth x (seq 0 (bsize b) ++ seq 0 (bsize b)) 0 = x mod bsize b).
  { intros x Hx. destruct (Nat.lt_ge_cases x (bsize b)).
    - rewrite app_nth1 by (rewrite seq_length; auto). rewrite seq_nth by auto. rewrite Nat.mod_small; auto.
    - rewrite app_nth2 by (rewrite seq_length; auto). rewrite seq_length, seq_nth by lia. simpl.
      replace x with ((x - bsize b) + 1 * bsize b) at 2 by lia.
      rewrite Nat.mod_add by lia. rewrite Nat.mod_small; lia. }
  rewrite !G by auto. reflexivity.
Qed.
End BlockInst.
