(* C05 — kernel EXPRESSIONS: the grammar of kernel compositions that tools/c05.py generates and that both the C++
   harness (Builder<I>::parse) and the OCaml driver parse, as a Coq data type, with its two denotations
     den  e : the single-element kernel  k(x,z)            (composition of the k_* combinators of C05Model.v)
     bden e : the batch evaluation path  K(X1,X2) (matrix) (composition of the b_* combinators of C05Model.v)
   Definitions only.  The driver evaluates den / bden of the parsed expression (fields SE, BE of its output) next to
   the C++ kernels on every case, so theorems quantified over kexp speak about the function that is executed.
     WeightedSumKernel(w_1..w_n; K_1..K_n) = EWsum [w_1..w_n] [K_1..K_n]   (the C++ weights are 1, exp(p_2), .., exp(p_n))
     SubrangeKernel((a_i,b_i); K_i)        = EWsum [1..1] [ESub a_i b_i K_i]
     ModelKernel(LinearModel(W,b); K)      = EModel W b K *)
From Coq Require Import List Arith Bool.
From SharkV Require Import C03Model C05Model.
Import ListNotations.

Section Expr.
Variable A : Type.
Variables (zero one : A) (add mul sub div : A -> A -> A) (opp sqrtA expA : A -> A).

Inductive kexp : Type :=
| ELin
| EPoly (d : nat) (c : A)
| EMono (d : nat)
| ERbf (g : A)
| EArd (gs : list A)
| ENorm (e : kexp)
| EScaled (f : A) (e : kexp)
| EWsum (ws : list A) (es : list kexp)
| EProd (es : list kexp)
| ESub (a b : nat) (e : kexp)
| EModel (W : list (list A)) (b : list A) (e : kexp).

Fixpoint den (e : kexp) : list A -> list A -> A :=
  match e with
  | ELin => k_lin A zero add mul
  | EPoly d c => k_poly A zero one add mul d c
  | EMono d => k_mono A zero one add mul d
  | ERbf g => k_gauss A zero add mul sub opp expA g
  | EArd gs => k_ard A zero add mul sub opp expA gs
  | ENorm e' => k_norm A div sqrtA (list A) (den e')
  | EScaled f e' => k_scaled A mul (list A) f (den e')
  | EWsum ws es => k_wsum A zero add mul div (list A) (combine ws (map den es))
  | EProd es => k_prod A one mul (list A) (map den es)
  | ESub a b e' => k_sub A a b (den e')
  | EModel W b e' => k_pull A (linmap A zero add mul W b) (den e')
  end.

Fixpoint bden (e : kexp) : list (list A) -> list (list A) -> list (list A) :=
  match e with
  | ELin => b_lin A zero add mul
  | EPoly d c => b_poly A zero one add mul d c
  | EMono d => b_mono A zero one add mul d
  | ERbf g => b_gauss A zero add mul sub opp expA g
  | EArd gs => b_ard A zero add mul sub opp expA gs
  | ENorm e' => b_norm A zero mul div sqrtA (list A) (bden e')
  | EScaled f e' => b_scaled A mul (list A) f (bden e')
  | EWsum ws es => b_wsum A zero add mul div (list A) (combine ws (map bden es))
  | EProd es => b_prod A one mul (list A) (map bden es)
  | ESub a b e' => b_sub A a b (bden e')
  | EModel W b e' => b_pull A (linmap A zero add mul W b) (bden e')
  end.

End Expr.
