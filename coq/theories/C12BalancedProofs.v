(* C12 — createCVSameSizeBalanced: the members (class after class) are dealt to the folds round-robin and the
   dealing continues across class borders.  Exactly: validation part p receives, of class c with n_c members,
   n_c / k members plus one more iff one of the n_c mod k running numbers off_c, off_c+1, ... is congruent p
   modulo k, where off_c is the number of members of the classes before c.  Hence the class counts of two folds
   differ by at most one, and the fold sizes are the same-size sizes. *)
From Coq Require Import List Arith Lia Bool Permutation.
From SharkV Require Import ListAux C03Model C03Proofs C12Model C12Proofs C03Class.
Import ListNotations.

(* members with running number a, a+1, ... : those whose number is congruent p go to fold p *)
Fixpoint deal (k p a : nat) (s : list nat) : list nat :=
  match s with
  | [] => []
  | x :: r => (if a mod k =? p then [x] else []) ++ deal k p (S a) r
  end.

(* how many of the running numbers a, ..., a+n-1 are congruent p *)
Definition cnt (k p a n : nat) : nat := length (filter (fun t => t mod k =? p) (seq a n)).

Lemma deal_app k p a s1 s2 : deal k p a (s1 ++ s2) = deal k p a s1 ++ deal k p (a + length s1) s2.
Proof.
  revert a; induction s1 as [|x s1 IH]; intros a; simpl.
  - rewrite Nat.add_0_r. reflexivity.
  - rewrite IH, <- app_assoc. replace (S a + length s1) with (a + S (length s1)) by lia. reflexivity.
Qed.

Lemma deal_spec k p a s :
  map (fun t => nth (t - a) s 0) (filter (fun t => t mod k =? p) (seq a (length s))) = deal k p a s.
Proof.
  revert a; induction s as [|x r IH]; intros a; [reflexivity|].
  cbn [length seq filter deal]. rewrite <- IH.
  assert (map (fun t => nth (t - a) (x :: r) 0) (filter (fun t => t mod k =? p) (seq (S a) (length r)))
          = map (fun t => nth (t - S a) r 0) (filter (fun t => t mod k =? p) (seq (S a) (length r)))) as E.
  { apply map_ext_in. intros t Ht. apply filter_In in Ht. destruct Ht as [Ht _]. apply in_seq in Ht.
    replace (t - a) with (S (t - S a)) by lia. reflexivity. }
  destruct (a mod k =? p); cbn [map app]; rewrite E; rewrite ?Nat.sub_diag; reflexivity.
Qed.

Lemma deal_length k p a s : length (deal k p a s) = cnt k p a (length s).
Proof. rewrite <- deal_spec, map_length. reflexivity. Qed.

Lemma deal_incl k p a s x : In x (deal k p a s) -> In x s.
Proof.
  revert a; induction s as [|y r IH]; intros a; simpl; auto.
  intros H. apply in_app_or in H. destruct H as [H|H].
  - destruct (a mod k =? p); simpl in H; tauto.
  - right. eapply IH; eauto.
Qed.

Lemma cnt_app k p a n m : cnt k p a (n + m) = cnt k p a n + cnt k p (a + n) m.
Proof. unfold cnt. rewrite seq_app, filter_app, app_length. reflexivity. Qed.

Lemma count_eq_seq p a n :
  length (filter (fun t => t =? p) (seq a n)) = if (a <=? p) && (p <? a + n) then 1 else 0.
Proof.
  revert a; induction n as [|n IH]; intros a; simpl.
  - destruct (Nat.leb_spec a p); destruct (Nat.ltb_spec p (a + 0)); simpl; lia.
  - destruct (Nat.eqb_spec a p); simpl; rewrite IH;
      destruct (Nat.leb_spec a p); destruct (Nat.leb_spec (S a) p);
      destruct (Nat.ltb_spec p (S a + n)); destruct (Nat.ltb_spec p (a + S n)); simpl; lia.
Qed.

(* below k the residue is the number itself *)
Lemma cnt_small k p r : r <= k -> cnt k p 0 r = if p <? r then 1 else 0.
Proof.
  intros H. unfold cnt.
  rewrite (filter_ext_in (fun t => t mod k =? p) (fun t => t =? p)).
  - rewrite count_eq_seq. simpl. reflexivity.
  - intros t Ht. apply in_seq in Ht. rewrite Nat.mod_small by lia. reflexivity.
Qed.

(* every window of k consecutive numbers holds exactly one number congruent p *)
Lemma cnt_window k p a : p < k -> cnt k p a k = 1.
Proof.
  intros Hp. induction a as [|a IH].
  - rewrite cnt_small by lia. apply Nat.ltb_lt in Hp. rewrite Hp. reflexivity.
  - pose proof (cnt_app k p a 1 k) as E1. pose proof (cnt_app k p a k 1) as E2.
    rewrite Nat.add_comm in E2. rewrite E1 in E2. rewrite Nat.add_1_r in E2.
    assert (cnt k p (a + k) 1 = cnt k p a 1) as E3.
    { unfold cnt. simpl. replace (a + k) with (a + 1 * k) by lia. rewrite Nat.mod_add by lia.
      destruct (a mod k =? p); reflexivity. }
    lia.
Qed.

Lemma cnt_mult k p a q : p < k -> cnt k p a (q * k) = q.
Proof.
  intros Hp. revert a; induction q as [|q IH]; intros a; [reflexivity|].
  simpl. rewrite cnt_app, cnt_window, IH by auto. reflexivity.
Qed.

(* n/k to everybody, the first n mod k running numbers decide who gets one more *)
Theorem cnt_div k p a n : p < k -> cnt k p a n = n / k + cnt k p a (n mod k) /\ cnt k p a (n mod k) <= 1.
Proof.
  intros Hp. assert (Hk : k <> 0) by lia.
  pose proof (Nat.div_mod n k Hk) as E. pose proof (Nat.mod_upper_bound n k Hk) as U.
  split.
  - rewrite E at 1. rewrite (Nat.add_comm (k * (n / k))), cnt_app, (Nat.mul_comm k), cnt_mult by auto. lia.
  - pose proof (cnt_app k p a (n mod k) (k - n mod k)) as W.
    replace (n mod k + (k - n mod k)) with k in W by lia. rewrite cnt_window in W by auto. lia.
Qed.

(* ---------- the validity predicate on the members handed to the model ---------- *)
Lemma count_in_In l x : 1 <= count_in l x <-> In x l.
Proof.
  unfold count_in. split.
  - intros H. destruct (filter (Nat.eqb x) l) as [|y t] eqn:E; [simpl in H; lia|].
    assert (In y (filter (Nat.eqb x) l)) as Hy by (rewrite E; left; auto).
    apply filter_In in Hy. destruct Hy as [Hy Hxy]. apply Nat.eqb_eq in Hxy. subst. auto.
  - intros H. assert (In x (filter (Nat.eqb x) l)) as Hx by (apply filter_In; split; auto; apply Nat.eqb_refl).
    destruct (filter (Nat.eqb x) l); [destruct Hx|simpl; lia].
Qed.

Lemma is_perm_of_facts a b : is_perm_of a b = true -> length a = length b /\ (forall x, In x a -> In x b).
Proof.
  unfold is_perm_of. intros H. apply andb_prop in H. destruct H as [H1 H2]. apply Nat.eqb_eq in H1.
  split; auto. rewrite forallb_forall in H2. intros x Hx.
  specialize (H2 x ltac:(apply in_or_app; auto)). apply Nat.eqb_eq in H2.
  apply count_in_In. rewrite <- H2. apply count_in_In. auto.
Qed.

Lemma class_members_length ls c : length (class_members ls c) = count_in ls c.
Proof.
  unfold class_members. pose proof (filter_seq_count ls c 0) as F. unfold count_eq in F. unfold count_in.
  rewrite <- F. f_equal. apply filter_ext. intros i. rewrite Nat.sub_0_r. reflexivity.
Qed.

Lemma valid_members_facts ls members :
  valid_members ls members = true ->
  forall c, c < length members ->
    length (nth c members []) = count_in ls c /\ (forall i, In i (nth c members []) -> nth i ls 0 = c).
Proof.
  unfold valid_members. intros H c Hc. apply andb_prop in H. destruct H as [_ H].
  rewrite forallb_forall in H. specialize (H c ltac:(apply in_seq; lia)).
  apply is_perm_of_facts in H. destruct H as [H1 H2]. split.
  - rewrite H1. apply class_members_length.
  - intros i Hi. apply H2 in Hi. unfold class_members in Hi. apply filter_In in Hi.
    destruct Hi as [_ Hi]. apply Nat.eqb_eq in Hi. exact Hi.
Qed.

Lemma firstn_map_nth {A} c (l : list A) d : c <= length l -> firstn c l = map (fun j => nth j l d) (seq 0 c).
Proof.
  revert l; induction c as [|c IH]; intros l H; [reflexivity|].
  destruct l as [|x l]; [simpl in H; lia|]. simpl in H. cbn [firstn seq map nth]. f_equal.
  rewrite <- seq_shift, map_map. apply IH. lia.
Qed.

(* ---------- class counts of one fold ---------- *)
Section Count.
Variable label : nat -> nat.
Variables k p : nat.

Lemma filter_none' {A} (f : A -> bool) l : (forall x, In x l -> f x = false) -> filter f l = [].
Proof. induction l as [|x l IH]; intros H; simpl; auto. rewrite H by (left; auto). apply IH. intros; apply H; right; auto. Qed.

Lemma filter_every' {A} (f : A -> bool) l : (forall x, In x l -> f x = true) -> filter f l = l.
Proof. induction l as [|x l IH]; intros H; simpl; auto. rewrite H by (left; auto). f_equal. apply IH. intros; apply H; right; auto. Qed.

Lemma class_count_deal c : forall ms c0 a,
  (forall j i, j < length ms -> In i (nth j ms []) -> label i = c0 + j) ->
  length (filter (fun i => label i =? c) (deal k p a (concat ms))) =
  if (c0 <=? c) && (c <? c0 + length ms)
  then cnt k p (a + sum (map (@length nat) (firstn (c - c0) ms))) (length (nth (c - c0) ms []))
  else 0.
Proof.
  induction ms as [|m ms IH]; intros c0 a H.
  - cbn [concat deal filter length]. rewrite Nat.add_0_r.
    destruct (Nat.leb_spec c0 c); destruct (Nat.ltb_spec c c0); cbn [andb]; auto; lia.
  - cbn [concat]. rewrite deal_app, filter_app, app_length.
    rewrite (IH (S c0) (a + length m)).
    2:{ intros j i Hj Hi. rewrite (H (S j) i); [lia|simpl; lia|exact Hi]. }
    assert (Hm : forall i, In i (deal k p a m) -> label i = c0).
    { intros i Hi. apply deal_incl in Hi. rewrite (H 0 i); [lia|simpl; lia|exact Hi]. }
    cbn [length]. destruct (Nat.eq_dec c c0) as [->|Hne].
    + rewrite filter_every' by (intros i Hi; apply Nat.eqb_eq; auto).
      rewrite deal_length. rewrite Nat.sub_diag. cbn [firstn map sum fold_right nth].
      rewrite Nat.leb_refl. cbn [andb].
      destruct (Nat.ltb_spec c0 (c0 + S (length ms))); [|lia].
      destruct (Nat.leb_spec (S c0) c0); [lia|]. cbn [andb]. rewrite !Nat.add_0_r. reflexivity.
    + rewrite filter_none' by (intros i Hi; apply Nat.eqb_neq; rewrite (Hm i Hi); auto). cbn [length].
      destruct (Nat.leb_spec c0 c); destruct (Nat.leb_spec (S c0) c); try lia; cbn [andb];
        destruct (Nat.ltb_spec c (c0 + S (length ms))); destruct (Nat.ltb_spec c (S c0 + length ms)); try lia; auto.
      replace (c - c0) with (S (c - S c0)) by lia. cbn [firstn map sum fold_right nth].
      unfold sum. rewrite Nat.add_assoc. reflexivity.
Qed.
End Count.

Lemma filter_map_length {A B} (f : A -> B) (g : B -> bool) l :
  length (filter g (map f l)) = length (filter (fun x => g (f x)) l).
Proof. induction l as [|x l IH]; simpl; auto. destruct (g (f x)); simpl; rewrite IH; auto. Qed.

(* the source positions that go to validation part p: members number p, p+k, p+2k, ... *)
Definition fold_positions (members : list (list nat)) (k p : nat) : list nat := deal k p 0 (concat members).

Theorem balanced_class_counts ls members k c p :
  p < k -> valid_members ls members = true -> c < length members ->
  let n_c := count_in ls c in
  let off_c := sum (map (count_in ls) (seq 0 c)) in
  count_in (map (fun i => nth i ls 0) (fold_positions members k p)) c
    = n_c / k + cnt k p off_c (n_c mod k) /\
  cnt k p off_c (n_c mod k) <= 1.
Proof.
  intros Hp V Hc n_c off_c.
  pose proof (valid_members_facts ls members V) as VF.
  unfold count_in at 1. rewrite filter_map_length. unfold fold_positions.
  rewrite (filter_ext (fun x => c =? nth x ls 0) (fun i => nth i ls 0 =? c)) by (intros; apply Nat.eqb_sym).
  rewrite (class_count_deal (fun i => nth i ls 0) k p c members 0 0).
  2:{ intros j i Hj Hi. apply (proj2 (VF j Hj)). exact Hi. }
  simpl. assert (c <? length members = true) as -> by (apply Nat.ltb_lt; auto).
  rewrite Nat.sub_0_r. rewrite (proj1 (VF c Hc)). fold n_c.
  assert (sum (map (@length nat) (firstn c members)) = off_c) as ->.
  { unfold off_c. rewrite (firstn_map_nth c members []) by lia. rewrite map_map. f_equal.
    apply map_ext_in. intros j Hj. apply in_seq in Hj. apply (proj1 (VF j ltac:(lia))). }
  apply cnt_div. exact Hp.
Qed.

(* ---------- the fold structure built by createCVSameSizeBalanced ---------- *)
Lemma dealt_order_deal s k : dealt_order s k = flat_map (fun p => deal k p 0 s) (seq 0 k).
Proof.
  unfold dealt_order. apply flat_map_ext. intros p. rewrite <- deal_spec.
  apply map_ext. intros t. rewrite Nat.sub_0_r. reflexivity.
Qed.

Lemma val_sizes_deal n k s : 0 < k -> length s = n ->
  val_sizes n k = map (fun p => length (deal k p 0 s)) (seq 0 k).
Proof.
  intros Hk Hn. unfold val_sizes. apply map_ext_in. intros p Hp. apply in_seq in Hp.
  rewrite deal_length, Hn. destruct (cnt_div k p 0 n ltac:(lia)) as [E _]. rewrite E.
  rewrite cnt_small by (pose proof (Nat.mod_upper_bound n k); lia). reflexivity.
Qed.

Section Balanced.
Context {A : Type}.
Variable dflt : A.

Theorem cv_balanced_spec members k m (d : @data A) c :
  cv_balanced dflt members k m d = Some c ->
  contiguous_cv c (val_sizes (nelems d) k) /\
  map (fold_elems (cv_set c)) (cv_folds c) =
    map (fun p => map (fun i => nth i (elems d) dflt) (fold_positions members k p)) (seq 0 k) /\
  (forall s, In s (sizes (cv_set c)) -> 1 <= s <= m).
Proof.
  unfold cv_balanced. set (s := concat members).
  destruct (_ || _) eqn:G; [discriminate|].
  apply orb_false_elim in G. destruct G as [G G3]. apply orb_false_elim in G. destruct G as [G1 G2].
  apply Nat.eqb_neq in G1. apply negb_false_iff in G2. apply Nat.eqb_eq in G2.
  destruct (batch_partitioning _ _ _) as [[starts bs]|] eqn:BP; [|discriminate]. intros [= <-].
  destruct (val_sizes_spec (nelems d) k ltac:(lia)) as (V1 & _ & _).
  assert (Hlen : length (dealt_order s k) = length s).
  { apply Permutation_length. apply dealt_order_perm. lia. }
  pose proof (regroup_cv_spec dflt _ _ _ _ (dealt_order s k) d BP ltac:(lia)) as R. cbv zeta in R.
  destruct R as (R1 & R2 & R3). split; [exact R1|]. split; [|exact R3].
  destruct R1 as (R1 & _). rewrite R1, R2.
  rewrite dealt_order_deal. rewrite flat_map_concat_map, concat_map, map_map, <- flat_map_concat_map.
  unfold fold_positions. fold s.
  rewrite <- (slices_flat_map (fun p => map (fun i => nth i (elems d) dflt) (deal k p 0 s)) (seq 0 k)).
  f_equal. rewrite (val_sizes_deal (nelems d) k s) by (auto; lia).
  apply map_ext. intros p. rewrite map_length. reflexivity.
Qed.

End Balanced.

(* class balance, read off the label container of the reorganised set *)
Theorem cv_balanced_class_balance members k m (lab : @data nat) c :
  valid_members (elems lab) members = true -> cv_balanced 0 members k m lab = Some c ->
  forall cl p, cl < length members -> p < k ->
    let n_c := count_in (elems lab) cl in
    let off_c := sum (map (count_in (elems lab)) (seq 0 cl)) in
    count_in (nth p (map (fold_elems (cv_set c)) (cv_folds c)) []) cl = n_c / k + cnt k p off_c (n_c mod k) /\
    cnt k p off_c (n_c mod k) <= 1.
Proof.
  intros V H cl p Hcl Hp. destruct (cv_balanced_spec 0 _ _ _ _ _ H) as (_ & E & _). rewrite E.
  rewrite nth_indep with (d' := (fun q => map (fun i => nth i (elems lab) 0) (fold_positions members k q)) 0)
    by (rewrite map_length, seq_length; auto).
  rewrite (map_nth (fun q => map (fun i => nth i (elems lab) 0) (fold_positions members k q))).
  rewrite seq_nth by auto. simpl.
  apply balanced_class_counts; auto.
Qed.

Corollary cv_balanced_class_counts_differ_by_at_most_one members k m (lab : @data nat) c :
  valid_members (elems lab) members = true -> cv_balanced 0 members k m lab = Some c ->
  forall cl p q, cl < length members -> p < k -> q < k ->
    count_in (nth p (map (fold_elems (cv_set c)) (cv_folds c)) []) cl
    <= count_in (nth q (map (fold_elems (cv_set c)) (cv_folds c)) []) cl + 1.
Proof.
  intros V H cl p q Hcl Hp Hq.
  destruct (cv_balanced_class_balance _ _ _ _ _ V H cl p Hcl Hp) as [E1 B1].
  destruct (cv_balanced_class_balance _ _ _ _ _ V H cl q Hcl Hq) as [E2 B2].
  cbv zeta in *. lia.
Qed.
