(* C05 — the operation orders of NormalizedKernel (C05Norm.v) in IEEE binary64 (Flocq 4.1: IEEE754.Bits b64_mult / b64_div / b64_sqrt,
   round to nearest even): the two coded orders and the documented one-division order, equal in every ordered field
   (C05NormProofs.v), are NOT equivalent on doubles.  Witnesses evaluated inside Coq (vm_compute), compared through their bit patterns. *)
From Coq Require Import ZArith.
From Flocq Require Import Core.Core IEEE754.BinarySingleNaN IEEE754.Binary IEEE754.Bits.
From SharkV Require Import C05Norm.

Definition d_mul : binary64 -> binary64 -> binary64 := b64_mult mode_NE.
Definition d_div : binary64 -> binary64 -> binary64 := b64_div mode_NE.
Definition d_sqrt : binary64 -> binary64 := b64_sqrt mode_NE.
(* the double 2^e (normal range) *)
Definition d_pow2 (e : Z) : binary64 := b64_of_bits ((e + 1023) * 2 ^ 52)%Z.
Definition d_bits := bits_of_b64.
Definition bits_one : Z := (1023 * 2 ^ 52)%Z.          (* 1.0 *)
Definition bits_pinf : Z := (2047 * 2 ^ 52)%Z.         (* +infinity *)

Definition d_single := norm_single binary64 d_div d_sqrt.
Definition d_batch := norm_batch binary64 d_mul d_div d_sqrt.
Definition d_doc := norm_doc binary64 d_mul d_div d_sqrt.

(* k(x,x) = 2^600 (a degree-8 polynomial kernel on entries ~ 1e11, a linear kernel on entries ~ 1e90): the coded orders return 1 on
   the diagonal, the one-division order returns 0 (2^600 * 2^600 overflows to +inf, sqrt(inf) = inf, 2^600 / inf = 0) *)
Lemma norm_orders_overflow_witness :
  let a := d_pow2 600 in
  d_bits (d_single a a a) = bits_one /\ d_bits (d_batch a a a) = bits_one /\ d_bits (d_doc a a a) = 0%Z.
Proof. vm_compute. repeat split. Qed.

(* k(x,x) = 2^-600: the product underflows to 0, sqrt(0) = 0, 2^-600 / 0 = +inf *)
Lemma norm_orders_underflow_witness :
  let a := d_pow2 (-600) in
  d_bits (d_single a a a) = bits_one /\ d_bits (d_batch a a a) = bits_one /\ d_bits (d_doc a a a) = bits_pinf.
Proof. vm_compute. repeat split. Qed.

(* off the diagonal: v = 3 * 2^598, a = 2^600, b = 9 * 2^598 (all finite, quotient 0.5 exactly: v / 2^300 / (3 * 2^299)) *)
Definition d_of_int (m : Z) (e : Z) : binary64 := binary_normalize 53 1024 (eq_refl _) (eq_refl _) mode_NE m e false.
Lemma norm_orders_offdiagonal_witness :
  let v := d_of_int 3 598 in let a := d_pow2 600 in let b := d_of_int 9 598 in
  d_bits (d_single v a b) = d_bits (d_of_int 1 (-1)) /\ d_bits (d_batch v a b) = d_bits (d_of_int 1 (-1)) /\ d_bits (d_doc v a b) = 0%Z.
Proof. vm_compute. repeat split. Qed.

(* the refutation: the documented order is not a correct implementation of the coded ones on binary64 *)
Theorem norm_doc_order_not_equivalent_binary64 :
  ~ (forall v a b : binary64, d_bits (d_doc v a b) = d_bits (d_single v a b)).
Proof.
  intros H. specialize (H (d_pow2 600) (d_pow2 600) (d_pow2 600)).
  destruct norm_orders_overflow_witness as (E1 & _ & E3). cbv zeta in E1, E3. rewrite E1, E3 in H. discriminate H.
Qed.
