(* C15 — closed-form trainers: executable model over Q (exact rationals), definitions only.
   Mirrors
     include/shark/Data/Impl/Statistics.inl   mean / meanvar (vector form) / meanvar (matrix form):
        per-batch column sums accumulated over the batches, then ONE division by numberOfElements
        (biased convention 1/n for variance and covariance — the code never divides by n-1,
        although the doc comment of covariance() says 1/(n-1));
     NormalizeComponentsUnitVariance.h         diag = 1/stddev, offset = -mean/stddev; stddev == 0 -> (0,0);
     NormalizeComponentsUnitInterval.h         diag = 1/(max-min), offset = -min/(max-min);
                                               min == max -> (0, 1/2)   (before the repair d1f9a025: (0, -min + 1/2), finding F17,
                                               kept below as ui_params_coded);
     src/Algorithms/LinearRegression.cpp       A = sum_b (X_b|1)^T (X_b|1) + lambda on the first d diagonal entries,
                                               T = sum_b (X_b|1)^T L_b   (NO division by n: lambda is relative to the
                                               SUM of squared errors);
     src/Algorithms/LDA.cpp (weighted train)   class weights, weighted class means, second moment / weightSum minus
                                               sum_c (W_c/W) m_c m_c^T, priors W_c/W.
   A dataset is a list of batches (C03Model.data); a feature is a function X -> Q (for vectors: nth j).
   sqrt is not a function on Q: the unit-variance parameters take the standard deviation s as an argument
   (law s*s == variance stated where it is used) and uv_accept is the multiplicative acceptance test.
   Eigen-decompositions / the semi-definite solver are not modelled: the trainers built on them (whitening, ZCA,
   PCA, LDA, linear regression) are modelled by the EXACT evaluation of the property's predicate on the
   parameters the implementation returned (doubles are rationals): gradient of the regularised error, mean and
   covariance of the model output on the training data, Gram matrix of the directions, eigen-equation and
   solver residuals. *)
From Coq Require Import List Arith Bool QArith.
From SharkV Require Import ListAux C03Model.
Import ListNotations.
Open Scope Q_scope.

Section Stats.
Context {X : Type}.

(* sum(as_columns(batch)) for one feature *)
(* Qred (reduction to lowest terms, Qred q == q) keeps the numbers of the extracted program small; it has no
   counterpart in the C++ and no influence on the value (C15Proofs.bsum_cons / dsum_cons). *)
Definition bsum (f : X -> Q) (b : list X) : Q := fold_right (fun x a => Qred (f x + a)) 0 b.
(* accumulation over the batches *)
Definition dsum (f : X -> Q) (d : @data X) : Q := fold_right (fun b a => Qred (bsum f b + a)) 0 d.
Definition qlen (l : list X) : Q := inject_Z (Z.of_nat (length l)).
(* double(data.numberOfElements()) *)
Definition count (d : @data X) : Q := inject_Z (Z.of_nat (nelems d)).

Definition mean (f : X -> Q) (d : @data X) : Q := dsum f d / count d.
Definition var (f : X -> Q) (d : @data X) : Q :=
  let m := mean f d in dsum (fun x => (f x - m) * (f x - m)) d / count d.
Definition cov (f g : X -> Q) (d : @data X) : Q :=
  let mf := mean f d in let mg := mean g d in dsum (fun x => (f x - mf) * (g x - mg)) d / count d.

(* the same statistics of a plain element list (the documented meaning) *)
Definition lmean (f : X -> Q) (l : list X) : Q := bsum f l / qlen l.
Definition lvar (f : X -> Q) (l : list X) : Q :=
  let m := lmean f l in bsum (fun x => (f x - m) * (f x - m)) l / qlen l.
Definition lcov (f g : X -> Q) (l : list X) : Q :=
  let mf := lmean f l in let mg := lmean g l in bsum (fun x => (f x - mf) * (g x - mg)) l / qlen l.

(* ---- NormalizeComponentsUnitInterval: min/max start at element 0 and fold over the rest ---- *)
Definition qmin (a b : Q) : Q := if Qle_bool a b then a else b.   (* std::min(a,b): b only if b < a *)
Definition qmax (a b : Q) : Q := if Qle_bool b a then a else b.
Definition fmin (f : X -> Q) (x0 : X) (l : list X) : Q := fold_left (fun m x => qmin m (f x)) l (f x0).
Definition fmax (f : X -> Q) (x0 : X) (l : list X) : Q := fold_left (fun m x => qmax m (f x)) l (f x0).

(* ---- weighted sums (AbstractWeightedTrainer / LDA weighted train) ---- *)
Definition wsum (w f : X -> Q) (l : list X) : Q := bsum (fun x => w x * f x) l.
Definition wratio (w f g : X -> Q) (l : list X) : Q := wsum w f l / wsum w g l.
Definition wmean (w f : X -> Q) (l : list X) : Q := wratio w f (fun _ => 1) l.
Definition wvar (w f : X -> Q) (l : list X) : Q :=
  let m := wmean w f l in wratio w (fun x => (f x - m) * (f x - m)) (fun _ => 1) l.
Definition wcov (w f g : X -> Q) (l : list X) : Q :=
  let mf := wmean w f l in let mg := wmean w g l in
  wratio w (fun x => (f x - mf) * (g x - mg)) (fun _ => 1) l.

End Stats.

(* ---- normaliser parameters ---- *)
(* NormalizeComponentsUnitVariance: s = sqrt(variance) *)
Definition uv_params (s m : Q) : Q * Q :=
  if Qeq_bool s 0 then (0, 0) else (1 / s, - m / s).
(* multiplicative acceptance test for a (diag, offset) pair returned by the trainer (zeroMean = true) *)
Definition uv_accept (v m dg off : Q) : bool :=
  if Qeq_bool v 0 then Qeq_bool dg 0 && Qeq_bool off 0
  else Qle_bool 0 dg && Qeq_bool (dg * dg * v) 1 && Qeq_bool off (- m * dg).

(* NormalizeComponentsUnitInterval: the property ("the unit interval as range"); a constant feature is sent
   to the middle of the interval.  This is the model the implementation is compared with. *)
Definition ui_params (mn mx : Q) : Q * Q :=
  if Qeq_bool mn mx then (0, 1 # 2)
  else let n := 1 / (mx - mn) in (n, - mn * n).
(* REGRESSION WITNESS, not the current code: the parameters as coded BEFORE the repair d1f9a025 (finding F17):
   offset = -min + 0.5 for a constant feature, so the output was 0.5 - c instead of 0.5
   (C15Proofs.ui_coded_constant_output).  Since d1f9a025 the C++ computes ui_params above. *)
Definition ui_params_coded (mn mx : Q) : Q * Q :=
  if Qeq_bool mn mx then (0, - mn + (1 # 2))
  else let n := 1 / (mx - mn) in (n, - mn * n).

Definition affine (p : Q * Q) (v : Q) : Q := fst p * v + snd p.

(* ---- finite sums over an index range ---- *)
Fixpoint sumn (n : nat) (f : nat -> Q) : Q :=
  match n with O => 0 | S n' => Qred (sumn n' f + f n') end.
Definition delta (i k : nat) : Q := if (i =? k)%nat then 1 else 0.

(* ---- LinearRegression: the assembled system ---- *)
Definition sample := (list Q * list Q)%type.          (* (input, label) *)
Definition ext (d : nat) (x : list Q) (k : nat) : Q := if (k <? d)%nat then nth k x 0 else 1.   (* row of (P|1) *)
Definition lr_A (d : nat) (lam : Q) (data : @data sample) (j k : nat) : Q :=
  dsum (fun p => ext d (fst p) j * ext d (fst p) k) data
  + (if ((j =? k)%nat && (j <? d)%nat)%bool then lam else 0).
Definition lr_T (d : nat) (data : @data sample) (j c : nat) : Q :=
  dsum (fun p => ext d (fst p) j * nth c (snd p) 0) data.
(* "beta solves the assembled system" for output column c; beta k (k<d) = weights, beta d = bias *)
Definition lr_solves (d : nat) (lam : Q) (data : @data sample) (c : nat) (beta : nat -> Q) : Prop :=
  forall j, (j <= d)%nat -> sumn (S d) (fun k => lr_A d lam data j k * beta k) == lr_T d data j c.
Definition lr_pred (d : nat) (beta : nat -> Q) (x : list Q) : Q := sumn (S d) (fun k => ext d x k * beta k).
(* regularised squared error  sum_i (w.x_i + b - y_i)^2 + lambda |w|^2  (bias not regularised) *)
Definition lr_err (d : nat) (lam : Q) (data : @data sample) (c : nat) (beta : nat -> Q) : Q :=
  dsum (fun p => (lr_pred d beta (fst p) - nth c (snd p) 0) * (lr_pred d beta (fst p) - nth c (snd p) 0)) data
  + lam * sumn d (fun k => beta k * beta k).
(* its gradient, component j *)
Definition lr_grad (d : nat) (lam : Q) (data : @data sample) (c : nat) (beta : nat -> Q) (j : nat) : Q :=
  2 * dsum (fun p => (lr_pred d beta (fst p) - nth c (snd p) 0) * ext d (fst p) j) data
  + (if (j <? d)%nat then 2 * lam * beta j else 0).
(* residual of the system, executable: used by the check on the C++ solution *)
Definition lr_residual (d : nat) (lam : Q) (data : @data sample) (c : nat) (beta : nat -> Q) (j : nat) : Q :=
  sumn (S d) (fun k => lr_A d lam data j k * beta k) - lr_T d data j c.

(* ---- LDA, weighted train: statistics the rule is built from ---- *)
Definition wsample := ((list Q * nat) * Q)%type.      (* ((input, label), weight) *)
Definition s_w (p : wsample) : Q := snd p.
Definition s_x (j : nat) (p : wsample) : Q := nth j (fst (fst p)) 0.
Definition s_in (c : nat) (p : wsample) : Q := if (snd (fst p) =? c)%nat then 1 else 0.
Definition one (p : wsample) : Q := 1.
Definition lda_classweight (c : nat) (l : list wsample) : Q := wsum s_w (s_in c) l.
Definition lda_prior (c : nat) (l : list wsample) : Q := wratio s_w (s_in c) one l.
Definition lda_mean (c j : nat) (l : list wsample) : Q :=
  wratio s_w (fun p => s_in c p * s_x j p) (s_in c) l.
Definition lda_cov (K : nat) (lam : Q) (j k : nat) (l : list wsample) : Q :=
  wratio s_w (fun p => s_x j p * s_x k p) one l
  - sumn K (fun c => lda_prior c l * (lda_mean c j l * lda_mean c k l))
  + (if (j =? k)%nat then lam else 0).

(* unweighted train: pooled covariance with the divisor n - K (LDA.cpp, first overload); the regularisation
   is added only when lam > 0 *)
Definition lda_count (c : nat) (l : list wsample) : Q := wsum one (s_in c) l.
Definition lda_mean_u (c j : nat) (l : list wsample) : Q :=
  wratio one (fun p => s_in c p * s_x j p) (s_in c) l.
Definition lda_cov_u (K : nat) (lam : Q) (j k : nat) (l : list wsample) : Q :=
  (wsum one (fun p => s_x j p * s_x k p) l
   - sumn K (fun c => lda_count c l * (lda_mean_u c j l * lda_mean_u c k l)))
  / (wsum one one l - inject_Z (Z.of_nat K))
  + (if (j =? k)%nat then (if Qle_bool lam 0 then 0 else lam) else 0).
(* residual of the solver contract  z_c C = m_c  and the data-dependent part of the bias *)
Definition lda_residual (d : nat) (C : nat -> nat -> Q) (m z : nat -> Q) (k : nat) : Q :=
  sumn d (fun j => z j * C j k) - m k.
Definition lda_bias_part (d : nat) (m z : nat -> Q) : Q := - (1 # 2) * sumn d (fun j => m j * z j).

(* ---- linear models on vectors (whitening, ZCA, PCA encoder/decoder) ---- *)
Definition feat (j : nat) (x : list Q) : Q := nth j x 0.
(* component a of  W x + b,  W given as function (row, column), input dimension d *)
Definition lin (d : nat) (W : nat -> nat -> Q) (b : nat -> Q) (a : nat) (x : list Q) : Q :=
  sumn d (fun j => W a j * feat j x) + b a.
(* offset = - W mean  (NormalizeComponentsWhitening, ZCA, PCA::encoder) *)
Definition center_off (d : nat) (W : nat -> nat -> Q) (D : @data (list Q)) (a : nat) : Q :=
  - sumn d (fun j => W a j * mean (feat j) D).
(* W C W^T, entry (a,c), C the covariance of the data *)
Definition wcw (d : nat) (W : nat -> nat -> Q) (D : @data (list Q)) (a c : nat) : Q :=
  sumn d (fun j => sumn d (fun l => W a j * cov (feat j) (feat l) D * W c l)).
(* Gram matrix of m directions given as columns of V (d x m): (V^T V)(i,k) *)
Definition gram (d : nat) (V : nat -> nat -> Q) (i k : nat) : Q := sumn d (fun j => V j i * V j k).
(* eigen-equation residual  (C v_i - ev_i v_i)(j) *)
Definition eig_residual (d : nat) (V : nat -> nat -> Q) (ev : nat -> Q) (D : @data (list Q)) (i j : nat) : Q :=
  sumn d (fun l => cov (feat j) (feat l) D * V l i) - ev i * V j i.
(* PCA encoder / decoder on m directions (no whitening): E x = V^T (x - mu),  D z = V z + mu *)
Definition pca_enc (d : nat) (V : nat -> nat -> Q) (mu : nat -> Q) (i : nat) (x : nat -> Q) : Q :=
  sumn d (fun j => V j i * (x j - mu j)).
Definition pca_dec (m : nat) (V : nat -> nat -> Q) (mu : nat -> Q) (j : nat) (z : nat -> Q) : Q :=
  sumn m (fun i => V j i * z i) + mu j.
Definition pca_proj (d m : nat) (V : nat -> nat -> Q) (mu : nat -> Q) (x : nat -> Q) (j : nat) : Q :=
  pca_dec m V mu j (fun i => pca_enc d V mu i x).

(* ---- NormalizeComponentsZCA (after the repair 2b5526e7): only the k eigen-directions with positive variance are
   rescaled, the others are mapped to 0:  W = r * sum_{i<k} (1/s_i) v_i v_i^T  (s_i = sqrt(ev_i), r = sqrt(tv)) ---- *)
Definition zca_mat (k : nat) (V : nat -> nat -> Q) (s : nat -> Q) (r : Q) (a j : nat) : Q :=
  sumn k (fun i => r / s i * V a i * V j i).
(* V_k V_k^T: the orthogonal projector onto the span of the first k directions (= range of the covariance) *)
Definition proj (k : nat) (V : nat -> nat -> Q) (a c : nat) : Q := sumn k (fun i => V a i * V c i).
