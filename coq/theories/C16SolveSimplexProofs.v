(* C16 — the decomposition loop QpSolver::solve on QpMcSimplexDecomp (model C16Select.mc_solve_steps with simplex =
   true): for every amount of fuel the invariant holds, every selected working set is inside the active set, and on
   the exit "accuracy reached" all variables are active and checkKKT over all examples is < eps.
   The point that needs an argument: after the accuracy test failed on the unshrunk problem (checkKKT >= eps), shrink()
   must not remove everything, otherwise the re-selection would hand an inactive variable to updateSMO.  A variable with
   alpha > 0, or with positive gradient in an example below its bound, is never removed by shrink() (case 1 removes
   alpha == 0 variables of examples AT the bound, case 2 variables with negative gradient), and a state without such a
   variable has checkKKT = 0. *)
From Coq Require Import QArith Qminmax Lqa Arith Bool List Lia.
From SharkV Require Import C08Model C08Defs C08Aux C08Proofs C07Proofs C16Model C16State C16Proofs C16ProofsMc C16StateDefs
  C16GradProofs C16SmoProofs C16SmoSimplexProofs C16TablesProofs C16DeactProofs C16UnshrinkProofs C16ShrinkProofs
  C16SimplexShrinkProofs C16HistProofs C16ProofsGain C16Select C16SelectSimplexProofs.
Import ListNotations.
Open Scope Q_scope.

Section SolveSimplex.
Variable P ncl n : nat.
Variable C : Q.
Variable Mrow : nat -> list (nat * Q).
Variable Mdef : nat -> Q.
Variable K0 : nat -> nat -> Q.
Hypothesis HM : Mwf P Mrow.
Hypothesis HMs : Msym P ncl Mrow Mdef.
Hypothesis HKs : K0sym K0.
Hypothesis HD : Qdiag_nonneg P ncl Mrow Mdef K0.
Hypothesis HC : 0 < C.
Variable y0 : nat -> nat.

Notation Inv_tab := (Inv_tab P n).
Notation nv := (nv P n).
Notation Inv_all := (Inv_all P ncl n C Mrow Mdef K0 y0).
Notation Inv_hist := (Inv_hist P ncl n C Mrow Mdef K0 y0).
Notation mstepQ := (mstepQ P ncl n C Mrow Mdef K0).
Notation unshrinkQ := (unshrinkQ P ncl n Mrow Mdef K0).
Notation solveQ := (mc_solve_steps qops qlowest qtiny qmicro P ncl n C Mrow Mdef K0).

(* a variable shrink() never removes *)
Definition Wv (s : qmst) (v : nat) : Prop := 0 < malpha s v \/ (evsum s (vex s v) < C /\ 0 < mgrad s v).
Definition SMover (s : qmst) : Prop := exists v, (v < actvar s)%nat /\ Wv s v.

Lemma Wv_deact_var (s : qmst) x z : Wv (deact_var s x) (sw x (actvar s - 1) z) <-> Wv s z.
Proof.
  destruct (dv_counts s x) as (_ & _ & _ & _ & K5 & _). unfold Wv.
  rewrite dv_alpha, dv_grad, dv_vex, K5, !sw_invol. tauto.
Qed.

Lemma smover_deact_var (s : qmst) x : (x < actvar s)%nat -> ~ Wv s x -> SMover s -> SMover (deact_var s x).
Proof.
  intros Hx NW (v & Hv & Wvv). assert (Nvx : v <> x) by (intro E; subst v; contradiction).
  exists (sw x (actvar s - 1) v). destruct (dv_counts s x) as (K1 & _). rewrite K1. split.
  - apply (sg_active s x Hx). split; assumption.
  - apply Wv_deact_var. exact Wvv.
Qed.

Lemma smover_deact_ex (s : qmst) e : Inv_tab s -> (e < actex s)%nat -> eact s e = 0%nat -> SMover s -> SMover (deact_ex P s e).
Proof.
  intros I He Hz (v & Hv & Wvv). destruct (deact_ex_plain P s e) as (A1 & A2 & _ & _ & _ & A6 & _).
  exists v. rewrite A6. split; [exact Hv|].
  assert (Hvn : (v < nv)%nat) by (pose proof (it_av _ _ _ I); lia).
  unfold Wv. rewrite A1, A2.
  destruct (Nat.eq_dec e (actex s - 1)) as [E|N].
  - unfold deact_ex. destruct (Nat.eqb_spec e (actex s - 1)) as [_|X]; [|contradiction]. cbn [evsum vex]. exact Wvv.
  - destruct (de_fields P s e N) as (_ & _ & _ & _ & _ & _ & _ & _ & _ & _ & _ & _ & _ & _ & G6 & _).
    rewrite (de_vex P n s e I He Hz N v Hvn), G6, sw_invol. exact Wvv.
Qed.

Lemma smover_sdeact_var (s : qmst) x : Inv_tab s -> (x < actvar s)%nat -> ~ Wv s x -> SMover s -> SMover (sdeact_var P s x).
Proof.
  intros I Hx NW Hm. unfold sdeact_var. pose proof (smover_deact_var s x Hx NW Hm) as H1.
  destruct (Nat.eqb_spec (eact (deact_var s x) (vex s x)) 0) as [Z|_]; [|exact H1].
  apply smover_deact_ex; [apply deact_var_tab; assumption | | exact Z | exact H1].
  destruct (dv_counts s x) as (_ & K2 & _). rewrite K2. apply (it_actex _ _ _ I). exact Hx.
Qed.

(* the values seen through the slots below the removed one do not change *)
Lemma Wv_slot_below (s : qmst) e q b : Inv_tab s -> (e < n)%nat -> (q < eact s e)%nat -> (b < q)%nat ->
  let x := eavar s e q in
  Wv (deact_var s x) (eavar (deact_var s x) e b) <-> Wv s (eavar s e b).
Proof.
  intros I He Hq Hb x.
  assert (HqP : (q < P)%nat) by (pose proof (it_actle _ _ _ I e He); lia).
  assert (Hx : (x < actvar s)%nat) by (apply (it_act _ _ _ I e q He HqP); exact Hq).
  destruct (it_avar _ _ _ I e q He HqP) as (_ & Vex & Vidx). fold x in Vex, Vidx.
  rewrite (dv_eavar P n s x I Hx e b He ltac:(lia)). rewrite Vex, Vidx. unfold tau. rewrite Nat.eqb_refl. unfold sw at 2.
  destruct (Nat.eqb_spec b q) as [X|_]; [lia|]. destruct (Nat.eqb_spec b (eact s e - 1)) as [X|_]; [lia|].
  apply Wv_deact_var.
Qed.

Lemma smover_sdeact_down lin0 e : forall q1 (s : qmst), Inv_all lin0 true s -> (e < actex s)%nat -> q1 = eact s e ->
  (forall b, (b < q1)%nat -> ~ Wv s (eavar s e b)) -> SMover s -> SMover (sdeact_down P e q1 s).
Proof.
  induction q1 as [|q IH]; intros s IA He Hq NW Hm; cbn [sdeact_down]; [exact Hm|].
  pose proof IA as (I & _).
  assert (Hen : (e < n)%nat) by (pose proof (it_ae _ _ _ I); lia).
  assert (HqP : (q < P)%nat) by (pose proof (it_actle _ _ _ I e Hen); lia).
  set (x := eavar s e q).
  assert (Hx : (x < actvar s)%nat) by (apply (it_act _ _ _ I e q Hen HqP); lia).
  destruct (it_avar _ _ _ I e q Hen HqP) as (_ & Vex & Vidx). fold x in Vex, Vidx.
  pose proof (smover_sdeact_var s x I Hx (NW q ltac:(lia)) Hm) as Hm1.
  destruct (sdeact_var_all P ncl n C Mrow Mdef K0 y0 lin0 true s x IA Hx) as [IA1 _].
  destruct (sdeact_var_actex P n s x I Hx) as [_ A2].
  destruct q as [|q']; [exact Hm1|].
  assert (Eact : eact (deact_var s x) e = S q') by (rewrite dv_eact, Vex, Nat.eqb_refl; lia).
  rewrite Vex in A2. rewrite (A2 ltac:(rewrite Eact; lia)) in *.
  destruct (dv_counts s x) as (_ & K2 & _).
  apply IH; try assumption; try (rewrite K2; exact He).
  - symmetry. exact Eact.
  - intros b Hb. intro X. apply (NW b ltac:(lia)).
    apply (Wv_slot_below s e (S q') b I Hen ltac:(lia) Hb). exact X.
Qed.

Lemma smover_case1 lin0 up down e : forall p (s : qmst), Inv_all lin0 true s -> (e < actex s)%nat -> (p <= eact s e)%nat ->
  evsum s e == C -> (forall b, (b < p)%nat -> mgrad s (eavar s e b) <= up) -> SMover s ->
  SMover (sshrink_case1 qops P C up down e p s).
Proof.
  induction p as [|p IH]; intros s IA He Hp HV Hup Hm; cbn [sshrink_case1]; [exact Hm|].
  pose proof IA as (I & _).
  assert (Hen : (e < n)%nat) by (pose proof (it_ae _ _ _ I); lia).
  assert (HpP : (p < P)%nat) by (pose proof (it_actle _ _ _ I e Hen); lia).
  set (x := eavar s e p).
  assert (Hx : (x < actvar s)%nat) by (apply (it_act _ _ _ I e p Hen HpP); lia).
  destruct (it_avar _ _ _ I e p Hen HpP) as (_ & Vex & Vidx). fold x in Vex, Vidx.
  destruct (o_eqb qops (malpha s x) (o_zero qops) && o_ltb qops (o_sub qops (mgrad s x) down) (o_zero qops)) eqn:Rm.
  - apply andb_true_iff in Rm. destruct Rm as [Rm _]. cbn [o_eqb o_zero qops] in Rm. apply qeqb_true in Rm.
    assert (NW : ~ Wv s x) by (intros [X|[X _]]; [lra | rewrite Vex in X; lra]).
    pose proof (smover_sdeact_var s x I Hx NW Hm) as Hm1.
    destruct (sdeact_var_all P ncl n C Mrow Mdef K0 y0 lin0 true s x IA Hx) as [IA1 _].
    destruct (sdeact_var_actex P n s x I Hx) as [_ A2].
    destruct p as [|p']; [exact Hm1|].
    assert (Eact : eact (deact_var s x) e = (eact s e - 1)%nat) by (rewrite dv_eact, Vex, Nat.eqb_refl; reflexivity).
    rewrite Vex in A2. rewrite (A2 ltac:(rewrite Eact; lia)) in *.
    destruct (dv_counts s x) as (_ & K2 & _ & _ & K5 & _).
    apply IH; try assumption; try (rewrite K2; exact He).
    + rewrite Eact. lia.
    + intros b Hb.
      rewrite (dv_eavar P n s x I Hx e b Hen ltac:(lia)), dv_grad, sw_invol.
      rewrite Vex, Vidx. unfold tau. rewrite Nat.eqb_refl. unfold sw.
      destruct (Nat.eqb_spec b (S p')) as [X|_]; [lia|].
      destruct (Nat.eqb_spec b (eact s e - 1)) as [X|_]; [lia|]. apply Hup. lia.
  - destruct (o_eqb qops (malpha s x) C && o_ltb qops (o_sub qops up (mgrad s x)) (o_zero qops)) eqn:Dead.
    + exfalso. apply andb_true_iff in Dead. destruct Dead as [_ D2]. cbn [o_ltb o_sub o_zero qops] in D2.
      apply qltb_true in D2. pose proof (Hup p ltac:(lia)) as U. fold x in U. lra.
    + apply IH; try assumption; [lia | intros b Hb; apply Hup; lia].
Qed.

Lemma smover_example lin0 (s : qmst) e : Inv_all lin0 true s -> (e < actex s)%nat -> SMover s -> SMover (sshrink_example qops P C s e).
Proof.
  intros IA He Hm. unfold sshrink_example.
  destruct (o_ltb qops (o_zero qops) (mvp_down qops s e (eact s e)) && o_eqb qops (evsum s e) C &&
            o_ltb qops (o_zero qops) (o_sub qops (mvp_up qops s e (eact s e)) (mvp_down qops s e (eact s e)))) eqn:C1.
  - apply andb_true_iff in C1. destruct C1 as [C1 _]. apply andb_true_iff in C1. destruct C1 as [_ C1].
    cbn [o_eqb qops] in C1. apply qeqb_true in C1.
    apply (smover_case1 lin0); try assumption; [lia|]. intros b Hb. apply mvp_up_ge. exact Hb.
  - destruct (o_eqb qops (evsum s e) (o_zero qops) && o_ltb qops (mvp_up qops s e (eact s e)) (o_zero qops) &&
              o_ltb qops (o_zero qops) (mvp_down qops s e (eact s e))) eqn:C2; [|exact Hm].
    pose proof IA as (I & _ & _ & SI).
    assert (Hen : (e < n)%nat) by (pose proof (it_ae _ _ _ I); lia).
    destruct (simplex_case2_sound s e) as [X _]; [|exact C2|].
    + intros b Hb. destruct (SI e Hen) as (A1 & _). pose proof (it_actle _ _ _ I e Hen).
      destruct (it_avar _ _ _ I e b Hen ltac:(lia)) as (Y1 & Y2 & Y3).
      destruct (it_v _ _ _ I _ Y1) as (_ & Vp & _ & Vvar & _). rewrite Y2 in Vvar.
      specialize (A1 (vp s (eavar s e b)) Vp). unfold valpha in A1. rewrite Vvar in A1. exact A1.
    + apply (smover_sdeact_down lin0); try assumption; [reflexivity|].
      intros b Hb [W1|[_ W2]]; destruct (X b Hb) as [X1 X2]; lra.
Qed.

Lemma smover_loop lin0 : forall i (s : qmst), Inv_all lin0 true s -> (i <= actex s)%nat -> SMover s -> SMover (sshrink_loop qops P C i s).
Proof.
  induction i as [|e IH]; intros s IA Hi Hm; cbn [sshrink_loop]; [exact Hm|].
  destruct (sshrink_example_all P ncl n C Mrow Mdef K0 y0 lin0 s e IA ltac:(lia)) as (IA1 & _ & A1).
  apply IH; [exact IA1 | lia | apply (smover_example lin0); [exact IA | lia | exact Hm]].
Qed.

Lemma smover_unshrink (s : qmst) : Inv_tab s -> SMover s -> SMover (unshrinkQ s).
Proof.
  intros I (v & Hv & Wvv). destruct (Nat.eq_dec (actvar s) nv) as [E|N].
  - rewrite (unshrink_id P ncl n Mrow Mdef K0 s E). exists v. split; assumption.
  - destruct (unshrink_fields P ncl n Mrow Mdef K0 s N) as (F1 & _ & F3 & _ & _ & _ & _ & _ & _ & _ & F11 & _ & _ & F14 & _).
    exists v. rewrite F14. split; [pose proof (it_av _ _ _ I); lia|].
    unfold Wv. rewrite F1, F3, F11, (unshrink_grad_active P ncl n Mrow Mdef K0 s v I Hv). exact Wvv.
Qed.

Lemma smover_simplex_shrink lin0 shrinking eps (s : qmst) : Inv_all lin0 true s -> SMover s ->
  SMover (simplex_shrinkQ P ncl n C Mrow Mdef K0 shrinking eps s).
Proof.
  intros IA Hm. unfold simplex_shrinkQ, simplex_shrink. destruct shrinking; cbn [negb]; [|exact Hm].
  set (s1 := if negb (munshr s) && o_ltb qops (skkt qops C s (actex s)) (o_mul qops (o_ten qops) eps)
             then set_unshr (unshrink qops P ncl n Mrow Mdef K0 s) true else s).
  assert (H1 : Inv_all lin0 true s1 /\ SMover s1).
  { unfold s1. destruct (negb (munshr s) && o_ltb qops (skkt qops C s (actex s)) (o_mul qops (o_ten qops) eps)); [|split; assumption].
    destruct (unshrink_all P ncl n C Mrow Mdef K0 HM y0 lin0 true s IA) as (A1 & _).
    split; [apply Inv_all_set_unshr; exact A1|].
    destruct (smover_unshrink s ltac:(apply IA) Hm) as (v & Hv & Wvv). exists v. split; [exact Hv | exact Wvv]. }
  destruct H1 as [IA1 Hm1]. apply (smover_loop lin0 (actex s1) s1); [exact IA1 | apply le_n | exact Hm1].
Qed.

(* without such a variable, with everything active, checkKKT is 0 *)
Lemma asum_nonpos (f : nat -> Q) : forall m, (forall k, (k < m)%nat -> f k <= 0) -> asumQ f m <= 0.
Proof.
  induction m as [|m IH]; intros H; cbn [asum o_add o_zero qops]; [lra|].
  assert (asumQ f m <= 0) by (apply IH; intros; apply H; lia). assert (f m <= 0) by (apply H; lia). lra.
Qed.

Lemma mvp_down_none (s : qmst) e : forall m, (forall b, (b < m)%nat -> ~ 0 < malpha s (eavar s e b)) -> mvp_down qops s e m = qbig.
Proof.
  induction m as [|m IH]; intros H; cbn [mvp_down o_big qops]; [reflexivity|].
  rewrite IH by (intros; apply H; lia). cbn [o_ltb o_zero qops].
  destruct (qltb_spec 0 (malpha s (eavar s e m))) as [[E X]|[E X]]; rewrite E; [exfalso; apply (H m); [lia | exact X] | reflexivity].
Qed.

Lemma mvp_up_le (s : qmst) e z : - qbig <= z -> forall m, (forall b, (b < m)%nat -> mgrad s (eavar s e b) <= z) -> mvp_up qops s e m <= z.
Proof.
  intros Hz. induction m as [|m IH]; intros H; cbn [mvp_up o_sub o_zero o_big o_ltb qops]; [lra|].
  assert (mvp_up qops s e m <= z) by (apply IH; intros; apply H; lia). pose proof (H m ltac:(lia)).
  destruct (qltb (mvp_up qops s e m) (mgrad s (eavar s e m))); assumption.
Qed.

Lemma nomover_kkt lin0 (s : qmst) : Inv_all lin0 true s -> actvar s = nv -> (SMover s -> False) -> skkt qops C s (actex s) == 0.
Proof.
  intros (I & _ & _ & SI) Av NM. pose proof qbig_pos as BP.
  assert (A0 : forall v, (v < nv)%nat -> ~ 0 < malpha s v).
  { intros v Hv X. apply NM. exists v. split; [rewrite Av; exact Hv | left; exact X]. }
  assert (Bound : forall m, (m <= actex s)%nat -> skkt qops C s m <= 0).
  { induction m as [|m IH]; intros Hm; [cbn [skkt o_zero qops]; lra|]. rewrite skkt_S.
    assert (Hen : (m < n)%nat) by (pose proof (it_ae _ _ _ I); lia).
    destruct (SI m Hen) as (A1 & A2 & A3 & A4 & A5).
    assert (Vs : evsum s m < C).
    { assert (asumQ (valpha s (malpha s) m) P <= 0).
      { apply asum_nonpos. intros p Hp. unfold valpha. destruct (it_var _ _ _ I m p Hen Hp) as (X & _).
        pose proof (A0 _ X). lra. }
      unfold qtiny in A4. assert (evsum s m <= (1 # 100000000000000) * C) by lra. lra. }
    assert (Slots : forall b, (b < eact s m)%nat -> (eavar s m b < nv)%nat).
    { intros b Hb. pose proof (it_actle _ _ _ I m Hen). apply (it_avar _ _ _ I m b Hen). lia. }
    rewrite (mvp_down_none s m (eact s m)) by (intros b Hb; apply A0; apply Slots; exact Hb).
    apply kstep_lub; [apply IH; lia | lra | | intros X; lra].
    intros _. apply mvp_up_le; [lra|]. intros b Hb.
    destruct (Qlt_le_dec 0 (mgrad s (eavar s m b))) as [Pg|Ng]; [|exact Ng].
    exfalso. apply NM. exists (eavar s m b). split; [rewrite Av; apply Slots; exact Hb|]. right.
    pose proof (it_actle _ _ _ I m Hen). destruct (it_avar _ _ _ I m b Hen ltac:(lia)) as (_ & Y & _). rewrite Y. split; assumption. }
  pose proof (skkt_nonneg C s (actex s)). specialize (Bound (actex s) (le_n _)). lra.
Qed.

(* ---------------- the loop ---------------- *)
Lemma evsum_le (s : qmst) lin0 : Inv_all lin0 true s -> forall e, (e < actex s)%nat -> evsum s e <= C.
Proof. intros (I & _ & _ & SI) e He. pose proof (it_ae _ _ _ I). destruct (SI e ltac:(lia)) as (_ & _ & X & _). exact X. Qed.

Theorem mc_solve_simplex shrinking eps : 0 < eps -> forall fuel it c (s : qmst), Inv_hist true s ->
  let r := solveQ true shrinking eps fuel it c s in
  Inv_hist true (sr_state r) /\
  (sr_exit r = XAccuracy -> actvar (sr_state r) = nv /\ skkt qops C (sr_state r) (actex (sr_state r)) < eps).
Proof.
  intros He. induction fuel as [|f IH]; intros it c s IH0; cbn [mc_solve_steps].
  - cbn [sr_state sr_exit]. split; [exact IH0 | intros X; discriminate].
  - unfold sel. cbn [fst snd].
    assert (Go : forall (s1 : qmst), Inv_hist true s1 -> (0 < actvar s1)%nat -> forall (c1 : scnt) (dosh : bool),
      let ij := snd (simplex_select qops qmicro P ncl C Mrow Mdef K0 s1) in
      let s2 := msmo qops qlowest qtiny P ncl C Mrow Mdef K0 true s1 (fst ij) (snd ij) in
      let s3 := if dosh then mshrink qops P ncl n C Mrow Mdef K0 true shrinking eps s2 else s2 in
      let rr := solveQ true shrinking eps f (S it) c1 s3 in
      Inv_hist true (sr_state rr) /\
      (sr_exit rr = XAccuracy -> actvar (sr_state rr) = nv /\ skkt qops C (sr_state rr) (actex (sr_state rr)) < eps)).
    { intros s1 I1 Hpos c1 dosh ij s2 s3 rr. pose proof I1 as [lin1 IA1].
      destruct (simplex_select_spec C qmicro P ncl n Mrow Mdef K0 s1 ltac:(apply IA1) (evsum_le s1 lin1 IA1)) as (_ & _ & Act).
      cbv zeta in Act. destruct (Act Hpos) as [Hi Hj]. fold ij in Hi, Hj.
      assert (W : wf_mop s1 (MSmo (fst ij) (snd ij))) by (split; assumption).
      pose proof (mstep_hist P ncl n C Mrow Mdef K0 HM HMs HKs HD HC y0 true shrinking s1 (MSmo (fst ij) (snd ij)) I1 W) as I2.
      change (mstepQ true shrinking s1 (MSmo (fst ij) (snd ij))) with s2 in I2.
      assert (I3 : Inv_hist true s3).
      { unfold s3. destruct dosh; [|exact I2].
        exact (mstep_hist P ncl n C Mrow Mdef K0 HM HMs HKs HD HC y0 true shrinking s2 (MShrink eps) I2 I). }
      apply IH. exact I3. }
    pose proof IH0 as [lin0 IA].
    destruct (simplex_select_spec C qmicro P ncl n Mrow Mdef K0 s ltac:(apply IA) (evsum_le s lin0 IA)) as (V1 & V2 & _). cbv zeta in V1, V2.
    set (r := simplex_select qops qmicro P ncl C Mrow Mdef K0 s) in *.
    cbn [o_ltb qops]. destruct (qltb_spec (fst r) eps) as [[E X]|[E X]]; rewrite E.
    + (* accuracy test *)
      destruct (unshrink_all P ncl n C Mrow Mdef K0 HM y0 lin0 true s IA) as (A1 & A2 & A3 & A4).
      set (s1 := unshrink qops P ncl n Mrow Mdef K0 s) in *.
      assert (Av : actvar s1 = nv).
      { unfold s1. destruct (Nat.eq_dec (actvar s) nv) as [Ee|Ne].
        - fold (unshrinkQ s). rewrite (unshrink_id P ncl n Mrow Mdef K0 s Ee). exact Ee.
        - apply (unshrink_fields P ncl n Mrow Mdef K0 s Ne). }
      unfold kkt. destruct (qltb_spec (skkt qops C s1 (actex s1)) eps) as [[E2 X2]|[E2 X2]]; rewrite E2.
      * cbn [sr_state sr_exit]. split; [exists lin0; exact A1|]. intros _. split; [exact Av | exact X2].
      * unfold mshrink.
        set (s2 := simplex_shrink qops P ncl n C Mrow Mdef K0 shrinking eps s1).
        destruct (simplex_shrink_all P ncl n C Mrow Mdef K0 HM y0 lin0 shrinking eps s1 A1) as (B1 & _ & _). cbv zeta in B1.
        assert (Hpos : (0 < actvar s2)%nat).
        { destruct (actvar s2) eqn:E0; [|lia]. exfalso.
          assert (NN : ~ ~ SMover s1).
          { intros NM. pose proof (nomover_kkt lin0 s1 A1 Av NM). lra. }
          apply NN. intros Hm1.
          destruct (smover_simplex_shrink lin0 shrinking eps s1 A1 Hm1) as (v & Hv & _).
          unfold simplex_shrinkQ in Hv. fold s2 in Hv. lia. }
        apply Go; [exists lin0; exact B1 | exact Hpos].
    + (* a positive violation: some active example has an active variable *)
      assert (Hpos : (0 < actvar s)%nat).
      { destruct (actvar s) eqn:E0; [|lia]. exfalso.
        assert (Z : skkt qops C s (actex s) <= 0).
        { pose proof IA as (I & _). pose proof qbig_pos as BP.
          assert (Bound : forall m, (m <= actex s)%nat -> skkt qops C s m <= 0).
          { induction m as [|m IHm]; intros Hm; [cbn [skkt o_zero qops]; lra|]. rewrite skkt_S.
            assert (Hen : (m < n)%nat) by (pose proof (it_ae _ _ _ I); lia).
            assert (Ea : eact s m = 0%nat).
            { destruct (eact s m) eqn:Em; [reflexivity|]. exfalso.
              pose proof (it_actle _ _ _ I m Hen).
              assert ((eavar s m 0 < actvar s)%nat) by (apply (it_act _ _ _ I m 0%nat Hen); lia). lia. }
            rewrite Ea. cbn [mvp_up mvp_down o_sub o_zero o_big qops].
            apply kstep_lub; [apply IHm; lia | lra | intros; lra | intros; lra]. }
          apply Bound. apply le_n. }
        lra. }
      apply Go; assumption.
Qed.

End SolveSimplex.
