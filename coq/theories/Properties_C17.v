(* C17 — Tree-based nearest-neighbour search returns exactly the nearest neighbours.
   Only statements + `exact`; proofs in C17Proofs.v, executable model in C17Model.v.

   PROVED (axiom-free, all dimensions / data sets / queries / k, points in Z^d, squared distances):
     * C17_kd_cell_lower_bound   KDTree::squaredDistanceLowerBound (lower/upper walk as coded) is a
                                 lower bound of the squared distance to every point of the cell;
     * C17_next_invariant        one call of IterativeNNQuery::next() on any state satisfying the
                                 invariant (bounds and leaf keys right, COMPLETE only above fully queued
                                 sub-trees, queue sorted, radius = squaredRadius(trace), every point not
                                 yet queued at squared distance >= the queue head once a leaf is being
                                 handed out) returns a not yet reported index of minimal distance with
                                 its true distance, and re-establishes the invariant;
     * C17_query_k_smallest, C17_query_k_smallest_dataset
                                 for every tree that is well-formed for the data (left <= threshold <=
                                 right on the cut coordinate, every leaf holds copies of ONE point =
                                 bucket size one) and every k <= n: k results, distinct indices, each
                                 reported distance is the true distance of the reported index,
                                 non-decreasing order, every point not reported is at least as far as
                                 every reported one (= the k smallest distances of the data set);
     * C17_wf_check_sound        the executable check wf_treeb, run on every real tree in tools/c17.py,
                                 implies that well-formedness;
     * C17_bucket_gt_1_refuted   witness: with a leaf holding two different points (bucket size 2) the
                                 faithful model reports a wrong distance and a wrong order (finding F4).
     * C17_kd_build_wellformed   the kd-tree CONSTRUCTION (model C17Build.kd_build of KDTree::buildTree,
                                 calculateCuttingDimension, BinaryTree::splitList, partitionEqually /
                                 median_element with medianPos = (size+1)/2, default TreeConstruction(),
                                 bucket size 1): std::nth_element is an explicit oracle argument; for EVERY
                                 oracle with the post-condition of std::nth_element (a rearrangement whose
                                 element at the median position is >= all before and <= all behind it), every
                                 non-empty data set of points of one dimension (duplicates, collinear points,
                                 points on the splitting plane included) the built tree is well-formed in
                                 the sense of the query theorems (WF) and its leaves partition 0 .. n-1;
     * C17_kd_build_then_query_correct
                                 end to end: the tree built by the construction model, queried by the model of
                                 IterativeNNQuery, returns k distinct indices with their true distances,
                                 non-decreasing, every point not reported at least as far (the k nearest
                                 neighbours) - for every data set, oracle as above, query point and k <= n;
     * C17_kd_build_oracle_independent
                                 the built tree does not depend on what std::nth_element does: any two oracles with
                                 the post-condition give the same cut dimension and threshold in every node and the
                                 same index SET in every leaf (hence in every node);
     * C17_kd_build_depth_limit_unreached
                                 the recursion never exhausts its depth budget: any budget >= number of points
                                 yields the same tree (the C++ budget is 2^32-1);
     * C17_nth_check_sound       the executable check median_okb, run in tools/c17.py on every recorded result
                                 of the real std::nth_element, implies the median part of the oracle hypothesis;
     * C17_kd_build_hypotheses_satisfiable
                                 sorting is an admissible oracle; a concrete data set with duplicates and points
                                 on the splitting planes, its tree and a query result.
   NOT PROVED, compared / monitored only:
     * the tie between the models and the C++ is a correspondence run, not a proof:
       - construction: the harness records what the real std::nth_element left behind at every node; the
         extracted kd_build gets these arrangements as its oracle (each checked with median_okb at the model's
         median position) and must reproduce the real tree: cut dimension, threshold, left/right index SET of
         every node; every real kd-tree is also checked with the extracted wf_treeb and by an independent
         well-formedness monitor (violations are reported under the key tree:build-wf);
       - query: same tree, same queries, all n neighbours, queue size and radius after every call;
     * std::nth_element itself and the two std::partition calls (modelled as stable partitions) are not
       verified; thresholds: the model halves with Z division, exact on the doubled integer coordinates the
       correspondence run uses, the C++ computes 0.5*(max+min) in double; the depth limit 2^32-1 and
       TreeConstruction with maxDepth / bucket size > 1 are outside the construction model;
     * LC-trees, kernel (KHC) trees, bucket sizes > 1, NearestNeighborModel predictions: exhaustive-
       search monitor only. *)
From Coq Require Import List ZArith Permutation.
From SharkV Require Import C17Model C17Proofs C17Build C17BuildProofs C17BuildIndepProofs.
Import ListNotations.
Open Scope Z_scope.

Theorem C17_kd_cell_lower_bound :
  forall (path : list pstep) (p q : point), in_cell path p -> lbound path q <= dist2 p q.
Proof. exact kd_cell_lower_bound. Qed.
Print Assumptions C17_kd_cell_lower_bound.

Theorem C17_next_invariant :
  forall (dist : nat -> Z) (s : state), Inv dist s -> pending s <> [] ->
  exists d i s', next s = Some ((d, i), s') /\ Inv dist s' /\ dist i = d /\
                 Permutation (pending s) (i :: pending s') /\
                 forall j, In j (pending s) -> d <= dist j.
Proof. exact next_spec. Qed.
Print Assumptions C17_next_invariant.

Theorem C17_query_k_smallest :
  forall (data : list point) (t : tree) (q : point) (k : nat),
  WF data [] t -> (k <= length (tindices t))%nat ->
  let res := query data t q k in
  length res = k /\
  (forall d i, In (d, i) res -> d = dist2 (pt data i) q) /\
  dsorted (map fst res) /\
  exists rest, Permutation (tindices t) (map snd res ++ rest) /\
               forall d j, In d (map fst res) -> In j rest -> d <= dist2 (pt data j) q.
Proof. exact query_correct. Qed.
Print Assumptions C17_query_k_smallest.

Theorem C17_query_k_smallest_dataset :
  forall (data : list point) (t : tree) (q : point) (k : nat),
  WF data [] t -> Permutation (tindices t) (seq 0 (length data)) -> (k <= length data)%nat ->
  let res := query data t q k in
  length res = k /\
  NoDup (map snd res) /\
  (forall d i, In (d, i) res -> (i < length data)%nat /\ d = dist2 (pt data i) q) /\
  dsorted (map fst res) /\
  (forall j, (j < length data)%nat -> ~ In j (map snd res) ->
             forall d, In d (map fst res) -> d <= dist2 (pt data j) q).
Proof. exact query_k_smallest_dataset. Qed.
Print Assumptions C17_query_k_smallest_dataset.

Theorem C17_wf_check_sound :
  forall (data : list point) (t : tree), wf_treeb data t = true -> WF data [] t.
Proof. exact wf_treeb_WF. Qed.
Print Assumptions C17_wf_check_sound.

Theorem C17_bucket_gt_1_refuted :
  let data := [[0]; [10]; [30]] in
  let t := Node 0 20 (Leaf [0%nat; 1%nat]) (Leaf [2%nat]) in
  query data t [9] 2 = [(81, 0%nat); (81, 1%nat)] /\ dist2 (pt data 1) [9] = 1 /\
  wf_treeb data t = false /\
  (forall i, In i (tindices t) -> in_cell [] (pt data i)).
Proof. exact bucket_gt_1_witness. Qed.
Print Assumptions C17_bucket_gt_1_refuted.

(* the hypotheses of C17_query_k_smallest are satisfiable *)
Theorem C17_hypotheses_satisfiable :
  let data := [[0; 2]; [4; 2]; [4; 2]; [10; -6]] in
  let t := Node 0 7 (Node 0 2 (Leaf [0%nat]) (Leaf [2%nat; 1%nat])) (Leaf [3%nat]) in
  WF data [] t /\ query data t [9; 0] 4 = [(29, 2%nat); (29, 1%nat); (37, 3%nat); (85, 0%nat)].
Proof. exact wf_example. Qed.
Print Assumptions C17_hypotheses_satisfiable.

(* ---- construction (definitions: C17Build.v; nth_spec / oracle_ok / uniform are spelled out there) ---- *)

Theorem C17_kd_build_wellformed :
  forall (data : list point) (oracle : list kv -> list kv) (dim : nat),
  data <> [] -> uniform dim data -> oracle_ok oracle ->
  WF data [] (kd_build data oracle) /\
  Permutation (tindices (kd_build data oracle)) (seq 0 (length data)).
Proof. exact kd_build_wellformed. Qed.
Print Assumptions C17_kd_build_wellformed.

Theorem C17_kd_build_then_query_correct :
  forall (data : list point) (oracle : list kv -> list kv) (dim : nat) (q : point) (k : nat),
  data <> [] -> uniform dim data -> oracle_ok oracle -> (k <= length data)%nat ->
  let res := query data (kd_build data oracle) q k in
  length res = k /\
  NoDup (map snd res) /\
  (forall d i, In (d, i) res -> (i < length data)%nat /\ d = dist2 (pt data i) q) /\
  dsorted (map fst res) /\
  (forall j, (j < length data)%nat -> ~ In j (map snd res) ->
             forall d, In d (map fst res) -> d <= dist2 (pt data j) q).
Proof. exact kd_build_then_query_correct. Qed.
Print Assumptions C17_kd_build_then_query_correct.

Theorem C17_kd_build_oracle_independent :
  forall (data : list point) (dim : nat) (o1 o2 : list kv -> list kv),
  uniform dim data -> oracle_ok o1 -> oracle_ok o2 ->
  tree_equiv (kd_build data o1) (kd_build data o2).
Proof. exact kd_build_oracle_independent. Qed.
Print Assumptions C17_kd_build_oracle_independent.

Theorem C17_kd_build_depth_limit_unreached :
  forall (data : list point) (oracle : list kv -> list kv), oracle_ok oracle ->
  forall (f1 f2 : nat) (elems : list nat), (length elems <= f1)%nat -> (length elems <= f2)%nat ->
  build f1 data oracle elems = build f2 data oracle elems.
Proof. exact build_fuel_enough. Qed.
Print Assumptions C17_kd_build_depth_limit_unreached.

Theorem C17_nth_check_sound :
  forall (mp : nat) (r : list kv), median_okb mp r = true -> median_prop mp r.
Proof. exact median_okb_sound. Qed.
Print Assumptions C17_nth_check_sound.

(* the hypotheses of the construction theorems are satisfiable *)
Theorem C17_kd_build_hypotheses_satisfiable :
  let data := [[0; 2]; [4; 2]; [4; 2]; [10; -6]; [4; 8]; [4; -6]] in
  data <> [] /\ uniform 2 data /\ oracle_ok ksort /\
  kd_build data ksort =
    Node 1 (-2) (Node 0 7 (Leaf [5%nat]) (Leaf [3%nat]))
                (Node 1 5 (Node 0 2 (Leaf [0%nat]) (Leaf [1%nat; 2%nat])) (Leaf [4%nat])) /\
  query data (kd_build data ksort) [9; 0] 3 = [(29, 1%nat); (29, 2%nat); (37, 3%nat)].
Proof. exact kd_build_example. Qed.
Print Assumptions C17_kd_build_hypotheses_satisfiable.
