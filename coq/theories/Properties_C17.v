(* C17 — Tree-based nearest-neighbour search returns exactly the nearest neighbours.
   Only statements + `exact`; proofs in C17Proofs.v, executable model in C17Model.v.

   PROVED (axiom-free, all dimensions / data sets / queries / k, points in Z^d, squared distances):
     * C17_kd_cell_lower_bound   KDTree::squaredDistanceLowerBound (lower/upper walk as coded) is a
                                 lower bound of the squared distance to every point of the cell;
     * C17_next_invariant        one call of IterativeNNQuery::next() on any state satisfying the
                                 invariant (bounds and leaf keys right, COMPLETE only above fully queued
                                 sub-trees, queue sorted, radius = squaredRadius(trace), every point not
                                 yet queued at squared distance >= the queue head once a leaf is being
                                 handed out) returns a not yet reported index of minimal distance with
                                 its true distance, and re-establishes the invariant;
     * C17_query_k_smallest, C17_query_k_smallest_dataset
                                 for every tree that is well-formed for the data (left <= threshold <=
                                 right on the cut coordinate, every leaf holds copies of ONE point =
                                 bucket size one) and every k <= n: k results, distinct indices, each
                                 reported distance is the true distance of the reported index,
                                 non-decreasing order, every point not reported is at least as far as
                                 every reported one (= the k smallest distances of the data set);
     * C17_wf_check_sound        the executable check wf_treeb, run on every real tree in tools/c17.py,
                                 implies that well-formedness;
     * C17_bucket_gt_1_refuted   witness: with a leaf holding two different points (bucket size 2) the
                                 faithful model reports a wrong distance and a wrong order (finding F4).
   NOT PROVED, compared / monitored only:
     * kd_build_wellformed (KDTree::buildTree yields a well-formed tree) is NOT a theorem: the
       threshold of BinaryTree::splitList uses `pos->key`, whose value depends on the element order
       std::nth_element leaves behind; the real tree is read back from the harness on every run and
       checked with wf_treeb — and the check does find real trees that are not well-formed (reported
       as a defect by tools/c17.py, key tree:split-threshold).
     * the tie between model and C++ (same tree, same queries, all n neighbours, queue size and
       radius after every call) is a correspondence run, not a proof;
     * LC-trees, kernel (KHC) trees, bucket sizes > 1, NearestNeighborModel predictions: exhaustive-
       search monitor only. *)
From Coq Require Import List ZArith Permutation.
From SharkV Require Import C17Model C17Proofs.
Import ListNotations.
Open Scope Z_scope.

Theorem C17_kd_cell_lower_bound :
  forall (path : list pstep) (p q : point), in_cell path p -> lbound path q <= dist2 p q.
Proof. exact kd_cell_lower_bound. Qed.
Print Assumptions C17_kd_cell_lower_bound.

Theorem C17_next_invariant :
  forall (dist : nat -> Z) (s : state), Inv dist s -> pending s <> [] ->
  exists d i s', next s = Some ((d, i), s') /\ Inv dist s' /\ dist i = d /\
                 Permutation (pending s) (i :: pending s') /\
                 forall j, In j (pending s) -> d <= dist j.
Proof. exact next_spec. Qed.
Print Assumptions C17_next_invariant.

Theorem C17_query_k_smallest :
  forall (data : list point) (t : tree) (q : point) (k : nat),
  WF data [] t -> (k <= length (tindices t))%nat ->
  let res := query data t q k in
  length res = k /\
  (forall d i, In (d, i) res -> d = dist2 (pt data i) q) /\
  dsorted (map fst res) /\
  exists rest, Permutation (tindices t) (map snd res ++ rest) /\
               forall d j, In d (map fst res) -> In j rest -> d <= dist2 (pt data j) q.
Proof. exact query_correct. Qed.
Print Assumptions C17_query_k_smallest.

Theorem C17_query_k_smallest_dataset :
  forall (data : list point) (t : tree) (q : point) (k : nat),
  WF data [] t -> Permutation (tindices t) (seq 0 (length data)) -> (k <= length data)%nat ->
  let res := query data t q k in
  length res = k /\
  NoDup (map snd res) /\
  (forall d i, In (d, i) res -> (i < length data)%nat /\ d = dist2 (pt data i) q) /\
  dsorted (map fst res) /\
  (forall j, (j < length data)%nat -> ~ In j (map snd res) ->
             forall d, In d (map fst res) -> d <= dist2 (pt data j) q).
Proof. exact query_k_smallest_dataset. Qed.
Print Assumptions C17_query_k_smallest_dataset.

Theorem C17_wf_check_sound :
  forall (data : list point) (t : tree), wf_treeb data t = true -> WF data [] t.
Proof. exact wf_treeb_WF. Qed.
Print Assumptions C17_wf_check_sound.

Theorem C17_bucket_gt_1_refuted :
  let data := [[0]; [10]; [30]] in
  let t := Node 0 20 (Leaf [0%nat; 1%nat]) (Leaf [2%nat]) in
  query data t [9] 2 = [(81, 0%nat); (81, 1%nat)] /\ dist2 (pt data 1) [9] = 1 /\
  wf_treeb data t = false /\
  (forall i, In i (tindices t) -> in_cell [] (pt data i)).
Proof. exact bucket_gt_1_witness. Qed.
Print Assumptions C17_bucket_gt_1_refuted.

(* the hypotheses of C17_query_k_smallest are satisfiable *)
Theorem C17_hypotheses_satisfiable :
  let data := [[0; 2]; [4; 2]; [4; 2]; [10; -6]] in
  let t := Node 0 7 (Node 0 2 (Leaf [0%nat]) (Leaf [2%nat; 1%nat])) (Leaf [3%nat]) in
  WF data [] t /\ query data t [9; 0] 4 = [(29, 2%nat); (29, 1%nat); (37, 3%nat); (85, 0%nat)].
Proof. exact wf_example. Qed.
Print Assumptions C17_hypotheses_satisfiable.
