(* C17 — Tree-based nearest-neighbour search returns exactly the nearest neighbours.
   Only statements + `exact`; proofs in C17Proofs.v, executable model in C17Model.v.

   PROVED (axiom-free, all dimensions / data sets / queries / k, points in Z^d, squared distances):
     * C17_kd_cell_lower_bound   KDTree::squaredDistanceLowerBound (lower/upper walk as coded) is a
                                 lower bound of the squared distance to every point of the cell;
     * C17_next_invariant        one call of IterativeNNQuery::next() on any state satisfying the
                                 invariant (bounds and leaf keys right, COMPLETE only above fully queued
                                 sub-trees, queue sorted, radius = squaredRadius(trace), every point not
                                 yet queued at squared distance >= the queue head once a leaf is being
                                 handed out) returns a not yet reported index of minimal distance with
                                 its true distance, and re-establishes the invariant;
     * C17_query_k_smallest, C17_query_k_smallest_dataset
                                 for every tree that is well-formed for the data (left <= threshold <=
                                 right on the cut coordinate, every leaf holds copies of ONE point =
                                 bucket size one) and every k <= n: k results, distinct indices, each
                                 reported distance is the true distance of the reported index,
                                 non-decreasing order, every point not reported is at least as far as
                                 every reported one (= the k smallest distances of the data set);
     * C17_wf_check_sound        the executable check wf_treeb, run on every real tree in tools/c17.py,
                                 implies that well-formedness;
     * C17_bucket_gt_1_refuted   witness: with a leaf holding two different points (bucket size 2) the
                                 faithful model reports a wrong distance and a wrong order (finding F4).
     * C17_kd_build_wellformed   the kd-tree CONSTRUCTION (model C17Build.kd_build of KDTree::buildTree,
                                 calculateCuttingDimension, BinaryTree::splitList, partitionEqually /
                                 median_element with medianPos = (size+1)/2, default TreeConstruction(),
                                 bucket size 1): std::nth_element is an explicit oracle argument; for EVERY
                                 oracle with the post-condition of std::nth_element (a rearrangement whose
                                 element at the median position is >= all before and <= all behind it), every
                                 non-empty data set of points of one dimension (duplicates, collinear points,
                                 points on the splitting plane included) the built tree is well-formed in
                                 the sense of the query theorems (WF) and its leaves partition 0 .. n-1;
     * C17_kd_build_then_query_correct
                                 end to end: the tree built by the construction model, queried by the model of
                                 IterativeNNQuery, returns k distinct indices with their true distances,
                                 non-decreasing, every point not reported at least as far (the k nearest
                                 neighbours) - for every data set, oracle as above, query point and k <= n;
     * C17_kd_build_oracle_independent
                                 the built tree does not depend on what std::nth_element does: any two oracles with
                                 the post-condition give the same cut dimension and threshold in every node and the
                                 same index SET in every leaf (hence in every node);
     * C17_kd_build_depth_limit_unreached
                                 the recursion never exhausts its depth budget: any budget >= number of points
                                 yields the same tree (the C++ budget is 2^32-1);
     * C17_nth_check_sound       the executable check median_okb, run in tools/c17.py on every recorded result
                                 of the real std::nth_element, implies the median part of the oracle hypothesis;
     * C17_kd_build_hypotheses_satisfiable
                                 sorting is an admissible oracle; a concrete data set with duplicates and points
                                 on the splitting planes, its tree and a query result.
   PROVED, extension (axiom-free; over ANY ordered field given as a record of operations C17Field.fops with the laws
   C17Field.olaws as a hypothesis; points = lists over the field, so every finite double is covered by the instance Qc;
   sqrt is a field of the record and enters only through the hypothesis sqrt_ok x : 0 < x -> sqrt x * sqrt x = x):
     * C17_proj_cell_lower_bound  LCTree / KHCTree::squaredDistanceLowerBound (walk up the parents, v = distanceFromPlane,
                                 negated for right children, maximum with 0, squared) <= d2(p, q) for every point p of the
                                 cell, for every node type whose funct is 1-Lipschitz w.r.t. the tree's metric d2;
     * C17_lc_funct_lipschitz    LCTree::funct = inner_prod(m_normal, .) with norm_sqr(m_normal) <= 1 is 1-Lipschitz for the
                                 Euclidean distance (Cauchy-Schwarz proved for lists over the field);
     * C17_khc_funct_lipschitz   KHCTree::funct = (k(pos,.) - k(neg,.)) * m_normalInvNorm is 1-Lipschitz for the feature-
                                 space distance k(x,x) - 2k(x,y) + k(y,y) of ANY kernel k with non-negative squared feature
                                 distances (KPos) and Cauchy-Schwarz for feature differences (KCS) - hypotheses on k;
     * C17_linear_kernel_psd, C17_poly2_kernel_psd
                                 the linear kernel and PolynomialKernel(degree 2, offset c >= 0) (the two kernels of the
                                 khc / khc2 streams) satisfy KPos and KCS and are symmetric;
     * C17_gen_next_invariant, C17_proj_query_k_smallest_dataset
                                 IterativeNNQuery over an arbitrary ordered carrier and ANY BinaryTree whose bound is sound
                                 (C17_next_invariant / C17_query_k_smallest_dataset generalised: the proof uses nothing but
                                 "node bound <= distance of every point below, leaf key = distance of its points");
     * C17_lc_query_k_nearest, C17_khc_query_k_nearest
                                 every LC / KHC tree that passes the executable checks (pwf_treeb: left funct <= threshold
                                 <= right funct, a leaf holds copies of one point; unit normal) returns the k nearest
                                 neighbours w.r.t. the Euclidean / kernel-induced metric, distances true and sorted;
     * C17_proj_split_list_spec, C17_proj_split_all_equal_is_leaf, C17_proj_build_depth_limit_unreached
                                 BinaryTree::splitList / partitionEqually on keys of the field; all keys equal => the
                                 node stays a leaf (repair bfc526b8), the recursion never uses up its depth budget;
     * C17_lc_build_wellformed, C17_khc_build_wellformed, C17_lc_build_then_query_correct, C17_khc_build_then_query_correct
                                 LCTree / KHCTree::buildTree (model C17ProjBuild.pbuild; oracles: std::nth_element result with
                                 the median property, choice of the two anchors) yields a well-formed tree whose leaves
                                 partition 0..n-1, duplicates / collinear points / points on the cut included; end to end
                                 with the query: the k nearest neighbours;  KHC: any SYMMETRIC kernel with KPos / KCS;
     * C17_lc_coded_choice_admissible, C17_khc_coded_choice_admissible
                                 the anchors chosen AS CODED (sample of CuttingAccuracy points, calculateNormal's double
                                 loop with the first strict maximum, fallback of repair c6ff0316 for a degenerate sample)
                                 satisfy the hypothesis on the choice (two points of the cell, different if possible);
     * C17_proj_sort_oracle_admissible, C17_proj_nth_check_sound, C17_qc_ordered_field, C17_lc_hypotheses_satisfiable,
       C17_khc_hypotheses_satisfiable, C17_lc_build_hypotheses_satisfiable   satisfiability of all hypotheses (Qc).
   NOT PROVED, compared / monitored only:
     * the tie between the models and the C++ is a correspondence run, not a proof:
       - kd construction: the harness records what the real std::nth_element left behind at every node; the
         extracted kd_build gets these arrangements as its oracle (each checked with median_okb at the model's
         median position) and must reproduce the real tree: cut dimension, threshold, left/right index SET of
         every node; every real kd-tree is also checked with the extracted wf_treeb and by an independent
         well-formedness monitor (violations are reported under the key tree:build-wf);
       - kd query: same tree, same queries, all n neighbours, queue size and radius after every call;
       - projection trees (LC, KHC with the linear and the polynomial kernel), every quick run: the extracted model runs in
         exact rational arithmetic (Qc) on the real tree (thresholds, normals, anchors, m_normalInvNorm dumped as %.17g) and
         must reproduce squaredDistanceLowerBound of every node and distanceFromPlane of every inner node (1e-12), every
         result of next() / getNeighbors (exact), queue size and radius when no comparison of the search is within 1e-9 of
         a tie; the real tree must pass pwf_treeb (a point may sit <= 1e-12 on the wrong side when its projection ties
         with the threshold: counted as trees_wf_up_to_rounding) and have unit normals (1e-12); construction: lc_build /
         khc_build with the anchors AS CODED evaluated on the recorded order of the node's points and the recorded
         std::nth_element results must reproduce every node of the real tree (index sets and anchors exact, normals /
         thresholds / keys 1e-12) unless rounding broke or made a tie between projections of different points
         (build_float_ties, counted, the real tree is then only checked by pwf_treeb and the search monitor);
     * floating point: the theorems are about exact arithmetic; for the doubles of a real tree the unit-norm hypothesis holds
       up to 1e-16 only (nodes_norm_gt_1 in the evidence), the approximate sqrt of the driver enters the construction tie;
     * kernels other than the linear and the degree-2 polynomial kernel: the theorems apply under the hypotheses KPos / KCS
       (and symmetry for the construction), which are not proved for them;
     * std::nth_element itself and the two std::partition calls (modelled as stable partitions) are not
       verified; kd thresholds: the model halves with Z division, exact on the doubled integer coordinates the
       correspondence run uses, the C++ computes 0.5*(max+min) in double; the depth limit 2^32-1 and
       TreeConstruction with maxDepth / bucket size > 1 are outside the construction models;
     * NearestNeighborModel: PROVED (C17_vote_rearrangement_invariant, C17_vote_knear_unique, C17_vote_backends_agree): the
       prediction as coded (uniform / 1/distance weights, zero-distance rule, division by the weight sum, first maximal
       score, single score thresholded at 0; regression mean) depends only on the multiset of (distance, label) pairs of the
       neighbours, two sets of k nearest neighbours coincide when there is no tie at the k-th distance, hence both back-ends
       predict the same then.  REFUTED for ties (C17_vote_backend_tie_refuted): with a tie at the k-th distance both back-
       ends return valid neighbours with equal distances and the predictions differ (observed on every quick run, reported
       as an observation with the smallest example, not hidden).  The tie to the C++ is again a correspondence run: the
       extracted C17Vote functions, in exact rational arithmetic on the neighbour list each real back-end returned, vs the
       scores / decision / mean of NearestNeighborModel (1e-12; decisions whenever no two different scores are within
       rounding of the maximum); a monitor checks that each back-end returns k nearest neighbours;
     * bucket sizes > 1: exhaustive-search monitor only (known finding F4). *)
From Coq Require Import List ZArith QArith Permutation.
From SharkV Require Import C17Model C17Proofs C17Build C17BuildProofs C17BuildIndepProofs.
From SharkV Require Import C17Field C17Gen C17Proj C17ProjProofs C17ProjExamples.
From SharkV Require Import C17ProjBuild C17ProjBuildProofs C17ProjChooseProofs C17ProjBuildExamples.
From SharkV Require Import C17Vote C17VoteProofs C17KernelProofs.
From SharkV Require C17GenProofs.
Import ListNotations.
Open Scope Z_scope.

Theorem C17_kd_cell_lower_bound :
  forall (path : list pstep) (p q : point), in_cell path p -> lbound path q <= dist2 p q.
Proof. exact kd_cell_lower_bound. Qed.
Print Assumptions C17_kd_cell_lower_bound.

Theorem C17_next_invariant :
  forall (dist : nat -> Z) (s : state), Inv dist s -> pending s <> [] ->
  exists d i s', next s = Some ((d, i), s') /\ Inv dist s' /\ dist i = d /\
                 Permutation (pending s) (i :: pending s') /\
                 forall j, In j (pending s) -> d <= dist j.
Proof. exact next_spec. Qed.
Print Assumptions C17_next_invariant.

Theorem C17_query_k_smallest :
  forall (data : list point) (t : tree) (q : point) (k : nat),
  WF data [] t -> (k <= length (tindices t))%nat ->
  let res := query data t q k in
  length res = k /\
  (forall d i, In (d, i) res -> d = dist2 (pt data i) q) /\
  dsorted (map fst res) /\
  exists rest, Permutation (tindices t) (map snd res ++ rest) /\
               forall d j, In d (map fst res) -> In j rest -> d <= dist2 (pt data j) q.
Proof. exact query_correct. Qed.
Print Assumptions C17_query_k_smallest.

Theorem C17_query_k_smallest_dataset :
  forall (data : list point) (t : tree) (q : point) (k : nat),
  WF data [] t -> Permutation (tindices t) (seq 0 (length data)) -> (k <= length data)%nat ->
  let res := query data t q k in
  length res = k /\
  NoDup (map snd res) /\
  (forall d i, In (d, i) res -> (i < length data)%nat /\ d = dist2 (pt data i) q) /\
  dsorted (map fst res) /\
  (forall j, (j < length data)%nat -> ~ In j (map snd res) ->
             forall d, In d (map fst res) -> d <= dist2 (pt data j) q).
Proof. exact query_k_smallest_dataset. Qed.
Print Assumptions C17_query_k_smallest_dataset.

Theorem C17_wf_check_sound :
  forall (data : list point) (t : tree), wf_treeb data t = true -> WF data [] t.
Proof. exact wf_treeb_WF. Qed.
Print Assumptions C17_wf_check_sound.

Theorem C17_bucket_gt_1_refuted :
  let data := [[0]; [10]; [30]] in
  let t := Node 0 20 (Leaf [0%nat; 1%nat]) (Leaf [2%nat]) in
  query data t [9] 2 = [(81, 0%nat); (81, 1%nat)] /\ dist2 (pt data 1) [9] = 1 /\
  wf_treeb data t = false /\
  (forall i, In i (tindices t) -> in_cell [] (pt data i)).
Proof. exact bucket_gt_1_witness. Qed.
Print Assumptions C17_bucket_gt_1_refuted.

(* the hypotheses of C17_query_k_smallest are satisfiable *)
Theorem C17_hypotheses_satisfiable :
  let data := [[0; 2]; [4; 2]; [4; 2]; [10; -6]] in
  let t := Node 0 7 (Node 0 2 (Leaf [0%nat]) (Leaf [2%nat; 1%nat])) (Leaf [3%nat]) in
  WF data [] t /\ query data t [9; 0] 4 = [(29, 2%nat); (29, 1%nat); (37, 3%nat); (85, 0%nat)].
Proof. exact wf_example. Qed.
Print Assumptions C17_hypotheses_satisfiable.

(* ---- construction (definitions: C17Build.v; nth_spec / oracle_ok / uniform are spelled out there) ---- *)

Theorem C17_kd_build_wellformed :
  forall (data : list point) (oracle : list kv -> list kv) (dim : nat),
  data <> [] -> uniform dim data -> oracle_ok oracle ->
  WF data [] (kd_build data oracle) /\
  Permutation (tindices (kd_build data oracle)) (seq 0 (length data)).
Proof. exact kd_build_wellformed. Qed.
Print Assumptions C17_kd_build_wellformed.

Theorem C17_kd_build_then_query_correct :
  forall (data : list point) (oracle : list kv -> list kv) (dim : nat) (q : point) (k : nat),
  data <> [] -> uniform dim data -> oracle_ok oracle -> (k <= length data)%nat ->
  let res := query data (kd_build data oracle) q k in
  length res = k /\
  NoDup (map snd res) /\
  (forall d i, In (d, i) res -> (i < length data)%nat /\ d = dist2 (pt data i) q) /\
  dsorted (map fst res) /\
  (forall j, (j < length data)%nat -> ~ In j (map snd res) ->
             forall d, In d (map fst res) -> d <= dist2 (pt data j) q).
Proof. exact kd_build_then_query_correct. Qed.
Print Assumptions C17_kd_build_then_query_correct.

Theorem C17_kd_build_oracle_independent :
  forall (data : list point) (dim : nat) (o1 o2 : list kv -> list kv),
  uniform dim data -> oracle_ok o1 -> oracle_ok o2 ->
  tree_equiv (kd_build data o1) (kd_build data o2).
Proof. exact kd_build_oracle_independent. Qed.
Print Assumptions C17_kd_build_oracle_independent.

Theorem C17_kd_build_depth_limit_unreached :
  forall (data : list point) (oracle : list kv -> list kv), oracle_ok oracle ->
  forall (f1 f2 : nat) (elems : list nat), (length elems <= f1)%nat -> (length elems <= f2)%nat ->
  build f1 data oracle elems = build f2 data oracle elems.
Proof. exact build_fuel_enough. Qed.
Print Assumptions C17_kd_build_depth_limit_unreached.

Theorem C17_nth_check_sound :
  forall (mp : nat) (r : list kv), median_okb mp r = true -> median_prop mp r.
Proof. exact median_okb_sound. Qed.
Print Assumptions C17_nth_check_sound.

(* the hypotheses of the construction theorems are satisfiable *)
Theorem C17_kd_build_hypotheses_satisfiable :
  let data := [[0; 2]; [4; 2]; [4; 2]; [10; -6]; [4; 8]; [4; -6]] in
  data <> [] /\ uniform 2 data /\ oracle_ok ksort /\
  kd_build data ksort =
    Node 1 (-2) (Node 0 7 (Leaf [5%nat]) (Leaf [3%nat]))
                (Node 1 5 (Node 0 2 (Leaf [0%nat]) (Leaf [1%nat; 2%nat])) (Leaf [4%nat])) /\
  query data (kd_build data ksort) [9; 0] 3 = [(29, 1%nat); (29, 2%nat); (37, 3%nat)].
Proof. exact kd_build_example. Qed.
Print Assumptions C17_kd_build_hypotheses_satisfiable.

(* ======================================================================================================== *)
(* Extension: projection trees (LCTree, KHCTree) and the query on ANY BinaryTree with a sound bound.
   Carrier: any ordered field (C17Field.olaws F, a hypothesis); definitions in C17Gen.v / C17Proj.v. *)

(* LCTree / KHCTree::squaredDistanceLowerBound (the walk up the parents with `if (t == p->mp_right) v = -v; if (v > dist)
   dist = v`, result dist*dist) is a lower bound of the squared distance d2 to every point p of the cell, for every node
   type whose funct is 1-Lipschitz w.r.t. d2 (squared form, Lip) along the path *)
Theorem C17_proj_cell_lower_bound :
  forall (A : Type) (F : fops A), olaws F ->
  forall (N : Type) (funct : N -> apoint A -> A) (thr : N -> A) (d2 : apoint A -> apoint A -> A)
         (dom : apoint A -> Prop) (path : list (ppstep N)) (p q : apoint A),
  dom p -> dom q -> oleb F (o0 F) (d2 p q) = true ->
  path_Lip A F N funct d2 dom path -> in_pcell A F N funct thr path p ->
  oleb F (plb A F N funct thr path q) (d2 p q) = true.
Proof. exact pcell_lower_bound. Qed.
Print Assumptions C17_proj_cell_lower_bound.

(* LCTree::funct = inner_prod(m_normal, .) with norm_sqr(m_normal) <= 1 is 1-Lipschitz for the Euclidean distance
   (Cauchy-Schwarz, proved for lists over any ordered field) *)
Theorem C17_lc_funct_lipschitz :
  forall (A : Type) (F : fops A), olaws F -> forall (dim : nat) (nd : lcnode A),
  lc_unitb A F nd = true -> Lip A F (lcnode A) (lc_funct A F) (edist2 F) (dimdom A dim) nd.
Proof. exact lc_Lip. Qed.
Print Assumptions C17_lc_funct_lipschitz.

(* KHCTree::funct = (k(positive, .) - k(negative, .)) * m_normalInvNorm is 1-Lipschitz for the feature-space distance
   k(x,x) - 2k(x,y) + k(y,y) of ANY kernel that is positive semi-definite in the sense KPos / KCS (non-negative squared
   feature distances, Cauchy-Schwarz for feature differences), if m_normalInvNorm^2 * |phi(pos) - phi(neg)|^2 <= 1 *)
Theorem C17_khc_funct_lipschitz :
  forall (A : Type) (F : fops A), olaws F ->
  forall (k : apoint A -> apoint A -> A) (dom : apoint A -> Prop) (data : list (apoint A)) (nd : khcnode A),
  KPos A F k dom -> KCS A F k dom ->
  dom (ptA A data (kh_pos A nd)) -> dom (ptA A data (kh_neg A nd)) ->
  khc_unitb A F k data nd = true ->
  Lip A F (khcnode A) (khc_funct A F k data) (kd2 A F k) dom nd.
Proof. exact khc_Lip. Qed.
Print Assumptions C17_khc_funct_lipschitz.

(* the linear kernel satisfies the kernel hypotheses on points of one dimension *)
Theorem C17_linear_kernel_psd :
  forall (A : Type) (F : fops A), olaws F -> forall dim : nat,
  KPos A F (lin_k A F) (dimdom A dim) /\ KCS A F (lin_k A F) (dimdom A dim).
Proof. exact lin_kernel_psd. Qed.
Print Assumptions C17_linear_kernel_psd.

(* PolynomialKernel(degree 2, offset c >= 0), k(x,y) = (<x,y> + c)^2 = <x (x) x, y (x) y> + 2c <x,y> + c^2, satisfies them too
   (sums, non-negative multiples, pull-backs and constants preserve KPos / KCS), and it is symmetric *)
Theorem C17_poly2_kernel_psd :
  forall (A : Type) (F : fops A), olaws F -> forall (dim : nat) (c : A), oleb F (o0 F) c = true ->
  KPos A F (poly2_k A F c) (dimdom A dim) /\ KCS A F (poly2_k A F c) (dimdom A dim) /\
  (forall x y : apoint A, poly2_k A F c x y = poly2_k A F c y x).
Proof. exact poly2_kernel_psd. Qed.
Print Assumptions C17_poly2_kernel_psd.

(* one call of IterativeNNQuery::next() over an arbitrary ordered carrier: C17_next_invariant generalised; the only
   facts about the tree are in the invariant (Sound: every node bound <= distance of every point below, leaf key =
   distance of its points) *)
Theorem C17_gen_next_invariant :
  forall (A : Type) (leb : A -> A -> bool),
  (forall a b : A, leb a b = true \/ leb b a = true) ->
  (forall a b c : A, leb a b = true -> leb b c = true -> leb a c = true) ->
  forall (dist : nat -> A) (s : gstate A),
  C17GenProofs.Inv A leb dist s -> C17GenProofs.pending A s <> nil ->
  exists (d : A) (i : nat) (s' : gstate A),
    gnext A leb s = Some (d, i, s') /\ C17GenProofs.Inv A leb dist s' /\ dist i = d /\
    Permutation (C17GenProofs.pending A s) (i :: C17GenProofs.pending A s') /\
    (forall j : nat, In j (C17GenProofs.pending A s) -> leb d (dist j) = true).
Proof. exact C17GenProofs.next_spec. Qed.
Print Assumptions C17_gen_next_invariant.

(* the query on ANY BinaryTree whose nodes' funct is 1-Lipschitz (PWF: cells, bucket size one, Lip): the k nearest
   neighbours w.r.t. the tree's metric d2 *)
Theorem C17_proj_query_k_smallest_dataset :
  forall (A : Type) (F : fops A), olaws F ->
  forall (N : Type) (funct : N -> apoint A -> A) (thr : N -> A) (d2 : apoint A -> apoint A -> A)
         (dom : apoint A -> Prop) (data : list (apoint A)),
  (forall p q : apoint A, dom p -> dom q -> oleb F (o0 F) (d2 p q) = true) ->
  forall (t : ptree N) (q : apoint A) (k : nat),
  dom q -> PWF A F N funct thr d2 dom data nil t ->
  Permutation (pindices N t) (seq 0 (length data)) -> (k <= length data)%nat ->
  let res := pquery A F N funct thr (pdistq A d2 data q) t q k in
  length res = k /\
  NoDup (map snd res) /\
  (forall (d : A) (i : nat), In (d, i) res -> (i < length data)%nat /\ d = d2 (ptA A data i) q) /\
  C17GenProofs.gdsorted A (oleb F) (map fst res) /\
  (forall j : nat, (j < length data)%nat -> ~ In j (map snd res) ->
   forall d : A, In d (map fst res) -> oleb F d (d2 (ptA A data j) q) = true).
Proof. exact pquery_k_smallest_dataset. Qed.
Print Assumptions C17_proj_query_k_smallest_dataset.

(* LC-tree: every tree that passes the executable checks pwf_treeb (left funct <= threshold <= right funct, leaves hold
   copies of one point) and lc_unitb (norm_sqr(m_normal) <= 1), whose leaves partition 0..n-1: k nearest, Euclidean *)
Theorem C17_lc_query_k_nearest :
  forall (A : Type) (F : fops A), olaws F ->
  forall (dim : nat) (data : list (apoint A)) (t : ptree (lcnode A)) (q : list A) (k : nat),
  uniformA A dim data -> length q = dim ->
  pwf_treeb A F (lcnode A) (lc_funct A F) (lc_thr A) data t = true ->
  pnodes_forallb (lcnode A) (lc_unitb A F) t = true ->
  Permutation (pindices (lcnode A) t) (seq 0 (length data)) -> (k <= length data)%nat ->
  let res := lc_query A F data t q k in
  length res = k /\
  NoDup (map snd res) /\
  (forall (d : A) (i : nat), In (d, i) res -> (i < length data)%nat /\ d = edist2 F (ptA A data i) q) /\
  C17GenProofs.gdsorted A (oleb F) (map fst res) /\
  (forall j : nat, (j < length data)%nat -> ~ In j (map snd res) ->
   forall d : A, In d (map fst res) -> oleb F d (edist2 F (ptA A data j) q) = true).
Proof. exact lc_query_k_nearest. Qed.
Print Assumptions C17_lc_query_k_nearest.

(* KHC-tree with any kernel satisfying KPos / KCS: k nearest w.r.t. the kernel-induced metric (after repair 3259cc98 the
   leaf distances are measured in that metric) *)
Theorem C17_khc_query_k_nearest :
  forall (A : Type) (F : fops A), olaws F ->
  forall (k : apoint A -> apoint A -> A) (dom : apoint A -> Prop) (data : list (apoint A))
         (t : ptree (khcnode A)) (q : apoint A) (kk : nat),
  KPos A F k dom -> KCS A F k dom ->
  (forall i : nat, (i < length data)%nat -> dom (ptA A data i)) -> dom q ->
  pwf_treeb A F (khcnode A) (khc_funct A F k data) (kh_thr A) data t = true ->
  pnodes_forallb (khcnode A) (khc_nodeb A F k data) t = true ->
  Permutation (pindices (khcnode A) t) (seq 0 (length data)) -> (kk <= length data)%nat ->
  let res := khc_query A F k data t q kk in
  length res = kk /\
  NoDup (map snd res) /\
  (forall (d : A) (i : nat), In (d, i) res -> (i < length data)%nat /\ d = kd2 A F k (ptA A data i) q) /\
  C17GenProofs.gdsorted A (oleb F) (map fst res) /\
  (forall j : nat, (j < length data)%nat -> ~ In j (map snd res) ->
   forall d : A, In d (map fst res) -> oleb F d (kd2 A F k (ptA A data j) q) = true).
Proof. exact khc_query_k_nearest. Qed.
Print Assumptions C17_khc_query_k_nearest.

(* the hypotheses are satisfiable: Qc is an ordered field; a concrete LC tree and KHC tree (duplicates in a leaf) *)
Theorem C17_qc_ordered_field : forall sq : Qcanon.Qc -> Qcanon.Qc, olaws (qc_fops sq).
Proof. exact qc_olaws. Qed.
Print Assumptions C17_qc_ordered_field.

Theorem C17_lc_hypotheses_satisfiable :
  uniformA Qcanon.Qc 2 ex_data /\
  pwf_treeb Qcanon.Qc exF (lcnode Qcanon.Qc) (lc_funct Qcanon.Qc exF) (lc_thr Qcanon.Qc) ex_data ex_lc = true /\
  pnodes_forallb (lcnode Qcanon.Qc) (lc_unitb Qcanon.Qc exF) ex_lc = true /\
  Permutation (pindices (lcnode Qcanon.Qc) ex_lc) (seq 0 (length ex_data)) /\
  show (lc_query Qcanon.Qc exF ex_data ex_lc (zpt [1; 1]) 5) =
    [(2#1, 0%nat); (13#1, 1%nat); (29#1, 3%nat); (74#1, 4%nat); (74#1, 2%nat)]%Q /\
  map (@Qcanon.this) (pbounds Qcanon.Qc exF (lcnode Qcanon.Qc) (lc_funct Qcanon.Qc exF) (lc_thr Qcanon.Qc) (zpt [1; 1]) [] ex_lc) =
    [0#1; 0#1; 0#1; 729#100; 121#100; 121#100; 3721#100]%Q.
Proof. exact lc_example. Qed.
Print Assumptions C17_lc_hypotheses_satisfiable.

Theorem C17_khc_hypotheses_satisfiable :
  (forall i, (i < length ex_data)%nat -> dimdom Qcanon.Qc 2 (ptA Qcanon.Qc ex_data i)) /\
  pwf_treeb Qcanon.Qc exF (khcnode Qcanon.Qc) (khc_funct Qcanon.Qc exF (lin_k Qcanon.Qc exF) ex_data) (kh_thr Qcanon.Qc) ex_data ex_khc = true /\
  pnodes_forallb (khcnode Qcanon.Qc) (khc_nodeb Qcanon.Qc exF (lin_k Qcanon.Qc exF) ex_data) ex_khc = true /\
  show (khc_query Qcanon.Qc exF (lin_k Qcanon.Qc exF) ex_data ex_khc (zpt [1; 1]) 5) =
    [(2#1, 0%nat); (13#1, 1%nat); (29#1, 3%nat); (74#1, 4%nat); (74#1, 2%nat)]%Q.
Proof. exact khc_example. Qed.
Print Assumptions C17_khc_hypotheses_satisfiable.

(* ======================================================================================================== *)
(* Extension: CONSTRUCTION of the projection trees (definitions: C17ProjBuild.v).  Two explicit oracles: the result of
   std::nth_element (any rearrangement with the median property, aoracle_ok) and the choice of the two anchor points
   (any choice with choose_ok: two points of the cell, at non-zero distance whenever the cell holds two points at
   non-zero distance); sqrt_ok x : 0 < x -> sqrt x * sqrt x = x for the squared anchor distances it is applied to. *)

(* BinaryTree::splitList on a range with two different keys: both parts non-empty, a rearrangement, left keys <=
   threshold <= right keys (threshold = 0.5*(max left + min right)) *)
Theorem C17_proj_split_list_spec :
  forall (A : Type) (F : fops A), olaws F ->
  forall (oracle : list (akv A) -> list (akv A)) (range : list (akv A)) (thr : A) (Lp Rp : list (akv A)),
  anth_spec A F range (oracle range) -> (2 <= length range)%nat ->
  (exists x y : akv A, In x range /\ In y range /\ oleb F (fst y) (fst x) = false) ->
  asplit_list A F oracle range = (thr, Lp, Rp) ->
  Lp <> nil /\ Rp <> nil /\ Permutation range (Lp ++ Rp) /\
  (forall x : akv A, In x Lp -> oleb F (fst x) thr = true) /\
  (forall y : akv A, In y Rp -> oleb F thr (fst y) = true).
Proof. exact asplit_list_spec. Qed.
Print Assumptions C17_proj_split_list_spec.

(* duplicate-heavy data (repair bfc526b8): when all projected values are equal splitList returns begin (empty left part),
   so buildTree makes the node a leaf instead of recursing on the same points *)
Theorem C17_proj_split_all_equal_is_leaf :
  forall (A : Type) (F : fops A), olaws F ->
  forall (oracle : list (akv A) -> list (akv A)) (range : list (akv A)) (thr : A) (Lp Rp : list (akv A)),
  Permutation range (oracle range) -> (2 <= length range)%nat ->
  (forall x y : akv A, In x range -> In y range -> fst x = fst y) ->
  asplit_list A F oracle range = (thr, Lp, Rp) -> Lp = nil.
Proof. exact asplit_list_all_equal. Qed.
Print Assumptions C17_proj_split_all_equal_is_leaf.

(* termination: the recursion of buildTree never uses up its depth budget, duplicates or not (children are strictly
   smaller or the node is a leaf) *)
Theorem C17_proj_build_depth_limit_unreached :
  forall (A : Type) (F : fops A) (P N : Type) (prep : nat -> nat -> P) (key : P -> nat -> A) (mk : P -> A -> N)
         (choose : list nat -> nat * nat) (oracle : list (akv A) -> list (akv A)),
  aoracle_ok A F oracle ->
  forall (f1 f2 : nat) (elems : list nat), (length elems <= f1)%nat -> (length elems <= f2)%nat ->
  pbuild A F P N prep key mk choose oracle f1 elems = pbuild A F P N prep key mk choose oracle f2 elems.
Proof. exact pbuild_fuel_enough. Qed.
Print Assumptions C17_proj_build_depth_limit_unreached.

(* LCTree::buildTree: well-formed (cells, 1-Lipschitz funct = unit normal, leaves hold points at distance zero = copies
   of one point) and the leaves partition 0..n-1 *)
Theorem C17_lc_build_wellformed :
  forall (A : Type) (F : fops A), olaws F ->
  forall (dim : nat) (data : list (apoint A)), uniformA A dim data ->
  forall (choose : list nat -> nat * nat) (oracle : list (akv A) -> list (akv A)),
  (forall a b : nat, sqrt_ok A F (lc_d2 A F data a b)) ->
  choose_ok A F (fun i : nat => dimdom A dim (ptA A data i)) (lc_d2 A F data) choose ->
  aoracle_ok A F oracle -> data <> nil ->
  PWF A F (lcnode A) (lc_funct A F) (lc_thr A) (edist2 F) (dimdom A dim) data nil (lc_build A F data choose oracle) /\
  Permutation (pindices (lcnode A) (lc_build A F data choose oracle)) (seq 0 (length data)).
Proof. exact lc_build_wellformed. Qed.
Print Assumptions C17_lc_build_wellformed.

Theorem C17_lc_build_then_query_correct :
  forall (A : Type) (F : fops A), olaws F ->
  forall (dim : nat) (data : list (apoint A)), uniformA A dim data ->
  forall (choose : list nat -> nat * nat) (oracle : list (akv A) -> list (akv A)),
  (forall a b : nat, sqrt_ok A F (lc_d2 A F data a b)) ->
  choose_ok A F (fun i : nat => dimdom A dim (ptA A data i)) (lc_d2 A F data) choose ->
  aoracle_ok A F oracle ->
  forall (q : list A) (k : nat), data <> nil -> length q = dim -> (k <= length data)%nat ->
  let res := lc_query A F data (lc_build A F data choose oracle) q k in
  length res = k /\
  NoDup (map snd res) /\
  (forall (d : A) (i : nat), In (d, i) res -> (i < length data)%nat /\ d = edist2 F (ptA A data i) q) /\
  C17GenProofs.gdsorted A (oleb F) (map fst res) /\
  (forall j : nat, (j < length data)%nat -> ~ In j (map snd res) ->
   forall d : A, In d (map fst res) -> oleb F d (edist2 F (ptA A data j) q) = true).
Proof. exact lc_build_then_query_correct. Qed.
Print Assumptions C17_lc_build_then_query_correct.

(* KHCTree::buildTree with any symmetric kernel satisfying KPos / KCS *)
Theorem C17_khc_build_wellformed :
  forall (A : Type) (F : fops A), olaws F ->
  forall (k : apoint A -> apoint A -> A) (dom : apoint A -> Prop) (data : list (apoint A)),
  KPos A F k dom -> KCS A F k dom -> (forall x y : apoint A, dom x -> dom y -> k x y = k y x) ->
  (forall i : nat, (i < length data)%nat -> dom (ptA A data i)) ->
  forall (choose : list nat -> nat * nat) (oracle : list (akv A) -> list (akv A)),
  (forall a b : nat, sqrt_ok A F (khc_d2 A F k data a b)) ->
  choose_ok A F (fun i : nat => dom (ptA A data i)) (khc_d2 A F k data) choose ->
  aoracle_ok A F oracle -> data <> nil ->
  PWF A F (khcnode A) (khc_funct A F k data) (kh_thr A) (kd2 A F k) dom data nil (khc_build A F k data choose oracle) /\
  Permutation (pindices (khcnode A) (khc_build A F k data choose oracle)) (seq 0 (length data)).
Proof. exact khc_build_wellformed. Qed.
Print Assumptions C17_khc_build_wellformed.

Theorem C17_khc_build_then_query_correct :
  forall (A : Type) (F : fops A), olaws F ->
  forall (k : apoint A -> apoint A -> A) (dom : apoint A -> Prop) (data : list (apoint A)),
  KPos A F k dom -> KCS A F k dom -> (forall x y : apoint A, dom x -> dom y -> k x y = k y x) ->
  (forall i : nat, (i < length data)%nat -> dom (ptA A data i)) ->
  forall (choose : list nat -> nat * nat) (oracle : list (akv A) -> list (akv A)),
  (forall a b : nat, sqrt_ok A F (khc_d2 A F k data a b)) ->
  choose_ok A F (fun i : nat => dom (ptA A data i)) (khc_d2 A F k data) choose ->
  aoracle_ok A F oracle ->
  forall (q : apoint A) (kk : nat), data <> nil -> dom q -> (kk <= length data)%nat ->
  let res := khc_query A F k data (khc_build A F k data choose oracle) q kk in
  length res = kk /\
  NoDup (map snd res) /\
  (forall (d : A) (i : nat), In (d, i) res -> (i < length data)%nat /\ d = kd2 A F k (ptA A data i) q) /\
  C17GenProofs.gdsorted A (oleb F) (map fst res) /\
  (forall j : nat, (j < length data)%nat -> ~ In j (map snd res) ->
   forall d : A, In d (map fst res) -> oleb F d (kd2 A F k (ptA A data j) q) = true).
Proof. exact khc_build_then_query_correct. Qed.
Print Assumptions C17_khc_build_then_query_correct.

(* the choice of the anchors AS CODED (calculateNormal on the sample of at most CuttingAccuracy points, first strict
   maximum; for a degenerate sample the first point and the point farthest from it, repair c6ff0316) is admissible *)
Theorem C17_lc_coded_choice_admissible :
  forall (A : Type) (F : fops A), olaws F ->
  forall (dim : nat) (data : list (apoint A)) (ca : nat), ca <> 0%nat ->
  (forall a b : nat, sqrt_ok A F (lc_d2 A F data a b)) ->
  choose_ok A F (fun i : nat => dimdom A dim (ptA A data i)) (lc_d2 A F data) (lc_coded_choose A F ca data).
Proof. exact lc_coded_choose_ok. Qed.
Print Assumptions C17_lc_coded_choice_admissible.

Theorem C17_khc_coded_choice_admissible :
  forall (A : Type) (F : fops A), olaws F ->
  forall (k : apoint A -> apoint A -> A) (dom : apoint A -> Prop) (data : list (apoint A)) (ca : nat), ca <> 0%nat ->
  KPos A F k dom -> KCS A F k dom -> (forall x y : apoint A, dom x -> dom y -> k x y = k y x) ->
  choose_ok A F (fun i : nat => dom (ptA A data i)) (khc_d2 A F k data) (khc_coded_choose A F k ca data).
Proof. exact khc_coded_choose_ok. Qed.
Print Assumptions C17_khc_coded_choice_admissible.

(* sorting is an admissible std::nth_element; the executable check run on every recorded result is sound *)
Theorem C17_proj_sort_oracle_admissible :
  forall (A : Type) (F : fops A), olaws F -> aoracle_ok A F (aksort A F).
Proof. exact aksort_oracle_ok. Qed.
Print Assumptions C17_proj_sort_oracle_admissible.

Theorem C17_proj_nth_check_sound :
  forall (A : Type) (F : fops A) (mp : nat) (r : list (akv A)), amedian_okb A F mp r = true -> amedian_prop A F mp r.
Proof. exact amedian_okb_sound. Qed.
Print Assumptions C17_proj_nth_check_sound.

(* all hypotheses at once: Qc with a square root of the squares 0..144, one-dimensional data with duplicates *)
Theorem C17_lc_build_hypotheses_satisfiable :
  uniformA Qcanon.Qc 1 ex1_data /\ ex1_data <> nil /\
  (forall a b, sqrt_ok Qcanon.Qc exF1 (lc_d2 Qcanon.Qc exF1 ex1_data a b)) /\
  aoracle_ok Qcanon.Qc exF1 (aksort Qcanon.Qc exF1) /\
  choose_ok Qcanon.Qc exF1 (fun i => dimdom Qcanon.Qc 1 (ptA Qcanon.Qc ex1_data i)) (lc_d2 Qcanon.Qc exF1 ex1_data)
            (lc_coded_choose Qcanon.Qc exF1 25 ex1_data) /\
  pindices (lcnode Qcanon.Qc) (lc_build Qcanon.Qc exF1 ex1_data (lc_coded_choose Qcanon.Qc exF1 25 ex1_data) (aksort Qcanon.Qc exF1))
    = [0; 4; 1; 2; 5; 3]%nat /\
  show (lc_query Qcanon.Qc exF1 ex1_data
          (lc_build Qcanon.Qc exF1 ex1_data (lc_coded_choose Qcanon.Qc exF1 25 ex1_data) (aksort Qcanon.Qc exF1)) (zpt [3]) 4) =
    [(1#1, 1%nat); (1#1, 2%nat); (1#1, 5%nat); (4#1, 4%nat)]%Q.
Proof. exact lc_build_example. Qed.
Print Assumptions C17_lc_build_hypotheses_satisfiable.

(* ======================================================================================================== *)
(* Extension: NearestNeighborModel (definitions: C17Vote.v).  nbrs = the (distance, label) pairs getNeighbors returned;
   tiny / huge stand for 1e-100 / 1e100 of the zero-distance rule. *)

(* the prediction - class scores, decision (first maximal score; a single score is thresholded at 0), regression mean - is a
   function of the MULTISET of (distance, label) pairs: invariant under every rearrangement of the neighbour list *)
Theorem C17_vote_rearrangement_invariant :
  forall (A : Type) (F : fops A), olaws F -> forall (tiny huge : A) (u : bool),
  (forall (nc : nat) (l l' : list (A * nat)), Permutation l l' ->
     nn_scores A F tiny huge u nc l = nn_scores A F tiny huge u nc l' /\
     nn_classify A F tiny huge u nc l = nn_classify A F tiny huge u nc l') /\
  (forall (dl : nat) (l l' : list (A * list A)), Permutation l l' ->
     nn_regress A F tiny huge u dl l = nn_regress A F tiny huge u dl l').
Proof. exact vote_rearrangement_invariant. Qed.
Print Assumptions C17_vote_rearrangement_invariant.

(* two sets of k nearest neighbours (KNear: k distinct indices, every point left out at least as far as every point
   reported) coincide when there is no tie at the k-th distance (StrictGap) *)
Theorem C17_vote_knear_unique :
  forall (A : Type) (F : fops A) (dd : nat -> A) (n : nat) (S1 S2 : list nat),
  KNear A F dd n S1 -> KNear A F dd n S2 -> length S1 = length S2 -> StrictGap A F dd n S1 -> Permutation S1 S2.
Proof. exact knear_unique. Qed.
Print Assumptions C17_vote_knear_unique.

(* hence identical predictions with either search back-end - whenever there is no tie at the k-th distance *)
Theorem C17_vote_backends_agree :
  forall (A : Type) (F : fops A), olaws F -> forall (tiny huge : A) (dd : nat -> A) (n : nat) (S1 S2 : list nat) (u : bool),
  KNear A F dd n S1 -> KNear A F dd n S2 -> length S1 = length S2 -> StrictGap A F dd n S1 ->
  (forall (lab : nat -> nat) (nc : nat),
     nn_classify A F tiny huge u nc (map (fun i => (dd i, lab i)) S1) = nn_classify A F tiny huge u nc (map (fun i => (dd i, lab i)) S2) /\
     nn_scores A F tiny huge u nc (map (fun i => (dd i, lab i)) S1) = nn_scores A F tiny huge u nc (map (fun i => (dd i, lab i)) S2)) /\
  (forall (lab : nat -> list A) (dl : nat),
     nn_regress A F tiny huge u dl (map (fun i => (dd i, lab i)) S1) = nn_regress A F tiny huge u dl (map (fun i => (dd i, lab i)) S2)).
Proof. exact backends_agree. Qed.
Print Assumptions C17_vote_backends_agree.

(* REFUTED without that hypothesis: with a tie at the k-th distance two back-ends may both return k nearest neighbours with
   the SAME distances and the model still predicts differently (points -1 and +1 with labels 0 and 1, query 0, k = 1:
   observed in the C++: TreeNearestNeighbors reports index 0, SimpleNearestNeighbors index 1) *)
Theorem C17_vote_backend_tie_refuted :
  let dd := fun _ : nat => q1 in
  let lab := fun i : nat => i in
  let rlab := fun i : nat => [Qcanon.Q2Qc (inject_Z (Z.of_nat i))] in
  KNear Qcanon.Qc vF dd 2 [0%nat] /\ KNear Qcanon.Qc vF dd 2 [1%nat] /\
  map dd [0%nat] = map dd [1%nat] /\
  nn_classify Qcanon.Qc vF (Qcanon.Q2Qc 0) (Qcanon.Q2Qc 0) true 2 (map (fun i => (dd i, lab i)) [0%nat]) = 0%nat /\
  nn_classify Qcanon.Qc vF (Qcanon.Q2Qc 0) (Qcanon.Q2Qc 0) true 2 (map (fun i => (dd i, lab i)) [1%nat]) = 1%nat /\
  map (@Qcanon.this) (nn_regress Qcanon.Qc vF (Qcanon.Q2Qc 0) (Qcanon.Q2Qc 0) true 1 (map (fun i => (dd i, rlab i)) [0%nat])) = [0#1]%Q /\
  map (@Qcanon.this) (nn_regress Qcanon.Qc vF (Qcanon.Q2Qc 0) (Qcanon.Q2Qc 0) true 1 (map (fun i => (dd i, rlab i)) [1%nat])) = [1#1]%Q.
Proof. exact backend_tie_witness. Qed.
Print Assumptions C17_vote_backend_tie_refuted.

(* the rules as coded on concrete neighbour lists: uniform and 1/distance votes, zero-distance rule (weight `huge`), tie
   between classes -> the smaller class index, a data set with ONE class -> Classifier thresholds the single score and
   reports class 1 *)
Theorem C17_vote_rules_example :
  let tiny := Qcanon.Q2Qc (1 # 1000) in let huge := Qcanon.Q2Qc 1000 in
  let nb := [(Qcanon.Q2Qc 2, 1%nat); (Qcanon.Q2Qc 4, 0%nat); (Qcanon.Q2Qc 4, 1%nat)] in
  map (@Qcanon.this) (nn_scores Qcanon.Qc vF tiny huge true 3 nb) = [1#3; 2#3; 0#1]%Q /\
  nn_classify Qcanon.Qc vF tiny huge true 3 nb = 1%nat /\
  map (@Qcanon.this) (nn_scores Qcanon.Qc vF tiny huge false 3 nb) = [1#4; 3#4; 0#1]%Q /\
  map (@Qcanon.this) (nn_scores Qcanon.Qc vF tiny huge false 3 ((Qcanon.Q2Qc 0, 2%nat) :: nb)) = [1#4004; 3#4004; 1000#1001]%Q /\
  nn_classify Qcanon.Qc vF tiny huge false 3 ((Qcanon.Q2Qc 0, 2%nat) :: nb) = 2%nat /\
  nn_classify Qcanon.Qc vF tiny huge true 2 [(Qcanon.Q2Qc 1, 0%nat); (Qcanon.Q2Qc 1, 1%nat)] = 0%nat /\
  nn_classify Qcanon.Qc vF tiny huge true 1 [(Qcanon.Q2Qc 1, 0%nat)] = 1%nat.
Proof. exact vote_example. Qed.
Print Assumptions C17_vote_rules_example.
