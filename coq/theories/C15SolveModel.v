(* C15 — the trainers built on the semi-definite solver AS CODED: LinearRegression::train (src/Algorithms/LinearRegression.cpp)
   and both overloads of LDA::train (src/Algorithms/LDA.cpp).  Executable model, definitions only, over the arithmetic record
   [ops A] of C02Model.v (run over Qc = canonical rationals; std::sqrt = the field fsqrt F, exact on the values met in the theorems).
   The solver is NOT an oracle here: solve(M, B, blas::symm_semi_pos_def(), side) is the imported, proved model
   C02SemiModel.semi_decompose (pstrf with block size 20, potrf of L^T L with block sizes 32/32 when the rank is not full,
   row-major storage) followed by C02SemiModel.semi_solve_with for every column (left) / row (right) of the right-hand side.

   LinearRegression::train:
     matA = sum over the batches of (X_b|1)^T (X_b|1);  subrange(diag(matA),0,d) += lambda;  XTL = sum_b (X_b|1)^T L_b;
     beta = solve(matA, XTL, symm_semi_pos_def, left);  matrix = first d rows of beta transposed, offset = row d.
   LDA::train (unweighted):
     num(c), means(c) += x (element by element over all batches), covariance += X_b^T X_b per batch;
     covariance /= inputs - classes (size_t arithmetic; modelled by the truncated subtraction of nat, the caller needs n > K);
     for every class c (in order): "class without examples" -> exception; means(c) /= num(c);
       covariance -= (num(c) / (inputs - classes)) * outer_prod(means(c), means(c));
     if (lambda > 0) diag += lambda;  transformedMeans = solve(covariance, means, symm_semi_pos_def, right);
     bias(c) = -0.5 * <means(c), z(c)> + log(num(c)/inputs)       (the logarithm is left to the caller: [lda_prior])
   LDA::train (weighted):
     weightSum = sum of the weights; classWeight(c) += w; means(c) += w * x; row e of the batch *= sqrt(w);
     covariance += X_b^T X_b; covariance /= weightSum; per class: classWeight(c) == 0 -> exception; means(c) /= classWeight(c);
     covariance -= (classWeight(c)/weightSum) * outer_prod(means(c), means(c));  diag += lambda (always);  solve as above.
   GHOST of the weighted overload: the weights are the values std::sqrt is applied to. *)
From Coq Require Import List Arith Bool.
From SharkV Require Import C02Model C02BlkModel C02PstrfModel C02RlModel C02SemiModel.
Import ListNotations.

Section Trainers.
Variable A : Type.
Variable F : ops A.
Variable fabs : A -> A.
Variable half : A.                       (* the double 0.5 *)
Local Notation "0" := (fzero F).
Local Notation "1" := (fone F).
Local Infix "+" := (fadd F).
Local Infix "*" := (fmul F).
Local Infix "-" := (fsub F).
Local Infix "/" := (fdiv F).
Local Notation mat := (mat A).
Local Notation vec := (vec A).
Local Notation sumr := (sumr A F).

(* sums over a batch / over the batches (accumulated in the order of the code) *)
Definition bsumF {X : Type} (f : X -> A) (b : list X) : A := fold_left (fun a x => a + f x) b 0.
Definition dsumF {X : Type} (f : X -> A) (D : list (list X)) : A := fold_left (fun a b => a + bsumF f b) D 0.
Definition nelemsF {X : Type} (D : list (list X)) : nat := length (concat D).

(* solve(M, B, symm_semi_pos_def(), side): one decomposition, then every right-hand side *)
Definition semi_solve_all (n : nat) (epsm : A) (M : mat) (rhs : list vec) : option (list vec) :=
  match semi_decompose A F fabs 20 32 32 RowMajor n epsm M with
  | None => None
  | Some dec => map_opt (semi_solve_with A F RowMajor n (sd_rank A dec) (sd_factor A dec) (sd_perm A dec) (sd_chol A dec)) rhs
  end.

(* ---------- LinearRegression ---------- *)
Definition rsample := (list A * list A)%type.                                  (* (input, label) *)
Definition extF (d : nat) (x : list A) (k : nat) : A := if Nat.ltb k d then nth k x 0 else 1.      (* row of (P|1) *)
Definition lrc_A (d : nat) (lam : A) (D : list (list rsample)) : mat :=
  memo2 A F (S d) (fun j k => dsumF (fun p => extF d (fst p) j * extF d (fst p) k) D
                              + (if Nat.eqb j k && Nat.ltb j d then lam else 0)).
Definition lrc_T (d : nat) (D : list (list rsample)) (c : nat) : vec :=
  memo A F (S d) (fun j => dsumF (fun p => extF d (fst p) j * nth c (snd p) 0) D).
(* beta: one vector of length d+1 per output column (entries < d: row c of the model matrix, entry d: offset c) *)
Definition lrc_train (d o : nat) (lam epsm : A) (D : list (list rsample)) : option (list vec) :=
  semi_solve_all (S d) epsm (lrc_A d lam D) (map (lrc_T d D) (seq 0 o)).
(* gradient of  sum_i (w.x_i + b - y_i)^2 + lambda |w|^2  divided by 2, component j, output column c *)
Definition lrc_pred (d : nat) (beta : vec) (x : list A) : A := sumr 0 (S d) (fun k => extF d x k * beta k).
Definition lrc_halfgrad (d : nat) (lam : A) (D : list (list rsample)) (c : nat) (beta : vec) (j : nat) : A :=
  dsumF (fun p => (lrc_pred d beta (fst p) - nth c (snd p) 0) * extF d (fst p) j) D
  + (if Nat.ltb j d then lam * beta j else 0).
Definition lrc_err (d : nat) (lam : A) (D : list (list rsample)) (c : nat) (beta : vec) : A :=
  dsumF (fun p => (lrc_pred d beta (fst p) - nth c (snd p) 0) * (lrc_pred d beta (fst p) - nth c (snd p) 0)) D
  + lam * sumr 0 d (fun k => beta k * beta k).

(* ---------- LDA ---------- *)
Definition csample := (list A * nat)%type.                                     (* (input, label) *)
Definition wcsample := (csample * A)%type.                                     (* ((input, label), weight) *)
Definition cx (j : nat) (p : csample) : A := nth j (fst p) 0.
Definition isc (c : nat) (p : csample) : bool := Nat.eqb (snd p) c.
Definition fofnatF := fofnat A F.

Record lda_result := mkLda { lda_means : list vec; lda_covm : mat; lda_z : list vec; lda_bias_parts : list A; lda_priors : list A }.

Definition lda_finish (d K : nat) (epsm : A) (means : list vec) (C : mat) (priors : list A) : option lda_result :=
  match semi_solve_all d epsm C means with
  | None => None
  | Some zs =>
    Some (mkLda means C zs
            (map (fun mz => fopp F half * sumr 0 d (fun j => fst mz j * snd mz j)) (combine means zs)) priors)
  end.

(* covariance -= factor_c * outer_prod(mean_c, mean_c), c = 0 .. K-1 in order *)
Fixpoint sub_outer (fac : nat -> A) (mean : nat -> vec) (K : nat) (s : A) (j k : nat) : A :=
  match K with
  | O => s
  | S K' => sub_outer fac mean K' s j k - fac K' * (mean K' j * mean K' k)
  end.

Definition ldac_num (c : nat) (D : list (list csample)) : nat := length (filter (isc c) (concat D)).
Definition ldac_mean (d c : nat) (D : list (list csample)) : vec :=
  memo A F d (fun j => bsumF (fun p => if isc c p then cx j p else 0) (concat D) / fofnatF (ldac_num c D)).
Definition ldac_cov (d K : nat) (lam : A) (D : list (list csample)) : mat :=
  let nk := fofnatF (Nat.sub (nelemsF D) K) in
  let mean := fun c => ldac_mean d c D in
  let fac := fun c => fofnatF (ldac_num c D) / nk in
  memo2 A F d (fun j k => sub_outer fac mean K (dsumF (fun p => cx j p * cx k p) D / nk) j k
                          + (if Nat.eqb j k && fltb F 0 lam then lam else 0)).
Definition ldac_train (d K : nat) (lam epsm : A) (D : list (list csample)) : option lda_result :=
  if existsb (fun c => Nat.eqb (ldac_num c D) O) (seq 0 K) then None       (* "LDA can not handle a class without examples" *)
  else lda_finish d K epsm (map (fun c => ldac_mean d c D) (seq 0 K)) (ldac_cov d K lam D)
                  (map (fun c => fofnatF (ldac_num c D) / fofnatF (nelemsF D)) (seq 0 K)).

(* weighted overload *)
Definition wx (j : nat) (p : wcsample) : A := cx j (fst p).
Definition ww (p : wcsample) : A := snd p.
Definition wisc (c : nat) (p : wcsample) : bool := isc c (fst p).
Definition ldaw_wsum (D : list (list wcsample)) : A := bsumF ww (concat D).
Definition ldaw_cw (c : nat) (D : list (list wcsample)) : A := bsumF (fun p => if wisc c p then ww p else 0) (concat D).
Definition ldaw_mean (d c : nat) (D : list (list wcsample)) : vec :=
  memo A F d (fun j => bsumF (fun p => if wisc c p then ww p * wx j p else 0) (concat D) / ldaw_cw c D).
Definition ldaw_cov (d K : nat) (lam : A) (D : list (list wcsample)) : mat :=
  let ws := ldaw_wsum D in
  let mean := fun c => ldaw_mean d c D in
  let fac := fun c => ldaw_cw c D / ws in
  memo2 A F d (fun j k => sub_outer fac mean K
                            (dsumF (fun p => (fsqrt F (ww p) * wx j p) * (fsqrt F (ww p) * wx k p)) D / ws) j k
                          + (if Nat.eqb j k then lam else 0)).
Definition ldaw_met (D : list (list wcsample)) : list A := map ww (concat D).
Definition ldaw_train (d K : nat) (lam epsm : A) (D : list (list wcsample)) : option lda_result :=
  if existsb (fun c => feqb F (ldaw_cw c D) 0) (seq 0 K) then None
  else lda_finish d K epsm (map (fun c => ldaw_mean d c D) (seq 0 K)) (ldaw_cov d K lam D)
                  (map (fun c => ldaw_cw c D / ldaw_wsum D) (seq 0 K)).

End Trainers.
