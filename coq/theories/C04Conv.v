(* C04 — executable model of Conv2DModel (definitions only), index level, as coded.
   Anchors:
     include/shark/LinAlg/BLAS/kernels/default/conv2d.hpp   im2mat / im2mat_pad / conv2d (gemm of the patch matrix with the filters)
     include/shark/Core/Images/Reorder.h, CPU/Reorder.h     reorder / reorder_impl (permutation of the four image dimensions)
     include/shark/Models/ConvolutionalModel.h              eval, parameterVector, setParameterVector (+ updateBackpropFilters),
                                                            weightedParameterDerivative, weightedInputDerivative
   Carrier and arithmetic are Section variables (any commutative ring in the proofs, OCaml floats in the driver).
   Vectors are lists read with `get` (0 outside), a matrix is a list of rows, raw storage of a matrix is `concat`,
   a reinterpretation of raw storage as a matrix (to_matrix / dense_matrix_adaptor) is `chunk`.
   Sizes are written so that truncated subtraction on nat agrees with the size_t arithmetic of the code whenever the
   mathematical result is non-negative (H + 1 + ph - fh instead of H - fh + 1 + ph). *)
From Coq Require Import List Arith Bool.
From SharkV Require Import C04Model.
Import ListNotations.
Set Implicit Arguments.

Section Conv.
Variable A : Type.
Variables (zero : A) (add mul : A -> A -> A).

Definition get (v : list A) (i : nat) : A := nth i v zero.
Definition tab (n : nat) (f : nat -> A) : list A := map f (seq 0 n).
(* f 0 + f 1 + ... + f (n-1) *)
Fixpoint bsum (n : nat) (f : nat -> A) : A := match n with 0 => zero | S k => add (bsum k f) (f k) end.

(* ---------- remora bindings::im2mat / im2mat_pad: entry (row, col) of the patch matrix ----------
   row = im * rows_per_image + i * output_width + j,   col = (i1 * filter_width + j1) * num_channels + c;
   the loops write every entry exactly once, the model reads the loop indices back from (row, col). *)
Definition im2mat_entry (C H W fh fw ph pw : nat) (imgs : list (list A)) (row col : nat) : A :=
  let oh := H + 1 + ph - fh in
  let ow := W + 1 + pw - fw in
  let rpi := ow * oh in
  let im := row / rpi in
  let i := (row mod rpi) / ow in
  let j := (row mod rpi) mod ow in
  let i1 := col / (fw * C) in
  let j1 := (col / C) mod fw in
  let c := col mod C in
  let img := nth im imgs [] in
  if (ph =? 0) && (pw =? 0) then
    (* im2mat *)
    get img (((i + i1) * W + j + j1) * C + c)
  else
    (* im2mat_pad *)
    let s1 := ph / 2 in
    let s2 := pw / 2 in
    if (i1 + i <? s1) || (H + s1 <=? i1 + i) then zero
    else if (j + j1 <? s2) || (W + s2 <=? j + j1) then zero
    else get img (((i + i1 - s1) * W + j + j1 - s2) * C + c).

(* ---------- remora bindings::conv2d ----------
   output_transformed = raw storage of `outputs` seen as (num_images * rows_per_filter) x num_filters,
   output_transformed += image_transformed * trans(filter_transformed); the callers clear `outputs` before.
   Result: the matrix num_images x (rows_per_filter * num_filters). *)
Definition conv2d_kernel (C F H W fh fw ph pw : nat) (imgs : list (list A)) (filter : list A) : list (list A) :=
  let rpf := (H + 1 + ph - fh) * (W + 1 + pw - fw) in
  let fsize := fw * fh * C in
  let B := length imgs in
  let flat := tab (B * rpf * F) (fun q =>
                let row := q / F in
                let f := q mod F in
                bsum fsize (fun k => mul (im2mat_entry C H W fh fw ph pw imgs row k) (get filter (f * fsize + k)))) in
  chunk (rpf * F) B flat.

(* ---------- image::reorder (Reorder.h) and reorder_impl (CPU/Reorder.h) ---------- *)
Definition digits (o : nat) : list nat := [o / 1000; (o / 100) mod 10; (o / 10) mod 10; o mod 10].
(* while(dimsIn[dimPerm[i]] != dimsOut[i]) ++dimPerm[i]; *)
Fixpoint index_of (d : nat) (l : list nat) : nat :=
  match l with [] => 0 | x :: l' => if x =? d then 0 else S (index_of d l') end.
(* Shape::stride *)
Definition shape_stride (shape : list nat) (dim : nat) : nat := fold_right Nat.mul 1 (skipn (S dim) shape).
Definition fmt_NHWC := 1234.
Definition fmt_CHWN := 4231.
Definition reorder (input : list A) (shapeIn : list nat) (orderIn orderOut : nat) : list A :=
  if orderIn =? orderOut then input
  else
    let perm := map (fun d => index_of d (digits orderIn)) (digits orderOut) in
    let st := fun k => shape_stride shapeIn (nth k perm 0) in
    let sz := fun k => nth (nth k perm 0) shapeIn 0 in
    tab (sz 0 * sz 1 * sz 2 * sz 3) (fun e =>
      let i3 := e mod sz 3 in
      let i2 := (e / sz 3) mod sz 2 in
      let i1 := (e / (sz 3 * sz 2)) mod sz 1 in
      let i0 := e / (sz 3 * sz 2 * sz 1) in
      get input (st 0 * i0 + st 1 * i1 + st 2 * i2 + st 3 * i3)).

(* ---------- Conv2DModel ---------- *)
Record cgeo := { gC : nat; gF : nat; gH : nat; gW : nat; gfh : nat; gfw : nat; gpad : bool (* true = Padding::ZeroPad *) }.
Record conv := { cg : cgeo; cflt : list A; coff : list A; cbp : list A (* m_backpropFilters *); cact : act A }.

(* outputShape() *)
Definition out_h (g : cgeo) : nat := if gpad g then gH g else gH g - gfh g + 1.
Definition out_w (g : cgeo) : nat := if gpad g then gW g else gW g - gfw g + 1.
Definition conv_nout (g : cgeo) : nat := out_h g * out_w g * gF g.
Definition conv_nin (g : cgeo) : nat := gH g * gW g * gC g.
Definition pad_h (g : cgeo) : nat := if gpad g then gfh g - 1 else 0.
Definition pad_w (g : cgeo) : nat := if gpad g then gfw g - 1 else 0.
(* backpropFilterHeight / Width *)
Definition bp_h (g : cgeo) : nat := gfh g + (if gpad g && Nat.even (gfh g) then 1 else 0).
Definition bp_w (g : cgeo) : nat := gfw g + (if gpad g && Nat.even (gfw g) then 1 else 0).

(* updateBackpropFilters: cleared vector, then
   bp(c * bpFilterSize + (i * bpWidth + j) * numFilters + f) = filters(f * filterSize + flipped * numChannels + c),
   flipped = (fh - i - 1) * fw + fw - j - 1, for i < fh, j < fw *)
Definition bp_filters (g : cgeo) (flt : list A) : list A :=
  let bph := bp_h g in
  let bpw := bp_w g in
  let fsize := gC g * gfw g * gfh g in
  let bpsize := gF g * bpw * bph in
  tab (gC g * bpsize) (fun q =>
    let c := q / bpsize in
    let r := q mod bpsize in
    let f := r mod gF g in
    let p := r / gF g in
    let i := p / bpw in
    let j := p mod bpw in
    if (i <? gfh g) && (j <? gfw g)
    then get flt (f * fsize + ((gfh g - i - 1) * gfw g + gfw g - j - 1) * gC g + c)
    else zero).

(* parameterVector / setParameterVector / numberOfParameters *)
Definition conv_params (m : conv) : list A := cflt m ++ coff m.
Definition conv_nflt (g : cgeo) : nat := gfh g * gfw g * gF g * gC g.
Definition conv_nparams (g : cgeo) : nat := conv_nflt g + gF g.
Definition conv_set (g : cgeo) (a : act A) (theta : list A) : conv :=
  let k := conv_nflt g in
  {| cg := g; cflt := firstn k theta; coff := skipn k theta; cbp := bp_filters g (firstn k theta); cact := a |}.

(* eval(BatchInputType, BatchOutputType, State): convolution, offset on the (pixels x filters) view, activation *)
Definition conv_pre_batch (m : conv) (X : list (list A)) : list (list A) :=
  let g := cg m in
  let outs := conv2d_kernel (gC g) (gF g) (gH g) (gW g) (gfh g) (gfw g) (pad_h g) (pad_w g) X (cflt m) in
  let flat := concat outs in
  chunk (conv_nout g) (length X) (tab (length flat) (fun q => add (get flat q) (get (coff m) (q mod gF g)))).
Definition conv_eval_batch (m : conv) (X : list (list A)) : list (list A) := map (aphi (cact m)) (conv_pre_batch m X).
(* AbstractModel::eval(InputType const&, OutputType&): a batch of one *)
Definition conv_eval (m : conv) (x : list A) : list A := nth 0 (conv_eval_batch m [x]) [].

Fixpoint map3 {B1 B2 B3 E} (f : B1 -> B2 -> B3 -> E) (u : list B1) (v : list B2) (w : list B3) : list E :=
  match u, v, w with x :: u', y :: v', z :: w' => f x y z :: map3 f u' v' w' | _, _, _ => [] end.
(* delta = coefficients; activation.multiplyDerivative(outputs, delta, state) *)
Definition conv_delta (m : conv) (X Cf : list (list A)) : list (list A) :=
  let pre := conv_pre_batch m X in
  map3 (amul (cact m)) pre (map (aphi (cact m)) pre) Cf.

(* weightedParameterDerivative, after delta has been formed *)
Definition conv_wpd_d (g : cgeo) (X delta : list (list A)) : list A :=
  let n := length X in
  let oh := out_h g in
  let ow := out_w g in
  let dflat := concat delta in
  (* offsetGradient = sum(as_columns(delta_pixels)), delta_pixels = (n * nout / F) x F view of delta *)
  let og := tab (gF g) (fun f => bsum (n * conv_nout g / gF g) (fun r => get dflat (r * gF g + f))) in
  (* filters: NHWC -> CHWN for delta and inputs (batch size and channels swap roles), convolution of the inputs with delta,
     result CHWN -> NHWC *)
  let delta_CHWN := reorder dflat [n; oh; ow; gF g] fmt_NHWC fmt_CHWN in
  let inputs_CHWN := chunk (conv_nin g / gC g * n) (gC g) (reorder (concat X) [n; gH g; gW g; gC g] fmt_NHWC fmt_CHWN) in
  let resp := conv2d_kernel n (gF g) (gH g) (gW g) oh ow (pad_h g) (pad_w g) inputs_CHWN delta_CHWN in
  let wg := reorder (concat resp) [gC g; gfh g; gfw g; gF g] fmt_CHWN fmt_NHWC in
  wg ++ og.
Definition conv_wpd (m : conv) (X Cf : list (list A)) : list A := conv_wpd_d (cg m) X (conv_delta m X Cf).

(* weightedInputDerivative, after delta has been formed: convolution of delta with the backprop filters *)
Definition conv_wid_d (g : cgeo) (bp : list A) (delta : list (list A)) : list (list A) :=
  let bph := bp_h g in
  let bpw := bp_w g in
  let padH := if gpad g then bph - 1 else (bph - 1) * 2 in
  let padW := if gpad g then bpw - 1 else (bpw - 1) * 2 in
  conv2d_kernel (gF g) (gC g) (out_h g) (out_w g) bph bpw padH padW delta bp.
Definition conv_wid (m : conv) (X Cf : list (list A)) : list (list A) := conv_wid_d (cg m) (cbp m) (conv_delta m X Cf).

(* weightedDerivatives: AbstractModel default = the two separate calls *)
Definition conv_wd (m : conv) (X Cf : list (list A)) : list A * list (list A) := (conv_wpd m X Cf, conv_wid m X Cf).

End Conv.
