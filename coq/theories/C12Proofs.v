(* C12 — cross-validation folds partition the data (on the C03 dataset model). *)
From Coq Require Import List Arith Lia Bool Permutation.
From SharkV Require Import ListAux C03Model C03Proofs C12Model.
Import ListNotations.

(* consecutive slices of a list with the given lengths: what the validation parts must be *)
Fixpoint slices {A} (ps : list nat) (l : list A) : list (list A) :=
  match ps with
  | [] => []
  | p :: r => firstn p l :: slices r (skipn p l)
  end.

Lemma slices_concat {A} ps (l : list A) : sum ps = length l -> concat (slices ps l) = l.
Proof.
  revert l; induction ps as [|p r IH]; intros l H; simpl in *.
  - destruct l; simpl in *; auto; lia.
  - rewrite IH; [apply firstn_skipn|]. rewrite skipn_length. lia.
Qed.

Lemma slices_lengths {A} ps (l : list A) : sum ps <= length l -> map (@length A) (slices ps l) = ps.
Proof.
  revert l; induction ps as [|p r IH]; intros l H; simpl in *; auto.
  rewrite firstn_length, Nat.min_l by lia. f_equal. apply IH. rewrite skipn_length. lia.
Qed.

Lemma slices_length {A} ps (l : list A) : length (slices ps l) = length ps.
Proof. revert l; induction ps; intros; simpl; auto. Qed.

Section Poly.
Context {A : Type}.

Lemma chunk_app a b (l : list A) : chunk (a ++ b) l = chunk a l ++ chunk b (skipn (sum a) l).
Proof.
  revert l; induction a as [|x a IH]; intros l; simpl; auto.
  f_equal. rewrite IH. f_equal. f_equal. apply skipn_skipn_add.
Qed.

Lemma chunk_length szs (l : list A) : length (chunk szs l) = length szs.
Proof. revert l; induction szs; intros; simpl; auto. Qed.

(* elements of the batches listed in a fold *)
Definition fold_elems (d : @data A) (f : list nat) : list A := flat_map (fun i => nth i d []) f.

(* The key structural lemma: with the batch sizes and fold starts computed by batchPartitioning,
   the folds read out of the re-batched element list are exactly the consecutive slices of that
   list with the requested validation sizes. *)
Lemma partitioning_slices psizes m : forall nb starts bs (pre : @data A) (l : list A),
  batch_partitioning psizes m nb = Some (starts, bs) ->
  length pre = nb -> sum psizes = length l ->
  map (fold_elems (pre ++ chunk bs l)) (folds_from_starts starts (nb + length bs)) = slices psizes l
  /\ sum bs = sum psizes
  /\ (forall s, In s bs -> 1 <= s <= m)
  /\ length starts = length psizes
  /\ hd (nb + length bs) starts = match psizes with [] => nb + length bs | _ => nb end.
Proof.
  induction psizes as [|p ps IH]; intros nb starts bs pre l H Hpre Hl; simpl in H.
  - injection H as <- <-. simpl. split; [reflexivity|]. split; [reflexivity|]. split; [intros ? []|]. split; reflexivity.
  - destruct (opt_sizes p m) as [bs0|] eqn:E0; [|discriminate].
    destruct (batch_partitioning ps m (nb + length bs0)) as [[st rest]|] eqn:E1; [|discriminate].
    injection H as <- <-.
    destruct (opt_sizes_spec _ _ _ E0) as (S0 & B0 & _ & _).
    simpl in Hl.
    specialize (IH (nb + length bs0) st rest (pre ++ chunk bs0 l) (skipn p l) E1).
    rewrite app_length, chunk_length, skipn_length in IH.
    specialize (IH ltac:(lia) ltac:(lia)).
    destruct IH as (I1 & I2 & I3 & I4 & I5).
    rewrite app_length.
    assert (Hend : match st with [] => nb + (length bs0 + length rest) | s' :: _ => s' end = nb + length bs0).
    { destruct ps as [|p' ps'].
      - simpl in E1. injection E1 as <- <-. simpl. lia.
      - destruct st as [|s' st']; [simpl in I4; discriminate|]. simpl in I5. lia. }
    simpl. rewrite Hend. replace (nb + length bs0 - nb) with (length bs0) by lia.
    split; [|split; [|split; [|split]]].
    + f_equal.
      * rewrite chunk_app. unfold fold_elems.
        rewrite <- Hpre. rewrite <- (chunk_length bs0 l).
        rewrite flat_map_nth_range. fold (elems (chunk bs0 l)).
        rewrite chunk_elems, S0. reflexivity.
      * rewrite chunk_app, S0, app_assoc.
        replace (nb + (length bs0 + length rest)) with (nb + length bs0 + length rest) by lia.
        exact I1.
    + rewrite sum_app. simpl. lia.
    + intros s Hs. apply in_app_or in Hs. destruct Hs; auto.
    + simpl. lia.
    + reflexivity.
Qed.

End Poly.

(* ---- sizes promised by the same-size constructors ---- *)
Lemma sum_map_const_plus (q r k s : nat) :
  sum (map (fun i => q + (if i <? r then 1 else 0)) (seq s k)) = k * q + (Nat.min (s + k) r - Nat.min s r).
Proof.
  revert s; induction k as [|k IH]; intros s; simpl; [lia|].
  rewrite IH. destruct (Nat.ltb_spec s r); lia.
Qed.

Theorem val_sizes_spec n k :
  0 < k ->
  sum (val_sizes n k) = n /\ length (val_sizes n k) = k /\
  (forall a b, In a (val_sizes n k) -> In b (val_sizes n k) -> a <= b + 1).
Proof.
  intros Hk. unfold val_sizes. split; [|split].
  - rewrite sum_map_const_plus. simpl.
    pose proof (Nat.div_mod n k ltac:(lia)). pose proof (Nat.mod_upper_bound n k ltac:(lia)).
    rewrite Nat.min_r by lia. lia.
  - rewrite map_length, seq_length. auto.
  - intros a b Ha Hb. apply in_map_iff in Ha, Hb.
    destruct Ha as (i & <- & _). destruct Hb as (j & <- & _).
    destruct (i <? _); destruct (j <? _); lia.
Qed.

(* ---- complement: training part = everything except the validation part ---- *)
Lemma complement_perm idx n :
  NoDup idx -> (forall i, In i idx -> i < n) ->
  Permutation (idx ++ complement idx n) (seq 0 n).
Proof.
  intros ND Hlt. unfold complement.
  set (f := fun i => existsb (Nat.eqb i) idx).
  assert (Permutation idx (filter f (seq 0 n))) as P.
  { apply NoDup_Permutation; auto.
    - apply NoDup_filter, seq_NoDup.
    - intros x. rewrite filter_In, in_seq. unfold f. rewrite existsb_exists. split.
      + intros Hx. split; [pose proof (Hlt x Hx); lia|]. exists x. split; auto. apply Nat.eqb_refl.
      + intros (_ & y & Hy & E). apply Nat.eqb_eq in E. subst. auto. }
  rewrite P. apply filter_split_perm.
Qed.

Section Folds.
Context {A : Type}.
Variable dflt : A.

(* every constructor that lays the folds out contiguously (same size, indexed, fully indexed,
   balanced) produces a cv structure of this form *)
Definition contiguous_cv (c : @cv A) (psizes : list nat) : Prop :=
  map (fold_elems (cv_set c)) (cv_folds c) = slices psizes (elems (cv_set c)) /\
  sum psizes = nelems (cv_set c) /\ length (cv_folds c) = length psizes.

(* validation parts: pairwise disjoint and jointly exhaustive, as position ranges of the set *)
Theorem contiguous_partition (c : @cv A) psizes :
  contiguous_cv c psizes ->
  concat (map (fold_elems (cv_set c)) (cv_folds c)) = elems (cv_set c) /\
  map (@length A) (map (fold_elems (cv_set c)) (cv_folds c)) = psizes.
Proof.
  intros (H1 & H2 & _). rewrite H1. split.
  - apply slices_concat. exact H2.
  - apply slices_lengths. unfold nelems in H2. lia.
Qed.

Lemma validation_elems (c : @cv A) p (d : @data A) :
  validation c p = Some d -> elems d = fold_elems (cv_set c) (nth p (cv_folds c) []).
Proof.
  unfold validation. intros H. destruct (indexed_subset_spec _ _ _ H) as [_ E]. exact E.
Qed.

(* training part of a fold whose batch indices are distinct: together with the validation part it
   is the whole set, batch for batch *)
Theorem training_is_complement (c : @cv A) p (dv dt : @data A) :
  NoDup (nth p (cv_folds c) []) ->
  validation c p = Some dv -> training c p = Some dt ->
  Permutation (dv ++ dt) (cv_set c) /\ Permutation (elems dv ++ elems dt) (elems (cv_set c)).
Proof.
  intros ND Hv Ht. unfold validation, training in *.
  set (f := nth p (cv_folds c) []) in *.
  assert (Hlt : forall i, In i f -> i < length (cv_set c)).
  { unfold indexed_subset in Hv. destruct (forallb _ f) eqn:E; [|discriminate].
    rewrite forallb_forall in E. intros i Hi. apply Nat.ltb_lt. auto. }
  destruct (indexed_subset_spec _ _ _ Hv) as [-> _].
  destruct (indexed_subset_spec _ _ _ Ht) as [-> _].
  assert (P : Permutation (map (fun i => nth i (cv_set c) []) f ++ map (fun i => nth i (cv_set c) []) (complement f (length (cv_set c)))) (cv_set c)).
  { rewrite <- map_app. rewrite (Permutation_map _ (complement_perm f _ ND Hlt)).
    rewrite map_nth_seq. auto. }
  split; auto. rewrite <- elems_app. unfold elems.
  apply Permutation_concat. exact P.
Qed.

End Folds.

(* ---- counting lemmas for the index-based constructors ---- *)
Lemma sum_map_add {X} (f g : X -> nat) l :
  sum (map (fun x => f x + g x) l) = sum (map f l) + sum (map g l).
Proof. induction l; simpl; lia. Qed.

Lemma sum_indicator x s k :
  sum (map (fun p => if p =? x then 1 else 0) (seq s k)) = if (s <=? x) && (x <? s + k) then 1 else 0.
Proof.
  revert s; induction k as [|k IH]; intros s; simpl.
  - destruct (Nat.leb_spec s x); destruct (Nat.ltb_spec x (s + 0)); simpl; lia.
  - rewrite IH. destruct (Nat.eqb_spec s x); destruct (Nat.leb_spec s x); destruct (Nat.leb_spec (S s) x);
      destruct (Nat.ltb_spec x (S s + k)); destruct (Nat.ltb_spec x (s + S k)); simpl; lia.
Qed.

Lemma count_eq_cons x l p : count_eq (x :: l) p = (if p =? x then 1 else 0) + count_eq l p.
Proof. unfold count_eq. simpl. destruct (p =? x); simpl; lia. Qed.

Lemma count_partition l k : (forall i, In i l -> i < k) -> sum (map (count_eq l) (seq 0 k)) = length l.
Proof.
  induction l as [|x l IH]; intros H.
  - unfold count_eq. simpl. induction (seq 0 k); simpl; auto.
  - rewrite (map_ext _ _ (count_eq_cons x l)). rewrite sum_map_add, sum_indicator, IH.
    + pose proof (H x (or_introl eq_refl)). simpl.
      assert (x <? k = true) as -> by (apply Nat.ltb_lt; lia). simpl. lia.
    + intros i Hi. apply H. right. auto.
Qed.

Lemma filter_seq_count idx p s :
  length (filter (fun i => nth (i - s) idx 0 =? p) (seq s (length idx))) = count_eq idx p.
Proof.
  revert s; induction idx as [|x idx IH]; intros s; [reflexivity|].
  cbn [length seq filter]. rewrite Nat.sub_diag. change (nth 0 (x :: idx) 0) with x.
  rewrite count_eq_cons.
  assert (filter (fun i => nth (i - s) (x :: idx) 0 =? p) (seq (S s) (length idx))
          = filter (fun i => nth (i - S s) idx 0 =? p) (seq (S s) (length idx))) as E.
  { apply filter_ext_in. intros i Hi. apply in_seq in Hi.
    replace (i - s) with (S (i - S s)) by lia. reflexivity. }
  rewrite E. rewrite (Nat.eqb_sym x p). destruct (p =? x); cbn [length]; rewrite IH; lia.
Qed.

Lemma length_flat_map {X Y} (f : X -> list Y) l : length (flat_map f l) = sum (map (fun x => length (f x)) l).
Proof. induction l; simpl; auto. rewrite app_length. lia. Qed.

Lemma indexed_order_length idx k :
  (forall i, In i idx -> i < k) -> length (indexed_order idx k) = length idx.
Proof.
  intros H. unfold indexed_order. rewrite length_flat_map.
  transitivity (sum (map (count_eq idx) (seq 0 k))); [|apply count_partition; auto].
  f_equal. apply map_ext. intros p.
  rewrite <- (filter_seq_count idx p 0). f_equal. apply filter_ext. intros i. rewrite Nat.sub_0_r. reflexivity.
Qed.

(* slices of a flat_map are its pieces *)
Lemma slices_flat_map {X Y} (F : X -> list Y) cs :
  slices (map (fun c => length (F c)) cs) (flat_map F cs) = map F cs.
Proof.
  induction cs as [|c cs IH]; simpl; auto.
  rewrite firstn_app, firstn_all, Nat.sub_diag. simpl. rewrite app_nil_r. f_equal.
  rewrite skipn_app, skipn_all, Nat.sub_diag. simpl. exact IH.
Qed.

Section Constructors.
Context {A : Type}.
Variable dflt : A.

(* generic: gather by [order], batch by the partitioning of [psizes] *)
Theorem regroup_cv_spec psizes m starts bs order (d : @data A) :
  batch_partitioning psizes m 0 = Some (starts, bs) ->
  sum psizes = length order ->
  let c := mkCV (regroup dflt order bs d) (folds_from_starts starts (length (regroup dflt order bs d))) in
  contiguous_cv c psizes /\
  elems (cv_set c) = map (fun i => nth i (elems d) dflt) order /\
  (forall s, In s (sizes (cv_set c)) -> 1 <= s <= m).
Proof.
  intros BP Hs. cbv zeta. unfold regroup. set (l := map _ order).
  assert (Hl : sum psizes = length l) by (unfold l; rewrite map_length; auto).
  destruct (partitioning_slices psizes m 0 starts bs [] l BP eq_refl Hl) as (P1 & P2 & P3 & P4 & _).
  simpl in P1. rewrite chunk_length.
  assert (E : elems (chunk bs l) = l) by (apply chunk_elems_all; lia).
  split; [|split].
  - unfold contiguous_cv. simpl. rewrite E. split; [exact P1|]. split.
    + unfold nelems. rewrite E. auto.
    + clear -P4. revert P4. generalize (length bs). revert psizes.
      induction starts as [|s st IH]; intros [|p ps] n H; simpl in *; try discriminate; [reflexivity|].
      f_equal. apply IH. lia.
  - exact E.
  - simpl. rewrite chunk_sizes by lia. exact P3.
Qed.

(* createCVSameSize *)
Theorem cv_same_size_spec sigma k m (d : @data A) c :
  cv_same_size dflt sigma k m d = Some c ->
  contiguous_cv c (val_sizes (nelems d) k) /\
  elems (cv_set c) = map (fun i => nth i (elems d) dflt) sigma /\
  (forall s, In s (sizes (cv_set c)) -> 1 <= s <= m).
Proof.
  unfold cv_same_size. destruct (Nat.eqb_spec k 0) as [|Hk]; [discriminate|].
  destruct (batch_partitioning _ _ _) as [[starts bs]|] eqn:BP; [|discriminate].
  destruct (repartition bs d) as [d1|] eqn:R; [|discriminate].
  destruct (reorder dflt sigma d1) as [d2|] eqn:O; [|discriminate]. intros [= <-].
  destruct (repartition_spec _ _ _ R) as [E1 S1]. destruct (reorder_spec _ _ _ _ O) as [E2 S2].
  destruct (val_sizes_spec (nelems d) k ltac:(lia)) as (V1 & V2 & V3).
  assert (Hn : length sigma = nelems d).
  { unfold reorder in O. destruct (_ && _) eqn:EE; [|discriminate]. apply andb_prop in EE.
    destruct EE as [EE _]. apply Nat.eqb_eq in EE. unfold nelems in *. rewrite E1 in EE. auto. }
  pose proof (regroup_cv_spec _ _ _ _ sigma d BP ltac:(lia)) as G. cbv zeta in G.
  assert (d2 = regroup dflt sigma bs d) as ->.
  { unfold reorder in O. destruct (_ && _); [|discriminate]. injection O as <-.
    unfold regroup. rewrite S1, E1. reflexivity. }
  exact G.
Qed.

(* createCVIndexed: fold p holds exactly the elements with index p, in their original order *)
Theorem cv_indexed_spec idx k m (d : @data A) c :
  cv_indexed dflt idx k m d = Some c ->
  contiguous_cv c (map (count_eq idx) (seq 0 k)) /\
  map (fold_elems (cv_set c)) (cv_folds c) =
    map (fun p => map (fun i => nth i (elems d) dflt) (filter (fun i => nth i idx 0 =? p) (seq 0 (length idx)))) (seq 0 k) /\
  (forall s, In s (sizes (cv_set c)) -> 1 <= s <= m).
Proof.
  unfold cv_indexed. destruct (_ || _) eqn:G; [discriminate|].
  apply orb_false_elim in G. destruct G as [G1 G2]. apply negb_false_iff in G1, G2.
  apply Nat.eqb_eq in G1. rewrite forallb_forall in G2.
  assert (Hlt : forall i, In i idx -> i < k) by (intros i Hi; apply Nat.ltb_lt; auto).
  destruct (batch_partitioning _ _ _) as [[starts bs]|] eqn:BP; [|discriminate]. intros [= <-].
  pose proof (regroup_cv_spec _ _ _ _ (indexed_order idx k) d BP) as R.
  rewrite indexed_order_length, count_partition in R by auto. specialize (R eq_refl). cbv zeta in R.
  destruct R as (R1 & R2 & R3). split; [exact R1|]. split; [|exact R3].
  destruct R1 as (R1 & _). rewrite R1. rewrite R2.
  unfold indexed_order. rewrite flat_map_concat_map, concat_map, map_map, <- flat_map_concat_map.
  rewrite <- (slices_flat_map (fun p => map (fun i => nth i (elems d) dflt) (filter (fun i => nth i idx 0 =? p) (seq 0 (length idx)))) (seq 0 k)).
  f_equal. apply map_ext. intros p. rewrite map_length. rewrite <- (filter_seq_count idx p 0).
  f_equal. apply filter_ext. intros i. rewrite Nat.sub_0_r. reflexivity.
Qed.

End Constructors.
