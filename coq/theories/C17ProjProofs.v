(* C17 — proofs about the projection-tree model C17Proj.v, over any ordered field (C17Field.olaws):
     A. the cell bound of LCTree / KHCTree::squaredDistanceLowerBound for every tree whose nodes' funct is
        1-Lipschitz w.r.t. the tree's metric (squared form), and the Lipschitz property of the LC-tree
        projection (Cauchy-Schwarz, proved) and of the KHC projection in the feature space of any kernel
        with the Cauchy-Schwarz inequality for feature differences (hypothesis KCS; proved for the linear
        kernel here, for the polynomial kernel in C17KernelProofs.v);
     B. the query (C17Gen / C17GenProofs) on ANY tree with a sound bound: k nearest neighbours w.r.t. the
        tree's metric, instantiated for LC and KHC trees.
   Axiom-free. *)
From Coq Require Import List Bool Arith Lia Permutation Field.
From SharkV Require Import C17Model C17Field C17Gen C17GenProofs C17Proj.
Import ListNotations.

Section P.
Variable A : Type.
Variable F : fops A.
Hypothesis L : olaws F.
Notation "0" := (o0 F) : OF_scope.
Notation "1" := (o1 F) : OF_scope.
Infix "+" := (oadd F) : OF_scope.
Infix "*" := (omul F) : OF_scope.
Infix "-" := (osub F) : OF_scope.
Infix "/" := (odiv F) : OF_scope.
Notation "- x" := (oopp F x) : OF_scope.
Notation "a <= b" := (oleb F a b = true) : OF_scope.
Local Open Scope OF_scope.
Add Field PFfield : (ol_field F L).

Notation apoint := (apoint A).
Notation le_refl := (le_refl A F L).
Notation le_trans := (le_trans A F L).

(* ======================================================================================== *)
(* A. cell bound, generic in the node type                                                   *)
Section Tree.
Variable N : Type.
Variable funct : N -> apoint -> A.
Variable thr : N -> A.
Variable d2 : apoint -> apoint -> A.        (* squared distance of the tree's metric: d2 data_point reference *)
Variable dom : apoint -> Prop.              (* admissible points (e.g. of the right dimension) *)

Notation ptree := (ptree N).
Notation ppstep := (ppstep N).
Notation plb := (plb A F N funct thr).
Notation plb_dist := (plb_dist A F N funct thr).
Notation plb_step := (plb_step A F N funct thr).

(* "|f(x) - f(y)| is the distance between {z | f(z) = f(x)} and {z | f(z) = f(y)}" (BinaryTree.h) — what the
   bound needs of it: funct is 1-Lipschitz, in squared form *)
Definition Lip (nd : N) : Prop :=
  forall p q, dom p -> dom q -> (funct nd q - funct nd p) * (funct nd q - funct nd p) <= d2 p q.

(* p lies in the cell: left sub-tree funct <= threshold, right sub-tree threshold <= funct, along the path *)
Definition side_ok (p : apoint) (s : ppstep) : Prop :=
  if snd s then thr (fst s) <= funct (fst s) p else funct (fst s) p <= thr (fst s).
Definition in_pcell (path : list ppstep) (p : apoint) : Prop := Forall (side_ok p) path.

Definition path_Lip (path : list ppstep) : Prop := Forall (fun s : ppstep => Lip (fst s)) path.

Lemma plb_step_inv p q acc s :
  dom p -> dom q -> Lip (fst s) ->
  side_ok p s ->
  0 <= acc -> acc * acc <= d2 p q ->
  0 <= plb_step q acc s /\ plb_step q acc s * plb_step q acc s <= d2 p q.
Proof.
  destruct s as [nd isr]. unfold side_ok. simpl. intros Dp Dq HL HC H0 H1. unfold C17Proj.plb_step, dfp.
  set (v := if isr then - (funct nd q - thr nd) else funct nd q - thr nd).
  unfold oltb. destruct (oleb F v acc) eqn:E; simpl; [auto|].
  assert (Hv : 0 <= v). { apply le_trans with acc; auto. apply (lt_le A F L); auto. }
  split; [auto|].
  specialize (HL p q Dp Dq).
  eapply le_trans; [|exact HL]. destruct isr; subst v.
  - (* right child: thr <= funct p *)
    replace ((funct nd q - funct nd p) * (funct nd q - funct nd p))
      with ((funct nd p - funct nd q) * (funct nd p - funct nd q)) by ring.
    apply (sq_mono A F L); auto.
    apply (sub_0_le A F L). replace (funct nd p - funct nd q - - (funct nd q - thr nd)) with (funct nd p - thr nd) by ring.
    apply (le_0_sub A F L); auto.
  - apply (sq_mono A F L); auto.
    apply (sub_0_le A F L). replace (funct nd q - funct nd p - (funct nd q - thr nd)) with (thr nd - funct nd p) by ring.
    apply (le_0_sub A F L); auto.
Qed.

Lemma plb_fold_inv p q path : dom p -> dom q -> path_Lip path -> in_pcell path p ->
  forall acc, 0 <= acc -> acc * acc <= d2 p q ->
  0 <= fold_left (plb_step q) path acc /\
  fold_left (plb_step q) path acc * fold_left (plb_step q) path acc <= d2 p q.
Proof.
  intros Dp Dq. induction path as [|s path IH]; simpl; intros HL HC acc H0 H1; [auto|].
  inversion HL as [|? ? HL1 HL2]; subst. inversion HC as [|? ? HC1 HC2]; subst.
  destruct (plb_step_inv p q acc s Dp Dq HL1 HC1 H0 H1) as [K0 K1].
  apply IH; auto.
Qed.

(* squaredDistanceLowerBound(q) <= d(p, q)^2 for every point p of the cell *)
Theorem pcell_lower_bound path p q :
  dom p -> dom q -> 0 <= d2 p q -> path_Lip path -> in_pcell path p -> plb path q <= d2 p q.
Proof.
  intros Dp Dq Hd HL HC. unfold C17Proj.plb, C17Proj.plb_dist.
  apply (plb_fold_inv p q path Dp Dq HL HC 0).
  - apply le_refl.
  - replace (0 * 0) with 0 by ring. auto.
Qed.

Lemma plb_nonneg path q : 0 <= plb path q.
Proof. unfold C17Proj.plb. apply (sq_nonneg A F L). Qed.

Lemma in_pcell_tail s path p : in_pcell (s :: path) p -> in_pcell path p.
Proof. intros H; inversion H; auto. Qed.

(* ======================================================================================== *)
(* B. the query on a tree with a sound bound                                                 *)
Variable data : list apoint.
Notation ptA := (ptA A).
Notation pindices := (pindices N).
Notation mk_ptrace := (mk_ptrace A F N funct thr).

(* every leaf's points lie in the leaf's cell, the points of a leaf are at the same distance from every reference
   point (bucket size one: copies of one point, or points that coincide in the feature space), every node's funct
   is 1-Lipschitz *)
Fixpoint PWF (path : list ppstep) (t : ptree) : Prop :=
  match t with
  | PLeaf idx => idx <> [] /\ (forall i, In i idx -> in_pcell path (ptA data i)) /\
                 (forall i, In i idx -> forall q, dom q -> d2 (ptA data i) q = d2 (ptA data (hd 0%nat idx)) q) /\
                 (forall i, In i idx -> dom (ptA data i))
  | PNode nd l r => Lip nd /\ PWF ((nd, false) :: path) l /\ PWF ((nd, true) :: path) r
  end.

Definition pdistq (q : apoint) (i : nat) : A := d2 (ptA data i) q.

Lemma PWF_cell t : forall path, PWF path t -> forall i, In i (pindices t) -> in_pcell path (ptA data i).
Proof.
  induction t as [idx | nd l IHl r IHr]; simpl; intros path W i Hi.
  - apply W; auto.
  - destruct W as (_ & Wl & Wr). apply in_app_or in Hi. destruct Hi as [H|H].
    + eapply in_pcell_tail. eapply IHl; eauto.
    + eapply in_pcell_tail. eapply IHr; eauto.
Qed.

Lemma tidx_mk_p q t : forall path, tidx A (mk_ptrace (pdistq q) q path t) = pindices t.
Proof. induction t; simpl; intros; auto. rewrite IHt1, IHt2; auto. Qed.

Hypothesis d2_nonneg : forall p q, dom p -> dom q -> 0 <= d2 p q.

Lemma PWF_dom t : forall path, PWF path t -> forall i, In i (pindices t) -> dom (ptA data i).
Proof.
  induction t as [idx | nd l IHl r IHr]; simpl; intros path W i Hi.
  - apply W; auto.
  - destruct W as (_ & Wl & Wr). apply in_app_or in Hi. destruct Hi as [H|H]; eauto.
Qed.

Lemma mk_ptrace_sound q t : dom q -> forall path, path_Lip path -> PWF path t ->
  Sound A (oleb F) (pdistq q) (mk_ptrace (pdistq q) q path t).
Proof.
  intros Dq. induction t as [idx | nd l IHl r IHr]; simpl; intros path HL W.
  - destruct W as (Hne & Hc & He & Hd). split; [auto|]. split.
    + intros i Hi. unfold pdistq. apply He; auto.
    + assert (Hi : In (hd 0%nat idx) idx) by (destruct idx; [contradiction | left; auto]).
      unfold pdistq. apply pcell_lower_bound; auto.
  - pose proof (PWF_dom (PNode nd l r) path W) as Hd. simpl in Hd.
    destruct W as (Ln & Wl & Wr). split; [|split].
    + intros i Hi. rewrite !tidx_mk_p in Hi. unfold pdistq. apply pcell_lower_bound; auto.
      apply (PWF_cell (PNode nd l r) path); simpl; auto.
    + apply IHl; auto. constructor; auto.
    + apply IHr; auto. constructor; auto.
Qed.

Lemma mk_ptrace_fresh pd q t : forall path, fresh A (mk_ptrace pd q path t).
Proof. induction t; simpl; intros; auto. Qed.

Theorem pquery_correct t q k :
  dom q -> PWF [] t -> (k <= length (pindices t))%nat ->
  let res := pquery A F N funct thr (pdistq q) t q k in
  length res = k /\
  (forall d i, In (d, i) res -> d = d2 (ptA data i) q) /\
  gdsorted A (oleb F) (map fst res) /\
  exists rest, Permutation (pindices t) (map snd res ++ rest) /\
               forall d j, In d (map fst res) -> In j rest -> d <= d2 (ptA data j) q.
Proof.
  intros Dq W Hk. unfold pquery.
  pose proof (mk_ptrace_sound q t Dq [] (Forall_nil _) W) as S.
  pose proof (mk_ptrace_fresh (pdistq q) q t []) as Fr.
  destruct (init_ok A (oleb F) (pdistq q) _ Fr S) as [I P].
  rewrite tidx_mk_p in P.
  assert (Hk' : (k <= length (pending A (ginit A (oleb F) (mk_ptrace (pdistq q) q [] t))))%nat).
  { rewrite <- (Permutation_length P); auto. }
  destruct (results_spec A (oleb F) (ol_total F L) (ol_trans F L) (pdistq q) k _ I Hk') as (Ln & V & Sd & rest & P' & Hr).
  split; [auto|]. split; [|split; [auto|]].
  - intros d i Hi. symmetry. apply (V d i Hi).
  - exists rest. split; [rewrite P; auto | exact Hr].
Qed.

Lemma NoDup_app_l_p {X} (a b : list X) : NoDup (a ++ b) -> NoDup a.
Proof.
  induction a as [|x a IH]; simpl; intros H; [constructor|].
  inversion H; subst. constructor; [|auto]. intros Hx. apply H2. apply in_or_app; auto.
Qed.

(* over the whole data set 0 .. n-1 *)
Theorem pquery_k_smallest_dataset t q k :
  dom q -> PWF [] t -> Permutation (pindices t) (seq 0 (length data)) -> (k <= length data)%nat ->
  let res := pquery A F N funct thr (pdistq q) t q k in
  length res = k /\
  NoDup (map snd res) /\
  (forall d i, In (d, i) res -> (i < length data)%nat /\ d = d2 (ptA data i) q) /\
  gdsorted A (oleb F) (map fst res) /\
  (forall j, (j < length data)%nat -> ~ In j (map snd res) ->
             forall d, In d (map fst res) -> d <= d2 (ptA data j) q).
Proof.
  intros Dq W P Hk.
  assert (Hk' : (k <= length (pindices t))%nat) by (rewrite (Permutation_length P), seq_length; auto).
  destruct (pquery_correct t q k Dq W Hk') as (Ln & V & Sd & rest & P' & Hr).
  set (res := pquery A F N funct thr (pdistq q) t q k) in *.
  assert (P2 : Permutation (seq 0 (length data)) (map snd res ++ rest)).
  { rewrite <- P. auto. }
  assert (ND : NoDup (map snd res ++ rest)).
  { eapply Permutation_NoDup; [exact P2 | apply seq_NoDup]. }
  split; [auto|]. split; [eapply NoDup_app_l_p; eauto|]. split; [|split; [auto|]].
  - intros d i Hi. split; [|apply V; auto].
    assert (In i (seq 0 (length data))).
    { eapply Permutation_in; [apply Permutation_sym; exact P2|]. apply in_or_app; left.
      apply in_map_iff. exists (d, i); auto. }
    apply in_seq in H. lia.
  - intros j Hj Hn d Hd. apply Hr; auto.
    assert (In j (map snd res ++ rest)).
    { eapply Permutation_in; [exact P2|]. apply in_seq. lia. }
    apply in_app_or in H. tauto.
Qed.

(* the executable check run on every real tree implies the cell part of PWF *)
Lemma alist_eqb_eq a : forall b, alist_eqb A F a b = true -> a = b.
Proof.
  induction a as [|x a IH]; intros [|y b] H; simpl in H; try discriminate; auto.
  apply andb_prop in H. destruct H as [H1 H2]. apply andb_prop in H1. destruct H1 as [H0 H1].
  f_equal; auto. apply (ol_antisym F L); auto.
Qed.

Fixpoint PLip (t : ptree) : Prop :=
  match t with PLeaf _ => True | PNode nd l r => Lip nd /\ PLip l /\ PLip r end.

Lemma pwf_treeb_PWF_gen t : forall path,
  (forall i, In i (pindices t) -> in_pcell path (ptA data i)) ->
  (forall i, In i (pindices t) -> dom (ptA data i)) ->
  PLip t -> pwf_treeb A F N funct thr data t = true -> PWF path t.
Proof.
  induction t as [idx | nd l IHl r IHr]; simpl; intros path HC HD HLip H.
  - destruct idx as [|i rest]; [discriminate|]. split; [discriminate|]. split; [auto|]. split; [|auto].
    rewrite forallb_forall in H. simpl. intros j [<-|Hj] q Dq; auto. rewrite (alist_eqb_eq _ _ (H j Hj)). auto.
  - apply andb_prop in H; destruct H as [H Hr]. apply andb_prop in H; destruct H as [H Hl].
    apply andb_prop in H; destruct H as [H1 H2]. rewrite forallb_forall in H1, H2.
    destruct HLip as (Ln & Ll & Lr).
    split; [auto|]. split; [apply IHl | apply IHr]; auto;
      try (intros i Hi; apply HD; apply in_or_app; auto); intros i Hi; constructor;
      try (apply HC; apply in_or_app; auto).
    + apply H1; auto.
    + apply H2; auto.
Qed.

Lemma pwf_treeb_PWF t : (forall i, In i (pindices t) -> dom (ptA data i)) ->
  PLip t -> pwf_treeb A F N funct thr data t = true -> PWF [] t.
Proof. intros HD. apply pwf_treeb_PWF_gen; auto. intros; constructor. Qed.

Lemma PLip_of_check (f : N -> bool) t :
  (forall nd, f nd = true -> Lip nd) -> pnodes_forallb N f t = true -> PLip t.
Proof.
  intros Hf. induction t as [idx | nd l IHl r IHr]; simpl; intros H; [auto|].
  apply andb_prop in H; destruct H as [H Hr]. apply andb_prop in H; destruct H as [H Hl]. auto.
Qed.

End Tree.

(* ======================================================================================== *)
(* C. LC-tree: Euclidean metric, funct = <normal, x>                                         *)
Section LC.
Variable dim : nat.
Definition dimdom (p : apoint) : Prop := length p = dim.

Lemma lc_Lip nd : lc_unitb A F nd = true -> Lip (lcnode A) (lc_funct A F) (edist2 F) dimdom nd.
Proof.
  unfold lc_unitb, Lip, dimdom, lc_funct. intros H p q Dp Dq.
  apply (proj_lipschitz A F L); auto. congruence.
Qed.

Lemma dimdom_d2_nonneg p q : dimdom p -> dimdom q -> 0 <= edist2 F p q.
Proof. intros _ _. apply (dist2_nonneg A F L). Qed.

End LC.

(* ======================================================================================== *)
(* D. KHC-tree: the metric of the feature space of a kernel k                                 *)
Section KHC.
Variable k : apoint -> apoint -> A.
Variable dom : apoint -> Prop.
Notation kd2 := (kd2 A F k).
(* the kernel is positive semi-definite on dom, as far as the tree needs it:
   squared feature distances are non-negative and satisfy the Cauchy-Schwarz inequality
   <phi(a)-phi(b), phi(q)-phi(p)>^2 <= |phi(a)-phi(b)|^2 |phi(p)-phi(q)|^2 *)
Definition KPos : Prop := forall p q, dom p -> dom q -> 0 <= kd2 p q.
Definition KCS : Prop := forall a b p q, dom a -> dom b -> dom p -> dom q ->
  (k a q - k b q - k a p + k b p) * (k a q - k b q - k a p + k b p) <= kd2 a b * kd2 p q.

Variable data : list apoint.

Lemma khc_Lip nd : KPos -> KCS -> dom (ptA A data (kh_pos A nd)) -> dom (ptA A data (kh_neg A nd)) ->
  khc_unitb A F k data nd = true -> Lip (khcnode A) (khc_funct A F k data) kd2 dom nd.
Proof.
  intros HP HC Da Db HU p q Dp Dq. unfold khc_funct, khc_unitb in *.
  set (a := ptA A data (kh_pos A nd)) in *. set (b := ptA A data (kh_neg A nd)) in *. set (c := kh_inv A nd) in *.
  replace (((k a q - k b q) * c - (k a p - k b p) * c) * ((k a q - k b q) * c - (k a p - k b p) * c))
    with ((c * c) * ((k a q - k b q - k a p + k b p) * (k a q - k b q - k a p + k b p))) by ring.
  apply (le_scale_1 A F L) with (n := c * c * kd2 a b); auto.
  replace (c * c * kd2 a b * kd2 p q) with ((c * c) * (kd2 a b * kd2 p q)) by ring.
  apply (sub_0_le A F L).
  replace (c * c * (kd2 a b * kd2 p q) - c * c * ((k a q - k b q - k a p + k b p) * (k a q - k b q - k a p + k b p)))
    with ((c * c) * (kd2 a b * kd2 p q - (k a q - k b q - k a p + k b p) * (k a q - k b q - k a p + k b p))) by ring.
  apply (mul_nonneg A F L); [apply (sq_nonneg A F L)|]. apply (le_0_sub A F L). apply HC; auto.
Qed.

End KHC.

(* the linear kernel satisfies KPos and KCS on points of one dimension *)
Section Lin.
Variable dim : nat.

Lemma dot_vsub2 a : forall b p q, length a = length b -> length b = length p -> length p = length q ->
  dot F (vsub F a b) (vsub F q p) = dot F a q - dot F b q - dot F a p + dot F b p.
Proof.
  induction a as [|x a IH]; intros [|y b] [|u p] [|v q] H1 H2 H3; simpl in *; try discriminate; try ring.
  rewrite IH by congruence. ring.
Qed.

Lemma kd2_lin p : forall q, length p = length q -> kd2 A F (lin_k A F) p q = edist2 F p q.
Proof.
  unfold kd2, lin_k, two. induction p as [|u p IH]; intros [|v q] H; simpl in *; try discriminate; try ring.
  rewrite <- IH by congruence. ring.
Qed.

Lemma dist2_sym p : forall q, edist2 F p q = edist2 F q p.
Proof. induction p as [|u p IH]; intros [|v q]; simpl; auto. rewrite IH. ring. Qed.

Lemma lin_KPos : KPos (lin_k A F) (dimdom dim).
Proof. intros p q Dp Dq. rewrite kd2_lin by (unfold dimdom in *; congruence). apply (dist2_nonneg A F L). Qed.

Lemma lin_KCS : KCS (lin_k A F) (dimdom dim).
Proof.
  intros a b p q Da Db Dp Dq. unfold dimdom in *.
  rewrite !kd2_lin by congruence. unfold lin_k.
  rewrite <- (dot_vsub2 a b p q) by congruence.
  rewrite (dist2_sym a b). rewrite <- (dot_vsub_self A F L b a) by congruence.
  rewrite <- (dot_vsub_self A F L p q) by congruence.
  apply (dot_CS A F L).
Qed.

Lemma lin_kernel_psd_dim : KPos (lin_k A F) (dimdom dim) /\ KCS (lin_k A F) (dimdom dim).
Proof. split; [apply lin_KPos | apply lin_KCS]. Qed.

End Lin.

Definition lin_kernel_psd := lin_kernel_psd_dim.

(* ======================================================================================== *)
(* E. end to end: the k nearest neighbours w.r.t. the tree's metric                          *)
Section Final.

Definition uniformA (dim : nat) (data : list apoint) : Prop := Forall (fun p : apoint => length p = dim) data.

Lemma uniformA_ptA dim data i : uniformA dim data -> (i < length data)%nat -> dimdom dim (ptA A data i).
Proof.
  intros U Hi. unfold uniformA in U. rewrite Forall_forall in U. apply U. unfold ptA. apply nth_In; auto.
Qed.

Lemma perm_seq_lt (l : list nat) n i : Permutation l (seq 0 n) -> In i l -> (i < n)%nat.
Proof. intros P Hi. eapply Permutation_in in Hi; [|exact P]. apply in_seq in Hi. lia. Qed.

Theorem lc_query_k_nearest dim data (t : ptree (lcnode A)) q k :
  uniformA dim data -> length q = dim ->
  pwf_treeb A F (lcnode A) (lc_funct A F) (lc_thr A) data t = true ->
  pnodes_forallb (lcnode A) (lc_unitb A F) t = true ->
  Permutation (pindices (lcnode A) t) (seq 0 (length data)) -> (k <= length data)%nat ->
  let res := lc_query A F data t q k in
  length res = k /\
  NoDup (map snd res) /\
  (forall d i, In (d, i) res -> (i < length data)%nat /\ d = edist2 F (ptA A data i) q) /\
  gdsorted A (oleb F) (map fst res) /\
  (forall j, (j < length data)%nat -> ~ In j (map snd res) ->
             forall d, In d (map fst res) -> d <= edist2 F (ptA A data j) q).
Proof.
  intros U Hq Hwf Hun P Hk.
  apply (pquery_k_smallest_dataset (lcnode A) (lc_funct A F) (lc_thr A) (edist2 F) (dimdom dim) data); auto.
  - intros; apply (dist2_nonneg A F L).
  - apply pwf_treeb_PWF; auto.
    + intros i Hi. apply uniformA_ptA; auto. eapply perm_seq_lt; eauto.
    + eapply PLip_of_check; [|exact Hun]. intros nd. apply lc_Lip.
Qed.

Theorem khc_query_k_nearest (k : apoint -> apoint -> A) (dom : apoint -> Prop) data (t : ptree (khcnode A)) q kk :
  KPos k dom -> KCS k dom -> (forall i, (i < length data)%nat -> dom (ptA A data i)) -> dom q ->
  pwf_treeb A F (khcnode A) (khc_funct A F k data) (kh_thr A) data t = true ->
  pnodes_forallb (khcnode A) (khc_nodeb A F k data) t = true ->
  Permutation (pindices (khcnode A) t) (seq 0 (length data)) -> (kk <= length data)%nat ->
  let res := khc_query A F k data t q kk in
  length res = kk /\
  NoDup (map snd res) /\
  (forall d i, In (d, i) res -> (i < length data)%nat /\ d = kd2 A F k (ptA A data i) q) /\
  gdsorted A (oleb F) (map fst res) /\
  (forall j, (j < length data)%nat -> ~ In j (map snd res) ->
             forall d, In d (map fst res) -> d <= kd2 A F k (ptA A data j) q).
Proof.
  intros HP HC HD Dq Hwf Hun P Hk.
  apply (pquery_k_smallest_dataset (khcnode A) (khc_funct A F k data) (kh_thr A) (kd2 A F k) dom data); auto.
  apply pwf_treeb_PWF; auto.
  - intros i Hi. apply HD. eapply perm_seq_lt; eauto.
  - eapply PLip_of_check; [|exact Hun]. intros nd Hn. unfold khc_nodeb in Hn.
    apply andb_prop in Hn; destruct Hn as [Hn H3]. apply andb_prop in Hn; destruct Hn as [H1 H2].
    apply Nat.ltb_lt in H1, H2. apply khc_Lip; auto.
Qed.

End Final.
End P.
