(* C06 — executable model (over Q, exact) of
     * the work split / merge / normalisation of ErrorFunctionImpl and WeightedErrorFunctionImpl
       (include/shark/ObjectiveFunctions/Impl/ErrorFunction.inl) and of AbstractLoss::eval(Data,Data),
     * the piecewise-polynomial losses of include/shark/ObjectiveFunctions/Loss/ with their two code
       paths `eval` and `evalDerivative` (value + gradient w.r.t. the prediction),
     * LinearModel::eval / weightedParameterDerivative (the chain-rule step used by ErrorFunction),
     * OneNormRegularizer / TwoNormRegularizer (Regularizer.h) and ErrorFunction::setRegularizer,
     * a Section-polymorphic cross-entropy (CrossEntropy.h) instantiated with OCaml floats by the driver.
   Definitions only; proofs are in C06Proofs.v. *)
From Coq Require Import List Arith ZArith QArith Qabs Bool.
From SharkV Require Import ListAux C03Model.
Import ListNotations.
Open Scope Q_scope.

(* ------------------------------------------------------------------------------------------ *)
(* vectors; an accumulator is the list  value :: derivative ;  vadd pads the shorter operand with
   zeros so that [] is a neutral element (derivative.clear() / error = 0) *)
Definition vec := list Q.

Fixpoint vadd (a b : vec) : vec :=
  match a, b with
  | [], _ => b
  | _, [] => a
  | x :: a', y :: b' => (x + y) :: vadd a' b'
  end.
Definition vsum (l : list vec) : vec := fold_left vadd l [].
Definition vscale (c : Q) (v : vec) : vec := map (Qmult c) v.
Definition vdiv (v : vec) (n : Q) : vec := map (fun x => x / n) v.
Fixpoint vsub (a b : vec) : vec :=
  match a, b with x :: a', y :: b' => (x - y) :: vsub a' b' | _, _ => [] end.
Fixpoint dot (a b : vec) : Q :=
  match a, b with x :: a', y :: b' => x * y + dot a' b' | _, _ => 0 end.
Definition normsq (v : vec) : Q := dot v v.
Definition qsum (l : list Q) : Q := fold_right Qplus 0 l.
Definition Qn (n : nat) : Q := inject_Z (Z.of_nat n).

(* std::max(0.0, x) *)
Definition Qmax0 (x : Q) : Q := if Qlt_le_dec 0 x then x else 0.

(* exact square root on squares of rationals (std::sqrt is exact on those); floor-like otherwise *)
Definition qsqrt (q : Q) : Q :=
  let r := Qred q in Z.sqrt (Qnum r) # Z.to_pos (Z.sqrt (Zpos (Qden r))).

(* ------------------------------------------------------------------------------------------ *)
(* ErrorFunctionImpl::eval / evalDerivative, full-batch case:
     numThreads = min(SHARK_NUM_THREADS, numBatches); batchesPerThread = numBatches / numThreads;
     leftOver = numBatches - batchesPerThread*numThreads;
     thread t: [t*q + min(t,r), (t+1)*q + min(t+1,r))
   (numBatches = 0 divides by zero in the C++; Coq's 0/0 = 0 yields no range: outside the domain) *)
Definition thread_ranges (threads batches : nat) : list (nat * nat) :=
  let nt := Nat.min threads batches in
  let q := (batches / nt)%nat in
  let r := (batches - q * nt)%nat in
  map (fun t => (t * q + Nat.min t r, (t + 1) * q + Nat.min (t + 1) r)%nat) (seq 0 nt).

Section ErrFn.
Context {E : Type}.
(* what one batch contributes: loss value :: parameter derivative (evalDerivative) or [value] (eval) *)
Variable bq : list E -> vec.

(* the protected eval(start,end[,derivative]) loop *)
Definition range_q (d : @data E) (s e : nat) : vec :=
  vsum (map bq (firstn (e - s) (skipn s d))).

Definition partials (ranges : list (nat * nat)) (d : @data E) : list vec :=
  map (fun se => range_q d (fst se) (snd se)) ranges.

(* merge of the thread results in the critical region in the given arrival order, then
   error / numElements and derivative /= numElements *)
Definition finish (arrived : list vec) (n : nat) : vec := vdiv (vsum arrived) (Qn n).

Definition errfn (threads : nat) (d : @data E) : vec :=
  finish (partials (thread_ranges threads (length d)) d) (nelems d).

(* AbstractLoss::eval(Data,Data): one parallel iteration per batch *)
Definition data_mean (d : @data E) : vec := finish (map bq d) (nelems d).

(* mini-batch case: error of batch i divided by its size *)
Definition minibatch (i : nat) (d : @data E) : vec :=
  vdiv (range_q d i (i + 1)) (Qn (length (nth i d []))).
End ErrFn.

(* WeightedErrorFunctionImpl: per batch, sum_j w_j * loss(element j) through the single-element
   overloads; coefficient rows w_j * singleDerivative; one weightedParameterDerivative per batch;
   merged in arrival order; divided by the sum of weights *)
Section WErrFn.
Context {E : Type}.
Variable eloss : E -> Q * vec.              (* single-element evalDerivative: value, d/dprediction *)
Variable wpd : list (E * vec) -> vec.       (* model->weightedParameterDerivative(batch, coefficient rows) *)
Variable w : E -> Q.

Definition wbatch (b : list E) : vec :=
  let r := map (fun e => (w e * fst (eloss e), vscale (w e) (snd (eloss e)))) b in
  qsum (map fst r) :: wpd (combine b (map snd r)).
Definition wbatch_eval (b : list E) : vec := [qsum (map (fun e => w e * fst (eloss e)) b)].

Definition sum_weights (d : @data E) : Q := qsum (map (fun b => qsum (map w b)) d).
Definition werrfn (arrived : list vec) (d : @data E) : vec := vdiv (vsum arrived) (sum_weights d).
Definition werrfn_seq (d : @data E) : vec := werrfn (map wbatch d) d.
Definition werrfn_eval_seq (d : @data E) : vec := werrfn (map wbatch_eval d) d.
End WErrFn.

(* ------------------------------------------------------------------------------------------ *)
(* Losses.  A batch is a list of (label, prediction row). *)

(* SquaredLoss<RealVector,RealVector> *)
Fixpoint sqdiff (l p : vec) : Q :=
  match l, p with a :: l', b :: p' => (a - b) * (a - b) + sqdiff l' p' | _, _ => 0 end.
Definition sq_eval (b : list (vec * vec)) : Q :=
  (1#2) * qsum (map (fun e => sqdiff (fst e) (snd e)) b).
Definition sq_evald (b : list (vec * vec)) : Q * list vec :=
  (sq_eval b, map (fun e => vsub (snd e) (fst e)) b).

(* SquaredLoss<RealVector,unsigned int> (one-hot target) *)
Definition sqc_row (c : nat) (p : vec) : Q := normsq p + 1 - 2 * nth c p 0.
Definition sqc_eval (b : list (nat * vec)) : Q :=
  (1#2) * qsum (map (fun e => sqc_row (fst e) (snd e)) b).
Definition sqc_evald (b : list (nat * vec)) : Q * list vec :=
  (sqc_eval b, map (fun e => upd (fst e) (nth (fst e) (snd e) 0 - 1) (snd e)) b).

(* AbsoluteLoss: Euclidean distance per row, no derivative *)
Definition abs_eval (b : list (vec * vec)) : Q :=
  qsum (map (fun e => qsqrt (normsq (vsub (snd e) (fst e)))) b).

(* HingeLoss / SquaredHingeLoss; dim = predictions.size2() *)
Definition ylab (c : nat) : Q := 2 * Qn c - 1.
Definition hinge_bin_s (c : nat) (p : vec) : Q := Qmax0 (1 - ylab c * nth 0 p 0).
Definition hinge_mc_s (c : nat) (p : vec) (o : nat) : Q := Qmax0 (2 - nth c p 0 + nth o p 0).
Definition others (c dim : nat) : list nat := filter (fun o => negb (o =? c)%nat) (seq 0 dim).

Definition hinge_eval (dim : nat) (b : list (nat * vec)) : Q :=
  if (dim =? 1)%nat then qsum (map (fun e => hinge_bin_s (fst e) (snd e)) b)
  else qsum (map (fun e => qsum (map (hinge_mc_s (fst e) (snd e)) (others (fst e) dim))) b) / 2.

Definition hinge_mc_grad (c : nat) (p : vec) (dim : nat) : vec :=
  fold_left (fun g o => if Qlt_le_dec 0 (hinge_mc_s c p o)
                        then let g1 := upd o (1#2) g in upd c (nth c g1 0 - (1#2)) g1
                        else g) (others c dim) (repeat 0 dim).

Definition hinge_evald (dim : nat) (b : list (nat * vec)) : Q * list vec :=
  if (dim =? 1)%nat then
    (qsum (map (fun e => hinge_bin_s (fst e) (snd e)) b),
     map (fun e => [if Qlt_le_dec 0 (hinge_bin_s (fst e) (snd e)) then - ylab (fst e) else 0]) b)
  else
    (qsum (map (fun e => qsum (map (hinge_mc_s (fst e) (snd e)) (others (fst e) dim))) b) / 2,
     map (fun e => hinge_mc_grad (fst e) (snd e) dim) b).

Definition sqr (x : Q) : Q := x * x.

Definition sqhinge_eval (dim : nat) (b : list (nat * vec)) : Q :=
  if (dim =? 1)%nat then qsum (map (fun e => sqr (hinge_bin_s (fst e) (snd e))) b) / 2
  else qsum (map (fun e => qsum (map (fun o => sqr (hinge_mc_s (fst e) (snd e) o)) (others (fst e) dim))) b) / 4 / 2.

Definition sqhinge_mc_grad (c : nat) (p : vec) (dim : nat) : vec :=
  fold_left (fun g o => let s := hinge_mc_s c p o in
                        if Qlt_le_dec 0 s
                        then let g1 := upd o (s * (1#4)) g in upd c (nth c g1 0 - s * (1#4)) g1
                        else g) (others c dim) (repeat 0 dim).

Definition sqhinge_evald (dim : nat) (b : list (nat * vec)) : Q * list vec :=
  if (dim =? 1)%nat then
    (qsum (map (fun e => sqr (hinge_bin_s (fst e) (snd e))) b) / 2,
     map (fun e => let s := hinge_bin_s (fst e) (snd e) in
                   [if Qlt_le_dec 0 s then - ylab (fst e) * s else 0]) b)
  else
    (qsum (map (fun e => qsum (map (fun o => sqr (hinge_mc_s (fst e) (snd e) o)) (others (fst e) dim))) b) / 4 / 2,
     map (fun e => sqhinge_mc_grad (fst e) (snd e) dim) b).

(* EpsilonHingeLoss(eps): eval uses |label - prediction|, evalDerivative |prediction - label| *)
Fixpoint map2 {A B C} (f : A -> B -> C) (a : list A) (b : list B) : list C :=
  match a, b with x :: a', y :: b' => f x y :: map2 f a' b' | _, _ => [] end.

Definition eps_eval (eps : Q) (b : list (vec * vec)) : Q :=
  qsum (map (fun e => qsum (map2 (fun l p => Qmax0 (Qabs (l - p) - eps)) (fst e) (snd e))) b).
Definition eps_s (eps l p : Q) : Q := Qmax0 (Qabs (p - l) - eps).
Definition eps_g (eps l p : Q) : Q :=
  if Qlt_le_dec 0 (eps_s eps l p) then (if Qlt_le_dec l p then 1 else - (1)) else 0.
Definition eps_evald (eps : Q) (b : list (vec * vec)) : Q * list vec :=
  (qsum (map (fun e => qsum (map2 (eps_s eps) (fst e) (snd e))) b),
   map (fun e => map2 (eps_g eps) (fst e) (snd e)) b).

(* SquaredEpsilonHingeLoss(eps): m_sqrEpsilon = eps^2 *)
Definition sqeps_eval (eps : Q) (b : list (vec * vec)) : Q :=
  (1#2) * qsum (map (fun e => Qmax0 (normsq (vsub (fst e) (snd e)) - eps * eps)) b).
Definition sqeps_s (eps : Q) (l p : vec) : Q := (1#2) * Qmax0 (normsq (vsub p l) - eps * eps).
Definition sqeps_evald (eps : Q) (b : list (vec * vec)) : Q * list vec :=
  (qsum (map (fun e => sqeps_s eps (fst e) (snd e)) b),
   map (fun e => if Qlt_le_dec 0 (sqeps_s eps (fst e) (snd e)) then vsub (snd e) (fst e)
                 else map (fun _ => 0) (snd e)) b).

(* HuberLoss(delta) *)
Definition huber_s (delta : Q) (l p : vec) : Q :=
  let n2 := normsq (vsub p l) in
  if Qlt_le_dec (delta * delta) n2 then delta * qsqrt n2 - (1#2) * (delta * delta) else (1#2) * n2.
Definition huber_g (delta : Q) (l p : vec) : vec :=
  let n2 := normsq (vsub p l) in
  if Qlt_le_dec (delta * delta) n2 then vscale (delta / qsqrt n2) (vsub p l) else vsub p l.
Definition huber_eval (delta : Q) (b : list (vec * vec)) : Q :=
  qsum (map (fun e => huber_s delta (fst e) (snd e)) b).
Definition huber_evald (delta : Q) (b : list (vec * vec)) : Q * list vec :=
  (qsum (map (fun e => huber_s delta (fst e) (snd e)) b), map (fun e => huber_g delta (fst e) (snd e)) b).

(* ZeroOneLoss<unsigned,unsigned>, ZeroOneLoss<unsigned,RealVector>(threshold), DiscreteLoss(cost) *)
Definition zo_eval (b : list (nat * nat)) : Q :=
  qsum (map (fun e => if (snd e =? fst e)%nat then 0 else 1) b).
Definition zov_single (thr : Q) (c : nat) (p : vec) : Q :=
  if (length p =? 1)%nat then
    (if Nat.eqb (if Qlt_le_dec thr (nth 0 p 0) then 1%nat else 0%nat) c then 0 else 1)
  else if existsb (fun i => if Qlt_le_dec (nth i p 0) (nth c p 0) then false else true) (others c (length p))
       then 1 else 0.
Definition zov_eval (thr : Q) (b : list (nat * vec)) : Q :=
  qsum (map (fun e => zov_single thr (fst e) (snd e)) b).
Definition disc_eval (cost : list vec) (b : list (nat * nat)) : Q :=
  qsum (map (fun e => nth (snd e) (nth (fst e) cost []) 0) b).

(* ------------------------------------------------------------------------------------------ *)
(* loss table used by the ErrorFunction model: label = (class, real vector) *)
Inductive lossk := LSq | LSqC | LHinge | LSqHinge | LEps (eps : Q) | LSqEps (eps : Q) | LHuber (delta : Q).
Definition lab := (nat * vec)%type.

Definition vlabs (b : list (lab * vec)) : list (vec * vec) := map (fun e => (snd (fst e), snd e)) b.
Definition clabs (b : list (lab * vec)) : list (nat * vec) := map (fun e => (fst (fst e), snd e)) b.

Definition loss_eval (k : lossk) (dim : nat) (b : list (lab * vec)) : Q :=
  match k with
  | LSq => sq_eval (vlabs b) | LSqC => sqc_eval (clabs b)
  | LHinge => hinge_eval dim (clabs b) | LSqHinge => sqhinge_eval dim (clabs b)
  | LEps e => eps_eval e (vlabs b) | LSqEps e => sqeps_eval e (vlabs b)
  | LHuber dl => huber_eval dl (vlabs b)
  end.
Definition loss_evald (k : lossk) (dim : nat) (b : list (lab * vec)) : Q * list vec :=
  match k with
  | LSq => sq_evald (vlabs b) | LSqC => sqc_evald (clabs b)
  | LHinge => hinge_evald dim (clabs b) | LSqHinge => sqhinge_evald dim (clabs b)
  | LEps e => eps_evald e (vlabs b) | LSqEps e => sqeps_evald e (vlabs b)
  | LHuber dl => huber_evald dl (vlabs b)
  end.

(* ------------------------------------------------------------------------------------------ *)
(* LinearModel with offset: parameter vector = rows of the matrix, then the offset *)
Record linmodel := { lW : list vec; lb : vec }.
Definition lin_eval (m : linmodel) (x : vec) : vec := map2 (fun row bj => dot row x + bj) (lW m) (lb m).
Definition lin_wpd1 (x g : vec) : vec := concat (map (fun gj => vscale gj x) g) ++ g.
Definition lin_wpd (xg : list (vec * vec)) : vec := vsum (map (fun e => lin_wpd1 (fst e) (snd e)) xg).

Definition elem := (vec * lab)%type.       (* input, label *)
Definition lin_preds (m : linmodel) (b : list elem) : list (lab * vec) :=
  map (fun e => (snd e, lin_eval m (fst e))) b.

(* one iteration of ErrorFunctionImpl::evalDerivative(start,end,derivative) *)
Definition lin_bq (k : lossk) (m : linmodel) (b : list elem) : vec :=
  let r := loss_evald k (length (lb m)) (lin_preds m b) in
  fst r :: lin_wpd (combine (map fst b) (snd r)).
(* one iteration of ErrorFunctionImpl::eval(start,end) *)
Definition lin_bq_eval (k : lossk) (m : linmodel) (b : list elem) : vec :=
  [loss_eval k (length (lb m)) (lin_preds m b)].

(* the same two loops for ANY model, given at fixed parameters as the pair
     geval : input -> prediction                      (AbstractModel::eval on one input)
     gwpd  : batch of (input, coefficient row) -> vec  (AbstractModel::weightedParameterDerivative)
   ErrorFunctionImpl only uses the model through these two calls. *)
Section GenModel.
Variables (geval : vec -> vec) (gwpd : list (vec * vec) -> vec) (dim : nat).
Definition gen_preds (b : list elem) : list (lab * vec) := map (fun e => (snd e, geval (fst e))) b.
Definition gen_bq (k : lossk) (b : list elem) : vec :=
  let r := loss_evald k dim (gen_preds b) in
  fst r :: gwpd (combine (map fst b) (snd r)).
Definition gen_bq_eval (k : lossk) (b : list elem) : vec := [loss_eval k dim (gen_preds b)].
End GenModel.

(* two LinearModels with offset and linear activation concatenated (ConcatenatedModel, `l1 >> l2`):
   non-linear (bilinear) in the parameters.  Parameter vector = parameters of l1, then of l2.
   weightedParameterDerivative: l2's derivative at the hidden activation, the coefficients are
   propagated through l2 (weightedInputDerivative = W2^T g) and fed to l1. *)
Record net2 := { n1 : linmodel; n2 : linmodel }.
Definition net2_eval (m : net2) (x : vec) : vec := lin_eval (n2 m) (lin_eval (n1 m) x).
(* W^T g, accumulated row by row from `nin` zeros *)
Definition lin_wid (nin : nat) (m : linmodel) (g : vec) : vec :=
  fold_left vadd (map2 (fun row gj => vscale gj row) (lW m) g) (repeat 0 nin).
Definition net2_wpd1 (m : net2) (x g : vec) : vec :=
  let h := lin_eval (n1 m) x in
  lin_wpd1 x (lin_wid (length h) (n2 m) g) ++ lin_wpd1 h g.
Definition net2_wpd (m : net2) (xg : list (vec * vec)) : vec :=
  vsum (map (fun e => net2_wpd1 m (fst e) (snd e)) xg).
Definition net2_bq (k : lossk) (m : net2) : list elem -> vec :=
  gen_bq (net2_eval m) (net2_wpd m) (length (lb (n2 m))) k.
Definition net2_bq_eval (k : lossk) (m : net2) : list elem -> vec :=
  gen_bq_eval (net2_eval m) (length (lb (n2 m))) k.
Definition net2_ef_eval (k : lossk) (m : net2) (threads : nat) (d : @data elem) : vec :=
  errfn (net2_bq_eval k m) threads d.
Definition net2_ef_evald (k : lossk) (m : net2) (threads : nat) (d : @data elem) : vec :=
  errfn (net2_bq k m) threads d.

Definition ef_eval (k : lossk) (m : linmodel) (threads : nat) (d : @data elem) : vec :=
  errfn (lin_bq_eval k m) threads d.
Definition ef_evald (k : lossk) (m : linmodel) (threads : nat) (d : @data elem) : vec :=
  errfn (lin_bq k m) threads d.

(* weighted: element = (input, label, weight) *)
Definition welem := (elem * Q)%type.
Definition lin_eloss (k : lossk) (m : linmodel) (e : welem) : Q * vec :=
  let r := loss_evald k (length (lb m)) (lin_preds m [fst e]) in (fst r, nth 0 (snd r) []).
Definition lin_wwpd (xg : list (welem * vec)) : vec := lin_wpd (map (fun e => (fst (fst (fst e)), snd e)) xg).
Definition wef_evald (k : lossk) (m : linmodel) (d : @data welem) : vec :=
  werrfn_seq (lin_eloss k m) lin_wwpd snd d.
Definition wef_eval (k : lossk) (m : linmodel) (d : @data welem) : vec :=
  werrfn_eval_seq (lin_eloss k m) snd d.

(* ------------------------------------------------------------------------------------------ *)
(* Regularizers (mask = [] means no mask) and ErrorFunction::setRegularizer(factor, r) *)
Definition qsign (x : Q) : Q := if Qlt_le_dec 0 x then 1 else if Qlt_le_dec x 0 then - (1) else 0.
Definition one_eval (mask x : vec) : Q :=
  match mask with [] => qsum (map Qabs x) | _ => qsum (map2 (fun xi mi => Qabs (xi * mi)) x mask) end.
Definition one_grad (mask x : vec) : vec :=
  match mask with [] => map qsign x | _ => map2 (fun xi mi => qsign xi * mi) x mask end.
Definition two_eval (mask x : vec) : Q :=
  match mask with [] => (1#2) * normsq x | _ => (1#2) * qsum (map2 (fun xi mi => mi * (xi * xi)) x mask) end.
Definition two_grad (mask x : vec) : vec :=
  match mask with [] => x | _ => map2 (fun xi mi => mi * xi) x mask end.

(* r = value :: derivative of the unregularised error; result of ErrorFunction::evalDerivative *)
Definition add_reg (lam : Q) (rv : Q) (rg : vec) (r : vec) : vec := vadd r (vscale lam (rv :: rg)).
Definition add_reg_eval (lam : Q) (rv : Q) (r : vec) : vec := vadd r [lam * rv].

(* ------------------------------------------------------------------------------------------ *)
(* CrossEntropy<unsigned int, RealVector>, written over an abstract carrier: the driver passes
   OCaml float operations (no Extract Constant).  Two code paths: single-element eval and the
   batch evalDerivative row computation. *)
Section CE.
Variable A : Type.
Variables (zero one : A) (add sub mul div : A -> A -> A) (opp : A -> A) (expA logA : A -> A)
          (ltb : A -> A -> bool) (ofnat : nat -> A).

Definition amax (l : list A) (d : A) : A := fold_left (fun m x => if ltb m x then x else m) (tl l) (hd d l).
Definition asum (l : list A) : A := fold_left add l zero.

(* evalError(label, exponential, value) *)
Definition ce_evalError (label ex value : A) : A :=
  if ltb (mul value label) (opp (ofnat 200)) then opp (mul value label) else logA (add one ex).

Definition ce_eval (c : nat) (p : list A) : A :=
  if (length p =? 1)%nat then
    let label := sub (mul (ofnat 2) (ofnat c)) one in
    let ex := expA (mul (opp label) (nth 0 p zero)) in
    ce_evalError label ex (nth 0 p zero)
  else
    let mx := amax p zero in
    let ln := asum (map (fun x => expA (sub x mx)) p) in
    sub (add (logA ln) mx) (nth c p zero).

Definition ce_evald (c : nat) (p : list A) : A * list A :=
  if (length p =? 1)%nat then
    let label := sub (mul (ofnat 2) (ofnat c)) one in
    let ex := expA (mul (opp label) (nth 0 p zero)) in
    let sg := div one (add one ex) in
    (ce_evalError label ex (nth 0 p zero), [mul (opp label) (sub one sg)])
  else
    let mx := amax p zero in
    let g := map (fun x => expA (sub x mx)) p in
    let nrm := asum g in
    let g1 := map (fun x => div x nrm) g in
    (add (sub (logA nrm) (nth c p zero)) mx, upd c (sub (nth c g1 zero) one) g1).

(* the batch entry points of CrossEntropy<unsigned int, RealVector>: a loop `error += ...` over the rows *)
Definition ce_batch_eval (b : list (nat * list A)) : A :=
  asum (map (fun e => ce_eval (fst e) (snd e)) b).
Definition ce_batch_evald (b : list (nat * list A)) : A * list (list A) :=
  (asum (map (fun e => fst (ce_evald (fst e) (snd e))) b), map (fun e => snd (ce_evald (fst e) (snd e))) b).

(* CrossEntropy<RealVector, RealVector> (probability-vector labels), batch code as written:
     maximum = max(as_rows(prediction)); norm = sum(as_rows(exp(prediction - maximum)));
     error = sum(log(norm)) - sum(target * prediction) + sum(maximum);
     gradient = exp(prediction - maximum) / norm - target
   a batch is a list of (target row, prediction row) *)
Fixpoint amap2 (f : A -> A -> A) (a b : list A) : list A :=
  match a, b with x :: a', y :: b' => f x y :: amap2 f a' b' | _, _ => [] end.
Definition cev_shift (p : list A) : list A := let mx := amax p zero in map (fun x => expA (sub x mx)) p.
Definition cev_eval (b : list (list A * list A)) : A :=
  add (sub (asum (map (fun e => logA (asum (cev_shift (snd e)))) b))
           (asum (concat (map (fun e => amap2 mul (fst e) (snd e)) b))))
      (asum (map (fun e => amax (snd e) zero) b)).
Definition cev_evald (b : list (list A * list A)) : A * list (list A) :=
  (cev_eval b,
   map (fun e => let g := cev_shift (snd e) in let nrm := asum g in
                 amap2 sub (map (fun x => div x nrm) g) (fst e)) b).

(* HuberLoss and AbsoluteLoss over the abstract carrier with a square root (the Q instance with qsqrt is
   huber_s / huber_g / abs_eval above; the driver also instantiates with OCaml floats) *)
Variable sqrtA : A -> A.
Fixpoint asub (a b : list A) : list A :=
  match a, b with x :: a', y :: b' => sub x y :: asub a' b' | _, _ => [] end.
Fixpoint adot (a b : list A) : A :=
  match a, b with x :: a', y :: b' => add (mul x y) (adot a' b') | _, _ => zero end.
Definition anormsq (v : list A) : A := adot v v.
Definition ahalf : A := div one (add one one).
Definition huberA_s (delta : A) (l p : list A) : A :=
  let n2 := anormsq (asub p l) in
  if ltb (mul delta delta) n2 then sub (mul delta (sqrtA n2)) (mul ahalf (mul delta delta)) else mul ahalf n2.
Definition huberA_g (delta : A) (l p : list A) : list A :=
  let n2 := anormsq (asub p l) in
  if ltb (mul delta delta) n2 then map (mul (div delta (sqrtA n2))) (asub p l) else asub p l.
Definition huberA_eval (delta : A) (b : list (list A * list A)) : A :=
  asum (map (fun e => huberA_s delta (fst e) (snd e)) b).
Definition huberA_evald (delta : A) (b : list (list A * list A)) : A * list (list A) :=
  (asum (map (fun e => huberA_s delta (fst e) (snd e)) b), map (fun e => huberA_g delta (fst e) (snd e)) b).
Definition absA_single (l p : list A) : A := sqrtA (anormsq (asub p l)).
Definition absA_eval (b : list (list A * list A)) : A := asum (map (fun e => absA_single (fst e) (snd e)) b).
End CE.

(* ------------------------------------------------------------------------------------------ *)
(* ZeroOneLoss<unsigned int, RealVector>::eval(Data targets, Data predictions, RealVector weights):
   a running element index over all batches, error += weights(element) * evalSingle(...), divided by
   sum(weights).  The weight vector has one entry per element, in element order over all batches. *)
Definition zow_eval (thr : Q) (d : @data (nat * vec)) (w : vec) : Q :=
  qsum (map (fun ew => snd ew * zov_single thr (fst (fst ew)) (snd (fst ew))) (combine (elems d) w)) / qsum w.
