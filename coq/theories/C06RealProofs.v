(* C06 — the laws assumed in C06FieldProofs.v are satisfiable: the real numbers of the standard library with
   exp, ln, sqrt satisfy all of them, so every theorem of C06FieldProofs.v holds for the polymorphic loss code
   of C06Model.v read over R.  Uses the standard-library axioms of the reals only (printed by Print Assumptions
   in Properties_C06.v); nothing here is used by the axiom-free theorems. *)
From Coq Require Import List Reals Lra.
From SharkV Require Import ListAux C06Model C06FieldProofs.
Import ListNotations.
Open Scope R_scope.

Definition Rltb (a b : R) : bool := if Rlt_dec a b then true else false.

Lemma Rltb_lt a b : lt Rltb a b <-> a < b.
Proof. unfold lt, Rltb. destruct (Rlt_dec a b); split; intros H; try assumption; try reflexivity; try discriminate; contradiction. Qed.

Theorem R_ordered_field : OrdFieldLaws 0 1 Rplus Rminus Rmult Rdiv Ropp Rinv Rltb.
Proof.
  split.
  - exact Rfield.
  - intros a H. apply Rltb_lt in H. lra.
  - intros a b c H1 H2. apply Rltb_lt in H1, H2. apply Rltb_lt. lra.
  - intros a b. destruct (Rtotal_order a b) as [H|[H|H]]; [left | right; left | right; right]; try apply Rltb_lt; assumption.
  - intros a b c H. apply Rltb_lt in H. apply Rltb_lt. lra.
  - intros a b H1 H2. apply Rltb_lt in H1, H2. apply Rltb_lt. apply Rmult_lt_0_compat; assumption.
Qed.

Theorem R_ofnat : OfnatLaws 0 1 Rplus INR.
Proof. split; [reflexivity | intros n; apply S_INR]. Qed.

Theorem R_sqrt : SqrtLaws 0 Rmult Rltb sqrt.
Proof.
  split.
  - intros x H. apply Rltb_lt in H. split; [apply Rltb_lt, sqrt_lt_R0, H | apply sqrt_sqrt; lra].
  - exact sqrt_0.
Qed.

Theorem R_explog : ExpLogLaws 0 Rplus Rmult Rltb exp ln.
Proof.
  split.
  - exact exp_plus.
  - intros a. apply Rltb_lt, exp_pos.
  - exact ln_exp.
  - intros y H. apply Rltb_lt in H. apply exp_ln, H.
Qed.

(* the instantiated statements (R): Huber outside the ball -- the side conditions are only "strictly outside
   at both ends of the step" -- and log-sum-exp / softmax for the cross-entropy *)
Definition R_huber_outer_gradient := huberA_outer_gradient R 0 1 Rplus Rminus Rmult Rdiv Ropp Rinv Rltb sqrt R_ordered_field R_sqrt.
Definition R_abs_is_distance := absA_is_distance R 0 1 Rplus Rminus Rmult Rdiv Ropp Rinv Rltb sqrt R_ordered_field R_sqrt.
Definition R_lse_shift := lse_shift R 0 1 Rplus Rminus Rmult Rdiv Ropp Rinv Rltb exp ln R_ordered_field R_explog.
Definition R_ce_grad_multiclass := ce_grad_multiclass R 0 1 Rplus Rminus Rmult Rdiv Ropp Rinv Rltb exp ln INR R_ordered_field R_explog.
Definition R_ce_grad_binary := ce_grad_binary R 0 1 Rplus Rminus Rmult Rdiv Ropp Rinv Rltb exp ln INR R_ordered_field R_ofnat R_explog.
Definition R_cev_def_is_cross_entropy := cev_def_is_cross_entropy R 0 1 Rplus Rminus Rmult Rdiv Ropp Rinv Rltb exp ln R_ordered_field R_explog.

(* a concrete point strictly outside the ball at both ends of a step: delta = 1, label 0, p = (3,4), v = (1,0), t = 1 *)
Example R_huber_outer_side_conditions :
  lt Rltb (1 * 1) (anormsq R 0 Rplus Rmult (asub R Rminus [3; 4] [0; 0])) /\
  lt Rltb (1 * 1) (anormsq R 0 Rplus Rmult (asub R Rminus (avaxpy R Rplus Rmult 1 [1; 0] [3; 4]) [0; 0])).
Proof. split; apply Rltb_lt; unfold anormsq; simpl; lra. Qed.

(* the one-output cross-entropy above the cut-off: x = 1, label 1 *)
Example R_ce_no_cutoff : Rltb (1 * ylabel R 1 Rminus Rmult INR 1) (- INR 200) = false.
Proof.
  unfold Rltb. destruct (Rlt_dec _ _) as [H|H]; [exfalso | reflexivity].
  unfold ylabel in H. pose proof (pos_INR 200) as P.
  change (INR 2) with (1 + 1) in H. change (INR 1) with 1 in H. lra.
Qed.
