(* C15 — NormalizeComponentsZCA on rank-deficient data (after the repair 2b5526e7): the output covariance is the
   target variance times the orthogonal projector onto the span of the directions with positive variance. *)
From Coq Require Import List Arith Bool QArith Lia Lqa Setoid.
From SharkV Require Import ListAux C03Model C15Model C15Aux C15ProofsLin.
Import ListNotations.
Open Scope Q_scope.

(* sum_j (sum_i c_i V j i) * V j i' = c_i'  for orthonormal columns *)
Lemma comb_dot d k V (cf : nat -> Q) i' :
  (forall i l, (i < k)%nat -> (l < k)%nat -> gram d V i l == delta i l) -> (i' < k)%nat ->
  sumn d (fun j => sumn k (fun i => cf i * V j i) * V j i') == cf i'.
Proof.
  intros HG Hi.
  rewrite (sumn_ext_all d _ (fun j => sumn k (fun i => cf i * (V j i * V j i')))).
  2:{ intros j. rewrite <- sumn_scal_r. apply sumn_ext_all; intros; ring. }
  rewrite sumn_swap.
  rewrite (sumn_ext k _ (fun i => delta i' i * cf i)).
  - apply sumn_delta; exact Hi.
  - intros i Hk. rewrite sumn_scal. fold (gram d V i i'). rewrite (HG i i' Hk Hi), (delta_sym i i'). ring.
Qed.

(* P * (V_k b) = V_k b  for P = V_k V_k^T *)
Lemma proj_mul d k V (b : nat -> Q) a :
  (forall i l, (i < k)%nat -> (l < k)%nat -> gram d V i l == delta i l) ->
  sumn d (fun j => proj k V a j * sumn k (fun i => V j i * b i)) == sumn k (fun i => V a i * b i).
Proof.
  intros HG.
  rewrite (sumn_ext_all d _ (fun j => sumn k (fun i' => b i' * (sumn k (fun i => V a i * V j i) * V j i')))).
  2:{ intros j. unfold proj. rewrite <- sumn_scal. apply sumn_ext_all; intros; ring. }
  rewrite sumn_swap. apply sumn_ext; intros i' Hi.
  rewrite sumn_scal, (comb_dot d k V (fun i => V a i) i' HG Hi). ring.
Qed.

Lemma proj_sym k V a c : proj k V a c == proj k V c a.
Proof. unfold proj. apply sumn_ext_all; intros; ring. Qed.

Lemma proj_idempotent d k V a c :
  (forall i l, (i < k)%nat -> (l < k)%nat -> gram d V i l == delta i l) ->
  sumn d (fun j => proj k V a j * proj k V j c) == proj k V a c.
Proof. intros HG. unfold proj at 2. rewrite (proj_mul d k V (fun i => V c i) a HG). reflexivity. Qed.

(* if the remaining eigenvalues vanish, C = sum_{i<k} ev_i v_i v_i^T, the projector fixes the range of C: P C = C *)
Lemma proj_fixes_range d k V ev (C : nat -> nat -> Q) a l :
  (forall i l, (i < k)%nat -> (l < k)%nat -> gram d V i l == delta i l) ->
  (forall j l, C j l == sumn k (fun i => V j i * (ev i * V l i))) ->
  sumn d (fun j => proj k V a j * C j l) == C a l.
Proof.
  intros HG HC.
  rewrite (sumn_ext_all d _ (fun j => proj k V a j * sumn k (fun i => V j i * (ev i * V l i)))).
  2:{ intros j. rewrite (HC j l). reflexivity. }
  rewrite (proj_mul d k V (fun i => ev i * V l i) a HG), (HC a l). reflexivity.
Qed.

(* W C W^T = tv * V_k V_k^T  for  W = r sum_{i<k} (1/s_i) v_i v_i^T *)
Lemma zca_wcw d k V ev s r tv (D : @data (list Q)) a c :
  (forall i j, (i < k)%nat -> (j < d)%nat -> eig_residual d V ev D i j == 0) ->
  (forall i l, (i < k)%nat -> (l < k)%nat -> gram d V i l == delta i l) ->
  (forall i, (i < k)%nat -> s i * s i == ev i /\ ~ s i == 0) -> r * r == tv ->
  wcw d (zca_mat k V s r) D a c == tv * proj k V a c.
Proof.
  intros HE HG HS Hr. unfold wcw.
  (* inner sum: (C W^T)(j, c) *)
  assert (In : forall j, (j < d)%nat ->
     sumn d (fun l => cov (feat j) (feat l) D * zca_mat k V s r c l)
     == sumn k (fun i => (r / s i * V c i * ev i) * V j i)).
  { intros j Hj. unfold zca_mat.
    rewrite (sumn_ext_all d _ (fun l => sumn k (fun i => (r / s i * V c i) * (cov (feat j) (feat l) D * V l i)))).
    2:{ intros l. rewrite <- sumn_scal. apply sumn_ext_all; intros; ring. }
    rewrite sumn_swap. apply sumn_ext; intros i Hi. rewrite sumn_scal.
    assert (E : sumn d (fun l => cov (feat j) (feat l) D * V l i) == ev i * V j i).
    { specialize (HE i j Hi Hj). unfold eig_residual in HE. lra. }
    rewrite E. ring. }
  rewrite (sumn_ext d _ (fun j => sumn k (fun i => r / s i * V a i * V j i) * sumn k (fun i => (r / s i * V c i * ev i) * V j i))).
  2:{ intros j Hj. rewrite <- (In j Hj). unfold zca_mat at 1. rewrite <- sumn_scal. apply sumn_ext_all; intros; ring. }
  (* outer sum over j: expand the second factor and use orthonormality *)
  rewrite (sumn_ext_all d _ (fun j => sumn k (fun i' => (r / s i' * V c i' * ev i') *
                                        (sumn k (fun i => (r / s i * V a i) * V j i) * V j i')))).
  2:{ intros j. rewrite <- sumn_scal. apply sumn_ext_all; intros; ring. }
  rewrite sumn_swap. unfold proj. rewrite <- sumn_scal. apply sumn_ext; intros i' Hi.
  rewrite sumn_scal, (comb_dot d k V (fun i => r / s i * V a i) i' HG Hi).
  destruct (HS i' Hi) as [Hs Hs0]. rewrite <- Hs, <- Hr. field. exact Hs0.
Qed.

Lemma zca_rank_deficient_projector d k V ev s r tv (D : @data (list Q)) : ~ count D == 0 ->
  (forall i j, (i < k)%nat -> (j < d)%nat -> eig_residual d V ev D i j == 0) ->
  (forall i l, (i < k)%nat -> (l < k)%nat -> gram d V i l == delta i l) ->
  (forall i, (i < k)%nat -> s i * s i == ev i /\ ~ s i == 0) -> r * r == tv ->
  let W := zca_mat k V s r in
  forall a c,
    mean (lin d W (center_off d W D) a) D == 0 /\
    cov (lin d W (center_off d W D) a) (lin d W (center_off d W D) c) D == tv * proj k V a c /\
    proj k V a c == proj k V c a /\
    sumn d (fun j => proj k V a j * proj k V j c) == proj k V a c.
Proof.
  intros Hn HE HG HS Hr W a c. split; [|split; [|split]].
  - rewrite lin_mean by exact Hn. unfold center_off. ring.
  - rewrite lin_cov by exact Hn. apply (zca_wcw d k V ev s r tv D a c HE HG HS Hr).
  - apply proj_sym.
  - apply proj_idempotent; exact HG.
Qed.
