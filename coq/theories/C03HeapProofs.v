(* C03 — proofs about the shared-batch heap model (C03Heap.v). *)
From Coq Require Import List Arith Bool Lia.
From SharkV Require Import ListAux C03Model C03Proofs C12Model C03Heap.
Import ListNotations.

Lemma map_upd {X Y} (f : X -> Y) k v l : map f (upd k v l) = upd k (f v) (map f l).
Proof. revert k; induction l as [|h t IH]; intros [|k]; simpl; auto. f_equal. apply IH. Qed.

Lemma firstn_In {X} n (l : list X) x : In x (firstn n l) -> In x l.
Proof. intros H. rewrite <- (firstn_skipn n l). apply in_or_app. auto. Qed.
Lemma skipn_In {X} n (l : list X) x : In x (skipn n l) -> In x l.
Proof. intros H. rewrite <- (firstn_skipn n l). apply in_or_app. auto. Qed.

Section P.
Context {A Sh : Type}.
Variable dflt : A.
Variable shape0 : Sh.

Notation state := (state A Sh).
Notation handle := (handle Sh).
Notation op := (op A Sh).
Notation hnd := (hnd shape0).
Notation contents := (contents shape0).
Notation step := (step dflt shape0).
Notation astep := (astep dflt shape0).
Notation aget := (aget shape0).
Notation independent := (independent shape0).

(* every batch pointer points into the heap *)
Definition wf (st : state) : Prop := forall id, In id (all_ids st) -> id < length (st_heap st).

Lemma contents_of_app (hp bs : list (list A)) ids :
  (forall id, In id ids -> id < length hp) -> contents_of (hp ++ bs) ids = contents_of hp ids.
Proof.
  intros H. unfold contents_of. apply map_ext_in. intros id Hi. unfold cell. apply app_nth1. auto.
Qed.

Lemma contents_of_fresh (hp bs : list (list A)) : contents_of (hp ++ bs) (seq (length hp) (length bs)) = bs.
Proof.
  unfold contents_of, cell. apply nth_ext with (d := []) (d' := []).
  - rewrite map_length, seq_length. reflexivity.
  - intros n Hn. rewrite map_length, seq_length in Hn.
    rewrite (nth_indep _ _ (nth (length hp + length bs) (hp ++ bs) [])) by (rewrite map_length, seq_length; auto).
    rewrite (map_nth (fun id => nth id (hp ++ bs) [])), seq_nth by auto.
    rewrite app_nth2 by lia. f_equal. lia.
Qed.

Lemma in_all_ids (st : state) r id : In id (h_ids (hnd st r)) -> In id (all_ids st).
Proof.
  unfold all_ids, C03Heap.hnd. intros H. apply in_flat_map.
  destruct (Nat.lt_ge_cases r (length (st_handles st))) as [L|G].
  - exists (nth r (st_handles st) (hempty shape0)). split; auto. apply nth_In; auto.
  - rewrite nth_overflow in H by auto. destruct H.
Qed.

Lemma in_all_ids_h (st : state) h id : In h (st_handles st) -> In id (h_ids h) -> In id (all_ids st).
Proof. intros H1 H2. apply in_flat_map. eauto. Qed.

Lemma all_ids_upd (hs : list handle) r h id :
  In id (flat_map h_ids (upd r h hs)) -> In id (h_ids h) \/ In id (flat_map h_ids hs).
Proof.
  revert r; induction hs as [|x t IH]; intros [|r]; simpl; auto; rewrite !in_app_iff; intros [H|H]; auto.
  destruct (IH _ H); auto.
Qed.

Lemma wf_hnd (st : state) r id : wf st -> In id (h_ids (hnd st r)) -> id < length (st_heap st).
Proof. intros W H. apply W. eapply in_all_ids; eauto. Qed.

Lemma wf_set_h (st : state) r h :
  wf st -> (forall id, In id (h_ids h) -> id < length (st_heap st)) -> wf (set_h st r h).
Proof.
  intros W H id Hi. unfold set_h, all_ids in Hi. simpl in *. destruct (all_ids_upd _ _ _ _ Hi); auto.
Qed.

Lemma wf_grow (st : state) bs : wf st -> wf (mkSt (st_heap st ++ bs) (st_handles st)).
Proof. intros W id Hi. simpl. rewrite app_length. specialize (W id Hi). lia. Qed.

Lemma hnd_set_h_eq (st : state) r h : valid st r = true -> hnd (set_h st r h) r = h.
Proof. unfold valid, C03Heap.hnd, set_h. simpl. intros V. apply Nat.ltb_lt in V. apply nth_upd_eq; auto. Qed.

Lemma hnd_set_h_neq (st : state) r q h : r <> q -> hnd (set_h st r h) q = hnd st q.
Proof. unfold C03Heap.hnd, set_h. simpl. intros. apply nth_upd_neq; auto. Qed.

Lemma valid_set_h (st : state) r h q : valid (set_h st r h) q = valid st q.
Proof. unfold valid, set_h. simpl. rewrite upd_length. reflexivity. Qed.

(* ---------- abstraction ---------- *)
Lemma abs_set_h (st : state) r h :
  abs (set_h st r h) = upd r (h_shape h, contents_of (st_heap st) (h_ids h)) (abs st).
Proof.
  unfold abs, set_h. simpl.
  exact (map_upd (fun h0 : handle => (h_shape h0, contents_of (st_heap st) (h_ids h0))) r h (st_handles st)).
Qed.

Lemma aget_abs (st : state) r : aget (abs st) r = (h_shape (hnd st r), contents st r).
Proof.
  unfold C03Heap.aget, abs, C03Heap.contents, C03Heap.hnd.
  change (shape0, @nil (list A)) with ((fun h : handle => (h_shape h, contents_of (st_heap st) (h_ids h))) (hempty shape0)).
  apply map_nth.
Qed.

Lemma avalid_abs (st : state) r : avalid (abs st) r = valid st r.
Proof. unfold avalid, valid, abs. rewrite map_length. reflexivity. Qed.

Lemma abs_grow (st : state) bs : wf st -> abs (mkSt (st_heap st ++ bs) (st_handles st)) = abs st.
Proof.
  intros W. unfold abs. simpl. apply map_ext_in. intros h Hh. f_equal.
  apply contents_of_app. intros id Hi. apply W. eapply in_all_ids_h; eauto.
Qed.

Lemma contents_grow (st : state) bs r :
  wf st -> contents_of (st_heap st ++ bs) (h_ids (hnd st r)) = contents st r.
Proof. intros W. apply contents_of_app. intros id Hi. eapply wf_hnd; eauto. Qed.

(* container r re-allocated with contents d: in the abstraction only r changes, to (its shape, d) *)
Lemma abs_realloc (st : state) r d :
  wf st -> abs (realloc shape0 st r d) = upd r (h_shape (hnd st r), d) (abs st).
Proof.
  intros W. unfold realloc, alloc. rewrite abs_set_h. simpl. rewrite contents_of_fresh.
  change (map _ (st_handles st)) with (abs (mkSt (st_heap st ++ d) (st_handles st))).
  rewrite abs_grow; auto.
Qed.

Lemma wf_realloc (st : state) r d : wf st -> wf (realloc shape0 st r d).
Proof.
  intros W. unfold realloc, alloc. apply wf_set_h.
  - apply wf_grow; auto.
  - simpl. intros id Hi. apply in_seq in Hi. rewrite app_length. lia.
Qed.

Lemma contents_of_subset (hp : list (list A)) ids idx :
  forallb (fun i => i <? length ids) idx = true ->
  contents_of hp (map (fun i => nth i ids 0) idx) = map (fun i => nth i (contents_of hp ids) []) idx.
Proof.
  intros F. unfold contents_of. rewrite map_map. apply map_ext_in. intros i Hi.
  rewrite forallb_forall in F. specialize (F i Hi). apply Nat.ltb_lt in F.
  rewrite (nth_indep _ [] (cell hp 0)) by (rewrite map_length; auto).
  symmetry. apply map_nth.
Qed.

Lemma contents_length (st : state) r : length (contents st r) = length (h_ids (hnd st r)).
Proof. unfold C03Heap.contents, contents_of. apply map_length. Qed.

Ltac inv H := inversion H; subst; clear H.

Lemma abs_split (st : state) r b (x y : list A) :
  wf st ->
  abs (set_h (mkSt (st_heap st ++ [x; y]) (st_handles st)) r
         (mkH (h_shape (hnd st r))
              (firstn b (h_ids (hnd st r)) ++ seq (length (st_heap st)) 2 ++ skipn (S b) (h_ids (hnd st r)))))
  = upd r (h_shape (hnd st r), firstn b (contents st r) ++ [x; y] ++ skipn (S b) (contents st r)) (abs st).
Proof.
  intros W. rewrite abs_set_h. cbn [h_shape h_ids st_heap].
  change (abs (mkSt (st_heap st ++ [x; y]) (st_handles st))) with (abs (mkSt (st_heap st ++ [x; y]) (st_handles st))).
  rewrite abs_grow by auto. f_equal. f_equal.
  unfold contents_of. rewrite !map_app.
  change (map (cell (st_heap st ++ [x; y])) (seq (length (st_heap st)) 2))
    with (contents_of (st_heap st ++ [x; y]) (seq (length (st_heap st)) (length [x; y]))).
  rewrite contents_of_fresh.
  rewrite <- firstn_map, <- skipn_map.
  fold (contents_of (st_heap st ++ [x; y]) (h_ids (hnd st r))).
  rewrite contents_grow by auto. reflexivity.
Qed.

(* (a) one step: every structural operation that goes through acts on the abstraction exactly as the
   value-semantics operation of C03Model acts on lists of batches; shapes included *)
Theorem step_refines (o : op) (st st' : state) :
  wf st -> step o st = Some st' -> is_write o = false -> astep o (abs st) = Some (abs st').
Proof.
  intros W E NW. destruct o; simpl in NW; try discriminate; cbn [C03Heap.step C03Heap.astep] in E |- *;
    rewrite ?avalid_abs, ?aget_abs; cbn [fst snd].
  - (* create *)
    destruct (valid st r) eqn:V; [|discriminate]. destruct (create l m) as [d|]; [|discriminate].
    inv E. rewrite abs_set_h. simpl. rewrite contents_of_fresh.
    change (map _ (st_handles st)) with (abs (mkSt (st_heap st ++ d) (st_handles st))).
    rewrite abs_grow; auto.
  - (* copy *)
    destruct (valid st r && valid st q) eqn:V; [|discriminate]. inv E. rewrite abs_set_h. reflexivity.
  - (* clear *)
    destruct (valid st r) eqn:V; [|discriminate]. inv E. rewrite abs_set_h. reflexivity.
  - (* subset *)
    destruct (valid st r && valid st q && forallb (fun i => i <? length (h_ids (hnd st r))) idx) eqn:V; [|discriminate].
    apply andb_prop in V. destruct V as [V F]. rewrite V. inv E.
    unfold indexed_subset. rewrite contents_length, F. rewrite abs_set_h. simpl.
    rewrite contents_of_subset by auto. reflexivity.
  - (* subset3 *)
    match type of E with (if ?c then _ else _) = _ => destruct c eqn:V; [|discriminate] end.
    apply andb_prop in V. destruct V as [V F]. rewrite V. inv E.
    unfold indexed_subset. rewrite contents_length, F.
    assert (F2 : forallb (fun i => i <? length (h_ids (hnd st r))) (complement idx (length (h_ids (hnd st r)))) = true).
    { apply forallb_forall. intros i Hi. unfold complement in Hi. apply filter_In in Hi. destruct Hi as [Hi _].
      apply in_seq in Hi. apply Nat.ltb_lt. lia. }
    rewrite F2. rewrite !abs_set_h. simpl. rewrite !contents_of_subset by auto. reflexivity.
  - (* splice *)
    match type of E with (if ?c then _ else _) = _ => destruct c eqn:V; [|discriminate] end.
    apply andb_prop in V; destruct V as [V Hb]. apply andb_prop in V; destruct V as [V Hi]. rewrite V. inv E.
    unfold splice. rewrite contents_length. rewrite Hb. rewrite !abs_set_h. simpl.
    unfold C03Heap.contents, contents_of. rewrite firstn_map, skipn_map. reflexivity.
  - (* append *)
    match type of E with (if ?c then _ else _) = _ => destruct c eqn:V; [|discriminate] end.
    inv E. rewrite abs_set_h. simpl. unfold append, C03Heap.contents, contents_of. rewrite map_app. reflexivity.
  - (* push_back *)
    match type of E with (if ?c then _ else _) = _ => destruct c eqn:V; [|discriminate] end.
    rewrite contents_length, V. inv E. rewrite abs_set_h. simpl.
    unfold contents_of at 1. rewrite map_app. fold (contents_of (st_heap st ++ [nth b (contents st q) []]) (h_ids (hnd st r))).
    rewrite contents_grow by auto.
    change (map (cell (st_heap st ++ [nth b (contents st q) []])) [length (st_heap st)])
      with (contents_of (st_heap st ++ [nth b (contents st q) []]) (seq (length (st_heap st)) (length [nth b (contents st q) []]))).
    rewrite contents_of_fresh.
    change (map _ (st_handles st)) with (abs (mkSt (st_heap st ++ [nth b (contents st q) []]) (st_handles st))).
    rewrite abs_grow; auto.
  - (* makeIndependent *)
    destruct (valid st r) eqn:V; [|discriminate]. destruct (independent st r).
    + inv E. reflexivity.
    + inv E. rewrite abs_realloc by auto. rewrite <- aget_abs. unfold C03Heap.aget. rewrite upd_nth_same. reflexivity.
  - (* repartition *)
    destruct (valid st r && independent st r) eqn:V; [|discriminate].
    apply andb_prop in V. destruct V as [V _]. rewrite V.
    destruct (repartition szs (contents st r)) as [d|]; [|discriminate]. inv E. rewrite abs_realloc; auto.
  - (* splitBatch *)
    match type of E with (if ?c then _ else _) = _ => destruct c eqn:V; [|discriminate] end.
    repeat (apply andb_prop in V; destruct V as [V ?]). rewrite V.
    unfold split_batch. rewrite contents_length, H.
    destruct (length (nth b (contents st r) []) <? k); [discriminate|].
    destruct ((k =? 0) || (k =? length (nth b (contents st r) []))).
    + inv E. rewrite <- aget_abs. unfold C03Heap.aget. rewrite upd_nth_same. reflexivity.
    + inv E. f_equal. symmetry. apply abs_split; auto.
  - (* reorder *)
    destruct (valid st r) eqn:V; [|discriminate].
    destruct (reorder dflt idx (contents st r)) as [d|]; [|discriminate]. inv E. rewrite abs_realloc; auto.
  - (* regroup *)
    match type of E with (if ?c then _ else _) = _ => destruct c eqn:V; [|discriminate] end.
    inv E. rewrite abs_realloc; auto.
Qed.


(* ---------- well-formedness is an invariant ---------- *)
Lemma in_map_nth_in (ids idx : list nat) id :
  forallb (fun i => i <? length ids) idx = true -> In id (map (fun i => nth i ids 0) idx) -> In id ids.
Proof.
  intros F H. apply in_map_iff in H. destruct H as [i [<- Hi]].
  rewrite forallb_forall in F. specialize (F i Hi). apply Nat.ltb_lt in F. apply nth_In; auto.
Qed.

Lemma complement_in_range idx n : forallb (fun i => i <? n) (complement idx n) = true.
Proof.
  apply forallb_forall. intros i Hi. unfold complement in Hi. apply filter_In in Hi. destruct Hi as [Hi _].
  apply in_seq in Hi. apply Nat.ltb_lt. lia.
Qed.

Lemma wf_write_batch (st st' : state) r b j v : wf st -> write_batch shape0 st r b j v = Some st' -> wf st'.
Proof.
  unfold write_batch. intros W E.
  destruct (valid st r && (b <? length (h_ids (hnd st r)))); [|discriminate].
  destruct (j <? length (cell (st_heap st) (nth b (h_ids (hnd st r)) 0))); [|discriminate].
  inv E. intros id Hi. simpl. rewrite upd_length. apply W. exact Hi.
Qed.

Theorem wf_step (o : op) (st st' : state) : wf st -> step o st = Some st' -> wf st'.
Proof.
  intros W E. destruct o; cbn [C03Heap.step] in E.
  - destruct (valid st r); [|discriminate]. destruct (create l m) as [d|]; [|discriminate]. inv E.
    apply wf_set_h; [apply wf_grow; auto|]. simpl. intros id Hi. apply in_seq in Hi. rewrite app_length. lia.
  - destruct (valid st r && valid st q); [|discriminate]. inv E. apply wf_set_h; auto. intros id Hi. eapply wf_hnd; eauto.
  - destruct (valid st r); [|discriminate]. inv E. apply wf_set_h; auto. simpl. tauto.
  - match type of E with (if ?c then _ else _) = _ => destruct c eqn:V; [|discriminate] end.
    apply andb_prop in V. destruct V as [V F]. inv E. apply wf_set_h; auto. simpl. intros id Hi.
    eapply wf_hnd; eauto. eapply in_map_nth_in; eauto.
  - match type of E with (if ?c then _ else _) = _ => destruct c eqn:V; [|discriminate] end.
    apply andb_prop in V. destruct V as [V F]. inv E. apply wf_set_h; [apply wf_set_h; auto|]; simpl; intros id Hi.
    + eapply wf_hnd; eauto. eapply in_map_nth_in; eauto.
    + eapply wf_hnd; eauto. eapply in_map_nth_in; [apply complement_in_range|eauto].
  - match type of E with (if ?c then _ else _) = _ => destruct c eqn:V; [|discriminate] end.
    inv E. apply wf_set_h; [apply wf_set_h; auto|]; simpl; intros id Hi.
    + eapply wf_hnd; eauto. eapply firstn_In; eauto.
    + eapply wf_hnd; eauto. eapply skipn_In; eauto.
  - match type of E with (if ?c then _ else _) = _ => destruct c eqn:V; [|discriminate] end.
    inv E. apply wf_set_h; auto. simpl. intros id Hi. apply in_app_iff in Hi. destruct Hi; eapply wf_hnd; eauto.
  - match type of E with (if ?c then _ else _) = _ => destruct c eqn:V; [|discriminate] end.
    inv E. apply wf_set_h; [apply wf_grow; auto|]. simpl. rewrite app_length. simpl. intros id Hi.
    apply in_app_iff in Hi. destruct Hi as [Hi|[<-|[]]]; [|lia]. pose proof (wf_hnd _ _ _ W Hi). lia.
  - destruct (locate (sizes (contents st r)) k) as [[b j]|]; [|discriminate]. eapply wf_write_batch; eauto.
  - eapply wf_write_batch; eauto.
  - destruct (valid st r); [|discriminate]. destruct (independent st r); inv E; auto. apply wf_realloc; auto.
  - destruct (valid st r && independent st r); [|discriminate].
    destruct (repartition szs (contents st r)); [|discriminate]. inv E. apply wf_realloc; auto.
  - match type of E with (if ?c then _ else _) = _ => destruct c eqn:V; [|discriminate] end.
    destruct (length (nth b (contents st r) []) <? k); [discriminate|].
    destruct ((k =? 0) || (k =? length (nth b (contents st r) []))); inv E; auto.
    apply wf_set_h; [apply wf_grow; auto|]. cbn [h_ids st_heap]. rewrite app_length. cbn [length]. intros id Hi.
    apply in_app_iff in Hi. destruct Hi as [Hi|Hi].
    + apply firstn_In in Hi. pose proof (wf_hnd _ _ _ W Hi). lia.
    + destruct Hi as [<-|[<-|Hi]]; [lia|lia|].
      change (In id (skipn (S b) (h_ids (hnd st r)))) in Hi.
      apply skipn_In in Hi. pose proof (wf_hnd _ _ _ W Hi). lia.
  - destruct (valid st r); [|discriminate]. destruct (reorder dflt idx (contents st r)); [|discriminate].
    inv E. apply wf_realloc; auto.
  - match type of E with (if ?c then _ else _) = _ => destruct c eqn:V; [|discriminate] end.
    inv E. apply wf_realloc; auto.
Qed.

Lemma wf_init n : wf (init shape0 n).
Proof.
  intros id Hi. unfold init, all_ids in Hi. simpl in Hi. exfalso.
  induction n; simpl in Hi; auto.
Qed.

Lemma wf_run ops : forall st, wf st -> wf (run dflt shape0 ops st).
Proof.
  induction ops as [|o r IH]; intros st W; simpl; auto.
  destruct (step o st) eqn:E; apply IH; auto. eapply wf_step; eauto.
Qed.

(* every state a program can reach from the empty registers *)
Theorem wf_reachable n ops : wf (run dflt shape0 ops (init shape0 n)).
Proof. apply wf_run, wf_init. Qed.

(* (a) over histories: after any history of structural operations (no element writes) the containers hold
   exactly what the value-semantics model computes for the operations that did not throw *)
Theorem run_refines ops : forall st, wf st ->
  forallb (fun o => negb (is_write o)) ops = true ->
  arun dflt shape0 (ok_ops dflt shape0 ops st) (abs st) = Some (abs (run dflt shape0 ops st)).
Proof.
  induction ops as [|o r IH]; intros st W NW; simpl; auto.
  simpl in NW. apply andb_prop in NW. destruct NW as [N1 N2]. apply negb_true_iff in N1.
  destruct (step o st) as [st'|] eqn:E.
  - simpl. rewrite (step_refines o st st' W E N1). apply IH; auto. eapply wf_step; eauto.
  - apply IH; auto.
Qed.

Lemma run_ok_ops ops : forall st, run dflt shape0 (ok_ops dflt shape0 ops st) st = run dflt shape0 ops st.
Proof.
  induction ops as [|o r IH]; intros st; simpl; auto.
  destruct (step o st) as [st'|] eqn:E; simpl; [rewrite E|]; apply IH.
Qed.

End P.
