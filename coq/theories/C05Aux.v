(* C05 — derivatives of the kernel model, point-set kernels.  Axiom-free, for every ordered field.

   What "derivative" means here (same device as C04).  The model code of C05Model.v is polymorphic in its
   arithmetic.  We instantiate THE SAME kernel code with the dual numbers D = A[eps]/(eps^2) (pairs
   (value, tangent)) and read off the tangent: forward-mode differentiation of the coded evaluation formula.
   `dual_sound` is its justification for + and *: (a + t a') + (b + t b') = re t (dadd ..) exactly and
   (a + t a')(b + t b') = re t (dmul ..) + t^2 a' b', i.e. the tangent is the coefficient of t and the rest is an
   explicit t^2 remainder.  The exponential is lifted as (u,u') |-> (exp u, exp u * u'): "exp' = exp" is the
   DEFINITION of the pair handed to the model (expA itself is uninterpreted).
   The theorems say: the tangent of the coefficient-weighted sum of kernel values
        sum_ij c_ij k(x_i + eps dx_i, z_j)            (wsumD)
   equals  sum_i < coded weightedInputDerivative row i, dx_i >  (wid_dot (wid ..)) for EVERY direction dX1 (unit
   directions give every partial derivative), and likewise for the kernel parameter (wsumP / wpd). *)
From Coq Require Import List Arith Bool Field Ring Lia.
From SharkV Require Import C03Model C05Model C05Proofs.
Import ListNotations.

Section Aux.
Variable A : Type.
Variables (zero one : A) (add mul sub div : A -> A -> A) (opp inv : A -> A) (le : A -> A -> Prop).
Variables (expA : A -> A).
Hypothesis OF : OrdField zero one add mul sub div opp inv le.

Definition FT2 := of_field _ _ _ _ _ _ _ _ _ OF.
Add Field Ff2 : FT2.

Declare Scope G_scope.
Delimit Scope G_scope with G.
Notation "0" := zero : G_scope.
Notation "1" := one : G_scope.
Infix "+" := add : G_scope.
Infix "*" := mul : G_scope.
Infix "-" := sub : G_scope.
Infix "/" := div : G_scope.
Local Open Scope G_scope.

Notation lsumA := (lsum A zero add).
Notation dotA := (dot A zero add mul).
Notation powA := (pow A one mul).
Notation distsqA := (distsq A zero add mul sub).
Notation ofnatA := (ofnat A zero one add).
Notation twoA := (two A one add).
Notation vec := (list A).
Notation mat := (list (list A)).
Notation vscaleA := (vscale A mul).
Notation vaddA := (vadd A add).
Notation vsumA := (vsum A zero add).
Notation lsum_ext := (lsum_map_ext A zero add).

(* ------------------------------------------------------------------ dual numbers *)
Definition D := (A * A)%type.
Definition dzero : D := (zero, zero).
Definition done : D := (one, zero).
Definition dadd (p q : D) : D := (fst p + fst q, snd p + snd q).
Definition dmul (p q : D) : D := (fst p * fst q, fst p * snd q + snd p * fst q).
Definition dsub (p q : D) : D := (fst p - fst q, snd p - snd q).
Definition dopp (p : D) : D := (opp (fst p), opp (snd p)).
Definition dexp (p : D) : D := (expA (fst p), expA (fst p) * snd p).
Definition re (t : A) (p : D) : A := fst p + t * snd p.
Definition cstv (z : vec) : list D := map (fun a => (a, zero)) z.

Notation dotD := (dot D dzero dadd dmul).
Notation powD := (pow D done dmul).
Notation distsqD := (distsq D dzero dadd dmul dsub).

Lemma fst_dadd p q : fst (dadd p q) = fst p + fst q.
Proof. reflexivity. Qed.
Lemma snd_dadd p q : snd (dadd p q) = snd p + snd q.
Proof. reflexivity. Qed.

Lemma fst_dmul p q : fst (dmul p q) = fst p * fst q.
Proof. reflexivity. Qed.
Lemma snd_dmul p q : snd (dmul p q) = fst p * snd q + snd p * fst q.
Proof. reflexivity. Qed.
Lemma fst_dopp p : fst (dopp p) = opp (fst p).
Proof. reflexivity. Qed.
Lemma snd_dopp p : snd (dopp p) = opp (snd p).
Proof. reflexivity. Qed.
Lemma snd_dexp p : snd (dexp p) = expA (fst p) * snd p.
Proof. reflexivity. Qed.

Lemma dual_sound t (p q : D) :
  re t p + re t q = re t (dadd p q) /\ re t p * re t q = re t (dmul p q) + (t * t) * (snd p * snd q).
Proof. unfold re, dadd, dmul; simpl. split; ring. Qed.

(* tangent of the weighted kernel sum in direction dX1 (X2 and the coefficients are constants) *)
Definition wsumD (kD : list D -> list D -> D) (C : mat) (X1 dX1 X2 : list vec) : A :=
  lsumA (map (fun xdc => lsumA (map (fun cz => fst cz * snd (kD (combine (fst (fst xdc)) (snd (fst xdc))) (cstv (snd cz))))
                                    (combine (snd xdc) X2)))
             (combine (combine X1 dX1) C)).
(* tangent in direction "kernel parameter + eps" (all inputs constant) *)
Definition wsumP (kD : list D -> list D -> D) (C : mat) (X1 X2 : list vec) : A :=
  lsumA (map (fun xc => lsumA (map (fun cz => fst cz * snd (kD (cstv (fst xc)) (cstv (snd cz)))) (combine (snd xc) X2)))
             (combine X1 C)).
Definition wid_dot (G dX : list vec) : A := lsumA (map (fun gd => dotA (fst gd) (snd gd)) (combine G dX)).
Definition shapes (n : nat) (C : mat) (X1 dX1 X2 : list vec) : Prop :=
  Forall (fun x => length x = n) X1 /\ Forall (fun x => length x = n) dX1 /\ Forall (fun x => length x = n) X2 /\
  length dX1 = length X1 /\ length C = length X1.


(* ------------------------------------------------------------------ wsumD / wsumP are the tangents of the model's own weighted sum
   (C05Model.wsumk) run on dual numbers: coefficients and X2 constant, X1 perturbed by eps*dX1 *)
Definition zipdual (X dX : list vec) : list (list D) := map (fun p => combine (fst p) (snd p)) (combine X dX).

Lemma combine_map2 {S T U V} (f : S -> U) (g : T -> V) l1 : forall l2,
  combine (map f l1) (map g l2) = map (fun p => (f (fst p), g (snd p))) (combine l1 l2).
Proof. induction l1; destruct l2; simpl; auto. rewrite IHl1. auto. Qed.

Lemma snd_lsumD l : snd (lsum D dzero dadd l) = lsumA (map snd l).
Proof. induction l; simpl; auto. rewrite IHl. auto. Qed.

Theorem wsumD_is_tangent kD C X1 dX1 X2 :
  snd (wsumk D dzero dadd dmul kD (map cstv C) (zipdual X1 dX1) (map cstv X2)) = wsumD kD C X1 dX1 X2.
Proof.
  unfold C05Model.wsumk, wsumD, zipdual. rewrite snd_lsumD, combine_map2, !map_map.
  apply lsum_ext. intros [[x dx] crow] _. cbn [fst snd]. rewrite snd_lsumD. unfold cstv at 1. rewrite combine_map2, !map_map.
  apply lsum_ext. intros [c z] _. cbn [fst snd]. rewrite snd_dmul. cbn [fst snd]. ring.
Qed.

Theorem wsumP_is_tangent kD C X1 X2 :
  snd (wsumk D dzero dadd dmul kD (map cstv C) (map cstv X1) (map cstv X2)) = wsumP kD C X1 X2.
Proof.
  unfold C05Model.wsumk, wsumP. rewrite snd_lsumD, combine_map2, !map_map.
  apply lsum_ext. intros [x crow] _. cbn [fst snd]. rewrite snd_lsumD. change (cstv crow) with (map (fun a : A => (a, zero)) crow). rewrite combine_map2, !map_map.
  apply lsum_ext. intros [c z] _. cbn [fst snd]. rewrite snd_dmul. cbn [fst snd]. ring.
Qed.

(* ------------------------------------------------------------------ vectors *)
Lemma dot_vscale c u v : dotA (vscaleA c u) v = c * dotA u v.
Proof. revert v. induction u; destruct v; simpl; try ring. rewrite IHu. ring. Qed.

Lemma dot_vadd u v w : length u = length v -> dotA (vaddA u v) w = dotA u w + dotA v w.
Proof.
  unfold C05Model.vadd. revert v w. induction u; destruct v; simpl; intros w H; try discriminate; [ring|].
  destruct w; simpl; [ring|]. rewrite IHu by lia. ring.
Qed.

Lemma dot_zeros n w : dotA (repeat zero n) w = 0.
Proof. revert w. induction n; destruct w; simpl; auto. rewrite IHn. ring. Qed.

Lemma vadd_length u v : length u = length v -> length (vaddA u v) = length u.
Proof. unfold C05Model.vadd. revert v. induction u; destruct v; simpl; intros; try discriminate; auto; try (f_equal; apply IHu; lia). Qed.

Lemma vsum_length n vs : Forall (fun v => length v = n) vs -> length (vsumA n vs) = n.
Proof.
  induction 1; simpl; [apply repeat_length|].
  unfold C05Model.vadd in *. rewrite vadd_length; congruence.
Qed.

Lemma dot_vsum n vs w : Forall (fun v => length v = n) vs -> dotA (vsumA n vs) w = lsumA (map (fun v => dotA v w) vs).
Proof.
  induction 1; simpl; [apply dot_zeros|].
  rewrite dot_vadd, IHForall; auto. rewrite vsum_length; auto.
Qed.

Lemma vscale_length c u : length (vscaleA c u) = length u.
Proof. apply map_length. Qed.

(* ------------------------------------------------------------------ dual inner products, powers, distances *)
Lemma dotD_var x : forall dx z, length x = length dx ->
  fst (dotD (combine x dx) (cstv z)) = dotA x z /\ snd (dotD (combine x dx) (cstv z)) = dotA dx z.
Proof.
  induction x; destruct dx; simpl; intros z H; try discriminate; auto.
  destruct z; simpl; auto. destruct (IHx dx z) as [E1 E2]; [lia|]. rewrite E1, E2. split; ring.
Qed.

Lemma dotD_cst x : forall z, fst (dotD (cstv x) (cstv z)) = dotA x z /\ snd (dotD (cstv x) (cstv z)) = 0.
Proof.
  induction x; destruct z; simpl; auto. destruct (IHx z) as [E1 E2]. rewrite E1, E2. split; ring.
Qed.

Lemma powD_spec (p : D) d :
  fst (powD p d) = powA (fst p) d /\ snd (powD p d) = ofnatA d * powA (fst p) (d - 1) * snd p.
Proof.
  induction d; simpl; [split; [auto|ring]|].
  destruct IHd as [E1 E2]. rewrite E1, E2. split; [auto|].
  destruct d; simpl; [ring|]. rewrite Nat.sub_0_r. ring.
Qed.

Lemma pow_zero d : (1 <= d)%nat -> powA 0 d = 0.
Proof. destruct d; [lia|]. intros _. simpl. ring. Qed.

Variable isz : A -> bool.
Hypothesis isz_spec : forall a, isz a = true <-> a = zero.
Notation safe_divA := (safe_div A zero div isz).

Lemma safe_div_pow (b : A) d : (1 <= d)%nat -> (b <> 0 \/ (2 <= d)%nat) -> safe_divA (powA b d) b = powA b (d - 1).
Proof.
  intros H1 H2. unfold C05Model.safe_div. destruct (isz b) eqn:E.
  - apply isz_spec in E. subst b. destruct H2 as [H2|H2]; [congruence|]. rewrite pow_zero by lia. auto.
  - assert (N : b <> 0) by (intro Hb; apply isz_spec in Hb; congruence).
    destruct d; [lia|]. simpl. rewrite Nat.sub_0_r. field. auto.
Qed.

Lemma distsqD_var x : forall dx z, length x = length dx ->
  fst (distsqD (combine x dx) (cstv z)) = distsqA x z /\
  snd (distsqD (combine x dx) (cstv z)) = twoA * dotA (zipw A sub x z) dx.
Proof.
  unfold C05Model.two.
  induction x; destruct dx; simpl; intros z H; try discriminate; [split; [auto|ring]|].
  destruct z; simpl; [split; [auto|ring]|]. destruct (IHx dx z) as [E1 E2]; [lia|]. rewrite E1, E2. split; ring.
Qed.

Lemma distsqD_cst x : forall z, fst (distsqD (cstv x) (cstv z)) = distsqA x z /\ snd (distsqD (cstv x) (cstv z)) = 0.
Proof.
  induction x; destruct z; simpl; auto. destruct (IHx z) as [E1 E2]. rewrite E1, E2. split; ring.
Qed.

Lemma zipw_sub_neg x : forall z w, dotA (zipw A sub z x) w = opp (dotA (zipw A sub x z) w).
Proof.
  induction x; destruct z; simpl; intros w; try ring. destruct w; simpl; [ring|]. rewrite IHx. ring.
Qed.

(* ------------------------------------------------------------------ from pairs of points to the batch routines *)
Lemma wid_general n (kD : list D -> list D -> D) (g : vec -> vec -> vec) C X1 dX1 X2 :
  shapes n C X1 dX1 X2 ->
  (forall x dx z, In x X1 -> In z X2 -> length x = n -> length dx = n -> length z = n ->
     snd (kD (combine x dx) (cstv z)) = dotA (g x z) dx /\ length (g x z) = n) ->
  wsumD kD C X1 dX1 X2 = wid_dot (wid A zero add mul n g C X1 X2) dX1.
Proof.
  intros (H1 & H2 & H3 & L1 & L2) P. unfold wsumD, wid_dot, C05Model.wid.
  revert dX1 C H2 L1 L2. induction X1 as [|x X1 IH]; intros dX1 C H2 L1 L2.
  - destruct dX1; simpl in *; auto; discriminate.
  - destruct dX1 as [|dx dX1]; [discriminate|]. destruct C as [|crow C]; [discriminate|]. simpl.
    inversion H1; subst. inversion H2; subst.
    rewrite <- IH; auto.
    2:{ intros. apply P; auto. right. auto. }
    f_equal.
    rewrite dot_vsum.
    + rewrite map_map. apply lsum_ext. intros cz Hcz. simpl. rewrite dot_vscale.
      destruct (P x dx (snd cz)) as [E _]; auto.
      * left. auto.
      * destruct cz. apply in_combine_r in Hcz. auto.
      * destruct cz. apply in_combine_r in Hcz. rewrite Forall_forall in H3. auto.
      * rewrite E. auto.
    + rewrite Forall_forall. intros v Hv. apply in_map_iff in Hv. destruct Hv as (cz & <- & Hcz).
      rewrite vscale_length. destruct cz as [c z]. apply in_combine_r in Hcz. simpl.
      destruct (P x dx z) as [_ E]; auto.
      * left. auto.
      * rewrite Forall_forall in H3. auto.
Qed.

Lemma wpd_general n (kD : list D -> list D -> D) (p : vec -> vec -> A) C X1 dX1 X2 :
  shapes n C X1 dX1 X2 ->
  (forall x z, In x X1 -> In z X2 -> snd (kD (cstv x) (cstv z)) = p x z) ->
  wsumP kD C X1 X2 = wpd A zero add mul p C X1 X2.
Proof.
  intros _ P. unfold wsumP, C05Model.wpd. apply lsum_ext. intros [x crow] Hx. apply lsum_ext. intros [c z] Hz. simpl.
  rewrite P; auto; [apply in_combine_l in Hx|apply in_combine_r in Hz]; auto.
Qed.

(* ------------------------------------------------------------------ the kernels *)
Theorem wid_lin_correct n C X1 dX1 X2 : shapes n C X1 dX1 X2 ->
  wsumD (k_lin D dzero dadd dmul) C X1 dX1 X2 = wid_dot (wid A zero add mul n (g_lin A) C X1 X2) dX1.
Proof.
  intros S. apply wid_general; auto. intros x dx z _ _ Lx Ldx Lz. unfold C05Model.k_lin, C05Model.g_lin.
  destruct (dotD_var x dx z) as [_ E]; [congruence|]. rewrite E. split; [apply (dot_sym A zero one add mul sub div opp inv le OF)|auto].
Qed.

Lemma poly_pair d c x dx z : length x = length dx ->
  snd (k_poly D dzero done dadd dmul d (c, zero) (combine x dx) (cstv z)) = dotA (g_poly A zero one add mul div isz d c x z) dx.
Proof.
  intros L. unfold C05Model.k_poly, C05Model.g_poly.
  destruct (dotD_var x dx z L) as [E1 E2].
  destruct (powD_spec (dadd (dotD (combine x dx) (cstv z)) (c, zero)) d) as [_ E]. rewrite E, fst_dadd, snd_dadd. cbn [fst snd]. rewrite E1, E2.
  rewrite (dot_sym A zero one add mul sub div opp inv le OF dx z).
  destruct (Nat.eqb_spec d 1) as [->|N1].
  - simpl. ring.
  - rewrite dot_vscale. destruct d as [|d]; [simpl; ring|].
    rewrite safe_div_pow by lia. ring.
Qed.

Theorem wid_poly_correct n d c C X1 dX1 X2 : shapes n C X1 dX1 X2 ->
  wsumD (k_poly D dzero done dadd dmul d (c, zero)) C X1 dX1 X2
  = wid_dot (wid A zero add mul n (g_poly A zero one add mul div isz d c) C X1 X2) dX1.
Proof.
  intros S. apply wid_general; auto. intros x dx z _ _ Lx Ldx Lz. split; [apply poly_pair; congruence|].
  unfold C05Model.g_poly. destruct (d =? 1); [auto|rewrite vscale_length; auto].
Qed.

Lemma mono_pair d x dx z : length x = length dx ->
  snd (k_mono D dzero done dadd dmul d (combine x dx) (cstv z)) = dotA (g_mono A zero one add mul div isz d x z) dx.
Proof.
  intros L. unfold C05Model.k_mono, C05Model.g_mono.
  destruct (dotD_var x dx z L) as [E1 E2].
  destruct (powD_spec (dotD (combine x dx) (cstv z)) d) as [_ E]. rewrite E, E1, E2.
  rewrite (dot_sym A zero one add mul sub div opp inv le OF dx z).
  destruct (Nat.eqb_spec d 1) as [->|N1].
  - simpl. ring.
  - rewrite dot_vscale. destruct d as [|d]; [simpl; ring|].
    rewrite safe_div_pow; [ring|lia|]. right; lia.
Qed.

(* full statement (no side condition since the repair of MonomialKernel, /repo commit 114dbcf3) *)
Theorem wid_mono_correct n d C X1 dX1 X2 : shapes n C X1 dX1 X2 ->
  wsumD (k_mono D dzero done dadd dmul d) C X1 dX1 X2
  = wid_dot (wid A zero add mul n (g_mono A zero one add mul div isz d) C X1 X2) dX1.
Proof.
  intros S. apply wid_general; auto. intros x dx z Hx Hz Lx Ldx Lz. split.
  - apply mono_pair; congruence.
  - unfold C05Model.g_mono. destruct (d =? 1); [auto|rewrite vscale_length; auto].
Qed.

Lemma zipw_length (f : A -> A -> A) u : forall v, length u = length v -> length (zipw A f u v) = length u.
Proof. induction u; destruct v; simpl; intros; try discriminate; auto; try (f_equal; apply IHu; lia). Qed.

Theorem wid_gauss_correct n g C X1 dX1 X2 : shapes n C X1 dX1 X2 ->
  wsumD (k_gauss D dzero dadd dmul dsub dopp dexp (g, zero)) C X1 dX1 X2
  = wid_dot (wid A zero add mul n (g_gauss A zero one add mul sub opp expA g) C X1 X2) dX1.
Proof.
  intros S. apply wid_general; auto. intros x dx z _ _ Lx Ldx Lz. split.
  - unfold C05Model.k_gauss, C05Model.g_gauss. destruct (distsqD_var x dx z) as [E1 E2]; [congruence|].
    rewrite snd_dexp, fst_dmul, snd_dmul, fst_dopp, snd_dopp. cbn [fst snd]. rewrite E1, E2, dot_vscale, zipw_sub_neg.
    unfold C05Model.k_gauss, C05Model.two. ring.
  - unfold C05Model.g_gauss. rewrite vscale_length, zipw_length; congruence.
Qed.

Theorem wid_scaled_correct n f (kD : list D -> list D -> D) (g : vec -> vec -> vec) C X1 dX1 X2 : shapes n C X1 dX1 X2 ->
  (forall x dx z, length x = n -> length dx = n -> length z = n ->
     snd (kD (combine x dx) (cstv z)) = dotA (g x z) dx /\ length (g x z) = n) ->
  wsumD (k_scaled D dmul (list D) (f, zero) kD) C X1 dX1 X2 = wid_dot (wid A zero add mul n (g_scaled A mul f g) C X1 X2) dX1.
Proof.
  intros S P. apply wid_general; auto. intros x dx z _ _ Lx Ldx Lz. destruct (P x dx z Lx Ldx Lz) as [E1 E2].
  unfold C05Model.k_scaled, C05Model.g_scaled, dmul. simpl. rewrite E1, dot_vscale, vscale_length. split; [ring|auto].
Qed.

Theorem wpd_poly_correct n d c C X1 X2 : shapes n C X1 X1 X2 ->
  wsumP (k_poly D dzero done dadd dmul d (c, one)) C X1 X2 = wpd A zero add mul (p_poly A zero one add mul div isz d c) C X1 X2.
Proof.
  intros S. apply (wpd_general n _ _ C X1 X1 X2 S). intros x z _ _. unfold C05Model.k_poly, C05Model.p_poly.
  destruct (dotD_cst x z) as [E1 E2].
  destruct (powD_spec (dadd (dotD (cstv x) (cstv z)) (c, one)) d) as [_ E]. rewrite E, fst_dadd, snd_dadd. cbn [fst snd]. rewrite E1, E2.
  destruct (Nat.eqb_spec d 1) as [->|N1]; [simpl; ring|].
  destruct d as [|d]; [simpl; ring|]. rewrite safe_div_pow by lia. ring.
Qed.

Theorem wpd_gauss_correct n g C X1 X2 : shapes n C X1 X1 X2 ->
  wsumP (k_gauss D dzero dadd dmul dsub dopp dexp (g, one)) C X1 X2 = wpd A zero add mul (p_gauss A zero add mul sub opp expA g) C X1 X2.
Proof.
  intros S. apply (wpd_general n _ _ C X1 X1 X2 S). intros x z _ _. unfold C05Model.k_gauss, C05Model.p_gauss.
  destruct (distsqD_cst x z) as [E1 E2]. rewrite snd_dexp, fst_dmul, snd_dmul, fst_dopp, snd_dopp. cbn [fst snd]. rewrite E1, E2.
  unfold C05Model.k_gauss. ring.
Qed.

(* regression: the gradient as coded BEFORE the repair was 0 at orthogonal points for degree 1, the true one is z *)
Theorem mono1_old_refuted :
  let x := [one; zero] in let z := [zero; one] in let dx := [zero; one] in
  snd (k_mono D dzero done dadd dmul 1 (combine x dx) (cstv z)) = one /\
  dotA (g_mono_old A zero one add mul div isz 1 x z) dx = zero /\
  dotA (g_mono A zero one add mul div isz 1 x z) dx = one.
Proof.
  cbv zeta. split; [unfold C05Model.k_mono; simpl; ring|]. split.
  - unfold C05Model.g_mono_old, C05Model.safe_div.
    assert (E : dotA [one; zero] [zero; one] = 0) by (simpl; ring). rewrite E.
    assert (Z : isz 0 = true) by (apply isz_spec; auto). rewrite Z. simpl. ring.
  - unfold C05Model.g_mono. simpl. ring.
Qed.

(* ------------------------------------------------------------------ point-set kernel *)
Theorem sym_pset (k : vec -> vec -> A) : Sym A vec k -> Sym A (list vec) (k_pset A zero one add mul div k).
Proof.
  intros H P Q. unfold C05Model.k_pset. f_equal; [|ring].
  rewrite (lsum_swap A zero one add mul sub div opp inv le OF). apply lsum_ext. intros z _. apply lsum_ext. intros x _. apply H.
Qed.

End Aux.

From Coq Require Import QArith Qcanon.
Example deriv_hyps_example :
  (forall a : Qc, qc_isz a = true <-> a = Q2Qc 0) /\
  shapes Qc 2 [[1%Qc; Q2Qc 2]] [[1%Qc; Q2Qc 0]] [[Q2Qc 0; 1%Qc]] [[Q2Qc 0; 1%Qc]; [1%Qc; 1%Qc]].
Proof.
  split.
  - intros a. unfold qc_isz. destruct (Qc_eq_dec a (Q2Qc 0)); split; intros; auto; try discriminate; try contradiction.
  - unfold shapes. repeat split; repeat constructor.
Qed.
