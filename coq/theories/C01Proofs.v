(* C01 — proofs about the assignment forms and the reductions of C01Model.v.  Axiom-free (Z, nat, lists). *)
From Coq Require Import ZArith List Bool Arith Lia FinFun.
From SharkV Require Import C01Model.
Import ListNotations.
Open Scope Z_scope.

(* ---------- store ---------- *)
Lemma addr_eq_dec (a b : addr) : {a = b} + {a <> b}.
Proof. decide equality; apply Nat.eq_dec. Qed.

Lemma rd_wr_same s a v : rd (wr s a v) a = v.
Proof. destruct a; cbn; rewrite !Nat.eqb_refl; reflexivity. Qed.

Lemma rd_wr_other s a b v : a <> b -> rd (wr s a v) b = rd s b.
Proof.
  destruct a, b; cbn; intros H; auto.
  - destruct (Nat.eqb_spec x0 x), (Nat.eqb_spec i0 i); cbn; auto. subst. congruence.
  - destruct (Nat.eqb_spec A0 A), (Nat.eqb_spec i0 i), (Nat.eqb_spec j0 j); cbn; auto. subst. congruence.
Qed.

(* ---------- generic cell-list assignment ---------- *)
Lemma write_all_other cv : forall s a, ~ In a (map fst cv) -> rd (write_all s cv) a = rd s a.
Proof.
  induction cv as [|[b v] t IH]; intros s a H; cbn in *; auto.
  unfold write_all in *. cbn. rewrite IH by tauto. apply rd_wr_other. tauto.
Qed.

Lemma write_all_in cv : forall s a v, NoDup (map fst cv) -> In (a, v) cv -> rd (write_all s cv) a = v.
Proof.
  induction cv as [|[b w] t IH]; intros s a v ND HI; cbn in *; [tauto|].
  inversion ND as [|x l Hn ND']; subst. unfold write_all in *. cbn.
  destruct HI as [E|HI].
  - inversion E; subst. fold (write_all (wr s a v) t). rewrite write_all_other by assumption. apply rd_wr_same.
  - apply IH; auto.
Qed.

Lemma combine_map_same {A B C} (f : A -> B) (g : A -> C) l :
  combine (map f l) (map g l) = map (fun x => (f x, g x)) l.
Proof. induction l; cbn; congruence. Qed.

Lemma map_fst_combine_same {A B C} (f : A -> B) (g : A -> C) l :
  map fst (combine (map f l) (map g l)) = map f l.
Proof. rewrite combine_map_same, map_map. reflexivity. Qed.

Section Generic.
Variable o : aop.

Definition plain_pairs (s : env) (l : list (addr * (env -> Z))) : list (addr * Z) :=
  map (fun p => (fst p, combine_op o (rd s (fst p)) (snd p s))) l.

Lemma exec_plain_spec cells rhs s :
  NoDup (map fst (combine cells rhs)) ->
  (forall a f, In (a, f) (combine cells rhs) ->
      rd (exec_plain o cells rhs s) a = combine_op o (rd s a) (f s)) /\
  (forall a, ~ In a (map fst (combine cells rhs)) -> rd (exec_plain o cells rhs s) a = rd s a).
Proof.
  intros ND. unfold exec_plain. set (l := combine cells rhs) in *.
  assert (E : map fst (map (fun p : addr * (env -> Z) => (fst p, combine_op o (rd s (fst p)) (snd p s))) l) = map fst l)
    by (rewrite map_map; reflexivity).
  split.
  - intros a f HI. apply write_all_in.
    + rewrite E; exact ND.
    + apply in_map_iff. exists (a, f). split; auto.
  - intros a HN. apply write_all_other. rewrite E. exact HN.
Qed.

(* the in-place loop equals the temporary semantics when no right-hand-side function can see a
   write to a target cell *)
Lemma inplace_aux (cells : list addr) (s0 : env) :
  forall (l : list (addr * (env -> Z))) (s : env),
    NoDup (map fst l) ->
    (forall p, In p l -> In (fst p) cells) ->
    (forall p, In p l -> forall s' a v, In a cells -> snd p (wr s' a v) = snd p s') ->
    (forall p, In p l -> rd s (fst p) = rd s0 (fst p) /\ snd p s = snd p s0) ->
    fold_left (fun s p => wr s (fst p) (combine_op o (rd s (fst p)) (snd p s))) l s =
    fold_left (fun s p => wr s (fst p) (combine_op o (rd s0 (fst p)) (snd p s0))) l s.
Proof.
  induction l as [|p t IH]; intros s ND HC HI HS; cbn; auto.
  inversion ND as [|x l' Hn ND']; subst.
  destruct (HS p (or_introl eq_refl)) as [E1 E2]. rewrite E1, E2.
  apply IH; auto.
  - intros q Hq. apply HC. right; auto.
  - intros q Hq. apply HI. right; auto.
  - intros q Hq. destruct (HS q (or_intror Hq)) as [F1 F2]. split.
    + rewrite rd_wr_other; auto. intros E. apply Hn. rewrite E. apply in_map. exact Hq.
    + rewrite HI; auto. right; auto. apply HC. left; auto.
Qed.

Lemma fold_left_map_wr {A} (g : A -> addr * Z) l : forall s,
  fold_left (fun s p => wr s (fst p) (snd p)) (map g l) s = fold_left (fun s p => wr s (fst (g p)) (snd (g p))) l s.
Proof. induction l; cbn; auto. Qed.

Lemma exec_inplace_eq_plain cells rhs s :
  NoDup (map fst (combine cells rhs)) ->
  (forall p, In p (combine cells rhs) -> forall s' a v, In a cells -> snd p (wr s' a v) = snd p s') ->
  exec_inplace o cells rhs s = exec_plain o cells rhs s.
Proof.
  intros ND HI. unfold exec_inplace, exec_plain, write_all.
  rewrite fold_left_map_wr. cbn [fst snd].
  apply (inplace_aux cells s); auto.
  intros p Hp. destruct p as [a f]. apply in_combine_l in Hp. exact Hp.
Qed.
End Generic.

(* ---------- lvalues ---------- *)
Lemma lval_inj :
  (forall e, vlval e = true -> forall i j, vaddr e i = vaddr e j -> i = j) /\
  (forall m, mlval m = true -> forall i j i' j', maddr m i j = maddr m i' j' -> i = i' /\ j = j').
Proof.
  apply vmexp_ind; cbn; intros; try discriminate.
  - congruence.
  - apply H in H1; auto. lia.
  - apply H in H1; tauto.
  - apply H in H1; tauto.
  - apply H in H1; tauto.
  - inversion H0; auto.
  - apply H in H1; tauto.
  - apply H in H1; auto. lia.
  - apply H in H1; auto. lia.
  - apply H in H1; auto. lia.
Qed.

Lemma lval_den s :
  (forall e, vlval e = true -> forall i, vden s e i = rd s (vaddr e i)) /\
  (forall m, mlval m = true -> forall i j, mden s m i j = rd s (maddr m i j)).
Proof. apply vmexp_ind; cbn; intros; try discriminate; auto. Qed.

Lemma NoDup_app_intro {A} (l l' : list A) :
  NoDup l -> NoDup l' -> (forall x, In x l -> ~ In x l') -> NoDup (l ++ l').
Proof.
  induction l as [|a t IH]; cbn; intros H1 H2 H3; auto.
  inversion H1; subst. constructor.
  - rewrite in_app_iff. intros [H|H]; [tauto|]. apply (H3 a); auto.
  - apply IH; auto.
Qed.

Lemma NoDup_list_prod {A B} (l1 : list A) (l2 : list B) :
  NoDup l1 -> NoDup l2 -> NoDup (list_prod l1 l2).
Proof.
  induction l1 as [|a t IH]; cbn; intros H1 H2; [constructor|].
  inversion H1; subst. apply NoDup_app_intro; auto.
  - apply Injective_map_NoDup; auto. intros x y E. congruence.
  - intros [x y] Hx Hy. apply in_map_iff in Hx. destruct Hx as [z [E _]]. inversion E; subst.
    apply in_prod_iff in Hy. tauto.
Qed.

Lemma vcells_NoDup t : vlval t = true -> NoDup (vcells t).
Proof.
  intros L. unfold vcells. apply Injective_map_NoDup; [|apply seq_NoDup].
  intros i j E. eapply (proj1 lval_inj); eauto.
Qed.

Lemma mcells_NoDup t : mlval t = true -> NoDup (mcells t).
Proof.
  intros L. unfold mcells, pairs. apply Injective_map_NoDup.
  - intros [i j] [i' j'] E. cbn in E. apply (proj2 lval_inj t L) in E. destruct E; subst; auto.
  - apply NoDup_list_prod; apply seq_NoDup.
Qed.

(* ---------- plain forms ---------- *)
Lemma assign_plain_v s o t e :
  vlval t = true ->
  let s' := exec s (SAssignV false o t e) in
  (forall i, (i < vsize t)%nat -> vden s' t i = combine_op o (vden s t i) (vden s e i)) /\
  (forall a, ~ In a (vcells t) -> rd s' a = rd s a).
Proof.
  intros L s'. subst s'. cbn [exec]. unfold vrhs, vcells.
  destruct (exec_plain_spec o (map (vaddr t) (seq 0 (vsize t))) (map (fun i s => vden s e i) (seq 0 (vsize t))) s) as [P1 P2].
  { rewrite map_fst_combine_same. apply (vcells_NoDup t L). }
  split.
  - intros i Hi. rewrite !(proj1 (lval_den _) t L).
    apply (P1 (vaddr t i) (fun s => vden s e i)).
    rewrite combine_map_same. apply in_map_iff. exists i. split; auto. apply in_seq. lia.
  - intros a Ha. apply P2. rewrite map_fst_combine_same. exact Ha.
Qed.

Lemma assign_plain_m s o t e :
  mlval t = true ->
  let s' := exec s (SAssignM false o t e) in
  (forall i j, (i < mrows t)%nat -> (j < mcols t)%nat ->
       mden s' t i j = combine_op o (mden s t i j) (mden s e i j)) /\
  (forall a, ~ In a (mcells t) -> rd s' a = rd s a).
Proof.
  intros L s'. subst s'. cbn [exec]. unfold mrhs, mcells.
  set (ps := pairs (mrows t) (mcols t)).
  destruct (exec_plain_spec o (map (fun p => maddr t (fst p) (snd p)) ps) (map (fun p s => mden s e (fst p) (snd p)) ps) s) as [P1 P2].
  { rewrite map_fst_combine_same. apply (mcells_NoDup t L). }
  split.
  - intros i j Hi Hj. rewrite !(proj2 (lval_den _) t L).
    apply (P1 (maddr t i j) (fun s => mden s e i j)).
    rewrite combine_map_same. apply in_map_iff. exists (i, j). split; auto.
    unfold ps, pairs. apply in_prod; apply in_seq; lia.
  - intros a Ha. apply P2. rewrite map_fst_combine_same. exact Ha.
Qed.

(* scalar compound forms  t o= c *)
Lemma assign_scalar_v s o t c :
  vlval t = true ->
  let s' := exec s (SScalarV o t c) in
  (forall i, (i < vsize t)%nat -> vden s' t i = combine_op o (vden s t i) c) /\
  (forall a, ~ In a (vcells t) -> rd s' a = rd s a).
Proof. intros L. apply (assign_plain_v s o t (VConst (vsize t) c) L). Qed.

Lemma assign_scalar_m s o t c :
  mlval t = true ->
  let s' := exec s (SScalarM o t c) in
  (forall i j, (i < mrows t)%nat -> (j < mcols t)%nat -> mden s' t i j = combine_op o (mden s t i j) c) /\
  (forall a, ~ In a (mcells t) -> rd s' a = rd s a).
Proof. intros L. apply (assign_plain_m s o t (MConst (mrows t) (mcols t) c) L). Qed.

(* ---------- frame: an expression cannot see writes to containers it does not mention ---------- *)
Lemma sumn_ext n f g : (forall k, (k < n)%nat -> f k = g k) -> sumn n f = sumn n g.
Proof. induction n; cbn; intros H; auto. rewrite IHn, H; auto. Qed.

Lemma maxn_ext n f g : (forall k, (k < n)%nat -> f k = g k) -> maxn n f = maxn n g.
Proof.
  induction n; cbn; intros H; auto. destruct n; [apply H; lia|].
  rewrite IHn, (H (S n)); auto.
Qed.

Lemma minn_ext n f g : (forall k, (k < n)%nat -> f k = g k) -> minn n f = minn n g.
Proof.
  induction n; cbn; intros H; auto. destruct n; [apply H; lia|].
  rewrite IHn, (H (S n)); auto.
Qed.

Lemma foldk_ext k n f g : (forall j, (j < n)%nat -> f j = g j) -> foldk k n f = foldk k n g.
Proof. destruct k; cbn; [apply sumn_ext|apply maxn_ext|apply minn_ext]. Qed.

Lemma frame s a v :
  (forall e, vuses a e = false -> forall i, vden (wr s a v) e i = vden s e i) /\
  (forall m, muses a m = false -> forall i j, mden (wr s a v) m i j = mden s m i j).
Proof.
  apply vmexp_ind; cbn [vuses muses vden mden]; intros;
    repeat match goal with H : _ || _ = false |- _ => apply orb_false_elim in H; destruct H end;
    auto;
    try solve [ repeat match goal with IH : _ -> forall _, _ = _ |- _ => rewrite IH by assumption end; reflexivity
              | repeat match goal with IH : _ -> forall _ _, _ = _ |- _ => rewrite IH by assumption end; reflexivity ].
  - (* VVar *) destruct a as [y k|B k l]; cbn in *; auto.
    destruct (Nat.eqb_spec x y); cbn in *; try discriminate. reflexivity.
  - (* VMv *) f_equal. apply sumn_ext. intros. rewrite H, H0; auto.
  - (* VFold *) f_equal. apply foldk_ext. intros. apply H; auto.
  - (* MVar *) destruct a as [y k|B k l]; cbn in *; auto.
    destruct (Nat.eqb_spec A B); cbn in *; try discriminate. reflexivity.
  - (* MProd *) f_equal. apply sumn_ext. intros. rewrite H, H0; auto.
Qed.

Definition cont (a : addr) : bool * nat := match a with AV x _ => (true, x) | AM A _ _ => (false, A) end.

Lemma uses_cont a b :
  cont a = cont b ->
  (forall e, vuses a e = vuses b e) /\ (forall m, muses a m = muses b m).
Proof.
  intros E. apply vmexp_ind; cbn; intros; try congruence.
  - destruct a, b; cbn in *; congruence.
  - destruct a, b; cbn in *; congruence.
Qed.

Lemma lval_cont :
  (forall e, vlval e = true -> forall i j, cont (vaddr e i) = cont (vaddr e j)) /\
  (forall m, mlval m = true -> forall i j i' j', cont (maddr m i j) = cont (maddr m i' j')).
Proof. apply vmexp_ind; cbn; intros; try discriminate; auto. Qed.

(* ---------- noalias forms ---------- *)
Lemma assign_noalias_v s o t e :
  vlval t = true -> vuses (vaddr t 0) e = false ->
  exec s (SAssignV true o t e) = exec s (SAssignV false o t e).
Proof.
  intros L U. cbn [exec]. apply exec_inplace_eq_plain.
  - unfold vcells, vrhs. rewrite map_fst_combine_same. apply (vcells_NoDup t L).
  - unfold vcells, vrhs. rewrite combine_map_same. intros p Hp s' a v Ha.
    apply in_map_iff in Hp. destruct Hp as [i [E _]]. subst p. cbn.
    apply in_map_iff in Ha. destruct Ha as [j [E _]]. subst a.
    apply (proj1 (frame s' (vaddr t j) v)).
    rewrite (proj1 (uses_cont (vaddr t j) (vaddr t 0) (proj1 lval_cont t L j 0%nat))). exact U.
Qed.

Lemma assign_noalias_m s o t e :
  mlval t = true -> muses (maddr t 0 0) e = false ->
  exec s (SAssignM true o t e) = exec s (SAssignM false o t e).
Proof.
  intros L U. cbn [exec]. apply exec_inplace_eq_plain.
  - unfold mcells, mrhs. rewrite map_fst_combine_same. apply (mcells_NoDup t L).
  - unfold mcells, mrhs. rewrite combine_map_same. intros p Hp s' a v Ha.
    apply in_map_iff in Hp. destruct Hp as [[i j] [E _]]. subst p. cbn.
    apply in_map_iff in Ha. destruct Ha as [[i' j'] [E _]]. subst a. cbn.
    apply (proj2 (frame s' (maddr t i' j') v)).
    rewrite (proj2 (uses_cont (maddr t i' j') (maddr t 0 0) (proj2 lval_cont t L i' j' 0%nat 0%nat))). exact U.
Qed.

(* ---------- reductions ---------- *)
Lemma maxn_spec n f : (0 < n)%nat ->
  (forall i, (i < n)%nat -> f i <= maxn n f) /\ (exists i, (i < n)%nat /\ maxn n f = f i).
Proof.
  induction n as [|n IH]; [lia|]. intros _. destruct n as [|n].
  - cbn. split; [intros i Hi; assert (i = 0)%nat by lia; subst; lia | exists 0%nat; split; [lia|reflexivity]].
  - destruct IH as [I1 [k [Hk Ek]]]; [lia|].
    change (maxn (S (S n)) f) with (Z.max (maxn (S n) f) (f (S n))).
    split.
    + intros i Hi. destruct (Nat.eq_dec i (S n)) as [->|Hne]; [lia|]. specialize (I1 i ltac:(lia)). lia.
    + destruct (Z.max_spec (maxn (S n) f) (f (S n))) as [[_ E]|[_ E]]; rewrite E.
      * exists (S n). split; [lia|reflexivity].
      * exists k. split; [lia|exact Ek].
Qed.

Lemma minn_spec n f : (0 < n)%nat ->
  (forall i, (i < n)%nat -> minn n f <= f i) /\ (exists i, (i < n)%nat /\ minn n f = f i).
Proof.
  induction n as [|n IH]; [lia|]. intros _. destruct n as [|n].
  - cbn. split; [intros i Hi; assert (i = 0)%nat by lia; subst; lia | exists 0%nat; split; [lia|reflexivity]].
  - destruct IH as [I1 [k [Hk Ek]]]; [lia|].
    change (minn (S (S n)) f) with (Z.min (minn (S n) f) (f (S n))).
    split.
    + intros i Hi. destruct (Nat.eq_dec i (S n)) as [->|Hne]; [lia|]. specialize (I1 i ltac:(lia)). lia.
    + destruct (Z.min_spec (minn (S n) f) (f (S n))) as [[_ E]|[_ E]]; rewrite E.
      * exists k. split; [lia|exact Ek].
      * exists (S n). split; [lia|reflexivity].
Qed.

(* shape lemmas *)
Lemma trans_involutive s m i j : mden s (MTrans (MTrans m)) i j = mden s m i j.
Proof. reflexivity. Qed.

Lemma shape_prod al m1 m2 : mrows (MProd al m1 m2) = mrows m1 /\ mcols (MProd al m1 m2) = mcols m2.
Proof. split; reflexivity. Qed.

Lemma shape_trans m : mrows (MTrans m) = mcols m /\ mcols (MTrans m) = mrows m.
Proof. split; reflexivity. Qed.

Lemma wf_range_inside e a b i :
  vwf (VRange e a b) = true -> (i < vsize (VRange e a b))%nat -> (a + i < vsize e)%nat.
Proof.
  cbn. intros H Hi. apply andb_prop in H. destruct H as [H H2]. apply andb_prop in H. destruct H as [_ H1].
  apply Nat.leb_le in H1, H2. lia.
Qed.

(* column(m,j) is row(trans(m),j); row of a product is the product with the row *)
Lemma col_is_row_of_trans s m j i : vden s (VCol m j) i = vden s (VRow (MTrans m) j) i.
Proof. reflexivity. Qed.
