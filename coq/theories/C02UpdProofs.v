(* C02 — cholesky_decomposition::update (model C02UpdModel.v): when it returns, the new factor satisfies
   L' L'^T = alpha L L^T + beta v v^T  ENTRY-WISE on the lower triangle (hence everywhere, both sides being symmetric),
   over an arbitrary field, the square root exact on the values met (ghost list of the result). *)
From Coq Require Import List Arith Bool Lia Field.
From SharkV Require Import C02Model C02Proofs C02UpdModel.
Import ListNotations.

Section UpdProofs.
Variable A : Type.
Variable F : ops A.
Notation "0" := (fzero F) : F_scope.
Notation "1" := (fone F) : F_scope.
Infix "+" := (fadd F) : F_scope.
Infix "*" := (fmul F) : F_scope.
Infix "-" := (fsub F) : F_scope.
Infix "/" := (fdiv F) : F_scope.
Notation "- x" := (fopp F x) : F_scope.
Hypothesis Fth : field_theory (fzero F) (fone F) (fadd F) (fmul F) (fsub F) (fopp F) (fdiv F) (finv F) (@eq A).
Hypothesis feqb_spec : forall x y, feqb F x y = true <-> x = y.
Hypothesis fleb_00 : fleb F (fzero F) (fzero F) = true.
Add Field FfieldUpd : Fth.
Local Open Scope F_scope.
Notation mat := (mat A).
Notation vec := (vec A).
Notation sumr := (sumr A F).
Notation sumr_ext := (sumr_ext A F).
Notation sumr_split := (sumr_split A F Fth).
Notation sumr_S := (sumr_S A F).
Notation sumr_first := (sumr_first A F Fth).
Notation sumr_empty := (sumr_empty A F).
Notation memo_eq := (memo_eq A F).
Notation memo2_eq := (memo2_eq A F).

Definition usq_ok (sq : list A) : Prop := Forall (fun x => fsqrt F x * fsqrt F x = x) sq.

(* ---------- the two scalar identities behind one column ---------- *)
Lemma upd_key1 : forall a l0 bp beta wj nl li wi,
  a <> 0 -> l0 <> 0 -> bp <> 0 ->
  let Ljj := a * l0 in let dj := Ljj * Ljj in let s2 := beta * wj * wj in let gamma := dj * bp + s2 in
  gamma <> 0 -> nl * nl = dj + s2 / bp ->
  (li * a * (nl / Ljj) + (nl * beta * wj / gamma) * (wi - (wj / Ljj) * (li * a))) * nl = (a * a) * (li * l0) + (beta / bp) * wi * wj.
Proof.
  intros a l0 bp beta wj nl li wi Ha Hl Hb Ljj dj s2 gamma Hg Hn.
  assert (E : (li * a * (nl / Ljj) + (nl * beta * wj / gamma) * (wi - (wj / Ljj) * (li * a))) * nl
              = (nl * nl) * (li * a / Ljj + (beta * wj / gamma) * (wi - (wj / Ljj) * (li * a)))).
  { unfold Ljj. field. repeat split; assumption. }
  rewrite E, Hn. unfold gamma, s2, dj, Ljj in *. field. repeat split; assumption.
Qed.

Lemma upd_key2 : forall a l0 bp beta wj nl li wi lk wk,
  a <> 0 -> l0 <> 0 -> bp <> 0 ->
  let Ljj := a * l0 in let dj := Ljj * Ljj in let s2 := beta * wj * wj in let gamma := dj * bp + s2 in
  gamma <> 0 -> nl * nl = dj + s2 / bp ->
  let wi' := wi - (wj / Ljj) * (li * a) in let wk' := wk - (wj / Ljj) * (lk * a) in
  (a * a) * (li * lk) + (beta / bp) * wi * wk
    - (li * a * (nl / Ljj) + (nl * beta * wj / gamma) * wi') * (lk * a * (nl / Ljj) + (nl * beta * wj / gamma) * wk')
  = (beta / (bp + s2 / dj)) * wi' * wk'.
Proof.
  intros a l0 bp beta wj nl li wi lk wk Ha Hl Hb Ljj dj s2 gamma Hg Hn wi' wk'.
  assert (E : (li * a * (nl / Ljj) + (nl * beta * wj / gamma) * wi') * (lk * a * (nl / Ljj) + (nl * beta * wj / gamma) * wk')
              = (nl * nl) * ((li * a / Ljj + (beta * wj / gamma) * wi') * (lk * a / Ljj + (beta * wj / gamma) * wk'))).
  { unfold Ljj. field. repeat split; assumption. }
  rewrite E, Hn. unfold wi', wk', gamma, s2, dj, Ljj in *. field. repeat split; try assumption.
  intros Z. apply Hg. rewrite <- Z. ring.
Qed.

(* ---------- the loop invariant ---------- *)
Section Inv.
Variables (n : nat) (alpha beta a : A) (L0 : mat) (v : vec).
Hypothesis Haa : a * a = alpha.
Hypothesis Ha0 : a <> 0.
Hypothesis HL0 : forall j, (j < n)%nat -> L0 j j <> 0.

Definition LL (L : mat) (i k : nat) : A := sumr 0 (S k) (fun t => L i t * L k t).
Definition target (i k : nat) : A := alpha * LL L0 i k + beta * v i * v k.

Definition upd_inv (j : nat) (L' : mat) (w : vec) (bp : A) : Prop :=
  bp <> 0 /\
  (forall i c, (j <= c)%nat -> L' i c = L0 i c) /\
  (forall i c, (i < c)%nat -> L' i c = L0 i c) /\
  (forall i k, (k < j)%nat -> (k <= i < n)%nat -> LL L' i k = target i k) /\
  (forall i k, (j <= k)%nat -> (k <= i < n)%nat ->
     target i k - sumr 0 j (fun t => L' i t * L' k t) = alpha * sumr j (S k) (fun t => L0 i t * L0 k t) + (beta / bp) * w i * w k).

Lemma upd_inv_init : upd_inv 0 L0 v 1.
Proof.
  split; [apply (F_1_neq_0 Fth)|]. split; [reflexivity|]. split; [reflexivity|]. split; [intros; lia|].
  intros i k _ Hi. unfold target, LL. rewrite (sumr_empty 0 0) by lia. field. apply (F_1_neq_0 Fth).
Qed.

Lemma upd_col_inv : forall j L' w bp sq, (j < n)%nat -> upd_inv j L' w bp ->
  match upd_col A F n j a beta L' w bp sq with
  | UGo _ L2 w2 bp2 sq2 => exists x, sq2 = sq ++ [x] /\ (fsqrt F x * fsqrt F x = x -> upd_inv (S j) L2 w2 bp2)
  | UThrow _ _ _ => True
  end.
Proof.
  intros j L' w bp sq Hj (Hbp & Hcol & Hup & Hdone & Hrest). unfold upd_col.
  set (l0 := L' j j). assert (El0 : l0 = L0 j j) by (apply Hcol; lia).
  assert (Hl0 : l0 <> 0) by (rewrite El0; apply HL0; exact Hj).
  set (Ljj := a * l0). set (dj := Ljj * Ljj). set (wj := w j). set (s2 := beta * wj * wj).
  set (gamma := dj * bp + s2). set (x := dj + s2 / bp).
  destruct (fleb F x 0) eqn:Es; [exact I|].
  exists x. split; [reflexivity|]. intros Hn.
  assert (Hx0 : x <> 0) by (intros Z; rewrite Z in Es; rewrite fleb_00 in Es; discriminate).
  assert (HLjj : Ljj <> 0).
  { unfold Ljj. intros Z. apply Ha0. assert (E : a = (a * l0) / l0) by (field; exact Hl0). rewrite E, Z. field. exact Hl0. }
  assert (Hg : gamma <> 0).
  { intros Z. apply Hx0. unfold x. assert (E : dj + s2 / bp = gamma / bp) by (unfold gamma; field; exact Hbp). rewrite E, Z. field. exact Hbp. }
  assert (Eg : feqb F gamma 0 = false) by (apply (feqb_false A F feqb_spec); exact Hg).
  set (nl := fsqrt F x) in *.
  set (w2 := memo A F n (fun i => if Nat.ltb j i && Nat.ltb i n then w i - (wj / Ljj) * (L' i j * a) else w i)).
  assert (Hw2 : forall i, (j < i < n)%nat -> w2 i = w i - (wj / Ljj) * (L0 i j * a)).
  { intros i Hi. unfold w2. rewrite memo_eq. assert (E1 : Nat.ltb j i = true) by (apply Nat.ltb_lt; lia).
    assert (E2 : Nat.ltb i n = true) by (apply Nat.ltb_lt; lia). rewrite E1, E2. cbn [andb]. rewrite (Hcol i j) by lia. reflexivity. }
  match goal with |- upd_inv (S j) ?M _ _ => set (L2 := M) end.
  assert (K2 : forall i c, c <> j -> L2 i c = L' i c).
  { intros i c Hc. unfold L2. rewrite memo2_eq. destruct (Nat.eqb_spec c j); [contradiction|reflexivity]. }
  assert (Kd : L2 j j = nl) by (unfold L2; rewrite memo2_eq, !Nat.eqb_refl; reflexivity).
  assert (Kc : forall i, (j < i < n)%nat -> L2 i j = L0 i j * a * (nl / Ljj) + (nl * beta * wj / gamma) * w2 i).
  { intros i Hi. unfold L2. rewrite memo2_eq. rewrite Nat.eqb_refl. destruct (Nat.eqb_spec i j); [lia|].
    assert (E1 : Nat.ltb j i = true) by (apply Nat.ltb_lt; lia). assert (E2 : Nat.ltb i n = true) by (apply Nat.ltb_lt; lia).
    rewrite E1, E2, Eg. cbn [andb]. rewrite (Hcol i j) by lia. reflexivity. }
  assert (Ku : forall i, (i < j)%nat -> L2 i j = L' i j).
  { intros i Hi. unfold L2. rewrite memo2_eq. rewrite Nat.eqb_refl. destruct (Nat.eqb_spec i j); [lia|].
    destruct (Nat.ltb_spec j i); [lia|]. reflexivity. }
  clearbody L2 w2.
  assert (Hnx : nl * nl = dj + s2 / bp) by exact Hn.
  (* the column just finished *)
  assert (Key1 : forall i, (j <= i < n)%nat -> L2 i j * nl = alpha * (L0 i j * L0 j j) + (beta / bp) * w i * wj).
  { intros i Hi. destruct (Nat.eq_dec i j) as [->|N].
    - rewrite Kd, Hnx. unfold dj, Ljj, s2. rewrite <- Haa, <- El0. fold wj. field. exact Hbp.
    - rewrite Kc by lia. rewrite Hw2 by lia. rewrite <- Haa, <- El0.
      exact (upd_key1 a l0 bp beta wj nl (L0 i j) (w i) Ha0 Hl0 Hbp Hg Hnx). }
  split.
  { (* bp' = gamma / dj *)
    intros Z. apply Hg. assert (E : gamma = (bp + s2 / dj) * dj) by (unfold gamma; field; unfold dj; intros Z2; apply HLjj;
      assert (E3 : Ljj = (Ljj * Ljj) / Ljj) by (field; exact HLjj); rewrite E3, Z2; field; exact HLjj).
    rewrite E, Z. ring. }
  split. { intros i c Hc. rewrite K2 by lia. apply Hcol. lia. }
  split.
  { intros i c Hc. destruct (Nat.eq_dec c j) as [->|N]; [rewrite Ku by lia; apply Hup; exact Hc|]. rewrite K2 by exact N. apply Hup; exact Hc. }
  split.
  { intros i k Hk Hi. destruct (Nat.eq_dec k j) as [->|N].
    - unfold LL. rewrite sumr_S by lia.
      rewrite (sumr_ext 0 j _ (fun t => L' i t * L' j t)) by (intros t Ht; rewrite !K2 by lia; reflexivity).
      rewrite Kd. rewrite Key1 by lia.
      pose proof (Hrest i j (le_n j) Hi) as R. rewrite (sumr_S j j) in R by lia. rewrite (sumr_empty j j) in R by lia.
      fold wj in R.
      assert (E : sumr 0 j (fun t => L' i t * L' j t) = target i j - (alpha * (0 + L0 i j * L0 j j) + beta / bp * w i * wj)).
      { rewrite <- R. ring. }
      rewrite E. ring.
    - unfold LL. rewrite (sumr_ext 0 (S k) _ (fun t => L' i t * L' k t)) by (intros t Ht; rewrite !K2 by lia; reflexivity).
      apply Hdone; lia. }
  intros i k Hk Hi.
  rewrite sumr_S by lia.
  rewrite (sumr_ext 0 j _ (fun t => L' i t * L' k t)) by (intros t Ht; rewrite !K2 by lia; reflexivity).
  pose proof (Hrest i k ltac:(lia) Hi) as R. rewrite (sumr_first j (S k)) in R by lia.
  rewrite (Kc i) by lia. rewrite (Kc k) by lia. rewrite (Hw2 i) by lia. rewrite (Hw2 k) by lia.
  pose proof (upd_key2 a l0 bp beta wj nl (L0 i j) (w i) (L0 k j) (w k) Ha0 Hl0 Hbp Hg Hnx) as K. cbv zeta in K.
  fold Ljj in K. fold dj in K. fold s2 in K. fold gamma in K. rewrite Haa in K.
  match goal with |- ?T - (?S + ?P) = ?R1 + ?R2 => assert (E : T - (S + P) = (T - S) - P) by ring; rewrite E, R end.
  rewrite <- K. ring.
Qed.

Lemma upd_loop_inv : forall k sq0, (k <= n)%nat ->
  match upd_loop A F n a beta k L0 v 1 sq0 with
  | UGo _ L' w bp sq => exists l, sq = sq0 ++ l /\ (usq_ok l -> upd_inv k L' w bp)
  | UThrow _ _ _ => True
  end.
Proof.
  induction k; intros sq0 Hk; cbn [upd_loop].
  - exists []. rewrite app_nil_r. split; [reflexivity|]. intros _. apply upd_inv_init.
  - specialize (IHk sq0 ltac:(lia)).
    destruct (upd_loop A F n a beta k L0 v 1 sq0) as [L1 w1 bp1 sq1|]; [|exact I].
    destruct IHk as [l1 [E1 I1]].
    (* the column lemma needs the invariant, which needs usq_ok l1: thread it through *)
    unfold upd_col.
    match goal with |- context [if fleb F ?xx 0 then _ else _] => destruct (fleb F xx 0) eqn:Es; [exact I|set (x := xx) in *] end.
    exists (l1 ++ [x]). split; [rewrite E1, app_assoc; reflexivity|].
    intros Hsq. unfold usq_ok in Hsq. apply Forall_app in Hsq. destruct Hsq as [Hs1 Hs2]. apply Forall_inv in Hs2.
    pose proof (upd_col_inv k L1 w1 bp1 sq1 ltac:(lia) (I1 Hs1)) as C. unfold upd_col in C. fold x in C. rewrite Es in C.
    destruct C as [x' [Ex C]]. apply app_inj_tail in Ex. destruct Ex as [_ Ex]. subst x'. apply C. assumption.
Qed.
End Inv.

(* ---------- update(alpha, beta, v) ---------- *)
Theorem chol_update_correct : forall n alpha beta (L0 : mat) (v : vec) L' sq, alpha <> 0 ->
  (forall j, (j < n)%nat -> L0 j j <> 0) ->
  chol_update A F n alpha beta L0 v = UOk A L' sq -> usq_ok sq ->
  forall i k, (k <= i < n)%nat -> LL L' i k = alpha * LL L0 i k + beta * v i * v k.
Proof.
  intros n alpha beta L0 v L' sq Hal HL H Hsq i k Hik. unfold chol_update in H.
  destruct (feqb F beta 0) eqn:Eb.
  - apply feqb_spec in Eb. inversion H; subst L' sq beta. clear H.
    inversion Hsq; subst. rename H1 into Ha. unfold LL.
    rewrite (sumr_ext 0 (S k) _ (fun t => (fsqrt F alpha * fsqrt F alpha) * (L0 i t * L0 k t))) by (intros t Ht; rewrite !memo2_eq; ring).
    rewrite (sumr_mul_l A F Fth). rewrite Ha. ring.
  - destruct (upd_loop A F n (fsqrt F alpha) beta n L0 v 1 [alpha]) as [L1 w1 bp1 sq1|] eqn:E; [|discriminate].
    inversion H; subst L1 sq1. clear H.
    pose proof (upd_loop_inv n alpha beta (fsqrt F alpha) L0 v) as LI.
    assert (Hh : usq_ok [alpha] /\ exists l, sq = [alpha] ++ l).
    { pose proof (fun Haa Ha0 => LI Haa Ha0 HL n [alpha] (le_n n)) as LI2. clear LI.
      (* read the shape of sq off the run *)
      assert (Hp : forall k sq0, match upd_loop A F n (fsqrt F alpha) beta k L0 v 1 sq0 with UGo _ _ _ _ s => exists l, s = sq0 ++ l | UThrow _ _ _ => True end).
      { induction k0; intros sq0; cbn [upd_loop]; [exists []; rewrite app_nil_r; reflexivity|].
        specialize (IHk0 sq0). destruct (upd_loop A F n (fsqrt F alpha) beta k0 L0 v 1 sq0) as [L2 w2 bp2 sq2|]; [|exact I].
        destruct IHk0 as [l El]. unfold upd_col. match goal with |- context [if ?b then _ else _] => destruct b end; [exact I|].
        exists (l ++ [fadd F (fmul F (fmul F (fsqrt F alpha) (L2 k0 k0)) (fmul F (fsqrt F alpha) (L2 k0 k0)))
                      (fdiv F (fmul F (fmul F beta (w2 k0)) (w2 k0)) bp2)]). rewrite El, app_assoc. reflexivity. }
      specialize (Hp n [alpha]). rewrite E in Hp. destruct Hp as [l El]. split; [|exists l; exact El].
      rewrite El in Hsq. unfold usq_ok in *. apply Forall_app in Hsq. tauto. }
    destruct Hh as [Hs0 [l El]]. inversion Hs0; subst. rename H1 into Haa.
    assert (Ha0 : fsqrt F alpha <> 0) by (intros Z; apply Hal; rewrite <- Haa, Z; ring).
    specialize (LI Haa Ha0 HL n [alpha] (le_n n)). rewrite E in LI. destruct LI as [l2 [El2 LI]].
    rewrite El2 in Hsq. unfold usq_ok in Hsq. apply Forall_app in Hsq. destruct Hsq as [_ Hsq2].
    destruct (LI Hsq2) as (_ & _ & _ & Hdone & _). apply Hdone; lia.
Qed.

(* the update leaves the strict upper triangle of the stored matrix untouched when beta <> 0 *)
Theorem chol_update_upper : forall n alpha beta (L0 : mat) (v : vec) L' sq, beta <> 0 ->
  chol_update A F n alpha beta L0 v = UOk A L' sq -> forall i c, (i < c)%nat -> L' i c = L0 i c.
Proof.
  intros n alpha beta L0 v L' sq Hb H. unfold chol_update in H.
  apply (feqb_false A F feqb_spec) in Hb. rewrite Hb in H.
  assert (Hp : forall k L1 w1 bp1 sq1 sq0, upd_loop A F n (fsqrt F alpha) beta k L0 v 1 sq0 = UGo A L1 w1 bp1 sq1 ->
             forall i c, (i < c)%nat -> L1 i c = L0 i c).
  { induction k; intros L1 w1 bp1 sq1 sq0 E i c Hic; cbn [upd_loop] in E; [inversion E; reflexivity|].
    destruct (upd_loop A F n (fsqrt F alpha) beta k L0 v 1 sq0) as [L2 w2 bp2 sq2|] eqn:E2; [|discriminate].
    unfold upd_col in E. match type of E with (if ?b then _ else _) = _ => destruct b end; [discriminate|].
    inversion E; subst. rewrite memo2_eq. rewrite (IHk L2 w2 bp2 sq2 sq0 eq_refl i c Hic) || idtac.
    destruct (Nat.eqb_spec c k); [|eapply IHk; eauto].
    destruct (Nat.eqb_spec i k); [lia|]. destruct (Nat.ltb_spec k i); [lia|]. cbn [andb]. eapply IHk; eauto. }
  destruct (upd_loop A F n (fsqrt F alpha) beta n L0 v 1 [alpha]) as [L1 w1 bp1 sq1|] eqn:E; [|discriminate].
  inversion H; subst. eapply Hp; eauto.
Qed.

(* ---------- the update returns (no exception) for beta >= 0: needs the order ---------- *)
Section UpdOrd.
Definition pos (x : A) : Prop := fltb F 0 x = true.
Definition nonneg (x : A) : Prop := fleb F 0 x = true.
Hypothesis pos_1 : pos 1.
Hypothesis pos_sq : forall x, x <> 0 -> pos (x * x).
Hypothesis pos_add : forall x y, pos x -> nonneg y -> pos (x + y).
Hypothesis nn_mul : forall x y, nonneg x -> nonneg y -> nonneg (x * y).
Hypothesis nn_sq : forall x, nonneg (x * x).
Hypothesis nn_div : forall x y, nonneg x -> pos y -> nonneg (x / y).
Hypothesis pos_nle : forall x, pos x -> fleb F x 0 = false.

Lemma mul_nz : forall x y : A, x <> 0 -> y <> 0 -> x * y <> 0.
Proof. intros x y Hx Hy Z. apply Hx. assert (E : x = (x * y) / y) by (field; exact Hy). rewrite E, Z. field. exact Hy. Qed.

Theorem chol_update_returns : forall n alpha beta (L0 : mat) (v : vec), fsqrt F alpha <> 0 -> nonneg beta ->
  (forall j, (j < n)%nat -> L0 j j <> 0) -> exists L' sq, chol_update A F n alpha beta L0 v = UOk A L' sq.
Proof.
  intros n alpha beta L0 v Ha Hb HL. unfold chol_update. destruct (feqb F beta 0); [eauto|].
  set (a := fsqrt F alpha) in *.
  assert (Hloop : forall k, (k <= n)%nat -> exists L1 w1 bp1 sq1, upd_loop A F n a beta k L0 v 1 [alpha] = UGo A L1 w1 bp1 sq1 /\
             pos bp1 /\ forall i c, (k <= c)%nat -> L1 i c = L0 i c).
  { induction k; intros Hk; cbn [upd_loop].
    - exists L0, v, 1, [alpha]. split; [reflexivity|]. split; [exact pos_1|reflexivity].
    - destruct (IHk ltac:(lia)) as (L1 & w1 & bp1 & sq1 & E & Hp & Hc). rewrite E. unfold upd_col.
      assert (Hd : pos (a * L1 k k * (a * L1 k k))).
      { apply pos_sq. apply mul_nz; [exact Ha|]. rewrite Hc by lia. apply HL. lia. }
      assert (Hs : nonneg (beta * w1 k * w1 k)).
      { replace (beta * w1 k * w1 k) with (beta * (w1 k * w1 k)) by ring. apply nn_mul; [exact Hb|apply nn_sq]. }
      assert (Hx : pos (a * L1 k k * (a * L1 k k) + beta * w1 k * w1 k / bp1)) by (apply pos_add; [exact Hd|apply nn_div; assumption]).
      rewrite (pos_nle _ Hx).
      eexists _, _, _, _. split; [reflexivity|]. split.
      + apply pos_add; [exact Hp|apply nn_div; assumption].
      + intros i c Hc2. rewrite memo2_eq. destruct (Nat.eqb_spec c k); [lia|]. apply Hc. lia. }
  destruct (Hloop n (le_n n)) as (L1 & w1 & bp1 & sq1 & E & _). rewrite E. eauto.
Qed.
End UpdOrd.

End UpdProofs.
