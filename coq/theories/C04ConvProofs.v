(* C04 — Conv2DModel, part 1: what the coded kernel computes (index views), batch = single, parameter round trip.
   Any commutative ring, axiom-free.  Model: C04Conv.v. *)
From Coq Require Import List Arith Bool Lia Ring PeanoNat ArithRing.
From SharkV Require Import C04Model C04Conv C04Aux C04Proofs C04SumProofs.
Import ListNotations.

(* ---------------- index arithmetic ---------------- *)
Lemma dm_div a m b : b < m -> (a * m + b) / m = a.
Proof. intros H. rewrite Nat.add_comm, Nat.div_add by lia. rewrite Nat.div_small by auto. reflexivity. Qed.
Lemma dm_mod a m b : b < m -> (a * m + b) mod m = b.
Proof. intros H. rewrite Nat.add_comm, Nat.mod_add by lia. apply Nat.mod_small; auto. Qed.
Lemma div_lt_prod p n m : p < n * m -> p / m < n.
Proof. intros H. apply Nat.div_lt_upper_bound; [destruct m; lia|]. rewrite Nat.mul_comm. exact H. Qed.
Lemma mod_lt_prod p n m : p < n * m -> p mod m < m.
Proof. intros H. apply Nat.mod_upper_bound. destruct m; lia. Qed.
Lemma lt_prod_l a b n m : a < n -> b < m -> a * m + b < n * m.
Proof. intros. nia. Qed.

(* the geometry a Conv2DModel can be built with *)
Definition geo_ok (g : cgeo) : Prop :=
  1 <= gfh g /\ 1 <= gfw g /\ 1 <= gC g /\ 1 <= gF g /\ (gpad g = false -> gfh g <= gH g /\ gfw g <= gW g).

Lemma geo_oh g : geo_ok g -> gH g + 1 + pad_h g - gfh g = out_h g.
Proof. intros (A1 & A2 & A3 & A4 & A5). unfold pad_h, out_h. destruct (gpad g); [lia|]. destruct A5; auto. lia. Qed.
Lemma geo_ow g : geo_ok g -> gW g + 1 + pad_w g - gfw g = out_w g.
Proof. intros (A1 & A2 & A3 & A4 & A5). unfold pad_w, out_w. destruct (gpad g); [lia|]. destruct A5; auto. lia. Qed.

Section ConvProofs.
Variable A : Type.
Variables (zero one : A) (add mul sub : A -> A -> A) (opp : A -> A).
Hypothesis Rth : ring_theory zero one add mul sub opp eq.
Add Ring AringC : Rth.

Infix "+" := add : CA_scope.
Infix "*" := mul : CA_scope.
Local Open Scope CA_scope.
Notation getA := (get zero).
Notation bsumA := (bsum zero add).
Notation dotA := (dot zero add mul).
Notation entryA := (im2mat_entry zero).
Notation kernelA := (conv2d_kernel zero add mul).
(* the lemmas of C04SumProofs at this ring *)
Notation bsum_zeropR := (bsum_zero' A zero one add mul sub opp Rth).
Notation bsum_zeroR := (bsum_zero A zero one add mul sub opp Rth).
Notation bsum_addR := (bsum_add A zero one add mul sub opp Rth).
Notation bsum_mul_lR := (bsum_mul_l A zero one add mul sub opp Rth).
Notation bsum_mul_rR := (bsum_mul_r A zero one add mul sub opp Rth).
Notation bsum_swapR := (bsum_swap A zero one add mul sub opp Rth).
Notation bsum_S_lR := (bsum_S_l A zero one add mul sub opp Rth).
Notation bsum_appR := (bsum_app A zero one add mul sub opp Rth).
Notation bsum_prodR := (bsum_prod A zero one add mul sub opp Rth).
Notation bsum_revR := (bsum_rev A zero one add mul sub opp Rth).
Notation bsum_truncR := (bsum_trunc A zero one add mul sub opp Rth).
Notation bsum_indR := (bsum_ind A zero one add mul sub opp Rth).
Notation bsum_ifR := (bsum_if A zero one add mul sub opp Rth).
Notation dot_map_seqR := (dot_map_seq A zero one add mul sub opp Rth).
Notation dot_tab_lR := (dot_tab_l A zero one add mul sub opp Rth).
Notation dot_getR := (dot_get A zero one add mul sub opp Rth).
Notation fr_bsumR := (fr_bsum A zero one add mul sub opp Rth).

(* the zero padded image: pixel (a, b) of the padded image, channel c; (s1, s2) rows / columns of padding in front *)
Definition Pad (H W C s1 s2 : nat) (img : list A) (a b c : nat) : A :=
  if (s1 <=? a) && (a <? H + s1)%nat then
    if (s2 <=? b) && (b <? W + s2)%nat then getA img (((a - s1) * W + (b - s2)) * C + c)%nat else zero
  else zero.

(* entry of the patch matrix: output pixel p = i * ow + j, filter position q = i1 * fw + j1, channel c *)
Lemma entry_view C H W fh fw ph pw imgs im p q c :
  let oh := (H + 1 + ph - fh)%nat in let ow := (W + 1 + pw - fw)%nat in
  p < (oh * ow)%nat -> q < (fh * fw)%nat -> c < C ->
  entryA C H W fh fw ph pw imgs (im * (oh * ow) + p)%nat (q * C + c)%nat =
  Pad H W C (ph / 2) (pw / 2) (nth im imgs []) (p / ow + q / fw)%nat (p mod ow + q mod fw)%nat c.
Proof.
  intros oh ow Hp Hq Hc. unfold im2mat_entry. fold oh ow.
  rewrite (Nat.mul_comm ow oh).
  rewrite (dm_div im (oh * ow) p Hp), (dm_mod im (oh * ow) p Hp).
  assert (E1 : ((q * C + c) / (fw * C) = q / fw)%nat).
  { rewrite (Nat.mul_comm fw C), <- Nat.div_div by (destruct fw; lia). rewrite dm_div by auto. reflexivity. }
  rewrite E1, (dm_div q C c Hc), (dm_mod q C c Hc).
  assert (Bi : p / ow < oh) by (apply div_lt_prod; auto).
  assert (Bj : p mod ow < ow) by (apply (mod_lt_prod p oh); auto).
  assert (Bi1 : q / fw < fh) by (apply div_lt_prod; auto).
  assert (Bj1 : q mod fw < fw) by (apply (mod_lt_prod q fh); auto).
  set (i := (p / ow)%nat) in *. set (j := (p mod ow)%nat) in *. set (i1 := (q / fw)%nat) in *. set (j1 := (q mod fw)%nat) in *.
  unfold Pad.
  destruct ((ph =? 0) && (pw =? 0)) eqn:E0.
  - apply andb_true_iff in E0. destruct E0 as [Eh Ew]. apply Nat.eqb_eq in Eh. apply Nat.eqb_eq in Ew. subst ph pw.
    change (0 / 2)%nat with 0%nat.
    replace (0 <=? i + i1)%nat with true by (symmetry; apply Nat.leb_le; lia).
    replace (i + i1 <? H + 0)%nat with true by (symmetry; apply Nat.ltb_lt; unfold oh in Bi; lia).
    replace (0 <=? j + j1)%nat with true by (symmetry; apply Nat.leb_le; lia).
    replace (j + j1 <? W + 0)%nat with true by (symmetry; apply Nat.ltb_lt; unfold ow in Bj; lia).
    cbn [andb]. f_equal. rewrite !Nat.sub_0_r. ring.
  - set (s1 := (ph / 2)%nat). set (s2 := (pw / 2)%nat).
    destruct ((i1 + i <? s1) || (H + s1 <=? i1 + i))%nat eqn:Er.
    + replace ((s1 <=? i + i1) && (i + i1 <? H + s1))%nat with false; auto.
      symmetry. apply andb_false_iff. apply orb_true_iff in Er. destruct Er as [Er|Er].
      * left. apply Nat.leb_gt. apply Nat.ltb_lt in Er. lia.
      * right. apply Nat.ltb_ge. apply Nat.leb_le in Er. lia.
    + apply orb_false_iff in Er. destruct Er as [Er1 Er2]. apply Nat.ltb_ge in Er1. apply Nat.leb_gt in Er2.
      replace ((s1 <=? i + i1) && (i + i1 <? H + s1))%nat with true
        by (symmetry; apply andb_true_iff; split; [apply Nat.leb_le|apply Nat.ltb_lt]; lia).
      destruct ((j + j1 <? s2) || (W + s2 <=? j + j1))%nat eqn:Ec.
      * replace ((s2 <=? j + j1) && (j + j1 <? W + s2))%nat with false; auto.
        symmetry. apply andb_false_iff. apply orb_true_iff in Ec. destruct Ec as [Ec|Ec].
        -- left. apply Nat.leb_gt. apply Nat.ltb_lt in Ec. lia.
        -- right. apply Nat.ltb_ge. apply Nat.leb_le in Ec. lia.
      * apply orb_false_iff in Ec. destruct Ec as [Ec1 Ec2]. apply Nat.ltb_ge in Ec1. apply Nat.leb_gt in Ec2.
        replace ((s2 <=? j + j1) && (j + j1 <? W + s2))%nat with true
          by (symmetry; apply andb_true_iff; split; [apply Nat.leb_le|apply Nat.ltb_lt]; lia).
        f_equal. f_equal. f_equal. clear - Ec1. generalize ((i + i1 - s1) * W)%nat. intros Q. lia.
Qed.

(* the patch matrix rows of image r only read image r *)
Lemma entry_row C H W fh fw ph pw imgs r p k :
  p < ((W + 1 + pw - fw) * (H + 1 + ph - fh))%nat ->
  entryA C H W fh fw ph pw imgs (r * ((W + 1 + pw - fw) * (H + 1 + ph - fh)) + p)%nat k =
  entryA C H W fh fw ph pw [nth r imgs []] p k.
Proof.
  intros Hp. unfold im2mat_entry.
  rewrite (dm_div r _ p Hp), (dm_mod r _ p Hp), (Nat.div_small p _ Hp), (Nat.mod_small p _ Hp). reflexivity.
Qed.

(* ---------------- the kernel: entry (r, p * F + f) of the result ---------------- *)
Lemma kernel_view C F H W fh fw ph pw imgs flt r p f :
  let rpf := ((H + 1 + ph - fh) * (W + 1 + pw - fw))%nat in
  r < length imgs -> p < rpf -> f < F ->
  getA (nth r (kernelA C F H W fh fw ph pw imgs flt) []) (p * F + f)%nat =
  bsumA (fw * fh * C)%nat (fun k => entryA C H W fh fw ph pw imgs (r * rpf + p)%nat k * getA flt (f * (fw * fh * C) + k)%nat).
Proof.
  intros rpf Hr Hp Hf. unfold conv2d_kernel. fold rpf.
  rewrite get_chunk by auto.
  assert (B1 : (p * F + f < rpf * F)%nat) by (apply lt_prod_l; auto).
  replace (p * F + f <? rpf * F)%nat with true by (symmetry; apply Nat.ltb_lt; auto).
  replace (r * (rpf * F) + (p * F + f))%nat with ((r * rpf + p) * F + f)%nat by ring.
  assert (B2 : (r * rpf + p < length imgs * rpf)%nat) by (apply lt_prod_l; auto).
  rewrite get_tab by (apply lt_prod_l; auto).
  rewrite (dm_div _ F f Hf), (dm_mod _ F f Hf). reflexivity.
Qed.

Lemma kernel_length C F H W fh fw ph pw imgs flt :
  length (kernelA C F H W fh fw ph pw imgs flt) = length imgs.
Proof. unfold conv2d_kernel. apply chunk_length. Qed.

Lemma kernel_rows C F H W fh fw ph pw imgs flt :
  rows ((H + 1 + ph - fh) * (W + 1 + pw - fw) * F) (kernelA C F H W fh fw ph pw imgs flt).
Proof.
  unfold conv2d_kernel. apply chunk_rows. rewrite tab_length.
  apply Nat.eq_le_incl. ring.
Qed.

Lemma rows_nth {B} n (M : list (list B)) r : rows n M -> r < length M -> length (nth r M []) = n.
Proof. intros H Hr. unfold rows in H. rewrite Forall_forall in H. apply H. apply nth_In; auto. Qed.

(* decoded: sum over filter positions q and channels c of (padded image) * filter *)
Lemma kernel_spec C F H W fh fw ph pw imgs flt r p f :
  let oh := (H + 1 + ph - fh)%nat in let ow := (W + 1 + pw - fw)%nat in
  r < length imgs -> p < (oh * ow)%nat -> f < F ->
  getA (nth r (kernelA C F H W fh fw ph pw imgs flt) []) (p * F + f)%nat =
  bsumA (fh * fw)%nat (fun q => bsumA C (fun c =>
     Pad H W C (ph / 2) (pw / 2) (nth r imgs []) (p / ow + q / fw)%nat (p mod ow + q mod fw)%nat c *
     getA flt (f * (fw * fh * C) + (q * C + c))%nat)).
Proof.
  intros oh ow Hr Hp Hf. rewrite kernel_view by auto. fold oh ow.
  replace (fw * fh * C)%nat with (fh * fw * C)%nat at 1 by ring.
  rewrite bsum_prodR. apply bsum_ext. intros q Hq. apply bsum_ext. intros c Hc.
  f_equal. exact (entry_view C H W fh fw ph pw imgs r p q c Hp Hq Hc).
Qed.

(* ---------------- eval: row r of the batch ---------------- *)
Notation pre_batchA := (conv_pre_batch zero add mul).
Notation eval_batchA := (conv_eval_batch zero add mul).
Notation evalA := (conv_eval zero add mul).

(* the pre-activation of one image, written without reference to a batch *)
Definition conv_pre_row (m : conv A) (x : list A) : list A :=
  let g := cg m in
  tab (conv_nout g) (fun o =>
    bsumA (gfw g * gfh g * gC g)%nat (fun k =>
      entryA (gC g) (gH g) (gW g) (gfh g) (gfw g) (pad_h g) (pad_w g) [x] (o / gF g)%nat k *
      getA (cflt m) ((o mod gF g) * (gfw g * gfh g * gC g) + k)%nat) +
    getA (coff m) (o mod gF g)%nat).

Lemma pre_batch_row (m : conv A) X r :
  geo_ok (cg m) -> r < length X -> nth r (pre_batchA m X) [] = conv_pre_row m (nth r X []).
Proof.
  intros G Hr. pose proof G as (G1 & G2 & G3 & G4 & G5). set (g := cg m) in *.
  unfold conv_pre_batch, conv_pre_row. fold g.
  set (K := kernelA (gC g) (gF g) (gH g) (gW g) (gfh g) (gfw g) (pad_h g) (pad_w g) X (cflt m)).
  assert (RK : rows (conv_nout g) K).
  { unfold K, conv_nout. rewrite <- (geo_oh g G), <- (geo_ow g G). apply kernel_rows. }
  assert (LK : length K = length X) by apply kernel_length.
  assert (LC : length (concat K) = (length X * conv_nout g)%nat) by (rewrite (concat_rows_length _ (conv_nout g) K RK), LK; reflexivity).
  apply (eq_tab A zero).
  - rewrite nth_chunk by auto. rewrite firstn_length, skipn_length, tab_length, LC.
    assert ((r * conv_nout g + conv_nout g <= length X * conv_nout g)%nat) by nia. lia.
  - intros o Ho. rewrite (get_chunk A zero) by auto.
    replace (o <? conv_nout g)%nat with true by (symmetry; apply Nat.ltb_lt; auto).
    rewrite LC. rewrite get_tab by (apply lt_prod_l; auto).
    rewrite (get_concat A zero (conv_nout g) K r o RK Ho).
    assert (EM : ((r * conv_nout g + o) mod gF g = o mod gF g)%nat).
    { unfold conv_nout. rewrite Nat.mul_assoc, Nat.add_comm, Nat.mod_add by lia. reflexivity. }
    rewrite EM. f_equal.
    (* o = p * F + f *)
    assert (Eo : o = ((o / gF g) * gF g + o mod gF g)%nat) by (rewrite (Nat.mul_comm (o / gF g)); apply Nat.div_mod; lia).
    assert (Bp : (o / gF g < out_h g * out_w g)%nat) by (apply div_lt_prod; exact Ho).
    assert (Bf : (o mod gF g < gF g)%nat) by (apply Nat.mod_upper_bound; lia).
    rewrite Eo at 1. unfold K.
    rewrite kernel_view; [|lia|rewrite (geo_oh g G), (geo_ow g G); exact Bp|exact Bf].
    apply bsum_ext. intros k _. f_equal.
    rewrite (Nat.mul_comm (gH g + 1 + pad_h g - gfh g)).
    apply entry_row. rewrite (geo_oh g G), (geo_ow g G), Nat.mul_comm. exact Bp.
Qed.

Lemma pre_batch_length (m : conv A) X : length (pre_batchA m X) = length X.
Proof. unfold conv_pre_batch. apply chunk_length. Qed.

Lemma eval_batch_row (m : conv A) X r :
  geo_ok (cg m) -> r < length X -> nth r (eval_batchA m X) [] = aphi (cact m) (conv_pre_row m (nth r X [])).
Proof.
  intros G Hr. unfold conv_eval_batch.
  rewrite (nth_indep _ [] (aphi (cact m) [])) by (rewrite map_length, pre_batch_length; auto).
  rewrite map_nth. rewrite pre_batch_row; auto.
Qed.

Theorem conv_batch_eq_single (m : conv A) X X' r r' :
  geo_ok (cg m) -> r < length X -> r' < length X' -> nth r X [] = nth r' X' [] ->
  nth r (eval_batchA m X) [] = evalA m (nth r X []) /\
  nth r (eval_batchA m X) [] = nth r' (eval_batchA m X') [].
Proof.
  intros G H1 H2 E. unfold conv_eval.
  rewrite !eval_batch_row by (auto; simpl; lia). simpl nth. rewrite E. auto.
Qed.

(* ---------------- parameter vector ---------------- *)
Theorem conv_param_roundtrip (g : cgeo) (a : act A) (theta : list A) :
  length theta = conv_nparams g ->
  conv_params (conv_set zero g a theta) = theta /\ length (conv_params (conv_set zero g a theta)) = conv_nparams g /\
  length (cflt (conv_set zero g a theta)) = (gfh g * gfw g * gF g * gC g)%nat /\ length (coff (conv_set zero g a theta)) = gF g.
Proof.
  intros L. unfold conv_params, conv_set, conv_nparams, conv_nflt in *. cbn [cflt coff].
  rewrite firstn_skipn. repeat split; auto.
  - rewrite firstn_length. lia.
  - rewrite skipn_length. lia.
Qed.

End ConvProofs.
