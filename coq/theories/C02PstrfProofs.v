(* C02 — proofs about the pivoted Cholesky model of C02PstrfModel.v (pstrf_step, pstrf_panel, pstrf_blk, pstrf), over an
   arbitrary field.  The square root is required to be exact only on the pivots the run met (the ghost list of the
   result); the threshold eps must satisfy 0 <= eps (fleb 0 eps = true). *)
From Coq Require Import List Arith Bool Lia Field Permutation.
From SharkV Require Import C02Model C02Proofs C02BlkModel C02LUProofs C02PstrfModel.
Import ListNotations.

Section PstrfProofs.
Variable A : Type.
Variable F : ops A.
Notation "0" := (fzero F) : F_scope.
Notation "1" := (fone F) : F_scope.
Infix "+" := (fadd F) : F_scope.
Infix "*" := (fmul F) : F_scope.
Infix "-" := (fsub F) : F_scope.
Infix "/" := (fdiv F) : F_scope.
Notation "- x" := (fopp F x) : F_scope.
Hypothesis Fth : field_theory (fzero F) (fone F) (fadd F) (fmul F) (fsub F) (fopp F) (fdiv F) (finv F) (@eq A).
Hypothesis feqb_spec : forall x y, feqb F x y = true <-> x = y.
Add Field FfieldPs : Fth.
Local Open Scope F_scope.
Notation mat := (mat A).
Notation vec := (vec A).
Notation sumr := (sumr A F).
Notation sumr_ext := (sumr_ext A F).
Notation sumr_split := (sumr_split A F Fth).
Notation sumr_S := (sumr_S A F).
Notation sumr_empty := (sumr_empty A F).
Notation memo_eq := (memo_eq A F).
Notation memo2_eq := (memo2_eq A F).

Variable eps : A.
Hypothesis eps_nonneg : fleb F 0 eps = true.

Definition sq_ok (piv : list A) : Prop := Forall (fun x => fsqrt F x * fsqrt F x = x) piv.

(* ---------- the pivot search ---------- *)
Lemma pmax_scan_range : forall (pv : vec) c k, (c <= pmax_scan A F pv c k <= c + k)%nat.
Proof.
  intros pv c k. induction k; cbn [pmax_scan]; [lia|].
  destruct (fltb F (pv (pmax_scan A F pv c k)) (pv (c + S k)%nat)); lia.
Qed.

Lemma tr_same : forall c i, tr c c i = i.
Proof. intros. unfold tr. destruct (Nat.eqb_spec i c); congruence. Qed.

(* identity tail of the pivot vector does not move anything *)
Lemma perm_of_id : forall P s k i, (forall t, (s <= t < s + k)%nat -> P t = t) -> perm_of P s k i = i.
Proof.
  intros P s k. induction k; intros i H; cbn [perm_of]; [reflexivity|].
  rewrite (H (s + k)%nat) by lia. rewrite tr_same. apply IHk. intros; apply H; lia.
Qed.
Lemma perm_of_id_tail : forall P c n i, (c <= n)%nat -> (forall t, (c <= t)%nat -> P t = t) -> perm_of P 0 n i = perm_of P 0 c i.
Proof.
  intros P c n i Hc H. replace n with (c + (n - c))%nat by lia. rewrite perm_of_split.
  rewrite (perm_of_id P (0 + c) (n - c) i) by (intros; apply H; lia). reflexivity.
Qed.

(* ---------- what one iteration does, pointwise ---------- *)
Lemma pstrf_step_spec : forall n k c (M : mat) (P : pvec) (pv : vec) piv pv1 p, (c < n)%nat -> P c = c ->
  pv1 = ps_pivots A F n k c M pv -> p = pmax_scan A F pv1 c (n - 1 - c) ->
  (c <= p < n)%nat /\
  exists (M1 : mat) (P1 : pvec) (pv2 : vec),
    (forall i j, M1 i j = M (tr c p i) (tr c p j)) /\
    (forall t, P1 t = if Nat.eqb t c then p else P t) /\
    (forall i, pv2 i = pv1 (tr c p i)) /\
    pstrf_step A F n k c eps M P pv piv =
      if fleb F (pv2 c) eps then PsStop A c (memo2 A F n (ps_clear A F n c M1)) P1 piv
      else PsGo A (memo2 A F n (ps_column A F n k c (fsqrt F (pv2 c)) M1)) P1 pv2 (piv ++ [pv2 c]).
Proof.
  intros n k c M P pv piv pv1 p Hc HPc Epv1 Ep.
  assert (Hp : (c <= p < n)%nat) by (pose proof (pmax_scan_range pv1 c (n - 1 - c)); rewrite <- Ep in H; lia).
  split; [exact Hp|]. unfold pstrf_step. cbv zeta. rewrite <- Epv1. rewrite <- Ep. clear Epv1 Ep.
  destruct (Nat.eqb_spec p c) as [E|E].
  - exists M, P, pv1. split; [|split; [|split]].
    + intros. rewrite E, !tr_same. reflexivity.
    + intros t. destruct (Nat.eqb_spec t c); [subst; congruence|reflexivity].
    + intros. rewrite E, tr_same. reflexivity.
    + reflexivity.
  - exists (swap_full A F n c p M), (updp P c p), (memo A F n (fun i => pv1 (tr c p i))). split; [|split; [|split]].
    + intros. unfold swap_full. rewrite memo2_eq. reflexivity.
    + intros t. unfold updp. reflexivity.
    + intros. rewrite memo_eq. reflexivity.
    + reflexivity.
Qed.

(* ---------- the loop invariant: c columns done, inside the block that starts at column k ---------- *)
Definition ps_inv (n k c : nat) (A0 M : mat) (P : pvec) (pv : vec) (piv : list A) : Prop :=
  pgood P 0 c n /\
  (forall t, (c <= t)%nat -> P t = t) /\
  (forall t i, (t < c)%nat -> (t <= i < n)%nat ->
     sumr 0 (S t) (fun u => M i u * M t u) = A0 (perm_of P 0 c i) (perm_of P 0 c t)) /\
  (forall t u, (t < c)%nat -> (t < u < n)%nat -> M t u = 0) /\
  (forall i j, (c <= i < n)%nat -> (c <= j < n)%nat ->
     M i j = A0 (perm_of P 0 c i) (perm_of P 0 c j) - sumr 0 k (fun u => M i u * M j u)) /\
  (c = k \/ ((k < c)%nat /\ forall i, (c <= i < n)%nat -> pv i = M i i - sumr k (c - 1) (fun u => M i u * M i u))) /\
  (forall t, (t < c)%nat -> M t t <> 0) /\
  length piv = c /\
  (forall t, (t < c)%nat -> M t t * M t t = nth t piv 0).

(* what pstrf promises on return with rank r *)
Definition ps_final (n r : nat) (A0 L : mat) (P : pvec) (piv : list A) : Prop :=
  (r <= n)%nat /\
  pgood P 0 n n /\
  (forall t i, (t < r)%nat -> (t <= i < n)%nat ->
     sumr 0 (S t) (fun u => L i u * L t u) = A0 (perm_of P 0 n i) (perm_of P 0 n t)) /\
  (forall t u, (t < r)%nat -> (t < u < n)%nat -> L t u = 0) /\
  (forall i j, (r <= i < n)%nat -> (r <= j < n)%nat -> L i j = 0) /\
  (forall t, (t < r)%nat -> L t t <> 0) /\
  length piv = r /\
  (forall t, (t < r)%nat -> L t t * L t t = nth t piv 0).

Lemma sq_ok_app : forall l x, sq_ok (l ++ [x]) -> sq_ok l /\ fsqrt F x * fsqrt F x = x.
Proof.
  intros l x H. unfold sq_ok in *. apply Forall_app in H. destruct H as [H1 H2]. split; [exact H1|].
  inversion H2; subst. assumption.
Qed.

Lemma ps_inv_done : forall n k A0 M P pv piv, ps_inv n k n A0 M P pv piv -> ps_final n n A0 M P piv.
Proof.
  intros n k A0 M P pv piv (G & Pid & I1 & I2 & I3 & I4 & I5 & Lp & Sp).
  split; [lia|]. split; [exact G|]. split; [exact I1|]. split; [exact I2|]. split; [intros; lia|].
  split; [exact I5|]. split; assumption.
Qed.

Lemma pstrf_step_inv : forall n k c A0 (M : mat) P pv piv, (k <= c < n)%nat -> ps_inv n k c A0 M P pv piv ->
  match pstrf_step A F n k c eps M P pv piv with
  | PsGo _ M' P' pv' piv' => sq_ok piv' -> ps_inv n k (S c) A0 M' P' pv' piv'
  | PsStop _ r M' P' piv' => r = c /\ piv' = piv /\ ps_final n c A0 M' P' piv
  end.
Proof.
  intros n k c A0 M P pv piv [Hk Hc] (G & Pid & I1 & I2 & I3 & I4 & I5 & Lp & Sp).
  set (pv1 := ps_pivots A F n k c M pv).
  set (p := pmax_scan A F pv1 c (n - 1 - c)).
  destruct (pstrf_step_spec n k c M P pv piv pv1 p Hc (Pid c (le_n c)) eq_refl eq_refl) as [Hp (M1 & P1 & pv2 & HM1 & HP1 & Hpv2e & Hstep)].
  clearbody p.
  set (tau := tr c p) in *.
  assert (Tlow : forall t, (t < c)%nat -> tau t = t) by (intros; apply tr_fix; lia).
  assert (Trng : forall i, (c <= i < n)%nat -> (c <= tau i < n)%nat) by (intros; apply tr_range; lia).
  assert (Tany : forall t i, (t < c)%nat -> (t <= i < n)%nat -> (t <= tau i < n)%nat).
  { intros t i Ht Hi. destruct (Nat.lt_ge_cases i c); [rewrite Tlow by lia; lia|]. pose proof (Trng i ltac:(lia)). lia. }
  set (sg := perm_of P 0 c) in *.
  assert (Hsg : forall i, perm_of P1 0 (S c) i = sg (tau i)).
  { intros i. cbn [perm_of]. cbn [Nat.add]. rewrite (HP1 c), Nat.eqb_refl. fold tau.
    apply perm_of_ext. intros t Ht. rewrite HP1. destruct (Nat.eqb_spec t c); [lia|reflexivity]. }
  (* pivot values after the refresh / update *)
  assert (Hpv1 : forall i, (c <= i < n)%nat -> pv1 i = M i i - sumr k c (fun u => M i u * M i u)).
  { intros i Hi. unfold pv1, ps_pivots. rewrite memo_eq. destruct (Nat.eqb_spec c k) as [E|E].
    - subst k. assert (E1 : Nat.leb c i = true) by (apply Nat.leb_le; lia).
      assert (E2 : Nat.ltb i n = true) by (apply Nat.ltb_lt; lia). rewrite E1, E2. cbn [andb].
      rewrite sumr_empty by lia. ring.
    - assert (E1 : Nat.leb c i = true) by (apply Nat.leb_le; lia).
      assert (E2 : Nat.ltb i n = true) by (apply Nat.ltb_lt; lia). rewrite E1, E2. cbn [andb].
      destruct I4 as [I4|[Hkc I4]]; [congruence|]. rewrite (I4 i Hi).
      destruct c as [|c']; [lia|]. replace (S c' - 1)%nat with c' by lia. rewrite (sumr_S k c') by lia. ring. }
  assert (Hpv2 : forall i, (c <= i < n)%nat -> pv2 i = M1 i i - sumr k c (fun u => M1 i u * M1 i u)).
  { intros i Hi. rewrite Hpv2e. fold tau. rewrite Hpv1 by (apply Trng; exact Hi). rewrite HM1. fold tau. f_equal.
    apply sumr_ext. intros u Hu. rewrite !HM1. fold tau. rewrite (Tlow u) by lia. reflexivity. }
  (* the swapped matrix *)
  assert (J1 : forall t i, (t < c)%nat -> (t <= i < n)%nat ->
     sumr 0 (S t) (fun u => M1 i u * M1 t u) = A0 (sg (tau i)) (sg (tau t))).
  { intros t i Ht Hi. rewrite (Tlow t Ht).
    rewrite (sumr_ext 0 (S t) _ (fun u => M (tau i) u * M t u)).
    2:{ intros u Hu. rewrite !HM1. fold tau. rewrite (Tlow u) by lia. rewrite (Tlow t) by lia. reflexivity. }
    apply I1; [exact Ht|]. apply Tany; assumption. }
  assert (J2 : forall t u, (t < c)%nat -> (t < u < n)%nat -> M1 t u = 0).
  { intros t u Ht Hu. rewrite HM1. fold tau. rewrite (Tlow t Ht). apply I2; [exact Ht|].
    pose proof (Tany t u Ht ltac:(lia)). destruct (Nat.lt_ge_cases u c); [rewrite Tlow by lia; lia|].
    pose proof (Trng u ltac:(lia)). lia. }
  assert (J3 : forall i j, (c <= i < n)%nat -> (c <= j < n)%nat ->
     M1 i j = A0 (sg (tau i)) (sg (tau j)) - sumr 0 k (fun u => M1 i u * M1 j u)).
  { intros i j Hi Hj. rewrite HM1. fold tau. rewrite I3 by (apply Trng; assumption). f_equal.
    apply sumr_ext. intros u Hu. rewrite !HM1. fold tau. rewrite (Tlow u) by lia. reflexivity. }
  assert (J5 : forall t, (t < c)%nat -> M1 t t = M t t).
  { intros t Ht. rewrite HM1. fold tau. rewrite (Tlow t Ht). reflexivity. }
  assert (Hx : pv2 c = A0 (sg (tau c)) (sg (tau c)) - sumr 0 c (fun u => M1 c u * M1 c u)).
  { rewrite Hpv2 by lia. rewrite (J3 c c) by lia. rewrite (sumr_split 0 k c) by lia. ring. }
  rewrite Hstep. clear Hstep.
  destruct (fleb F (pv2 c) eps) eqn:Es.
  - (* stop *)
    split; [reflexivity|]. split; [reflexivity|].
    set (Mz := memo2 A F n (ps_clear A F n c M1)).
    assert (HMz : forall i j, Mz i j = ps_clear A F n c M1 i j) by (intros; apply memo2_eq).
    clearbody Mz.
    assert (Kz : forall i j, (i < c \/ j < c)%nat -> Mz i j = M1 i j).
    { intros i j H. rewrite HMz. unfold ps_clear. bdall; try lia; reflexivity. }
    assert (HP1id : forall t, (S c <= t)%nat -> P1 t = t).
    { intros t Ht. rewrite HP1. destruct (Nat.eqb_spec t c); [lia|]. apply Pid. lia. }
    assert (Hsgn : forall i, perm_of P1 0 n i = sg (tau i)).
    { intros i. rewrite (perm_of_id_tail P1 (S c) n i) by (try lia; exact HP1id). apply Hsg. }
    split; [lia|]. split.
    { intros t Ht. rewrite HP1. destruct (Nat.eqb_spec t c); [lia|].
      destruct (Nat.lt_ge_cases t c); [pose proof (G t ltac:(lia)); lia|]. rewrite Pid by lia. lia. }
    split.
    { intros t i Ht Hi. rewrite !Hsgn.
      rewrite (sumr_ext 0 (S t) _ (fun u => M1 i u * M1 t u)) by (intros u Hu; rewrite !Kz by lia; reflexivity).
      apply J1; assumption. }
    split.
    { intros t u Ht Hu. rewrite Kz by lia. apply J2; assumption. }
    split.
    { intros i j Hi Hj. rewrite HMz. unfold ps_clear.
      assert (E1 : Nat.leb c i = true) by (apply Nat.leb_le; lia). assert (E2 : Nat.ltb i n = true) by (apply Nat.ltb_lt; lia).
      assert (E3 : Nat.leb c j = true) by (apply Nat.leb_le; lia). assert (E4 : Nat.ltb j n = true) by (apply Nat.ltb_lt; lia).
      rewrite E1, E2, E3, E4. reflexivity. }
    split.
    { intros t Ht. rewrite Kz by lia. rewrite J5 by exact Ht. apply I5. exact Ht. }
    split; [exact Lp|].
    intros t Ht. rewrite Kz by lia. rewrite J5 by exact Ht. apply Sp. exact Ht.
  - (* go on *)
    intros Hsq. apply sq_ok_app in Hsq. destruct Hsq as [_ Hd].
    set (x := pv2 c) in *. set (d := fsqrt F x) in *.
    assert (Hx0 : x <> 0) by (intros Z; rewrite Z in Es; rewrite eps_nonneg in Es; discriminate).
    assert (Hd0 : d <> 0) by (intros Z; apply Hx0; rewrite <- Hd, Z; ring).
    set (M2 := memo2 A F n (ps_column A F n k c d M1)).
    assert (HM2 : forall i j, M2 i j = ps_column A F n k c d M1 i j) by (intros; apply memo2_eq).
    clearbody M2.
    assert (Ko : forall i j, j <> c -> ~ (i = c /\ (c < j < n)%nat) -> M2 i j = M1 i j).
    { intros i j H1 H2. rewrite HM2. unfold ps_column. destruct (Nat.eqb_spec j c); [contradiction|].
      destruct (Nat.eqb_spec i c); [|reflexivity]. cbn [andb].
      destruct (Nat.ltb_spec c j); [|reflexivity]. destruct (Nat.ltb_spec j n); [|reflexivity]. exfalso. apply H2. lia. }
    assert (Kd : M2 c c = d) by (rewrite HM2; unfold ps_column; rewrite !Nat.eqb_refl; reflexivity).
    assert (Kc : forall i, (c < i < n)%nat -> M2 i c = (M1 i c - sumr k c (fun t => M1 i t * M1 c t)) / d).
    { intros i Hi. rewrite HM2. unfold ps_column. rewrite Nat.eqb_refl.
      destruct (Nat.eqb_spec i c); [lia|].
      assert (E1 : Nat.ltb c i = true) by (apply Nat.ltb_lt; lia). assert (E2 : Nat.ltb i n = true) by (apply Nat.ltb_lt; lia).
      rewrite E1, E2. cbn [andb]. destruct (Nat.eqb_spec c k) as [E|E].
      - subst k. rewrite sumr_empty by lia. field. exact Hd0.
      - field. exact Hd0. }
    assert (Kr : forall j, (c < j < n)%nat -> M2 c j = 0).
    { intros j Hj. rewrite HM2. unfold ps_column. destruct (Nat.eqb_spec j c); [lia|]. rewrite Nat.eqb_refl.
      assert (E1 : Nat.ltb c j = true) by (apply Nat.ltb_lt; lia). assert (E2 : Nat.ltb j n = true) by (apply Nat.ltb_lt; lia).
      rewrite E1, E2. reflexivity. }
    assert (Kco : forall i, (i < c \/ n <= i)%nat -> M2 i c = M1 i c).
    { intros i Hi. rewrite HM2. unfold ps_column. rewrite Nat.eqb_refl. destruct (Nat.eqb_spec i c); [lia|].
      destruct (Nat.ltb_spec c i); [|reflexivity]. destruct (Nat.ltb_spec i n); [lia|reflexivity]. }
    unfold ps_inv. fold sg.
    split.
    { intros t Ht. rewrite HP1. destruct (Nat.eqb_spec t c); [lia|]. pose proof (G t ltac:(lia)). lia. }
    split.
    { intros t Ht. rewrite HP1. destruct (Nat.eqb_spec t c); [lia|]. apply Pid. lia. }
    split.
    { intros t i Ht Hi. rewrite !Hsg. destruct (Nat.eq_dec t c) as [->|N].
      - rewrite sumr_S by lia.
        rewrite (sumr_ext 0 c _ (fun u => M1 i u * M1 c u)) by (intros u Hu; rewrite !Ko by lia; reflexivity).
        rewrite Kd. destruct (Nat.eq_dec i c) as [->|Ni].
        + rewrite Kd, Hd, Hx. ring.
        + rewrite Kc by lia. rewrite (J3 i c) by lia. rewrite (sumr_split 0 k c) by lia. field. exact Hd0.
      - rewrite (sumr_ext 0 (S t) _ (fun u => M1 i u * M1 t u)) by (intros u Hu; rewrite !Ko by lia; reflexivity).
        apply J1; lia. }
    split.
    { intros t u Ht Hu. destruct (Nat.eq_dec t c) as [->|N]; [apply Kr; lia|].
      destruct (Nat.eq_dec u c) as [->|Nu].
      - rewrite Kco by lia. apply J2; lia.
      - rewrite Ko by lia. apply J2; lia. }
    split.
    { intros i j Hi Hj. rewrite !Hsg. rewrite Ko by lia. rewrite J3 by lia. f_equal.
      apply sumr_ext. intros u Hu. rewrite !Ko by lia. reflexivity. }
    split.
    { right. split; [lia|]. intros i Hi. replace (S c - 1)%nat with c by lia. rewrite Hpv2 by lia.
      rewrite Ko by lia. f_equal. apply sumr_ext. intros u Hu. rewrite !Ko by lia. reflexivity. }
    split.
    { intros t Ht. destruct (Nat.eq_dec t c) as [->|N]; [rewrite Kd; exact Hd0|].
      rewrite Ko by lia. rewrite J5 by lia. apply I5. lia. }
    split.
    { rewrite app_length. cbn [length]. lia. }
    intros t Ht. destruct (Nat.eq_dec t c) as [->|N].
    + rewrite Kd, Hd. rewrite app_nth2 by lia. rewrite Lp, Nat.sub_diag. reflexivity.
    + rewrite Ko by lia. rewrite J5 by lia. rewrite app_nth1 by lia. apply Sp. lia.
Qed.

(* ---------- the ghost list only grows ---------- *)
Definition res_piv (r : psresult A) : list A :=
  match r with PsStop _ _ _ _ p => p | PsGo _ _ _ _ p => p end.
Lemma sq_ok_prefix : forall l l', sq_ok (l ++ l') -> sq_ok l.
Proof. intros l l' H. unfold sq_ok in *. apply Forall_app in H. tauto. Qed.
Lemma step_prefix : forall n k c M P pv piv, exists l, res_piv (pstrf_step A F n k c eps M P pv piv) = piv ++ l.
Proof.
  intros. unfold pstrf_step. match goal with |- context [if ?b then _ else _] => destruct b end; cbn [res_piv].
  - exists []. rewrite app_nil_r. reflexivity.
  - eexists. reflexivity.
Qed.
Lemma panel_prefix : forall n k j M P pv piv, exists l, res_piv (pstrf_panel A F n k eps j M P pv piv) = piv ++ l.
Proof.
  intros n k j M P pv piv. induction j; cbn [pstrf_panel].
  - exists []. rewrite app_nil_r. reflexivity.
  - destruct IHj as [l Hl]. destruct (pstrf_panel A F n k eps j M P pv piv) as [r M1 P1 piv1|M1 P1 pv1 piv1]; cbn [res_piv] in Hl.
    + exists l. exact Hl.
    + destruct (step_prefix n k (k + j) M1 P1 pv1 piv1) as [l2 Hl2]. exists (l ++ l2). rewrite Hl2, Hl, app_assoc. reflexivity.
Qed.

(* ---------- the panel loop ---------- *)
Lemma pstrf_panel_inv : forall n k A0 (M : mat) P pv piv j, (k + j <= n)%nat -> ps_inv n k k A0 M P pv piv ->
  match pstrf_panel A F n k eps j M P pv piv with
  | PsGo _ M' P' pv' piv' => sq_ok piv' -> ps_inv n k (k + j) A0 M' P' pv' piv'
  | PsStop _ r M' P' piv' => sq_ok piv' -> ps_final n r A0 M' P' piv'
  end.
Proof.
  intros n k A0 M P pv piv j. induction j; intros Hj H0.
  - cbn [pstrf_panel]. intros _. rewrite Nat.add_0_r. exact H0.
  - cbn [pstrf_panel]. specialize (IHj ltac:(lia) H0).
    destruct (pstrf_panel A F n k eps j M P pv piv) as [r M1 P1 piv1|M1 P1 pv1 piv1]; [exact IHj|].
    pose proof (fun S => pstrf_step_inv n k (k + j) A0 M1 P1 pv1 piv1 ltac:(lia) (IHj S)) as St.
    destruct (step_prefix n k (k + j) M1 P1 pv1 piv1) as [l Hl].
    destruct (pstrf_step A F n k (k + j) eps M1 P1 pv1 piv1) as [r M2 P2 piv2|M2 P2 pv2 piv2]; cbn [res_piv] in Hl; subst.
    + intros Hsq. destruct (St (sq_ok_prefix _ _ Hsq)) as [-> [E Fin]]. rewrite E. exact Fin.
    + intros Hsq. replace (k + S j)%nat with (S (k + j)) by lia. apply St; [|exact Hsq]. exact (sq_ok_prefix _ _ Hsq).
Qed.

(* ---------- the trailing update after a full block ---------- *)
Lemma ps_trailing_inv : forall n k e A0 (M : mat) P pv piv, (k <= e)%nat -> (e <= n)%nat ->
  ps_inv n k e A0 M P pv piv -> ps_inv n e e A0 (ps_trailing A F n k e M) P pv piv.
Proof.
  intros n k e A0 M P pv piv Hke Hen (G & Pid & I1 & I2 & I3 & I4 & I5 & Lp & Sp).
  set (M3 := ps_trailing A F n k e M).
  assert (H3 : forall i j, M3 i j = if Nat.leb e i && Nat.ltb i n && Nat.leb e j && Nat.ltb j n
                                     then M i j + - (1) * sumr k e (fun t => M i t * M j t) else M i j).
  { intros. unfold M3, ps_trailing. apply memo2_eq. }
  clearbody M3.
  assert (Ko : forall i j, (i < e \/ j < e)%nat -> M3 i j = M i j).
  { intros i j H. rewrite H3. bdall; try lia; reflexivity. }
  split; [exact G|]. split; [exact Pid|]. split.
  { intros t i Ht Hi. rewrite (sumr_ext 0 (S t) _ (fun u => M i u * M t u)) by (intros u Hu; rewrite !Ko by lia; reflexivity).
    apply I1; assumption. }
  split. { intros t u Ht Hu. rewrite Ko by lia. apply I2; assumption. }
  split.
  { intros i j Hi Hj. rewrite H3.
    assert (E1 : Nat.leb e i = true) by (apply Nat.leb_le; lia). assert (E2 : Nat.ltb i n = true) by (apply Nat.ltb_lt; lia).
    assert (E3 : Nat.leb e j = true) by (apply Nat.leb_le; lia). assert (E4 : Nat.ltb j n = true) by (apply Nat.ltb_lt; lia).
    rewrite E1, E2, E3, E4. cbn [andb]. rewrite I3 by assumption. rewrite (sumr_split 0 k e) by lia.
    rewrite (sumr_ext 0 k (fun u => M3 i u * M3 j u) (fun u => M i u * M j u)) by (intros u Hu; rewrite !Ko by lia; reflexivity).
    rewrite (sumr_ext k e (fun u => M3 i u * M3 j u) (fun u => M i u * M j u)) by (intros u Hu; rewrite !Ko by lia; reflexivity).
    ring. }
  split; [left; reflexivity|].
  split. { intros t Ht. rewrite Ko by lia. apply I5; assumption. }
  split; [exact Lp|]. intros t Ht. rewrite Ko by lia. apply Sp; assumption.
Qed.

Lemma ps_inv_init : forall n (A0 : mat), ps_inv n 0 0 A0 A0 (fun i => i) (fun _ => 0) [].
Proof.
  intros n A0. split; [intros t Ht; lia|]. split; [reflexivity|]. split; [intros; lia|]. split; [intros; lia|].
  split; [intros; cbn [perm_of]; rewrite sumr_empty by lia; ring|]. split; [left; reflexivity|].
  split; [intros; lia|]. split; [reflexivity|intros; lia].
Qed.

(* ---------- the blocked driver ---------- *)
Lemma nblocks_facts : forall bs n, (0 < bs)%nat ->
  let nb := ((n + bs - 1) / bs)%nat in (n <= nb * bs)%nat /\ forall b, (b < nb)%nat -> (b * bs < n)%nat.
Proof.
  intros bs n Hb nb. pose proof (Nat.div_mod_eq (n + bs - 1) bs) as E. fold nb in E.
  pose proof (Nat.mod_upper_bound (n + bs - 1) bs ltac:(lia)) as R.
  split; [nia|]. intros b Hbn. nia.
Qed.

Lemma pstrf_blk_inv : forall bs n A0 b, (0 < bs)%nat -> (b <= (n + bs - 1) / bs)%nat ->
  match pstrf_blk A F bs n eps b A0 (fun i => i) (fun _ => 0) [] with
  | PsGo _ M' P' pv' piv' => sq_ok piv' ->
      if Nat.ltb (b * bs) n then ps_inv n (b * bs) (b * bs) A0 M' P' pv' piv' else ps_final n n A0 M' P' piv'
  | PsStop _ r M' P' piv' => sq_ok piv' -> ps_final n r A0 M' P' piv'
  end.
Proof.
  intros bs n A0 b Hbs. destruct (nblocks_facts bs n Hbs) as [Nb1 Nb2].
  induction b; intros Hb.
  - cbn [pstrf_blk]. intros _. cbn [Nat.mul]. destruct (Nat.ltb_spec 0 n).
    + apply ps_inv_init.
    + assert (n = 0)%nat by lia. subst n. apply (ps_inv_done 0 0 A0 A0 (fun i => i) (fun _ => 0)). apply ps_inv_init.
  - cbn [pstrf_blk]. specialize (IHb ltac:(lia)).
    destruct (pstrf_blk A F bs n eps b A0 (fun i => i) (fun _ => 0) []) as [r M1 P1 piv1|M1 P1 pv1 piv1]; [exact IHb|].
    assert (Hbn : (b * bs < n)%nat) by (apply Nb2; lia).
    assert (El : Nat.ltb (b * bs) n = true) by (apply Nat.ltb_lt; exact Hbn). rewrite El in IHb.
    set (k := (b * bs)%nat) in *. set (cs := Nat.min (n - k) bs).
    pose proof (fun S => pstrf_panel_inv n k A0 M1 P1 pv1 piv1 cs ltac:(unfold cs; lia) (IHb S)) as Pan.
    destruct (panel_prefix n k cs M1 P1 pv1 piv1) as [l Hl].
    destruct (pstrf_panel A F n k eps cs M1 P1 pv1 piv1) as [r M2 P2 piv2|M2 P2 pv2 piv2]; cbn [res_piv] in Hl; subst piv2.
    + intros Hsq. apply Pan; [|exact Hsq]. exact (sq_ok_prefix _ _ Hsq).
    + intros Hsq. specialize (Pan (sq_ok_prefix _ _ Hsq) Hsq).
      replace (S b * bs)%nat with (k + bs)%nat by (unfold k; lia).
      destruct (Nat.ltb_spec (k + cs) n) as [Hlt|Hge].
      * assert (cs = bs) by (unfold cs in *; lia). rewrite H in *.
        assert (E2 : Nat.ltb (k + bs) n = true) by (apply Nat.ltb_lt; exact Hlt). rewrite E2.
        apply ps_trailing_inv; [lia|lia|exact Pan].
      * assert (k + cs = n)%nat by (unfold cs in *; lia). rewrite H in Pan.
        assert (E2 : Nat.ltb (k + bs) n = false) by (apply Nat.ltb_ge; unfold cs in *; lia). rewrite E2.
        eapply ps_inv_done. exact Pan.
Qed.

(* ---------- pstrf<lower>(A, P) ---------- *)
Theorem pstrf_correct : forall bs n (A0 L : mat) r P piv, (0 < bs)%nat ->
  pstrf A F bs n eps A0 = (r, L, P, piv) -> sq_ok piv -> ps_final n r A0 L P piv.
Proof.
  intros bs n A0 L r P piv Hbs H Hsq. unfold pstrf in H.
  pose proof (pstrf_blk_inv bs n A0 ((n + bs - 1) / bs) Hbs (le_n _)) as B.
  destruct (pstrf_blk A F bs n eps ((n + bs - 1) / bs) A0 (fun i => i) (fun _ => 0) []) as [r1 M1 P1 piv1|M1 P1 pv1 piv1];
    inversion H; subst; clear H.
  - apply B. exact Hsq.
  - specialize (B Hsq). destruct (nblocks_facts bs r Hbs) as [Nb1 _].
    assert (E : Nat.ltb ((r + bs - 1) / bs * bs) r = false) by (apply Nat.ltb_ge; exact Nb1). rewrite E in B. exact B.
Qed.

(* the pivot vector denotes a permutation of 0..n-1 *)
Theorem pstrf_permutation : forall n r (A0 L : mat) P piv, ps_final n r A0 L P piv ->
  Permutation (map (perm_of P 0 n) (seq 0 n)) (seq 0 n).
Proof. intros n r A0 L P piv (_ & G & _). apply perm_of_Permutation. exact G. Qed.

(* L L^T = P^T A P on  all rows x the first r columns  (lower part: row >= column), the sum taken over all r columns *)
Theorem ps_final_rows : forall n r (A0 L : mat) P piv, ps_final n r A0 L P piv ->
  forall i t, (t < r)%nat -> (t <= i < n)%nat ->
  sumr 0 r (fun u => L i u * L t u) = A0 (perm_of P 0 n i) (perm_of P 0 n t).
Proof.
  intros n r A0 L P piv (Hr & G & I1 & I2 & _) i t Ht Hi.
  rewrite (sumr_split 0 (S t) r) by lia. rewrite I1 by assumption.
  rewrite (sumr_zero A F Fth (S t) r) by (intros u Hu; rewrite (I2 t u) by lia; ring). ring.
Qed.
(* for a symmetric matrix: every entry of  rows x first r columns, in particular the whole leading r x r block *)
Theorem ps_final_rows_symm : forall n r (A0 L : mat) P piv, ps_final n r A0 L P piv ->
  (forall i j, A0 i j = A0 j i) ->
  forall i t, (t < r)%nat -> (i < n)%nat ->
  sumr 0 r (fun u => L i u * L t u) = A0 (perm_of P 0 n i) (perm_of P 0 n t).
Proof.
  intros n r A0 L P piv Fin Sy i t Ht Hi. destruct (Nat.le_gt_cases t i) as [H|H].
  - apply (ps_final_rows n r A0 L P piv Fin); lia.
  - rewrite Sy. rewrite <- (ps_final_rows n r A0 L P piv Fin t i) by (destruct Fin; lia).
    apply sumr_ext. intros; ring.
Qed.

(* ---------- the statement in explicit form ---------- *)
Theorem pstrf_spec : forall bs n (A0 L : mat) r P piv, (0 < bs)%nat ->
  pstrf A F bs n eps A0 = (r, L, P, piv) -> sq_ok piv ->
  (r <= n)%nat /\
  (forall t, (t < n)%nat -> (t <= P t < n)%nat) /\
  Permutation (map (perm_of P 0 n) (seq 0 n)) (seq 0 n) /\
  (forall i t, (t < r)%nat -> (t <= i < n)%nat ->
     sumr 0 r (fun u => L i u * L t u) = A0 (perm_of P 0 n i) (perm_of P 0 n t)) /\
  (forall t u, (t < r)%nat -> (t < u < n)%nat -> L t u = 0) /\
  (forall i j, (r <= i < n)%nat -> (r <= j < n)%nat -> L i j = 0) /\
  (forall t, (t < r)%nat -> L t t <> 0) /\
  length piv = r /\
  (forall t, (t < r)%nat -> L t t * L t t = nth t piv 0 /\ fleb F (nth t piv 0) eps = false).
Proof.
  intros bs n A0 L r P piv Hbs H Hsq.
  pose proof (pstrf_correct bs n A0 L r P piv Hbs H Hsq) as Fin.
  pose proof (pstrf_permutation n r A0 L P piv Fin) as Pm.
  pose proof (ps_final_rows n r A0 L P piv Fin) as Rw.
  destruct Fin as (Hr & G & I1 & I2 & I3 & I5 & Lp & Sp).
  split; [exact Hr|]. split; [intros t Ht; apply G; lia|]. split; [exact Pm|]. split; [intros; apply Rw; assumption|].
  split; [exact I2|]. split; [exact I3|]. split; [exact I5|]. split; [exact Lp|].
  intros t Ht. split; [apply Sp; exact Ht|].
  (* every recorded pivot passed the test "pivot <= eps" negatively *)
  clear - H Ht Lp. unfold pstrf in H.
  assert (Hall : forall b M0 P0 pv0 piv0, Forall (fun x => fleb F x eps = false) piv0 ->
            Forall (fun x => fleb F x eps = false) (res_piv (pstrf_blk A F bs n eps b M0 P0 pv0 piv0))).
  { assert (Hstep : forall k c M0 P0 pv0 piv0, Forall (fun x => fleb F x eps = false) piv0 ->
              Forall (fun x => fleb F x eps = false) (res_piv (pstrf_step A F n k c eps M0 P0 pv0 piv0))).
    { intros. unfold pstrf_step. match goal with |- context [if fleb F ?a eps then _ else _] => destruct (fleb F a eps) eqn:Ea end; cbn [res_piv].
      - assumption.
      - apply Forall_app. split; [assumption|]. constructor; [exact Ea|constructor]. }
    assert (Hpan : forall k j M0 P0 pv0 piv0, Forall (fun x => fleb F x eps = false) piv0 ->
              Forall (fun x => fleb F x eps = false) (res_piv (pstrf_panel A F n k eps j M0 P0 pv0 piv0))).
    { intros k j. induction j; intros; cbn [pstrf_panel]; [assumption|].
      specialize (IHj M0 P0 pv0 piv0 H0). destruct (pstrf_panel A F n k eps j M0 P0 pv0 piv0); cbn [res_piv] in *; [assumption|].
      apply Hstep. assumption. }
    intros b. induction b; intros; cbn [pstrf_blk]; [assumption|].
    specialize (IHb M0 P0 pv0 piv0 H0). destruct (pstrf_blk A F bs n eps b M0 P0 pv0 piv0); cbn [res_piv] in *; [assumption|].
    specialize (Hpan (b * bs)%nat (Nat.min (n - b * bs) bs) M P1 pv piv1 IHb).
    destruct (pstrf_panel A F n (b * bs) eps (Nat.min (n - b * bs) bs) M P1 pv piv1); cbn [res_piv] in *; assumption. }
  specialize (Hall ((n + bs - 1) / bs)%nat A0 (fun i => i) (fun _ => 0) [] (Forall_nil _)).
  destruct (pstrf_blk A F bs n eps ((n + bs - 1) / bs) A0 (fun i => i) (fun _ => 0) []); inversion H; subst; cbn [res_piv] in Hall;
    (rewrite Forall_forall in Hall; apply Hall; apply nth_In; lia).
Qed.

Theorem pstrf_spec_symm : forall bs n (A0 L : mat) r P piv, (0 < bs)%nat ->
  pstrf A F bs n eps A0 = (r, L, P, piv) -> sq_ok piv -> (forall i j, A0 i j = A0 j i) ->
  forall i t, (i < n)%nat -> (t < r)%nat ->
  sumr 0 r (fun u => L i u * L t u) = A0 (perm_of P 0 n i) (perm_of P 0 n t).
Proof.
  intros bs n A0 L r P piv Hbs H Hsq Sy i t Hi Ht.
  exact (ps_final_rows_symm n r A0 L P piv (pstrf_correct bs n A0 L r P piv Hbs H Hsq) Sy i t Ht Hi).
Qed.

End PstrfProofs.
