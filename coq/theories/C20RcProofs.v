(* C20 — shared_copy_safe: proofs about the reference-count machine of C20RcModel.v *)
From Coq Require Import List Arith Bool PeanoNat Lia.
From SharkV Require Import C20RcModel.
Import ListNotations.

(* ---------------------------------------------------------------- list facts *)

Lemma live_to_app b l1 l2 : live_to b (l1 ++ l2) = live_to b l1 + live_to b l2.
Proof. unfold live_to. rewrite filter_app, app_length. reflexivity. Qed.

Lemma about_to_free_app b l1 l2 : about_to_free b (l1 ++ l2) = about_to_free b l1 + about_to_free b l2.
Proof. unfold about_to_free. rewrite filter_app, app_length. reflexivity. Qed.

Lemma pending_on_app b l1 l2 : pending_on b (l1 ++ l2) = pending_on b l1 + pending_on b l2.
Proof. unfold pending_on. rewrite filter_app, app_length. reflexivity. Qed.

Lemma live_to_cons b q l : live_to b (q :: l) = (if p_blk q =? b then 1 else 0) + live_to b l.
Proof. unfold live_to. simpl. destruct (p_blk q =? b); reflexivity. Qed.

Lemma find_remove p l q : find_ptr p l = Some q ->
  In q l /\ forall b, live_to b l = (if p_blk q =? b then 1 else 0) + live_to b (remove_ptr p l).
Proof.
  induction l as [|x l IH]; simpl; [discriminate|].
  destruct (p_id x =? p) eqn:E.
  - intros [= ->]. split; [auto|]. intros b. apply live_to_cons.
  - intros F. destruct (IH F) as [I H]. split; [auto|]. intros b.
    rewrite !live_to_cons, (H b). lia.
Qed.

Lemma remove_ptr_incl p l : incl (remove_ptr p l) l.
Proof.
  induction l as [|x l IH]; simpl; [apply incl_refl|].
  destruct (p_id x =? p).
  - apply incl_tl, incl_refl.
  - intros y [->|I]; [left; auto|right; apply IH; auto].
Qed.

Lemma about_to_free_cons b q l :
  about_to_free b (q :: l) = (if (pd_blk q =? b) && (pd_old q =? 1) then 1 else 0) + about_to_free b l.
Proof. unfold about_to_free. simpl. destruct ((pd_blk q =? b) && (pd_old q =? 1)); reflexivity. Qed.

Lemma pending_on_cons b q l : pending_on b (q :: l) = (if pd_blk q =? b then 1 else 0) + pending_on b l.
Proof. unfold pending_on. simpl. destruct (pd_blk q =? b); reflexivity. Qed.

Lemma take_pend_spec t l q r : take_pend t l = Some (q, r) ->
  forall b, about_to_free b l = (if (pd_blk q =? b) && (pd_old q =? 1) then 1 else 0) + about_to_free b r.
Proof.
  revert q r. induction l as [|x l IH]; simpl; [discriminate|]. intros q r.
  destruct (pd_thr x =? t).
  - intros [= -> ->]. intros b. apply about_to_free_cons.
  - destruct (take_pend t l) as [[y r']|] eqn:E; [|discriminate]. intros [= -> <-]. intros b.
    rewrite !about_to_free_cons, (IH _ _ eq_refl b). lia.
Qed.

Lemma about_to_free_le_pending b l : about_to_free b l <= pending_on b l.
Proof.
  induction l as [|x l IH]; [auto|]. rewrite about_to_free_cons, pending_on_cons.
  destruct (pd_blk x =? b); simpl; [destruct (pd_old x =? 1)|]; lia.
Qed.

(* ---------------------------------------------------------------- the invariant *)

Definition rc_inv (B : nat) (s : rcstate) : Prop :=
  Forall (fun q => p_blk q < B) (rc_live s) /\
  forall b, rc_count s b = live_to b (rc_live s) /\
            rc_freed s b + about_to_free b (rc_pend s) = (if (b <? B) && (rc_count s b =? 0) then 1 else 0).

Lemma live_to_init B b : live_to b (map (fun b => RcPtr b b) (seq 0 B)) = if b <? B then 1 else 0.
Proof.
  assert (G : forall a n, live_to b (map (fun b => RcPtr b b) (seq a n)) = if (a <=? b) && (b <? a + n) then 1 else 0).
  { intros a n. revert a. induction n as [|n IH]; intros a; simpl.
    - destruct (a <=? b) eqn:E1, (b <? a + 0) eqn:E2; simpl; auto.
      apply Nat.leb_le in E1. apply Nat.ltb_lt in E2. lia.
    - rewrite live_to_cons, IH. simpl p_blk.
      destruct (a =? b) eqn:E1, (S a <=? b) eqn:E2, (b <? S a + n) eqn:E3, (a <=? b) eqn:E4, (b <? a + S n) eqn:E5; simpl; auto;
      repeat match goal with
      | H : (_ =? _) = true |- _ => apply Nat.eqb_eq in H
      | H : (_ =? _) = false |- _ => apply Nat.eqb_neq in H
      | H : (_ <=? _) = true |- _ => apply Nat.leb_le in H
      | H : (_ <=? _) = false |- _ => apply Nat.leb_gt in H
      | H : (_ <? _) = true |- _ => apply Nat.ltb_lt in H
      | H : (_ <? _) = false |- _ => apply Nat.ltb_ge in H
      end; lia. }
  rewrite G. simpl. reflexivity.
Qed.

Lemma rc_inv_init B : rc_inv B (rc_init B).
Proof.
  split.
  - simpl. apply Forall_forall. intros q I. apply in_map_iff in I. destruct I as (b & <- & I).
    apply in_seq in I. simpl. lia.
  - intros b. simpl. rewrite live_to_init. split; [reflexivity|].
    destruct (b <? B); simpl; reflexivity.
Qed.

Ltac beq :=
  repeat match goal with
  | H : (_ =? _) = true |- _ => apply Nat.eqb_eq in H
  | H : (_ =? _) = false |- _ => apply Nat.eqb_neq in H
  | H : (_ <? _) = true |- _ => apply Nat.ltb_lt in H
  | H : (_ <? _) = false |- _ => apply Nat.ltb_ge in H
  end.

Lemma rc_inv_step B s a s' : rc_inv B s -> rc_step s a = Some s' -> rc_inv B s'.
Proof.
  intros [F I] S. destruct a as [t p|t p|t]; simpl in S.
  - (* copy *)
    destruct (find_ptr p (rc_live s)) as [q|] eqn:Fp; [|discriminate]. injection S as <-.
    destruct (find_remove _ _ _ Fp) as [In_q Hq].
    assert (Lq : p_blk q < B) by (rewrite Forall_forall in F; apply F; auto).
    split; simpl.
    + apply Forall_app. split; auto.
    + intros b. destruct (I b) as [C Fr]. unfold upd. rewrite live_to_app, live_to_cons. simpl p_blk.
      change (live_to b []) with 0. rewrite (Nat.eqb_sym b).
      destruct (p_blk q =? b) eqn:E.
      * beq. subst b. split; [lia|].
        pose proof (Hq (p_blk q)) as H1. rewrite Nat.eqb_refl in H1.
        replace (rc_count s (p_blk q) + 1 =? 0) with false by (symmetry; apply Nat.eqb_neq; lia).
        replace (rc_count s (p_blk q) =? 0) with false in Fr by (symmetry; apply Nat.eqb_neq; lia).
        rewrite andb_false_r in *. auto.
      * split; [lia|auto].
  - (* decrement *)
    destruct (find_ptr p (rc_live s)) as [q|] eqn:Fp; [|discriminate]. injection S as <-.
    destruct (find_remove _ _ _ Fp) as [In_q Hq].
    assert (Lq : p_blk q < B) by (rewrite Forall_forall in F; apply F; auto).
    split; simpl.
    + rewrite Forall_forall in *. intros x Ix. apply F. apply (remove_ptr_incl p); auto.
    + intros b. destruct (I b) as [C Fr]. unfold upd. rewrite about_to_free_app, about_to_free_cons. simpl pd_blk; simpl pd_old.
      change (about_to_free b []) with 0. rewrite (Nat.eqb_sym b). specialize (Hq b).
      destruct (p_blk q =? b) eqn:E.
      * beq. subst b. split; [lia|].
        assert (Lb : (p_blk q <? B) = true) by (apply Nat.ltb_lt; auto). rewrite Lb in *. simpl andb in *.
        destruct (rc_count s (p_blk q) =? 1) eqn:E1; beq.
        -- rewrite E1 in *. simpl. simpl in Fr. lia.
        -- replace (rc_count s (p_blk q) =? 0) with false in Fr by (symmetry; apply Nat.eqb_neq; lia).
           replace (rc_count s (p_blk q) - 1 =? 0) with false by (symmetry; apply Nat.eqb_neq; lia).
           lia.
      * simpl. split; [lia|]. lia.
  - (* free check *)
    destruct (take_pend t (rc_pend s)) as [[q rest]|] eqn:Tp; [|discriminate]. injection S as <-.
    pose proof (take_pend_spec _ _ _ _ Tp) as Hp.
    split; simpl; auto.
    intros b. destruct (I b) as [C Fr]. split; auto. specialize (Hp b). rewrite Hp in Fr.
    destruct (pd_old q =? 1) eqn:E1.
    + unfold upd. rewrite (Nat.eqb_sym b). destruct (pd_blk q =? b) eqn:E2; simpl in *.
      * beq. subst b. lia.
      * lia.
    + rewrite andb_false_r in Fr. simpl in Fr. auto.
Qed.

Lemma rc_inv_run B acts : forall s s', rc_inv B s -> rc_run s acts = Some s' -> rc_inv B s'.
Proof.
  induction acts as [|a r IH]; intros s s' Iv R; simpl in R.
  - injection R as <-. auto.
  - destruct (rc_step s a) as [s1|] eqn:S; [|discriminate]. eapply IH; [|exact R]. eapply rc_inv_step; eauto.
Qed.

(* ---------------------------------------------------------------- the theorem *)

Theorem rc_safe_lemma : forall B acts s, rc_run (rc_init B) acts = Some s ->
  forall b,
    (* the counter is the number of instances that exist *)
    rc_count s b = live_to b (rc_live s) /\
    (* never freed twice *)
    rc_freed s b <= 1 /\
    (* not freed, and nobody is about to free it, while an instance exists: no use after free *)
    (1 <= live_to b (rc_live s) -> rc_freed s b = 0 /\ about_to_free b (rc_pend s) = 0) /\
    (* once the last instance is gone and every started destruction has finished: freed exactly once *)
    (b < B -> live_to b (rc_live s) = 0 -> pending_on b (rc_pend s) = 0 -> rc_freed s b = 1) /\
    (* and in between exactly one thread is in charge of freeing it *)
    (b < B -> live_to b (rc_live s) = 0 -> rc_freed s b + about_to_free b (rc_pend s) = 1) /\
    (B <= b -> rc_freed s b = 0).
Proof.
  intros B acts s R b. destruct (rc_inv_run B acts _ _ (rc_inv_init B) R) as [F I].
  destruct (I b) as [C Fr]. split; [auto|].
  pose proof (about_to_free_le_pending b (rc_pend s)) as Le.
  destruct (b <? B) eqn:Lb; beq; simpl in Fr.
  - destruct (rc_count s b =? 0) eqn:Z; beq; repeat split; intros; try lia.
  - repeat split; intros; try lia.
Qed.

(* every trace can be extended to a quiescent state by finishing what was started: the free is never lost *)
Lemma rc_run_app s a1 a2 s1 : rc_run s a1 = Some s1 -> rc_run s (a1 ++ a2) = rc_run s1 a2.
Proof.
  revert s. induction a1 as [|a r IH]; intros s; simpl.
  - intros [= ->]. reflexivity.
  - destruct (rc_step s a); [apply IH|discriminate].
Qed.

(* ---------------------------------------------------------------- dataset level *)

Lemma d_step_is_trace s o s' : d_step s o = Some s' -> exists acts, rc_run (ds_rc s) acts = Some (ds_rc s').
Proof.
  unfold d_step. destruct (dop_acts s o) as [[acts hs]|]; [|discriminate].
  destruct (rc_run (ds_rc s) acts) as [r|] eqn:R; [|discriminate]. intros [= <-]. exists acts. exact R.
Qed.

Lemma d_run_is_trace ops : forall s s', d_run s ops = Some s' -> exists acts, rc_run (ds_rc s) acts = Some (ds_rc s').
Proof.
  induction ops as [|o r IH]; intros s s' R; simpl in R.
  - injection R as <-. exists []. reflexivity.
  - destruct (d_step s o) as [s1|] eqn:S; [|discriminate].
    destruct (d_step_is_trace _ _ _ S) as [a1 R1]. destruct (IH _ _ R) as [a2 R2].
    exists (a1 ++ a2). rewrite (rc_run_app _ _ _ _ R1). exact R2.
Qed.

Lemma d_run_from_init_is_trace B ops s : d_run (d_init B) ops = Some s ->
  exists acts, rc_run (rc_init B) acts = Some (ds_rc s).
Proof. intros R. exact (d_run_is_trace ops _ _ R). Qed.

Example rc_example_two_threads :
  (* thread 1 and thread 2 copy the 2-batch dataset, thread 1 drops its copy, the owner drops the original
     while thread 2 is half way through dropping its copy *)
  exists s, rc_run (rc_init 2) [ACopy 1 0; ACopy 2 0; ACopy 1 1; ACopy 2 1; ADec 1 2; ADec 0 0; ADec 2 3; AFin 2; AFin 1; AFin 0]
            = Some s /\ rc_count s 0 = 0 /\ rc_freed s 0 = 1 /\ rc_count s 1 = 3 /\ rc_freed s 1 = 0.
Proof. eexists. split; [vm_compute; reflexivity|]. vm_compute. auto. Qed.
