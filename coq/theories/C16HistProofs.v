(* C16 — every history of solver operations on the state model: updateSMO on working sets inside the active set,
   shrink with any epsilon, unshrink, addDeltaLinear (bias solver), in any order, for both classes, with and
   without shrinking: the full invariant is kept; for QpMcBoxDecomp the dual objective never decreases over a
   history without addDeltaLinear. *)
From Coq Require Import QArith Qminmax Lqa Arith Bool List Lia.
From SharkV Require Import C08Model C08Defs C08Aux C08Proofs C16Model C16State C16Proofs C16ProofsMc C16StateDefs
  C16GradProofs C16SmoProofs C16SmoSimplexProofs C16TablesProofs C16DeactProofs C16UnshrinkProofs C16ShrinkProofs
  C16SimplexShrinkProofs.
Import ListNotations.
Open Scope Q_scope.

Section Hist.
Variable P ncl n : nat.
Variable C : Q.
Variable Mrow : nat -> list (nat * Q).
Variable Mdef : nat -> Q.
Variable K0 : nat -> nat -> Q.
Hypothesis HM : Mwf P Mrow.
Hypothesis HMs : Msym P ncl Mrow Mdef.
Hypothesis HKs : K0sym K0.
Hypothesis HD : Qdiag_nonneg P ncl Mrow Mdef K0.
Hypothesis HC : 0 < C.
Variable y0 : nat -> nat.

Notation Inv_tab := (Inv_tab P n).
Notation nv := (nv P n).
Notation mobj := (mobj P ncl n Mrow Mdef K0).
Notation Inv_all := (Inv_all P ncl n C Mrow Mdef K0 y0).
Notation mstepQ := (mstepQ P ncl n C Mrow Mdef K0).
Notation mrunQ := (mrunQ P ncl n C Mrow Mdef K0).

(* the linear term is changed by addDeltaLinear: the invariant holds for SOME linear term by data-set index *)
Definition Inv_hist (simplex : bool) (s : qmst) : Prop := exists lin0, Inv_all lin0 simplex s.

Definition wf_mop (s : qmst) (o : mop Q) : Prop :=
  match o with MSmo v w => (v < actvar s)%nat /\ (w < actvar s)%nat | _ => True end.
Fixpoint wf_mrun (simplex shrinking : bool) (s : qmst) (ops : list (mop Q)) : Prop :=
  match ops with
  | [] => True
  | o :: t => wf_mop s o /\ wf_mrun simplex shrinking (mstepQ simplex shrinking s o) t
  end.
Definition no_addlin (o : mop Q) : Prop := match o with MAddLin _ => False | _ => True end.

Lemma add_delta_linear_all lin0 b (s : qmst) d : Inv_all lin0 b s ->
  Inv_all (fun i p => lin0 i p + d i p) b (add_delta_linearQ P n s d).
Proof.
  intros (I & [D1 D2] & G & Cn).
  unfold add_delta_linearQ, add_delta_linear, nvar. fold nv.
  split; [destruct I as [H1 H2 H3 H4 H5 H6 H7 H8 H9 H10]; constructor; cbn; assumption|].
  split; [split; cbn [ey eorig ediag mlin vex vp vdiag]|split].
  - exact D1.
  - intros v Hv. destruct (D2 v Hv) as [A B]. destruct (Nat.ltb_spec v nv); [|lia].
    cbn [o_add qops]. split; [rewrite A; reflexivity | exact B].
  - intros f Hf. cbn [actvar] in Hf. cbn [mgrad mlin].
    assert (Hfn : (f < nv)%nat) by (pose proof (it_av _ _ _ I); lia).
    destruct (Nat.ltb_spec f nv); [|lia]. cbn [o_add qops].
    rewrite (G f Hf). unfold Qalpha. cbn [malpha]. unfold Qe. cbn [ey vex vp eorig]. ring.
  - destruct b; exact Cn.
Qed.

Lemma mstep_hist b shrinking (s : qmst) o : Inv_hist b s -> wf_mop s o -> Inv_hist b (mstepQ b shrinking s o).
Proof.
  intros [lin0 IA] W. destruct o as [v w|eps| |d]; unfold mstepQ, mstep.
  - destruct W as [Hv Hw]. exists lin0. destruct IA as (I & D & G & Cn). destruct b.
    + destruct (simplex_smo_preserves P ncl n C Mrow Mdef K0 HM HMs HKs HD HC y0 lin0 s v w I D G Cn Hv Hw)
        as (A1 & A2 & A3 & A4 & _). split; [exact A1|]. split; [exact A2|]. split; [exact A3 | exact A4].
    + destruct (box_smo_preserves P ncl n C Mrow Mdef K0 HM HMs HKs HD (Qlt_le_weak _ _ HC) y0 lin0 s v w I D G Cn Hv Hw)
        as (A1 & A2 & A3 & A4 & _). split; [exact A1|]. split; [exact A2|]. split; [exact A3 | exact A4].
  - exists lin0. destruct b.
    + apply (simplex_shrink_all P ncl n C Mrow Mdef K0 HM y0 lin0 shrinking eps s IA).
    + apply (box_shrink_all P ncl n C Mrow Mdef K0 HM y0 lin0 shrinking eps s IA).
  - exists lin0. apply (unshrink_all P ncl n C Mrow Mdef K0 HM y0 lin0 b s IA).
  - exists (fun i p => lin0 i p + d i p). apply add_delta_linear_all. exact IA.
Qed.

(* FULL statement, invariants: both classes, with and without shrinking, every history *)
Theorem mrun_hist b shrinking : forall ops (s : qmst), Inv_hist b s -> wf_mrun b shrinking s ops ->
  Inv_hist b (mrunQ b shrinking s ops).
Proof.
  induction ops as [|o t IH]; intros s IH0 W; [exact IH0|].
  destruct W as [W1 W2]. unfold mrunQ, mrun. cbn [fold_left].
  apply (IH (mstepQ b shrinking s o)); [apply mstep_hist; assumption | exact W2].
Qed.

(* objective of the box class: every operation except addDeltaLinear keeps or increases it *)
Lemma mstep_obj_box shrinking (s : qmst) o : Inv_hist false s -> wf_mop s o -> no_addlin o ->
  mobj s <= mobj (mstepQ false shrinking s o).
Proof.
  intros [lin0 IA] W NA. destruct o as [v w|eps| |d]; unfold mstepQ, mstep.
  - destruct W as [Hv Hw]. destruct IA as (I & D & G & Cn).
    destruct (box_smo_preserves P ncl n C Mrow Mdef K0 HM HMs HKs HD (Qlt_le_weak _ _ HC) y0 lin0 s v w I D G Cn Hv Hw)
      as (_ & _ & _ & _ & A5 & _). exact A5.
  - destruct (box_shrink_all P ncl n C Mrow Mdef K0 HM y0 lin0 shrinking eps s IA) as (_ & _ & A3).
    unfold box_shrinkQ in A3. rewrite A3. apply Qle_refl.
  - destruct (unshrink_all P ncl n C Mrow Mdef K0 HM y0 lin0 false s IA) as (_ & _ & _ & A4).
    unfold unshrinkQ in A4. rewrite A4. apply Qle_refl.
  - destruct NA.
Qed.

Theorem mrun_obj_box shrinking : forall ops (s : qmst), Inv_hist false s -> wf_mrun false shrinking s ops ->
  Forall no_addlin ops -> mobj s <= mobj (mrunQ false shrinking s ops).
Proof.
  induction ops as [|o t IH]; intros s IH0 W NA; [apply Qle_refl|].
  destruct W as [W1 W2]. inversion NA as [|? ? N1 N2]; subst. unfold mrunQ, mrun. cbn [fold_left].
  apply Qle_trans with (mobj (mstepQ false shrinking s o)).
  - apply mstep_obj_box; assumption.
  - apply (IH (mstepQ false shrinking s o)); [apply mstep_hist; assumption | exact W2 | exact N2].
Qed.

End Hist.
