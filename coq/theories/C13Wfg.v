(* C13 — HypervolumeCalculatorMDWFG.h as coded: executable model (definitions only).

   operator():  empty set -> 0; copy, std::sort by the first objective (descending), wfg(set, ref)
   wfg:         n = 0 -> 0;  n = 1 -> boxVolume;  n = 2 -> v1 + v2 - boxVolume(max(p0,p1));
                otherwise  sum_i ( boxVolume(p_i) - wfg(limitSet(points[i+1..], p_i)) )
   limitSet:    every point := max(point, p) component-wise; nonDominatedSort; the points of rank 1
                are kept (swap-with-last compaction); std::sort by the first objective (descending)
   boxVolume:   volume = 1; volume *= ref(i) - p(i)

   The compaction order and the order std::sort leaves equal keys in are not observable in the
   result; they are modelled by the parameter [arr] ("some arrangement of the kept points"): the
   theorems quantify over every [arr] that returns a permutation of its argument, the extracted
   instance is the stable insertion sort [sort_desc].  The recursion is structurally on [fuel];
   the entry point supplies the number of points (each recursive call works on a limit set of a
   proper suffix, hence on fewer points). *)
From Coq Require Import List ZArith Lia Bool Arith.
From SharkV Require Import ListAux C13Model.
Import ListNotations.
Local Open Scope Z_scope.

(* max(p, q) of two vectors *)
Fixpoint pmax (p q : point) : point :=
  match p, q with
  | x :: p', y :: q' => Z.max x y :: pmax p' q'
  | _, _ => []
  end.

Definition box_vol (ref p : point) : Z :=
  fold_left (fun v rp => v * (fst rp - snd rp)) (combine ref p) 1.

(* the points whose rank (nonDominatedSort) is 1, in the order of the list *)
Definition nd_front (L : list point) : list point :=
  map fst (filter (fun qr => Nat.eqb (snd qr) 1) (combine L (rank_list L))).

Section Wfg.
Variable arr : list point -> list point.

Definition limit_set (S : list point) (p : point) : list point :=
  arr (nd_front (map (fun q => pmax q p) S)).

(* the loop  for i: volume += boxVolume(points[i]) - wfg(limitSet(points[i+1..], points[i])) *)
Fixpoint wfg_loop (rec : list point -> Z) (ref : point) (pts : list point) (vol : Z) : Z :=
  match pts with
  | [] => vol
  | p :: rest => wfg_loop rec ref rest (vol + (box_vol ref p - rec (limit_set rest p)))
  end.

Fixpoint wfg_fuel (fuel : nat) (ref : point) (pts : list point) : Z :=
  match fuel with
  | O => 0
  | Datatypes.S f =>
    match pts with
    | [] => 0
    | [p] => box_vol ref p
    | [p; q] => box_vol ref p + box_vol ref q - box_vol ref (pmax p q)
    | _ => wfg_loop (wfg_fuel f ref) ref pts 0
    end
  end.

Definition wfg_top (ref : point) (pts : list point) : Z :=
  match pts with
  | [] => 0
  | _ => let s := arr pts in wfg_fuel (length s) ref s
  end.
End Wfg.

(* the extracted arrangement: stable insertion sort, first objective descending
   (comparator x.front() > y.front()) *)
Definition head0 (p : point) : Z := match p with x :: _ => x | [] => 0 end.
Fixpoint insert_desc (p : point) (l : list point) : list point :=
  match l with
  | [] => [p]
  | q :: t => if head0 q <=? head0 p then p :: l else q :: insert_desc p t
  end.
Definition sort_desc (l : list point) : list point := fold_right insert_desc [] l.

Definition wfg (ref : point) (pts : list point) : Z := wfg_top sort_desc ref pts.
(* limit set of the extracted instance (compared with the C++ limitSet as a multiset) *)
Definition wfg_limit (S : list point) (p : point) : list point := limit_set sort_desc S p.
