(* C16 — the decomposition loop QpSolver::solve on QpMcBoxDecomp (model C16Select.mc_solve_steps: select, accuracy test
   with unshrink + checkKKT + shrink + re-selection, updateSMO, the shrink counter), for every amount of fuel
   (= stop.maxIterations; the run with less fuel is the prefix of the run with more, so this covers every state the loop
   visits): the invariant holds, the dual objective never decreases, every selected working set is inside the active
   set, and on the exit "accuracy reached" all variables are active and the KKT violation over ALL variables is < eps. *)
From Coq Require Import QArith Qminmax Lqa Arith Bool List Lia.
From SharkV Require Import C08Model C08Defs C08Aux C08Proofs C16Model C16State C16Proofs C16ProofsMc C16StateDefs
  C16GradProofs C16SmoProofs C16SmoSimplexProofs C16TablesProofs C16DeactProofs C16UnshrinkProofs C16ShrinkProofs
  C16SimplexShrinkProofs C16HistProofs C16ProofsGain C16Select C16SelectProofs.
Import ListNotations.
Open Scope Q_scope.

Section SolveBox.
Variable P ncl n : nat.
Variable C : Q.
Variable Mrow : nat -> list (nat * Q).
Variable Mdef : nat -> Q.
Variable K0 : nat -> nat -> Q.
Hypothesis HM : Mwf P Mrow.
Hypothesis HMs : Msym P ncl Mrow Mdef.
Hypothesis HKs : K0sym K0.
Hypothesis HD : Qdiag_nonneg P ncl Mrow Mdef K0.
Hypothesis HC : 0 < C.
Variable y0 : nat -> nat.

Notation Inv_tab := (Inv_tab P n).
Notation nv := (nv P n).
Notation mobj := (mobj P ncl n Mrow Mdef K0).
Notation Inv_hist := (Inv_hist P ncl n C Mrow Mdef K0 y0).
Notation mstepQ := (mstepQ P ncl n C Mrow Mdef K0).
Notation unshrinkQ := (unshrinkQ P ncl n Mrow Mdef K0).
Notation box_shrinkQ := (box_shrinkQ P ncl n C Mrow Mdef K0).
Notation box_selectQ := (box_select qops qmicro P ncl C Mrow Mdef K0).
Notation solveQ := (mc_solve_steps qops qlowest qtiny qmicro P ncl n C Mrow Mdef K0).

(* some active variable can move: exactly the variables with a positive violation *)
Definition HasMover (s : qmst) : Prop := exists v, (v < actvar s)%nat /\ box_can_move qops C s v = true.

Lemma can_move_iff (s : qmst) v : box_can_move qops C s v = true <->
  (0 < malpha s v /\ mgrad s v < 0) \/ (malpha s v < C /\ 0 < mgrad s v).
Proof.
  unfold box_can_move. cbn [o_ltb o_zero qops]. rewrite orb_true_iff, !andb_true_iff, !qltb_true. tauto.
Qed.

Lemma kkt_mover (s : qmst) m eps : 0 < eps -> ~ box_kkt qops C s m < eps ->
  exists v, (v < m)%nat /\ box_can_move qops C s v = true.
Proof.
  intros He Hk. destruct (box_kkt_spec C s m) as (N & U & At). cbv zeta in *.
  destruct At as [Z|(a & Ha & [[B1 B2]|[B1 B2]])]; [exfalso; apply Hk; lra | |]; exists a; (split; [exact Ha|]);
    apply can_move_iff; [right | left]; split; try assumption.
  - assert (eps <= box_kkt qops C s m) by (apply Qnot_lt_le; exact Hk). lra.
  - assert (eps <= box_kkt qops C s m) by (apply Qnot_lt_le; exact Hk). lra.
Qed.

Lemma mover_viol (s : qmst) i0 : HasMover s -> 0 < fst (bsel_first qops C s (actvar s) i0).
Proof.
  intros (v & Hv & Mv). destruct (bsel_first_spec C s i0 (actvar s)) as (N & U & _). cbv zeta in *.
  destruct (U v Hv) as [U1 U2]. apply can_move_iff in Mv. destruct Mv as [[M1 M2]|[M1 M2]]; [specialize (U2 M1) | specialize (U1 M1)]; lra.
Qed.

Lemma shrink_not_move (s : qmst) a : box_can_shrink qops C s a = true -> box_can_move qops C s a = false.
Proof.
  intros H. destruct (box_can_shrink_sound C s a H) as [[[A1 A2]|[A1 A2]] _];
    destruct (box_can_move qops C s a) eqn:E; try reflexivity; apply can_move_iff in E; destruct E as [[E1 E2]|[E1 E2]]; lra.
Qed.

Lemma mover_deact_var (s : qmst) a : (a < actvar s)%nat -> box_can_shrink qops C s a = true -> HasMover s -> HasMover (deact_var s a).
Proof.
  intros Ha Sh (v & Hv & Mv).
  assert (Nva : v <> a) by (intro E; subst v; rewrite (shrink_not_move s a Sh) in Mv; discriminate).
  exists (sw a (actvar s - 1) v). destruct (dv_counts s a) as (K1 & _). rewrite K1. split.
  - apply (sg_active s a Ha). split; assumption.
  - apply can_move_iff. rewrite dv_alpha, dv_grad, sw_invol. apply can_move_iff. exact Mv.
Qed.

Lemma mover_shrink_vars : forall a (st : qmst * bool), (a <= actvar (fst st))%nat -> HasMover (fst st) ->
  HasMover (fst (box_shrink_vars qops C a st)).
Proof.
  induction a as [|a IH]; intros st Ha Hm; cbn [box_shrink_vars]; [exact Hm|].
  destruct (box_can_shrink qops C (fst st) a) eqn:Sh.
  - apply IH; cbn [fst].
    + destruct (dv_counts (fst st) a) as (K1 & _). rewrite K1. lia.
    + apply mover_deact_var; [lia | exact Sh | exact Hm].
  - apply IH; [lia | exact Hm].
Qed.

Lemma mover_deact_ex (s : qmst) e : Inv_tab s -> (e < actex s)%nat -> eact s e = 0%nat -> HasMover s -> HasMover (deact_ex P s e).
Proof.
  intros I He Hz (v & Hv & Mv). destruct (deact_ex_plain P s e) as (A1 & A2 & _ & _ & _ & A6 & _).
  exists v. rewrite A6. split; [exact Hv|]. apply can_move_iff. rewrite A1, A2. apply can_move_iff. exact Mv.
Qed.

Lemma mover_shrink_exs y0' lin0 : forall a (s : qmst), Inv_all P ncl n C Mrow Mdef K0 y0' lin0 false s -> (a <= actex s)%nat -> HasMover s ->
  HasMover (box_shrink_exs P a s).
Proof.
  induction a as [|a IH]; intros s IA Ha Hm; cbn [box_shrink_exs]; [exact Hm|].
  destruct (Nat.eqb_spec (eact s a) 0) as [Z|_]; [|apply IH; [exact IA | lia | exact Hm]].
  assert (He : (a < actex s)%nat) by lia. pose proof IA as (I & _).
  destruct (deact_ex_all P ncl n C Mrow Mdef K0 y0' lin0 false s a IA He Z) as [IA1 _].
  apply IH; [exact IA1 | | apply mover_deact_ex; assumption].
  destruct (deact_ex_plain P s a) as (_ & _ & _ & _ & _ & _ & X & _). rewrite X. lia.
Qed.

Lemma mover_unshrink (s : qmst) : Inv_tab s -> HasMover s -> HasMover (unshrinkQ s).
Proof.
  intros I (v & Hv & Mv). destruct (Nat.eq_dec (actvar s) nv) as [E|N].
  - rewrite (unshrink_id P ncl n Mrow Mdef K0 s E). exists v. split; assumption.
  - destruct (unshrink_fields P ncl n Mrow Mdef K0 s N) as (F1 & _ & _ & _ & _ & _ & _ & _ & _ & _ & _ & _ & _ & F14 & _).
    exists v. rewrite F14. split; [pose proof (it_av _ _ _ I); lia|].
    apply can_move_iff. rewrite F1, (unshrink_grad_active P ncl n Mrow Mdef K0 s v I Hv). apply can_move_iff. exact Mv.
Qed.

Lemma mover_set_unshr (s : qmst) b : HasMover s -> HasMover (set_unshr s b).
Proof. intros (v & Hv & Mv). exists v. split; [exact Hv | exact Mv]. Qed.

Lemma mover_box_shrink lin0 shrinking eps (s : qmst) : Inv_all P ncl n C Mrow Mdef K0 y0 lin0 false s -> HasMover s ->
  HasMover (box_shrinkQ shrinking eps s).
Proof.
  intros IA Hm. unfold box_shrinkQ, box_shrink. destruct shrinking; cbn [negb]; [|exact Hm].
  set (s1 := if negb (munshr s) && o_ltb qops (box_largest qops C s (actvar s)) (o_mul qops (o_ten qops) eps)
             then set_unshr (unshrink qops P ncl n Mrow Mdef K0 s) true else s).
  assert (H1 : Inv_all P ncl n C Mrow Mdef K0 y0 lin0 false s1 /\ HasMover s1).
  { unfold s1. destruct (negb (munshr s) && o_ltb qops (box_largest qops C s (actvar s)) (o_mul qops (o_ten qops) eps)); [|split; assumption].
    destruct (unshrink_all P ncl n C Mrow Mdef K0 HM y0 lin0 false s IA) as (A1 & _).
    split; [apply Inv_all_set_unshr; exact A1|]. apply mover_set_unshr. apply mover_unshrink; [apply IA | exact Hm]. }
  destruct H1 as [IA1 Hm1].
  pose proof (mover_shrink_vars (actvar s1) (s1, false) (le_n _) Hm1) as Hm2.
  destruct (box_shrink_vars_all P ncl n C Mrow Mdef K0 y0 lin0 (actvar s1) (s1, false) IA1 (le_n _)) as [IA2 _].
  set (r := box_shrink_vars qops C (actvar s1) (s1, false)) in *.
  destruct (snd r); [|exact Hm2]. exact (mover_shrink_exs y0 lin0 (actex (fst r)) (fst r) IA2 (le_n _) Hm2).
Qed.

(* one pass through the body of the loop from a selected working set inside the active set *)
Lemma go_step shrinking eps (s : qmst) i j (dosh : bool) : Inv_hist false s -> (i < actvar s)%nat -> (j < actvar s)%nat ->
  let s2 := msmo qops qlowest qtiny P ncl C Mrow Mdef K0 false s i j in
  let s3 := if dosh then mshrink qops P ncl n C Mrow Mdef K0 false shrinking eps s2 else s2 in
  Inv_hist false s3 /\ mobj s <= mobj s3.
Proof.
  intros IH0 Hi Hj s2 s3.
  assert (W : wf_mop s (MSmo i j)) by (split; assumption).
  pose proof (mstep_hist P ncl n C Mrow Mdef K0 HM HMs HKs HD HC y0 false shrinking s (MSmo i j) IH0 W) as I2.
  pose proof (mstep_obj_box P ncl n C Mrow Mdef K0 HM HMs HKs HD HC y0 shrinking s (MSmo i j) IH0 W I) as O2.
  change (mstepQ false shrinking s (MSmo i j)) with s2 in I2, O2.
  unfold s3. destruct dosh; [|split; assumption].
  pose proof (mstep_hist P ncl n C Mrow Mdef K0 HM HMs HKs HD HC y0 false shrinking s2 (MShrink eps) I2 I) as I3.
  pose proof (mstep_obj_box P ncl n C Mrow Mdef K0 HM HMs HKs HD HC y0 shrinking s2 (MShrink eps) I2 I I) as O3.
  split; [exact I3 | apply Qle_trans with (mobj s2); assumption].
Qed.

Theorem mc_solve_box shrinking eps : 0 < eps -> forall fuel it c (s : qmst), Inv_hist false s ->
  let r := solveQ false shrinking eps fuel it c s in
  Inv_hist false (sr_state r) /\ mobj s <= mobj (sr_state r) /\
  (sr_exit r = XAccuracy -> actvar (sr_state r) = nv /\ box_kkt qops C (sr_state r) nv < eps).
Proof.
  intros He. induction fuel as [|f IH]; intros it c s IH0; cbn [mc_solve_steps].
  - cbn [sr_state sr_exit]. split; [exact IH0|]. split; [apply Qle_refl | intros X; discriminate].
  - unfold sel. cbn [fst snd].
    destruct (box_select_spec C qmicro P ncl Mrow Mdef K0 s 0%nat 0%nat) as (V1 & V2 & V3 & V4 & V5). cbv zeta in V1, V2, V3, V4, V5.
    set (r := box_select qops qmicro P ncl C Mrow Mdef K0 s 0%nat 0%nat) in *.
    assert (Go : forall (s1 : qmst) (ij : nat * nat), Inv_hist false s1 -> mobj s <= mobj s1 -> (fst ij < actvar s1)%nat -> (snd ij < actvar s1)%nat ->
      forall (c1 : scnt) (dosh : bool),
      let s2 := msmo qops qlowest qtiny P ncl C Mrow Mdef K0 false s1 (fst ij) (snd ij) in
      let s3 := if dosh then mshrink qops P ncl n C Mrow Mdef K0 false shrinking eps s2 else s2 in
      let rr := solveQ false shrinking eps f (S it) c1 s3 in
      Inv_hist false (sr_state rr) /\ mobj s <= mobj (sr_state rr) /\
      (sr_exit rr = XAccuracy -> actvar (sr_state rr) = nv /\ box_kkt qops C (sr_state rr) nv < eps)).
    { intros s1 ij I1 O1 Hi Hj c1 dosh s2 s3 rr.
      destruct (go_step shrinking eps s1 (fst ij) (snd ij) dosh I1 Hi Hj) as [I3 O3]. fold s2 s3 in I3, O3.
      destruct (IH (S it) c1 s3 I3) as (R1 & R2 & R3). fold rr in R1, R2, R3.
      split; [exact R1|]. split; [|exact R3]. apply Qle_trans with (mobj s1); [exact O1|]. apply Qle_trans with (mobj s3); assumption. }
    cbn [o_ltb qops]. destruct (qltb_spec (fst r) eps) as [[E X]|[E X]]; rewrite E.
    + (* accuracy test *)
      destruct IH0 as [lin0 IA].
      destruct (unshrink_all P ncl n C Mrow Mdef K0 HM y0 lin0 false s IA) as (A1 & A2 & A3 & A4).
      set (s1 := unshrink qops P ncl n Mrow Mdef K0 s) in *.
      assert (Av : actvar s1 = nv).
      { unfold s1. destruct (Nat.eq_dec (actvar s) nv) as [Ee|Ne].
        - fold (unshrinkQ s). rewrite (unshrink_id P ncl n Mrow Mdef K0 s Ee). exact Ee.
        - apply (unshrink_fields P ncl n Mrow Mdef K0 s Ne). }
      unfold kkt. destruct (qltb_spec (box_kkt qops C s1 (actvar s1)) eps) as [[E2 X2]|[E2 X2]]; rewrite E2.
      * cbn [sr_state sr_exit]. split; [exists lin0; exact A1|]. split; [unfold unshrinkQ in A4; fold s1 in A4; rewrite A4; apply Qle_refl|].
        intros _. split; [exact Av | rewrite <- Av; exact X2].
      * assert (Hm1 : HasMover s1).
        { destruct (kkt_mover s1 (actvar s1) eps He) as (v & Hv & Mv); [lra | exists v; split; assumption]. }
        pose proof (mover_box_shrink lin0 shrinking eps s1 A1 Hm1) as Hm2.
        destruct (box_shrink_all P ncl n C Mrow Mdef K0 HM y0 lin0 shrinking eps s1 A1) as (B1 & _ & B3). cbv zeta in B1, B3.
        unfold mshrink.
        set (s2 := box_shrink qops P ncl n C Mrow Mdef K0 shrinking eps s1) in *.
        destruct (box_select_spec C qmicro P ncl Mrow Mdef K0 s2 (fst (snd r)) (snd (snd r))) as (W1 & W2 & W3 & W4 & W5). cbv zeta in W1, W2, W3, W4, W5.
        pose proof (mover_viol s2 (fst (snd r)) Hm2) as Vp.
        assert (Vp' : 0 < fst (box_select qops qmicro P ncl C Mrow Mdef K0 s2 (fst (snd r)) (snd (snd r)))).
        { unfold box_select. destruct (o_eqb qops (fst (bsel_first qops C s2 (actvar s2) (fst (snd r)))) (o_zero qops)); exact Vp. }
        destruct (W5 Vp') as (Wi & _ & Wj & _).
        apply Go; try assumption.
        -- exists lin0. exact B1.
        -- unfold box_shrinkQ in B3. fold s2 in B3. rewrite B3. unfold unshrinkQ in A4. fold s1 in A4. rewrite A4. apply Qle_refl.
    + assert (Vp : 0 < fst r) by lra. destruct (V5 Vp) as (Wi & _ & Wj & _).
      apply Go; try assumption. apply Qle_refl.
Qed.

End SolveBox.
