(* C16 — book-keeping of the bias solvers (model C16Bias.v): over every history of solver operations (updateSMO, shrink,
   unshrink) interleaved with performBiasUpdate calls, the linear term of the problem stays
       linear(i,p) = initial linear(i,p) - sum over the entries of nu.row(label(i) |P| + p) of value * offset(index)
   for the offsets accumulated so far, by DATA index (i, p), together with the full solver invariant.  No claim about
   the offsets being optimal (known finding C16-BIAS). *)
From Coq Require Import QArith Qminmax Lqa Arith Bool List Lia.
From SharkV Require Import C08Model C08Defs C08Aux C08Proofs C16Model C16State C16Proofs C16ProofsMc C16StateDefs
  C16GradProofs C16SmoProofs C16SmoSimplexProofs C16TablesProofs C16DeactProofs C16UnshrinkProofs C16ShrinkProofs
  C16SimplexShrinkProofs C16HistProofs C16Bias.
Import ListNotations.
Open Scope Q_scope.

(* sum over the explicit entries of a sparse row *)
Fixpoint Lsum (es : list (nat * Q)) (f : nat -> Q) : Q :=
  match es with [] => 0 | (ix, v) :: t => v * f ix + Lsum t f end.

Lemma Lsum_add es f g : Lsum es (fun c => f c + g c) == Lsum es f + Lsum es g.
Proof. induction es as [|[ix v] t IH]; cbn [Lsum]; [ring | rewrite IH; ring]. Qed.

Section BiasQ.
Variable P ncl n : nat.
Variable C : Q.
Variable Mrow : nat -> list (nat * Q).
Variable Mdef : nat -> Q.
Variable K0 : nat -> nat -> Q.
Hypothesis HM : Mwf P Mrow.
Hypothesis HMs : Msym P ncl Mrow Mdef.
Hypothesis HKs : K0sym K0.
Hypothesis HD : Qdiag_nonneg P ncl Mrow Mdef K0.
Hypothesis HC : 0 < C.
Variable nuRow : nat -> list (nat * Q).
Variable y0 : nat -> nat.
Variable linit : nat -> nat -> Q.          (* the linear term the problem was constructed with *)

Notation Inv_all := (Inv_all P ncl n C Mrow Mdef K0 y0).
Notation mstepQ := (mstepQ P ncl n C Mrow Mdef K0).

(* the linear term that belongs to the offsets b *)
Definition lin_of (b : nat -> Q) : nat -> nat -> Q := fun i p => linit i p - Lsum (nuRow (y0 i * P + p)) b.

Lemma bias_delta_Lsum step i p : bias_delta qops P nuRow y0 step i p == - Lsum (nuRow (y0 i * P + p)) step.
Proof.
  unfold bias_delta. cbn [o_zero o_sub o_mul qops].
  assert (G : forall es acc, fold_left (fun a (e : nat * Q) => a - snd e * step (fst e)) es acc == acc - Lsum es step).
  { induction es as [|[ix v] t IH]; intros acc; cbn [fold_left Lsum fst snd]; [ring | rewrite IH; ring]. }
  rewrite G. ring.
Qed.

Lemma Inv_all_lin_ext lin0 lin0' b (s : qmst) : (forall i p, lin0 i p == lin0' i p) -> Inv_all lin0 b s -> Inv_all lin0' b s.
Proof.
  intros E (I & [D1 D2] & G & Cn). split; [exact I|]. split; [|split; assumption].
  split; [exact D1|]. intros v Hv. destruct (D2 v Hv) as [A B]. split; [rewrite A; apply E | exact B].
Qed.

(* performBiasUpdate + "bias += step" *)
Theorem bias_update_inv b (s : qmst) bias step : Inv_all (lin_of bias) b s ->
  let st' := bias_update qops P n nuRow y0 (s, bias) step in
  Inv_all (lin_of (snd st')) b (fst st') /\ (forall c, snd st' c == bias c + step c).
Proof.
  intros IA st'. unfold st', bias_update. cbn [fst snd o_add qops]. split; [|intros; reflexivity].
  pose proof (add_delta_linear_all P ncl n C Mrow Mdef K0 y0 (lin_of bias) b s (bias_delta qops P nuRow y0 step) IA) as H.
  unfold add_delta_linearQ in H. revert H. apply Inv_all_lin_ext.
  intros i p. unfold lin_of. rewrite bias_delta_Lsum, Lsum_add. ring.
Qed.

(* a solver operation other than addDeltaLinear keeps the invariant WITH THE SAME linear term *)
Lemma mstep_keeps_lin0 lin0 b shrinking (s : qmst) o : Inv_all lin0 b s -> wf_mop s o -> no_addlin o ->
  Inv_all lin0 b (mstepQ b shrinking s o).
Proof.
  intros IA W NA. destruct o as [v w|eps| |d]; unfold mstepQ, mstep.
  - destruct W as [Hv Hw]. destruct IA as (I & D & G & Cn). destruct b.
    + destruct (simplex_smo_preserves P ncl n C Mrow Mdef K0 HM HMs HKs HD HC y0 lin0 s v w I D G Cn Hv Hw)
        as (A1 & A2 & A3 & A4 & _). split; [exact A1|]. split; [exact A2|]. split; [exact A3 | exact A4].
    + destruct (box_smo_preserves P ncl n C Mrow Mdef K0 HM HMs HKs HD (Qlt_le_weak _ _ HC) y0 lin0 s v w I D G Cn Hv Hw)
        as (A1 & A2 & A3 & A4 & _). split; [exact A1|]. split; [exact A2|]. split; [exact A3 | exact A4].
  - destruct b.
    + apply (simplex_shrink_all P ncl n C Mrow Mdef K0 HM y0 lin0 shrinking eps s IA).
    + apply (box_shrink_all P ncl n C Mrow Mdef K0 HM y0 lin0 shrinking eps s IA).
  - apply (unshrink_all P ncl n C Mrow Mdef K0 HM y0 lin0 b s IA).
  - destruct NA.
Qed.

Lemma mrun_keeps_lin0 lin0 b shrinking : forall ops (s : qmst), Inv_all lin0 b s ->
  wf_mrun P ncl n C Mrow Mdef K0 b shrinking s ops -> Forall no_addlin ops ->
  Inv_all lin0 b (mrunQ P ncl n C Mrow Mdef K0 b shrinking s ops).
Proof.
  induction ops as [|o t IH]; intros s IA W NA; [exact IA|].
  destruct W as [W1 W2]. inversion NA as [|? ? N1 N2]; subst. unfold mrunQ, mrun. cbn [fold_left].
  apply (IH (mstepQ b shrinking s o)); [apply mstep_keeps_lin0; assumption | exact W2 | exact N2].
Qed.

(* the outer loop of BiasSolver / BiasSolverSimplex: runs of the inner solver alternate with offset steps *)
Inductive bop := BSolve (ops : list (mop Q)) | BStep (step : nat -> Q).

Definition bstep (b shrinking : bool) (st : qmst * (nat -> Q)) (o : bop) : qmst * (nat -> Q) :=
  match o with
  | BSolve ops => (mrunQ P ncl n C Mrow Mdef K0 b shrinking (fst st) ops, snd st)
  | BStep step => bias_update qops P n nuRow y0 st step
  end.
Definition brun (b shrinking : bool) (st : qmst * (nat -> Q)) (os : list bop) : qmst * (nat -> Q) := fold_left (bstep b shrinking) os st.

Fixpoint wf_brun (b shrinking : bool) (st : qmst * (nat -> Q)) (os : list bop) : Prop :=
  match os with
  | [] => True
  | o :: t =>
    (match o with BSolve ops => wf_mrun P ncl n C Mrow Mdef K0 b shrinking (fst st) ops /\ Forall no_addlin ops | BStep _ => True end) /\
    wf_brun b shrinking (bstep b shrinking st o) t
  end.

(* FULL statement: every history of the bias solver keeps the solver invariant with the linear term that belongs to
   the current offsets *)
Theorem bias_history b shrinking : forall os (st : qmst * (nat -> Q)), Inv_all (lin_of (snd st)) b (fst st) ->
  wf_brun b shrinking st os ->
  let st' := brun b shrinking st os in Inv_all (lin_of (snd st')) b (fst st').
Proof.
  induction os as [|o t IH]; intros st IA W; [exact IA|].
  destruct W as [W1 W2]. unfold brun. cbn [fold_left]. apply IH; [|exact W2].
  destruct o as [ops|step]; cbn [bstep fst snd].
  - destruct W1 as [Wa Wb]. apply mrun_keeps_lin0; assumption.
  - destruct st as [s bias]. apply (bias_update_inv b s bias step IA).
Qed.

(* spelled out: the linear term of every variable, by data index *)
Corollary bias_history_linear b shrinking os (st : qmst * (nat -> Q)) : Inv_all (lin_of (snd st)) b (fst st) ->
  wf_brun b shrinking st os ->
  let st' := brun b shrinking st os in
  forall v, (v < nv P n)%nat ->
    mlin (fst st') v == linit (eorig (fst st') (vex (fst st') v)) (vp (fst st') v)
                        - Lsum (nuRow (y0 (eorig (fst st') (vex (fst st') v)) * P + vp (fst st') v)) (snd st').
Proof.
  intros IA W st' v Hv. destruct (bias_history b shrinking os st IA W) as (_ & [_ D2] & _). fold st' in D2.
  destruct (D2 v Hv) as [A _]. exact A.
Qed.

End BiasQ.
