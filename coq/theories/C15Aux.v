(* C15 — auxiliary lemmas: finite sums over lists (bsum, dsum) and index ranges (sumn) in Q. *)
From Coq Require Import List Arith Bool QArith Lia Lqa Setoid.
From SharkV Require Import ListAux C03Model C15Model.
Import ListNotations.
Open Scope Q_scope.

(* ---------- bsum ---------- *)
Lemma bsum_nil {X} (f : X -> Q) : bsum f [] == 0.
Proof. reflexivity. Qed.

Lemma bsum_cons {X} (f : X -> Q) x b : bsum f (x :: b) == f x + bsum f b.
Proof. unfold bsum; cbn [fold_right]. apply Qred_correct. Qed.

Lemma bsum_app {X} (f : X -> Q) a b : bsum f (a ++ b) == bsum f a + bsum f b.
Proof.
  induction a as [|x a IH]; cbn [app].
  - rewrite bsum_nil. ring.
  - rewrite !bsum_cons, IH. ring.
Qed.

Lemma bsum_ext_in {X} (f g : X -> Q) l : (forall x, In x l -> f x == g x) -> bsum f l == bsum g l.
Proof.
  induction l as [|x l IH]; intros H.
  - reflexivity.
  - rewrite !bsum_cons, IH, (H x) by (intros; try apply H; simpl; auto). reflexivity.
Qed.

Lemma bsum_ext {X} (f g : X -> Q) l : (forall x, f x == g x) -> bsum f l == bsum g l.
Proof. intros; apply bsum_ext_in; auto. Qed.

Lemma bsum_plus {X} (f g : X -> Q) l : bsum (fun x => f x + g x) l == bsum f l + bsum g l.
Proof.
  induction l as [|x l IH]; [rewrite !bsum_nil; ring|].
  rewrite !bsum_cons, IH. ring.
Qed.

Lemma bsum_minus {X} (f g : X -> Q) l : bsum (fun x => f x - g x) l == bsum f l - bsum g l.
Proof.
  induction l as [|x l IH]; [rewrite !bsum_nil; ring|].
  rewrite !bsum_cons, IH. ring.
Qed.

Lemma bsum_scal {X} (c : Q) (f : X -> Q) l : bsum (fun x => c * f x) l == c * bsum f l.
Proof.
  induction l as [|x l IH]; [rewrite !bsum_nil; ring|].
  rewrite !bsum_cons, IH. ring.
Qed.

Lemma bsum_scal_r {X} (c : Q) (f : X -> Q) l : bsum (fun x => f x * c) l == bsum f l * c.
Proof.
  induction l as [|x l IH]; [rewrite !bsum_nil; ring|].
  rewrite !bsum_cons, IH. ring.
Qed.

Lemma qlen_cons {X} (x : X) l : qlen (x :: l) == 1 + qlen l.
Proof.
  unfold qlen. cbn [length]. rewrite Nat2Z.inj_succ, <- Z.add_1_l, inject_Z_plus. reflexivity.
Qed.

Lemma qlen_nonneg {X} (l : list X) : 0 <= qlen l.
Proof. unfold qlen. change 0 with (inject_Z 0). rewrite <- Zle_Qle. lia. Qed.

Lemma qlen_pos {X} (l : list X) : l <> [] -> 0 < qlen l.
Proof.
  destruct l; [congruence|]. intros _. rewrite qlen_cons. pose proof (qlen_nonneg l). lra.
Qed.

Lemma bsum_const {X} (c : Q) (l : list X) : bsum (fun _ => c) l == c * qlen l.
Proof.
  induction l as [|x l IH]; [rewrite bsum_nil; unfold qlen; cbn; ring|].
  rewrite bsum_cons, IH, qlen_cons. ring.
Qed.

Lemma bsum_map {X Y} (h : X -> Y) (f : Y -> Q) l : bsum f (map h l) == bsum (fun x => f (h x)) l.
Proof.
  induction l as [|x l IH]; [reflexivity|]. cbn [map]. rewrite !bsum_cons, IH. reflexivity.
Qed.

Lemma bsum_sq_nonneg {X} (f : X -> Q) l : 0 <= bsum (fun x => f x * f x) l.
Proof.
  induction l as [|x l IH]; [rewrite bsum_nil; lra|].
  rewrite bsum_cons. pose proof (Qmult_le_0_compat (f x) (f x)).
  destruct (Qlt_le_dec (f x) 0) as [Hn|Hp].
  - assert (0 <= f x * f x) by (setoid_replace (f x * f x) with ((- f x) * (- f x)) by ring;
      apply Qmult_le_0_compat; lra). lra.
  - assert (0 <= f x * f x) by (apply Qmult_le_0_compat; lra). lra.
Qed.

(* ---------- dsum ---------- *)
Lemma dsum_nil {X} (f : X -> Q) : dsum f [] == 0.
Proof. reflexivity. Qed.

Lemma dsum_cons {X} (f : X -> Q) b (d : @data X) : dsum f (b :: d) == bsum f b + dsum f d.
Proof. unfold dsum; cbn [fold_right]. apply Qred_correct. Qed.

(* accumulation over the batches = sum over the concatenation *)
Lemma dsum_elems {X} (f : X -> Q) (d : @data X) : dsum f d == bsum f (elems d).
Proof.
  induction d as [|b d IH]; [reflexivity|].
  unfold elems in *. cbn [concat]. rewrite dsum_cons, bsum_app, IH. reflexivity.
Qed.

Lemma count_qlen {X} (d : @data X) : count d = qlen (elems d).
Proof. reflexivity. Qed.

Lemma dsum_ext {X} (f g : X -> Q) (d : @data X) : (forall x, f x == g x) -> dsum f d == dsum g d.
Proof. intros. rewrite !dsum_elems. apply bsum_ext; auto. Qed.

Lemma dsum_plus {X} (f g : X -> Q) (d : @data X) : dsum (fun x => f x + g x) d == dsum f d + dsum g d.
Proof. rewrite !dsum_elems. apply bsum_plus. Qed.

Lemma dsum_minus {X} (f g : X -> Q) (d : @data X) : dsum (fun x => f x - g x) d == dsum f d - dsum g d.
Proof. rewrite !dsum_elems. apply bsum_minus. Qed.

Lemma dsum_scal {X} (c : Q) (f : X -> Q) (d : @data X) : dsum (fun x => c * f x) d == c * dsum f d.
Proof. rewrite !dsum_elems. apply bsum_scal. Qed.

Lemma dsum_scal_r {X} (c : Q) (f : X -> Q) (d : @data X) : dsum (fun x => f x * c) d == dsum f d * c.
Proof. rewrite !dsum_elems. apply bsum_scal_r. Qed.

Lemma dsum_const {X} (c : Q) (d : @data X) : dsum (fun _ => c) d == c * count d.
Proof. rewrite dsum_elems, count_qlen. apply bsum_const. Qed.

Lemma dsum_sq_nonneg {X} (f : X -> Q) (d : @data X) : 0 <= dsum (fun x => f x * f x) d.
Proof. rewrite dsum_elems. apply bsum_sq_nonneg. Qed.

(* ---------- sumn ---------- *)
Lemma sumn_O f : sumn 0 f == 0.
Proof. reflexivity. Qed.

Lemma sumn_S n f : sumn (S n) f == sumn n f + f n.
Proof. cbn [sumn]. apply Qred_correct. Qed.

Lemma sumn_ext n f g : (forall i, (i < n)%nat -> f i == g i) -> sumn n f == sumn n g.
Proof.
  induction n as [|n IH]; intros H; [reflexivity|].
  rewrite !sumn_S, IH, (H n) by (intros; try apply H; lia). reflexivity.
Qed.

Lemma sumn_zero n : sumn n (fun _ => 0) == 0.
Proof. induction n as [|n IH]; [reflexivity|]. rewrite sumn_S, IH. ring. Qed.

Lemma sumn_plus n f g : sumn n (fun i => f i + g i) == sumn n f + sumn n g.
Proof. induction n as [|n IH]; [rewrite !sumn_O; ring|]. rewrite !sumn_S, IH. ring. Qed.

Lemma sumn_minus n f g : sumn n (fun i => f i - g i) == sumn n f - sumn n g.
Proof. induction n as [|n IH]; [rewrite !sumn_O; ring|]. rewrite !sumn_S, IH. ring. Qed.

Lemma sumn_scal n c f : sumn n (fun i => c * f i) == c * sumn n f.
Proof. induction n as [|n IH]; [rewrite !sumn_O; ring|]. rewrite !sumn_S, IH. ring. Qed.

Lemma sumn_scal_r n c f : sumn n (fun i => f i * c) == sumn n f * c.
Proof. induction n as [|n IH]; [rewrite !sumn_O; ring|]. rewrite !sumn_S, IH. ring. Qed.

Lemma sumn_swap n m (f : nat -> nat -> Q) :
  sumn n (fun i => sumn m (fun j => f i j)) == sumn m (fun j => sumn n (fun i => f i j)).
Proof.
  induction n as [|n IH].
  - rewrite sumn_O. symmetry. apply sumn_zero.
  - rewrite sumn_S, IH. rewrite <- sumn_plus. apply sumn_ext; intros. rewrite sumn_S. reflexivity.
Qed.

Lemma sumn_delta n i a : (i < n)%nat -> sumn n (fun k => delta i k * a k) == a i.
Proof.
  induction n as [|n IH]; intros H; [lia|].
  rewrite sumn_S. unfold delta at 2. destruct (Nat.eqb_spec i n) as [->|Hne].
  - assert (E : sumn n (fun k => delta n k * a k) == 0).
    { rewrite <- (sumn_zero n). apply sumn_ext; intros k Hk. unfold delta.
      destruct (Nat.eqb_spec n k); [lia|ring]. }
    rewrite E. ring.
  - rewrite IH by lia. ring.
Qed.

Lemma sumn_delta_out n i a : (n <= i)%nat -> sumn n (fun k => delta i k * a k) == 0.
Proof.
  intros H. rewrite <- (sumn_zero n). apply sumn_ext; intros k Hk. unfold delta.
  destruct (Nat.eqb_spec i k); [lia|ring].
Qed.

Lemma delta_sym i k : delta i k = delta k i.
Proof. unfold delta. rewrite Nat.eqb_sym. reflexivity. Qed.

Lemma sumn_sq_nonneg n f : 0 <= sumn n (fun i => f i * f i).
Proof.
  induction n as [|n IH]; [rewrite sumn_O; lra|]. rewrite sumn_S.
  assert (0 <= f n * f n).
  { destruct (Qlt_le_dec (f n) 0).
    - setoid_replace (f n * f n) with ((- f n) * (- f n)) by ring. apply Qmult_le_0_compat; lra.
    - apply Qmult_le_0_compat; lra. }
  lra.
Qed.

(* sums over the data and over an index range commute *)
Lemma bsum_sumn {X} n (F : nat -> X -> Q) l :
  bsum (fun x => sumn n (fun j => F j x)) l == sumn n (fun j => bsum (F j) l).
Proof.
  induction l as [|x l IH].
  - rewrite bsum_nil. symmetry. rewrite <- (sumn_zero n). apply sumn_ext; intros; apply bsum_nil.
  - rewrite bsum_cons, IH, <- sumn_plus. apply sumn_ext; intros. rewrite bsum_cons. reflexivity.
Qed.

Lemma dsum_sumn {X} n (F : nat -> X -> Q) (d : @data X) :
  dsum (fun x => sumn n (fun j => F j x)) d == sumn n (fun j => dsum (F j) d).
Proof.
  rewrite dsum_elems, bsum_sumn. apply sumn_ext; intros. rewrite dsum_elems. reflexivity.
Qed.
